#!/usr/bin/env python3
"""Writes /verif/MANIFEST.json from the table below and validates it against the schema."""
import json
import os
import sys

V = os.path.dirname(os.path.dirname(os.path.abspath(__file__)))
sys.path.insert(0, os.path.join(V, "check"))
from claims import CLAIMS, NOT_APPLICABLE, HOOK_COMMITS  # noqa

m = {
    "version": 1,
    "setup_cmd": "cd /verif && python3 check/setup.py",
    "hooks": {
        "guard": "LIBCUCKOO_VERIF",
        "enable": "harnesses are compiled with -DLIBCUCKOO_VERIF (plus -DLIBCUCKOO_VERIF_MAX_NUM_LOCKS=<n> for the "
                  "small-stripe configurations) against /repo's headers by check/common.py build_harness()",
        "baseline_off_cmd": "cmake -G Ninja -S /repo -B /repo/_build -DBUILD_TESTS=ON -DCMAKE_BUILD_TYPE=RelWithDebInfo "
                            "-DCMAKE_CXX_FLAGS=-Wno-error && cmake --build /repo/_build && "
                            "ctest --test-dir /repo/_build -j8 --timeout 900",
        "source_commits": HOOK_COMMITS,
        "add_only": True,
    },
    "engines": [
        {"name": "lean-proof", "path": "lean/", "kind_free_text": "Lean 4 model + theorems (lake build, #print axioms audit, leanchecker in thorough tier)",
         "serves_properties": [c["property_id"] for c in CLAIMS]},
        {"name": "translators", "path": "translate/", "kind_free_text": "LLVM-IR/AST -> Lean generators (T-A..T-D), regenerated on every run",
         "serves_properties": ["C13", "C03", "C14", "C15"]},
        {"name": "correspondence", "path": "harness/", "kind_free_text": "C++ harnesses running the real code in-process against the compiled Lean driver (K1..K6)",
         "serves_properties": [c["property_id"] for c in CLAIMS]},
    ],
    "checks": [],
    "notes": "Every check is `python3 check/check.py <ID> --tier quick|thorough`; see DESIGN.md sections 4-6 and 12 (as built).",
    "not_applicable": NOT_APPLICABLE,
}
for c in CLAIMS:
    pid = c["property_id"]
    m["checks"].append({
        "property_id": pid,
        "quick_cmd": "python3 check/check.py %s --tier quick" % pid,
        "thorough_cmd": "python3 check/check.py %s --tier thorough" % pid,
        "evidence_file": "/verif/evidence/%s.json" % pid,
        "replay_cmd_template": "python3 check/check.py %s --replay {path}" % pid,
        "engine": "lean-proof",
        "level_claimed": {"category": c.get("category", "proof"), "text": c["text"], "design_ref": c["design_ref"]},
        "level_note": c["note"],
        "technique": c["technique"],
    })
json.dump(m, open(os.path.join(V, "MANIFEST.json"), "w"), indent=1)
try:
    import jsonschema
    jsonschema.validate(m, json.load(open("/root/.vp/MANIFEST.schema.json")))
    print("MANIFEST.json valid (%d checks, %d not_applicable)" % (len(m["checks"]), len(NOT_APPLICABLE)))
except ImportError:
    print("jsonschema not available; MANIFEST.json written without validation")
