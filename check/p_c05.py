"""C05: Lean theorems of Props/C05.lean on the executable model + K2 correspondence (DESIGN.md 6/C05, 12)."""
import k2check


def run(tier):
    return k2check.run("C05", tier, profile="mixed")


def replay(path):
    return k2check.replay("C05", path)
