"""C05: Lean theorems of Props/C05.lean on the executable model + K2 correspondence (DESIGN.md 6/C05, 12);
size()/empty() must also stay exact across FAILED operations: the K5 fault scenarios are judged for that here."""
import json

import k2check
import k5check


def run(tier):
    return k2check.run("C05", tier, profile="mixed", extra_props=["C05Conc"], phases=[k5check.k5_phase_for("C05")])


def replay(path):
    d = json.load(open(path))
    if any(f.get("harness") == "k5" for f in d.get("failing_inputs", [])):
        return k5check.replay("C05", path)
    return k2check.replay("C05", path)
