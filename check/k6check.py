"""K6-backed checks (C14, C15): T-D regenerates Gen/CApi.lean from the wrapper's source, Lean obligations of Props/<ID>.lean,
C-vs-C++ lock-step correspondence with fault sweeps and truncation."""
import json
import os
import sys

import common as C
import k6


def regen_capi():
    gen = os.path.join(C.CACHE, "gen")
    os.makedirs(gen, exist_ok=True)
    tmp = os.path.join(gen, "CApi.lean")
    rc, out, _ = C.sh([sys.executable, os.path.join(C.VERIF, "translate", "capi_table.py"), C.REPO, tmp, gen])
    if rc != 0:
        return False, ["T-D: " + out.strip()[-1500:]]
    msgs = []
    if C.write_if_changed(os.path.join(C.LEAN, "Cuckoo", "Gen", "CApi.lean"), open(tmp).read()):
        msgs.append("T-D: Gen/CApi.lean changed")
    return True, msgs


def run(pid, tier, phases=()):
    res = C.Result(pid, tier)
    known = [k for k in C.load_known().get("findings", []) if k.get("property") == pid]
    with C.Lock():
        lean_ok, names = C.lean_phase(res, pid, gen_fn=C.both(regen_capi, C.regen_limits) if pid == "C15" else regen_capi,
                                      extra_props=["C10Limits"] if pid == "C15" else [])
    for ph in phases:
        ph(res, tier)
    out = k6.explore(tier, C.seed())
    for b in out["build_errors"]:
        res.add_broken("K6 harness does not compile against /repo", b["log"])
    for c in out["crashes"][:2]:
        res.add_broken("K6 harness crashed (rc=%s) at request `%s`" % (c["rc"], c["at_request"]), c["tail"])
        res.add_failing({"what": "crash of the C wrapper / table", "types": c.get("types"), "requests": c["prefix"], "tail": c["tail"]})
    mine = [f for f in out["findings"] if pid in f["properties"]]
    for f in mine[:4]:
        res.add_failing({"what": f["answer"], "types": f.get("types"), "request": f["request"], "requests": f["prefix"]})
    if res.failing and not res.broken:
        res.add_broken("K6 oracle: the C wrapper's behaviour violates %s" % pid)
    res.cov.update({
        "evaluations": out["requests"] + out["fault_positions"] + out["prefixes"],
        "distinct_nontrivial": len(out["entry_kinds"]),
        "rule": "K6: random sequences over the C entry points (table, locked table, iterators, file) executed on the wrapper and, in lock step, "
                "on a cuckoohash_map of the same types (instantiations int->int, int->long long, long long->short); compared: every return value / out-parameter, contents, iteration order both ways; every C call "
                "wrapped in catch(...); `sweep` fails the k-th global allocation for every reachable k (errno==ENOMEM, failure value, contents "
                "unchanged); written files are re-read whole and at EVERY truncation point (NULL, nothing leaked); one scenario in four uses keys "
                "colliding in every small table. distinct_nontrivial = distinct request kinds exercised",
        "samples": out["samples"],
        "scenarios": out["scenarios"],
        "fault_positions": out["fault_positions"],
        "truncation_points": out["prefixes"],
        "request_kinds": out["entry_kinds"],
    })
    res.assumptions += ["three instantiations of the wrapper template (equal and different key/mapped sizes); the C++ member semantics are those of C02/C09/C17",
                        "the forwarding / catch table is extracted by translate/capi_table.py (text scan cross-checked with clang's AST)"]
    return C.finish(res, "proof", "python3 translate/capi_table.py; cd lean && lake build Cuckoo.Props.%s && #print axioms audit; K6 (check/k6check.py)" % pid)


def replay(pid, path):
    d = json.load(open(path))
    print(json.dumps(d.get("no_longer_checks", []), indent=1)[:2000])
    bad = 0
    for f in d.get("failing_inputs", []):
        if "requests" not in f:
            continue
        ok, exe, log = k6.harness(tuple(f["types"]) if f.get("types") else k6.TYPES[0])
        if not ok:
            print(log)
            return 2
        rc, res, err = k6.run_scenario(exe, f["requests"])
        print("replay: last answer: %s" % (res[-1] if res else "<none>"))
        if res and (res[-1].startswith("DIFF") or res[-1].startswith("CROSSED") or rc != 0):
            bad += 1
    return 1 if bad else 0
