"""C04 (protocol-level): see DESIGN.md section 6/C04 and 12."""
import k2check
import k3check


def run(tier):
    return k3check.run("C04", tier, phases=[k2check.locked_phase("C04")])


def replay(path):
    return k3check.replay("C04", path)
