#!/usr/bin/env python3
"""Self-confirmation of the seeded defects kept under /verif/seeded/<name>/ (not a registered check).

For every seed, in a scratch git worktree of /repo's HEAD (under /tmp, removed afterwards):
  1. the demo builds against the ORIGINAL headers and exits 0;
  2. the patch applies, the headers still compile with and without -DLIBCUCKOO_VERIF;
  3. the demo, rebuilt against the CHANGED headers, fails (non-zero exit, crash, or timeout);
  4. (--ctest) the repository's own test suite still passes with the change.
The outcome is written to seeded/<name>/confirmed.json.

usage: confirm_seeds.py [--ctest] [name-substring ...]
"""
import json
import os
import re
import shutil
import subprocess
import sys
import time

VERIF = os.path.dirname(os.path.dirname(os.path.abspath(__file__)))
REPO = os.environ.get("VERIF_REPO", "/repo")


def sh(cmd, cwd=None, timeout=600):
    try:
        p = subprocess.run(cmd, shell=True, cwd=cwd, stdout=subprocess.PIPE, stderr=subprocess.STDOUT, timeout=timeout,
                           universal_newlines=True, errors="replace")
        return p.returncode, p.stdout
    except subprocess.TimeoutExpired as e:
        out = e.stdout or ""
        if isinstance(out, bytes):
            out = out.decode(errors="replace")
        return -999, out + "\nTIMEOUT"


def demo_flags(seed_dir):
    flags = ["-std=c++17", "-O1", "-g", "-pthread"]
    meta = json.load(open(os.path.join(seed_dir, "meta.json")))
    if meta.get("demo_flags"):
        return meta["demo_flags"].split()
    try:
        for ln in open(os.path.join(seed_dir, "README.md")):
            if "g++" in ln and "demo.cc" in ln and "-fsyntax-only" not in ln:
                for tok in re.findall(r"-D\w+(?:=\w+)?|-fsanitize=[\w,]+", ln):
                    if tok not in flags:
                        flags.append(tok)
                break
    except OSError:
        pass
    return flags


def confirm(name, with_ctest):
    sd = os.path.join(VERIF, "seeded", name)
    wt = "/tmp/cs_" + re.sub(r"\W", "_", name)
    res = {"seed": name, "repo_head": sh("git -C %s rev-parse --short HEAD" % REPO)[1].strip(), "when": time.strftime("%Y-%m-%d %H:%M:%S")}
    sh("git -C %s worktree remove --force %s" % (REPO, wt))
    shutil.rmtree(wt, ignore_errors=True)
    rc, out = sh("git -C %s worktree add --detach %s HEAD" % (REPO, wt))
    if rc != 0:
        res["error"] = "worktree: " + out[-400:]
        return res
    try:
        os.makedirs(os.path.join(wt, "_seed"), exist_ok=True)
        for f in os.listdir(sd):
            if f.endswith((".cc", ".hh", ".h", ".c")):
                shutil.copy(os.path.join(sd, f), os.path.join(wt, "_seed", f))
        flags = " ".join(demo_flags(sd))
        build = "g++ %s -I. -I_seed _seed/demo.cc -o _seed/demo" % flags
        res["demo_build"] = build
        rc, out = sh(build, cwd=wt, timeout=600)
        if rc != 0:
            res["error"] = "demo does not build on the original: " + out[-600:]
            return res
        rc, out = sh("timeout 300 ./_seed/demo", cwd=wt, timeout=400)
        res["demo_on_original_rc"] = rc
        rc, out = sh("git apply %s" % os.path.join(sd, "patch.diff"), cwd=wt)
        res["patch_applies"] = rc == 0
        if rc != 0:
            res["error"] = "patch does not apply to HEAD: " + out[-400:]
            return res
        tu = "#include <libcuckoo/cuckoohash_map.hh>\nint main(){libcuckoo::cuckoohash_map<int,int> t; t.insert(1,1); return 0;}\n"
        open(os.path.join(wt, "_seed", "tu.cc"), "w").write(tu)
        rc1, o1 = sh("g++ -std=c++17 -fsyntax-only -I. _seed/tu.cc", cwd=wt)
        rc2, o2 = sh("g++ -std=c++17 -fsyntax-only -DLIBCUCKOO_VERIF -I. _seed/tu.cc", cwd=wt)
        res["compiles_guard_off"], res["compiles_guard_on"] = rc1 == 0, rc2 == 0
        rc, out = sh(build, cwd=wt, timeout=600)
        if rc != 0:
            res["error"] = "demo does not build with the change: " + out[-600:]
            return res
        fails = 0
        runs = 3
        for _ in range(runs):
            rc, out = sh("timeout 300 ./_seed/demo", cwd=wt, timeout=400)
            if rc != 0:
                fails += 1
        res["demo_with_change_fails"] = "%d/%d" % (fails, runs)
        if with_ctest:
            rc, out = sh("cmake -G Ninja -S . -B _build -DBUILD_TESTS=ON -DBUILD_UNIT_TESTS=ON -DBUILD_STRESS_TESTS=ON "
                         "-DCMAKE_BUILD_TYPE=RelWithDebInfo >/dev/null && cmake --build _build -j8 2>&1 | tail -3 && "
                         "ctest --test-dir _build -j8 --timeout 900 2>&1 | tail -4", cwd=wt, timeout=3600)
            m = re.search(r"(\d+)% tests passed, (\d+) tests failed out of (\d+)", out)
            res["ctest_with_change"] = m.group(0) if m else "no result: " + out[-300:]
        res["confirmed"] = bool(res["demo_on_original_rc"] == 0 and fails > 0 and res["compiles_guard_off"] and res["compiles_guard_on"]
                                and (not with_ctest or str(res.get("ctest_with_change", "")).startswith("100%")))
        return res
    finally:
        sh("git -C %s worktree remove --force %s" % (REPO, wt))
        shutil.rmtree(wt, ignore_errors=True)
        sh("git -C %s worktree prune" % REPO)


def main():
    args = [a for a in sys.argv[1:] if not a.startswith("--")]
    with_ctest = "--ctest" in sys.argv
    names = sorted(os.listdir(os.path.join(VERIF, "seeded")))
    names = [n for n in names if os.path.isfile(os.path.join(VERIF, "seeded", n, "patch.diff")) and (not args or any(a in n for a in args))]
    bad = 0
    for n in names:
        r = confirm(n, with_ctest)
        old = {}
        p = os.path.join(VERIF, "seeded", n, "confirmed.json")
        if os.path.exists(p) and not with_ctest:
            old = json.load(open(p))
            if "ctest_with_change" in old:
                r["ctest_with_change"] = old["ctest_with_change"] + " (earlier run)"
        json.dump(r, open(p, "w"), indent=1)
        print("%-62s %s  orig rc=%s  changed fails=%s  ctest=%s %s" % (n, "CONFIRMED" if r.get("confirmed") else "NOT-CONFIRMED", r.get("demo_on_original_rc"),
                                                             r.get("demo_with_change_fails"), r.get("ctest_with_change", "-"), r.get("error", "")))
        bad += 0 if r.get("confirmed") else 1
    return 1 if bad else 0


if __name__ == "__main__":
    sys.exit(main())
