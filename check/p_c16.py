"""C16: model theorems on argument consumption (Out.consumed) + K5 observation with move-tracking argument types and
heterogeneous probes (DESIGN.md 6/C16, 12)."""
import k5check


def run(tier):
    return k5check.run("C16", tier, k3_programs=["same-key-upsert-during-displacement", "same-key-upsert-during-displacement-hp3",
                                                 "same-key-inserters"])


def replay(path):
    return k5check.replay("C16", path)
