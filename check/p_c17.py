"""C17: Lean theorems of Props/C17.lean on the executable model + K2 correspondence (DESIGN.md 6/C17, 12)."""
import k2check


def run(tier):
    return k2check.run("C17", tier, profile="functors",
                       k3_programs=["same-key-upsert-during-displacement", "same-key-upsert-during-displacement-hp3",
                                    "same-key-inserters", "expand-vs-updates", "displace-vs-update"],
                       tsan_modes=[2])


def replay(path):
    return k2check.replay("C17", path)
