#!/bin/bash
# usage: trymut.sh <patch.diff> <ID> [<ID> ...]  -- applies a seeded change to /repo, runs the quick checks, reverts
set -u
patch=$1; shift
cd /repo || exit 2
if ! git apply --check "$patch" 2>/dev/null; then echo "patch does not apply"; exit 2; fi
git apply "$patch"
cd /verif
for id in "$@"; do
  start=$(date +%s)
  out=$(python3 check/check.py $id 2>&1 | tail -6)
  echo "== $id ($(( $(date +%s) - start ))s): $(echo "$out" | grep -E 'VIOLATION' | head -1 | cut -c1-250)"
  [ -z "$(echo "$out" | grep VIOLATION)" ] && echo "   (no violation reported) $(echo "$out" | grep -c KNOWN) known-finding line(s)"
done
git -C /repo checkout -- .
git -C /verif checkout -- lean/Cuckoo/Gen 2>/dev/null
