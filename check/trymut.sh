#!/bin/bash
# usage: trymut.sh <patch.diff> <ID> [<ID> ...]
# Runs the quick checks against a seeded change WITHOUT touching /repo or /verif: a scratch copy of /verif (with its
# caches) and a scratch worktree of /repo's HEAD are made under /tmp, the patch is applied there, the checks run with
# VERIF_REPO pointing at the worktree, and everything is removed afterwards.  (Several of these can run side by side,
# and next to checks of the unchanged tree.)
set -u
patch=$(readlink -f "$1"); shift
w=/tmp/mv_$$
mkdir -p $w
git -C /repo worktree add --detach $w/repo HEAD -q || { echo "cannot create worktree"; exit 2; }
cleanup() { git -C /repo worktree remove --force $w/repo 2>/dev/null; rm -rf $w; git -C /repo worktree prune; }
trap cleanup EXIT
if ! git -C $w/repo apply --check "$patch" 2>/dev/null; then echo "patch does not apply"; exit 2; fi
git -C $w/repo apply "$patch"
rsync -a --exclude replays --exclude evidence --exclude seeded --exclude ".cache/k3-*" --exclude ".cache/k6tmp" /verif/ $w/verif/ 2>/dev/null
mkdir -p $w/verif/replays $w/verif/evidence
cd $w/verif
for id in "$@"; do
  start=$(date +%s)
  out=$(VERIF_REPO=$w/repo python3 check/check.py $id 2>&1 | tail -8)
  v=$(echo "$out" | grep -E 'VIOLATION' | head -1 | cut -c1-250)
  echo "== $id ($(( $(date +%s) - start ))s): $v"
  if [ -z "$v" ]; then echo "   (no violation reported) $(echo "$out" | grep -c KNOWN) known-finding line(s) $(echo "$out" | grep CHECK-ERROR | head -1)"; fi
  rp=$(echo "$v" | sed -n 's/.*replay=\([^ ]*\).*/\1/p')
  if [ -n "$rp" ] && [ -f "$rp" ]; then mkdir -p /tmp/mutreplays; cp "$rp" /tmp/mutreplays/ 2>/dev/null; fi
done
