#!/bin/bash
# every thorough check once, sequentially (background validation of the thorough tier on the clean tree)
# usage: thorough_all.sh [ID ...]
python3 check/setup.py > /dev/null 2>&1
ids="$@"
[ -z "$ids" ] && ids="C13 C14 C15 C12 C09 C10 C11 C16 C17 C02 C05 C07 C08 C04 C06 C01 C03"
for p in $ids; do
  s=$(date +%s)
  out=$(nice -n 5 python3 check/check.py $p --tier thorough 2>&1 | grep -v "^KNOWN\|^WARNING" | tail -2)
  echo "$p rc=$? $(( $(date +%s) - s ))s :: $out"
done
