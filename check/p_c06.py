"""C06 (protocol-level): see DESIGN.md section 6/C06 and 12."""
import k3check


def run(tier):
    return k3check.run("C06", tier, programs=k3check.SECTION_PROGRAMS | {"find-vs-rehash", "two-resizers"})


def replay(path):
    return k3check.replay("C06", path)
