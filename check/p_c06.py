"""C06 (protocol-level): see DESIGN.md section 6/C06 and 12."""
import k2check
import k3check


def run(tier):
    return k3check.run("C06", tier, programs=k3check.SECTION_PROGRAMS | {"find-vs-rehash", "two-resizers"},
                       phases=[k2check.locked_phase("C06")])


def replay(path):
    return k3check.replay("C06", path)
