"""K3: concurrent executions under the deterministic scheduler (harness/k3_conc.cc) + replay of the recorded
synchronisation traces through the Lean protocol acceptor (Cuckoo.Proto.accept)."""
import concurrent.futures as cf
import json
import os
import random
import tempfile

import common as C

# (name, hashmode, init_n, prefill, threads) -- small client programs; every sync event is a scheduling point
PROGRAMS = [
    ("find-vs-rehash", 0, 4, "7 70 1 10 2 20", [
        "find 7 ; find 7 ; insert 9 90",
        "rehash 3 ; insert 11 110 ; erase 1",
        "insert 5 50 ; erase 5 ; upsert 2 3"]),
    ("same-key-inserters", 0, 2, "1 10 3 30", [
        "insert 5 50 ; find 5 ; erase 5",
        "insert 5 51 ; updatefn 5 1 ; find 5",
        "insert 9 90 ; insert 13 130 ; find 1"]),
    ("displace-vs-update", 3, 4, "1 1 2 2 3 3 4 4 5 5 6 6", [
        "insert 7 7 ; insert 8 8 ; insert 9 9",
        "updatefn 3 10 ; updatefn 3 10 ; find 3",
        "erase 2 ; insert 2 22 ; find 5"]),
    ("expand-vs-updates", 0, 2, "0 0 1 1 2 2", [
        "insert 4 4 ; insert 8 8 ; insert 12 12 ; insert 16 16",
        "upsert 1 5 ; upsert 1 5 ; find 2",
        "erasefn 2 2 ; find 0 ; ioa 0 9"]),
    ("rehash-up-down", 4, 8, "10 1 11 2 12 3 13 4 14 5", [
        "rehash 1 ; rehash 4",
        "find 10 ; find 14 ; insert 15 6 ; find 12",
        "erase 11 ; insert 11 7 ; updatefn 13 1"]),
    ("clear-vs-inserts", 0, 4, "1 1 2 2", [
        "clear",
        "insert 3 3 ; find 1 ; insert 1 5",
        "find 2 ; upsert 2 1 ; erase 3"]),
    ("reserve-vs-ops", 2, 4, "1 1 5 5 9 9", [
        "reserve 40 ; reserve 2",
        "find 5 ; ioa 5 6 ; find 9",
        "insert 13 13 ; erase 1 ; find 13"]),
    ("section-inserts-grows", 0, 2, "1 1 2 2", [
        "section ; ltinsert 3 3 ; ltinsert 4 4 ; ltinsert 5 5 ; ltinsert 6 6 ; ltfind 1 ; lterase 2 ; ltsize ; end",
        "find 1 ; insert 7 7 ; find 2",
        "erase 1 ; find 3 ; upsert 4 1"]),
    ("section-rehash-clear", 4, 4, "1 1 2 2 3 3", [
        "section ; ltrehash 4 ; ltinsert 9 9 ; ltrehash 1 ; ltfind 2 ; end ; find 9",
        "find 2 ; erase 3 ; insert 3 30",
        "updatefn 1 1 ; find 1 ; find 9"]),
    # explicit resize requests parked behind a locked section that changes the hashpower: afterwards they must act on the
    # table the section left (their answers are checked against the hashpower timeline)
    ("section-resize-vs-rehash", 0, 4, "1 1 2 2 3 3", [
        "section ; ltrehash 6 ; ltinsert 9 9 ; end ; find 9",
        "rehash 3 ; find 1",
        "reserve 100 ; find 2"]),
    # explicit requests queued in lock_all behind an automatic doubling (and behind each other)
    ("rehash-vs-doubling", 0, 2, "0 0 1 1", [
        "rehash 5 ; find 0",
        "insert 2 2 ; insert 3 3 ; insert 4 4 ; insert 5 5",
        "reserve 200 ; find 1"]),
    ("section-stream", 0, 16, "1 1 2 2 3 3", [
        "section ; ltinsert 4 4 ; ltstream ; ltfind 4 ; end",
        "find 1 ; find 2 ; insert 5 5",
        "erase 3 ; find 3 ; find 4"]),
    ("section-stream-restore", 4, 16, "1 1 2 2 3 3 4 4 5 5", [
        "section ; ltsave ; ltrehash 1 ; ltfind 3 ; ltload ; ltfind 4 ; end",
        "find 1 ; find 2 ; find 3",
        "find 4 ; find 5 ; updatefn 5 1"]),
    # S=1, hp=2, multiplicative hash: both candidate buckets of key 1 are full (5 and 3), 5 can be displaced to bucket 0.
    # T0's upsert of the absent key must displace; T1 frees a slot and inserts the same key in T0's unlocked window.
    ("same-key-upsert-during-displacement", 4, 4, "5 50 3 30", [
        "upsert 1 5 ; find 1",
        "erase 3 ; upsert 1 7",
        "find 5 ; find 1"]),
    ("same-key-upsert-during-displacement-hp3", 4, 8, "9 90 7 70", [
        "upsert 1 5 ; find 1",
        "erase 7 ; upsert 1 7",
        "updatefn 9 1 ; find 1"]),
    ("two-resizers", 0, 2, "1 1 2 2 3 3", [
        "rehash 3 ; find 1",
        "reserve 30 ; find 2",
        "insert 4 4 ; insert 5 5 ; insert 6 6 ; insert 7 7"]),
    # S=1, stripe limit 4: the doubling 2^2 -> 2^3 leaves 4 stripes pending; the last ones are migrated by different threads
    ("migration-lazy-4", 0, 4, "0 0 1 1 2 2 3 3", [
        "insert 4 4 ; find 4",
        "find 3 ; find 7",
        "find 2 ; find 6"]),
    ("migration-lazy", 0, 2, "0 0 1 1 2 2 3 3", [
        "insert 4 4 ; insert 5 5 ; insert 6 6 ; insert 7 7 ; insert 8 8",
        "find 0 ; find 1 ; find 2 ; find 3",
        "updatefn 0 1 ; erase 1 ; find 8"]),
]

CONFIGS_QUICK = [(2, 2), (4, 4), (1, 2), (1, 4)]           # (S, M)
CONFIGS_THOROUGH = [(1, 2), (2, 2), (2, 4), (4, 4), (4, 8), (8, 4)]


def random_programs(rng, n):
    """random high-contention programs: few keys, many same-key conflicts, tables small enough to displace and expand"""
    progs = []
    for i in range(n):
        hm = rng.choice([0, 4, 6])
        init_n = rng.choice([2, 4, 8])
        keys = list(range(1, 9))
        pre = rng.sample(range(1, 24), rng.randrange(2, 9))
        prefill = " ".join("%d %d" % (k, k * 10) for k in pre)
        threads = []
        for t in range(3):
            ops = []
            for _ in range(rng.randrange(2, 4)):
                k = rng.choice(keys + pre[:3])
                op = rng.choice(["upsert %d %d" % (k, rng.randrange(1, 9)), "insert %d %d" % (k, rng.randrange(100)),
                                 "erase %d" % k, "find %d" % k, "updatefn %d %d" % (k, rng.randrange(1, 9)),
                                 "erasefn %d %d" % (k, rng.randrange(100)), "ioa %d %d" % (k, rng.randrange(100))])
                ops.append(op)
            threads.append(" ; ".join(ops))
        progs.append(("random-%d" % i, hm, init_n, prefill, threads))
    return progs


def harness_for(S, M):
    flags = ["-O1", "-g", "-DNDEBUG", "-DVH_S=%d" % S, "-DLIBCUCKOO_VERIF_MAX_NUM_LOCKS=%d" % M]
    return C.build_harness("k3-S%d-M%d" % (S, M), "k3_conc.cc", flags)


def program_text(p, runs):
    name, hm, n, prefill, threads = p
    lines = ["cfg %d %d 0" % (hm, n), "prefill " + prefill]
    lines += ["thread " + t for t in threads]
    lines += runs
    return "\n".join(lines) + "\n"


def run_program(exe, p, runs, timeout=240):
    rc, out, dt = C.sh([exe], input=program_text(p, runs), timeout=timeout)
    res = []
    for line in out.splitlines():
        line = line.strip()
        if line.startswith("{"):
            try:
                res.append(json.loads(line))
            except ValueError:
                res.append({"unparsable": line[:300]})
    return rc, res, out[-1500:], dt


def lean_accept(trace_file):
    """replays the protocol traces through the Lean acceptor and the sampled histories (accepted by the harness's own search)
    through the verified linearizability checker; returns (n_traces, rejects[list of str], n_histories, lin_rejects)"""
    if not os.path.exists(trace_file) or os.path.getsize(trace_file) == 0:
        return 0, [], 0, []
    with open(trace_file) as f:
        text = f.read()
    rc, out, dt = C.sh([C.DRIVER], input=text, timeout=1800)
    lines = out.splitlines()
    rej = [l for l in lines if l.startswith("REJECT") or l.startswith("bad")]
    hist = [l for l in text.splitlines() if l.startswith("lin ")]
    ans = [l for l in lines if l.startswith("lin ")]
    lrej = []
    if len(ans) != len(hist):
        lrej.append("driver answered %d of %d history requests" % (len(ans), len(hist)))
    for h, a in zip(hist, ans):
        if not (a.startswith("lin ok") or a.startswith("lin skip")):
            lrej.append("%s <- %s" % (a, h[:600]))
    return len(lines) - len(ans), rej, len(ans), lrej


def lean_sections(sec_file):
    """K3(ii): replays the section scripts of the sampled executions through Conc.*Sec in the driver; returns
    (n_executions, n_sections, mismatches[list of dict])"""
    if not os.path.exists(sec_file) or os.path.getsize(sec_file) == 0:
        return 0, 0, []
    blocks = open(sec_file).read().split("X begin\n")[1:]
    reqs, exps, owner = [], [], []
    for bi, b in enumerate(blocks):
        for l in b.splitlines():
            if not l or l.startswith("X end"):
                continue
            r, _, e = l.partition("\t")
            reqs.append(r)
            exps.append(e)
            owner.append(bi)
    rc, out, dt = C.sh([C.DRIVER], input="\n".join(reqs) + "\n", timeout=1800)
    ans = out.splitlines()
    bad, seen = [], set()
    if len(ans) != len(reqs):
        bad.append({"what": "driver answered %d of %d section requests" % (len(ans), len(reqs))})
    for r, e, a, bi in zip(reqs, exps, ans, owner):
        if e != "*" and e != a and bi not in seen:
            seen.add(bi)
            script = [x.partition("\t")[0] for x in blocks[bi].splitlines() if x and not x.startswith("X end")]
            bad.append({"request": r, "implementation": e[:300], "model": a[:300], "script": script})
    nsec = sum(1 for r in reqs if r.startswith("m sec "))
    return len(blocks), nsec, bad


def lean_lin(history_request):
    """verdict of the verified checker on one history: 'ok', 'NOTLIN', 'skip' or 'bad ...'"""
    rc, out, dt = C.sh([C.DRIVER], input=history_request + "\n", timeout=600)
    for l in out.splitlines():
        if l.startswith("lin "):
            return l[4:]
    return "bad no answer"


def explore(tier, seed, programs=None, with_traces=True, with_sections=True):
    """returns dict(executions, events, failures[list], rejects[list], traces, crashes[list], build_errors[list])"""
    rng = random.Random(seed * 7777 + 3)
    cfgs = CONFIGS_QUICK if tier == "quick" else CONFIGS_THOROUGH
    progs = [p for p in PROGRAMS if programs is None or p[0] in programs]
    if programs is None:
        progs = progs + random_programs(rng, 10 if tier == "quick" else 60)
    n_np = 1500 if tier == "quick" else 20000     # non-preemptive + k preemptions
    n_rand = 300 if tier == "quick" else 4000
    out = {"executions": 0, "events": 0, "failures": [], "rejects": [], "traces": 0, "crashes": [], "build_errors": [],
           "per_program": {}}
    bins = {}
    with cf.ThreadPoolExecutor(max_workers=8) as ex:
        futs = {c: ex.submit(harness_for, *c) for c in cfgs}
        for c, f in futs.items():
            bins[c] = f.result()
    for c, (ok, exe, log) in bins.items():
        if not ok:
            out["build_errors"].append({"config": "S=%d M=%d" % c, "log": log[-2500:]})
    tmpd = tempfile.mkdtemp(prefix="k3-", dir=C.CACHE)
    jobs = []
    for c in cfgs:
        if not bins[c][0]:
            continue
        for p in progs:
            tf = os.path.join(tmpd, "pt-%d-%d-%s.txt" % (c[0], c[1], p[0]))
            runs = []
            for k in (1, 2, 3):
                s0 = rng.randrange(1, 1 << 30)
                runs.append("run 0 %d %d %d %s" % (k, s0, n_np // 3, ("ptrace %s %d" % (tf, 25)) if with_traces else "-"))
            runs.append("run 1 0 %d %d %s" % (rng.randrange(1, 1 << 30), n_rand, ("ptrace %s %d" % (tf, 50)) if with_traces else "-"))
            jobs.append((c, p, runs, tf))

    def work(j):
        c, p, runs, tf = j
        # the limit is a last resort (deadlocks and livelocks are detected by the harness itself: no runnable thread / step
        # budget); it grows with the number of executions asked for (thorough: 13x more, and S=8 executions have ~5*10^4 events)
        rc, res, tail, dt = run_program(bins[c][1], p, runs, timeout=240 if tier == "quick" else 3000)
        ntr, rej, nh, lrej = lean_accept(tf) if with_traces else (0, [], 0, [])
        nx, nsec, sbad = lean_sections(tf + ".sec") if (with_traces and with_sections) else (0, 0, [])
        for f_ in (tf, tf + ".sec"):
            try:
                os.remove(f_)
            except OSError:
                pass
        # a history the harness's own search calls non-linearizable is reported only if the verified checker agrees
        for r in res:
            if r.get("lin") and str(r.get("why", "")).startswith("history is not linearizable"):
                v = lean_lin(r["lin"])
                r["lean_verdict"] = v
                if v.startswith("ok"):
                    r["disagreement"] = "the C++ search rejects a history that the verified checker linearizes: " + v
        return c, p, runs, rc, res, tail, ntr, rej, nh, lrej, (nx, nsec, sbad)

    with cf.ThreadPoolExecutor(max_workers=14) as ex:
        for c, p, runs, rc, res, tail, ntr, rej, nh, lrej, (nx, nsec, sbad) in ex.map(work, jobs):
            out["histories_checked_in_lean"] = out.get("histories_checked_in_lean", 0) + nh
            out["section_replays"] = out.get("section_replays", 0) + nx
            out["sections_replayed"] = out.get("sections_replayed", 0) + nsec
            for x in sbad[:2]:
                x.update({"program": p[0], "config": "S=%d M=%d" % c, "threads": p[4], "prefill": p[3], "hash": p[1], "init_n": p[2]})
                out.setdefault("section_mismatches", []).append(x)
            for x in lrej[:2]:
                out["failures"].append({"program": p[0], "config": "S=%d M=%d" % c, "threads": p[4], "prefill": p[3], "hash": p[1], "init_n": p[2],
                                        "run": "", "first_seed": None, "schedule": "", "history": x,
                                        "why": "history is not linearizable according to the verified checker Cuckoo.Lin.checkFast "
                                               "(the harness's own search had accepted it)", "bad_of_runs": "?"})
            for r in res:
                if r.get("disagreement"):
                    out.setdefault("oracle_disagreements", []).append({"program": p[0], "config": "S=%d M=%d" % c, "what": r["disagreement"], "history": r.get("history", "")})
                    r["bad"] = 0        # not a finding about the code: the two oracles disagree, the verified one wins
            key = "%s S=%d M=%d" % (p[0], c[0], c[1])
            ne = sum(r.get("runs", 0) for r in res)
            out["executions"] += ne
            out["events"] += sum(r.get("events", 0) for r in res)
            out["traces"] += ntr
            out["per_program"][key] = {"executions": ne, "bad": sum(r.get("bad", 0) for r in res), "traces_replayed": ntr, "rejected": len(rej)}
            if rc != 0 or len(res) != len(runs):
                out["crashes"].append({"program": p[0], "config": "S=%d M=%d" % c, "rc": rc, "tail": tail,
                                       "input": program_text(p, runs)})
                if res and (res[-1].get("budget") or res[-1].get("deadlock")):
                    out["failures"].append({"program": p[0], "config": "S=%d M=%d" % c, "threads": p[4], "prefill": p[3], "hash": p[1],
                                            "init_n": p[2], "run": "", "first_seed": None, "schedule": "",
                                            "why": res[-1].get("why", "deadlock: no runnable thread"), "history": "", "bad_of_runs": "1/1"})
            for r, runline in zip(res, runs):
                if r.get("bad", 0) or r.get("deadlock"):
                    out["failures"].append({"program": p[0], "config": "S=%d M=%d" % c, "threads": p[4], "prefill": p[3],
                                            "hash": p[1], "init_n": p[2], "run": runline.split(" ptrace")[0],
                                            "first_seed": r.get("first_seed"), "why": r.get("why", "deadlock"),
                                            "history": r.get("history", ""), "schedule": r.get("choices", ""),
                                            "verified_checker": r.get("lean_verdict", "-"),
                                            "bad_of_runs": "%s/%s" % (r.get("bad"), r.get("runs"))})
            for x in rej[:3]:
                out["rejects"].append({"program": p[0], "config": "S=%d M=%d" % c, "acceptor": x})
    try:
        os.rmdir(tmpd)
    except OSError:
        pass
    return out
