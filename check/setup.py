#!/usr/bin/env python3
"""MANIFEST.setup_cmd: builds the Lean library, the driver and warms the harness cache, offline."""
import os
import sys

sys.path.insert(0, os.path.dirname(os.path.abspath(__file__)))
import common as C

with C.Lock():
    ok, msgs = C.regen_arith()
    print("\n".join(msgs))
    import k6check
    ok3, msgs3 = k6check.regen_capi()
    print("\n".join(msgs3))
    ok2, out, errors, dt = C.lake_build(["Cuckoo", "cuckoo-driver"])
    print("lake build: %s in %.0fs" % ("ok" if ok2 else "FAILED", dt))
    if not ok2:
        print(out[-3000:])
sys.exit(0 if ok2 else 1)
