#!/usr/bin/env python3
"""MANIFEST.setup_cmd: builds the Lean library, the driver and warms the harness cache, offline."""
import os
import sys

sys.path.insert(0, os.path.dirname(os.path.abspath(__file__)))
import common as C

with C.Lock():
    ok, msgs = C.regen_arith()
    print("\n".join(msgs))
    import k6check
    ok3, msgs3 = k6check.regen_capi()
    print("\n".join(msgs3))
    import k3check
    ok4, msgs4 = k3check.regen_memorder()
    print("\n".join(msgs4))
    ok5, msgs5 = k3check.regen_sync()
    print("\n".join(msgs5))
    ok6, msgs6 = C.regen_limits()
    print("\n".join(msgs6))
    ok7, msgs7 = C.regen_wire()
    print("\n".join(msgs7))
    ok2, out, errors, dt = C.lake_build(["Cuckoo", "cuckoo-driver"])
    print("lake build: %s in %.0fs" % ("ok" if ok2 else "FAILED", dt))
    if not ok2:
        print(out[-3000:])
# warm the harness cache (quick-tier configurations), in parallel
import random
import concurrent.futures as cf
import k2, k2check, k3, k5, k6
import p_c13
jobs = []
cfgs = {}
for pid in ("C02", "C05", "C09", "C10", "C11", "C12", "C17"):
    rng = random.Random(C.seed() * 1000003 + sum(ord(x) for x in pid))
    for c in k2check.configs("quick", rng, pid):
        cfgs.setdefault(c.key(), c)
# further K2 builds used by the quick tier: the real stripe limit, the allocator-policy builds, the placement / locked phases
for c in [k2.Cfg(4, 65536, 0, 4)] + [k2.Cfg(2, 4, 0, 0, apol=a) for a in range(8)] + \
        [k2.Cfg(S, M, k, 0) for (S, M, k) in ((1, 2, 0), (2, 4, 0), (4, 8, 0), (4, 2, 0), (2, 4, 1), (4, 2, 2))]:
    cfgs.setdefault(c.key(), c)
with cf.ThreadPoolExecutor(max_workers=15) as ex:
    futs = [ex.submit(k2.harness_for, c) for c in cfgs.values()]
    futs += [ex.submit(k3.harness_for, *c) for c in k3.CONFIGS_QUICK]
    futs += [ex.submit(k5.harness_for, *c) for c in k5.CONFIGS_QUICK]
    for t in k6.TYPES:
        futs.append(ex.submit(k6.harness, t))
    futs.append(ex.submit(C.build_harness, "k4-tsan", "k4_tsan.cc", ["-O1", "-g", "-fsanitize=thread", "-U" + C.GUARD], "clang++-14"))
    futs.append(ex.submit(C.build_harness, "k1_arith", "k1_arith.cc", ["-O1"], "g++", ["translate/arith_shim.cc"]))
    futs.append(ex.submit(C.build_harness, "k4-tsan-lazy", "k4_tsan.cc", ["-O1", "-g", "-fsanitize=thread", "-DLIBCUCKOO_VERIF_MAX_NUM_LOCKS=4"], "clang++-14"))
    futs.append(ex.submit(C.build_harness, "k1-split", "k1_split.cc", ["-O1", "-g"]))
    bad = [f.result()[2][-400:] for f in futs if not f.result()[0]]
print("harnesses built: %d, failed: %d" % (len(futs), len(bad)))
for b in bad[:3]:
    print(b)
sys.exit(0 if ok2 else 1)
