"""C12: Lean theorems of Props/C12.lean on the executable model + K2 correspondence (DESIGN.md 6/C12, 12)."""
import k2check


def run(tier):
    # the destination must also be a working table for operations that were parked while the image was read:
    # the stream-section programs under the deterministic scheduler (protocol monitors, linearizability)
    return k2check.run("C12", tier, profile="locked", k3_programs=["section-stream", "section-stream-restore"])


def replay(path):
    return k2check.replay("C12", path)
