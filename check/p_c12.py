"""C12: Lean theorems of Props/C12.lean on the executable model + K2 correspondence (DESIGN.md 6/C12, 12)."""
import k2check


def run(tier):
    return k2check.run("C12", tier, profile="locked")


def replay(path):
    return k2check.replay("C12", path)
