"""C09: Lean theorems of Props/C09.lean on the executable model + K2 correspondence (DESIGN.md 6/C09, 12)."""
import k2check


def run(tier):
    return k2check.run("C09", tier, profile="locked")


def replay(path):
    return k2check.replay("C09", path)
