"""C09: Lean theorems of Props/C09.lean on the executable model + K2 correspondence (DESIGN.md 6/C09, 12)."""
import json

import k2check
import k5check


def run(tier):
    # "begin()==end() iff the table is empty" must also survive FAILED locked insertions (K5 fault scenarios; only findings
    # classified for C09)
    return k2check.run("C09", tier, profile="locked", phases=[k5check.k5_phase_for("C09")])


def replay(path):
    d = json.load(open(path))
    if any(f.get("harness") == "k5" for f in d.get("failing_inputs", [])):
        return k5check.replay("C09", path)
    return k2check.replay("C09", path)
