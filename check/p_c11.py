"""C11: copy / move / swap / assignment — model theorems + K2 multi-object correspondence (DESIGN.md 6/C11, 12)."""
import k2check


def run(tier):
    return k2check.run("C11", tier, profile="objects")


def replay(path):
    return k2check.replay("C11", path)
