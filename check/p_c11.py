"""C11: copy / move / swap / assignment — model theorems + K2 multi-object correspondence (DESIGN.md 6/C11, 12)."""
import random

import common as C
import k2
import k2check


def allocator_streams(tier):
    """multi-object streams against builds with an identity-carrying allocator, one build per propagation policy"""
    rng = random.Random(C.seed() * 7919 + 11)
    out = []
    shapes = [(2, 4, 0)] if tier == "quick" else [(1, 2, 0), (2, 4, 0), (4, 8, 1), (3, 8, 0), (8, 2, 1)]
    for apol in range(8):
        for (S, M, kind) in shapes:
            for hm in ((0, 2, 4) if tier == "quick" else (0, 1, 2, 3, 4, 5)):
                cfg = k2.Cfg(S, M, kind, hm, apol=apol)
                g = k2.Gen(random.Random(rng.getrandbits(48)), cfg, "allocators")
                out.append((cfg, g.run(300 if tier == "quick" else 1500, allow_mlf0=(hm in (0, 4)), universe=rng.choice([12, 48, 200]))))
    return out


def run(tier):
    return k2check.run("C11", tier, profile="objects", extra_streams=allocator_streams(tier))


def replay(path):
    return k2check.replay("C11", path)
