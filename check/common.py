"""Shared machinery for the per-property checks (see DESIGN.md sections 4, 5, 10)."""
import fcntl
import hashlib
import json
import os
import random
import re
import subprocess
import sys
import time

VERIF = os.path.dirname(os.path.dirname(os.path.abspath(__file__)))
REPO = os.environ.get("VERIF_REPO", "/repo")
LEAN = os.path.join(VERIF, "lean")
CACHE = os.path.join(VERIF, ".cache")
EVID = os.path.join(VERIF, "evidence")
REPLAYS = os.path.join(VERIF, "replays")
GUARD = "LIBCUCKOO_VERIF"
DRIVER = os.path.join(LEAN, ".lake", "build", "bin", "cuckoo-driver")

ALLOWED_AXIOMS = {"propext", "Classical.choice", "Quot.sound"}
FORBIDDEN = re.compile(r"\bsorry\b|\badmit\b|^\s*axiom\s|native_decide|bv_decide|implemented_by|\bunsafe\s|maxHeartbeats\s+0")

TRUSTED_BASE = [
    "Lean 4.33.0 kernel (axioms allowed: propext, Classical.choice, Quot.sound; audited with #print axioms on every run)",
    "translators translate/*.py + clang-14 IR/AST (validated by K1 differential and double extraction)",
    "correspondence harnesses harness/*.cc + Lean compiler/runtime for the driver (correspondence only)",
]


def seed():
    try:
        return int(os.environ.get("VERIF_SEED", "1"))
    except ValueError:
        return 1


def load_scale():
    """how much slower than usual this machine currently is: timeouts are scaled so that a busy machine is not mistaken
    for a hang (a real hang or livelock still runs into the scaled limit)"""
    try:
        l1 = os.getloadavg()[0]
        n = os.cpu_count() or 1
    except OSError:
        return 1.0
    return max(1.0, min(10.0, 1.5 * l1 / n))


def scaled(timeout):
    return int(timeout * load_scale()) + 1


def sh(cmd, timeout=3600, cwd=None, input=None, env=None):
    t0 = time.time()
    timeout = scaled(timeout)
    try:
        p = subprocess.run(cmd, shell=isinstance(cmd, str), cwd=cwd, input=input, env=env,
                           stdout=subprocess.PIPE, stderr=subprocess.STDOUT, timeout=timeout,
                           universal_newlines=True, errors="replace")
    except subprocess.TimeoutExpired as e:
        out = e.stdout or ""
        if isinstance(out, bytes):
            out = out.decode(errors="replace")
        return -999, out + "\nTIMEOUT after %ds (hang / livelock)\n" % timeout, time.time() - t0
    return p.returncode, p.stdout, time.time() - t0


class Lock:
    """serialises everything that touches lean/.lake or the generated files"""

    def __init__(self, name="lean"):
        os.makedirs(CACHE, exist_ok=True)
        self.path = os.path.join(CACHE, name + ".lock")

    def __enter__(self):
        self.f = open(self.path, "w")
        fcntl.flock(self.f, fcntl.LOCK_EX)
        return self

    def __exit__(self, *a):
        fcntl.flock(self.f, fcntl.LOCK_UN)
        self.f.close()


def repo_digest(extra_files=()):
    h = hashlib.sha256()
    files = []
    for d in ("libcuckoo", "libcuckoo-c"):
        root = os.path.join(REPO, d)
        for dp, _, fns in os.walk(root):
            for fn in sorted(fns):
                files.append(os.path.join(dp, fn))
    for f in sorted(files) + list(extra_files):
        h.update(f.encode())
        try:
            h.update(open(f, "rb").read())
        except OSError:
            h.update(b"<missing>")
    return h.hexdigest()


def write_if_changed(path, content):
    try:
        if open(path).read() == content:
            return False
    except OSError:
        pass
    os.makedirs(os.path.dirname(path), exist_ok=True)
    with open(path, "w") as f:
        f.write(content)
    return True


# ---------------------------------------------------------------- translators

def regen_arith():
    """T-A + T-B.  Returns (ok, messages)."""
    gen = os.path.join(CACHE, "gen")
    os.makedirs(gen, exist_ok=True)
    msgs = []
    shim = os.path.join(VERIF, "translate", "arith_shim.cc")
    ll, m2r = os.path.join(gen, "arith.ll"), os.path.join(gen, "arith.m2r.ll")
    rc, out, _ = sh(["clang++-14", "-std=c++17", "-O0", "-Xclang", "-disable-O0-optnone", "-DNDEBUG", "-S",
                     "-emit-llvm", "-I" + REPO, shim, "-o", ll])
    if rc != 0:
        return False, ["T-A: clang failed on arith_shim.cc:\n" + out[-2000:]]
    rc, out, _ = sh(["opt-14", "-passes=mem2reg", "-S", ll, "-o", m2r])
    if rc != 0:
        return False, ["T-A: opt failed:\n" + out[-2000:]]
    tmp = os.path.join(gen, "Arith.lean")
    rc, out, _ = sh([sys.executable, os.path.join(VERIF, "translate", "ir2lean.py"), m2r, tmp])
    if rc != 0:
        return False, ["T-A: " + out.strip()]
    if write_if_changed(os.path.join(LEAN, "Cuckoo", "Gen", "Arith.lean"), open(tmp).read()):
        msgs.append("T-A: Gen/Arith.lean changed")
    # T-B
    exe = os.path.join(gen, "consts")
    rc, out, _ = sh(["g++", "-std=c++17", "-I" + REPO, "-I" + os.path.join(VERIF, "translate"),
                     os.path.join(VERIF, "translate", "consts_shim.cc"), "-o", exe])
    if rc != 0:
        return False, msgs + ["T-B: g++ failed on consts_shim.cc:\n" + out[-2000:]]
    rc, out, _ = sh([exe])
    if rc != 0:
        return False, msgs + ["T-B: consts shim failed"]
    if write_if_changed(os.path.join(LEAN, "Cuckoo", "Gen", "Consts.lean"), out):
        msgs.append("T-B: Gen/Consts.lean changed")
    return True, msgs


def regen_limits():
    """T-F: decision logic of the resize limits (check_resize_validity and the two setters) from the source text"""
    gen = os.path.join(CACHE, "gen")
    os.makedirs(gen, exist_ok=True)
    tmp = os.path.join(gen, "Limits.lean")
    rc, out, _ = sh([sys.executable, os.path.join(VERIF, "translate", "limits.py"), REPO, tmp])
    if rc != 0:
        return False, ["T-F: " + out.strip()[-1200:]]
    msgs = []
    if write_if_changed(os.path.join(LEAN, "Cuckoo", "Gen", "Limits.lean"), open(tmp).read()):
        msgs.append("T-F: Gen/Limits.lean changed")
    return True, msgs


def regen_wire():
    """T-G: layout of the stream image (the four stream operators) from the source text"""
    gen = os.path.join(CACHE, "gen")
    os.makedirs(gen, exist_ok=True)
    tmp = os.path.join(gen, "Wire.lean")
    rc, out, _ = sh([sys.executable, os.path.join(VERIF, "translate", "wire.py"), REPO, tmp])
    if rc != 0:
        return False, ["T-G: " + out.strip()[-1200:]]
    msgs = []
    if write_if_changed(os.path.join(LEAN, "Cuckoo", "Gen", "Wire.lean"), open(tmp).read()):
        msgs.append("T-G: Gen/Wire.lean changed")
    return True, msgs


def both(*fns):
    def f():
        ok, msgs = True, []
        for g in fns:
            o, m = g()
            ok, msgs = ok and o, msgs + m
        return ok, msgs
    return f


# ---------------------------------------------------------------- lean

def lake_build(targets, timeout=3000):
    rc, out, dt = sh(["lake", "build"] + list(targets), cwd=LEAN, timeout=timeout)
    errors = []
    for m in re.finditer(r"^error: (\S+?\.lean):(\d+):(\d+): (.*)$", out, re.M):
        errors.append({"file": m.group(1), "line": int(m.group(2)), "msg": m.group(4)[:300]})
    return rc == 0, out, errors, dt


def theorems_in(relpath):
    """names of the theorems declared in a Props file, fully qualified"""
    text = open(os.path.join(LEAN, relpath)).read()
    ns = []
    names = []
    for line in text.splitlines():
        m = re.match(r"namespace\s+(\S+)", line)
        if m:
            ns.append(m.group(1))
        m = re.match(r"end\s+(\S+)", line)
        if m and ns and ns[-1] == m.group(1):
            ns.pop()
        m = re.match(r"(?:@\[[^\]]*\]\s*)?(private\s+|protected\s+)?theorem\s+([\w.']+)", line)
        if m and not (m.group(1) or "").startswith("private"):
            # private helpers cannot be named from another file; they are audited through the theorems that use them
            names.append(".".join(ns + [m.group(2)]))
    return names


def decl_at(relpath, line):
    """name of the theorem/def whose body contains `line`"""
    try:
        text = open(os.path.join(LEAN, relpath)).read().splitlines()
    except OSError:
        return None
    for i in range(min(line, len(text)) - 1, -1, -1):
        m = re.match(r"(?:@\[[^\]]*\]\s*)?(?:private\s+|protected\s+)?(?:theorem|def|lemma|example|instance)\s*([\w.']*)", text[i])
        if m:
            return m.group(1) or "example"
    return None


def audit_axioms(module, names, extra_modules=()):
    """#print axioms for every name.  returns dict name -> list of axioms (None if unknown constant)"""
    os.makedirs(CACHE, exist_ok=True)
    f = os.path.join(CACHE, "audit_%s.lean" % module.replace(".", "_"))
    with open(f, "w") as fh:
        fh.write("import %s\n" % module)
        for em in extra_modules:
            fh.write("import %s\n" % em)
        for n in names:
            fh.write("#print axioms %s\n" % n)
    rc, out, _ = sh(["lake", "env", "lean", f], cwd=LEAN, timeout=900)
    res = {}
    # "'X' depends on axioms: [a, b]"  or "'X' does not depend on any axioms"
    for m in re.finditer(r"'([^']+)' depends on axioms: \[([^\]]*)\]", out.replace("\n ", " ")):
        res[m.group(1)] = [a.strip() for a in m.group(2).split(",") if a.strip()]
    for m in re.finditer(r"'([^']+)' does not depend on any axioms", out):
        res[m.group(1)] = []
    for n in names:
        res.setdefault(n, None)
    return res, out


def import_closure(module):
    """Lean source files (relative to LEAN) the module depends on, transitively (own library only)"""
    seen, todo = set(), [module]
    while todo:
        m = todo.pop()
        if m in seen:
            continue
        rel = m.replace(".", "/") + ".lean"
        path = os.path.join(LEAN, rel)
        if not os.path.exists(path):
            continue
        seen.add(m)
        for line in open(path):
            mm = re.match(r"\s*(?:public\s+)?import\s+((?:Cuckoo|Driver)[\w.]*)", line)
            if mm:
                todo.append(mm.group(1))
    return sorted(seen)


def forbidden_tokens(module=None):
    """grep the Lean sources the module depends on (all sources if None) for constructs excluded from
    the trusted base (comments stripped)"""
    hits = []
    if module is None:
        files = []
        for dp, _, fns in os.walk(LEAN):
            if ".lake" in dp:
                continue
            files += [os.path.join(dp, fn) for fn in fns if fn.endswith(".lean")]
    else:
        files = [os.path.join(LEAN, m.replace(".", "/") + ".lean") for m in import_closure(module)]
    for p in files:
        text = open(p).read()
        text = re.sub(r"/-.*?-/", lambda m: "\n" * m.group(0).count("\n"), text, flags=re.S)
        for i, line in enumerate(text.splitlines(), 1):
            code = line.split("--")[0]
            if FORBIDDEN.search(code):
                hits.append("%s:%d: %s" % (os.path.relpath(p, LEAN), i, line.strip()[:120]))
    return hits


def leanchecker(module):
    rc, out, dt = sh(["lake", "env", "leanchecker", module], cwd=LEAN, timeout=3000)
    return rc == 0, out[-1500:], dt


# ---------------------------------------------------------------- harness builds

def build_harness(name, src, flags=(), compiler="g++", extra_deps=()):
    """compile harness/<src> against /repo's current tree; cached by content hash"""
    srcp = os.path.join(VERIF, "harness", src)
    deps = [srcp] + [os.path.join(VERIF, d) for d in extra_deps]
    hdrs = [os.path.join(VERIF, "harness", f) for f in sorted(os.listdir(os.path.join(VERIF, "harness")))
            if f.endswith((".hh", ".h"))]
    key = hashlib.sha256((repo_digest(deps + hdrs) + compiler + " ".join(flags)).encode()).hexdigest()[:16]
    bdir = os.path.join(CACHE, "bin")
    os.makedirs(bdir, exist_ok=True)
    exe = os.path.join(bdir, "%s-%s" % (name, key))
    if os.path.exists(exe):
        return True, exe, ""
    # stale binaries of this harness (same name, other content hash): removed only when old enough that no check that is
    # still running can be using them
    import re
    for old in os.listdir(bdir):
        if re.fullmatch(re.escape(name) + r"-[0-9a-f]{16}", old):
            fp = os.path.join(bdir, old)
            try:
                if time.time() - os.path.getmtime(fp) > 6 * 3600:
                    os.remove(fp)
            except OSError:
                pass
    tmp = "%s.tmp%d" % (exe, os.getpid())
    cmd = [compiler, "-std=c++17", "-I" + REPO, "-I" + os.path.join(VERIF, "harness"), "-D" + GUARD] + list(flags) + [srcp, "-o", tmp, "-lpthread"]
    rc, out, _ = sh(cmd, timeout=1200)
    if rc != 0:
        try:
            os.remove(tmp)
        except OSError:
            pass
        return False, None, out[-4000:]
    os.replace(tmp, exe)
    return True, exe, out[-500:]


def run_driver(lines, timeout=1200):
    rc, out, dt = sh([DRIVER], input="\n".join(lines) + "\n", timeout=timeout)
    return rc, out.splitlines(), dt


# ---------------------------------------------------------------- results

class Result:
    def __init__(self, pid, tier):
        self.pid = pid
        self.tier = tier
        self.t0 = time.time()
        self.broken = []        # obligations / correspondences that no longer check
        self.failing = []       # concrete failing inputs found (dicts)
        self.known = []         # KNOWN-FINDING lines
        self.cov = {}
        self.assumptions = []
        self.obligations = 0
        self.discharged = 0
        self.notes = []

    def add_broken(self, what, detail=""):
        self.broken.append({"what": what, "detail": detail[:4000]})

    def add_failing(self, d):
        self.failing.append(d)


def write_evidence(res, level, checker_cmd, extra_trusted=()):
    os.makedirs(EVID, exist_ok=True)
    cov = dict(res.cov)
    cov.setdefault("obligations", res.obligations)
    cov.setdefault("discharged", res.discharged)
    cov.setdefault("checker_cmd", checker_cmd)
    cov.setdefault("trusted_base", TRUSTED_BASE + list(extra_trusted))
    cov.setdefault("evaluations", 0)
    cov.setdefault("distinct_nontrivial", 0)
    cov.setdefault("rule", "")
    cov.setdefault("samples", [])
    cov["broken"] = res.broken
    cov["known_findings_reported"] = res.known
    cov["notes"] = res.notes
    ev = {
        "property_id": res.pid,
        "tier": res.tier,
        "seed": seed(),
        "level": level,
        "coverage": cov,
        "assumptions": res.assumptions,
        "wall_s": round(time.time() - res.t0, 2),
        "violations": len(res.failing) + (1 if res.broken and not res.failing else 0),
    }
    with open(os.path.join(EVID, res.pid + ".json"), "w") as f:
        json.dump(ev, f, indent=1, sort_keys=True)


def load_known():
    try:
        return json.load(open(os.path.join(VERIF, "known_findings.json")))
    except OSError:
        return {"findings": []}


def finish(res, level, checker_cmd, extra_trusted=()):
    """prints KNOWN-FINDING / VIOLATION lines, writes evidence and replay, returns the exit code"""
    for k in res.known:
        print("KNOWN-FINDING: property=%s %s" % (res.pid, k))
    rc = 0
    if res.failing or res.broken:
        os.makedirs(REPLAYS, exist_ok=True)
        payload = {
            "property": res.pid,
            "tier": res.tier,
            "seed": seed(),
            "no_longer_checks": res.broken,
            "failing_inputs": res.failing[:20],
            "replay_cmd": "python3 check/check.py %s --replay <this file>" % res.pid,
        }
        h = hashlib.sha256(json.dumps(payload, sort_keys=True).encode()).hexdigest()[:12]
        path = os.path.join(REPLAYS, "%s-%s.json" % (res.pid, h))
        with open(path, "w") as f:
            json.dump(payload, f, indent=1, sort_keys=True)
        if res.failing:
            print("VIOLATION property=%s replay=%s" % (res.pid, path))
        else:
            print("VIOLATION property=%s replay=%s no-failing-input-found" % (res.pid, path))
        rc = 1
    write_evidence(res, level, checker_cmd, extra_trusted)
    return rc


def lean_phase(res, pid, gen_fn=None, extra_targets=(), thorough_modules=(), extra_props=()):
    """steps 1-3 of DESIGN section 5 for Props/<pid>.lean. Must be called with the Lock held."""
    if gen_fn is not None:
        ok, msgs = gen_fn()
        res.notes += msgs
        if not ok:
            res.add_broken("translator", "\n".join(msgs))
    module = "Cuckoo.Props." + pid
    rel = os.path.join("Cuckoo", "Props", pid + ".lean")
    names = theorems_in(rel)
    extra_modules = []
    for ep in extra_props:        # further property files of the same property (e.g. C01Conc)
        names += theorems_in(os.path.join("Cuckoo", "Props", ep + ".lean"))
        extra_modules.append("Cuckoo.Props." + ep)
    res.obligations = len(names)
    ok, out, errors, dt = lake_build([module, "cuckoo-driver"] + extra_modules + list(extra_targets))
    res.notes.append("lake build %s: %s in %.1fs" % (module, "ok" if ok else "FAILED", dt))
    if not ok:
        bad = set()
        for e in errors:
            d = decl_at(e["file"], e["line"])
            bad.add("%s:%s (%s)" % (e["file"], d, e["msg"][:160]))
        if not bad:
            bad.add(out[-1500:])
        for b in sorted(bad):
            res.add_broken("lean obligation " + b)
        res.discharged = 0
        return False, names
    axioms, raw = audit_axioms(module, names, extra_modules)
    good = 0
    for n in names:
        ax = axioms.get(n)
        if ax is None:
            res.add_broken("axiom audit: no report for " + n, raw[-800:])
        elif set(ax) - ALLOWED_AXIOMS:
            res.add_broken("axiom audit: %s depends on %s" % (n, sorted(set(ax) - ALLOWED_AXIOMS)))
        else:
            good += 1
    res.discharged = good
    hits = forbidden_tokens(module)
    for em in extra_modules:
        hits += [h for h in forbidden_tokens(em) if h not in hits]
    if hits:
        res.add_broken("forbidden construct in Lean sources", "\n".join(hits[:20]))
    if res.tier == "thorough":
        for m in [module] + list(thorough_modules):
            okc, outc, dtc = leanchecker(m)
            res.notes.append("leanchecker %s: %s in %.0fs" % (m, "ok" if okc else "FAILED", dtc))
            if not okc:
                res.add_broken("leanchecker " + m, outc)
    return True, names
