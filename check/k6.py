"""K6: C-wrapper correspondence (harness/k6_capi.cc): every C entry point in lock step with the C++ table, allocation
fault sweeps through global operator new, file round trip and every truncation point."""
import concurrent.futures as cf
import os
import random

import common as C


# instantiations of the wrapper template: key and mapped types of equal and of different sizes
TYPES = [("int", "int"), ("int", "long long"), ("long long", "short")]


def harness(types=TYPES[0]):
    kt, mt = types
    name = "k6-capi" if types == TYPES[0] else "k6-capi-%s-%s" % (kt.replace(" ", ""), mt.replace(" ", ""))
    return C.build_harness(name, "k6_capi.cc", ["-O1", "-g", "-fsanitize=undefined", "-fno-sanitize-recover=all",
                                                  "-DVH_KT=" + kt, "-DVH_MT=" + mt])


def scenario(rng, nops, collide=False):
    lines = ["init %d" % rng.choice([0, 1, 4, 8, 16, 64])]
    universe = rng.choice([16, 64, 400])

    def key():
        if collide:
            return rng.randrange(1, 40) * 0x01010000      # equal tag, low 16 bits zero: collide in every small table
        return rng.randrange(universe)
    locked = False
    for i in range(nops):
        x = rng.random()
        if locked:
            if x < 0.25: lines.append("ltinsert %d %d" % (key(), rng.randrange(1000)))
            elif x < 0.35: lines.append("lterase %d" % key())
            elif x < 0.45: lines.append("ltfind %d" % key())
            elif x < 0.55: lines.append("lteraseit %d" % key())
            elif x < 0.62: lines.append("ltiter")
            elif x < 0.66: lines.append("ltrehash %d" % rng.randrange(0, 8))
            elif x < 0.70: lines.append("ltreserve %d" % rng.choice([0, 5, 40, 300]))
            elif x < 0.72: lines.append("ltclear")
            elif x < 0.76: lines.append("ltstats")
            elif x < 0.80: lines.append("sweep ltinsert %d %d" % (key(), rng.randrange(1000)))
            elif x < 0.83: lines.append("sweep ltrehash %d 0" % rng.randrange(0, 8))
            elif x < 0.85: lines.append("sweep ltbegin 0 0")
            elif x < 0.93:
                lines += ["ltwrite", "readback", "truncate"]
            else:
                lines.append("unlock"); locked = False; lines.append("same")
        else:
            if x < 0.22: lines.append("insert %d %d" % (key(), rng.randrange(1000)))
            elif x < 0.30: lines.append("ioa %d %d" % (key(), rng.randrange(1000)))
            elif x < 0.36: lines.append("update %d %d" % (key(), rng.randrange(1000)))
            elif x < 0.44: lines.append("erase %d" % key())
            elif x < 0.50: lines.append("find %d" % key())
            elif x < 0.54: lines.append("contains %d" % key())
            elif x < 0.58: lines.append("upsert %d %d" % (key(), rng.randrange(1000)))
            elif x < 0.60: lines.append("race %d %d" % (rng.choice([20, 60]), rng.randrange(1, 100)))
            elif x < 0.64: lines.append("find_fn %d" % key())
            elif x < 0.68: lines.append("update_fn %d" % key())
            elif x < 0.72: lines.append("erase_fn %d" % key())
            elif x < 0.75: lines.append("rehash %d" % rng.randrange(0, 8))
            elif x < 0.78: lines.append("reserve %d" % rng.choice([0, 3, 20, 100, 500]))
            elif x < 0.79: lines.append("clear")
            elif x < 0.83: lines.append("stats")
            elif x < 0.86: lines.append("same")
            elif x < 0.90: lines.append("sweep %s %d %d" % (rng.choice(["insert", "ioa", "upsert"]), key(), rng.randrange(1000)))
            elif x < 0.92: lines.append("sweep rehash %d 0" % rng.randrange(0, 9))
            elif x < 0.94: lines.append("sweep reserve %d 0" % rng.choice([1, 30, 200, 700]))
            elif x < 0.95: lines.append("sweep lock 0 0")
            elif x < 0.96: lines.append("sweep init %d 0" % rng.choice([0, 8, 100]))
            else:
                lines.append("lock"); locked = True
    if locked:
        lines += ["ltwrite", "readback", "truncate", "unlock"]
    else:
        lines += ["lock", "ltwrite", "readback", "truncate", "unlock"]
    lines += ["same", "stats", "free"]
    return lines


def run_scenario(exe, lines, timeout=60):
    import subprocess
    env = dict(os.environ)
    env["K6_TMP"] = os.path.join(C.CACHE, "k6tmp")
    os.makedirs(env["K6_TMP"], exist_ok=True)
    timeout = C.scaled(timeout)
    e = None
    try:
        p = subprocess.run([exe], input="\n".join(lines) + "\n", env=env, stdout=subprocess.PIPE, stderr=subprocess.PIPE,
                           timeout=timeout, universal_newlines=True, errors="replace")
    except subprocess.TimeoutExpired:
        # once more, alone and with a longer limit, before calling it a hang
        try:
            p = subprocess.run([exe], input="\n".join(lines) + "\n", env=env, stdout=subprocess.PIPE, stderr=subprocess.PIPE,
                               timeout=3 * timeout, universal_newlines=True, errors="replace")
        except subprocess.TimeoutExpired as e2:
            e = e2
    if e is not None:
        out = e.stdout or ""
        if isinstance(out, bytes):
            out = out.decode(errors="replace")
        return -999, out.splitlines(), "TIMEOUT: the harness did not finish within %ds (hang / livelock / spin on a corrupted lock array)" % timeout
    res = p.stdout.splitlines()
    return p.returncode, res, p.stderr[-1500:]


def classify(req, ans):
    """(properties, message) for a bad answer"""
    if ans.startswith("CROSSED"):
        return {"C15"}, ans
    if ans.startswith("DIFF"):
        props = {"C14"}
        if "ENOMEM" in ans or "allocation failure" in ans or "failed call" in ans or "failed re" in ans:
            props = {"C15"}
        if "minimum load factor" in ans or "maximum hashpower" in ans:
            props = {"C15"}
        if "truncated" in ans or "read back" in ans or "complete file" in ans:
            props = {"C14"}
        return props, ans
    if ans.startswith("bad-"):
        return {"C14"}, "harness rejected the request: " + ans
    return None


def explore(tier, seed):
    rng = random.Random(seed * 9173 + 6)
    out = {"scenarios": 0, "requests": 0, "findings": [], "crashes": [], "build_errors": [], "samples": [], "sweeps": 0,
           "fault_positions": 0, "prefixes": 0, "entry_kinds": {}}
    exes = {}
    with cf.ThreadPoolExecutor(max_workers=4) as ex:
        futs = {t: ex.submit(harness, t) for t in TYPES}
        for t, f in futs.items():
            ok, exe, log = f.result()
            if not ok:
                out["build_errors"].append({"log": "types %s -> %s: " % t + log[-2500:]})
            else:
                exes[t] = exe
    if not exes:
        return out
    n = 24 if tier == "quick" else 200
    nops = 120 if tier == "quick" else 400
    tl = sorted(exes)
    jobs = [(tl[i % len(tl)], scenario(random.Random(rng.getrandbits(40)), nops, collide=(i % 4 == 3))) for i in range(n)]

    def work(j):
        types, lines = j
        rc, res, err = run_scenario(exes[types], lines)
        return types, lines, rc, res, err

    with cf.ThreadPoolExecutor(max_workers=14) as ex:
        for types, lines, rc, res, err in ex.map(work, jobs):
            out["scenarios"] += 1
            out["requests"] += len(lines)
            if not out["samples"]:
                out["samples"].append(lines[:30])
            for li, lo in zip(lines, res):
                k = li.split()[0] if li.split()[0] != "sweep" else "sweep " + li.split()[1]
                out["entry_kinds"][k] = out["entry_kinds"].get(k, 0) + 1
                if lo.startswith("swept n="):
                    out["sweeps"] += 1
                    out["fault_positions"] += int(lo.split("=")[1])
                if "prefixes=" in lo:
                    out["prefixes"] += int(lo.split("prefixes=")[1])
                cl = classify(li, lo)
                if cl:
                    out["findings"].append({"properties": sorted(cl[0]), "request": li, "answer": lo, "types": list(types),
                                            "prefix": lines[:lines.index(li) + 1]})
                    break
            if rc != 0 or len(res) < len(lines):
                out["crashes"].append({"rc": rc, "at_request": lines[len(res)] if len(res) < len(lines) else "<end>", "types": list(types),
                                       "tail": err, "prefix": lines[:len(res) + 1]})
    return out
