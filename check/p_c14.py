"""C14: C wrapper — generated forwarding/catch table + theorems, K6 lock-step correspondence (DESIGN.md 6/C14, 12)."""
import k6check


def run(tier):
    return k6check.run("C14", tier)


def replay(path):
    return k6check.replay("C14", path)
