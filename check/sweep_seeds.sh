#!/bin/bash
python3 check/setup.py > /dev/null 2>&1
for sd in ${SWEEP_SEEDS:-2 3 4 5}; do
  for p in C01 C02 C03 C04 C05 C06 C07 C08 C09 C10 C11 C12 C13 C14 C15 C16 C17; do
    out=$(VERIF_SEED=$sd python3 check/check.py $p --tier quick 2>&1 | grep -v KNOWN | tail -2)
    echo "seed=$sd $p rc=$? :: $out"
  done
done
