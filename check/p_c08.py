"""C08: model-level failure-atomicity / lifetime-skeleton theorems + K5 fault enumeration and object-lifetime monitoring."""
import k5check


def run(tier):
    return k5check.run("C08", tier, extra_props=["C08Life"],
                       k3_programs=["migration-lazy", "migration-lazy-4", "expand-vs-updates", "find-vs-rehash", "two-resizers"])


def replay(path):
    return k5check.replay("C08", path)
