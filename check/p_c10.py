"""C10 - resize limits and explicit resize requests (DESIGN 6/C10)."""
import random

import common as C
import k2
import k2check


def shrink_streams(tier):
    """targeted: nearly full table, maximum set to the current hashpower, then shrink requests"""
    rng = random.Random(C.seed() * 31 + 10)
    out = []
    n = 80 if tier == "quick" else 600
    for i in range(n):
        big = i % 4 != 0
        S = 4 if big else rng.choice([1, 2, 4, 8])
        M = rng.choice([2, 4])
        cfg = k2.Cfg(S, M, rng.choice([0, 0, 1, 2]), 4)
        h = rng.randrange(7, 9) if big else rng.randrange(2, 6)
        cap = (1 << h) * S
        lines = [cfg.line(), "m new 0 %d" % cap, "m setmlf 0 0"]
        # nearly full: a rebuild into a smaller temporary map may then need one doubling too many
        keys = rng.sample(range(1000000), int(cap * (rng.uniform(0.962, 0.978) if big else rng.uniform(0.8, 1.0))))
        for k in keys:
            lines.append("m insert 0 %d %d" % (k, k % 997))
        for H in (h, h + 1):
            lines += ["m setmhp 0 %d" % H, "m inv 0", "m stats 0",
                      "m %s 0 %d" % (rng.choice(["rehash", "reserve"]), rng.randrange(0, 3)),
                      "m inv 0", "m stats 0", "m digest 0"]
        for k in keys[:10]:
            lines.append("m find 0 %d" % k)
        out.append((cfg, lines))
    return out


def regression_streams(tier):
    """witnesses of repaired findings (F5: an explicit shrink whose rebuild must expand the nearly empty temporary map: keys whose
    low 16 hash bits are zero collide in every small table; the temporary map must not apply a load-factor threshold), kept so
    that a regression is reported with the original input"""
    out = []
    for S, M, kind in ((4, 4, 0), (4, 2, 1), (2, 4, 2)):
        cfg = k2.Cfg(S, M, kind, 5)
        for nkeys in (2 * S + 1, 2 * S + 4):
            lines = [cfg.line(), "m new 0 4", "m setmlf 0 0"]
            lines += ["m insert 0 %d %d" % (k, k) for k in range(1, nkeys + 1)]
            for tgt in (2, 0):
                lines += ["m stats 0", "m rehash 0 %d" % tgt, "m stats 0", "m inv 0"]
            lines += ["m reserve 0 1", "m stats 0", "m inv 0"] + ["m find 0 %d" % k for k in range(1, nkeys + 1)]
            out.append((cfg, lines))
    return out


def run(tier):
    # the concurrent face of "explicit resize requests are honoured": requests queued behind doublings, behind each other and
    # behind locked sections that change the hashpower; only dropped / unexplained answers are judged here (k3_only_own)
    return k2check.run("C10", tier, profile="limits", extra_streams=shrink_streams(tier) + regression_streams(tier), k3_only_own=True,
                       k3_programs=["find-vs-rehash", "two-resizers", "rehash-up-down", "reserve-vs-ops", "rehash-vs-doubling",
                                    "section-resize-vs-rehash"])


def replay(path):
    return k2check.replay("C10", path)
