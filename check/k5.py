"""K5: fault enumeration (every reachable allocation index, element-constructor faults, throwing equality / functors)
and object-lifetime monitoring on the real table, via harness/k5_fault.cc (instrumented element types, counting
allocator, forked trials)."""
import concurrent.futures as cf
import os
import random

import common as C

# (S, M, TMOVE, BYVAL); large M: the lock array grows with the table; BYVAL: the hash functor takes key_type by value
CONFIGS_QUICK = [(2, 2, 0, 0), (4, 4, 0, 0), (1, 2, 0, 0), (2, 4, 1, 0), (2, 64, 0, 0), (4, 1024, 1, 0), (2, 4, 0, 1)]
CONFIGS_THOROUGH = [(S, M, tm, 0) for S in (1, 2, 4, 8) for M in (2, 4, 8, 256, 65536) for tm in (0, 1)] + \
                   [(S, M, tm, 1) for S in (1, 4) for M in (2, 8) for tm in (0, 1)]


def harness_for(S, M, tm, byval=0):
    flags = ["-O1", "-g", "-fsanitize=address,undefined", "-fno-sanitize-recover=all", "-DVH_S=%d" % S, "-DVH_TMOVE=%d" % tm,
             "-DLIBCUCKOO_VERIF_MAX_NUM_LOCKS=%d" % M] + (["-DVH_BYVAL=1"] if byval else [])
    return C.build_harness("k5-S%d-M%d-T%d%s" % (S, M, tm, "-BV" if byval else ""), "k5_fault.cc", flags)


def scenario(rng, S, M, hashmode, nsweeps, workers=0):
    """builds a table state step by step; at chosen points sweeps every fault position of a set of target operations"""
    lines = ["cfg %d" % hashmode, "new %d" % rng.choice([1, 2, 4, 8, 16]), "mlf 0" if hashmode in (0, 4) else "mlf 0.05"]
    if workers:
        lines.append("workers %d" % workers)       # helper threads for migration batches and rebuilds
    keys = list(range(1, 400))
    rng.shuffle(keys)
    present = []
    n_fill = rng.choice([3, 6, 12, 24, 48])
    sweeps_left = nsweeps
    i = 0
    while i < n_fill or sweeps_left > 0:
        if i < n_fill:
            k = keys.pop()
            lines.append("%s %d %d" % (rng.choice(["ins", "ins", "insmv", "upsmv", "ioamv"]), k, k * 10 % 997))
            present.append(k)
            i += 1
            if workers:
                # right after a doubling that deferred its migration: a helper thread that cannot be created while the batch
                # migration of lock_table() / a resize runs must not cost a stripe (asked after every insertion, answered
                # "skip" unless stripes are pending)
                lines.append("ifpending thrsweep lock 0 0")
                lines.append("ifpending sweep lock 0 0")
                if rng.random() < 0.3:
                    lines.append("ifpending thrsweep rehash %d 0" % rng.randrange(0, 7))
                    lines.append("ifpending ltthrsweep ltins %d 9" % keys[-1])
            if rng.random() < 0.25:
                # C16: duplicate paths must leave the arguments alone; compatible key types must agree
                d = rng.choice(present)
                lines.append("%s %d %d" % (rng.choice(["insmv", "upsmv", "ioamv"]), d, 5))
                lines.append("%s %d %d" % (rng.choice(["inslv", "upslv", "ioalv"]), rng.choice([d, keys.pop()]), 6))
                lines.append("%s %d 0" % (rng.choice(["findp", "containsp"]), rng.choice([d, keys[-1]])))
                lines.append("find %d 0" % d)
            if rng.random() < 0.15 and present:
                lines.append("erase %d" % present.pop(rng.randrange(len(present))))
            if rng.random() < 0.08:
                # plain (fault-free) copy / move assignment from a table of another size onto this one: everything the
                # overwritten table held must be destroyed and returned
                n_src = rng.choice([0, 1, 3, 9, 40, 200])
                lines.append("%s %d 0" % (rng.choice(["assign", "moveassign"]), n_src))
                lines.append("scan")
                present = []
                keys = [k for k in keys if not (700000 <= k < 700000 + 400)]
        if rng.random() < 0.3 or i >= n_fill:
            lines.append("scan")
            lines.append("oldfreed")
            fresh = keys.pop()
            targets = [
                "sweep ins %d 5" % fresh,
                "sweep ups %d 3" % (rng.choice(present) if present and rng.random() < 0.5 else fresh),
                "sweep ioa %d 7" % fresh,
                "sweep rehash %d 0" % rng.randrange(0, 7),
                "sweep reserve %d 0" % rng.choice([0, 1, 8, 40, 150, 600]),
                "sweep copy 0 0",
                "sweep move 0 0",
                "sweep moveassign 4 0",
                "ltsweep ltins %d 9" % fresh,
                "ltsweep ltrehash %d 0" % rng.randrange(0, 7),
                "ltsweep ltreserve %d 0" % rng.choice([1, 30, 200]),
                "ctorsweep ins %d 1" % fresh,
                "ctorsweep ups %d 1" % fresh,
                "ctorsweep ltins %d 1" % fresh,
                "sweep clear 0 0",
                "sweep lock 0 0",
                "sweep assign 5 0",
            ]
            for t in rng.sample(targets, min(len(targets), 6)):
                lines.append(t)
            if workers:
                # the creation of the k-th helper thread fails (pthread_create -> EAGAIN -> std::system_error): batch
                # migration (lock_table, the resize paths) must absorb it completely, a rebuild must fail atomically
                thr = ["thrsweep lock 0 0", "thrsweep rehash %d 0" % rng.randrange(0, 7), "thrsweep reserve %d 0" % rng.choice([1, 40, 300]),
                       "ltthrsweep ltrehash %d 0" % rng.randrange(0, 7), "ltthrsweep ltins %d 9" % fresh, "thrsweep clear 0 0"]
                for t in rng.sample(thr, 3):
                    lines.append(t)
            sweeps_left -= 1
    # exceptions thrown by user code: equality on a poisoned key, a throwing functor
    lines += ["poison 123456", "ins 123456 1", "find 123456 0", "scan", "poison 18446744073709551615"]
    if present:
        lines += ["upsthrow %d 4" % present[0], "scan", "find %d 0" % present[0]]
    lines += ["upsthrow %d 4" % keys.pop(), "scan"]
    if present:
        lines += ["updp %d 4242" % present[-1], "find %d 0" % present[-1], "erasep %d 0" % present[-1], "find %d 0" % present[-1]]
    lines += ["lock 0 0", "ltins %d 1" % keys.pop(), "ltinsmv %d 2" % keys.pop(), "ltinslv %d 2" % keys.pop()]
    lines += ["ltcountp %d 0" % (present[0] if present else keys[-1]), "ltfindp %d 0" % keys[-1], "ltcountp %d 0" % keys[-1]]
    if present:
        lines += ["ltfindp %d 0" % present[0], "lterasep %d 0" % present[0], "ltcountp %d 0" % present[0]]
    if present:
        lines += ["ltinsmv %d 3" % present[0], "ltinslv %d 3" % present[0]]
    lines += ["unlock 0 0", "scan", "oldfreed", "destroy"]
    return lines


def run_scenario(exe, lines, timeout=240):
    env = dict(os.environ)
    env["ASAN_OPTIONS"] = "detect_leaks=0:abort_on_error=0:exitcode=77"
    import subprocess
    import time
    t0 = time.time()
    timeout = C.scaled(timeout)
    e = None
    try:
        p = subprocess.run([exe], input="\n".join(lines) + "\n", env=env, stdout=subprocess.PIPE, stderr=subprocess.PIPE,
                           timeout=timeout, universal_newlines=True, errors="replace")
    except subprocess.TimeoutExpired:
        # once more, alone and with a longer limit, before calling it a hang
        try:
            p = subprocess.run([exe], input="\n".join(lines) + "\n", env=env, stdout=subprocess.PIPE, stderr=subprocess.PIPE,
                               timeout=3 * timeout, universal_newlines=True, errors="replace")
        except subprocess.TimeoutExpired as e2:
            e = e2
    if e is not None:
        out = e.stdout or ""
        if isinstance(out, bytes):
            out = out.decode(errors="replace")
        return -999, out.splitlines() + ["STDERR: TIMEOUT after %ds (hang / spin on a corrupted table)" % timeout], time.time() - t0
    res = p.stdout.splitlines()
    if p.returncode != 0:
        res.append("STDERR: " + p.stderr[-1200:].replace("\n", " | "))
    return p.returncode, res, time.time() - t0


def classify(line_in, line_out):
    """returns (properties, message) for a bad answer, or None"""
    if line_out.startswith("FAIL"):
        msg = line_out
        props = {"C07"}
        if "moved-from" in msg or "destroyed object" in msg or "lifetime" in msg or "leaked" in msg or "not returned" in msg:
            props.add("C08")
        if "did not have its normal effect" in msg or "lost after the failure" in msg:
            props.add("C08")        # elements dropped with an array that was released before its last stripe had migrated
        if "without advancing the resize counter" in msg:
            props |= {"C03", "C01"}
        if "is held after the call" in msg:
            props.add("C04")
        if "size()" in msg or "[count" in msg or "count]" in msg or ", count" in msg:
            props.add("C05")        # the per-stripe counters no longer add up to the number of stored pairs
            if "lt" in line_in.split()[0] or (len(line_in.split()) > 1 and line_in.split()[1].startswith("lt")):
                props.add("C09")    # through a locked table: size()/empty() disagree with what iteration visits
        return props, msg
    if line_out.startswith("ARGS") or line_out.startswith("HETERO"):
        return {"C16"}, line_out
    if line_out.startswith("scan BAD") or line_out.startswith("destroy BAD") or line_out.startswith("oldfreed BAD"):
        return {"C08"} | ({"C07"} if "stored twice" in line_out or "size()" in line_out else set()) | ({"C05"} if "size()" in line_out else set()), line_out
    if line_out.startswith("err") and line_in.split()[0] not in ("upsthrow",) and "eqthrow" not in line_out \
            and line_out not in ("err lftl", "err maxhp", "err invalid"):
        # no fault was armed for plain requests
        return {"C07"}, "unexpected exception on a plain request: " + line_out
    return None


def explore(tier, seed):
    rng = random.Random(seed * 4241 + 5)
    cfgs = CONFIGS_QUICK if tier == "quick" else CONFIGS_THOROUGH
    nscen = 3 if tier == "quick" else 12
    out = {"scenarios": 0, "requests": 0, "sweeps": 0, "fault_positions": 0, "findings": [], "crashes": [], "build_errors": [], "samples": []}
    bins = {}
    with cf.ThreadPoolExecutor(max_workers=12) as ex:
        futs = {c: ex.submit(harness_for, *c) for c in cfgs}
        for c, f in futs.items():
            bins[c] = f.result()
    jobs = []
    for c in cfgs:
        ok, exe, log = bins[c]
        if not ok:
            out["build_errors"].append({"config": "S=%d M=%d TMOVE=%d BYVAL=%d" % c, "log": log[-2500:]})
            continue
        for hm in (0, 2, 3, 4, 5):
            for _ in range(nscen if hm in (0, 4) else 1):
                jobs.append((c, hm, scenario(random.Random(rng.getrandbits(40)), c[0], c[1], hm, 3 if tier == "quick" else 6)))
        # helper threads: the same sweeps with 1..3 workers (fault positions then also lie inside worker threads)
        for w in ((2, 3) if tier == "quick" else (1, 2, 3, 5)):
            for hm in (0, 4):
                jobs.append((c, hm, scenario(random.Random(rng.getrandbits(40)), c[0], c[1], hm, 3 if tier == "quick" else 6, workers=w)))

    def work(j):
        c, hm, lines = j
        rc, res, dt = run_scenario(bins[c][1], lines)
        return c, hm, lines, rc, res

    with cf.ThreadPoolExecutor(max_workers=14) as ex:
        for c, hm, lines, rc, res in ex.map(work, jobs):
            out["scenarios"] += 1
            out["requests"] += len(lines)
            if not out["samples"]:
                out["samples"].append({"config": "S=%d M=%d TMOVE=%d BYVAL=%d hash=%d" % (c + (hm,)), "requests": lines[:25]})
            for li, lo in zip(lines, res):
                if li.replace("ifpending ", "").split()[0] in ("sweep", "ltsweep", "ctorsweep", "thrsweep", "ltthrsweep"):
                    out["sweeps"] += 1
                    if lo.startswith("swept n="):
                        try:
                            out["fault_positions"] += int(lo.split("=")[1].rstrip("+"))
                        except ValueError:
                            pass
                    elif lo.startswith("FAIL k="):
                        try:
                            out["fault_positions"] += int(lo.split()[1].split("=")[1])
                        except ValueError:
                            pass
                cl = classify(li, lo)
                if cl:
                    out["findings"].append({"properties": sorted(cl[0]), "config": "S=%d M=%d TMOVE=%d BYVAL=%d hash=%d" % (c + (hm,)),
                                            "request": li, "answer": lo, "prefix": lines[:lines.index(li) + 1] if li in lines else lines})
            if rc != 0 or len(res) < len(lines):
                at = lines[len(res)] if len(res) < len(lines) else "<end>"
                out["crashes"].append({"config": "S=%d M=%d TMOVE=%d BYVAL=%d hash=%d" % (c + (hm,)), "rc": rc, "at_request": at,
                                       "tail": "\n".join(res[-6:])[-1500:], "prefix": lines[:len(res) + 1]})
    return out
