#!/usr/bin/env python3
"""Entry point: python3 check/check.py <ID> [--tier quick|thorough] [--replay FILE]"""
import argparse
import importlib
import os
import sys

sys.path.insert(0, os.path.dirname(os.path.abspath(__file__)))


def main():
    ap = argparse.ArgumentParser()
    ap.add_argument("pid")
    ap.add_argument("--tier", default=os.environ.get("VERIF_TIER", "quick"), choices=["quick", "thorough"])
    ap.add_argument("--replay", default=None)
    a = ap.parse_args()
    mod = importlib.import_module("p_" + a.pid.lower())
    if a.replay:
        sys.exit(mod.replay(a.replay))
    sys.exit(mod.run(a.tier))


if __name__ == "__main__":
    main()
