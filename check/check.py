#!/usr/bin/env python3
"""Entry point: python3 check/check.py <ID> [--tier quick|thorough] [--replay FILE]"""
import argparse
import importlib
import os
import sys

sys.path.insert(0, os.path.dirname(os.path.abspath(__file__)))


def main():
    ap = argparse.ArgumentParser()
    ap.add_argument("pid")
    ap.add_argument("--tier", default=os.environ.get("VERIF_TIER", "quick"), choices=["quick", "thorough"])
    ap.add_argument("--replay", default=None)
    a = ap.parse_args()
    mod = importlib.import_module("p_" + a.pid.lower())
    if a.replay:
        sys.exit(mod.replay(a.replay))
    # An internal error of the machinery is not a verdict about the property: retry once (transient interference, e.g. a
    # concurrent build), then report it as what it is (exit 2, no VIOLATION line).
    import traceback
    for attempt in (1, 2):
        try:
            rc = mod.run(a.tier)
        except SystemExit:
            raise
        except Exception:
            traceback.print_exc()
            print("CHECK-ERROR property=%s attempt=%d: internal error of the checking machinery (see traceback)" % (a.pid, attempt), file=sys.stderr)
            rc = 2
            continue
        break
    sys.exit(rc)


if __name__ == "__main__":
    main()
