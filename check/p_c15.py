"""C15: C wrapper — generated forwarding/catch table + theorems, K6 lock-step correspondence (DESIGN.md 6/C15, 12).
The clause "tables from _init/_read have no minimum load factor, so policy exceptions cannot arise" rests on the comparison
`load_factor() < minimum_load_factor()` being strict (with a minimum of 0 it is then never true).  Sequentially that
comparison is observable only at a positive minimum, so dedicated K2 streams expand tables whose load factor EQUALS the
minimum (1.0, full table): a refusal there is a failing input for the strictness the C tables depend on."""
import k2
import k2check
import k6check


def boundary_streams(tier, rng):
    out = []
    one = k2.dbits(1.0)
    for S, M in ((1, 2), (2, 2), (4, 4)):
        cfg = k2.Cfg(S, M, 0, 0)
        lines = [cfg.line(), "m new 0 %d" % S, "m setmlf 0 %d" % one, "m stats 0"]
        for k in range(0, 3 * S + 3):
            lines += ["m insert 0 %d %d" % (k, k + 100), "m stats 0"]
        # and with the setting the C interface uses
        lines += ["m new 0 %d" % S, "m setmlf 0 %d" % k2.dbits(0.0), "m stats 0"]
        for k in range(0, 6 * S + 3):
            lines += ["m insert 0 %d %d" % (k, k + 100), "m stats 0"]
        out.append((cfg, lines))
    return out


def run(tier):
    return k6check.run("C15", tier, phases=[k2check.streams_phase("C15", "mlf-boundary", boundary_streams,
                       what="load_factor_too_low raised although the load factor is not below the minimum (C tables run with minimum 0)")])


def replay(path):
    import json
    d = json.load(open(path))
    if any("cfg_line" in f for f in d.get("failing_inputs", [])):
        return k2check.replay("C15", path)
    return k6check.replay("C15", path)
