"""C15: C wrapper — generated forwarding/catch table + theorems, K6 lock-step correspondence (DESIGN.md 6/C15, 12)."""
import k6check


def run(tier):
    return k6check.run("C15", tier)


def replay(path):
    return k6check.replay("C15", path)
