"""C07: model-level failure-atomicity / lifetime-skeleton theorems + K5 fault enumeration and object-lifetime monitoring."""
import k5check


def run(tier):
    return k5check.run("C07", tier)


def replay(path):
    return k5check.replay("C07", path)
