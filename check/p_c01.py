"""C01 (protocol-level): see DESIGN.md section 6/C01 and 12."""
import k3check


def run(tier):
    return k3check.run("C01", tier)


def replay(path):
    return k3check.replay("C01", path)
