#!/bin/bash
# Behaviour-preserving rewrites of /repo (harmless/h<area>_<i>.diff, produced by independent agents: same lock / atomic / event
# sequence, same layout).  Runs the quick checks relevant to the area against each of them (scratch copies, /repo untouched);
# a check that reports a VIOLATION here raises a false alarm.   usage: run_harmless.sh [area ...]
cd "$(dirname "$0")/.."
areas="$@"; [ -z "$areas" ] && areas="1 2 3 4 5 6"
for a in $areas; do
  case $a in
   1) ids="C01 C03 C04 C06 C02";;
   2) ids="C01 C02 C16 C17 C07 C05";;
   3) ids="C02 C10 C13 C07 C08 C01 C06 C15";;
   4) ids="C13 C02 C08 C11 C12 C07";;
   5) ids="C14 C15";;
   6) ids="C09 C06 C12 C17 C04 C16 C11";;
  esac
  for p in harmless/h${a}_*.diff; do
    echo "#### $p"; bash check/trymut.sh $p $ids 2>&1 | grep "^=="
  done
done
