"""Generic K2-backed property check: Lean obligations of Props/<ID>.lean + sequential correspondence
restricted to the observations the property is about + reference-oracle search."""
import concurrent.futures as cf
import json
import os
import random

import common as C
import k2

# which request kinds a property's correspondence compares (None = every line, i.e. full state)
PROJECTION = {
    "C02": None,
    "C05": {"stats", "inv"},
    "C09": {"iter", "riter", "ltfind", "ltcount", "ltat", "ltequalrange", "lteraseit", "ltinsert", "ltindex", "lterase", "ltapi"},
    "C10": {"stats", "setmlf", "setmhp", "rehash", "reserve", "insert", "ioa", "upsert", "uprase", "ltinsert", "ltindex", "inv"},
    "C11": None,
    "C12": {"read", "write", "stats", "iter", "inv"},
    "C17": {"find", "updatefn", "erasefn", "upsert", "uprase", "insert", "ioa", "update", "erase", "findv", "api"},
}


def configs(tier, rng, pid):
    cfgs = []
    if tier == "quick":
        Ss, Ms, kinds, hms = (1, 2, 4, 8), (2, 4), (0, 1, 2), (0, 1, 2, 3, 4, 5)
        picks = [(S, M, k) for S in Ss for M in Ms for k in kinds]
        rng.shuffle(picks)
        picks = picks[:12]
        if (3, 8, 0) not in picks:
            picks.append((3, 8, 0))
    else:
        picks = [(S, M, k) for S in (1, 2, 3, 4, 8) for M in (2, 4, 8) for k in (0, 1, 2)]
        hms = (0, 1, 2, 3, 4, 5)
    for S, M, k in picks:
        for hm in hms:
            cfgs.append(k2.Cfg(S, M, k, hm))
    return cfgs


def match_known(fail, known):
    for kf in known:
        if not kf.get("status", "open").startswith("open"):
            continue
        sig = kf.get("signature", {})
        if sig.get("property") and sig["property"] != fail.get("property"):
            continue
        if sig.get("why_contains") and sig["why_contains"] not in fail.get("why", ""):
            continue
        if sig.get("op") and not fail.get("op", "").startswith("m " + sig["op"]):
            continue
        return kf
    return None


def run(pid, tier, profile="mixed", own=None, nops=None, streams_per_cfg=None, extra_streams=None,
        technique_note="", k3_programs=None, tsan_modes=None, extra_props=(), phases=(), k3_only_own=False):
    own = own or {pid}
    res = C.Result(pid, tier)
    rng = random.Random(C.seed() * 1000003 + sum(ord(x) for x in pid))
    nops = nops or (500 if tier == "quick" else 4000)
    known = [k for k in C.load_known().get("findings", []) if k.get("property") in own]
    with C.Lock():
        gen = {"C10": C.both(C.regen_arith, C.regen_limits), "C12": C.both(C.regen_arith, C.regen_wire)}.get(pid, C.regen_arith)
        lean_ok, names = C.lean_phase(res, pid, gen_fn=gen,
                                      extra_props=list(extra_props) + {"C10": ["C10Limits"], "C12": ["C12Wire"]}.get(pid, []))
    for ph in phases:
        ph(res, tier)
    cfgs = configs(tier, rng, pid)
    bins = k2.build_all(cfgs + [c for c, _ in (extra_streams or [])])
    for key, (ok, exe, log) in bins.items():
        if not ok:
            res.add_broken("K2 harness %s does not compile against /repo" % key, log)
    jobs = []
    for cfg in cfgs:
        if not bins[cfg.key()][0]:
            continue
        for _ in range(streams_per_cfg or 1):
            g = k2.Gen(random.Random(rng.getrandbits(48)), cfg, profile)
            lines = g.run(nops, allow_mlf0=(cfg.hashmode in (0, 4)), universe=rng.choice([12, 48, 200]))
            jobs.append((cfg, lines, g.stat))
    for cfg, lines in (extra_streams or []):
        if bins.get(cfg.key(), (False,))[0]:
            jobs.append((cfg, lines, {}))
    proj = PROJECTION.get(pid)

    def work(j):
        cfg, lines, stat = j
        exe = bins[cfg.key()][1]
        cpp, lean, info = k2.run_pair(exe, lines)
        out = {"cfg": cfg, "lines": lines, "info": info, "diff": None, "oracle": [], "crash": None}
        if info["cpp_rc"] != 0:
            out["crash"] = {"rc": info["cpp_rc"], "tail": "\n".join(cpp[-25:])[-2500:]}
        n = min(len(cpp), len(lean), len(lines))
        for i in range(n):
            if cpp[i] != lean[i]:
                kind = lines[i].split()[1]
                if proj is None or kind in proj:
                    out["diff"] = {"op_index": i, "op": lines[i], "implementation": cpp[i][:400], "model": lean[i][:400],
                                   "context": lines[max(0, i - 5):i + 1]}
                    break
        if out["diff"] is None and (len(cpp) < len(lines) or len(lean) < len(lines)):
            out["diff"] = {"op_index": n, "op": lines[n] if n < len(lines) else "<eof>", "implementation": "<%d lines>" % len(cpp),
                           "model": "<%d lines>" % len(lean)}
        orc = k2.RefMap(cfg)
        for i, (ln, got) in enumerate(zip(lines, cpp)):
            try:
                orc.step(i, ln, got)
            except (ValueError, IndexError, KeyError) as e:
                orc.fail("C02", i, ln, got, "unparsable answer (%s)" % e)
            if len(orc.fails) >= 8:
                break
        out["oracle"] = [f for f in orc.fails if f["property"] in own]
        out["stat"] = stat
        return out

    total_ops = 0
    distinct = set()
    opstat = {}
    outcomes = {}
    diffs, fails, crashes = [], [], []
    with cf.ThreadPoolExecutor(max_workers=14) as ex:
        for out in ex.map(work, jobs):
            total_ops += len(out["lines"])
            for ln in out["lines"]:
                distinct.add((out["cfg"].name(), ln))
            for k_, v in out.get("stat", {}).items():
                opstat[k_] = opstat.get(k_, 0) + v
            if out["crash"]:
                crashes.append(out)
            if out["diff"]:
                diffs.append(out)
            for f in out["oracle"]:
                f = dict(f)
                f["config"] = out["cfg"].name()
                f["cfg_line"] = out["cfg"].line()
                f["prefix"] = out["lines"][:f["op_index"] + 1]
                fails.append(f)
    if crashes:
        o = crashes[0]
        res.add_broken("K2: the real table crashed / sanitizer abort (%s)" % o["cfg"].name(), o["crash"]["tail"])
        res.add_failing({"what": "sanitizer abort or crash of the implementation", "config": o["cfg"].name(),
                         "ops": o["lines"][:2000], "tail": o["crash"]["tail"]})
    if diffs:
        o = diffs[0]
        res.add_broken("K2 correspondence (model vs implementation) differs in %d of %d streams; first: %s" %
                       (len(diffs), len(jobs), o["cfg"].name()), json.dumps(o["diff"]))
    seen_known = set()
    for f in fails:
        kf = match_known(f, known)
        if kf is not None:
            if kf["id"] not in seen_known:
                seen_known.add(kf["id"])
                res.known.append("%s %s" % (kf["id"], kf["what"]))
            continue
        if len(res.failing) < 5:
            ff = dict(f)
            res.add_failing(ff)
    if res.failing and not res.broken:
        res.add_broken("reference-map oracle: the implementation's answers violate %s" % pid)
    res.cov.update({
        "evaluations": total_ops,
        "distinct_nontrivial": len(distinct),
        "rule": "K2 streams: random operation sequences per configuration (S, stripe limit via hook, key kind, hash family); "
                "every request is executed by the real table (ASan/UBSan build) and by the compiled Lean model; compared: "
                + ("every answer incl. full-state digest and structural invariant" if proj is None else "answers of " + ",".join(sorted(proj)))
                + "; distinct = distinct (configuration, request) pairs",
        "samples": [" ; ".join(jobs[0][1][:8])] if jobs else [],
        "streams": len(jobs),
        "configurations": sorted({j[0].name() for j in jobs})[:80],
        "op_distribution": opstat,
        "streams_with_divergence": len(diffs),
        "oracle_failures": len(fails),
    })
    if k3_programs:
        # the property also has a concurrent face: explore the given client programs under the deterministic scheduler
        import k3
        out3 = k3.explore(tier, C.seed(), programs=set(k3_programs), with_traces=False)
        for b in out3["build_errors"]:
            res.add_broken("K3 harness does not compile against /repo (%s)" % b["config"], b["log"])
        if k3_only_own:
            # only the failures that concern this property (k3check.classify), e.g. dropped resize requests for C10
            import k3check
            out3["failures"] = [f for f in out3["failures"] if pid in k3check.classify(f["why"])]
        for f in out3["failures"][:3]:
            res.add_failing(f)
        if out3["failures"] and not [b for b in res.broken if "K3" in b["what"]]:
            res.add_broken("K3 oracle: an explored schedule of a same-key program is not linearizable / breaks the protocol (%s)" % pid)
        res.cov["k3_executions"] = out3["executions"]
        res.cov["k3_failures"] = len(out3["failures"])
    if tsan_modes:
        # values handed to the caller must be read under the bucket lock: free-running wrappers under ThreadSanitizer
        import k3check
        k3check.tsan_runs(res, tier, known, modes=tuple(tsan_modes))
    res.assumptions += [
        "theorems are about the executable model lean/Cuckoo/Model; K2 ties it to /repo's current headers on every run",
        "helper threads (max_num_worker_threads > 0) are exercised only at the level of results, not layouts",
    ]
    return C.finish(res, "proof", "cd lean && lake build Cuckoo.Props.%s && #print axioms audit; K2 differential (check/k2check.py)" % pid)


def locked_phase(pid, kinds=("ltmoveassign", "probe", "lock", "unlock")):
    """a phase for K3-backed checks (C04, C06): sequential streams with locked sections, including move assignment of a
    locked_table onto an active one, followed by lock probes of every array; judged by the reference oracle (failures
    attributed to `pid`) and by the model on the requests in `kinds`"""
    def phase(res, tier):
        rng = random.Random(C.seed() * 524287 + sum(ord(x) for x in pid))
        cfgs = [k2.Cfg(S, M, k, hm) for (S, M, k) in ((1, 2, 0), (2, 4, 1), (4, 8, 0), (4, 2, 2)) for hm in ((0, 2, 4) if tier == "quick" else (0, 1, 2, 3, 4, 5))]
        bins = k2.build_all(cfgs)
        n = nbad = nops = 0
        for cfg in cfgs:
            ok, exe, log = bins[cfg.key()]
            if not ok:
                res.add_broken("K2 harness %s does not compile against /repo" % cfg.key(), log)
                continue
            g = k2.Gen(random.Random(rng.getrandbits(48)), cfg, "locked")
            lines = g.run(500 if tier == "quick" else 4000, allow_mlf0=(cfg.hashmode in (0, 4)), universe=rng.choice([12, 48, 200]))
            if cfg.kind != 2 and cfg.hashmode in (0, 4):
                # lock_table() right after every insertion of a growing table, with helper threads configured: whatever part of a
                # deferred migration is pending, the locked table must expose every stored element (forward and backward)
                w = rng.choice([2, 4, 5])
                lines += ["m new 0 2", "m setmlf 0 0", "m setworkers 0 %d" % w]
                for k in rng.sample(range(1, 5000), 40 if tier == "quick" else 120):
                    lines += ["m insert 0 %d %d" % (k, k % 89), "m lock 0", "m iter 0", "m riter 0", "m unlock 0"]
                lines += ["m setworkers 0 0", "m digest 0"]
            cpp, lean, info = k2.run_pair(exe, lines)
            n += 1
            nops += len(lines)
            bad = None
            for i in range(min(len(cpp), len(lean), len(lines))):
                if cpp[i] != lean[i] and lines[i].split()[1] in kinds:
                    bad = {"property": pid, "op_index": i, "op": lines[i], "implementation_answer": cpp[i][:300], "why": "model answers `%s`" % lean[i][:200]}
                    break
            orc = k2.RefMap(cfg)
            for i, (ln, got) in enumerate(zip(lines, cpp)):
                try:
                    orc.step(i, ln, got)
                except (ValueError, IndexError, KeyError):
                    break
            mine = [f for f in orc.fails if f["property"] == pid or (pid == "C06" and f["property"] == "C09")]   # C06: "exposes every stored element"
            if info["cpp_rc"] == -999 and not mine and not bad:
                mine = [{"property": pid, "op_index": len(cpp), "op": lines[len(cpp)] if len(cpp) < len(lines) else "<end>",
                         "implementation_answer": "<no answer: the request hangs>", "why": "a request on the table does not return (lock still held?)"}]
            if mine or bad:
                nbad += 1
                f = dict((mine or [bad])[0])
                f.update({"config": cfg.name(), "cfg_line": cfg.line(), "prefix": lines[:f["op_index"] + 1]})
                if len(res.failing) < 3:
                    res.add_failing(f)
        if nbad:
            res.add_broken("K2 locked-section streams: lock ownership after lock / unlock / move assignment of a locked_table violates %s "
                           "(%d of %d streams)" % (pid, nbad, n))
        res.cov["k2_locked_streams"] = n
        res.cov["k2_locked_requests"] = nops
    return phase


def streams_phase(pid, label, make_streams, also=(), what=""):
    """a phase running dedicated K2 streams `make_streams(tier, rng) -> [(cfg, lines)]` on the real table; judged by the
    reference oracle: failures attributed to `pid` (or to a property in `also`, which this phase re-attributes to `pid`)"""
    def phase(res, tier):
        rng = random.Random(C.seed() * 131071 + sum(ord(x) for x in pid + label))
        streams = make_streams(tier, rng)
        bins = k2.build_all([c for c, _ in streams])
        n = nbad = nops = 0
        for cfg, lines in streams:
            ok, exe, log = bins[cfg.key()]
            if not ok:
                res.add_broken("K2 harness %s does not compile against /repo" % cfg.key(), log)
                continue
            rc, out, dt = C.sh([exe], input="\n".join(lines) + "\n", timeout=C.scaled(300))
            cpp = out.splitlines()
            n += 1
            nops += len(lines)
            orc = k2.RefMap(cfg)
            for i, (ln, got) in enumerate(zip(lines, cpp)):
                try:
                    orc.step(i, ln, got)
                except (ValueError, IndexError, KeyError):
                    break
            mine = [f for f in orc.fails if f["property"] == pid or f["property"] in also]
            if rc != 0 and not mine:
                mine = [{"property": pid, "op_index": len(cpp), "op": lines[len(cpp)] if len(cpp) < len(lines) else "<end>",
                         "implementation_answer": "<crash rc=%s>" % rc, "why": "the harness crashed / was killed: " + out[-400:]}]
            if mine:
                nbad += 1
                f = dict(mine[0])
                f["property"] = pid
                f.update({"config": cfg.name(), "cfg_line": cfg.line(), "prefix": lines[:f["op_index"] + 1]})
                if len(res.failing) < 3:
                    res.add_failing(f)
        if nbad:
            res.add_broken("K2 %s streams: %s (%d of %d streams)" % (label, what or ("the reference oracle reports a violation of " + pid), nbad, n))
        res.cov["k2_%s_streams" % label] = n
        res.cov["k2_%s_requests" % label] = nops
    return phase


def replay(pid, path):
    d = json.load(open(path))
    print(json.dumps({k: d[k] for k in d if k != "failing_inputs"}, indent=1)[:3000])
    bad = 0
    for f in d.get("failing_inputs", []):
        if "prefix" not in f or "cfg_line" not in f:
            continue
        w = f["cfg_line"].split()
        S, M, simple, nothrow, hm = int(w[2]), int(w[3]), int(w[4]), int(w[5]), int(w[7])
        kind = 0 if simple else (1 if nothrow else 2)
        apol = None
        for ln in f["prefix"][:4]:
            if ln.startswith("m apol "):
                apol = int(ln.split()[3])
        cfg = k2.Cfg(S, M, kind, hm, apol=apol)
        ok, exe, log = k2.harness_for(cfg)
        if not ok:
            print(log)
            return 2
        lines = f["prefix"]
        if not lines or not lines[0].startswith("m cfg"):
            lines = [f["cfg_line"]] + lines
        cpp, lean, info = k2.run_pair(exe, lines)
        orc = k2.RefMap(cfg)
        for i, (ln, got) in enumerate(zip(lines, cpp)):
            orc.step(i, ln, got)
        mine = [x for x in orc.fails if x["property"] == f["property"]]
        print("replay %s: %d oracle failure(s); last answer: %s" % (cfg.name(), len(mine), cpp[-1] if cpp else "<none>"))
        if mine:
            print(json.dumps(mine[0], indent=1))
            bad += 1
    return 1 if bad else 0
