"""Generic K3-backed property check (C01, C03, C04, C06): Lean obligations of Props/<ID>.lean, schedule exploration
of the real code with oracles, and replay of recorded synchronisation traces through the Lean acceptor."""
import json

import common as C
import k3

# which oracle messages belong to which property
def classify(why):
    w = why.lower()
    props = set()
    if "not linearizable" in w or "stored twice" in w or "cur_wf" in w or "uniq" in w or "unmig_empty" in w or "pending" in w or "rem_eq" in w:
        props.add("C01")
    if "size()" in w or "count" in w:
        props.add("C05")
        props.add("C01")
    if "lock order" in w or "deadlock" in w or "still held" in w or "holding a lock" in w or "step budget" in w or "not held" in w:
        props.add("C04")
    if "without holding stripe" in w or "functor runs" in w or "before the resize counter was re-validated" in w:
        props.add("C03")
    if "old bucket array is released" in w:
        props.add("C08")
        props.add("C01")
    if "before the resize counter was advanced" in w or "without holding every lock" in w:
        props.add("C06")
        props.add("C01")
    if "explicit resize request" in w:
        props |= {"C01", "C06", "C10"}
    if not props:
        props.add("C01")
    return props


SECTION_PROGRAMS = {"section-inserts-grows", "section-rehash-clear", "section-resize-vs-rehash", "section-stream", "section-stream-restore"}


def regen_memorder():
    """T-C"""
    import os
    import sys
    gen = os.path.join(C.CACHE, "gen")
    os.makedirs(gen, exist_ok=True)
    tmp = os.path.join(gen, "MemOrder.lean")
    rc, out, _ = C.sh([sys.executable, os.path.join(C.VERIF, "translate", "memorder.py"), C.REPO, tmp, gen])
    if rc != 0:
        return False, ["T-C: " + out.strip()[-1500:]]
    msgs = []
    if C.write_if_changed(os.path.join(C.LEAN, "Cuckoo", "Gen", "MemOrder.lean"), open(tmp).read()):
        msgs.append("T-C: Gen/MemOrder.lean changed")
    return True, msgs


def regen_sync():
    """T-E: synchronisation skeletons of the protocol functions, from the source text cross-checked with clang's AST"""
    import os
    import sys
    gen = os.path.join(C.CACHE, "gen")
    os.makedirs(gen, exist_ok=True)
    tmp = os.path.join(gen, "Sync.lean")
    rc, out, _ = C.sh([sys.executable, os.path.join(C.VERIF, "translate", "syncskel.py"), C.REPO, tmp, os.path.join(gen, "syncskel")])
    if rc != 0:
        return False, ["T-E: " + out.strip()[-1500:]]
    msgs = []
    if C.write_if_changed(os.path.join(C.LEAN, "Cuckoo", "Gen", "Sync.lean"), open(tmp).read()):
        msgs.append("T-E: Gen/Sync.lean changed")
    return True, msgs


def regen_for(pid):
    def f():
        ok, msgs = regen_sync()
        if pid == "C03":
            ok2, msgs2 = regen_memorder()
            ok, msgs = ok and ok2, msgs + msgs2
        return ok, msgs
    return f


def tsan_runs(res, tier, known, modes=(0, 1, 2)):
    """K4: free-running threads under ThreadSanitizer (guard off): supports the data-race clause of C03"""
    import os
    ok, exe, log = C.build_harness("k4-tsan", "k4_tsan.cc", ["-O1", "-g", "-fsanitize=thread", "-U" + C.GUARD], compiler="clang++-14")
    if not ok:
        res.add_broken("K4 (TSan) harness does not compile against /repo", log)
        return
    env = dict(os.environ)
    env["TSAN_OPTIONS"] = "halt_on_error=0 exitcode=0"
    nseeds = 4 if tier == "quick" else 12
    iters = 2500 if tier == "quick" else 20000
    reports, runs = [], 0
    # guard on + stripe limit 4: doublings defer migration (mode 3), and mode 0 grows through lazily migrated tables
    ok2, exe2, log2 = C.build_harness("k4-tsan-lazy", "k4_tsan.cc", ["-O1", "-g", "-fsanitize=thread", "-DLIBCUCKOO_VERIF_MAX_NUM_LOCKS=4"],
                                      compiler="clang++-14")
    if not ok2:
        res.add_broken("K4 (TSan, deferred migration) harness does not compile against /repo", log2)
    plan = [(exe, m) for m in modes]
    if ok2 and 0 in modes:
        plan += [(exe2, 3), (exe2, 0)]
    import concurrent.futures as cf
    jobs = [(ex_, mode, sd) for ex_, mode in plan for sd in range(nseeds)]

    def one(j):
        ex_, mode, sd = j
        rc, out, dt = C.sh([ex_, str(C.seed() * 100 + sd), str(iters), str(mode)], timeout=600, env=env)
        return mode, sd, out

    with cf.ThreadPoolExecutor(max_workers=4) as pool:
        for mode, sd, out in pool.map(one, jobs):
            runs += 1
            if "done bad=0" not in out:
                res.add_failing({"what": "K4 free-running run failed (crash, hang or a reader saw a torn/wrong value)", "mode": mode,
                                 "seed": C.seed() * 100 + sd, "tail": out[-1500:]})
            blocks = out.split("WARNING: ThreadSanitizer")[1:]
            for b in blocks:
                reports.append(b)
    f8 = [k for k in known if k.get("id") == "F8" and k.get("status", "open").startswith("open")]
    unknown = []
    nknown = 0
    for b in reports:
        if f8 and ("maybe_resize_locks" in b or "all_locks" in b or "emplace_back" in b):
            nknown += 1
        else:
            unknown.append(b)
    if nknown:
        res.known.append("F8 %s (%d ThreadSanitizer report(s) in %d runs)" % (f8[0]["what"], nknown, runs))
    for b in unknown[:2]:
        import re
        short = re.sub(r"libcuckoo::cuckoohash_map<[^()]*?>::", "M::", b)
        res.add_failing({"what": "ThreadSanitizer: data race outside the known lock-array-list race", "report": short[:4000]})
    if unknown and not [x for x in res.broken if "K4" in x["what"]]:
        res.add_broken("K4: ThreadSanitizer reports a data race between table operations")
    res.cov["tsan_runs"] = runs
    res.cov["tsan_reports_known"] = nknown
    res.cov["tsan_reports_unknown"] = len(unknown)


def run(pid, tier, programs=None, phases=()):
    res = C.Result(pid, tier)
    known = [k for k in C.load_known().get("findings", []) if k.get("property") == pid]
    with C.Lock():
        lean_ok, names = C.lean_phase(res, pid, gen_fn=regen_for(pid), thorough_modules=["Cuckoo.Model.Proto"],
                                      extra_props={"C01": ["C01Conc", "C01Red", "C01Sync", "C01Lin", "C01Sched"], "C03": ["C01Red", "C01Sync", "C03Frame", "C03Comm"], "C04": ["C04Live", "C01Sync"],
                                                   "C06": ["C06Conc", "C01Red", "C01Sync"]}.get(pid, []))
    if pid == "C03":
        tsan_runs(res, tier, known)
    for ph in phases:
        ph(res, tier)
    # K3(ii), the replay of executions as schedules of Model/Conc sections, ties the theorems of C01Conc / C06Conc / C05Conc;
    # the protocol-level properties (C03, C04) are about Proto.accept only and do not depend on the layout the sections produce
    out = k3.explore(tier, C.seed(), programs=programs, with_sections=pid in ("C01", "C06"))
    for b in out["build_errors"]:
        res.add_broken("K3 harness does not compile against /repo (%s)" % b["config"], b["log"])
    for c in out["crashes"][:2]:
        res.add_broken("K3 harness crashed / was killed (%s, %s, rc=%s)" % (c["program"], c["config"], c["rc"]), c["tail"])
        res.add_failing({"what": "crash, abort or deadlock of the real table under the deterministic scheduler", "program": c["program"],
                         "config": c["config"], "harness_input": c["input"], "tail": c["tail"]})
    if out["rejects"]:
        res.add_broken("K3(i): %d recorded synchronisation trace(s) are rejected by the Lean protocol model Cuckoo.Proto.accept "
                       "by rule L of Model/ProtoLive.lean or by rule T (two-phase holds) of Model/Fine.lean (the code no longer follows the protocol the theorems are about)" % len(out["rejects"]),
                       json.dumps(out["rejects"][:3]))
    sm = out.get("section_mismatches", [])
    if sm:
        res.add_broken("K3(ii): %d recorded execution(s), replayed hold by hold as sections of Model/Conc.lean in commit order, do not reproduce "
                       "the real table's answers / final full state (the code of a lock-hold no longer computes the section function the "
                       "linearizability theorems are about)" % len(sm), json.dumps(sm[:2])[:6000])
    mine = [f for f in out["failures"] if pid in classify(f["why"])]
    seen = set()
    for f in mine:
        kf = None
        for k in known:
            if k.get("status", "open").startswith("open") and k.get("signature", {}).get("why_contains", "\0") in f["why"]:
                kf = k
        if kf:
            if kf["id"] not in seen:
                seen.add(kf["id"])
                res.known.append("%s %s" % (kf["id"], kf["what"]))
            continue
        if len(res.failing) < 4:
            res.add_failing(f)
    if res.failing and not res.broken:
        res.add_broken("K3 oracle: an explored schedule violates %s" % pid)
    res.cov.update({
        "evaluations": out["executions"],
        "distinct_nontrivial": len([k for k, v in out["per_program"].items() if v["executions"] > 0]),
        "rule": "K3: each execution = one client program (2-3 threads x 1-5 calls) run on the real table under the baton scheduler with "
                "a seeded schedule (non-preemptive + 1..3 preemption points, or uniformly random at every synchronisation event); oracles: "
                "linearizability (exhaustive search) vs a sequential map, final contents, structural scan, lockset/protocol monitor, lock "
                "leak probe, deadlock; a sample of traces is replayed through Cuckoo.Proto.accept / Fine.accept and the sampled histories through the verified "
                "checker Cuckoo.Lin.checkFast. distinct_nontrivial = (program, "
                "configuration) pairs explored",
        "samples": [{"program": p[0], "threads": p[4], "prefill": p[3]} for p in k3.PROGRAMS[:3]],
        "sync_events": out["events"],
        "traces_validated_against_model": out["traces"],
        "traces_rejected": len(out["rejects"]),
        "histories_decided_by_verified_checker": out.get("histories_checked_in_lean", 0),
        "executions_replayed_as_section_schedules": out.get("section_replays", 0),
        "sections_replayed": out.get("sections_replayed", 0),
        "section_mismatches": len(sm),
        "oracle_disagreements": out.get("oracle_disagreements", [])[:3],
        "oracle_failures": len(out["failures"]),
        "per_program": out["per_program"],
    })
    res.assumptions += [
        "the protocol theorems are about traces accepted by Cuckoo.Proto.accept (and, for the retry bound, rule L of Model/ProtoLive.lean); "
        "K3(i) checks that recorded traces of /repo are accepted by both",
        "the scheduler makes executions sequentially consistent; hardware reordering is outside K3 (memory orders are checked by T-C)",
        "that one lock-hold is atomic is Props/C01Red.lean (mechanised); that the code of a hold computes the section function of Model/Conc.lean "
        "and stays within its stripes is tied by K2 / the lockset monitor (Props/C03Frame.lean on the model side), not proved about the C++",
        "linearizability of a recorded history is decided by the C++ search of the harness on every execution and by the verified checker "
        "Cuckoo.Lin.checkFast (Props/C01Lin.lean: sound and complete) on a sample of the accepted histories and on every rejected one",
    ]
    return C.finish(res, "proof", "cd lean && lake build Cuckoo.Props.%s && #print axioms audit; K3 exploration + trace replay (check/k3check.py)" % pid)


def replay(pid, path):
    d = json.load(open(path))
    print(json.dumps(d.get("no_longer_checks", []), indent=1)[:2000])
    bad = 0
    for f in d.get("failing_inputs", []):
        if "cfg_line" in f and "prefix" in f:
            import k2check
            return k2check.replay(pid, path)
        if "schedule" not in f:
            continue
        S, M = [int(x.split("=")[1]) for x in f["config"].split()]
        ok, exe, log = k3.harness_for(S, M)
        if not ok:
            print(log)
            return 2
        p = (f["program"], f["hash"], f["init_n"], f["prefill"], f["threads"])
        rc, res, tail, dt = k3.run_program(exe, p, ["replay " + f["schedule"]])
        print("replay %s %s: %s" % (f["program"], f["config"], json.dumps({k: v for k, v in (res[0] if res else {}).items() if k != "trace"})[:1500]))
        if res and res[0].get("ok") is False:
            bad += 1
    return 1 if bad else 0
