"""K2: sequential full-state differential between the Lean model (compiled driver) and the real table,
plus an independent reference-map oracle that classifies a divergence per property (DESIGN 4.2, 5)."""
import os
import random
import struct
import concurrent.futures as cf

import common as C

NOMAX = (1 << 64) - 1


def dbits(x):
    return struct.unpack("<Q", struct.pack("<d", x))[0]


MLF_DEFAULT = dbits(0.05)


class Cfg:
    def __init__(self, S, M, kind, hashmode, hpl=40, real=False, apol=None):
        self.S, self.M, self.kind, self.hashmode, self.hpl, self.real = S, M, kind, hashmode, hpl, real
        self.apol = apol           # None: stateless always-equal allocator; 0..7: identity-carrying allocator, propagation bits
        self.simple = 1 if kind == 0 else 0
        self.nothrow = 1 if kind in (0, 1) else 0

    def line(self, bump=1):
        return "m cfg %d %d %d %d %d %d %d" % (self.S, self.M, self.simple, self.nothrow, self.hpl, self.hashmode, bump)

    def key(self):
        return "S%d-M%d-K%d" % (self.S, self.M, self.kind) + ("" if self.apol is None else "-A%d" % self.apol)

    def name(self):
        return "S=%d M=%d kind=%d hash=%d" % (self.S, self.M, self.kind, self.hashmode) + ("" if self.apol is None else " apol=%d" % self.apol)


def harness_for(cfg):
    flags = ["-O1", "-g", "-fsanitize=address,undefined", "-fno-sanitize-recover=all",
             "-DVH_S=%d" % cfg.S, "-DVH_KIND=%d" % cfg.kind]
    if cfg.M != 65536:
        flags.append("-DLIBCUCKOO_VERIF_MAX_NUM_LOCKS=%d" % cfg.M)
    if cfg.apol is not None:
        flags.append("-DVH_APOL=%d" % cfg.apol)
    return C.build_harness("k2-" + cfg.key(), "k2_seq.cc", flags)


def build_all(cfgs, jobs=14):
    uniq = {}
    for c in cfgs:
        uniq.setdefault(c.key(), c)
    out = {}
    with cf.ThreadPoolExecutor(max_workers=jobs) as ex:
        futs = {k: ex.submit(harness_for, c) for k, c in uniq.items()}
        for k, f in futs.items():
            out[k] = f.result()
    return out


FN_POOL = ["n,0,0", "s,7,0", "s,9,0", "a,1,0", "a,3,0", "n,0,1", "s,5,1", "a,2,1"]


class Gen:
    """operation-stream generator; `profile` shifts the mix towards one property's concerns"""

    def __init__(self, rng, cfg, profile="mixed"):
        self.rng, self.cfg, self.profile = rng, cfg, profile
        self.lines = []
        self.locked = {0: False, 1: False}
        self.live = {0: False, 1: False}
        self.stat = {}
        self.workers = 0           # helper threads currently configured on table 0
        self.alloc = {}            # allocator id per existing object (allocator streams)
        self.exists = set()

    def emit(self, s, kind=None):
        self.lines.append(s)
        k = kind or s.split()[1]
        self.stat[k] = self.stat.get(k, 0) + 1

    def key(self, universe):
        r = self.rng
        if r.random() < 0.1:
            return r.choice([0, 1, (1 << 32) - 1, 1 << 20, 12345678901])
        return r.randrange(universe)

    def run(self, nops, universe=48, init_n=None, digest_every=1, allow_mlf0=True, throwing_fn=False):
        r = self.rng
        cfg = self.cfg
        self.emit(cfg.line(), "cfg")
        n0 = init_n if init_n is not None else r.choice([0, 1, 2, 3, 4, 8, 9, 16, 33])
        if cfg.apol is not None:
            self.emit("m apol 0 %d" % cfg.apol)
            self.new_obj(0, n0, r.choice([0, 1, 2]))
        else:
            self.emit("m new 0 %d" % n0)
        self.live[0] = True
        self.emit("m digest 0")
        prof = self.profile
        for i in range(nops):
            x = r.random()
            tid = 0
            if self.locked[tid]:
                self.locked_op(tid, universe)
            elif prof == "limits" and r.random() < 0.12:
                y = r.random()
                if y < 0.35:
                    self.emit("m setmhp %d %d" % (tid, r.choice([NOMAX, 1, 2, 3, 4, 5, 6, 7])))
                elif y < 0.55:
                    self.emit("m rehash %d %d" % (tid, r.randrange(0, 8)))
                elif y < 0.7:
                    self.emit("m reserve %d %d" % (tid, r.choice([0, 1, 4, 9, 17, 40, 100, 260])))
                elif y < 0.85:
                    self.emit("m setmlf %d %d" % (tid, dbits(r.choice([0.05, 0.3, 0.6, 1.0, 0.0 if allow_mlf0 else 0.05, -1.0, 2.0]))))
                else:
                    self.emit("m stats %d" % tid)
            elif prof == "functors" and r.random() < 0.3:
                fns = FN_POOL + (["T,4,0"] if throwing_fn else [])
                y = r.random()
                if y < 0.5:
                    self.emit("m %s %d %d %d %d %s %s" % (r.choice(["upsert", "uprase"]), tid, self.key(universe), r.randrange(1000),
                                                          r.randrange(2), r.choice(fns), r.choice(fns)))
                elif y < 0.8:
                    self.emit("m %s %d %d %s" % (r.choice(["updatefn", "erasefn"]), tid, self.key(universe), r.choice(fns)))
                else:
                    self.emit("m find %d %d" % (tid, self.key(universe)))
            elif prof == "objects" and r.random() < 0.12:
                self.objects_op(universe)
            elif prof == "allocators" and r.random() < 0.15:
                self.alloc_objects_op(universe)
            elif prof == "locked" and r.random() < 0.1:
                self.emit("m lock %d" % tid)
                self.locked[tid] = True
                self.emit("m iter %d" % tid)
                self.emit("m riter %d" % tid)
            elif x < 0.30:
                self.emit("m insert %d %d %d" % (tid, self.key(universe), r.randrange(1000)))
                if prof == "limits":
                    self.emit("m stats %d" % tid)      # a refused expansion is judged against the load factor it saw
            elif x < 0.42:
                self.emit("m erase %d %d" % (tid, self.key(universe)))
            elif x < 0.50:
                self.emit("m find %d %d" % (tid, self.key(universe)))
            elif x < 0.53:
                self.emit("m findv %d %d" % (tid, self.key(universe)))
            elif x < 0.57:
                self.emit("m update %d %d %d" % (tid, self.key(universe), r.randrange(1000)))
            elif x < 0.61:
                self.emit("m ioa %d %d %d" % (tid, self.key(universe), r.randrange(1000)))
            elif x < 0.69:
                op = r.choice(["upsert", "uprase"])
                fns = FN_POOL + (["T,4,0"] if throwing_fn else [])
                self.emit("m %s %d %d %d %d %s %s" % (op, tid, self.key(universe), r.randrange(1000), r.randrange(2),
                                                      r.choice(fns), r.choice(fns)))
            elif x < 0.74:
                fns = FN_POOL + (["T,4,0"] if throwing_fn else [])
                self.emit("m %s %d %d %s" % (r.choice(["updatefn", "erasefn"]), tid, self.key(universe), r.choice(fns)))
            elif x < 0.78:
                self.emit("m stats %d" % tid)
            elif x < 0.82:
                if self.workers and r.random() < 0.6:
                    # with helper threads a rebuild inserts in a timing-dependent order (layout not comparable cell by
                    # cell): batch migrations only — lock_table() finishes pending migration with the helpers
                    self.emit("m lock %d" % tid)
                    self.emit("m iter %d" % tid)
                    self.emit("m unlock %d" % tid)
                elif self.workers:
                    self.emit("m setworkers %d 0" % tid)
                    self.workers = 0
                elif prof in ("mixed", "locked") and cfg.kind != 2 and r.random() < 0.25:
                    self.workers = r.choice([1, 2, 3, 5])
                    self.emit("m setworkers %d %d" % (tid, self.workers))
                elif r.random() < 0.5:
                    self.emit("m rehash %d %d" % (tid, r.randrange(0, 9)))
                else:
                    self.emit("m reserve %d %d" % (tid, r.choice([0, 1, 2, 5, 8, 16, 31, 32, 33, 64, 100, 200, 500])))
            elif x < 0.825:
                self.emit("m clear %d" % tid)
            elif x < 0.85:
                choices = [0.05, 0.25, 0.5, 1.0, -0.5, 1.5, 0.9]
                if allow_mlf0:
                    choices += [0.0, 0.0]
                self.emit("m setmlf %d %d" % (tid, dbits(r.choice(choices))))
            elif x < 0.875:
                self.emit("m setmhp %d %d" % (tid, r.choice([NOMAX, NOMAX, 0, 1, 2, 3, 4, 5, 6, 7, 8, 10])))
            elif x < 0.90:
                self.emit("m lock %d" % tid)
                self.locked[tid] = True
                self.emit("m iter %d" % tid)
            elif x < 0.95:
                self.emit("m api %d %d" % (tid, self.key(universe)))
            else:
                self.emit("m find %d %d" % (tid, self.key(universe)))
            if digest_every and (i % digest_every == 0):
                self.emit("m digest 0")
                self.emit("m inv 0")
        if self.locked[0]:
            self.emit("m unlock 0")
            self.locked[0] = False
        self.emit("m digest 0")
        self.emit("m stats 0")
        return self.lines

    def objects_op(self, universe):
        """copy / move / swap between table 0 and tables 3,4 followed by work on all of them (C11)"""
        r = self.rng
        y = r.random()
        other = r.choice([3, 4])
        if not self.live.get(other):
            self.emit("m new %d %d" % (other, r.choice([0, 2, 8, 40])))
            self.live[other] = True
            for _ in range(r.randrange(0, 10)):
                self.emit("m insert %d %d %d" % (other, self.key(universe), r.randrange(1000)))
        if y < 0.3:
            self.emit("m copy %d 0" % other)                  # copy-assign 0 into other
        elif y < 0.45:
            self.emit("m copy 0 %d" % other)
        elif y < 0.75:
            self.emit("m swap 0 %d" % other)
        elif y < 0.9:
            self.emit("m move 5 0")                           # move-construct (slot 5 is always empty before)
            self.emit("m digest 5")
            self.emit("m inv 5")
            self.emit("m copy 0 5")                           # copy-assign onto the moved-from object
            self.emit("m move %d 5" % other)                  # move-assign
            self.emit("m new 5 0")
            self.emit("m move 6 5")                           # leave 5 and 6 in a defined state for the next round
            self.emit("m new 5 0")
            self.emit("m move 7 5")
        elif y < 0.93:
            self.emit("m move %d 0" % other)
            self.emit("m copy 0 %d" % other)
        elif y < 0.97:
            # initializer-list / iterator-range constructors (explicit capacity) and operator=(initializer_list)
            items = " ".join("%d %d" % (self.key(universe), r.randrange(1000)) for _ in range(r.choice([0, 1, 3, 4, 9, 30])))
            self.emit(("m %s 7 %d %s" % (r.choice(["newil", "newrange"]), r.choice([0, 2, 8, 40]), items)).rstrip())
            self.emit("m digest 7")
            self.emit("m inv 7")
            self.emit("m stats 7")
            items = " ".join("%d %d" % (self.key(universe), r.randrange(1000)) for _ in range(r.choice([0, 2, 4])))
            self.emit(("m assignil 7 0 %s" % items).rstrip())
            self.emit("m digest 7")
            self.emit("m assignil %d 0 %d 5" % (other, self.key(universe)))
        else:
            self.emit("m copy 0 0")                           # self-assignment, self-swap: no effect
            self.emit("m swap 0 0")
            self.emit("m move %d %d" % (other, other))        # self-move: a moved-from object, assignable
            self.emit("m copy %d 0" % other)
        for t in (0, other):
            self.emit("m digest %d" % t)
            self.emit("m inv %d" % t)
            self.emit("m stats %d" % t)
        for _ in range(r.randrange(2, 8)):
            t = r.choice([0, other])
            z = r.random()
            if z < 0.5:
                self.emit("m insert %d %d %d" % (t, self.key(universe), r.randrange(1000)))
            elif z < 0.75:
                self.emit("m erase %d %d" % (t, self.key(universe)))
            else:
                self.emit("m find %d %d" % (t, self.key(universe)))
        for t in (0, other):
            self.emit("m digest %d" % t)
            self.emit("m inv %d" % t)

    # ---- allocator streams (C11): objects 0, 3, 4 work; 5, 6, 7 are scratch ----
    def new_obj(self, tid, n, a):
        self.emit("m newa %d %d %d" % (tid, n, a))
        self.live[tid] = True
        self.exists.add(tid)
        self.alloc[tid] = a

    def do_assign(self, op, d, s):
        """emit copy/move d <- s and track the allocators by the standard's rules"""
        pol = self.cfg.apol
        self.emit("m %s %d %d" % (op, d, s))
        if d in self.exists:
            prop = (pol & 1) if op == "copy" else (pol & 2)
            if prop:
                self.alloc[d] = self.alloc[s]
        else:
            self.exists.add(d)
            self.alloc[d] = self.alloc[s]
        if op == "move":
            self.live[s] = False
        self.live[d] = not (op == "move" and d == s)

    def alloc_objects_op(self, universe):
        r = self.rng
        pol = self.cfg.apol
        other = r.choice([3, 4])
        if not self.live.get(other):
            if other in self.exists and self.live.get(0) and r.random() < 0.5:
                self.do_assign("copy", other, 0)               # assignment onto a moved-from object
            else:
                self.new_obj(other, r.choice([0, 2, 8, 40]), r.choice([0, 1, 2, 3]))
            for _ in range(r.randrange(0, 10)):
                self.emit("m insert %d %d %d" % (other, self.key(universe), r.randrange(1000)))
        y = r.random()
        touched = [0, other]
        if y < 0.2:
            self.do_assign("copy", other, 0)
        elif y < 0.35:
            self.do_assign("copy", 0, other)
        elif y < 0.5:
            if (pol & 4) or self.alloc[0] == self.alloc[other]:
                self.emit("m swap 0 %d" % other)
                if pol & 4:
                    self.alloc[0], self.alloc[other] = self.alloc[other], self.alloc[0]
            else:
                self.do_assign("copy", 0, other)              # swap would be undefined behaviour: unequal, non-propagating
        elif y < 0.62:
            # allocator-extended copy construction (equal or different allocator), then assign back
            a = r.choice([self.alloc[0], 0, 1, 2, 3, 9])
            self.emit("m copya 5 0 %d" % a)
            self.exists.add(5); self.live[5] = True; self.alloc[5] = a
            self.emit("m digest 5"); self.emit("m inv 5"); self.emit("m allocid 5"); self.emit("m stats 5")
            self.emit("m insert 5 %d %d" % (self.key(universe), r.randrange(1000)))
            self.emit("m erase 5 %d" % self.key(universe))
            self.emit("m digest 5"); self.emit("m inv 5")
            self.do_assign("move" if r.random() < 0.5 else "copy", other, 5)
        elif y < 0.76:
            # allocator-extended move construction, then move-assign back into 0
            a = r.choice([self.alloc[0], 0, 1, 2, 3, 9])
            self.emit("m movea 6 0 %d" % a)
            self.exists.add(6); self.live[6] = True; self.alloc[6] = a; self.live[0] = False
            self.emit("m digest 6"); self.emit("m inv 6"); self.emit("m allocid 6"); self.emit("m stats 6")
            self.emit("m insert 6 %d %d" % (self.key(universe), r.randrange(1000)))
            self.emit("m digest 6"); self.emit("m inv 6")
            self.do_assign("move", 0, 6)
        elif y < 0.86:
            self.do_assign("move", other, 0)
            self.do_assign("copy", 0, other)
        elif y < 0.93:
            # self-assignment and self-swap leave the object as it was
            self.do_assign("copy", 0, 0)
            self.emit("m swap 0 0")
        else:
            # self-move leaves a valid moved-from object: it can be assigned to
            self.do_assign("move", other, other)
            self.do_assign("copy", other, 0)
        for t in touched:
            if self.live.get(t):
                self.emit("m digest %d" % t)
                self.emit("m inv %d" % t)
                self.emit("m stats %d" % t)
                self.emit("m allocid %d" % t)
        for _ in range(r.randrange(2, 8)):
            t = r.choice(touched)
            z = r.random()
            if z < 0.5:
                self.emit("m insert %d %d %d" % (t, self.key(universe), r.randrange(1000)))
            elif z < 0.75:
                self.emit("m erase %d %d" % (t, self.key(universe)))
            else:
                self.emit("m find %d %d" % (t, self.key(universe)))
        for t in touched:
            self.emit("m digest %d" % t)
            self.emit("m inv %d" % t)
            self.emit("m allocid %d" % t)

    def locked_op(self, tid, universe):
        r = self.rng
        x = r.random()
        k = self.key(universe)
        if x < 0.25:
            self.emit("m ltinsert %d %d %d" % (tid, k, r.randrange(1000)))
        elif x < 0.33:
            self.emit("m lterase %d %d" % (tid, k))
        elif x < 0.42:
            self.emit("m lteraseit %d %d" % (tid, k))
        elif x < 0.50:
            self.emit("m ltfind %d %d" % (tid, k))
        elif x < 0.54:
            self.emit("m ltat %d %d" % (tid, k))
        elif x < 0.58:
            self.emit("m ltcount %d %d" % (tid, k))
        elif x < 0.62:
            self.emit("m ltequalrange %d %d" % (tid, k))
        elif x < 0.67:
            self.emit("m ltindex %d %d" % (tid, k))
        elif x < 0.695:
            self.emit("m ltapi %d %d" % (tid, k))
        elif x < 0.72:
            self.emit("m iter %d" % tid)
            self.emit("m riter %d" % tid)
        elif x < 0.76:
            if self.workers and tid == 0:
                self.emit("m stats %d" % tid)
            elif r.random() < 0.5:
                self.emit("m rehash %d %d" % (tid, r.randrange(0, 9)))
            else:
                self.emit("m reserve %d %d" % (tid, r.choice([0, 1, 5, 16, 33, 64, 100, 300])))
        elif x < 0.77:
            self.emit("m clear %d" % tid)
        elif x < 0.80:
            self.emit("m stats %d" % tid)
        elif x < 0.86 and self.cfg.kind == 0:
            # stream round trip into a second table of arbitrary previous size/contents
            src = tid
            if r.random() < 0.3:
                # an empty (or tiny) source image, read into a populated destination
                src = 2
                self.emit("m new 2 %d" % r.choice([0, 1, 8, 40]))
                if r.random() < 0.3:
                    self.emit("m insert 2 %d %d" % (self.key(universe), r.randrange(1000)))
                self.emit("m lock 2")
            self.emit("m write %d" % src)
            if src == 2:
                self.emit("m unlock 2")
            self.emit("m new 1 %d" % r.choice([0, 1, 4, 16, 64, 300]))
            for _ in range(r.choice([0, 0, 2, 5, 12, 40])):
                self.emit("m insert 1 %d %d" % (self.key(universe), r.randrange(1000)))
            if r.random() < 0.5:
                # the destination's own settings must be replaced by the image's, whatever they were
                self.emit("m setmhp 1 %d" % r.choice([6, 9, 12, 20, NOMAX]))
                self.emit("m setmlf 1 %d" % dbits(r.choice([0.05, 0.3, 0.9] + ([0.0] if self.cfg.hashmode in (0, 4) else []))))
            self.emit("m lock 1")
            self.emit("m read 1 %d" % src)
            self.emit("m digest 1")
            self.emit("m inv 1")
            self.emit("m iter 1")
            self.emit("m stats 1")
            for _ in range(r.randrange(0, 8)):
                y = r.random()
                if y < 0.5:
                    self.emit("m ltinsert 1 %d %d" % (self.key(universe), r.randrange(1000)))
                elif y < 0.8:
                    self.emit("m lterase 1 %d" % self.key(universe))
                else:
                    self.emit("m ltfind 1 %d" % self.key(universe))
            self.emit("m unlock 1")
            for _ in range(r.randrange(0, 10)):
                y = r.random()
                if y < 0.6:
                    self.emit("m insert 1 %d %d" % (self.key(universe), r.randrange(1000)))
                elif y < 0.85:
                    self.emit("m erase 1 %d" % self.key(universe))
                else:
                    self.emit("m find 1 %d" % self.key(universe))
            self.emit("m digest 1")
            self.emit("m inv 1")
            self.emit("m stats 1")
        elif x < 0.9 and tid == 0:
            # move-assign another active locked_table onto this active one: our section ends, the table is handed back
            # unlocked, the other table stays locked under the assigned-to handle
            self.emit("m new 2 %d" % r.choice([0, 2, 8, 40]))
            for _ in range(r.randrange(0, 4)):
                self.emit("m insert 2 %d %d" % (self.key(universe), r.randrange(1000)))
            self.emit("m lock 2")
            self.emit("m ltmoveassign 0 2")
            self.locked[0] = False
            self.emit("m probe 0")
            self.emit("m probe 2")
            self.emit("m find 0 %d" % self.key(universe))
            self.emit("m insert 0 %d %d" % (self.key(universe), r.randrange(1000)))
            self.emit("m ltinsert 2 %d %d" % (self.key(universe), r.randrange(1000)))
            self.emit("m unlock 2")
            self.emit("m probe 2")
            self.emit("m digest 2")
        else:
            self.emit("m unlock %d" % tid)
            self.locked[tid] = False
            self.emit("m probe %d" % tid)


def big_stream(rng, hashmode=4, nmixed=6000):
    """the REAL stripe limit (kMaxNumLocks = 65536, no hook override): a table of 2^16 buckets is filled until it doubles
    with deferred per-stripe migration, then worked on while tens of thousands of stripes are still pending; digests at a
    few points (every cell of both arrays, every counter and flag), no quadratic requests (inv / iter)"""
    cfg = Cfg(4, 65536, 0, hashmode)
    lines = [cfg.line(), "m new 0 262144", "m setmlf 0 0", "m digest 0"]
    n = 262144 + rng.randrange(8000, 30000)
    for k in range(n):
        lines.append("m insert 0 %d %d" % (k, k % 1000))
    lines += ["m stats 0", "m digest 0"]
    for j in range(nmixed):
        x = rng.random()
        k = rng.randrange(n + 1000)
        if x < 0.35:
            lines.append("m find 0 %d" % k)
        elif x < 0.6:
            lines.append("m erase 0 %d" % k)
        elif x < 0.8:
            lines.append("m insert 0 %d %d" % (k + n, 7))
        elif x < 0.9:
            lines.append("m upsert 0 %d %d 1 a,1,0 a,3,0" % (k, 5))
        else:
            lines.append("m update 0 %d %d" % (k, 9))
        if j % 1500 == 0:
            lines.append("m digest 0")
    lines += ["m stats 0", "m digest 0", "m lock 0", "m digest 0", "m ltinsert 0 %d 1" % (3 * n), "m unlock 0", "m digest 0", "m stats 0"]
    return cfg, lines


def run_pair(exe, lines, timeout=None):
    """returns (cpp_lines, lean_lines, info)"""
    inp = "\n".join(lines) + "\n"
    if timeout is None:
        timeout = 60 + len(lines) // 200      # a stream of a few thousand requests takes well under a second
    env = dict(os.environ)
    env["ASAN_OPTIONS"] = "detect_leaks=1:abort_on_error=0:exitcode=77"
    env["UBSAN_OPTIONS"] = "print_stacktrace=1"
    rc1, out1, dt1 = C.sh([exe], input=inp, timeout=timeout, env=env)
    rc2, out2, dt2 = C.sh([C.DRIVER], input=inp, timeout=timeout)
    return out1.splitlines(), out2.splitlines(), {"cpp_rc": rc1, "lean_rc": rc2, "cpp_s": dt1, "lean_s": dt2}


def first_diff(lines, a, b):
    n = min(len(a), len(b), len(lines))
    for i in range(n):
        if a[i] != b[i]:
            return i
    if len(a) != len(lines) or len(b) != len(lines):
        return n
    return None


# ---------------------------------------------------------------- reference oracle

class RefMap:
    """independent reference associative map: replays the request lines with the implementation's
    answers and reports (property, message, op index) for every answer a sequential map cannot give"""

    def __init__(self, cfg):
        self.cfg = cfg
        self.maps = {}
        self.locked = {}
        self.mlf = {}
        self.mhp = {}
        self.wires = {}
        self.fails = []
        self.pol = 0
        self.transferred = {}
        self.restored = {}
        self.size_req = {}
        self.since_resize = {}
        self.lftl_pending = {}
        self.read_settings = {}
        self.alloc = {}
        self.exists = set()

    def fail(self, prop, i, line, got, why):
        self.fails.append({"property": prop, "op_index": i, "op": line, "implementation_answer": got, "why": why})
        # an object produced by copy / move / swap / an allocator-extended constructor that then misbehaves (wrong size,
        # broken structure, lost or extra keys) did not receive the complete state: also a C11 failure
        try:
            tid = int(line.split()[2])
        except (IndexError, ValueError):
            return
        if prop != "C11" and self.transferred.get(tid):
            self.fails.append({"property": "C11", "op_index": i, "op": line, "implementation_answer": got,
                               "why": "on an object produced by copy/move/swap: " + why})
        # a table restored from a stream that then misbehaves (wrong size(), broken structure, lost or extra keys) is not the
        # "fully working table with equal contents and size()" that C12 promises
        if prop != "C12" and self.restored.get(tid):
            self.fails.append({"property": "C12", "op_index": i, "op": line, "implementation_answer": got,
                               "why": "on a table restored from a stream: " + why})

    @staticmethod
    def fn(spec, v):
        kind, c, e = spec.split(",")
        c = int(c)
        if kind == "s":
            v = c
        elif kind == "a":
            v = (v + c) & NOMAX
        elif kind == "T":
            return c, False, True
        return v, e == "1", False

    def step(self, i, line, got):
        w = line.split()[1:]
        op = w[0]
        if op == "cfg":
            return
        tid = int(w[1])
        if op not in ("digest", "inv", "stats"):
            self.lftl_pending.clear()       # any other request (also one naming a table as its source) may change the state
        if op == "apol":
            self.pol = int(w[2])
            return
        if op in ("new", "newa"):
            self.transferred[tid] = False
            self.restored[tid] = False
            self.maps[tid] = {}
            self.locked[tid] = False
            self.mlf[tid] = MLF_DEFAULT
            self.mhp[tid] = NOMAX
            self.read_settings[tid] = False
            self.exists.add(tid)
            self.alloc[tid] = int(w[3]) if op == "newa" else 0
            return
        if op in ("copy", "move", "swap", "copya", "movea"):
            src = int(w[2])
            self.transferred[tid] = True
            if op == "swap":
                self.transferred[src] = True
            if got != "ok":
                if not got.startswith("bad-table"):
                    self.fail("C11", i, line, got, "copy/move/swap failed")
                return
            if op == "swap":
                if src != tid:
                    a_, b_ = self.maps.pop(src, None), self.maps.pop(tid, None)
                    if a_ is not None:
                        self.maps[tid] = a_
                    if b_ is not None:
                        self.maps[src] = b_
                    self.mlf[tid], self.mlf[src] = self.mlf.get(src), self.mlf.get(tid)
                    self.mhp[tid], self.mhp[src] = self.mhp.get(src), self.mhp.get(tid)
                    if self.pol & 4:
                        self.alloc[tid], self.alloc[src] = self.alloc.get(src, 0), self.alloc.get(tid, 0)
                self.locked[tid] = False
                return
            # the allocator of the destination: the standard's container rules
            if op in ("copya", "movea"):
                self.alloc[tid] = int(w[3])
            elif tid in self.exists:
                if self.pol & (1 if op == "copy" else 2):
                    self.alloc[tid] = self.alloc.get(src, 0)
            else:
                self.alloc[tid] = self.alloc.get(src, 0)
            self.exists.add(tid)
            if op in ("copy", "copya"):
                if src != tid:
                    if src in self.maps:
                        self.maps[tid] = dict(self.maps[src])
                    else:
                        self.maps.pop(tid, None)       # copy of an object whose contents the oracle does not know
                    self.mlf[tid], self.mhp[tid] = self.mlf.get(src), self.mhp.get(src)
            elif src == tid:
                self.maps.pop(tid, None)           # self-move: a moved-from object (valid to destroy or assign to)
            else:
                moved = self.maps.pop(src, None)
                if moved is not None:
                    self.maps[tid] = moved
                else:
                    self.maps.pop(tid, None)
                self.mlf[tid], self.mhp[tid] = self.mlf.get(src), self.mhp.get(src)
            self.locked[tid] = False
            return
        if op in ("newil", "newrange", "assignil"):
            if got != "ok":
                if not got.startswith("err") and not got.startswith("bad-table"):
                    self.fail("C11", i, line, got, "construction / assignment from a list failed")
                if op == "assignil" and got.startswith("err"):
                    # operator=(initializer_list) is clear() + insert each: a refused expansion in the middle leaves a prefix of
                    # the list; the oracle does not know which, so the contents of this object are unknown from here on
                    self.maps.pop(tid, None)
                return
            pairs = [(int(w[j]), int(w[j + 1])) for j in range(3, len(w) - 1, 2)]
            if op != "newrange":
                pairs = pairs[:4]
            if op != "assignil":
                self.transferred[tid] = False
                self.locked[tid] = False
                self.mlf[tid] = MLF_DEFAULT
                self.mhp[tid] = NOMAX
                self.exists.add(tid)
                self.alloc[tid] = 0
                self.read_settings[tid] = False
            mm = {}
            for k_, v_ in pairs:
                mm.setdefault(k_, v_)
            self.maps[tid] = mm
            return
        if op == "ltapi":
            if got != "ok" and tid in self.maps and self.locked.get(tid):
                self.fail("C09", i, line, got, "the overloads of the locked table disagree with one another: " + got)
            return
        if op == "ltmoveassign":
            if got != "ok":
                self.fail("C06", i, line, got, "move assignment onto an active locked_table: " + got)
            self.locked[tid] = False
            return
        if op == "probe":
            want = "ok held" if self.locked.get(tid) else "ok free"
            if got != want and tid in self.maps:
                self.fail("C06" if self.locked.get(tid) else "C04", i, line, got,
                          "locks of the table: expected `%s` (%s)" % (want, "an active locked_table owns every lock of the current array"
                                                                     if self.locked.get(tid) else "no locked_table is active: every lock must be free"))
            return
        if op == "allocid":
            if tid not in self.maps:
                return
            want = "ok a=%d own=%d mism=0" % (self.alloc.get(tid, 0), self.alloc.get(tid, 0))
            if got != want:
                self.fail("C11", i, line, got, "allocator bookkeeping: expected `%s` (a = the allocator the object must hold by the "
                          "propagation rules, own = the instance its bucket array was obtained from, mism = blocks returned to a "
                          "different instance)" % want)
            return
        m = self.maps.get(tid)
        if m is None:
            return
        g = got.split()
        if got.startswith("bad-"):
            self.fail("C02", i, line, got, "harness rejected a well-formed request")
            return
        # exceptions that an inserting / resizing operation may raise leave the map unchanged
        if got.startswith("err"):
            kind = g[1] if len(g) > 1 else "?"
            allowed = {
                "insert": {"lftl", "maxhp", "badalloc"}, "ioa": {"lftl", "maxhp", "badalloc"},
                "upsert": {"lftl", "maxhp", "badalloc", "fnthrow"}, "uprase": {"lftl", "maxhp", "badalloc", "fnthrow"},
                "ltinsert": {"lftl", "maxhp", "badalloc"}, "ltindex": {"lftl", "maxhp", "badalloc"},
                "rehash": {"maxhp", "badalloc"}, "reserve": {"maxhp", "badalloc"},
                "findv": {"oor"}, "ltat": {"oor"}, "setmlf": {"invalid"}, "setmhp": {"invalid"},
                "updatefn": {"fnthrow"}, "erasefn": {"fnthrow"}, "read": {"invalid"}, "lock": {"badalloc"},
            }.get(op, set())
            if kind not in allowed:
                prop = "C10" if kind in ("lftl", "maxhp", "invalid") else "C02"
                self.fail(prop, i, line, got, "exception kind %s is not permitted for %s" % (kind, op))
                return
            if kind == "lftl" and op in ("insert", "ioa", "upsert", "uprase", "ltinsert", "ltindex"):
                if self.mlf[tid] == 0:
                    self.fail("C10", i, line, got, "load_factor_too_low although the minimum load factor is 0")
                    self.fail("C15", i, line, got, "load_factor_too_low although the minimum load factor is 0")
                # judged at the next `stats` of this table (a refused expansion changes nothing, so size and capacity are
                # still those the refusal saw): the load factor must have been BELOW the minimum, not equal to it
                self.lftl_pending[tid] = (i, line, got)
            if kind == "maxhp" and self.mhp[tid] == NOMAX:
                self.fail("C10", i, line, got, "maximum_hashpower_exceeded although no maximum is set")
            if kind == "oor":
                k = int(w[2])
                if k in m:
                    self.fail("C02", i, line, got, "present key reported absent")
            if kind == "fnthrow":
                k = int(w[2])
                if op in ("upsert", "uprase"):
                    v, ctx = int(w[3]), w[4] == "1"
                    if k in m:
                        nv, _, _ = self.fn(w[6], m[k])
                        m[k] = nv
                    else:
                        m[k] = v
                        if ctx:
                            nv, _, _ = self.fn(w[5], v)
                            m[k] = nv
                elif k in m:
                    nv, _, _ = self.fn(w[3], m[k])
                    m[k] = nv
            if kind == "invalid" and op == "setmlf":
                pass
            return
        ok = g[0] == "ok"
        if op not in ("digest", "inv", "stats", "rehash", "reserve"):
            self.size_req.pop(tid, None)
        val = g[1] if len(g) > 1 else None
        calls = [x[5:] for x in g if x.startswith("call=")]

        # since the last explicit resize of this table only lookups were made: a lookup that now disagrees with the reference
        # map shows that rehash / reserve did not keep the contents (C10), besides being a refinement failure (C02)
        if op in ("rehash", "reserve"):
            self.since_resize[tid] = "%s at request %d" % (line, i)
        elif op not in ("find", "findv", "api", "digest", "inv", "stats"):
            self.since_resize.pop(tid, None)

        def expect(cond, why, prop="C02"):
            if not cond:
                self.fail(prop, i, line, got, why)
                if prop == "C02" and op in ("find", "findv") and tid in self.since_resize:
                    self.fail("C10", i, line, got, why + " - after `%s` returned (contents not kept by the explicit resize)" % self.since_resize[tid])

        if op == "api":
            k = int(w[2])
            expect(got == ("ok 1" if k in m else "ok 0"), "lookup wrappers (find / contains / find(key) / find_fn): " + got, "C17")
            return
        if op in ("find",):
            k = int(w[2])
            expect(val == ("1" if k in m else "0"), "find result differs from the reference map")
            if k in m:
                expect(calls == ["-:%d" % m[k]], "functor not invoked exactly once with the stored value", "C17")
            else:
                expect(calls == [], "functor invoked for an absent key", "C17")
        elif op == "findv":
            k = int(w[2])
            expect(k in m and val == str(m[k]), "find(key) returned a value the reference map does not hold")
        elif op == "insert":
            k, v = int(w[2]), int(w[3])
            expect(val == ("0" if k in m else "1"), "insert result differs from the reference map")
            m.setdefault(k, v)
        elif op == "ioa":
            k, v = int(w[2]), int(w[3])
            expect(val == ("0" if k in m else "1"), "insert_or_assign result differs from the reference map")
            m[k] = v
        elif op == "update":
            k, v = int(w[2]), int(w[3])
            expect(val == ("1" if k in m else "0"), "update result differs from the reference map")
            if k in m:
                m[k] = v
        elif op == "erase":
            k = int(w[2])
            expect(val == ("1" if k in m else "0"), "erase result differs from the reference map")
            m.pop(k, None)
        elif op in ("updatefn", "erasefn"):
            k = int(w[2])
            expect(val == ("1" if k in m else "0"), "%s result differs from the reference map" % op)
            if k in m:
                expect(calls == ["-:%d" % m[k]], "functor not invoked exactly once with the stored value", "C17")
                nv, er, thr = self.fn(w[3], m[k])
                m[k] = nv
                if op == "erasefn" and er:
                    del m[k]
            else:
                expect(calls == [], "functor invoked for an absent key", "C17")
        elif op in ("upsert", "uprase"):
            k, v, ctx = int(w[2]), int(w[3]), w[4] == "1"
            present = k in m
            expect(val == ("0" if present else "1"), "%s result differs from the reference map" % op)
            if present:
                want = ["%s:%d" % ("E" if ctx else "-", m[k])]
                expect(calls == want, "functor must run exactly once with ALREADY_EXISTED and the stored value", "C17")
                nv, er, _ = self.fn(w[6], m[k])
                m[k] = nv
                if op == "uprase" and er:
                    del m[k]
            else:
                m[k] = v
                if ctx:
                    expect(calls == ["N:%d" % v], "context-aware functor must run exactly once with NEWLY_INSERTED", "C17")
                    nv, er, _ = self.fn(w[5], v)
                    m[k] = nv
                    if op == "uprase" and er:
                        del m[k]
                else:
                    expect(calls == [], "one-argument functor must not run after a new insertion", "C17")
        elif op == "clear":
            m.clear()
        elif op == "stats":
            d = dict(x.split("=") for x in g)
            size, hp = int(d["size"]), int(d["hp"])
            expect(size == len(m), "size() differs from the number of stored pairs", "C05")
            expect(d["empty"] == ("1" if len(m) == 0 else "0"), "empty() inconsistent", "C05")
            expect(int(d["buckets"]) == 1 << hp, "bucket_count() != 2^hashpower()", "C05")
            expect(int(d["cap"]) == (1 << hp) * self.cfg.S, "capacity() != bucket_count()*slot_per_bucket()", "C05")
            expect(int(d["lf"]) == dbits(float(size) / float((1 << hp) * self.cfg.S)), "load_factor() != size()/capacity()", "C05")
            # settings that came with a stream image belong to the serialization round trip (C12)
            sp = "C12" if self.read_settings.get(tid) else "C10"
            tail = " (settings of the image read into this table)" if sp == "C12" else ""
            expect(int(d["mlf"]) == self.mlf[tid], "minimum_load_factor() differs from the last accepted setting" + tail, sp)
            expect(int(d["mhp"]) == self.mhp[tid], "maximum_hashpower() differs from the last accepted setting" + tail, sp)
            expect(self.mhp[tid] == NOMAX or hp <= self.mhp[tid], "hashpower() exceeds maximum_hashpower()" + tail, sp)
            expect(size <= (1 << hp) * self.cfg.S, "more elements than capacity", "C05")
            self.last_hp = hp
            if tid in self.lftl_pending:
                li, lline, lgot = self.lftl_pending.pop(tid)
                lf = float(size) / float((1 << hp) * self.cfg.S)
                mlf = struct.unpack("<d", struct.pack("<Q", self.mlf[tid]))[0]
                if not lf < mlf:
                    why = ("load_factor_too_low thrown although load_factor() = %d/%d = %r is not below minimum_load_factor() = %r "
                           "(an automatic expansion may be refused only BELOW the minimum)" % (size, (1 << hp) * self.cfg.S, lf, mlf))
                    self.fail("C10", li, lline, lgot, why)
                    self.fail("C15", li, lline, lgot, why)
        elif op == "setmlf":
            x = struct.unpack("<d", struct.pack("<Q", int(w[2])))[0]
            expect(0.0 <= x <= 1.0, "out-of-domain minimum load factor accepted", "C10")
            self.mlf[tid] = int(w[2])
            self.read_settings[tid] = False
        elif op == "setmhp":
            self.mhp[tid] = int(w[2])
            self.read_settings[tid] = False
        elif op in ("rehash", "reserve"):
            # checked at the next digest / stats of this table: at least as large as requested
            if ok:
                self.size_req[tid] = (op, int(w[2]), i, line)
        elif op == "digest":
            d = dict(x.split("=") for x in g[1:] if "=" in x)
            if "hp" in d and tid in self.size_req:
                rop, n, ri, rline = self.size_req.pop(tid)
                hp = int(d["hp"])
                if rop == "rehash" and hp < n:
                    self.fail("C10", ri, rline, got, "after rehash(%d) returned the hashpower is %d: smaller than requested" % (n, hp))
                if rop == "reserve" and (1 << hp) * self.cfg.S < n:
                    self.fail("C10", ri, rline, got, "after reserve(%d) returned the capacity is %d: smaller than requested" % (n, (1 << hp) * self.cfg.S))
                if self.mhp.get(tid, NOMAX) != NOMAX and hp > self.mhp[tid]:
                    self.fail("C10", ri, rline, got, "hashpower %d exceeds maximum_hashpower %d after %s" % (hp, self.mhp[tid], rop))
        elif op == "inv":
            if got != "inv ok":
                prop = "C10" if "limit" in got else ("C05" if "count" in got else "C02")
                self.fail(prop, i, line, got, "structural invariant violated on the real table: " + got)
        elif op == "lock":
            self.locked[tid] = True
        elif op == "unlock":
            self.locked[tid] = False
        elif op == "ltinsert":
            k, v = int(w[2]), int(w[3])
            expect(val == ("0" if k in m else "1"), "locked insert result differs from the reference map")
            m.setdefault(k, v)
            expect(g[-1] == "%d=%d" % (k, m[k]), "locked insert must return an iterator to the new or present element", "C09")
        elif op == "ltindex":
            k = int(w[2])
            m.setdefault(k, 0)
            expect(val == "%d=%d" % (k, m[k]), "operator[] returned a wrong element", "C09")
        elif op == "lterase":
            k = int(w[2])
            expect(g[0] == ("1" if k in m else "0"), "locked erase(key) result differs from the reference map")
            m.pop(k, None)
        elif op == "lteraseit":
            k = int(w[2])
            if k in m:
                expect(g[0] != "absent", "locked find missed a present key", "C09")
                del m[k]
                if g[-1] != "end" and "=" in g[-1]:
                    nk, nv = g[-1].split("=")
                    expect(int(nk) in m and m[int(nk)] == int(nv), "erase(it) returned an iterator to a non-element", "C09")
            else:
                expect(g[0] == "absent", "locked find found an absent key", "C09")
        elif op == "ltfind":
            k = int(w[2])
            if k in m:
                expect(g[-1] == "%d=%d" % (k, m[k]), "locked find returned a wrong element", "C09")
            else:
                expect(g[-1] == "end", "locked find found an absent key", "C09")
        elif op == "ltat":
            k = int(w[2])
            expect(k in m and val == "%d=%d" % (k, m[k]), "at() returned a wrong element", "C09")
        elif op == "ltcount":
            k = int(w[2])
            expect(g[0] == ("1" if k in m else "0"), "count() differs from the reference map", "C09")
        elif op == "ltequalrange":
            k = int(w[2])
            expect((g[0] == g[1]) == (k not in m), "equal_range() empty/non-empty disagrees with the reference map", "C09")
        elif op in ("iter", "riter"):
            d = dict(x.split("=") for x in g[1:3])
            expect(int(d["n"]) == len(m), "iteration visits %s elements, the table holds %d" % (d["n"], len(m)), "C09")
            if len(g) > 3:
                seq = [tuple(int(y) for y in x.strip("()").split(",")) for x in g[3:]]
                keys = [s[2] for s in seq]
                expect(len(set(keys)) == len(keys), "iteration visits an element twice", "C09")
                expect(all(k in m and m[k] == s[3] for k, s in zip(keys, seq)), "iteration yields a pair the table does not hold", "C09")
                if op == "iter":
                    self.last_fwd = seq
                elif getattr(self, "last_fwd", None) is not None:
                    expect(seq == list(reversed(self.last_fwd)), "backward iteration is not the reverse of forward iteration", "C09")
        elif op == "write":
            self.wires[tid] = (dict(m), self.mlf[tid], self.mhp[tid])
        elif op == "read":
            src = self.wires.get(int(w[2]))
            if src is not None:
                self.maps[tid] = dict(src[0])
                self.mlf[tid] = src[1]
                self.mhp[tid] = src[2]
                self.read_settings[tid] = True
            self.restored[tid] = True


def check_stream(cfg, exe, lines):
    """returns dict: diff index (or None), oracle failures, crash info"""
    cpp, lean, info = run_pair(exe, lines)
    res = {"cfg": cfg.name(), "n": len(lines), "info": info, "diff": None, "oracle": [], "crash": None}
    if info["cpp_rc"] != 0:
        res["crash"] = {"rc": info["cpp_rc"], "tail": "\n".join(cpp[-25:])[-3000:], "at_op": len([x for x in cpp if not x.startswith("=")])}
    d = first_diff(lines, cpp, lean)
    if d is not None:
        res["diff"] = {"op_index": d, "op": lines[d] if d < len(lines) else "<eof>",
                       "implementation": cpp[d] if d < len(cpp) else "<no output>",
                       "model": lean[d] if d < len(lean) else "<no output>",
                       "context": lines[max(0, d - 6):d + 1]}
    orc = RefMap(cfg)
    for i, (ln, got) in enumerate(zip(lines, cpp)):
        if d is not None and res["crash"] and i >= len(cpp) - 1:
            break
        try:
            orc.step(i, ln, got)
        except (ValueError, IndexError, KeyError) as e:
            orc.fail("C02", i, ln, got, "unparsable answer (%s)" % e)
        if len(orc.fails) >= 5:
            break
    res["oracle"] = orc.fails
    return res
