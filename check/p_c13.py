"""C13 - candidate-bucket arithmetic (DESIGN 6/C13): T-A/T-B regenerate Gen/*.lean, the theorems of
Props/C13.lean are re-checked against them, K1 validates the translation against the compiled code."""
import json
import random

import common as C

MASK = (1 << 64) - 1


def gen_inputs(rng, n):
    reqs = []
    bnd = [0, 1, 2, 3, MASK, MASK - 1, 1 << 63, (1 << 63) - 1, 0xc6a4a7935bd1e995, 0x0123456789abcdef]
    for k in range(64):
        bnd += [1 << k, (1 << k) - 1, ((1 << k) + 1) & MASK]
    bnd = sorted(set(bnd))
    for hp in range(64):
        reqs.append("arith hashsize %d" % hp)
        reqs.append("arith hashmask %d" % hp)
    for t in range(256):
        for hp in (0, 1, 7, 16, 17, 40, 62, 63):
            reqs.append("arith alt_index %d %d %d" % (hp, t, rng.getrandbits(64) & ((1 << hp) - 1)))
    for b in bnd:
        reqs.append("arith partial_key %d" % b)
        reqs.append("arith lock_ind %d" % b)
        for hp in (0, 1, 5, 16, 31, 32, 33, 62, 63):
            reqs.append("arith index_hash %d %d" % (hp, b))
            reqs.append("arith alt_index %d %d %d" % (hp, rng.randrange(256), b))
    for S in (1, 2, 3, 4, 8):
        for b in bnd:
            if b <= (1 << 62):
                reqs.append("arith reserve_calc %d %d" % (S, b))
        for n_ in list(range(0, 70)) + [rng.randrange(1 << rng.randrange(1, 62)) for _ in range(200)]:
            reqs.append("arith reserve_calc %d %d" % (S, n_))
    while len(reqs) < n:
        hp = rng.randrange(64)
        h = rng.getrandbits(64)
        r = rng.randrange(5)
        if r == 0:
            reqs.append("arith index_hash %d %d" % (hp, h))
        elif r == 1:
            reqs.append("arith alt_index %d %d %d" % (hp, rng.randrange(256), h if rng.random() < 0.3 else h & ((1 << hp) - 1)))
        elif r == 2:
            reqs.append("arith partial_key %d" % h)
        elif r == 3:
            reqs.append("arith lock_ind %d" % h)
        else:
            reqs.append("arith reserve_calc %d %d" % (rng.choice((1, 2, 3, 4, 8)), rng.randrange(1 << rng.randrange(1, 62))))
    return reqs


def eval_cpp(k1, reqs):
    rc, out, _ = C.sh([k1], input="\n".join(reqs) + "\n", timeout=1200)
    return out.split()


def search_impl(k1, rng, n):
    """evaluate the statements of Props/C13 on the compiled functions; returns failing inputs"""
    fails = []
    cases = []
    for _ in range(n):
        hp = rng.randrange(0, 63)
        h = rng.getrandbits(64) if rng.random() < 0.8 else rng.choice([0, MASK, 1 << hp, (1 << hp) - 1, (1 << (hp + 1)) - 1])
        cases.append((hp, h))
    reqs = []
    for hp, h in cases:
        reqs += ["arith partial_key %d" % h, "arith index_hash %d %d" % (hp, h), "arith index_hash %d %d" % (hp + 1, h)]
    r1 = [int(x) for x in eval_cpp(k1, reqs)]
    reqs2 = []
    for j, (hp, h) in enumerate(cases):
        tag, i1, i1d = r1[3 * j:3 * j + 3]
        reqs2 += ["arith alt_index %d %d %d" % (hp, tag, i1), "arith alt_index %d %d %d" % (hp + 1, tag, i1d),
                  "arith lock_ind %d" % i1, "arith lock_ind %d" % ((i1 + (1 << hp)) & MASK)]
    r2 = [int(x) for x in eval_cpp(k1, reqs2)]
    reqs3 = []
    for j, (hp, h) in enumerate(cases):
        tag = r1[3 * j]
        i2, i2d = r2[4 * j], r2[4 * j + 1]
        reqs3 += ["arith alt_index %d %d %d" % (hp, tag, i2), "arith alt_index %d %d %d" % (hp + 1, tag, i2d)]
    r3 = [int(x) for x in eval_cpp(k1, reqs3)]
    rM = int(eval_cpp(k1, ["arith lock_ind %d" % MASK])[0]) + 1   # stripe limit as the code sees it
    for j, (hp, h) in enumerate(cases):
        tag, i1, i1d = r1[3 * j:3 * j + 3]
        i2, i2d, l1, l1u = r2[4 * j:4 * j + 4]
        back, backd = r3[2 * j:2 * j + 2]
        n_ = 1 << hp
        why = None
        if not (i1 < n_ and i2 < n_):
            why = "candidate bucket out of range"
        elif back != i1:
            why = "alternate of the alternate is not the first candidate"
        elif backd != i1d:
            why = "alternate of the alternate is not the first candidate (doubled table)"
        elif i1d not in (i1, i1 + n_):
            why = "first candidate neither kept nor moved up by the old bucket count on doubling"
        elif i2d not in (i2, i2 + n_):
            why = "second candidate neither kept nor moved up by the old bucket count on doubling"
        elif tag > 255:
            why = "tag wider than 8 bits"
        elif n_ >= rM and l1 != l1u:
            why = "bucket moved up by the old bucket count changes lock stripe"
        elif l1 >= rM:
            why = "lock stripe out of range"
        if why:
            fails.append({"what": why, "hashpower": hp, "hash": h, "tag": tag, "i1": i1, "i2": i2,
                          "i1_doubled": i1d, "i2_doubled": i2d, "alt(i2)": back, "stripe": l1, "stripe_up": l1u})
            if len(fails) >= 5:
                break
    # stripe limit must be a power of two
    if rM & (rM - 1):
        fails.append({"what": "stripe limit is not a power of two", "limit_seen": rM})
    # reserve_calc minimality
    reqs = []
    rc_cases = [(S, rng.randrange(1 << rng.randrange(1, 60))) for S in (1, 2, 3, 4, 8) for _ in range(max(50, n // 50))]
    rc_cases += [(S, n_) for S in (1, 2, 3, 4, 8) for n_ in range(0, 40)]
    for S, n_ in rc_cases:
        reqs.append("arith reserve_calc %d %d" % (S, n_))
    rr = [int(x) for x in eval_cpp(k1, reqs)]
    for (S, n_), r in zip(rc_cases, rr):
        if not (n_ <= (1 << r) * S and (r == 0 or (1 << (r - 1)) * S < n_)):
            fails.append({"what": "reserve_calc is not the smallest sufficient hashpower", "S": S, "n": n_, "result": r})
            break
    return fails


PLACEMENT_CLAUSES = ("cur_wf", "pending", "unmig_empty")


def placement_phase(res, tier, rng):
    """The arithmetic facts are *used* by the table: every stored key must sit in one of its two buckets with its tag, and
    deferred per-stripe migration may be chosen only when the old bucket count is at least the stripe count (otherwise
    the bucket a key moves up to lies under another stripe).  Grow / shrink / grow streams on the real table; only the
    placement clauses of the structural scan are judged here (counters, sizes and contents belong to C02/C05)."""
    import k2
    cfgs = [k2.Cfg(S, M, 0, hm) for (S, M) in ((1, 2), (2, 4), (4, 8), (4, 2)) for hm in (0, 2, 4)]
    if tier != "quick":
        cfgs += [k2.Cfg(S, M, k, hm) for S in (1, 2, 3, 8) for M in (2, 4, 8) for k in (0, 1) for hm in (0, 1, 3, 5)]
    bins = k2.build_all(cfgs)
    nbad = nstreams = nops = 0
    for cfg in cfgs:
        ok, exe, log = bins[cfg.key()]
        if not ok:
            res.add_broken("K2 harness %s does not compile against /repo" % cfg.key(), log)
            continue
        for prof in ("limits", "mixed"):
            g = k2.Gen(random.Random(rng.getrandbits(48)), cfg, prof)
            lines = g.run(400 if tier == "quick" else 3000, allow_mlf0=(cfg.hashmode in (0, 4)), universe=rng.choice([48, 200, 600]))
            rc, out, dt = C.sh([exe], input="\n".join(lines) + "\n", timeout=120)
            ans = out.splitlines()
            nstreams += 1
            nops += len(lines)
            # the library's own assertions about placement (index_hash / alt_index / stripe stability preconditions)
            if rc != 0 and "Assertion" in out and any(x in out for x in ("index_hash", "alt_index", "old_ihash", "kMaxNumLocks", "new_ihash")):
                nbad += 1
                msg = [l for l in out.splitlines() if "Assertion" in l][0]
                if len(res.failing) < 3:
                    n_ok = max(0, len([a for a in ans if not ("Assertion" in a)]) - 0)
                    res.add_failing({"what": "the library's placement assertion fails: " + msg[msg.find("Assertion"):][:200],
                                     "config": cfg.name(), "cfg_line": cfg.line(), "prefix": lines[:min(len(lines), n_ok + 1)], "op_index": n_ok})
                continue
            for i, (ln, a) in enumerate(zip(lines, ans)):
                if ln.split()[1] == "inv" and a.startswith("inv BAD") and any(c in a for c in PLACEMENT_CLAUSES):
                    nbad += 1
                    if len(res.failing) < 3:
                        res.add_failing({"what": "placement clause of the structural scan fails on the real table: " + a,
                                         "config": cfg.name(), "cfg_line": cfg.line(), "prefix": lines[:i + 1], "op_index": i})
                    break
    if nbad and not [b for b in res.broken if "placement" in b["what"]]:
        res.add_broken("K2 placement scan: a stored key is outside its two buckets / deferred migration chosen without stripe stability "
                       "(%d of %d streams)" % (nbad, nstreams))
    res.cov["placement_streams"] = nstreams
    res.cov["placement_requests"] = nops
    res.cov["placement_failures"] = nbad


def stranding_streams(tier, rng):
    """explicit resizes to a target that is too small for the contents: the temporary map of the rebuild then doubles while it
    is being filled, with deferred per-stripe migration once it has at least as many buckets as stripes; every key must be
    reachable from its hash afterwards (lookups of ALL keys + structural scan + size)"""
    import k2
    out = []
    picks = [(1, 2, 0), (2, 4, 0), (4, 8, 0), (2, 2, 1)] if tier == "quick" else [(S, M, k) for S in (1, 2, 4, 8) for M in (2, 4, 8) for k in (0, 1, 2)]
    for S, M, kind in picks:
        for hm in (0, 4):
            cfg = k2.Cfg(S, M, kind, hm)
            n = rng.choice([6, 10, 16]) * M * S
            keys = rng.sample(range(1, 100000), n)
            lines = [cfg.line(), "m new 0 %d" % rng.choice([1, 4, 16]), "m setmlf 0 %d" % k2.dbits(0.0)]
            for i_, k in enumerate(keys):
                lines.append("m insert 0 %d %d" % (k, k % 997))
                if i_ % 7 == 6 and cfg.kind != 2:
                    # a copy taken while stripes of the last doubling are still pending must reach every key from its hash too
                    # (the per-stripe migration state travels with the copy)
                    lines += ["m copy 1 0", "m inv 1"] + ["m find 1 %d" % q for q in keys[:i_ + 1][-24:]] + ["m stats 1"]
            for req in ("m rehash 0 %d" % rng.choice([0, 1, 2]), "m reserve 0 %d" % rng.choice([1, 2, S + 1]), "m rehash 0 0"):
                lines += [req, "m stats 0", "m inv 0"]
                lines += ["m find 0 %d" % k for k in keys]
                # a few more elements, then again
                extra = rng.sample(range(100000, 200000), 3)
                for k in extra:
                    lines.append("m insert 0 %d %d" % (k, k % 997))
                keys += extra
            out.append((cfg, lines))
    return out


def run(tier):
    res = C.Result("C13", tier)
    rng = random.Random(C.seed() * 7919 + 13)
    n = 100000 if tier == "quick" else 3000000
    with C.Lock():
        lean_ok, names = C.lean_phase(res, "C13", gen_fn=C.regen_arith,
                                      thorough_modules=["Cuckoo.Arith.Link", "Cuckoo.Arith.Lemmas", "Cuckoo.Gen.Arith"])
        ok, k1, log = C.build_harness("k1_arith", "k1_arith.cc", ["-O1"], extra_deps=["translate/arith_shim.cc"])
        if not ok:
            res.add_broken("K1 harness does not compile against /repo", log)
        reqs = gen_inputs(rng, n)
        mism = []
        if ok:
            cpp = eval_cpp(k1, reqs)
            rc, lean, dt = C.run_driver(reqs)
            if rc != 0 or len(lean) != len(reqs) or len(cpp) != len(reqs):
                res.add_broken("K1 arithmetic differential could not run (driver rc=%s, %d/%d/%d lines)" % (rc, len(reqs), len(cpp), len(lean)))
            else:
                for q, a, b in zip(reqs, cpp, lean):
                    parts = b.split()
                    if len(parts) != 2 or parts[0] != a or parts[1] != a:
                        mism.append({"request": q, "cpp": a, "generated_lean": parts[0] if parts else b,
                                     "spec_lean": parts[1] if len(parts) > 1 else ""})
                if mism:
                    res.add_broken("K1 arithmetic differential: %d of %d requests differ" % (len(mism), len(reqs)),
                                   json.dumps(mism[:5]))
            res.cov.update({
                "evaluations": len(reqs),
                "distinct_nontrivial": len(set(reqs)),
                "rule": "K1: requests = all hashpowers 0..63, all 256 tags, boundary patterns (0, ~0, 2^k, 2^k±1), "
                        "random 64-bit hashes; each is evaluated by the compiled C++ function, the generated Lean "
                        "definition and the Nat-level spec; distinct = distinct request lines",
                "samples": reqs[:3] + reqs[-3:],
                "k1_mismatches": len(mism),
            })
        if res.broken and ok:
            fails = search_impl(k1, rng, 200000 if tier == "quick" else 2000000)
            for f in fails:
                res.add_failing(f)
    placement_phase(res, tier, rng)
    import k2check
    k2check.streams_phase("C13", "stranding", stranding_streams, also=("C02", "C05", "C11"),
                          what="a key is unreachable from its hash / miscounted after an explicit resize whose rebuild doubled with deferred migration")(res, tier)
    res.assumptions = ["shifts by >= 64 are undefined in C++ and excluded (theorems assume hp < 64; doubling facts hp+1 < 64)",
                       "reserve_calc theorem tied to the generated code for SLOT_PER_BUCKET=4; other S via K1 against the spec"]
    return C.finish(res, "proof", "cd lean && lake build Cuckoo.Props.C13 && #print axioms (check/common.py audit_axioms)")


def replay(path):
    d = json.load(open(path))
    print(json.dumps(d, indent=1))
    ok, k1, log = C.build_harness("k1_arith", "k1_arith.cc", ["-O1"], extra_deps=["translate/arith_shim.cc"])
    if not ok:
        print(log)
        return 2
    bad = 0
    for f in d.get("failing_inputs", []):
        if "prefix" in f and "cfg_line" in f:
            import k2
            w = f["cfg_line"].split()
            cfg = k2.Cfg(int(w[2]), int(w[3]), 0 if w[4] == "1" else (1 if w[5] == "1" else 2), int(w[7]))
            ok2, exe, log2 = k2.harness_for(cfg)
            if not ok2:
                print(log2)
                return 2
            rc, out, dt = C.sh([exe], input="\n".join(f["prefix"]) + "\n", timeout=120)
            last = out.splitlines()[-1] if out.splitlines() else "<none>"
            print("replay %s: last answer: %s" % (cfg.name(), last))
            if (last.startswith("inv BAD") and any(c in last for c in PLACEMENT_CLAUSES)) or "Assertion" in out:
                bad += 1
            else:
                orc = k2.RefMap(cfg)
                for i, (ln, got) in enumerate(zip(f["prefix"], out.splitlines())):
                    orc.step(i, ln, got)
                if orc.fails:
                    print("reference oracle: " + orc.fails[0]["why"])
                    bad += 1
        if "hash" in f:
            hp, h = f["hashpower"], f["hash"]
            out = eval_cpp(k1, ["arith partial_key %d" % h, "arith index_hash %d %d" % (hp, h)])
            tag, i1 = int(out[0]), int(out[1])
            i2 = int(eval_cpp(k1, ["arith alt_index %d %d %d" % (hp, tag, i1)])[0])
            back = int(eval_cpp(k1, ["arith alt_index %d %d %d" % (hp, tag, i2)])[0])
            print("replay: hp=%d hash=%d tag=%d i1=%d i2=%d alt(i2)=%d" % (hp, h, tag, i1, i2, back))
            if back != i1 or i1 >= (1 << hp) or i2 >= (1 << hp):
                bad += 1
    return 1 if bad else 0
