"""What MANIFEST.json claims.  Edited by hand; check/mkmanifest.py turns it into MANIFEST.json."""

HOOK_COMMITS = ["085154a"]

CLAIMS = [
    {
        "property_id": "C13",
        "technique": "Lean 4 theorems over definitions generated from the LLVM IR of the source (T-A), K1 differential",
        "text": "All statements of the property are Lean theorems (Props/C13.lean) about BitVec definitions regenerated "
                "from /repo's LLVM IR on every run: range, involution, symmetry, one-new-top-bit on doubling, stripe "
                "stability, tag independence of table size, power-of-two stripe limit, minimality of reserve_calc; for "
                "all 2^64 hashes, 256 tags, hashpowers 0..62 and all power-of-two stripe counts. No sampling in the claim.",
        "design_ref": "DESIGN.md 6/C13, 12",
        "note": "Trusted: Lean kernel; translator translate/ir2lean.py and clang-14's IR (validated by K1: compiled C++ vs "
                "generated Lean vs Nat-level spec on 10^5/3*10^6 points); C++ shift UB for hp>=64 excluded.",
    },
    {
        "property_id": "C10",
        "technique": "Lean 4 theorems on the executable table model (decision logic of setters / check_resize_validity) + K2 differential",
        "text": "Props/C10.lean proves, for every table state, the decision logic the property states: out-of-domain settings are "
                "rejected without effect, a resize beyond the maximum is refused with maximum_hashpower_exceeded, an automatic "
                "expansion below the minimum load factor is refused with load_factor_too_low, an explicit one never consults the load "
                "factor, and a refused resize returns the table unchanged. The model is tied to /repo by K2 (full answers of all "
                "limit-related requests incl. structural scan `hp <= mhp` on the real table). PARTIAL: the reachable-state statements "
                "(hp <= mhp as an invariant of every operation, rehash/reserve postconditions) are proved only to the extent listed "
                "in DESIGN.md section 12; the rest is correspondence-checked.",
        "design_ref": "DESIGN.md 6/C10, 12",
        "note": "Trusted: Lean kernel; K2 harness + reference-map oracle; Float comparison load_factor()<minimum_load_factor() is opaque "
                "in the theorems (IEEE double in the driver).",
    },
]

_PENDING = "machinery not built yet in this round (planned: DESIGN.md section 6); not claimed until its check exists"
NOT_APPLICABLE = [{"property_id": "C%02d" % i, "reason": _PENDING} for i in range(1, 18) if i not in (10, 13)]
