"""What MANIFEST.json claims.  Edited by hand; check/mkmanifest.py turns it into MANIFEST.json."""

HOOK_COMMITS = ["085154a", "c96bfcc", "0994635", "c804b32"]

CLAIMS = [
    {
        "property_id": "C13",
        "technique": "Lean 4 theorems over definitions generated from the LLVM IR of the source (T-A), K1 differential",
        "text": "All statements of the property are Lean theorems (Props/C13.lean) about BitVec definitions regenerated "
                "from /repo's LLVM IR on every run: range, involution, symmetry, one-new-top-bit on doubling, stripe "
                "stability, tag independence of table size, power-of-two stripe limit, minimality of reserve_calc; for "
                "all 2^64 hashes, 256 tags, hashpowers 0..62 and all power-of-two stripe counts. No sampling in the claim.",
        "design_ref": "DESIGN.md 6/C13, 12",
        "note": "Trusted: Lean kernel; translator translate/ir2lean.py and clang-14's IR (validated by K1: compiled C++ vs "
                "generated Lean vs Nat-level spec on 10^5/3*10^6 points); C++ shift UB for hp>=64 excluded.",
    },
    {
        "property_id": "C10",
        "technique": "Lean 4 theorems on the executable table model (decision logic of setters / check_resize_validity) + K2 differential",
        "text": "Props/C10.lean proves, for every table state, the decision logic the property states: out-of-domain settings are "
                "rejected without effect, a resize beyond the maximum is refused with maximum_hashpower_exceeded, an automatic "
                "expansion below the minimum load factor is refused with load_factor_too_low, an explicit one never consults the load "
                "factor, and a refused resize returns the table unchanged. The model is tied to /repo by K2 (full answers of all "
                "limit-related requests incl. structural scan `hp <= mhp` on the real table; Props/C10Limits.lean (T-F): the guard lists of check_resize_validity, "
                "minimum_load_factor(double) and maximum_hashpower(size_type) are regenerated from the source text on every run and the model's decision "
                "functions are proved to be EXACTLY their interpretation (checkResize_is_source, setMlf_is_source, setMhp_is_source: same guards, same order, same "
                "strict comparisons; settings stored only after validation); the oracle also checks `at least as large as "
                "requested` after every rehash/reserve). Size guarantees: rehash_at_least, reserve_at_least (for representable requests), "
                "rehash_flag, insert_never_shrinks, hp_never_exceeds_limit (any run), rehash/reserve_keeps_contents. PARTIAL: `exactly as large "
                "as requested when growing` is not proved (a rebuild may expand again for adversarial hash functions; the model replicates "
                "that and K2 compares the exact hashpower).",
        "design_ref": "DESIGN.md 6/C10, 12",
        "note": "Trusted: Lean kernel; K2 harness + reference-map oracle; Float comparison load_factor()<minimum_load_factor() is opaque "
                "in the theorems (IEEE double in the driver).",
    },
    {
        "property_id": "C02",
        "technique": "Lean 4 refinement proof (invariant + simulation of an abstract map by induction over operation sequences) on an executable replica of the table, tied by K2 full-state differential",
        "text": "Props/C02.lean: every public operation of the executable model (find/update/erase functors, the uprase family, rehash, reserve, "
                "clear, setters, lock_table, locked insert/erase), started from ANY state satisfying the invariant Inv (any layout, pending "
                "deferred migration, any hash function, any S>0, any power-of-two stripe limit), returns what the abstract association list "
                "returns and re-establishes Inv and the representation relation Rel; an inserting/resizing call may instead fail with a "
                "permitted error and then the map is unchanged; seq_refines lifts this to every finite sequence by induction. The model "
                "is an exact replica (BFS slot search, path validation, move_bucket, lazy per-stripe migration, rebuild) and K2 compares "
                "its full state (every cell, counters, flags, old array, lock arrays, resize counter) with the real table after every "
                "operation, over S in {1,2,3,4,8} x stripe limit {2,4,8} (hook) x 3 key kinds x 6 hash families incl. adversarial ones. "
                "Helper threads (Props/C02Par.lean): parallel_exec's chunks partition the range (splitWork_partition; K1b compares the real "
                "private member with splitWork), different stripes migrate independently (rehashLock_comm) and hence EVERY order in which the "
                "helpers process their stripes yields the table of the sequential loop (migrate_any_order, migrate_with_workers); K2 streams "
                "configure 1-5 helper threads for batch migrations. Props/C02Rebuild.lean: the rebuild of cuckoo_expand_simple with helper threads = concurrent inserts of "
                "the old array's elements (distinct keys) into the empty temporary map; for EVERY interleaving of their critical sections (any chunking, every call "
                "answering once without exception) the temporary map ends up representing exactly those pairs, every insert answers `newly inserted`, size() is the "
                "element count, and the contents / find answers equal those of the sequential loop (rebuild_contents_exact, rebuild_any_interleaving_same_contents, "
                "seq_rebuild_is_schedule, helper_rebuild_contents with splitWork's chunks, helper_rebuild_preserves_map).",
        "design_ref": "DESIGN.md 6/C02, 12",
        "note": "Trusted: Lean kernel; K2 harness/driver/reference-map oracle; helper threads are modelled at the granularity of whole rehash_lock "
                "calls for migrations and of critical sections for rebuilds (contents proved order-independent in C02Rebuild; their layout is timing dependent and only compared by contents); "
                "most streams lower the stripe limit through the hook; one stream per run (three in the thorough tier) uses the shipped kMaxNumLocks=65536 on a 2^16-bucket table that doubles with deferred migration; "
                "C++ object model, allocator and std library are modelled, not verified.",
    },
    {
        "property_id": "C05",
        "technique": "Lean 4 theorems: size() = length of the abstract map as part of the refinement relation; K2 differential on stats + structural scan",
        "text": "Props/C05.lean: Rel carries `sum of stripe counters = number of pairs`, every operation re-establishes Rel (C02), hence size(), "
                "empty(), capacity(), load_factor() are exact after any operation sequence (size_exact_after_any_run), across displacement "
                "(no counter touched), lock-array growth (sum preserved), deferred migration, shrinking, clear and stream extraction (C12). "
                "The concurrent clause is Props/C05Conc.lean: after EVERY interleaving of the atomic critical sections of Model/Conc.lean (arbitrary stale "
                "snapshots/paths) and of whole locked sections, and at every cut of such a schedule, size() = number of pairs of the linearized map, "
                "empty() iff it is empty, capacity exact (size_exact_after_any_interleaving, size_exact_with_locked_sections, size_exact_at_every_cut); "
                "on the real code it is tied by K3's final-state scan.",
        "design_ref": "DESIGN.md 6/C05, 12",
        "note": "Trusted as for C02. Per-stripe counters are deliberately not claimed exact (displacement moves elements between stripes).",
    },
    {
        "property_id": "C09",
        "technique": "Lean 4 theorems about the iterator functions on an arbitrary store + K2 differential of iteration sequences and iterator results",
        "text": "Props/C09.lean, for every store of the right size and any S>0: forward traversal = the occupied positions in index order, each once, "
                "ending at end(); backward traversal = its reverse; begin()==end() iff empty; iteration yields exactly the pairs of the "
                "abstract map, each key at one position; find agrees with the map; erase(it) removes exactly that element, returns the successor "
                "position and changes no other cell, and the iteration afterwards is exactly the former sequence without that position in the same relative order (traverse_after_erase, ltEraseAt_iteration, ltEraseAt_iteration_length), and the erase-while-iterating loop empties the table within size() steps (begin_occupied, erase_loop_empties) and ends with the empty abstract map (map_empty_of_no_iteration, erase_loop_map_empty); insert returns the position of the new or present element (C02.ltInsert_refines); "
                "count/at/equal_range/operator[] agree with the map (ltCount_agrees, ltAt_agrees incl. out_of_range exactly when absent, "
                "ltEqualRange_agrees, ltIndex_agrees) — the driver answers those requests with the same model functions.",
        "design_ref": "DESIGN.md 6/C09, 12",
        "note": "Trusted as for C02; at()/operator[]/count/equal_range are wrappers of find/insert and are only correspondence-checked (K2 + oracle).",
    },
    {
        "property_id": "C12",
        "technique": "Lean 4 round-trip theorem on the logical stream content + K2 differential (write, read into arbitrary destinations, workload afterwards)",
        "text": "Props/C12.lean: reading the image of any locked source into any locked destination (smaller, larger, populated, more stripes than "
                "buckets) yields Inv, the source's contents (Rel with the same map), size, minimum load factor and maximum hashpower; the source is "
                "unchanged (write is a pure function); afterwards every operation sequence refines the map (usable_after_read, via C02). Props/C12Wire.lean (T-G): the layout of the stream image and the steps of operator>> are regenerated from the source text on every run; the reader consumes exactly what the writer produces (image_read_as_written), the image is the model's Wire (image_is_wire), the steps are those of Table.read (read_steps_are_model_steps) and the binary reader does no formatted input (reader_is_unformatted).",
        "design_ref": "DESIGN.md 6/C12, 12",
        "note": "Byte layout of unoccupied storage is unspecified and not modelled; hypothesis src.hp <= src.mhp (physically always true) and a valid "
                "stored load factor are explicit hypotheses; trivially-copyable key kind only (as the property states).",
    },
    {
        "property_id": "C17",
        "technique": "Lean 4 corollaries of the C02 refinement theorems about the recorded functor invocations + K2 differential of call records",
        "text": "Props/C17.lean: the model records every functor invocation (context received, value seen); theorems: invoked exactly once with the stored "
                "value iff the key is present (find_fn/update_fn/erase_fn), uprase/upsert call contract incl. NEWLY_INSERTED only for context-aware "
                "functors, erased iff the functor returns true, boolean results, no call on a failed expansion, and the wrapper equivalences "
                "(contains/update/erase/insert/insert_or_assign).",
        "design_ref": "DESIGN.md 6/C17, 12",
        "note": "Trusted as for C02; the C++ overload machinery (CanInvokeWithUpsertContext) is exercised by K2 with functors of both arities, not modelled.",
    },
    {
        "property_id": "C01",
        "technique": "Lean 4: (1) invariant proof over a guarded transition system of the locking protocol, (2) refinement proof that every critical section of every operation — for arbitrary stale local data — is internal or the call's linearization point, (3) induction over arbitrary interleavings of sections, (4) two-phase-locking reduction over single data accesses, (5) sequential operation = schedule of sections, (6) verified linearizability checker; tied by T-E (sync skeletons regenerated from the source) and K3 (deterministic-scheduler executions of the real code, trace replay through the Lean acceptors, histories decided by the verified checker)",
        "text": "Props/C01.lean (protocol): in every execution accepted by Cuckoo.Proto.accept a validated thread works with the current hashpower and the "
                "current lock array, a sound snapshot with an unchanged resize counter is current unless a resizer sits between its change and its "
                "bump, a stale snapshot fails validation (induction over arbitrary traces, any number of threads/stripes/lock arrays). "
                "Props/C01Conc.lean (linearizability): Model/Conc.lean defines the atomic critical sections of find_fn/update_fn/erase_fn, of the "
                "inserting family (first try, intermediate hops, last hop + duplicate re-check + add + functor, expansion), of rehash/reserve and "
                "clear, each applicable to ANY table state with ANY stale snapshot and path; every one is proved to preserve the invariant and to "
                "be either internal (abstract map unchanged) or the call's final section applying exactly the sequential specification; "
                "conc_linearizable: for every schedule (any finite interleaving of sections of any calls) the final sections in schedule order are a "
                "sequential execution of the abstract map giving every response, and the final table represents the final map; "
                "rc_check_implies_hp_check: an unchanged counter implies an unchanged hashpower along every schedule; never_stored_twice. "
                "K3 replays recorded traces of /repo through the acceptor and explores 2-3 thread programs (crafted + random high-contention) with "
                "preemption-bounded and random schedules, checking each history for linearizability, final contents and structure. "
                "Props/C01Red.lean (reduction, mechanised): Model/Fine.lean refines the protocol to single data accesses (read/write of a location, "
                "allowed exactly when Proto.accept allows `access` of its guarding stripe in the CURRENT lock array; rule T: no acquire/append after the first "
                "release of a hold). For EVERY accepted fine-grained trace (any threads, any interleaving of individual accesses, partial releases, lock_all, "
                "lock-array growth, locked_table sections) the committed holds executed one after the other, each atomically, in commit order, read exactly the "
                "values read concurrently (episodes_serializable), end in the concurrent memory (quiescent_memory_eq), give every thread its own access "
                "sequence hold by hold (thread_view_preserved, episode_is_one_hold, episode_accs) and respect real time (commit_order_respects_real_time). "
                "K3 replays every recorded trace of /repo through Fine.accept as well (rule T on the real code). "
                "Props/C01Sched.lean: every sequential operation of the replica (the one K2 compares with the code cell by cell) is Conc.exec of a schedule "
                "of these sections with the same final table and answer (uprase_is_schedule, fnOp_is_lookupSec, ...), so the sections are the pieces of the "
                "K2-validated replica. Props/C01Lin.lean: the linearizability oracle used on recorded histories is a verified checker (check_sound, "
                "check_complete, applySpec_is_specOf: its step function is specOf); the driver decides with it every history the harness rejects and a sample "
                "of those it accepts. Props/C01Sync.lean: 27 theorems (decide) that EXECUTE the synchronisation skeletons regenerated from the source text on all small inputs (T-E; robust against loop-form and naming changes). "
                "K3(ii): every sampled execution of the real table is replayed hold by hold (commit order) as a schedule of Model/Conc sections with the parameters the "
                "code used (guarded hooks report the run_cuckoo snapshot, the hop records, the fast_double request); every answer and the final FULL-STATE digest must "
                "coincide (7,392 executions / 567,699 sections per quick run). NOT PROVED about the C++ text: that the code of one hold computes the section function and "
                "stays within its stripes - this is what K3(ii) and the lockset monitor check on every run (model side: Props/C03Frame.lean, C03Comm.lean); helper threads are not part of Conc; "
                "locked_table sections are atomic steps in Props/C06Conc.lean.",
        "design_ref": "DESIGN.md 6/C01, 12",
        "note": "Trusted: Lean kernel; hooks + baton scheduler + C++ linearizability search (K3); the scheduler yields sequentially consistent executions only; "
                "the correspondence between Conc's sections and the code's critical sections rests on K2 (same primitive functions) and K3, not on a generated skeleton.",
    },
    {
        "property_id": "C03",
        "technique": "Lean 4 exclusion theorems over the protocol transition system + decided memory-order table generated from the source's LLVM IR (T-C) + K3 lockset/protocol monitor and trace replay + K4 ThreadSanitizer runs",
        "text": "Props/C03.lean: a lock has one holder; whoever touches a bucket (or runs a functor on it, or touches its stripe's counter/flag) holds the "
                "stripe in the current lock array and is validated or owns the table; two threads allowed to touch the same stripe are the same "
                "thread; an owner (lock_all / locked section) excludes every validated thread and every access — hence updates of one key are "
                "serialised (no lost update) and a reader sees before-or-after (no torn read). sync_orders_sufficient (decide over Gen/MemOrder.lean, "
                "regenerated from the IR with a text cross-check): lock = acq_rel RMW, unlock = release, hashpower/resize-counter loads acquire, every "
                "publication (hashpower store, all three counter bumps, lazy-counter store) release, lazy decrement acq_rel. K3 checks on the real code "
                "that every bucket access / functor call / metadata access happens under the right stripe of the current array. Props/C01Red.lean lifts the "
                "exclusion to data: in every fine-grained execution (single reads/writes interleaved arbitrarily) each hold is atomic — every read returns what the "
                "serial, hold-by-hold execution returns, so n read-modify-write updates of one key are all applied and no reader sees a mixture. "
                "Props/C03Frame.lean: on the model, a section that locks the stripes of buckets B writes nothing outside those stripes "
                "(rehashLock/lockSec/hopSec/lookupSec/insertTrySec/insertLastSec_writes_within, schedule_writes_within, for every table satisfying Inv and any "
                "stale parameters) - the premise of the reduction; Props/C03Comm.lean: read footprints (*_read_footprint) and sections_commute - two sections on "
                "disjoint stripes yield the same table and answers in either order (swap_adjacent_disjoint, perm_disjoint_schedule). PARTIAL: the data-race "
                "clause in the C++ memory-model sense is NOT a theorem (no hardware memory model in Lean); it is monitored by K4 (free-running threads "
                "under ThreadSanitizer, guard off). One race is a genuine open finding (F8: unsynchronised read of the lock-array list vs append) and "
                "is reported as KNOWN-FINDING; any other ThreadSanitizer report is a violation.",
        "design_ref": "DESIGN.md 6/C03, 12",
        "note": "Trusted as for C01, plus ThreadSanitizer's happens-before model for K4.",
    },
    {
        "property_id": "C04",
        "technique": "Lean 4 proofs of lock-order invariants and deadlock freedom over the protocol transition system + K3 deadlock/lock-leak/step-budget detection",
        "text": "Props/C04.lean: every thread's locks are taken in strictly ascending (array, index) order (invariant over all accepted traces); a pure "
                "order lemma and proto_deadlock_free show that no set of threads can be blocked on each other; a returning call holds no lock; an active "
                "section holds every lock of the current array, arrays appended by it are born locked, and its unlock releases everything. K3: a "
                "schedule with no runnable thread, a lock still held after all calls returned, or an exceeded step budget is reported with its "
                "schedule. Props/C04Live.lean (retry loops): over the acceptor extended by rule L (after a failed validation the counter is loaded again "
                "before the next first lock; checked on every replayed trace of /repo) the number of failed validations of any thread never exceeds "
                "the number of completed resizes (retries_bounded_by_resizes), and in a stretch without a completed resize no validation fails "
                "(no_resize_no_retry): ordinary operations of other threads never send a call back. PARTIAL: fairness of the spinlocks and "
                "termination of competing displacements whose cuckoo paths keep being invalidated (path re-search, bounded per attempt) are not proved.",
        "design_ref": "DESIGN.md 6/C04, 12",
        "note": "Trusted as for C01. Exception exits are covered by K5 lock probes (C07), not by this model.",
    },
    {
        "property_id": "C06",
        "technique": "Lean 4 proofs about table ownership in the protocol transition system + sequential refinement of section operations (C02, C12) + K3 with parked threads",
        "text": "Props/C06.lean: while a thread owns the table (from the end of lock_all to its first release) no other thread is or can become validated or "
                "touch a bucket; the owner cannot release between a change of the table's shape and the counter bump, so parked operations fail "
                "validation and restart; growth keeps ownership; only an owner resizes. The section's own operations refine the map (C02: lockTable, "
                "ltInsert, ltErase, rehash/reserve in locked mode, clear; C12: stream extraction). K3 programs park other threads at every "
                "synchronisation point while the section inserts with growth, rehashes up and down, clears, and replaces the table by stream extraction. "
                "Props/C06Conc.lean: schedules of ordinary critical sections (any calls, any stale data) AND whole locked sections (lock_table, any "
                "operations through the locked_table, unlock — one atomic step, justified by the ownership theorems): locked_section_atomic, "
                "locked_section_ends_unlocked, conc_with_sections_linearizable — every such interleaving is linearizable, each section a contiguous "
                "block answering as the sequential specification, later operations starting from exactly the map it left. Props/C01Red.lean mechanises the step "
                "from ownership to atomicity at the level of single data accesses: a locked section is one hold, and every hold is one atomic episode of the serial "
                "execution (episodes_serializable, episode_is_one_hold; tr2 example: lock_all, writes, append, writes, release). K2 locked-section streams "
                "(lock probes of every array after lock / unlock / move assignment of a locked_table onto an active one) belong to this check too.",
        "design_ref": "DESIGN.md 6/C06, 12",
        "note": "Trusted as for C01.",
    },
    {
        "property_id": "C07",
        "technique": "Lean 4 failure-atomicity theorems on the executable model (its fault points) + exhaustive enumeration of every reachable allocation / construction fault position on the real table (K5)",
        "text": "Props/C07.lean, for every table state: a failed inserting call (bad_alloc at the model's allocation points, policy exceptions) leaves Inv and "
                "the abstract contents unchanged and invokes no functor; a failed rehash/reserve additionally keeps the hashpower; the doubled bucket "
                "array is allocated before any change (repaired F3); a throwing functor keeps the preceding insertion and its own partial effect and "
                "nothing else; after any failure every operation sequence still refines the map. PARTIAL (theorem named alloc_failure_atomic_partial): "
                "lock-vector / list-node / helper-thread allocations, helper-thread creation, throwing equality and throwing element constructors are not fault points of the "
                "model; K5 enumerates them on the implementation: for every (state, operation) it re-runs the operation once per reachable allocation "
                "index k in a forked child on a copy and checks exception kind, contents, hashpower, structural scan, size(), lock probe on every lock "
                "array, usability, byte and object balance after destruction. Open findings F4 (failed rebuild leaves moved-from elements) and F11 "
                "(copy assignment not failure-atomic) are reported as KNOWN-FINDING.",
        "design_ref": "DESIGN.md 6/C07, 8, 12",
        "note": "Trusted: Lean kernel; K5 harness (fork per trial, counting allocator, instrumented types, interposed pthread_create). Scenarios with 1-3 helper threads sweep "
                "allocation failures and failures to create the k-th helper thread, also right after doublings that deferred their migration (F10, F13 found this way and fixed).",
    },
    {
        "property_id": "C08",
        "technique": "Lean 4 theorems on the object-lifetime discipline of the model (constructions on empty cells, destructions of occupied cells, arrays dropped only when they hold husks, ledger objCount = pairs + husks) + object-registry / allocator-balance monitoring of the real table (K5)",
        "text": "Props/C08.lean: every key is held at exactly one live position after any operation sequence; cells left behind in the old array by a migration "
                "are never part of the live view; the superseded bucket array is released exactly when its last stripe migrates (and by lock_table, "
                "clear, batch migration). Props/C08Life.lean (object-lifetime discipline on the model; an object = an occupied cell of the current or of the "
                "superseded array): every construction hits an EMPTY cell (insert_constructs_on_empty, moveBucket/rehashLock/eager_double/rebuild_constructs_on_empty: "
                "the migration functions are exactly folds of write traces whose targets are empty, pairwise different and copies of each source once), every "
                "destruction hits an OCCUPIED cell (erase_destroys_occupied, hop_moves_one_object: one construction + one destruction of the source), an array is "
                "dropped only when all its objects are moved-from husks (old_release_kills_only_husks, rebuild_drops_only_husks, eager_double_drops_only_moved) or by "
                "clear (clear_destroys_everything), and the ledger objCount = number of pairs + husks at every reachable state (objCount_eq, every_object_is_a_pair_or_a_husk, "
                "counters_count_live_objects). PARTIAL: the allocator's byte balance and the C++ constructor/destructor calls themselves are not in the functional "
                "model; they are monitored on the implementation: instrumented key/value types record every "
                "construction, move and destruction in a registry that is compared with the occupied slots after every request (no destroyed or "
                "moved-from object in a live slot, no double destroy, nothing left after table destruction), together with a byte-balanced allocator and ASan.",
        "design_ref": "DESIGN.md 6/C08, 9, 12",
        "note": "The monitored clauses are exploration, not proof; finding F4 (moved-from elements after a failed rebuild) is open and reported as KNOWN-FINDING.",
    },
    {
        "property_id": "C11",
        "technique": "Lean 4 theorems on the member-by-member model of the special members + K2 multi-object full-state differential",
        "text": "Props/C11.lean: a copy is a complete table state (Inv, same abstract map, same settings, same size) and independent of its source; "
                "swap (as repaired) exchanges the complete state for EVERY pair of states incl. pending deferred migration and several lock-array "
                "generations (Inv/Rel quantify over them); the shipped swap provably breaks the migration bookkeeping when one side has stripes "
                "pending (swap_shipped_breaks_bookkeeping, finding F6). In the value model copy/move are identities, so the content of the claim "
                "is WHICH members are transferred; that is tied by K2: copy/move construction and assignment (also onto moved-from objects), member "
                "and ADL swap between populated tables in arbitrary states, followed by full-state digests, structural scans and workloads on all objects. "
                "Allocators: Model/Objects.lean models a table object as (table value, allocator identity) under the three propagation traits; "
                "ctor_transfers_all / ctor_keeps_settings (plain and allocator-extended constructors, equal or different allocator: complete working "
                "table, allocator as the standard requires; an unequal allocator rebuilds only the current lock array), assign_transfers_all, "
                "assign_keeps_allocator, swap_with_allocators (for every policy/pair for which C++ defines swap), self_assign_identity. K2 runs the "
                "same requests on builds with an identity-carrying allocator for each of the 8 policy combinations (incl. self-assignment, self-swap, "
                "self-move followed by assignment) and checks the allocator each object reports, which instance owns its bucket array, and that no "
                "block is returned to an instance other than the one it came from.",
        "design_ref": "DESIGN.md 6/C11, 12",
        "note": "The state of a moved-from source after an element-wise move (unequal, non-propagating allocators) is only required to be destroyable / assignable, as the property says.",
    },
    {
        "property_id": "C14",
        "technique": "Lean 4: decided forwarding table generated from the wrapper's source + byte-level file-format theorems (round trip, every proper prefix rejected); K6 lock-step correspondence",
        "text": "Props/C14.lean: capi_forwards (decide) — every extern-C entry point of the current source calls exactly the documented C++ member(s) and "
                "there is no undocumented entry point (Gen/CApi.lean is regenerated by T-D: text scan cross-checked against clang's AST); "
                "file_roundtrip and truncated_file_rejected are proved by induction for every pair list, key/value width and truncation point "
                "on the byte-level model of _write/_read; read_builds_same_table via C02. K6 drives ~60 entry points in lock step with a C++ table "
                "(return values, out-parameters, contents, both iteration directions, erase_it with it==nextit) and re-reads written files whole and at every byte offset.",
        "design_ref": "DESIGN.md 6/C14, 12",
        "note": "The behaviour of the forwarded members is C02/C09/C17; fread/fwrite are modelled as all-or-nothing per item on a byte list (short reads of a partial item fail).",
    },
    {
        "property_id": "C15",
        "technique": "Lean 4: decided catch-coverage / limit-reset facts on the table generated from the wrapper's source + model theorems; K6 allocation-fault sweeps with a catch-all sentinel",
        "text": "Props/C15.lean: catches_cover_throws (decide over the regenerated table): every entry point that forwards to an allocating member or uses "
                "`new` catches std::bad_alloc and sets errno=ENOMEM; init_and_read_disable_limits (was false for _read: finding F7, repaired); with both "
                "limits disabled checkResize raises no policy exception; the handler-less members never fail in the model; a failed allocating "
                "member leaves Inv and the contents (C07). K6: every C call wrapped in catch(...), k-th global allocation failing for every reachable k "
                "(errno, failure value, contents, hashpower), key sets colliding in every small table; a `race` probe (two threads, same absent key) on a table of "
                "its own. Props/C10Limits.lean (T-F, shared with C10): the load-factor guard of check_resize_validity, regenerated from the source text, is STRICT "
                "(`load_factor() < minimum_load_factor()`, load_factor_guard_is_strict, checkResize_is_source) - with the minimum 0 of C tables it can never fire; "
                "K2 boundary streams expand tables whose load factor EQUALS the minimum and the oracle judges every load_factor_too_low against the load factor it saw.",
        "design_ref": "DESIGN.md 6/C15, 12",
        "note": "`load_factor() < 0` being false is an IEEE fact the kernel cannot evaluate (explicit hypothesis hlf); global operator new is interposed only in the K6 harness.",
    },
    {
        "property_id": "C16",
        "technique": "Lean 4 theorems on the model's argument-consumption flag for every table state + K5 observation with move-tracking argument types and heterogeneous probes",
        "text": "Props/C16.lean: an inserting call consumes its arguments iff it inserts: never on a duplicate (whatever path — lazy migration, displacement, "
                "expansion — preceded its discovery), never when the expansion fails, always (once, by the single add_to_bucket) on success, and the "
                "stored pair is built from exactly those arguments. K5 passes rvalues of move-tracking key/value types to insert/insert_or_assign/upsert/"
                "locked insert and checks moved-from flags against the result; lookups/updates/erasures through a different type with consistent hash "
                "and transparent equality must agree with key_type and construct no key_type. PARTIAL: C++ value categories / perfect forwarding and "
                "the heterogeneous-lookup clause are observed (K5), not modelled.",
        "design_ref": "DESIGN.md 6/C16, 9, 12",
        "note": "The heterogeneous clause has no theorem (the model has one key type).",
    },
]

_PENDING = "machinery not built yet in this round (planned: DESIGN.md section 6); not claimed until its check exists"
NOT_APPLICABLE = []
