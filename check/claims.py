"""What MANIFEST.json claims.  Edited by hand; check/mkmanifest.py turns it into MANIFEST.json."""

HOOK_COMMITS = []

CLAIMS = [
    {
        "property_id": "C13",
        "technique": "Lean 4 theorems over definitions generated from the LLVM IR of the source (T-A), K1 differential",
        "text": "All statements of the property are Lean theorems (Props/C13.lean) about BitVec definitions regenerated "
                "from /repo's LLVM IR on every run: range, involution, symmetry, one-new-top-bit on doubling, stripe "
                "stability, tag independence of table size, power-of-two stripe limit, minimality of reserve_calc; for "
                "all 2^64 hashes, 256 tags, hashpowers 0..62 and all power-of-two stripe counts. No sampling in the claim.",
        "design_ref": "DESIGN.md 6/C13, 12",
        "note": "Trusted: Lean kernel; translator translate/ir2lean.py and clang-14's IR (validated by K1: compiled C++ vs "
                "generated Lean vs Nat-level spec on 10^5/3*10^6 points); C++ shift UB for hp>=64 excluded.",
    },
]

_PENDING = "machinery not built yet in this round (planned: DESIGN.md section 6); not claimed until its check exists"
NOT_APPLICABLE = [{"property_id": "C%02d" % i, "reason": _PENDING} for i in range(1, 18) if i != 13]
