"""C03 (protocol-level): see DESIGN.md section 6/C03 and 12."""
import k3check
import k5check


def run(tier):
    # exclusive access must also survive FAILED calls: a call that fails after it made a new lock array current without advancing
    # the resize counter lets operations parked on the superseded array run next to holders of the new one (K5 fault scenarios,
    # findings classified for C03 only)
    return k3check.run("C03", tier, phases=[k5check.k5_phase_for("C03")])


def replay(path):
    return k3check.replay("C03", path)
