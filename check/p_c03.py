"""C03 (protocol-level): see DESIGN.md section 6/C03 and 12."""
import k3check


def run(tier):
    return k3check.run("C03", tier)


def replay(path):
    return k3check.replay("C03", path)
