"""K5-backed checks (C07, C08): Lean obligations of Props/<ID>.lean + fault enumeration / lifetime monitoring of the real table."""
import json

import common as C
import k5


def match_known(f, known):
    for kf in known:
        if not kf.get("status", "open").startswith("open"):
            continue
        sig = kf.get("signature", {})
        if sig.get("answer_contains") and sig["answer_contains"] not in f["answer"]:
            continue
        if sig.get("request_kinds") and " ".join(f["request"].split()[:2]) not in sig["request_kinds"]:
            continue
        return kf
    return None


def k5_phase_for(pid):
    """a phase for K2-backed checks: the K5 scenarios (faults at every allocation / construction point, lifetime scans),
    keeping the findings that concern `pid` (e.g. size() wrong after a failed insertion: C05)"""
    def phase(res, tier):
        out = k5.explore(tier, C.seed())
        for b in out["build_errors"]:
            res.add_broken("K5 harness does not compile against /repo (%s)" % b["config"], b["log"])
        mine = [f for f in out["findings"] if pid in f["properties"]]
        for f in mine[:3]:
            res.add_failing({"what": f["answer"], "config": f["config"], "request": f["request"], "requests": f["prefix"], "harness": "k5"})
        if mine:
            res.add_broken("K5 oracle: after a failed or completed request the table's bookkeeping violates %s" % pid)
        res.cov["k5_scenarios"] = out["scenarios"]
        res.cov["k5_fault_positions"] = out["fault_positions"]
        res.cov["k5_findings_for_property"] = len(mine)
    return phase


def run(pid, tier, k3_programs=None, extra_props=()):
    res = C.Result(pid, tier)
    known = [k for k in C.load_known().get("findings", []) if pid in k.get("properties", [k.get("property")])]
    with C.Lock():
        lean_ok, names = C.lean_phase(res, pid, gen_fn=None, extra_props=extra_props)
    out = k5.explore(tier, C.seed())
    for b in out["build_errors"]:
        res.add_broken("K5 harness does not compile against /repo (%s)" % b["config"], b["log"])
    for c in out["crashes"][:2]:
        res.add_broken("K5 harness crashed (%s rc=%s) at request `%s`" % (c["config"], c["rc"], c["at_request"]), c["tail"])
        res.add_failing({"what": "crash / sanitizer abort of the real table", "config": c["config"], "requests": c["prefix"], "tail": c["tail"]})
    mine = [f for f in out["findings"] if pid in f["properties"]]
    seen = set()
    for f in mine:
        kf = match_known(f, known)
        if kf:
            if kf["id"] not in seen:
                seen.add(kf["id"])
                res.known.append("%s %s" % (kf["id"], kf["what"]))
            continue
        if len(res.failing) < 4:
            res.add_failing({"what": f["answer"], "config": f["config"], "request": f["request"], "requests": f["prefix"]})
    if res.failing and not res.broken:
        res.add_broken("K5 oracle: a fault position / lifetime scan violates %s on the real table" % pid)
    res.cov.update({
        "evaluations": out["fault_positions"] + out["requests"],
        "distinct_nontrivial": out["sweeps"],
        "rule": "K5: scenarios build table states (fill levels, erasures, pending deferred migration, locked sections, 0-3 helper threads) over S x stripe limit x "
                "nothrow/throwing move x 5 hash families; `sweep <op>` re-runs <op> once per reachable allocation index k (k-th allocation "
                "through the table's allocator throws; forked child, copy of the table) and checks: bad_alloc reaches the caller, same "
                "contents, same hashpower for rehash/reserve, structural scan, size(), lock probe on every array, 12 fresh inserts + lookups, "
                "no byte / object leaked after destruction; `ctorsweep` does the same for the k-th element construction from arguments; "
                "plus throwing equality and throwing functors; after every request the live-object registry is compared with the occupied slots. "
                "distinct_nontrivial = number of (state, operation) sweeps",
        "samples": out["samples"],
        "scenarios": out["scenarios"],
        "fault_positions": out["fault_positions"],
        "findings_total": len(out["findings"]),
        "known_findings_matched": sorted(seen),
    })
    if k3_programs:
        import k3
        import k3check
        out3 = k3.explore(tier, C.seed(), programs=set(k3_programs), with_traces=False)
        for b in out3["build_errors"]:
            res.add_broken("K3 harness does not compile against /repo (%s)" % b["config"], b["log"])
        def is_mine(f):
            if pid in k3check.classify(f["why"]):
                return True
            # C16: whether a call of the inserting family consumes its arguments is decided by its duplicate check; under
            # contention on one key that decision is observable as the call's result (reported "inserted" for a present
            # key = arguments consumed although the key was there, and the stored pair overwritten)
            w = f["why"].lower()
            return pid == "C16" and ("not linearizable" in w or "stored twice" in w or "size()" in w or "crash" in w)
        mine3 = [f for f in out3["failures"] if is_mine(f)]
        for f in mine3[:3]:
            res.add_failing(f)
        if mine3 and not [b for b in res.broken if "K3" in b["what"]]:
            res.add_broken("K3 monitor: an explored schedule violates %s" % pid)
        res.cov["k3_executions"] = out3["executions"]
        res.cov["k3_failures"] = len(mine3)
    res.assumptions += [
        "theorems cover the model's fault points only (bucket-array allocation beyond hpLimit, policy exceptions, functor throw); all other "
        "fault positions are enumerated on the implementation, not proved",
        "with helper threads (1-3 workers in part of the scenarios) fault positions also lie inside worker threads; their order is timing dependent, "
        "so a sweep enumerates every ordinal but not every (thread, ordinal) assignment; a call that absorbs a failure must equal a fault-free run",
    ]
    return C.finish(res, "proof", "cd lean && lake build Cuckoo.Props.%s && #print axioms audit; K5 fault enumeration (check/k5check.py)" % pid)


def replay(pid, path):
    d = json.load(open(path))
    print(json.dumps(d.get("no_longer_checks", []), indent=1)[:2000])
    bad = 0
    for f in d.get("failing_inputs", []):
        if "requests" not in f or "config" not in f:
            continue
        kv = dict(x.split("=") for x in f["config"].split())
        ok, exe, log = k5.harness_for(int(kv["S"]), int(kv["M"]), int(kv["TMOVE"]), int(kv.get("BYVAL", 0)))
        if not ok:
            print(log)
            return 2
        rc, res, dt = k5.run_scenario(exe, f["requests"])
        print("replay %s: last answer: %s" % (f["config"], res[-1] if res else "<none>"))
        if res and (res[-1].startswith("FAIL") or "BAD" in res[-1] or rc != 0):
            bad += 1
    return 1 if bad else 0
