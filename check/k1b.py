"""K1b: the real parallel_exec / parallel_exec_noexcept (called through the test-access friend with a recording functor)
against the Lean definition `splitWork` that Props/C02Par.lean is about."""
import random

import common as C


def split_phase(res, tier):
    ok, exe, log = C.build_harness("k1-split", "k1_split.cc", ["-O1", "-g"])
    if not ok:
        res.add_broken("K1b harness does not compile against /repo", log)
        return
    rng = random.Random(C.seed() * 31337 + 2)
    reqs = []
    for w in range(0, 9):
        for (s, e) in [(0, 0), (0, 1), (0, 7), (0, 8), (0, 9), (3, 3), (3, 4), (5, 64), (0, 65536), (1, 65537), (17, 1000)]:
            reqs.append("arith split %d %d %d" % (s, e, w))
    for _ in range(200 if tier == "quick" else 3000):
        s = rng.randrange(0, 5000)
        reqs.append("arith split %d %d %d" % (s, s + rng.choice([0, 1, 2, 3, rng.randrange(0, 70), rng.randrange(0, 100000)]), rng.randrange(0, 13)))
    rc1, out1, dt1 = C.sh([exe], input="\n".join(reqs) + "\n", timeout=600)
    cpp = out1.splitlines()
    rc2, lean, dt2 = C.run_driver(reqs)
    bad = []
    if rc1 != 0 or rc2 != 0 or len(cpp) != len(reqs) or len(lean) != len(reqs):
        res.add_broken("K1b split differential could not run (harness rc=%s, driver rc=%s, %d/%d/%d lines)" % (rc1, rc2, len(reqs), len(cpp), len(lean)),
                       "\n".join(cpp[-5:]))
    else:
        for q, a, b in zip(reqs, cpp, lean):
            if a != b:
                bad.append({"request": q, "implementation": a[:300], "model": b[:300]})
        if bad:
            res.add_broken("K1b: parallel_exec hands out the range differently from Model.splitWork in %d of %d requests" % (len(bad), len(reqs)),
                           str(bad[:3]))
            # is the real split still a partition of [start, end)?  If not this is a failing input for the property.
            for x in bad:
                w = x["request"].split()
                s, e = int(w[2]), int(w[3])
                for half in x["implementation"].split("|"):
                    try:
                        chunks = [tuple(int(v) for v in c.split("-")) for c in half.split(",") if c]
                    except ValueError:
                        chunks = None
                    covered = []
                    if chunks is not None:
                        for (a_, b_) in chunks:
                            covered += list(range(a_, b_))
                    if chunks is None or sorted(covered) != list(range(s, e)):
                        if len(res.failing) < 3:
                            res.add_failing({"what": "parallel_exec does not hand out every index of the range exactly once (stripes / buckets "
                                                     "skipped or processed twice by a batch migration or rebuild with helper threads)",
                                             "request": x["request"], "chunks": half[:400]})
                        break
    res.cov["split_requests"] = len(reqs)
    res.cov["split_mismatches"] = len(bad)
