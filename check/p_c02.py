"""C02: Lean theorems of Props/C02.lean on the executable model + K2 correspondence (DESIGN.md 6/C02, 12)."""
import random

import common as C
import k2
import k2check


def real_limit_streams(tier):
    """streams against a build WITHOUT the stripe-limit override (kMaxNumLocks = 65536 as shipped)"""
    rng = random.Random(C.seed() * 104729 + 7)
    out = [k2.big_stream(rng, 4, 6000 if tier == "quick" else 40000)]
    if tier != "quick":
        out.append(k2.big_stream(rng, 0, 40000))
        out.append(k2.big_stream(rng, 2, 20000))
    return out


def run(tier):
    import k1b
    return k2check.run("C02", tier, profile="mixed", extra_props=["C02Par"], phases=[k1b.split_phase],
                       extra_streams=real_limit_streams(tier))


def replay(path):
    return k2check.replay("C02", path)
