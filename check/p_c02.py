"""C02: Lean theorems of Props/C02.lean on the executable model + K2 correspondence (DESIGN.md 6/C02, 12)."""
import k2check


def run(tier):
    import k1b
    return k2check.run("C02", tier, profile="mixed", extra_props=["C02Par"], phases=[k1b.split_phase])


def replay(path):
    return k2check.replay("C02", path)
