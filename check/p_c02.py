"""C02: Lean theorems of Props/C02.lean on the executable model + K2 correspondence (DESIGN.md 6/C02, 12)."""
import random

import common as C
import k2
import k2check


def real_limit_streams(tier):
    """streams against a build WITHOUT the stripe-limit override (kMaxNumLocks = 65536 as shipped)"""
    rng = random.Random(C.seed() * 104729 + 7)
    out = [k2.big_stream(rng, 4, 6000 if tier == "quick" else 40000)]
    if tier != "quick":
        out.append(k2.big_stream(rng, 0, 40000))
        # (not hash family 2: with a handful of distinct low bits every key collides, and at a minimum load factor of 0 the
        # table doubles until memory runs out - the thorough tier aborted with an allocator-out-of-memory report: a harness error)
        out.append(k2.big_stream(rng, 6, 20000))
    return out


def enum_streams(tier):
    """bounded-exhaustive correspondence: EVERY sequence of `depth` state-changing requests over a 12-letter alphabet
    (3 keys) on tables that start with one bucket, so that displacement, doubling, deferred migration (stripe limit 2),
    shrinking and clear all occur; each sequence ends with lookups of all keys, the full-state digest, the structural
    scan and the statistics.  Supports the validation of the model against the code (it is not what proves C02)."""
    import itertools
    depth = 4 if tier == "quick" else 5
    picks = [(1, 2, 0, 0), (2, 2, 1, 2)] if tier == "quick" else [(1, 2, 0, 0), (1, 2, 0, 1), (2, 2, 1, 2), (1, 4, 2, 0)]
    out = []
    for S, M, kind, hm in picks:
        cfg = k2.Cfg(S, M, kind, hm)
        alphabet = ["insert 0 %d %%d" % k for k in (0, 1, 2)] + ["erase 0 %d" % k for k in (0, 1, 2)] + \
                   ["ioa 0 1 %d", "update 0 0 %d", "rehash 0 0", "rehash 0 2", "reserve 0 9", "clear 0"]
        tail = ["m find 0 0", "m find 0 1", "m find 0 2", "m digest 0", "m inv 0", "m stats 0"]
        lines = [cfg.line()]
        for seq in itertools.product(alphabet, repeat=depth):
            lines.append("m new 0 0")
            for i, a in enumerate(seq):
                lines.append("m " + (a % (100 + i) if "%d" in a else a))
            lines += tail
        out.append((cfg, lines))
    return out


def run(tier):
    import k1b
    return k2check.run("C02", tier, profile="mixed", extra_props=["C02Par", "C02Rebuild"], phases=[k1b.split_phase],
                       extra_streams=real_limit_streams(tier) + enum_streams(tier))


def replay(path):
    return k2check.replay("C02", path)
