"""C02: Lean theorems of Props/C02.lean on the executable model + K2 correspondence (DESIGN.md 6/C02, 12)."""
import k2check


def run(tier):
    return k2check.run("C02", tier, profile="mixed")


def replay(path):
    return k2check.replay("C02", path)
