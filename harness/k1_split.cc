// K1b: how the real parallel_exec / parallel_exec_noexcept split a range among helper threads.
// Request: "arith split <start> <end> <workers>" -> the chunks each worker was handed, sorted, "s-e,s-e,...|s-e,..."
// (first the noexcept variant, then the exception-aware one).  Same line protocol as the Lean driver.
#include "access.hh"

#include <iostream>
#include <mutex>
#include <sstream>

namespace vh {
int g_hash_mode = 0;
std::atomic<long> AllocCtl::live_bytes{0};
std::atomic<long> AllocCtl::n_allocs{0};
std::atomic<long> AllocCtl::fail_at{0};
std::atomic<size_t> AllocCtl::max_elems{~size_t(0)};
} // namespace vh


using Tbl = libcuckoo::cuckoohash_map<int, int>;

static std::string show(std::vector<std::pair<size_t, size_t>> v) {
  std::sort(v.begin(), v.end());
  std::string s;
  for (size_t i = 0; i < v.size(); ++i) s += (i ? "," : "") + std::to_string(v[i].first) + "-" + std::to_string(v[i].second);
  return s;
}

int main() {
  std::string line;
  Tbl t(4);
  while (std::getline(std::cin, line)) {
    std::istringstream is(line);
    std::string tag, op;
    size_t s = 0, e = 0, w = 0;
    is >> tag >> op >> s >> e >> w;
    if (op != "split" || s > e || w > 64) { puts("bad-op"); continue; }
    t.max_num_worker_threads(w);
    std::mutex mu;
    std::vector<std::pair<size_t, size_t>> a, b;
    libcuckoo::UnitTestInternalAccess::par_noexcept(t, s, e, [&](size_t x, size_t y) { std::lock_guard<std::mutex> g(mu); a.push_back({x, y}); });
    libcuckoo::UnitTestInternalAccess::par(t, s, e, [&](size_t x, size_t y, std::exception_ptr &) { std::lock_guard<std::mutex> g(mu); b.push_back({x, y}); });
    printf("%s|%s\n", show(a).c_str(), show(b).c_str());
  }
  return 0;
}
