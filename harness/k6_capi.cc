// K6: the C wrapper (libcuckoo-c) driven in lock step with a C++ table of the same type.
// Every C call is wrapped in catch(...) (an exception crossing the C interface is a finding), its return value and
// out-parameters are compared with the corresponding C++ operation, contents are compared on request, `sweep` fails
// the k-th global allocation for every reachable k, and `truncate` re-reads every proper prefix of a written file.
#include <cerrno>
#include <cstdint>
#include <cstdio>
#include <cstdlib>
#include <cstring>
#include <iostream>
#include <map>
#include <new>
#include <sstream>
#include <string>
#include <unistd.h>
#include <vector>

extern "C" {
#define CUCKOO_TABLE_NAME vt
// key / mapped types of the instantiation (the wrapper is a template over them; sizes that differ expose byte-count slips)
#ifndef VH_KT
#define VH_KT int
#endif
#ifndef VH_MT
#define VH_MT int
#endif
typedef VH_KT KT;
typedef VH_MT MT;
#define CUCKOO_KEY_TYPE KT
#define CUCKOO_MAPPED_TYPE MT
#include <libcuckoo-c/cuckoo_table_template.h>
}
#include <libcuckoo-c/cuckoo_table_template.cc>
#include <atomic>
#include <thread>

// ---- global allocation fault injection + balance ----
static long g_new_count = 0, g_fail_at = 0;
static std::atomic<long> g_live{0};   // atomic: the race probes allocate from two threads
static bool g_counting = false;
void *operator new(size_t n) {
  if (g_counting) {
    ++g_new_count;
    if (g_fail_at && g_new_count == g_fail_at) throw std::bad_alloc();
  }
  void *p = malloc(n ? n : 1);
  if (!p) throw std::bad_alloc();
  ++g_live;
  return p;
}
void *operator new(size_t n, std::align_val_t al) {
  if (g_counting) {
    ++g_new_count;
    if (g_fail_at && g_new_count == g_fail_at) throw std::bad_alloc();
  }
  void *p = aligned_alloc((size_t)al, (n + (size_t)al - 1) / (size_t)al * (size_t)al);
  if (!p) throw std::bad_alloc();
  ++g_live;
  return p;
}
void operator delete(void *p) noexcept { if (p) { --g_live; free(p); } }
void operator delete(void *p, size_t) noexcept { if (p) { --g_live; free(p); } }
void operator delete(void *p, std::align_val_t) noexcept { if (p) { --g_live; free(p); } }
void operator delete(void *p, size_t, std::align_val_t) noexcept { if (p) { --g_live; free(p); } }

using Ref = libcuckoo::cuckoohash_map<KT, MT>;
using Abs = std::map<KT, MT>;

static Abs abs_of(Ref &t) { Abs m; auto lt = t.lock_table(); for (auto &kv : lt) m[kv.first] = kv.second; return m; }
static Abs abs_of_c(vt *t) { return abs_of(t->t); }

static void fn_add1(MT *v) { *v += 1; }
static MT g_seen = 0; static int g_calls = 0;
static void fn_see(const MT *v) { g_seen = *v; ++g_calls; }
static bool fn_odd(MT *v) { ++g_calls; return (*v % 2) != 0; }

struct Cross {};
// runs a C call; any exception crossing it is a finding
template <class F> static bool guard(std::string &out, F f) {
  try { f(); return true; } catch (std::exception &e) { out = std::string("CROSSED exception crossed the C interface: ") + e.what(); return false; }
  catch (...) { out = "CROSSED unknown exception crossed the C interface"; return false; }
}

int main() {
  std::ios::sync_with_stdio(false);
  vt *c = nullptr;
  Ref *r = nullptr;
  vt_locked_table *clt = nullptr;
  std::unique_ptr<Ref::locked_table> rlt;
  std::string line;
  const char *tmpdir = getenv("K6_TMP") ? getenv("K6_TMP") : "/var/tmp";
  std::string fpath = std::string(tmpdir) + "/k6-" + std::to_string(getpid()) + ".bin";
  while (std::getline(std::cin, line)) {
    std::istringstream is(line);
    std::string w; is >> w;
    long a = 0, b = 0; is >> a >> b;
    KT ka = (KT)a; MT vb = (MT)b;
    std::string out = "ok";
    auto cmp = [&](long cres, long rres, const char *what) { if (cres != rres) out = std::string("DIFF ") + what + ": C=" + std::to_string(cres) + " C++=" + std::to_string(rres); };
    if (w == "init") {
      if (clt) { vt_locked_table_free(clt); clt = nullptr; } rlt.reset();
      if (c) vt_free(c); delete r;
      guard(out, [&] { c = vt_init((size_t)a); });
      r = new Ref((size_t)a); r->minimum_load_factor(0); r->maximum_hashpower(libcuckoo::NO_MAXIMUM_HASHPOWER);
      if (!c) out = "DIFF init returned NULL";
      else {
        if (c->t.minimum_load_factor() != 0.0) out = "DIFF init: minimum load factor not disabled";
        if (c->t.maximum_hashpower() != libcuckoo::NO_MAXIMUM_HASHPOWER) out = "DIFF init: maximum hashpower not disabled";
      }
    } else if (!c) { out = "bad-table";
    } else if (w == "insert") { bool cr = false; if (guard(out, [&] { cr = vt_insert(c, &ka, &vb); })) cmp(cr, r->insert(ka, vb), "insert");
    } else if (w == "ioa") { bool cr = false; if (guard(out, [&] { cr = vt_insert_or_assign(c, &ka, &vb); })) cmp(cr, r->insert_or_assign(ka, vb), "insert_or_assign");
    } else if (w == "update") { bool cr = false; if (guard(out, [&] { cr = vt_update(c, &ka, &vb); })) cmp(cr, r->update(ka, vb), "update");
    } else if (w == "erase") { bool cr = false; if (guard(out, [&] { cr = vt_erase(c, &ka); })) cmp(cr, r->erase(ka), "erase");
    } else if (w == "contains") { bool cr = false; if (guard(out, [&] { cr = vt_contains(c, &ka); })) cmp(cr, r->contains(ka), "contains");
    } else if (w == "find") {
      bool cr = false; MT cv = -1, rv = -1;
      if (guard(out, [&] { cr = vt_find(c, &ka, &cv); })) { bool rr = r->find(ka, rv); cmp(cr, rr, "find"); if (out == "ok" && cr) cmp(cv, rv, "find value"); }
    } else if (w == "upsert") {
      bool cr = false;
      if (guard(out, [&] { cr = vt_upsert(c, &ka, fn_add1, &vb); })) cmp(cr, r->upsert(ka, [](MT &v) { v += 1; }, vb), "upsert");
    } else if (w == "find_fn") {
      bool cr = false; g_calls = 0; g_seen = -1;
      if (guard(out, [&] { cr = vt_find_fn(c, &ka, fn_see); })) {
        MT seen = -1; int calls = 0; bool rr = r->find_fn(ka, [&](const MT &v) { seen = v; ++calls; });
        cmp(cr, rr, "find_fn"); if (out == "ok") cmp(g_calls, calls, "find_fn calls"); if (out == "ok") cmp(g_seen, seen, "find_fn value");
      }
    } else if (w == "update_fn") {
      bool cr = false;
      if (guard(out, [&] { cr = vt_update_fn(c, &ka, fn_add1); })) cmp(cr, r->update_fn(ka, [](MT &v) { v += 1; }), "update_fn");
    } else if (w == "erase_fn") {
      bool cr = false; g_calls = 0;
      if (guard(out, [&] { cr = vt_erase_fn(c, &ka, fn_odd); })) cmp(cr, r->erase_fn(ka, [](MT &v) { return (v % 2) != 0; }), "erase_fn");
    } else if (w == "rehash") { bool cr = false; if (guard(out, [&] { cr = vt_rehash(c, (size_t)a); })) cmp(cr, r->rehash((size_t)a), "rehash");
    } else if (w == "reserve") { bool cr = false; if (guard(out, [&] { cr = vt_reserve(c, (size_t)a); })) cmp(cr, r->reserve((size_t)a), "reserve");
    } else if (w == "clear") { if (guard(out, [&] { vt_clear(c); })) r->clear();
    } else if (w == "stats") {
      size_t hp = 0, bc = 0, sz = 0, cap = 0; bool em = false; double lf = 0;
      if (guard(out, [&] { hp = vt_hashpower(c); bc = vt_bucket_count(c); sz = vt_size(c); cap = vt_capacity(c); em = vt_empty(c); lf = vt_load_factor(c); })) {
        cmp(hp, r->hashpower(), "hashpower"); if (out == "ok") cmp(bc, r->bucket_count(), "bucket_count"); if (out == "ok") cmp(sz, r->size(), "size");
        if (out == "ok") cmp(cap, r->capacity(), "capacity"); if (out == "ok") cmp(em, r->empty(), "empty");
        if (out == "ok" && lf != r->load_factor()) out = "DIFF load_factor";
      }
    } else if (w == "same") {
      if (clt) out = "bad-state"; else { Abs x = abs_of_c(c), y = abs_of(*r); if (x != y) out = "DIFF contents: C table has " + std::to_string(x.size()) + " pairs, C++ table " + std::to_string(y.size()); else out = "ok n=" + std::to_string(x.size()); }
    } else if (w == "lock") {
      guard(out, [&] { clt = vt_lock_table(c); }); rlt.reset(new Ref::locked_table(r->lock_table()));
      if (!clt) out = "DIFF lock_table returned NULL";
    } else if (w == "unlock") {
      if (clt) { guard(out, [&] { vt_locked_table_unlock(clt); if (vt_locked_table_is_active(clt)) out = "DIFF still active after unlock"; vt_locked_table_free(clt); }); clt = nullptr; } rlt.reset();
    } else if (w.rfind("lt", 0) == 0 && !clt) { out = "bad-state";
    } else if (w == "ltinsert") {
      bool cr = false; vt_iterator *it = nullptr;
      if (guard(out, [&] { it = vt_locked_table_begin(clt); cr = vt_locked_table_insert(clt, &ka, &vb, it); })) {
        auto rr = rlt->insert(ka, vb); cmp(cr, rr.second, "locked insert");
        if (out == "ok" && it) { cmp(*vt_iterator_key(it), rr.first->first, "locked insert iterator key"); if (out == "ok") cmp(*vt_iterator_mapped(it), rr.first->second, "locked insert iterator value"); }
      }
      if (it) vt_iterator_free(it);
    } else if (w == "lterase") { size_t cr = 0; if (guard(out, [&] { cr = vt_locked_table_erase(clt, &ka); })) cmp(cr, rlt->erase(ka), "locked erase");
    } else if (w == "ltfind") {
      vt_iterator *it = nullptr, *en = nullptr; bool found = false; MT fv = 0;
      if (guard(out, [&] { it = vt_locked_table_begin(clt); en = vt_locked_table_end(clt); vt_locked_table_find(clt, &ka, it); found = !vt_iterator_equal(it, en); if (found) fv = *vt_iterator_mapped(it); })) {
        auto ri = rlt->find(ka); cmp(found, ri != rlt->end(), "locked find"); if (out == "ok" && found) cmp(fv, ri->second, "locked find value");
      }
      if (it) vt_iterator_free(it); if (en) vt_iterator_free(en);
    } else if (w == "lteraseit") {
      // erase through an iterator, with it == nextit (the boxes are independent values)
      vt_iterator *it = nullptr, *en = nullptr; bool found = false; long nk = -1;
      if (guard(out, [&] { it = vt_locked_table_begin(clt); en = vt_locked_table_end(clt); vt_locked_table_find(clt, &ka, it); found = !vt_iterator_equal(it, en);
                           if (found) { vt_locked_table_erase_it(clt, it, it); nk = vt_iterator_equal(it, en) ? -1 : *vt_iterator_key(it); } })) {
        auto ri = rlt->find(ka); cmp(found, ri != rlt->end(), "locked find (erase_it)");
        if (out == "ok" && found) { auto nx = rlt->erase(ri); long rk = nx == rlt->end() ? -1 : nx->first; cmp(nk, rk, "erase_it successor"); }
      }
      if (it) vt_iterator_free(it); if (en) vt_iterator_free(en);
    } else if (w == "ltiter") {
      // forward and backward walk through the C iterators vs the C++ iterators
      std::vector<std::pair<KT, MT>> cf, cb, rf;
      vt_const_iterator *it = nullptr, *en = nullptr, *bg = nullptr;
      if (guard(out, [&] {
            it = vt_locked_table_cbegin(clt); en = vt_locked_table_cend(clt); bg = vt_locked_table_cbegin(clt);
            while (!vt_const_iterator_equal(it, en)) { cf.push_back({*vt_const_iterator_key(it), *vt_const_iterator_mapped(it)}); vt_const_iterator_increment(it); }
            vt_const_iterator_set(it, en);
            while (!vt_const_iterator_equal(it, bg)) { vt_const_iterator_decrement(it); cb.push_back({*vt_const_iterator_key(it), *vt_const_iterator_mapped(it)}); }
          })) {
        for (auto &kv : *rlt) rf.push_back({kv.first, kv.second});
        if (cf != rf) out = "DIFF forward iteration differs from the C++ table";
        else { std::vector<std::pair<KT, MT>> rb(rf.rbegin(), rf.rend()); if (cb != rb) out = "DIFF backward iteration is not the reverse of forward"; else out = "ok n=" + std::to_string(cf.size()); }
      }
      if (it) vt_const_iterator_free(it); if (en) vt_const_iterator_free(en); if (bg) vt_const_iterator_free(bg);
    } else if (w == "ltrehash") { if (guard(out, [&] { vt_locked_table_rehash(clt, (size_t)a); })) rlt->rehash((size_t)a);
    } else if (w == "ltreserve") { if (guard(out, [&] { vt_locked_table_reserve(clt, (size_t)a); })) rlt->reserve((size_t)a);
    } else if (w == "ltclear") { if (guard(out, [&] { vt_locked_table_clear(clt); })) rlt->clear();
    } else if (w == "ltstats") {
      size_t sz = 0, hp = 0; if (guard(out, [&] { sz = vt_locked_table_size(clt); hp = vt_locked_table_hashpower(clt); })) { cmp(sz, rlt->size(), "locked size"); if (out == "ok") cmp(hp, rlt->hashpower(), "locked hashpower"); }
    } else if (w == "ltwrite") {
      FILE *fp = fopen(fpath.c_str(), "wb"); bool okw = false;
      if (guard(out, [&] { okw = vt_locked_table_write(clt, fp); })) { if (!okw) out = "DIFF write failed"; }
      fclose(fp);
    } else if (w == "readback" || w == "truncate") {
      // read the file back (whole: contents must equal; every proper prefix: NULL, nothing leaked, no exception)
      FILE *fp = fopen(fpath.c_str(), "rb"); if (!fp) { out = "bad-file"; }
      else {
        fseek(fp, 0, SEEK_END); long len = ftell(fp); fclose(fp);
        std::vector<char> all(len); fp = fopen(fpath.c_str(), "rb"); if (len && fread(all.data(), 1, len, fp) != (size_t)len) out = "bad-file"; fclose(fp);
        if (w == "readback") {
          fp = fopen(fpath.c_str(), "rb"); vt *n = nullptr;
          if (guard(out, [&] { n = vt_read(fp); })) {
            if (!n) out = "DIFF read of a complete file returned NULL";
            else {
              Abs x = abs_of_c(n), y = rlt ? Abs() : abs_of(*r);
              if (rlt) for (auto &kv : *rlt) y[kv.first] = kv.second;
              if (x != y) out = "DIFF table read back differs from the table written (" + std::to_string(x.size()) + " vs " + std::to_string(y.size()) + " pairs)";
              else if (n->t.minimum_load_factor() != 0.0 || n->t.maximum_hashpower() != libcuckoo::NO_MAXIMUM_HASHPOWER) out = "DIFF table obtained from read has a minimum load factor / maximum hashpower";
              else out = "ok n=" + std::to_string(x.size());
              vt_free(n);
            }
          }
          fclose(fp);
        } else {
          std::string ppath = fpath + ".part";
          long tested = 0;
          for (long L = 0; L < len && out == "ok"; ++L) {
            FILE *pf = fopen(ppath.c_str(), "wb"); if (L) fwrite(all.data(), 1, L, pf); fclose(pf);
            pf = fopen(ppath.c_str(), "rb");
            long live0 = g_live.load(); vt *n = (vt *)1;
            if (!guard(out, [&] { n = vt_read(pf); })) { fclose(pf); break; }
            fclose(pf);
            if (n != nullptr) { out = "DIFF read of a file truncated to " + std::to_string(L) + " of " + std::to_string(len) + " bytes did not return NULL"; vt_free(n); break; }
            if (g_live.load() != live0) { out = "DIFF read of a truncated file (" + std::to_string(L) + " bytes) leaked " + std::to_string(g_live.load() - live0) + " allocation(s)"; break; }
            ++tested;
          }
          unlink(ppath.c_str());
          if (out == "ok") out = "ok prefixes=" + std::to_string(tested);
        }
      }
    } else if (w == "sweep") {
      // sweep <op> a b : fail the k-th global allocation for every reachable k; the op must report ENOMEM and change nothing
      std::string op; std::istringstream is2(line); std::string dummy; is2 >> dummy >> op >> a >> b; ka = (KT)a; vb = (MT)b;
      Abs before = clt ? Abs() : abs_of_c(c);
      size_t hp0 = vt_hashpower(c);
      long n = 0;
      for (long k = 1; k <= 300 && out == "ok"; ++k) {
        errno = 0; g_new_count = 0; g_fail_at = k; g_counting = true;
        long res = -7; void *pres = (void *)1;
        bool okg = guard(out, [&] {
          if (op == "insert") res = vt_insert(c, &ka, &vb);
          else if (op == "ioa") res = vt_insert_or_assign(c, &ka, &vb);
          else if (op == "upsert") res = vt_upsert(c, &ka, fn_add1, &vb);
          else if (op == "rehash") res = vt_rehash(c, (size_t)a);
          else if (op == "reserve") res = vt_reserve(c, (size_t)a);
          else if (op == "lock") { pres = vt_lock_table(c); if (pres) vt_locked_table_free((vt_locked_table *)pres); res = pres != nullptr; }
          else if (op == "init") { pres = vt_init((size_t)a); if (pres) vt_free((vt *)pres); res = pres != nullptr; }
          else if (op == "ltinsert" && clt) res = vt_locked_table_insert(clt, &ka, &vb, nullptr);
          else if (op == "ltrehash" && clt) { vt_locked_table_rehash(clt, (size_t)a); res = errno == ENOMEM ? 0 : 1; }
          else if (op == "ltreserve" && clt) { vt_locked_table_reserve(clt, (size_t)a); res = errno == ENOMEM ? 0 : 1; }
          else if (op == "ltbegin" && clt) { pres = vt_locked_table_begin(clt); if (pres) vt_iterator_free((vt_iterator *)pres); res = pres != nullptr; }
          else res = -9;
        });
        g_counting = false; bool fired = g_new_count >= k; g_fail_at = 0;
        if (!okg) break;
        if (res == -9) { out = "bad-op"; break; }
        if (!fired) { n = k - 1; break; }
        if (errno != ENOMEM) { out = "DIFF k=" + std::to_string(k) + " allocation failure not reported through errno==ENOMEM (errno=" + std::to_string(errno) + ")"; break; }
        if (res != 0) { out = "DIFF k=" + std::to_string(k) + " allocation failure not reported through the return value"; break; }
        if ((op == "rehash" || op == "reserve" || op == "ltrehash" || op == "ltreserve") && vt_hashpower(c) != hp0) { out = "DIFF k=" + std::to_string(k) + " failed " + op + " changed the hashpower"; break; }
        if (!clt) { Abs now = abs_of_c(c); if (now != before) { out = "DIFF k=" + std::to_string(k) + " table contents changed by the failed call"; break; } }
      }
      if (out == "ok") {
        // the op has now completed once without fault: mirror it on the reference
        if (op == "insert") r->insert(ka, vb); else if (op == "ioa") r->insert_or_assign(ka, vb); else if (op == "upsert") r->upsert(ka, [](MT &v) { v += 1; }, vb);
        else if (op == "rehash") r->rehash((size_t)a); else if (op == "reserve") r->reserve((size_t)a);
        else if (op == "ltinsert") rlt->insert(ka, vb); else if (op == "ltrehash") rlt->rehash((size_t)a); else if (op == "ltreserve") rlt->reserve((size_t)a);
        out = "swept n=" + std::to_string(n);
      }
    } else if (w == "race") {
      // Each C entry point must be ONE operation of the table it wraps, also when two threads call it at once: `a` rounds
      // of two threads released together on (i) upsert of the same absent key (exactly one inserts, the other applies
      // the functor: the value ends at b+1), (ii) insert of the same absent key (exactly one succeeds), (iii) update_fn on a
      // present key (both increments applied).  Free-running threads on a table of its own (the lock-stepped pair keeps
      // its layout); a probe, not an exploration.
      vt *tc = nullptr;
      guard(out, [&] { tc = vt_init(4); });
      if (!tc) { if (out == "ok") out = "DIFF init returned NULL"; }
      else {
        long bad = 0; std::string first;
        for (long i = 0; i < a && bad == 0; ++i) {
          KT k1 = (KT)(2 * i), k2 = (KT)(2 * i + 1); MT v0 = (MT)b;
          std::atomic<int> go{0};
          bool r1[2] = {false, false}, r2[2] = {false, false}, r3[2] = {false, false};
          auto worker = [&](int me) {
            ++go; while (go.load() < 2) {}
            MT v = v0; KT ka1 = k1, ka2 = k2;
            r1[me] = vt_upsert(tc, &ka1, fn_add1, &v);
            r2[me] = vt_insert(tc, &ka2, &v);
            r3[me] = vt_update_fn(tc, &ka2, fn_add1);
          };
          std::thread t0(worker, 0), t1(worker, 1);
          t0.join(); t1.join();
          MT got1 = 0, got2 = 0; KT ka1 = k1, ka2 = k2;
          bool f1 = vt_find(tc, &ka1, &got1), f2 = vt_find(tc, &ka2, &got2);
          if (!(r1[0] != r1[1]) || !f1 || got1 != (MT)(v0 + 1)) { ++bad; first = "two concurrent upserts of one absent key: returns " + std::to_string(r1[0]) + "," + std::to_string(r1[1]) + " value " + std::to_string((long)got1) + " (one must insert " + std::to_string((long)v0) + ", the other add 1)"; }
          else if (!(r2[0] != r2[1])) { ++bad; first = "two concurrent inserts of one absent key: returns " + std::to_string(r2[0]) + "," + std::to_string(r2[1]); }
          else if (!r3[0] || !r3[1] || !f2 || got2 != (MT)(v0 + 2)) { ++bad; first = "two concurrent update_fn on one key: value " + std::to_string((long)got2) + " instead of " + std::to_string((long)(v0 + 2)); }
        }
        if (vt_size(tc) != (size_t)(2 * a) && !bad) { ++bad; first = "size() " + std::to_string(vt_size(tc)) + " after " + std::to_string(2 * a) + " distinct keys"; }
        vt_free(tc);
        if (bad) out = "DIFF race: " + first;
      }
    } else if (w == "free") {
      if (clt) { vt_locked_table_free(clt); clt = nullptr; } rlt.reset();
      vt_free(c); c = nullptr; delete r; r = nullptr;
    } else out = "bad-op";
    fputs(out.c_str(), stdout); fputc('\n', stdout);
  }
  unlink(fpath.c_str());
  return 0;
}
