// K3: concurrent executions of the real table under a deterministic (baton-passing) scheduler.
// Every synchronisation event reported by the LIBCUCKOO_VERIF hooks is a scheduling point.
// Oracles per execution: linearizability against a sequential map, final contents + structural scan,
// lockset monitor (bucket accesses under the right stripe of the current lock array), protocol rules
// (validation after the first lock, ascending lock order, counter bump discipline), deadlock and
// step budget, lock leak probe.
// Build: g++ -DNDEBUG -DLIBCUCKOO_VERIF -DLIBCUCKOO_VERIF_MAX_NUM_LOCKS=<M> -DVH_S=<S> -DVH_KIND=0 ...
//
// stdin: a program (see parse_program), then "run ..." lines.  stdout: one JSON line per "run".
#include "access.hh"

#include <condition_variable>
#include <unistd.h>
#include <iostream>
#include <map>
#include <mutex>
#include <set>
#include <sstream>
#include <thread>

namespace vh {
int g_hash_mode = 0;
std::atomic<long> AllocCtl::live_bytes{0};
std::atomic<long> AllocCtl::n_allocs{0};
std::atomic<long> AllocCtl::fail_at{0};
std::atomic<size_t> AllocCtl::max_elems{~size_t(0)};
} // namespace vh
using namespace vh;
using namespace libcuckoo::verif;

#ifndef VH_S
#define VH_S 4
#endif
using Tbl = libcuckoo::cuckoohash_map<uint64_t, uint64_t, VHash, std::equal_to<uint64_t>,
                                      VAlloc<std::pair<const uint64_t, uint64_t>>, VH_S>;
using LT = Tbl::locked_table;

// ------------------------------------------------------------------ programs
struct Op {
  std::string kind; // find insert ioa update erase upsert updatefn erasefn rehash reserve clear section
  uint64_t a = 0, b = 0;
  std::vector<Op> body; // for section: ltinsert lterase ltfind ltrehash ltreserve ltclear ltsize
};
struct OpResult {
  int inv = -1, resp = -1; // event indices
  std::string res;         // canonical result
};
static std::vector<std::vector<Op>> g_prog;
static std::vector<std::pair<uint64_t, uint64_t>> g_prefill;
static size_t g_init_n = 4;
static double g_mlf = 0.0;

// ------------------------------------------------------------------ scheduler
static const int MAXT = 6;
struct Ev { int tid, kind; int a, b; uint64_t v; }; // a,b = canonical address (gen,idx) or (-1,-1)

struct Sched {
  std::mutex mu;
  std::condition_variable cv[MAXT];
  int n = 0, cur = -1;
  enum St { RUN, BLOCKED, DONE };
  St st[MAXT];
  const void *blocked_on[MAXT];
  std::vector<Ev> trace;
  std::vector<int> choices;       // thread chosen at each scheduling decision (for replay)
  std::vector<int> forced;        // replayed choices
  size_t forced_pos = 0;
  std::set<long> preempt_at;      // decision indices at which to preempt
  long decisions = 0;
  uint64_t rng = 1;
  int mode = 0;                   // 0 = non-preemptive + preempt_at, 1 = random at every point
  bool deadlock = false, budget = false;
  // step budget (livelock detector).  One insertion may legitimately search 2*(S^5-1)/(S-1) buckets (BFS, depth 5), each
  // with ~6 synchronisation events: ~5*10^4 events for S=8.  The budget therefore grows with the slots per bucket.
  long max_events = VH_S > 4 ? 60000L * 32 : 60000;
  uint64_t next() { rng ^= rng << 13; rng ^= rng >> 7; rng ^= rng << 17; return rng; }
} S;

static thread_local int my_tid = -1;
static Tbl *g_tbl = nullptr;
static const void *g_hp_addr = nullptr, *g_rc_addr = nullptr, *g_oldhp_addr = nullptr, *g_lazy_addr = nullptr;

// lockset bookkeeping (all under S.mu since only the baton holder runs)
static std::set<std::pair<int, int>> held[MAXT]; // (gen, idx)
static bool in_lockall[MAXT], lockall_done[MAXT];
static std::vector<std::string> g_viol;           // protocol / lockset violations of this execution
static int first_lock_pending_validation[MAXT];   // 1 = first lock of an episode taken, RC_LOAD expected next
static bool stored_hp_unbumped[MAXT];
static long last_dec_old[MAXT];                   // value of the lazy counter seen by this thread's last decrement (-1: none)
static int pending_append_gens[MAXT];
static long pending_append_ev[MAXT];            // >0: all_locks_.size() seen when this thread announced an append

static std::pair<int, int> canon_lock(const void *addr) {
  auto &gens = Access::all_locks(*g_tbl);
  int g = 0;
  for (auto it = gens.begin(); it != gens.end(); ++it, ++g) {
    if (it->empty()) continue;
    const char *lo = (const char *)&(*it)[0], *hi = (const char *)(&(*it)[0] + it->size());
    if ((const char *)addr >= lo && (const char *)addr < hi)
      return {g, (int)(((const char *)addr - lo) / sizeof((*it)[0]))};
  }
  return {-1, -1};
}
static int cur_gen() { return (int)Access::all_locks(*g_tbl).size() - 1; }

static void viol(const std::string &s) { if (g_viol.size() < 8) g_viol.push_back(s); }

static int pick_next(int me, bool me_runnable) {
  // called with S.mu held
  std::vector<int> r;
  for (int t = 0; t < S.n; ++t) if (S.st[t] == Sched::RUN && (t != me || me_runnable)) r.push_back(t);
  if (r.empty()) return -1;
  int c;
  if (S.forced_pos < S.forced.size()) {
    c = S.forced[S.forced_pos++];
    bool okc = false; for (int t : r) okc |= t == c;
    if (!okc) c = r[0];
  } else if (S.mode == 1) {
    c = r[S.next() % r.size()];
  } else {
    bool pre = S.preempt_at.count(S.decisions) > 0;
    if (me_runnable && !pre) c = me;
    else {
      std::vector<int> o; for (int t : r) if (t != me) o.push_back(t);
      c = o.empty() ? me : o[S.next() % o.size()];
    }
  }
  S.decisions++;
  S.choices.push_back(c);
  return c;
}

static void switch_to(std::unique_lock<std::mutex> &lk, int me, int nxt) {
  if (nxt == me) return;
  S.cur = nxt;
  S.cv[nxt].notify_one();
  S.cv[me].wait(lk, [&] { return S.cur == me; });
}

static void sched_point(int me) {
  std::unique_lock<std::mutex> lk(S.mu);
  if ((long)S.trace.size() > S.max_events) {
    // a call that keeps synchronising without ever returning: livelock / endless retry. Unrecoverable: report from here.
    std::string hist;
    printf("{\"budget\":true,\"runs\":1,\"bad\":1,\"bad_observable\":1,\"events\":%zu,\"why\":\"step budget exceeded: T%d is still inside a call after %zu synchronisation events (livelock / endless retry)\",\"history\":\"\",\"choices\":\"\"}\n",
           S.trace.size(), me, S.trace.size());
    fflush(stdout);
    _exit(4);
  }
  int nxt = pick_next(me, true);
  switch_to(lk, me, nxt);
}

static thread_local bool in_handler = false;
struct HandlerGuard { HandlerGuard() { in_handler = true; } ~HandlerGuard() { in_handler = false; } };

static void handler(int kind, const void *addr, std::size_t value) {
  int me = my_tid;
  if (me < 0 || in_handler) return;
  HandlerGuard hguard;
  std::pair<int, int> ca{-1, -1};
  bool main_obj = true;
  switch (kind) {
  case EV_LOCK_REQ: case EV_LOCK_SPIN: case EV_LOCK_ACQ: case EV_UNLOCK:
    ca = canon_lock(addr);
    main_obj = ca.first >= 0;
    break;
  case EV_HP_LOAD: case EV_HP_STORE:
    main_obj = addr == g_hp_addr || addr == g_oldhp_addr;
    ca = {addr == g_hp_addr ? 0 : 1, 0};
    break;
  case EV_RC_LOAD: case EV_RC_BUMP:
    main_obj = addr == g_rc_addr;
    break;
  case EV_BUCKET_ACCESS: case EV_FUNCTOR: case EV_BUCKETS_REPLACE:
    main_obj = addr == (const void *)&Access::buckets(*g_tbl) || addr == (const void *)&Access::old_buckets(*g_tbl);
    ca = {addr == (const void *)&Access::buckets(*g_tbl) ? 0 : 1, 0};
    break;
  case EV_LOCK_META: case EV_LOCKALL_BEGIN: case EV_LOCKALL_END:
    main_obj = addr == (const void *)g_tbl;
    break;
  case EV_LOCKS_CURRENT: case EV_LOCKS_APPEND:
    main_obj = addr == (const void *)&Access::all_locks(*g_tbl);
    break;
  case EV_BUCKETS_FREE:
    main_obj = addr == (const void *)&Access::old_buckets(*g_tbl) || addr == (const void *)&Access::buckets(*g_tbl);
    ca = {addr == (const void *)&Access::buckets(*g_tbl) ? 0 : 1, 0};
    break;
  case EV_LAZY_LOAD: case EV_LAZY_STORE: case EV_LAZY_DEC:
    main_obj = addr == g_lazy_addr;
    break;
  case EV_RUN_CUCKOO_HP: case EV_RUN_CUCKOO_RC: case EV_PATH_DEPTH: case EV_PATH_HOP: case EV_PATH_HASH: case EV_DOUBLE_REQ:
    main_obj = addr == (const void *)g_tbl;
    break;
  default: break;
  }
  if (!main_obj) {
    // events of the private temporary map of a rebuild: no scheduling, not recorded
    return;
  }
  // A hook announces an operation that has not happened yet.  Yield first, and record the event only when this
  // thread is resumed, i.e. immediately before it performs the operation: the trace order is the execution order.
  // (no switch at EV_UNLOCK: a woken waiter runs at the releasing thread's next point)
  switch (kind) {
  case EV_LOCK_REQ: case EV_HP_LOAD: case EV_HP_STORE: case EV_RC_LOAD: case EV_RC_BUMP:
  case EV_LOCKS_CURRENT: case EV_LOCKS_APPEND: case EV_LAZY_LOAD: case EV_LAZY_STORE: case EV_LAZY_DEC:
    sched_point(me);
    if (kind == EV_LOCK_REQ || kind == EV_LOCK_SPIN || kind == EV_LOCK_ACQ || kind == EV_UNLOCK) ca = canon_lock(addr);
    break;
  default: break;
  }
  {
    std::lock_guard<std::mutex> lk(S.mu);
    if (pending_append_gens[me] > 0 && (int)Access::all_locks(*g_tbl).size() > pending_append_gens[me]) {
      // the array this thread appended is born locked by it (its locks were taken before it became visible)
      int g = cur_gen();
      for (size_t i = 0; i < std::prev(Access::all_locks(*g_tbl).end())->size(); ++i) held[me].insert({g, (int)i});
      if (pending_append_ev[me] >= 0) S.trace[pending_append_ev[me]].v = std::prev(Access::all_locks(*g_tbl).end())->size();
      pending_append_gens[me] = 0;
      if (kind == EV_LOCK_REQ || kind == EV_LOCK_ACQ || kind == EV_UNLOCK || kind == EV_LOCK_SPIN) ca = canon_lock(addr);
    }
    if (kind == EV_LOCKS_APPEND) { pending_append_gens[me] = (int)Access::all_locks(*g_tbl).size(); pending_append_ev[me] = (long)S.trace.size(); }
    S.trace.push_back(Ev{me, kind, ca.first, ca.second, (uint64_t)value});
    // ---- monitors ----
    switch (kind) {
    case EV_LOCK_ACQ: {
      if (!in_lockall[me]) {
        for (auto &h : held[me])
          if (!(h < ca)) viol("lock order: T" + std::to_string(me) + " takes (" + std::to_string(ca.first) + "," + std::to_string(ca.second) +
                              ") while holding (" + std::to_string(h.first) + "," + std::to_string(h.second) + ")");
        if (held[me].empty()) first_lock_pending_validation[me] = 1;
        if (ca.first != cur_gen()) { /* stale array: must be detected by the validation that follows */ }
      }
      held[me].insert(ca);
      break;
    }
    case EV_UNLOCK:
      if (!held[me].count(ca)) viol("unlock of a lock not held by T" + std::to_string(me));
      if (stored_hp_unbumped[me]) viol("a lock is released after the table was resized but before the resize counter was advanced");
      held[me].erase(ca);
      if (held[me].empty()) { lockall_done[me] = false; }
      break;
    case EV_RC_LOAD:
      if (first_lock_pending_validation[me] == 1) first_lock_pending_validation[me] = 0;
      break;
    case EV_LOCKALL_BEGIN: in_lockall[me] = true; break;
    case EV_LOCKALL_END: in_lockall[me] = false; lockall_done[me] = true; break;
    case EV_BUCKET_ACCESS: case EV_FUNCTOR: case EV_LOCK_META: {
      if (kind != EV_LOCK_META && ca.first == 1) {
        // old array: accessed only by the holder of the stripe (migration) or of all locks
      }
      size_t b = value;
      size_t li = kind == EV_LOCK_META ? b : Access::lock_ind<Tbl>(b);
      bool ok = lockall_done[me] || held[me].count({cur_gen(), (int)li}) > 0;
      if (!ok) viol(std::string(kind == EV_FUNCTOR ? "functor runs" : kind == EV_LOCK_META ? "stripe metadata accessed" : "bucket accessed") +
                    " by T" + std::to_string(me) + " without holding stripe " + std::to_string(li) + " of the current lock array");
      if (first_lock_pending_validation[me] == 1 && !lockall_done[me])
        viol("bucket access before the resize counter was re-validated after the first lock");
      break;
    }
    case EV_HP_STORE: case EV_BUCKETS_REPLACE: case EV_LOCKS_APPEND: {
      bool all = lockall_done[me];
      if (kind == EV_HP_STORE && ca.first != 0) break; // old array's hashpower
      if (!all) {
        // inside an active locked_table the owner holds everything although lock_all ended long ago
        auto &gens = Access::all_locks(*g_tbl);
        size_t need = std::prev(gens.end())->size(), have = 0;
        for (auto &h : held[me]) if (h.first == cur_gen()) ++have;
        all = have == need;
      }
      if (!all) viol("table resized (hashpower / bucket array / lock array) without holding every lock of the current array");
      if (kind != EV_LOCKS_APPEND) stored_hp_unbumped[me] = true;
      break;
    }
    case EV_RC_BUMP: stored_hp_unbumped[me] = false; break;
    case EV_LAZY_DEC: last_dec_old[me] = (long)Access::rem(*g_tbl); break;
    case EV_BUCKETS_FREE:
      if (ca.first == 1) {
        // the superseded array may be released only by the thread whose decrement took the pending count from 1 to 0,
        // or by a thread that owns the table (batch migration, clear, resize, destruction of a temporary)
        bool owner = lockall_done[me];
        if (!owner) {
          auto &gens = Access::all_locks(*g_tbl);
          size_t need = std::prev(gens.end())->size(), have = 0;
          for (auto &h : held[me]) if (h.first == cur_gen()) ++have;
          owner = have == need;
        }
        if (!owner && last_dec_old[me] != 1)
          viol("the old bucket array is released by T" + std::to_string(me) + " whose decrement did not take the pending-stripe count from 1 to 0 (it saw " + std::to_string(last_dec_old[me]) + "): double release possible");
        if (!owner && value == 0 && Access::rem(*g_tbl) != 0)
          viol("the old bucket array is released while stripes are still pending migration");
      }
      break;
    default: break;
    }
    if (kind == EV_UNLOCK) {
      for (int t = 0; t < S.n; ++t)
        if (S.st[t] == Sched::BLOCKED && S.blocked_on[t] == addr) S.st[t] = Sched::RUN;
    }
  }
  switch (kind) {
  case EV_LOCK_SPIN: {
    std::unique_lock<std::mutex> lk(S.mu);
    // the lock may have been released between the failed attempt and now only by us yielding; it was not.
    S.st[me] = Sched::BLOCKED;
    S.blocked_on[me] = addr;
    int nxt = pick_next(me, false);
    if (nxt < 0) {
      S.deadlock = true;
      // unrecoverable: report from here
      std::string tr;
      printf("{\"deadlock\":true,\"note\":\"no runnable thread; T%d spins on a lock\"}\n", me);
      fflush(stdout);
      _exit(3);
    }
    switch_to(lk, me, nxt);
    break;
  }
  default: break;
  }
}

// ------------------------------------------------------------------ thread bodies
static std::vector<std::vector<OpResult>> g_res;
static std::string g_init_line;

static std::stringstream g_saved;
static std::string run_lt(LT &lt, const Op &o) {
  if (o.kind == "ltinsert") { auto r = lt.insert(o.a, o.b); return r.second ? "1" : "0"; }
  if (o.kind == "lterase") return std::to_string(lt.erase(o.a));
  if (o.kind == "ltfind") { auto it = lt.find(o.a); return it == lt.end() ? "-" : std::to_string(it->second); }
  if (o.kind == "ltrehash") { lt.rehash(o.a); return "ok"; }
  if (o.kind == "ltreserve") { lt.reserve(o.a); return "ok"; }
  if (o.kind == "ltclear") { lt.clear(); return "ok"; }
  if (o.kind == "ltsize") return std::to_string(lt.size());
  if (o.kind == "ltsave") { g_saved.str(""); g_saved.clear(); g_saved << lt; return "ok"; }
  if (o.kind == "ltload") { g_saved.seekg(0); g_saved >> lt; return "ok"; }
  if (o.kind == "ltstream") {
    // extract the table's own image into itself through a stream (replaces the bucket array)
    std::stringstream ss; ss << lt; ss >> lt; return "ok";
  }
  return "?";
}

static std::string run_op(Tbl &t, const Op &o) {
  try {
    if (o.kind == "find") { uint64_t v; return t.find(o.a, v) ? std::to_string(v) : "-"; }
    if (o.kind == "insert") return t.insert(o.a, o.b) ? "1" : "0";
    if (o.kind == "ioa") return t.insert_or_assign(o.a, o.b) ? "1" : "0";
    if (o.kind == "update") return t.update(o.a, o.b) ? "1" : "0";
    if (o.kind == "erase") return t.erase(o.a) ? "1" : "0";
    if (o.kind == "upsert") return t.upsert(o.a, [&](uint64_t &v) { v += o.b; }, o.b) ? "1" : "0";
    if (o.kind == "updatefn") return t.update_fn(o.a, [&](uint64_t &v) { v += o.b; }) ? "1" : "0";
    if (o.kind == "erasefn") return t.erase_fn(o.a, [&](uint64_t &v) { return v == o.b; }) ? "1" : "0";
    if (o.kind == "rehash") return t.rehash(o.a) ? "1" : "0";
    if (o.kind == "reserve") return t.reserve(o.a) ? "1" : "0";
    if (o.kind == "clear") { t.clear(); return "ok"; }
    if (o.kind == "section") {
      std::string r;
      LT lt = t.lock_table();
      for (auto &x : o.body) r += run_lt(lt, x) + ",";
      lt.unlock();
      return r;
    }
  } catch (libcuckoo::load_factor_too_low &) { return "E:lftl";
  } catch (libcuckoo::maximum_hashpower_exceeded &) { return "E:maxhp";
  } catch (std::bad_alloc &) { return "E:badalloc"; }
  return "?";
}

static void thread_main(int tid) {
  my_tid = tid;
  {
    std::unique_lock<std::mutex> lk(S.mu);
    S.cv[tid].wait(lk, [&] { return S.cur == tid; });
  }
  for (size_t i = 0; i < g_prog[tid].size(); ++i) {
    sched_point(tid); // a context switch is possible before each call
    { std::lock_guard<std::mutex> lk(S.mu); g_res[tid][i].inv = (int)S.trace.size(); S.trace.push_back(Ev{tid, 100, (int)i, 0, 0}); }
    std::string r = run_op(*g_tbl, g_prog[tid][i]);
    { std::lock_guard<std::mutex> lk(S.mu);
      if (!held[tid].empty()) viol("T" + std::to_string(tid) + " returns from " + g_prog[tid][i].kind + " holding a lock");
      g_res[tid][i].resp = (int)S.trace.size(); S.trace.push_back(Ev{tid, 101, (int)i, 0, 0}); g_res[tid][i].res = r; }
  }
  std::unique_lock<std::mutex> lk(S.mu);
  S.st[tid] = Sched::DONE;
  int nxt = pick_next(tid, false);
  if (nxt >= 0) { S.cur = nxt; S.cv[nxt].notify_one(); }
  else { S.cur = -2; S.cv[MAXT - 1].notify_all(); }
  my_tid = -1;
}

// ------------------------------------------------------------------ linearizability (Wing-Gong style search)
struct LinOp { int tid, idx, inv, resp; const Op *op; std::string res; };
using Map = std::map<uint64_t, uint64_t>;

static bool apply_spec(Map &m, const Op &o, const std::string &res) {
  auto has = [&](uint64_t k) { return m.count(k) > 0; };
  if (res.rfind("E:", 0) == 0) return true; // a failed expansion leaves the map unchanged
  if (o.kind == "find") return res == (has(o.a) ? std::to_string(m[o.a]) : "-");
  if (o.kind == "insert") { bool p = has(o.a); if (!p) m[o.a] = o.b; return res == (p ? "0" : "1"); }
  if (o.kind == "ioa") { bool p = has(o.a); m[o.a] = o.b; return res == (p ? "0" : "1"); }
  if (o.kind == "update") { bool p = has(o.a); if (p) m[o.a] = o.b; return res == (p ? "1" : "0"); }
  if (o.kind == "erase") { bool p = has(o.a); m.erase(o.a); return res == (p ? "1" : "0"); }
  if (o.kind == "upsert") { bool p = has(o.a); if (p) m[o.a] += o.b; else m[o.a] = o.b; return res == (p ? "0" : "1"); }
  if (o.kind == "updatefn") { bool p = has(o.a); if (p) m[o.a] += o.b; return res == (p ? "1" : "0"); }
  if (o.kind == "erasefn") { bool p = has(o.a); if (p && m[o.a] == o.b) m.erase(o.a); return res == (p ? "1" : "0"); }
  if (o.kind == "rehash" || o.kind == "reserve") return true;
  if (o.kind == "clear") { m.clear(); return true; }
  if (o.kind == "section") {
    std::string want;
    for (auto &x : o.body) {
      if (x.kind == "ltinsert") { bool p = has(x.a); if (!p) m[x.a] = x.b; want += p ? "0," : "1,"; }
      else if (x.kind == "lterase") { bool p = has(x.a); m.erase(x.a); want += p ? "1," : "0,"; }
      else if (x.kind == "ltfind") want += (has(x.a) ? std::to_string(m[x.a]) : "-") + ",";
      else if (x.kind == "ltclear") { m.clear(); want += "ok,"; }
      else if (x.kind == "ltsize") want += std::to_string(m.size()) + ",";
      else want += "ok,";
    }
    return res == want;
  }
  return false;
}

static bool lin_search(std::vector<LinOp> &ops, std::vector<char> &done, Map &m, const Map &final_map, size_t ndone) {
  if (ndone == ops.size()) return m == final_map;
  // minimal response among pending ops bounds which ops may go next
  int min_resp = 1 << 30;
  for (size_t i = 0; i < ops.size(); ++i) if (!done[i]) min_resp = std::min(min_resp, ops[i].resp);
  for (size_t i = 0; i < ops.size(); ++i) {
    if (done[i] || ops[i].inv > min_resp) continue;
    Map save = m;
    if (apply_spec(m, *ops[i].op, ops[i].res)) {
      done[i] = 1;
      if (lin_search(ops, done, m, final_map, ndone + 1)) return true;
      done[i] = 0;
    }
    m = save;
  }
  return false;
}

// ------------------------------------------------------------------ K3(ii): the execution as a schedule of critical sections
// Cuts the recorded trace into lock-holds, orders them by their commit points (first release) and names for each hold the
// section of lean/Cuckoo/Model/Conc.lean it is an execution of.  One request per line, `request<TAB>expected answer`
// (`*` = not compared); the last request is the full-state digest of the real table.  Empty string: this execution is
// not replayed (it contains something the replay does not cover, e.g. stream extraction inside a locked section).
static std::string g_sec_unsupported;
static bool g_want_sections = false;
static std::string sections_text(Tbl &tbl) {
  struct Hold { int tid = 0, first_rel = -1, opidx = -1; bool in_all = false, access = false, fresh_snapshot = false;
                std::vector<int> stripes; long depth = -1; uint64_t hop = 0, hash = 0, dbl = 0, snap_hp = 0, snap_rc = 0; bool has_dbl = false; };
  struct TS { std::set<std::pair<int,int>> held; Hold cur; bool active = false, in_all = false, hp_loaded = true; int opidx = -1;
              uint64_t snap_hp = 0, snap_rc = 0, dbl = 0; bool has_dbl = false; };
  std::vector<TS> ts(MAXT);
  std::vector<Hold> holds;
  for (int i = 0; i < (int)S.trace.size(); ++i) {
    auto &e = S.trace[i];
    if (e.tid < 0 || e.tid >= MAXT) continue;
    TS &t = ts[e.tid];
    switch (e.kind) {
    case 100: t.opidx = e.a; t.hp_loaded = true; t.has_dbl = false; break;
    case EV_HP_LOAD: if (e.a == 0 && !t.active) t.hp_loaded = true; break;
    case EV_LOCKALL_BEGIN: t.in_all = true; break;
    case EV_LOCKALL_END: t.in_all = false; break;
    case EV_RUN_CUCKOO_HP: t.snap_hp = e.v; break;
    case EV_RUN_CUCKOO_RC: t.snap_rc = e.v; break;
    case EV_DOUBLE_REQ: t.dbl = e.v; t.has_dbl = true; break;
    case EV_LOCK_ACQ:
      if (!t.active) {
        t.active = true; t.cur = Hold(); t.cur.tid = e.tid; t.cur.opidx = t.opidx; t.cur.in_all = t.in_all;
        t.cur.fresh_snapshot = t.hp_loaded; t.hp_loaded = false;
        t.cur.dbl = t.dbl; t.cur.has_dbl = t.has_dbl; t.held.clear();
      }
      t.held.insert({e.a, e.b}); t.cur.stripes.push_back(e.b);
      break;
    case EV_UNLOCK:
      if (t.active) {
        if (t.cur.first_rel < 0) t.cur.first_rel = i;
        t.held.erase({e.a, e.b});
        if (t.held.empty()) { t.cur.snap_hp = t.snap_hp; t.cur.snap_rc = t.snap_rc; holds.push_back(t.cur); t.active = false; }
      }
      break;
    case EV_BUCKET_ACCESS: case EV_FUNCTOR: case EV_LOCK_META: case EV_BUCKETS_REPLACE: case EV_HP_STORE:
      if (t.active) t.cur.access = true; break;
    case EV_PATH_DEPTH: if (t.active) t.cur.depth = (long)e.v; break;
    case EV_PATH_HOP: if (t.active) t.cur.hop = e.v; break;
    case EV_PATH_HASH: if (t.active) t.cur.hash = e.v; break;
    default: break;
    }
  }
  for (auto &t : ts) if (t.active) return "";   // a hold that never ended (deadlock): nothing to replay
  std::stable_sort(holds.begin(), holds.end(), [](const Hold &a, const Hold &b) { return a.first_rel < b.first_rel; });
  std::string out;
  char buf[256];
  uint64_t mb; memcpy(&mb, &g_mlf, 8);
  snprintf(buf, sizeof buf, "m cfg %d %d 1 1 40 %d 1\t*\nm new 0 %zu\t*\nm setmlf 0 %llu\t*\n", (int)VH_S, (int)LIBCUCKOO_VERIF_MAX_NUM_LOCKS, g_hash_mode, g_init_n, (unsigned long long)mb);
  out += buf;
  for (auto &kv : g_prefill) out += "m insert 0 " + std::to_string(kv.first) + " " + std::to_string(kv.second) + "\t*\n";
  auto lookup_kind = [](const std::string &k) { return k == "find" || k == "update" || k == "erase" || k == "updatefn" || k == "erasefn"; };
  auto insert_kind = [](const std::string &k) { return k == "insert" || k == "ioa" || k == "upsert"; };
  std::map<std::pair<int,int>, int> last_hold;   // (thread, call) -> first_rel of its last effective hold
  for (auto &h : holds) if (h.access || h.in_all) last_hold[{h.tid, h.opidx}] = h.first_rel;
  for (auto &h : holds) {
    if (!h.access && !h.in_all) continue;    // e.g. a first lock whose validation failed: released without touching anything
    if (h.opidx < 0 || h.opidx >= (int)g_prog[h.tid].size()) return "";
    const Op &o = g_prog[h.tid][h.opidx];
    const std::string res = g_res[h.tid][h.opidx].res;
    const std::string fin = last_hold[{h.tid, h.opidx}] == h.first_rel ? res : std::string("none");   // what this hold's section must answer
    std::string ab = std::to_string(o.a) + " " + std::to_string(o.b);
    if (h.in_all) {
      if (o.kind == "section") {
        out += "m lock 0\t*\n";
        for (auto &x : o.body) {
          if (x.kind == "ltinsert") out += "m ltinsert 0 " + std::to_string(x.a) + " " + std::to_string(x.b) + "\t*\n";
          else if (x.kind == "lterase") out += "m lterase 0 " + std::to_string(x.a) + "\t*\n";
          else if (x.kind == "ltfind") out += "m ltfind 0 " + std::to_string(x.a) + "\t*\n";
          else if (x.kind == "ltrehash") out += "m rehash 0 " + std::to_string(x.a) + "\t*\n";
          else if (x.kind == "ltreserve") out += "m reserve 0 " + std::to_string(x.a) + "\t*\n";
          else if (x.kind == "ltclear") out += "m clear 0\t*\n";
          else if (x.kind == "ltsize") out += "m stats 0\t*\n";
          else if (x.kind == "ltsave") out += "m write 0\t*\n";                        // os << lt  (the image is kept in wire 0)
          else if (x.kind == "ltload") out += "m read 0 0\t*\n";                       // is >> lt
          else if (x.kind == "ltstream") out += "m write 0\t*\nm read 0 0\t*\n";       // the table's own image extracted into itself
          else { g_sec_unsupported = x.kind; return ""; }
        }
        out += "m unlock 0\t*\n";
      } else if (o.kind == "rehash") out += "m sec expand " + std::to_string(o.a) + "\tunit\n";   // the pre-check n == hashpower() is an unlocked read
      else if (o.kind == "reserve") {
        size_t want = 0; while ((size_t(1) << want) * Tbl::slot_per_bucket() < o.a) ++want;
        out += "m sec expand " + std::to_string(want) + "\tunit\n";
      }
      else if (o.kind == "clear") out += "m sec clear\tunit\n";
      else if (insert_kind(o.kind) && h.has_dbl) out += "m sec double " + std::to_string(h.dbl) + "\t" + (res.rfind("E:", 0) == 0 ? res : std::string("none")) + "\n";
      else return "";
      continue;
    }
    if (h.depth >= 0) {
      if (!insert_kind(o.kind)) return "";
      uint64_t fb = h.hop >> 40, fs = (h.hop >> 32) & 0xff, tb = (h.hop >> 8) & 0xffffff, tsl = h.hop & 0xff;
      std::string snap = std::to_string(h.snap_hp) + " " + std::to_string(h.snap_rc);
      if (h.depth == 0)
        out += "m sec last " + o.kind + " " + ab + " " + snap + " " + std::to_string(fb) + " " + std::to_string(fs) + " 0\t" + fin + "\n";
      else if (h.depth == 1)
        out += "m sec last " + o.kind + " " + ab + " " + snap + " " + std::to_string(fb) + " " + std::to_string(fs) + " " + std::to_string(h.hash) + " " +
               std::to_string(tb) + " " + std::to_string(tsl) + "\t" + fin + "\n";
      else
        out += "m sec hop " + snap + " " + std::to_string(fb) + " " + std::to_string(fs) + " " + std::to_string(h.hash) + " " + std::to_string(tb) + " " + std::to_string(tsl) + "\tnone\n";
      continue;
    }
    if (lookup_kind(o.kind)) { out += "m sec lookup " + o.kind + " " + ab + "\t" + res + "\n"; continue; }
    if (insert_kind(o.kind)) {
      if (h.fresh_snapshot) out += "m sec instry " + o.kind + " " + ab + "\t" + fin + "\n";
      else {
        out += "m sec lock";
        std::set<int> seen;
        for (int st : h.stripes) if (seen.insert(st).second) out += " " + std::to_string(st);
        out += "\tnone\n";
      }
      continue;
    }
    return "";
  }
  // the oracles of execute() took lock_table() once for the final scan (pending migration finished, old array released)
  out += "m lock 0\t*\nm unlock 0\t*\n";
  out += "m digest 0\t" + digest(tbl) + "\n";
  return out;
}

// ------------------------------------------------------------------ one execution
struct ExecOut { bool ok = true; std::string why; std::vector<int> choices; size_t events = 0; std::string history;
                 std::string lin; bool lin_accepted = false; std::string sections; };

static const char *evname(int k) {
  switch (k) {
  case EV_LOCK_REQ: return "req"; case EV_LOCK_SPIN: return "spin"; case EV_LOCK_ACQ: return "acq"; case EV_UNLOCK: return "unl";
  case EV_HP_LOAD: return "hpL"; case EV_HP_STORE: return "hpS"; case EV_RC_LOAD: return "rcL"; case EV_RC_BUMP: return "rcB";
  case EV_LAZY_LOAD: return "lzL"; case EV_LAZY_STORE: return "lzS"; case EV_LAZY_DEC: return "lzD"; case EV_LOCKS_CURRENT: return "cur";
  case EV_LOCKS_APPEND: return "app"; case EV_LOCKALL_BEGIN: return "LA<"; case EV_LOCKALL_END: return "LA>"; case EV_BUCKET_ACCESS: return "bkt";
  case EV_LOCK_META: return "meta"; case EV_BUCKETS_REPLACE: return "repl"; case EV_FUNCTOR: return "fn"; case 100: return "INV"; case 101: return "RESP";
  }
  return "?";
}

static ExecOut execute(uint64_t seed, int mode, int preempts, const std::vector<int> &forced, bool want_trace, std::string *trace_out) {
  ExecOut out;
  g_hash_mode = g_hash_mode; // unchanged
  Tbl tbl(g_init_n);
  tbl.minimum_load_factor(g_mlf);
  for (auto &kv : g_prefill) tbl.insert(kv.first, kv.second);
  g_tbl = &tbl;
  // learn the addresses of the table's atomics
  struct Probe { static void h(int k, const void *a, std::size_t) { if (k == EV_HP_LOAD && !g_hp_addr) g_hp_addr = a; if (k == EV_RC_LOAD && !g_rc_addr) g_rc_addr = a; if (k == EV_LAZY_LOAD && !g_lazy_addr) g_lazy_addr = a; } };
  g_hp_addr = g_rc_addr = g_oldhp_addr = g_lazy_addr = nullptr;
  handler().store(Probe::h);
  (void)tbl.hashpower();
  (void)Access::rc(tbl);
  (void)Access::rem(tbl);
  {
    const void *save = g_hp_addr; g_hp_addr = nullptr;
    (void)Access::old_buckets(tbl).hashpower();
    g_oldhp_addr = g_hp_addr; g_hp_addr = save;
  }
  handler().store(nullptr);

  S.n = (int)g_prog.size();
  S.trace.clear(); S.choices.clear(); S.forced = forced; S.forced_pos = 0; S.decisions = 0;
  S.rng = seed * 0x9E3779B97F4A7C15ULL + 12345; if (!S.rng) S.rng = 1;
  S.mode = mode; S.deadlock = S.budget = false;
  S.preempt_at.clear();
  for (int i = 0; i < preempts; ++i) S.preempt_at.insert((long)(S.next() % 400));
  g_viol.clear();
  g_res.assign(S.n, {});
  for (int t = 0; t < S.n; ++t) {
    S.st[t] = Sched::RUN; held[t].clear(); in_lockall[t] = lockall_done[t] = false;
    first_lock_pending_validation[t] = 0; stored_hp_unbumped[t] = false; pending_append_gens[t] = 0; pending_append_ev[t] = -1; last_dec_old[t] = -1;
    g_res[t].assign(g_prog[t].size(), OpResult());
  }
  {
    g_init_line = "p init " + std::to_string(tbl.hashpower());
    for (auto &g : Access::all_locks(tbl)) g_init_line += " " + std::to_string(g.size());
    g_init_line += "\n";
  }
  handler().store(handler);
  std::vector<std::thread> th;
  S.cur = -1;
  for (int t = 0; t < S.n; ++t) th.emplace_back(thread_main, t);
  {
    std::unique_lock<std::mutex> lk(S.mu);
    int first = forced.empty() ? (int)(S.next() % S.n) : forced[0];
    if (!forced.empty()) S.forced_pos = 1;
    S.choices.push_back(first);
    S.cur = first;
    S.cv[first].notify_one();
    S.cv[MAXT - 1].wait(lk, [&] { return S.cur == -2; });
  }
  for (auto &x : th) x.join();
  handler().store(nullptr);
  out.choices = S.choices;
  out.events = S.trace.size();
  // ---- oracles ----
  std::vector<LinOp> ops;
  std::string hist;
  for (int t = 0; t < S.n; ++t)
    for (size_t i = 0; i < g_prog[t].size(); ++i) {
      ops.push_back(LinOp{t, (int)i, g_res[t][i].inv, g_res[t][i].resp, &g_prog[t][i], g_res[t][i].res});
      hist += "T" + std::to_string(t) + ":" + g_prog[t][i].kind + "(" + std::to_string(g_prog[t][i].a) + "," + std::to_string(g_prog[t][i].b) + ")=" +
              g_res[t][i].res + "@[" + std::to_string(g_res[t][i].inv) + "," + std::to_string(g_res[t][i].resp) + "] ";
    }
  out.history = hist;
  Map final_map;
  {
    auto lt = tbl.lock_table();
    for (auto &kv : lt) {
      if (final_map.count(kv.first)) { out.ok = false; out.why = "key " + std::to_string(kv.first) + " stored twice"; }
      final_map[kv.first] = kv.second;
    }
    if (lt.size() != final_map.size() && out.ok) { out.ok = false; out.why = "size() = " + std::to_string(lt.size()) + " but the table holds " + std::to_string(final_map.size()) + " pairs"; }
  }
  if (out.ok && S.budget) { out.ok = false; out.why = "step budget exceeded (livelock?)"; }
  if (out.ok) {
    std::string inv = check_inv(tbl);
    if (inv != "inv ok") { out.ok = false; out.why = "final state: " + inv; }
  }
  if (out.ok) {
    // lock leak probe
    auto &gens = Access::all_locks(tbl);
    int g = 0;
    for (auto it = gens.begin(); it != gens.end() && out.ok; ++it, ++g)
      for (size_t i = 0; i < it->size(); ++i) {
        if (!(*it)[i].try_lock()) { out.ok = false; out.why = "lock (" + std::to_string(g) + "," + std::to_string(i) + ") is still held after all calls returned"; break; }
        (*it)[i].unlock();
      }
  }
  if (out.ok) {
    // Explicit resize requests: rehash(n) / reserve(n) answer false exactly when the table already has the requested
    // hashpower, true when they resized it.  Whatever the linearization point, the answer must be explained by a value the
    // hashpower had between the call's invocation and its return (the timeline is read off the recorded stores, so no
    // extra load disturbs the execution): false needs an instant at which hashpower() == request; true needs a store by
    // the calling thread, within the call, of a hashpower at least as large as requested.
    size_t hp0 = 0;
    { std::istringstream is(g_init_line); std::string a, b; is >> a >> b >> hp0; }
    for (auto &o : ops) {
      if (o.op->kind != "rehash" && o.op->kind != "reserve") continue;
      if (o.res != "0" && o.res != "1") continue;
      size_t want = o.op->a;
      if (o.op->kind == "reserve") { want = 0; while ((size_t(1) << want) * Tbl::slot_per_bucket() < o.op->a) ++want; }
      size_t cur = hp0; bool eq = false, stored = false; std::string seen;
      for (int i = 0; i <= o.resp && i < (int)S.trace.size(); ++i) {
        auto &e = S.trace[i];
        if (e.kind == EV_HP_STORE && e.a == 0) {
          cur = e.v;
          if (i >= o.inv && e.tid == o.tid && cur >= want) stored = true;
        }
        if (i >= o.inv) { if (cur == want) eq = true; if (seen.size() < 40) seen += std::to_string(cur) + " "; }
      }
      if (o.res == "0" && !eq) {
        out.ok = false;
        out.why = "explicit resize request dropped: T" + std::to_string(o.tid) + " " + o.op->kind + "(" + std::to_string(o.op->a) + ") answered false (nothing to do) although hashpower() was never " +
                  std::to_string(want) + " between its invocation and its return - not linearizable";
        break;
      }
      if (o.res == "1" && !stored) {
        out.ok = false;
        out.why = "explicit resize request not honoured: T" + std::to_string(o.tid) + " " + o.op->kind + "(" + std::to_string(o.op->a) + ") answered true without installing a table of hashpower >= " + std::to_string(want) + " - not linearizable";
        break;
      }
    }
  }
  if (out.ok) {
    Map m;
    for (auto &kv : g_prefill) m[kv.first] = kv.second;
    std::vector<char> done(ops.size(), 0);
    // the same history as a request for the verified checker of the Lean driver (`lin ...`, Driver/Lin.lean)
    {
      std::string L = "lin " + std::to_string(g_prefill.size());
      for (auto &kv : g_prefill) L += " " + std::to_string(kv.first) + " " + std::to_string(kv.second);
      L += " " + std::to_string(final_map.size());
      for (auto &kv : final_map) L += " " + std::to_string(kv.first) + " " + std::to_string(kv.second);
      L += " " + std::to_string(ops.size());
      for (auto &o : ops) {
        L += " " + std::to_string(o.tid) + " " + std::to_string(o.inv) + " " + std::to_string(o.resp) + " " + o.op->kind;
        if (o.op->kind == "section") {
          L += " " + std::to_string(o.op->body.size());
          for (auto &x : o.op->body) L += " " + x.kind + " " + std::to_string(x.a) + " " + std::to_string(x.b);
          L += " " + (o.res.empty() ? std::string(",") : o.res);
        } else {
          L += " " + std::to_string(o.op->a) + " " + std::to_string(o.op->b) + " " + (o.res.empty() ? std::string("?") : o.res);
        }
      }
      out.lin = L;
    }
    if (lin_search(ops, done, m, final_map, 0)) out.lin_accepted = true;
    else {
      out.ok = false;
      std::string fm;
      for (auto &kv : final_map) fm += std::to_string(kv.first) + "=" + std::to_string(kv.second) + " ";
      out.why = "history is not linearizable (final contents: " + fm + ")";
    }
  }
  // protocol / lockset rule violations are reported when no observable failure was found in this execution
  if (out.ok && !g_viol.empty()) { out.ok = false; out.why = "protocol: " + g_viol[0]; }
  else if (!out.ok && !g_viol.empty()) out.why += " [also protocol: " + g_viol[0] + "]";
  if (want_trace && trace_out) {
    std::string s;
    for (auto &e : S.trace) {
      s += "T" + std::to_string(e.tid) + " " + evname(e.kind);
      if (e.a >= 0) s += " " + std::to_string(e.a) + " " + std::to_string(e.b);
      s += " " + std::to_string(e.v) + "\n";
    }
    *trace_out = s;
  }
  if (out.ok && g_want_sections) { my_tid = -1; out.sections = sections_text(tbl); }
  g_tbl = nullptr;
  return out;
}

// protocol-trace output for the Lean acceptor (K3 i)
static std::string ptrace_text() {
  std::string s = g_init_line;
  for (auto &e : S.trace) {
    std::string t = std::to_string(e.tid);
    switch (e.kind) {
    case EV_RC_LOAD: s += "p rcL " + t + "\n"; break;
    case EV_HP_LOAD: if (e.a == 0) s += "p hpL " + t + "\n"; break;
    case EV_LOCKS_CURRENT: s += "p cur " + t + "\n"; break;
    case EV_LOCK_ACQ: s += "p acq " + t + " " + std::to_string(e.a) + " " + std::to_string(e.b) + "\n"; break;
    case EV_UNLOCK: s += "p unl " + t + " " + std::to_string(e.a) + " " + std::to_string(e.b) + "\n"; break;
    case EV_BUCKET_ACCESS: case EV_FUNCTOR: s += "p acc " + t + " " + std::to_string(Access::lock_ind<Tbl>(e.v)) + "\n"; break;
    case EV_LOCK_META: s += "p acc " + t + " " + std::to_string(e.v) + "\n"; break;
    case EV_LOCKALL_BEGIN: s += "p LA< " + t + "\n"; break;
    case EV_LOCKALL_END: s += "p LA> " + t + "\n"; break;
    case EV_HP_STORE: if (e.a == 0) s += "p hpS " + t + " " + std::to_string(e.v) + "\n"; break;
    case EV_LOCKS_APPEND: s += "p app " + t + " " + std::to_string(e.v) + "\n"; break;
    case EV_RC_BUMP: s += "p rcB " + t + "\n"; break;
    case 101: s += "p end " + t + " 0\n"; break;
    default: break;
    }
  }
  return s + "p done\n";
}

// ------------------------------------------------------------------ input
static Op parse_op(std::istringstream &is) {
  Op o; is >> o.kind;
  if (o.kind == "section") return o;
  if (o.kind == "clear" || o.kind == "ltclear" || o.kind == "ltsize" || o.kind == "ltstream" || o.kind == "ltsave" || o.kind == "ltload") return o;
  is >> o.a;
  if (o.kind == "insert" || o.kind == "ioa" || o.kind == "update" || o.kind == "upsert" || o.kind == "updatefn" || o.kind == "erasefn" || o.kind == "ltinsert") is >> o.b;
  return o;
}
static std::string jesc(const std::string &s) { std::string r; for (char c : s) { if (c == '"' || c == '\\') r += '\\'; if (c == '\n') { r += "\\n"; continue; } r += c; } return r; }

int main() {
  std::string line;
  while (std::getline(std::cin, line)) {
    std::istringstream is(line);
    std::string w; is >> w;
    if (w == "cfg") { int hm; is >> hm >> g_init_n >> g_mlf; g_hash_mode = hm; g_prog.clear(); g_prefill.clear(); }
    else if (w == "prefill") { uint64_t k, v; while (is >> k >> v) g_prefill.push_back({k, v}); }
    else if (w == "thread") {
      // thread <op> ; <op> ; ...   with  section [ ltop ; ltop ]
      std::vector<Op> ops;
      std::string rest; std::getline(is, rest);
      std::istringstream rs(rest);
      std::string tok;
      std::vector<std::string> parts; std::string cur;
      while (rs >> tok) { if (tok == ";") { parts.push_back(cur); cur.clear(); } else cur += tok + " "; }
      if (!cur.empty()) parts.push_back(cur);
      Op *sec = nullptr;
      for (auto &p : parts) {
        std::istringstream ps(p);
        std::string first; ps >> first;
        if (first == "section") { ops.push_back(Op()); ops.back().kind = "section"; sec = &ops.back(); continue; }
        if (first == "end") { sec = nullptr; continue; }
        std::istringstream ps2(p);
        Op o = parse_op(ps2);
        if (sec) sec->body.push_back(o); else ops.push_back(o);
      }
      g_prog.push_back(ops);
    } else if (w == "run") {
      // run <mode> <preempts> <seed0> <count> [trace]
      int mode, pre; uint64_t seed0; long count; std::string opt, ppath; long pevery = 1;
      is >> mode >> pre >> seed0 >> count >> opt;
      FILE *pf = nullptr;
      FILE *sf = nullptr;
      if (opt == "ptrace") { is >> ppath >> pevery; pf = fopen(ppath.c_str(), "a"); sf = fopen((ppath + ".sec").c_str(), "a"); if (pevery < 1) pevery = 1; }
      g_want_sections = sf != nullptr;
      long bad = 0, bad_obs = 0; size_t events = 0; std::string first_why, first_hist, first_choices, trace, first_lin;
      uint64_t first_seed = 0;
      bool first_is_obs = false;
      for (long i = 0; i < count; ++i) {
        std::string tr;
        g_want_sections = sf != nullptr && i % pevery == 0;
        ExecOut o = execute(seed0 + i, mode, pre, {}, opt == "trace" && i == 0, &tr);
        if (opt == "trace" && i == 0) trace = tr;
        if (pf && i % pevery == 0) {
          std::string pt = ptrace_text(); fwrite(pt.data(), 1, pt.size(), pf);
          // a history the C++ search accepted: the verified checker must accept it too
          if (o.lin_accepted && !o.lin.empty()) { fwrite(o.lin.data(), 1, o.lin.size(), pf); fputc('\n', pf); }
          if (sf && !o.sections.empty()) { fputs("X begin\n", sf); fwrite(o.sections.data(), 1, o.sections.size(), sf); fputs("X end\n", sf); }
        }
        events += o.events;
        if (!o.ok) {
          bool obs = o.why.rfind("protocol:", 0) != 0;
          if (obs) ++bad_obs;
          // keep the first execution with an observable failure; else the first protocol-only one
          if (!bad || (obs && !first_is_obs)) {
            first_why = o.why; first_hist = o.history; first_seed = seed0 + i; first_is_obs = obs;
            first_lin = o.why.rfind("history is not linearizable", 0) == 0 ? o.lin : std::string();
            first_choices.clear();
            for (int c : o.choices) first_choices += std::to_string(c) + " ";
          }
          ++bad;
        }
      }
      printf("{\"runs\":%ld,\"bad\":%ld,\"bad_observable\":%ld,\"events\":%zu,\"first_seed\":%llu,\"why\":\"%s\",\"history\":\"%s\",\"choices\":\"%s\"", count, bad, bad_obs, events,
             (unsigned long long)first_seed, jesc(first_why).c_str(), jesc(first_hist).c_str(), first_choices.c_str());
      if (pf) fclose(pf);
      if (sf) fclose(sf);
      g_want_sections = false;
      if (opt == "trace") printf(",\"trace\":\"%s\"", jesc(trace).c_str());
      if (!first_lin.empty()) printf(",\"lin\":\"%s\"", jesc(first_lin).c_str());
      printf("}\n");
      fflush(stdout);
    } else if (w == "replay") {
      std::vector<int> forced; int c; while (is >> c) forced.push_back(c);
      std::string tr;
      ExecOut o = execute(1, 0, 0, forced, true, &tr);
      printf("{\"ok\":%s,\"why\":\"%s\",\"history\":\"%s\",\"trace\":\"%s\"}\n", o.ok ? "true" : "false", jesc(o.why).c_str(), jesc(o.history).c_str(), jesc(tr).c_str());
      fflush(stdout);
    }
  }
  return 0;
}
