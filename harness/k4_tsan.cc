// K4: free-running threads on a small table, built with -fsanitize=thread (no hooks, no scheduler).
// ThreadSanitizer models the C++ memory orders, so a weakened order or an unsynchronised access shows up as a report.
// usage: k4_tsan <seed> <iterations> <mode>   mode 0: 2 writers + 2 readers growing a small table
//                                             mode 1: updates of one key + rehash up/down + clear
//                                             mode 2: every public lookup / update wrapper on a few hot keys of a table that
//                                                     never resizes; values are pairs (a, a): a reader that sees a != b, or a
//                                                     value handed out that was not read under the bucket lock, is a failure
#include <atomic>
#include <cstdint>
#include <cstdio>
#include <cstdlib>
#include <thread>
#include <vector>

#include <libcuckoo/cuckoohash_map.hh>

using Tbl = libcuckoo::cuckoohash_map<uint64_t, uint64_t, std::hash<uint64_t>, std::equal_to<uint64_t>,
                                      std::allocator<std::pair<const uint64_t, uint64_t>>, 2>;

struct PV {
  uint64_t a = 0, b = 0;
  PV() {}
  PV(uint64_t x) : a(x), b(x) {}
};
using PTbl = libcuckoo::cuckoohash_map<uint64_t, PV, std::hash<uint64_t>, std::equal_to<uint64_t>,
                                       std::allocator<std::pair<const uint64_t, PV>>, 2>;

static long wrappers(uint64_t seed, long iters) {
  std::atomic<long> bad{0};
  for (int round = 0; round < 4; ++round) {
    PTbl t(4096);
    std::atomic<bool> go{false};
    std::vector<std::thread> th;
    auto rnd = [](uint64_t &s) { s ^= s << 13; s ^= s >> 7; s ^= s << 17; return s; };
    for (int w = 0; w < 4; ++w)
      th.emplace_back([&, w] {
        uint64_t s = seed * 91 + w + 1 + round * 1000;
        while (!go) {}
        for (long i = 0; i < iters; ++i) {
          uint64_t k = rnd(s) % 24, x = rnd(s);
          auto chk = [&](const PV &v) { if (v.a != v.b) ++bad; };
          switch (rnd(s) % 14) {
          case 0: t.insert(k, PV(x)); break;
          case 1: t.insert_or_assign(k, PV(x)); break;
          case 2: t.update(k, PV(x)); break;
          case 3: t.update_fn(k, [&](PV &v) { chk(v); v.a = x; v.b = x; }); break;
          case 4: t.upsert(k, [&](PV &v) { chk(v); v.a = x; v.b = x; }, x); break;
          case 5: t.upsert(k, [&](PV &v, libcuckoo::UpsertContext) { chk(v); v.a = x; v.b = x; }, x); break;
          case 6: t.uprase_fn(k, [&](PV &v) { chk(v); v.a = x; v.b = x; return (x & 7) == 0; }, x); break;
          case 7: t.erase_fn(k, [&](PV &v) { chk(v); v.a = x; v.b = x; return (x & 3) == 0; }); break;
          case 8: t.erase(k); break;
          case 9: { PV v; if (t.find(k, v)) chk(v); break; }
          case 10: try { PV v = t.find(k); chk(v); } catch (std::out_of_range &) {} break;
          case 11: t.find_fn(k, [&](const PV &v) { chk(v); }); break;
          case 12: (void)t.contains(k); break;
          default: { PV v; if (t.find(k, v)) chk(v); break; }
          }
        }
      });
    go = true;
    for (auto &x : th) x.join();
  }
  return bad.load();
}

// mode 3 (built with the guard on and a stripe limit of 4, so that doublings defer migration): after every doubling
// four threads touch disjoint stripes concurrently; each migrates its stripe under its own lock and decrements the
// pending counter, the last one releases the superseded array.  The only ordering between them is the counter.
static long lazy(uint64_t seed, long iters) {
  long bad = 0;
  for (int round = 0; round < 3; ++round) {
    Tbl t(8);
    t.minimum_load_factor(0);
    uint64_t next = 0;
    for (int step = 0; step < 7; ++step) {
      size_t hp = t.hashpower();
      while (t.hashpower() == hp) { t.insert(next, next); ++next; }   // stop right after a doubling
      std::atomic<bool> go{false};
      std::vector<std::thread> th;
      for (int w = 0; w < 4; ++w)
        th.emplace_back([&, w] {
          uint64_t s = seed * 1000003 + w + round * 17 + step;
          while (!go) {}
          for (long i = 0; i < iters / 50 + 20; ++i) {
            s ^= s << 13; s ^= s >> 7; s ^= s << 17;
            uint64_t k = ((s % (next + 8)) & ~uint64_t(3)) | (uint64_t)w;   // bucket index (identity hash) ≡ w (mod 4)
            uint64_t v;
            if (t.find(k, v) && v != k) ++bad;
          }
        });
      go = true;
      for (auto &x : th) x.join();
    }
    for (uint64_t k = 0; k < next; ++k) { uint64_t v; if (!t.find(k, v) || v != k) ++bad; }
  }
  return bad;
}

int main(int argc, char **argv) {
  uint64_t seed = argc > 1 ? strtoull(argv[1], 0, 10) : 1;
  long iters = argc > 2 ? atol(argv[2]) : 2000;
  int mode = argc > 3 ? atoi(argv[3]) : 0;
  long bad = 0;
  if (mode == 3) {
    bad = lazy(seed, iters);
    printf("done bad=%ld\n", bad);
    return bad ? 1 : 0;
  }
  if (mode == 2) {
    bad = wrappers(seed, iters);
    printf("done bad=%ld\n", bad);
    return bad ? 1 : 0;
  }
  for (int round = 0; round < 6; ++round) {
    Tbl t(4);
    t.minimum_load_factor(0);
    std::atomic<bool> go{false};
    std::vector<std::thread> th;
    auto rnd = [](uint64_t &s) { s ^= s << 13; s ^= s >> 7; s ^= s << 17; return s; };
    for (int w = 0; w < 2; ++w)
      th.emplace_back([&, w] {
        uint64_t s = seed * 77 + w + 1 + round * 1000;
        while (!go) {}
        for (long i = 0; i < iters; ++i) {
          uint64_t k = rnd(s) % 4096;
          if (mode == 0) { if (i % 3) t.insert(k, k); else t.erase(k); }
          else { t.upsert(7, [](uint64_t &v) { ++v; }, 1); if (i % 64 == 0) { if (w) t.rehash((i / 64) % 8); else t.reserve(rnd(s) % 500); } if (i % 257 == 0 && w) t.clear(); }
        }
      });
    for (int r = 0; r < 2; ++r)
      th.emplace_back([&, r] {
        uint64_t s = seed * 131 + r + 5 + round * 1000;
        while (!go) {}
        for (long i = 0; i < iters; ++i) {
          uint64_t k = rnd(s) % 4096, v;
          if (t.find(k, v) && v != k && mode == 0) ++bad;
          if (mode == 1) t.update_fn(7, [](uint64_t &x) { x += 2; });
        }
      });
    go = true;
    for (auto &x : th) x.join();
  }
  printf("done bad=%ld\n", bad);
  return bad ? 1 : 0;
}
