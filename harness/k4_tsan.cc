// K4: free-running threads on a small table, built with -fsanitize=thread (no hooks, no scheduler).
// ThreadSanitizer models the C++ memory orders, so a weakened order or an unsynchronised access shows up as a report.
// usage: k4_tsan <seed> <iterations> <mode>   mode 0: 2 writers + 2 readers growing a small table
//                                             mode 1: updates of one key + rehash up/down + clear
#include <atomic>
#include <cstdint>
#include <cstdio>
#include <cstdlib>
#include <thread>
#include <vector>

#include <libcuckoo/cuckoohash_map.hh>

using Tbl = libcuckoo::cuckoohash_map<uint64_t, uint64_t, std::hash<uint64_t>, std::equal_to<uint64_t>,
                                      std::allocator<std::pair<const uint64_t, uint64_t>>, 2>;

int main(int argc, char **argv) {
  uint64_t seed = argc > 1 ? strtoull(argv[1], 0, 10) : 1;
  long iters = argc > 2 ? atol(argv[2]) : 2000;
  int mode = argc > 3 ? atoi(argv[3]) : 0;
  long bad = 0;
  for (int round = 0; round < 6; ++round) {
    Tbl t(4);
    t.minimum_load_factor(0);
    std::atomic<bool> go{false};
    std::vector<std::thread> th;
    auto rnd = [](uint64_t &s) { s ^= s << 13; s ^= s >> 7; s ^= s << 17; return s; };
    for (int w = 0; w < 2; ++w)
      th.emplace_back([&, w] {
        uint64_t s = seed * 77 + w + 1 + round * 1000;
        while (!go) {}
        for (long i = 0; i < iters; ++i) {
          uint64_t k = rnd(s) % 4096;
          if (mode == 0) { if (i % 3) t.insert(k, k); else t.erase(k); }
          else { t.upsert(7, [](uint64_t &v) { ++v; }, 1); if (i % 64 == 0) { if (w) t.rehash((i / 64) % 8); else t.reserve(rnd(s) % 500); } if (i % 257 == 0 && w) t.clear(); }
        }
      });
    for (int r = 0; r < 2; ++r)
      th.emplace_back([&, r] {
        uint64_t s = seed * 131 + r + 5 + round * 1000;
        while (!go) {}
        for (long i = 0; i < iters; ++i) {
          uint64_t k = rnd(s) % 4096, v;
          if (t.find(k, v) && v != k && mode == 0) ++bad;
          if (mode == 1) t.update_fn(7, [](uint64_t &x) { x += 2; });
        }
      });
    go = true;
    for (auto &x : th) x.join();
  }
  printf("done bad=%ld\n", bad);
  return bad ? 1 : 0;
}
