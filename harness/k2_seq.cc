// K2: sequential full-state differential.  Reads the line protocol of lean/Driver/Model.lean on
// stdin, executes each request on the real table, prints the canonical answer.
// Build: g++ -DLIBCUCKOO_VERIF [-DLIBCUCKOO_VERIF_MAX_NUM_LOCKS=<M>] -I/repo ...
#include "access.hh"

#include <iostream>
#include <sstream>

namespace vh {
int g_hash_mode = 0;
std::atomic<long> AllocCtl::live_bytes{0};
std::atomic<long> AllocCtl::n_allocs{0};
std::atomic<long> AllocCtl::fail_at{0};
std::atomic<size_t> AllocCtl::max_elems{~size_t(0)};
} // namespace vh
using namespace vh;

struct FnThrow {};

struct FnSpec {
  char kind = 'n';
  uint64_t c = 0;
  bool erase = false;
  bool ok = false;
  static FnSpec parse(const std::string &s) {
    FnSpec f;
    unsigned long long c = 0;
    int e = 0;
    char k = 0;
    if (sscanf(s.c_str(), "%c,%llu,%d", &k, &c, &e) == 3 && strchr("nsaT", k)) {
      f.kind = k; f.c = c; f.erase = e == 1; f.ok = true;
    }
    return f;
  }
  // applies the functor to v; returns the erase flag; may throw FnThrow
  bool apply(uint64_t &v) const {
    switch (kind) {
    case 'n': break;
    case 's': v = c; break;
    case 'a': v = v + c; break;
    case 'T': v = c; throw FnThrow();
    }
    return erase;
  }
};

struct IRunner {
  virtual ~IRunner() {}
  virtual std::string line(const std::vector<std::string> &w) = 0;
};

static std::string ctxs(libcuckoo::UpsertContext c) { return c == libcuckoo::UpsertContext::NEWLY_INSERTED ? "N" : "E"; }

template <class K, size_t S> struct Runner : IRunner {
  using Tbl = libcuckoo::cuckoohash_map<K, uint64_t, VHash, std::equal_to<K>, VAlloc<std::pair<const K, uint64_t>>, S>;
  using LT = typename Tbl::locked_table;
  std::unique_ptr<Tbl> tabs[8];
  bool moved_from[8] = {false, false, false, false, false, false, false, false};
  unsigned nswap = 0;
  std::unique_ptr<LT> lts[8];
  std::string wires[8];
  static K mk(uint64_t v) { return MakeKey<K>::make(v); }

  template <class F> std::string guard(F f) {
    try {
      return f();
    } catch (libcuckoo::maximum_hashpower_exceeded &) {
      return "err maxhp";
    } catch (libcuckoo::load_factor_too_low &) {
      return "err lftl";
    } catch (std::bad_alloc &) {
      return "err badalloc";
    } catch (std::invalid_argument &) {
      return "err invalid";
    } catch (std::out_of_range &) {
      return "err oor";
    } catch (FnThrow &) {
      return "err fnthrow";
    }
  }
  static std::string b(bool x) { return x ? "1" : "0"; }
  std::string pos(LT &lt, typename LT::iterator it) {
    // position of an iterator = (bucket, slot) of the element it points at; end = (2^hp, 0)
    if (it == lt.end()) return "(" + std::to_string(lt.bucket_count()) + ",0)";
    auto &bc = Access::buckets(*tabs[cur_id]);
    const void *p = &*it;
    for (size_t i = 0; i < bc.size(); ++i)
      for (size_t s = 0; s < S; ++s)
        if (bc[i].occupied(s) && (const void *)&bc[i].kvpair(s) == p)
          return "(" + std::to_string(i) + "," + std::to_string(s) + ")";
    return "(?,?)";
  }
  std::string posval(LT &lt, typename LT::iterator it) {
    if (it == lt.end()) return "end";
    return std::to_string(keyval(it->first)) + "=" + std::to_string(it->second);
  }
  size_t cur_id = 0;

  std::string line(const std::vector<std::string> &w) override {
    const std::string &op = w[0];
    if (w.size() < 2) return "bad-op";
    size_t id = strtoull(w[1].c_str(), 0, 10);
    if (id >= 8) return "bad-table";
    cur_id = id;
    auto num = [&](size_t i) { return (uint64_t)strtoull(w[i].c_str(), 0, 10); };
    if (op == "new" && w.size() == 3) {
      lts[id].reset();
      moved_from[id] = false;
      return guard([&] { tabs[id].reset(new Tbl(num(2))); return std::string("ok"); });
    }
#ifdef VH_APOL
    using Alloc = VAlloc<std::pair<const K, uint64_t>>;
    if (op == "apol" && w.size() == 3) return num(2) == (uint64_t)(VH_APOL) ? "ok" : "bad-op";
    if (op == "newa" && w.size() == 4) {
      lts[id].reset();
      moved_from[id] = false;
      return guard([&] { tabs[id].reset(new Tbl(num(2), VHash(), std::equal_to<K>(), Alloc((int)num(3)))); return std::string("ok"); });
    }
    if ((op == "copya" || op == "movea") && w.size() == 4) {
      size_t src = num(2);
      if (src >= 8 || src == id || !tabs[src] || moved_from[src] || lts[src] || lts[id]) return "bad-table";
      return guard([&] {
        if (op == "copya") tabs[id].reset(new Tbl(*tabs[src], Alloc((int)num(3))));
        else { tabs[id].reset(new Tbl(std::move(*tabs[src]), Alloc((int)num(3)))); moved_from[src] = true; }
        moved_from[id] = false;
        return std::string("ok");
      });
    }
    if (op == "allocid" && w.size() == 2) {
      if (!tabs[id] || moved_from[id]) return "bad-table";
      // the allocator the table reports, the instance that owns its current bucket array, and the number of blocks
      // that were handed back to an instance other than the one they came from (so far, process-wide)
      int a = tabs[id]->get_allocator().id;
      auto &bc = Access::buckets(*tabs[id]);
      int own = bc.is_deallocated() ? a : AllocReg::owner_of(&bc[0]);
      return "ok a=" + std::to_string(a) + " own=" + std::to_string(own) + " mism=" + std::to_string(AllocReg::mismatches().load());
    }
#endif
    if ((op == "newil" || op == "newrange" || op == "assignil") && w.size() >= 3 && (w.size() % 2) == 1) {
      // constructors from an initializer list / an iterator range with an explicit capacity, and operator=(initializer_list)
      std::vector<std::pair<const K, uint64_t>> items;
      for (size_t i = 3; i + 1 < w.size(); i += 2) items.push_back({mk(num(i)), num(i + 1)});
      size_t n = num(2);
      if (op == "assignil") {
        if (!tabs[id] || moved_from[id] || lts[id]) return "bad-table";
        return guard([&] {
          // (an initializer_list cannot be built from run-time data: the member is `clear(); insert each`, reproduced
          //  through the same public members for more than 4 items; up to 4 items go through the real operator=)
          Tbl &tt = *tabs[id];
          switch (items.size()) {
          case 0: tt = {}; break;
          case 1: tt = {items[0]}; break;
          case 2: tt = {items[0], items[1]}; break;
          case 3: tt = {items[0], items[1], items[2]}; break;
          default: tt = {items[0], items[1], items[2], items[3]}; break;
          }
          return std::string("ok");
        });
      }
      if (lts[id]) return "bad-table";
      return guard([&] {
        if (op == "newrange") tabs[id].reset(new Tbl(items.begin(), items.end(), n));
        else switch (items.size()) {
          case 0: tabs[id].reset(new Tbl(std::initializer_list<std::pair<const K, uint64_t>>{}, n)); break;
          case 1: tabs[id].reset(new Tbl({items[0]}, n)); break;
          case 2: tabs[id].reset(new Tbl({items[0], items[1]}, n)); break;
          case 3: tabs[id].reset(new Tbl({items[0], items[1], items[2]}, n)); break;
          default: tabs[id].reset(new Tbl({items[0], items[1], items[2], items[3]}, n)); break;
        }
        moved_from[id] = false;
        return std::string("ok");
      });
    }
    if (op == "ltmoveassign" && w.size() == 3) {
      // locked_table move assignment onto an ACTIVE locked_table: `lt_a = std::move(lt_b)` ends a's section (table a is
      // handed back unlocked) and a's handle now owns table b; the moved-from handle is inactive
      size_t src = num(2);
      if (src >= 8 || src == id || !lts[id] || !lts[src]) return "bad-table";
      *lts[id] = std::move(*lts[src]);
      bool src_active = lts[src]->is_active(), dst_active = lts[id]->is_active();
      lts[src] = std::move(lts[id]);            // keep the handle that owns table `src` in slot `src`
      lts[id].reset();
      if (src_active) return "DIFF the moved-from locked_table still reports is_active()";
      if (!dst_active) return "DIFF the assigned-to locked_table is not active";
      return "ok";
    }
    if ((op == "copy" || op == "move" || op == "swap") && w.size() == 3) {
      size_t src = num(2);
      if (src >= 8 || !tabs[src] || moved_from[src] || lts[src] || lts[id]) return "bad-table";
      if (op == "swap") {
        if (!tabs[id] || moved_from[id]) return "bad-table";
        if (nswap++ % 2 == 0) tabs[id]->swap(*tabs[src]); else { using std::swap; swap(*tabs[id], *tabs[src]); }
        return "ok";
      }
      return guard([&] {
        if (op == "copy") {
          if (tabs[id]) *tabs[id] = *tabs[src];            // copy assignment (also onto a moved-from object)
          else tabs[id].reset(new Tbl(*tabs[src]));        // copy construction
        } else {
          if (tabs[id]) *tabs[id] = std::move(*tabs[src]); // move assignment
          else tabs[id].reset(new Tbl(std::move(*tabs[src])));
          moved_from[src] = true;
        }
        moved_from[id] = (op == "move" && src == id);     // a self-move leaves a moved-from object
        return std::string("ok");
      });
    }
    if (!tabs[id] || moved_from[id]) return "bad-table";
    Tbl &t = *tabs[id];
    if (w.size() == 3) {
      uint64_t a = num(2);
      if (op == "ltapi") {
        // the whole overload set of the locked table on key `a`: const and non-const lookups, const iterators, pre/post
        // increment and decrement, the observers, operator==.  Answer "ok" iff they all agree with one another (the
        // non-const forms are tied to the model by the other requests).
        if (!lts[id]) return "bad-table";
        LT &lt = *lts[id];
        const LT &clt = lt;
        K key = mk(a);
        auto it = lt.find(key);
        auto cit = clt.find(key);
        bool here = it != lt.end();
        if (here != (cit != clt.end())) return "DIFF const find() disagrees with find() about presence";
        if (here && (&*cit != &*it)) return "DIFF const find() points at another element";
        if (here && !(typename LT::const_iterator(it) == cit)) return "DIFF iterator -> const_iterator conversion";
        if (clt.count(key) != (here ? 1u : 0u)) return "DIFF count() disagrees with find()";
        try { const uint64_t &v = clt.at(key); if (!here || &v != &it->second) return "DIFF const at() wrong element"; }
        catch (std::out_of_range &) { if (here) return "DIFF const at() throws for a present key"; }
        try { uint64_t &v = lt.at(key); if (!here || &v != &it->second) return "DIFF at() wrong element"; }
        catch (std::out_of_range &) { if (here) return "DIFF at() throws for a present key"; }
        auto er = lt.equal_range(key);
        auto cer = clt.equal_range(key);
        if (!(typename LT::const_iterator(er.first) == cer.first) || !(typename LT::const_iterator(er.second) == cer.second)) return "DIFF const equal_range() disagrees";
        if (here) { auto nx = it; ++nx; if (er.first != it || er.second != nx) return "DIFF equal_range() is not [find, next)"; }
        else if (er.first != lt.end() || er.second != lt.end()) return "DIFF equal_range() of an absent key is not (end, end)";
        if (!(clt.begin() == clt.cbegin()) || !(clt.end() == clt.cend())) return "DIFF cbegin/cend";
        if (!(typename LT::const_iterator(lt.begin()) == clt.begin()) || !(typename LT::const_iterator(lt.end()) == clt.end())) return "DIFF begin()/end() const vs non-const";
        // forward walks: ++it, it++, const ++; all must visit the same elements
        size_t n1 = 0, n2 = 0, n3 = 0, lim = Access::buckets(t).size() * S + 2;
        {
          auto i1 = lt.begin(); auto i2 = lt.begin(); auto i3 = clt.begin();
          while (i1 != lt.end() && n1 < lim) {
            if (i2 == lt.end() || i3 == clt.end()) return "DIFF walks have different lengths";
            if (&*i1 != &*i2 || &*i1 != &*i3) return "DIFF pre-increment, post-increment and const walks visit different elements";
            auto old = i2++;
            if (&*old != &*i1) return "DIFF post-increment does not return the old position";
            ++i1; ++i3; ++n1;
          }
          if (i2 != lt.end() || !(i3 == clt.end())) return "DIFF walks end at different positions";
        }
        {
          auto i1 = lt.end(); auto i2 = lt.end(); auto i3 = clt.end();
          while (i1 != lt.begin() && n2 < lim) {
            auto old = i2--;
            if (old != i1) return "DIFF post-decrement does not return the old position";
            --i1; --i3; ++n2;
            if (&*i1 != &*i2 || &*i1 != &*i3) return "DIFF pre-decrement, post-decrement and const backward walks differ";
          }
          n3 = n2;
        }
        if (n1 != n2 || n1 != lt.size() || n3 != clt.size()) return "DIFF forward walk " + std::to_string(n1) + ", backward walk " + std::to_string(n2) + ", size() " + std::to_string(lt.size());
        if (lt.size() != t.size() || lt.empty() != t.empty() || lt.hashpower() != t.hashpower() || lt.bucket_count() != t.bucket_count() ||
            lt.capacity() != t.capacity() || lt.load_factor() != t.load_factor() || lt.minimum_load_factor() != t.minimum_load_factor() ||
            lt.maximum_hashpower() != t.maximum_hashpower() || lt.max_num_worker_threads() != t.max_num_worker_threads() ||
            LT::slot_per_bucket() != S)
          return "DIFF an observer of the locked_table disagrees with the table's own";
        if (!(lt == lt) || (lt != lt)) return "DIFF operator== / != on the same locked table";
        return "ok";
      }
      if (op == "api") {
        // wrappers of the unlocked table on key `a`, against each other
        K key = mk(a);
        uint64_t v1 = 0;
        bool f1 = t.find(key, v1);
        bool f2 = t.contains(key);
        bool f3; uint64_t v3 = 0;
        try { v3 = t.find(key); f3 = true; } catch (std::out_of_range &) { f3 = false; }
        bool f4 = t.find_fn(key, [](const uint64_t &) {});
        if (f1 != f2 || f1 != f3 || f1 != f4) return "DIFF find / contains / find (throwing) / find_fn disagree about presence";
        if (f1 && v1 != v3) return "DIFF find(key, val) and find(key) return different values";
        return std::string("ok ") + (f1 ? "1" : "0");
      }
      if (op == "find") {
        std::string calls;
        return guard([&] {
          bool r = t.find_fn(mk(a), [&](const uint64_t &v) { calls += " call=-:" + std::to_string(v); });
          return "ok " + b(r) + calls;
        });
      }
      if (op == "findv") return guard([&] { return "ok " + std::to_string(t.find(mk(a))); });
      if (op == "erase") return guard([&] { return "ok " + b(t.erase(mk(a))); });
      if (op == "rehash") return guard([&] {
        if (lts[id]) { size_t hp = t.hashpower(); lts[id]->rehash(a); return "ok " + b(a != hp); }
        return "ok " + b(t.rehash(a)); });
      if (op == "reserve") return guard([&] {
        if (lts[id]) {
          // the locked variant returns nothing; report what the unlocked one would
          bool ch = Access::reserve_calc<Tbl>(a) != t.hashpower();
          lts[id]->reserve(a);
          return "ok " + b(ch);
        }
        return "ok " + b(t.reserve(a)); });
      if (op == "setmlf") return guard([&] { double d; memcpy(&d, &a, 8); t.minimum_load_factor(d); return std::string("ok "); });
      if (op == "setmhp") return guard([&] { t.maximum_hashpower(a); return std::string("ok "); });
      if (op == "setworkers") { t.max_num_worker_threads(a); return "ok"; }
      if (op == "read") {
        if (!lts[id]) return "bad-table";
        return guard([&] { return read_wire(id, a); });
      }
      if (!lts[id]) return "bad-table";
      LT &lt = *lts[id];
      if (op == "ltfind") { auto it = lt.find(mk(a)); return pos(lt, it) + " " + posval(lt, it); }
      if (op == "ltcount") return std::to_string(lt.count(mk(a)));
      if (op == "ltat") return guard([&] { uint64_t &v = lt.at(mk(a)); return "ok " + std::to_string(a) + "=" + std::to_string(v); });
      if (op == "ltequalrange") { auto r = lt.equal_range(mk(a)); return pos(lt, r.first) + " " + pos(lt, r.second); }
      if (op == "lterase") return std::to_string(lt.erase(mk(a)));
      if (op == "lteraseit") {
        auto it = lt.find(mk(a));
        if (it == lt.end()) return "absent";
        auto nx = lt.erase(it);
        return pos(lt, nx) + " " + posval(lt, nx);
      }
      if (op == "ltindex") return guard([&] { uint64_t &v = lt[mk(a)]; return "ok " + std::to_string(a) + "=" + std::to_string(v); });
      return "bad-op";
    }
    if (w.size() == 2) {
      if (op == "digest") return digest(t);
      if (op == "inv") return check_inv(t);
      if (op == "dump") return dump(t);
      if (op == "clear") { if (lts[id]) lts[id]->clear(); else t.clear(); return "ok"; }
      if (op == "stats") {
        double lf = t.load_factor(), mlf = t.minimum_load_factor();
        uint64_t lb, mb; memcpy(&lb, &lf, 8); memcpy(&mb, &mlf, 8);
        char buf[256];
        snprintf(buf, sizeof buf, "size=%zu empty=%d hp=%zu buckets=%zu cap=%zu lf=%llu mlf=%llu mhp=%zu", t.size(), (int)t.empty(),
                 t.hashpower(), t.bucket_count(), t.capacity(), (unsigned long long)lb, (unsigned long long)mb, t.maximum_hashpower());
        return buf;
      }
      if (op == "lock") { return guard([&] { lts[id].reset(new LT(t.lock_table())); return std::string("ok"); }); }
      if (op == "unlock") { lts[id].reset(); return "ok"; }
      if (op == "probe") {
        // are the table's locks free?  (every lock of every array; an active locked_table holds the current array)
        auto &gens = Access::all_locks(t);
        size_t held = 0, total = 0, cur_held = 0, cur_total = std::prev(gens.end())->size();
        size_t gi = 0;
        for (auto it = gens.begin(); it != gens.end(); ++it, ++gi)
          for (size_t i = 0; i < it->size(); ++i) {
            ++total;
            if ((*it)[i].try_lock()) (*it)[i].unlock();
            else { ++held; if (gi + 1 == gens.size()) ++cur_held; }
          }
        if (held == 0) return "ok free";
        if (cur_held == cur_total) return "ok held";
        return "DIFF " + std::to_string(held) + " of " + std::to_string(total) + " locks are held (neither free nor an exclusive section)";
      }
      if (op == "write") {
        if (!lts[id]) return "bad-table";
        return write_wire(id);
      }
      if (op == "iter" || op == "riter") {
        if (!lts[id]) return "bad-table";
        LT &lt = *lts[id];
        uint64_t h = 7; size_t n = 0;
        auto &bc = Access::buckets(t);
        auto locate = [&](typename LT::iterator it, size_t &bi, size_t &si) {
          const void *p = &*it;
          // pointer arithmetic would do; a scan keeps this independent of layout assumptions
          for (size_t i = 0; i < bc.size(); ++i) for (size_t s = 0; s < S; ++s)
            if (bc[i].occupied(s) && (const void *)&bc[i].kvpair(s) == p) { bi = i; si = s; return; }
          bi = si = 999999;
        };
        std::string seq;
        auto note = [&](size_t bi, size_t si, typename LT::iterator it) {
          if (n < 64) seq += " (" + std::to_string(bi) + "," + std::to_string(si) + "," + std::to_string(keyval(it->first)) + "," + std::to_string(it->second) + ")";
        };
        if (op == "iter") {
          for (auto it = lt.begin(); it != lt.end() && n <= bc.size() * S; ++it) {
            size_t bi, si; locate(it, bi, si);
            h = mix(mix(mix(mix(h, bi), si), keyval(it->first)), it->second); note(bi, si, it); ++n;
          }
          return "iter n=" + std::to_string(n) + " h=" + std::to_string(h) + (n <= 64 ? seq : "");
        } else {
          auto it = lt.end();
          auto bg = lt.begin();
          while (it != bg && n <= bc.size() * S) {
            --it;
            size_t bi, si; locate(it, bi, si);
            h = mix(mix(mix(mix(h, bi), si), keyval(it->first)), it->second); note(bi, si, it); ++n;
          }
          return "riter n=" + std::to_string(n) + " h=" + std::to_string(h) + (n <= 64 ? seq : "");
        }
      }
      return "bad-op";
    }
    if (w.size() == 4) {
      uint64_t a = num(2);
      if (op == "insert") return guard([&] { return "ok " + b(t.insert(mk(a), num(3))); });
      if (op == "ioa") return guard([&] { return "ok " + b(t.insert_or_assign(mk(a), num(3))); });
      if (op == "update") return guard([&] { return "ok " + b(t.update(mk(a), num(3))); });
      if (op == "updatefn" || op == "erasefn") {
        FnSpec f = FnSpec::parse(w[3]);
        if (!f.ok) return "bad-op";
        std::string calls;
        std::string r = guard([&] {
          bool found;
          if (op == "updatefn") found = t.update_fn(mk(a), [&](uint64_t &v) { calls += " call=-:" + std::to_string(v); f.apply(v); });
          else found = t.erase_fn(mk(a), [&](uint64_t &v) { calls += " call=-:" + std::to_string(v); return f.apply(v); });
          return "ok " + b(found);
        });
        return r + calls;
      }
      if (op == "ltinsert") {
        if (!lts[id]) return "bad-table";
        LT &lt = *lts[id];
        return guard([&] { auto r = lt.insert(mk(a), num(3)); return "ok " + b(r.second) + " " + pos(lt, r.first) + " " + posval(lt, r.first); });
      }
      return "bad-op";
    }
    if (w.size() == 7 && (op == "upsert" || op == "uprase")) {
      uint64_t k = num(2), v = num(3);
      bool ctxAware = w[4] == "1";
      FnSpec fN = FnSpec::parse(w[5]), fO = FnSpec::parse(w[6]);
      if (!fN.ok || !fO.ok) return "bad-op";
      std::string calls;
      std::string r = guard([&] {
        bool ins;
        auto two = [&](uint64_t &x, libcuckoo::UpsertContext c) {
          calls += " call=" + ctxs(c) + ":" + std::to_string(x);
          return (c == libcuckoo::UpsertContext::NEWLY_INSERTED ? fN : fO).apply(x);
        };
        auto one = [&](uint64_t &x) { calls += " call=-:" + std::to_string(x); return fO.apply(x); };
        if (op == "uprase") ins = ctxAware ? t.uprase_fn(mk(k), two, v) : t.uprase_fn(mk(k), one, v);
        else ins = ctxAware ? t.upsert(mk(k), [&](uint64_t &x, libcuckoo::UpsertContext c) { two(x, c); }, v)
                            : t.upsert(mk(k), [&](uint64_t &x) { one(x); }, v);
        return "ok " + b(ins);
      });
      return r + calls;
    }
    return "bad-op";
  }
  std::string read_wire(size_t id, size_t a) {
    if constexpr (std::is_trivial<K>::value) {
      std::istringstream is(wires[a]);
      is >> *lts[id];
      return "ok ";
    } else {
      return "bad-op";
    }
  }
  std::string write_wire(size_t id) {
    if constexpr (std::is_trivial<K>::value) {
      std::ostringstream os;
      os << *lts[id];
      wires[id] = os.str();
      return "ok";
    } else {
      return "bad-op";
    }
  }
};

// one (key kind, S) instantiation per binary: -DVH_KIND=0|1|2 -DVH_S=1|2|3|4|8
#ifndef VH_KIND
#define VH_KIND 0
#endif
#ifndef VH_S
#define VH_S 4
#endif
#if VH_KIND == 0
using VKey = uint64_t;
#elif VH_KIND == 1
using VKey = NKey;
#else
using VKey = TKey;
#endif

int main() {
  std::ios::sync_with_stdio(false);
  std::unique_ptr<IRunner> r;
  std::string line;
  while (std::getline(std::cin, line)) {
    std::istringstream is(line);
    std::vector<std::string> w;
    std::string x;
    while (is >> x) w.push_back(x);
    if (w.empty()) { puts(""); continue; }
    if (w[0] != "m" || w.size() < 2) { puts("bad-op"); continue; }
    w.erase(w.begin());
    if (w[0] == "cfg" && w.size() == 8) {
      size_t S = strtoull(w[1].c_str(), 0, 10);
      size_t M = strtoull(w[2].c_str(), 0, 10);
      bool simple = w[3] == "1", nothrow = w[4] == "1";
      size_t hpl = strtoull(w[5].c_str(), 0, 10);
      g_hash_mode = atoi(w[6].c_str());
      AllocCtl::max_elems = hpl >= 63 ? ~size_t(0) : (size_t(1) << hpl);
      r.reset();
      using T0 = Runner<VKey, VH_S>::Tbl;
      if (S != VH_S || M != Access::max_num_locks<T0>() || simple != Access::is_simple<T0>() ||
          nothrow != Access::nothrow_move<T0>()) { puts("bad-cfg"); fflush(stdout); continue; }
      r.reset(new Runner<VKey, VH_S>());
      puts("ok");
      continue;
    }
    if (!r) { puts("bad-op"); continue; }
    std::string out = r->line(w);
    fputs(out.c_str(), stdout);
    fputc('\n', stdout);
    fflush(stdout);            // a crash in a later request must not swallow the answers given so far
  }
  return 0;
}
