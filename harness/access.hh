// Shared by the K2/K3/K5 harnesses: private-state access through the library's own
// `friend class UnitTestInternalAccess`, key kinds, hash families, counting/limiting allocator,
// and the state digest that mirrors lean/Driver/Model.lean.
#pragma once
#include <atomic>
#include <cstdint>
#include <cstdio>
#include <cstring>
#include <functional>
#include <memory>
#include <new>
#include <string>
#include <vector>
#include <algorithm>
#include <map>
#include <mutex>
#include <typeinfo>
#include <unistd.h>

#include <libcuckoo/cuckoohash_map.hh>

namespace libcuckoo {
class UnitTestInternalAccess {
public:
  template <class M> static auto &buckets(M &m) { return m.buckets_; }
  template <class M> static auto &old_buckets(M &m) { return m.old_buckets_; }
  template <class M> static auto &all_locks(M &m) { return m.all_locks_; }
  template <class M> static size_t rem(M &m) {
    return m.num_remaining_lazy_rehash_locks_.load(std::memory_order_relaxed);
  }
  template <class M> static size_t rc(M &m) {
    return m.resize_counter_.load(std::memory_order_relaxed);
  }
  template <class M> static constexpr size_t max_num_locks() { return M::kMaxNumLocks; }
  template <class M> static constexpr bool is_simple() { return M::is_simple(); }
  template <class M> static constexpr bool nothrow_move() { return M::is_data_nothrow_move_constructible(); }
  template <class M> static size_t lock_ind(size_t i) { return M::lock_ind(i); }
  template <class M> static size_t reserve_calc(size_t n) { return M::reserve_calc(n); }
  template <class M> static size_t index_hash(size_t hp, size_t hv) { return M::index_hash(hp, hv); }
  template <class M> static size_t alt_index(size_t hp, uint8_t p, size_t i) { return M::alt_index(hp, p, i); }
  template <class M> static uint8_t partial_key(size_t h) { return M::partial_key(h); }
  template <class M, class F> static void par_noexcept(M &m, size_t s, size_t e, F f) { m.parallel_exec_noexcept(s, e, f); }
  template <class M, class F> static void par(M &m, size_t s, size_t e, F f) { m.parallel_exec(s, e, f); }
};
} // namespace libcuckoo

namespace vh {
using Access = libcuckoo::UnitTestInternalAccess;

// ---- hash families (same as Driver.hashFn) ----
extern int g_hash_mode;
inline uint64_t hashfn(int mode, uint64_t k) {
  switch (mode) {
  case 0: return k;
  case 1: return 0x1234;
  case 2: return (k % 4) + ((k / 4) << 32);
  case 3: return k ^ (k << 32);
  case 4: return k * 0x9E3779B97F4A7C15ULL;
  case 5: return (k << 24) | (k << 16);
  default: return k * 0xff51afd7ed558ccdULL + 0x1b873593ULL;
  }
}

// ---- key kinds ----
// kind 0: uint64_t (is_simple, nothrow move)
// kind 1: non-trivial key, nothrow move  (tag filter on, fast double)
struct NKey {
  uint64_t v;
  NKey() : v(0) {}
  explicit NKey(uint64_t x) : v(x) {}
  NKey(const NKey &o) : v(o.v) {}
  NKey(NKey &&o) noexcept : v(o.v) {}
  NKey &operator=(const NKey &o) { v = o.v; return *this; }
  bool operator==(const NKey &o) const { return v == o.v; }
};
// kind 2: key whose move constructor may throw (automatic expansion rebuilds)
struct TKey {
  uint64_t v;
  TKey() : v(0) {}
  explicit TKey(uint64_t x) : v(x) {}
  TKey(const TKey &o) : v(o.v) {}
  TKey(TKey &&o) noexcept(false) : v(o.v) {}
  TKey &operator=(const TKey &o) { v = o.v; return *this; }
  bool operator==(const TKey &o) const { return v == o.v; }
};
inline uint64_t keyval(uint64_t k) { return k; }
inline uint64_t keyval(const NKey &k) { return k.v; }
inline uint64_t keyval(const TKey &k) { return k.v; }
template <class K> struct MakeKey { static K make(uint64_t v) { return K(v); } };
template <> struct MakeKey<uint64_t> { static uint64_t make(uint64_t v) { return v; } };

struct VHash {
  template <class K> size_t operator()(const K &k) const { return hashfn(g_hash_mode, keyval(k)); }
};

// ---- allocator: counts, limits, and can fail the k-th allocation ----
struct AllocCtl {
  static std::atomic<long> live_bytes;
  static std::atomic<long> n_allocs;
  static std::atomic<long> fail_at;    // fail the allocation with this ordinal (1-based); 0 = never
  static std::atomic<size_t> max_elems; // element-count limit per allocation (hpLimit)
  // where an injected failure is announced (K5 children: the pipe to the parent), so that a crash that follows can
  // be attributed to the allocation that failed: "@<mangled element type>;"
  static int &note_fd() { static int fd = -1; return fd; }
  template <class T> static void note_fault() {
    int fd = note_fd();
    if (fd < 0) return;
    std::string s = std::string("@") + typeid(T).name() + ";";
    ssize_t r = ::write(fd, s.data(), s.size());
    (void)r;
  }
};
#ifndef VH_APOL
template <class T> struct VAlloc {
  using value_type = T;
  VAlloc() noexcept {}
  template <class U> VAlloc(const VAlloc<U> &) noexcept {}
  T *allocate(size_t n) {
    long k = ++AllocCtl::n_allocs;
    long f = AllocCtl::fail_at.load();
    if (f != 0 && k == f) { AllocCtl::note_fault<T>(); throw std::bad_alloc(); }
    if (n > AllocCtl::max_elems.load()) throw std::bad_alloc();
    AllocCtl::live_bytes += (long)(n * sizeof(T));
    return static_cast<T *>(::operator new(n * sizeof(T), std::align_val_t(alignof(T) > 16 ? alignof(T) : 16)));
  }
  void deallocate(T *p, size_t n) noexcept {
    AllocCtl::live_bytes -= (long)(n * sizeof(T));
    ::operator delete(p, std::align_val_t(alignof(T) > 16 ? alignof(T) : 16));
  }
  template <class U> bool operator==(const VAlloc<U> &) const noexcept { return true; }
  template <class U> bool operator!=(const VAlloc<U> &) const noexcept { return false; }
};
#else
// Identity-carrying allocator for the allocator-policy streams (C11): instances compare by `id`, the three propagation
// traits come from the bits of VH_APOL (1 = copy assignment, 2 = move assignment, 4 = swap), and every block remembers
// which instance allocated it, so that a block returned through a different (unequal) instance is counted.
struct AllocReg {
  static std::mutex &mu() { static std::mutex m; return m; }
  static std::map<const void *, int> &owner() { static std::map<const void *, int> m; return m; }
  static std::atomic<long> &mismatches() { static std::atomic<long> n{0}; return n; }
  static int owner_of(const void *p) {
    std::lock_guard<std::mutex> lk(mu());
    auto it = owner().find(p);
    return it == owner().end() ? -1 : it->second;
  }
};
template <class T> struct VAlloc {
  using value_type = T;
  using propagate_on_container_copy_assignment = std::integral_constant<bool, (VH_APOL & 1) != 0>;
  using propagate_on_container_move_assignment = std::integral_constant<bool, (VH_APOL & 2) != 0>;
  using propagate_on_container_swap = std::integral_constant<bool, (VH_APOL & 4) != 0>;
  using is_always_equal = std::false_type;
  int id = 0;
  VAlloc() noexcept {}
  explicit VAlloc(int i) noexcept : id(i) {}
  template <class U> VAlloc(const VAlloc<U> &o) noexcept : id(o.id) {}
  T *allocate(size_t n) {
    long k = ++AllocCtl::n_allocs;
    long f = AllocCtl::fail_at.load();
    if (f != 0 && k == f) throw std::bad_alloc();
    if (n > AllocCtl::max_elems.load()) throw std::bad_alloc();
    AllocCtl::live_bytes += (long)(n * sizeof(T));
    T *p = static_cast<T *>(::operator new(n * sizeof(T), std::align_val_t(alignof(T) > 16 ? alignof(T) : 16)));
    std::lock_guard<std::mutex> lk(AllocReg::mu());
    AllocReg::owner()[p] = id;
    return p;
  }
  void deallocate(T *p, size_t n) noexcept {
    AllocCtl::live_bytes -= (long)(n * sizeof(T));
    {
      std::lock_guard<std::mutex> lk(AllocReg::mu());
      auto it = AllocReg::owner().find(p);
      if (it == AllocReg::owner().end() || it->second != id) ++AllocReg::mismatches();
      if (it != AllocReg::owner().end()) AllocReg::owner().erase(it);
    }
    ::operator delete(p, std::align_val_t(alignof(T) > 16 ? alignof(T) : 16));
  }
  template <class U> bool operator==(const VAlloc<U> &o) const noexcept { return id == o.id; }
  template <class U> bool operator!=(const VAlloc<U> &o) const noexcept { return id != o.id; }
};
#endif

// ---- digest (mirrors Driver.digest) ----
inline uint64_t mix(uint64_t h, uint64_t x) { return (h ^ x) * 1099511628211ULL; }

template <class BC> uint64_t digest_cells(uint64_t h, BC &bc, size_t S, bool with_val) {
  size_t nb = bc.size();
  for (size_t b = 0; b < nb; ++b) {
    auto &bk = bc[b];
    for (size_t s = 0; s < S; ++s) {
      if (bk.occupied(s)) {
        h = mix(mix(mix(h, b * S + s), bk.partial(s)), keyval(bk.key(s)));
        if (with_val) h = mix(h, (uint64_t)bk.mapped(s));
      }
    }
  }
  return h;
}

template <class M> std::string digest(M &m) {
  constexpr size_t S = M::slot_per_bucket();
  auto &cur = Access::buckets(m);
  auto &old = Access::old_buckets(m);
  auto &gens = Access::all_locks(m);
  uint64_t h = 1469598103934665603ULL;
  h = mix(h, cur.hashpower());
  h = mix(h, Access::rc(m));
  h = mix(h, Access::rem(m));
  h = mix(h, old.is_deallocated() ? 0 : 1 + old.hashpower());
  h = mix(h, m.maximum_hashpower());
  double mlf = m.minimum_load_factor();
  uint64_t mb; memcpy(&mb, &mlf, 8);
  h = mix(h, mb);
  h = mix(h, m.max_num_worker_threads());
  size_t ngens = 0, nlocks = 0;
  for (auto it = gens.begin(); it != gens.end(); ++it) {
    auto nx = it; ++nx;
    if (nx != gens.end()) { h = mix(h, it->size()); ++ngens; }
    else {
      nlocks = it->size();
      h = mix(h, it->size());
      for (auto &l : *it) { h = mix(mix(h, (uint64_t)l.elem_counter()), l.is_migrated() ? 1 : 0); }
    }
  }
  h = digest_cells(h, cur, S, true);
  if (!old.is_deallocated()) h = digest_cells(h, old, S, false);
  char buf[256];
  std::string olds = old.is_deallocated() ? "-" : std::to_string(old.hashpower());
  snprintf(buf, sizeof buf, "D hp=%zu rc=%zu rem=%zu old=%s nlocks=%zu gens=%zu size=%zu h=%llu", (size_t)cur.hashpower(),
           Access::rc(m), Access::rem(m), olds.c_str(), nlocks, ngens, m.size(), (unsigned long long)h);
  return buf;
}

// structural scan of the real table: the clauses of Cuckoo.Model.Inv (names match Table.checkInv)
template <class M> std::string check_inv(M &m) {
  constexpr size_t S = M::slot_per_bucket();
  const size_t MX = Access::max_num_locks<M>();
  auto &cur = Access::buckets(m);
  auto &old = Access::old_buckets(m);
  auto &gens = Access::all_locks(m);
  std::vector<std::string> bad;
  auto pow2 = [](size_t n) { return n > 0 && (n & (n - 1)) == 0; };
  if (!pow2(MX)) bad.push_back("M_pow");
  if (gens.empty()) return "inv BAD [no-locks]";
  auto &locks = gens.back();
  const size_t hp = cur.hashpower();
  auto wf = [&](decltype(cur) &bc) {
    for (size_t b = 0; b < bc.size(); ++b)
      for (size_t s = 0; s < S; ++s)
        if (bc[b].occupied(s)) {
          size_t h = m.hash_function()(bc[b].key(s));
          uint8_t tg = Access::partial_key<M>(h);
          size_t i1 = Access::index_hash<M>(bc.hashpower(), h), i2 = Access::alt_index<M>(bc.hashpower(), tg, i1);
          if (bc[b].partial(s) != tg || (b != i1 && b != i2)) return false;
        }
    return true;
  };
  if (cur.is_deallocated() || !wf(cur)) bad.push_back("cur_wf");
  if (!pow2(locks.size())) bad.push_back("locks_pow");
  if (locks.size() > MX) bad.push_back("locks_le");
  if (std::min(size_t(1) << hp, MX) > locks.size()) bad.push_back("locks_ge");
  size_t nun = 0;
  for (auto &l : locks) if (!l.is_migrated()) ++nun;
  if (Access::rem(m) != nun) bad.push_back("rem_eq");
  if (Access::rem(m) != 0) {
    if (old.is_deallocated() || !wf(old) || old.hashpower() + 1 != hp || MX > old.size() || locks.size() != MX) bad.push_back("pending");
  }
  auto migrated = [&](size_t b) { size_t l = Access::lock_ind<M>(b); return l < locks.size() && locks[l].is_migrated(); };
  bool ue = true;
  std::vector<uint64_t> keys;
  long live = 0;
  if (!cur.is_deallocated())
    for (size_t b = 0; b < cur.size(); ++b)
      for (size_t s = 0; s < S; ++s)
        if (cur[b].occupied(s)) { if (!migrated(b)) ue = false; keys.push_back(keyval(cur[b].key(s))); ++live; }
  if (!ue) bad.push_back("unmig_empty");
  if (!old.is_deallocated())
    for (size_t b = 0; b < old.size(); ++b)
      for (size_t s = 0; s < S; ++s)
        if (old[b].occupied(s) && Access::lock_ind<M>(b) < locks.size() && !locks[Access::lock_ind<M>(b)].is_migrated()) {
          keys.push_back(keyval(old[b].key(s))); ++live;
        }
  std::sort(keys.begin(), keys.end());
  if (std::adjacent_find(keys.begin(), keys.end()) != keys.end()) bad.push_back("uniq");
  long sum = 0;
  for (auto &l : locks) sum += l.elem_counter();
  if (sum != live) bad.push_back("count");
  if (!(m.maximum_hashpower() == libcuckoo::NO_MAXIMUM_HASHPOWER || hp <= m.maximum_hashpower())) bad.push_back("limit");
  if (bad.empty()) return "inv ok";
  std::string r = "inv BAD [";
  for (size_t i = 0; i < bad.size(); ++i) r += (i ? ", " : "") + bad[i];
  return r + "]";
}

template <class BC> std::string dump_cells(BC &bc, size_t S, bool with_val) {
  std::string s;
  for (size_t b = 0; b < bc.size(); ++b)
    for (size_t j = 0; j < S; ++j)
      if (bc[b].occupied(j)) {
        s += " [" + std::to_string(b) + "," + std::to_string(j) + ":" + std::to_string(bc[b].partial(j)) + ":" +
             std::to_string(keyval(bc[b].key(j))) + "=" + (with_val ? std::to_string((uint64_t)bc[b].mapped(j)) : "?") + "]";
      }
  return s;
}

template <class M> std::string dump(M &m) {
  constexpr size_t S = M::slot_per_bucket();
  auto &cur = Access::buckets(m);
  auto &old = Access::old_buckets(m);
  auto &gens = Access::all_locks(m);
  double mlf = m.minimum_load_factor();
  uint64_t mb; memcpy(&mb, &mlf, 8);
  std::string g = "[", locks;
  bool first = true;
  for (auto it = gens.begin(); it != gens.end(); ++it) {
    auto nx = it; ++nx;
    if (nx != gens.end()) { g += (first ? "" : ", ") + std::to_string(it->size()); first = false; }
    else for (auto &l : *it) locks += " (" + std::to_string(l.elem_counter()) + "," + (l.is_migrated() ? "1" : "0") + ")";
  }
  g += "]";
  std::string o = old.is_deallocated() ? "-" : "hp=" + std::to_string(old.hashpower()) + dump_cells(old, S, true);
  return "DUMP hp=" + std::to_string(cur.hashpower()) + " rc=" + std::to_string(Access::rc(m)) + " rem=" +
         std::to_string(Access::rem(m)) + " mhp=" + std::to_string(m.maximum_hashpower()) + " mlf=" + std::to_string(mb) +
         " workers=" + std::to_string(m.max_num_worker_threads()) + " gens=" + g + " locks:" + locks + " cur:" +
         dump_cells(cur, S, true) + " old: " + o;
}

} // namespace vh
