// K1: evaluates the library's compiled arithmetic on the requests read from stdin
// (same line protocol as the Lean driver's "arith" commands).
#include "../translate/arith_shim.cc"
#include <cstdio>
#include <cstring>
#include <string>
#include <iostream>
#include <sstream>

template <size_t S> using VMS = libcuckoo::cuckoohash_map<int, int, std::hash<int>, std::equal_to<int>,
                                                          std::allocator<std::pair<const int, int>>, S>;
static size_t reserve_calc_S(size_t S, size_t n) {
  switch (S) {
  case 1: return VA::reserve_calc<VMS<1>>(n);
  case 2: return VA::reserve_calc<VMS<2>>(n);
  case 3: return VA::reserve_calc<VMS<3>>(n);
  case 4: return VA::reserve_calc<VMS<4>>(n);
  case 8: return VA::reserve_calc<VMS<8>>(n);
  }
  return ~size_t(0);
}

int main() {
  std::string line;
  while (std::getline(std::cin, line)) {
    std::istringstream is(line);
    std::string tag, op;
    is >> tag >> op;
    unsigned long long a = 0, b = 0, c = 0;
    is >> a >> b >> c;
    unsigned long long r;
    if (op == "hashsize") r = v_hashsize(a);
    else if (op == "hashmask") r = v_hashmask(a);
    else if (op == "partial_key") r = v_partial_key(a);
    else if (op == "index_hash") r = v_index_hash(a, b);
    else if (op == "alt_index") r = v_alt_index(a, (uint8_t)b, c);
    else if (op == "lock_ind") r = v_lock_ind(a);
    else if (op == "reserve_calc") r = reserve_calc_S(a, b);
    else { puts("bad-op"); continue; }
    printf("%llu\n", r);
  }
  return 0;
}
