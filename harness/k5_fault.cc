// K5: fault enumeration and object-lifetime monitoring on the real table (C07, C08).
// Element types are instrumented: every construction / destruction / move is recorded in a registry, so that
// "constructed and destroyed exactly once", "no moved-from object is a live element" and "all memory returned" are
// checked after every request; `sweep <op>` runs <op> once per reachable allocation index k with the k-th allocation
// failing (each trial in a forked child on a copy of the table) and checks failure atomicity.
// Build: g++ -DLIBCUCKOO_VERIF -DLIBCUCKOO_VERIF_MAX_NUM_LOCKS=<M> -DVH_S=<S> -DVH_TMOVE=0|1 -I/repo ...
#include "access.hh"

#include <iostream>
#include <map>
#include <set>
#include <sstream>
#include <dlfcn.h>
#include <pthread.h>
#include <system_error>
#include <sys/wait.h>
#include <unistd.h>

namespace vh {
int g_hash_mode = 0;
std::atomic<long> AllocCtl::live_bytes{0};
std::atomic<long> AllocCtl::n_allocs{0};
std::atomic<long> AllocCtl::fail_at{0};
std::atomic<size_t> AllocCtl::max_elems{~size_t(0)};
} // namespace vh
using namespace vh;

#ifndef VH_S
#define VH_S 4
#endif
#ifndef VH_TMOVE
#define VH_TMOVE 0
#endif

// ---- object registry ----
struct Registry {
  std::map<const void *, int> live; // address -> 1 live, 2 live but moved-from
  long constructed = 0, destroyed = 0, moves = 0;
  std::vector<std::string> errors;
  mutable std::mutex mu;            // helper threads of a resize construct and destroy elements concurrently
  typedef std::lock_guard<std::mutex> G;
  void err(const std::string &s) { if (errors.size() < 8) errors.push_back(s); }
  void ctor(const void *p) { G g(mu); if (live.count(p)) err("object constructed over a live object"); live[p] = 1; ++constructed; }
  void dtor(const void *p) { G g(mu); auto it = live.find(p); if (it == live.end()) err("destruction of an object that is not alive (double destroy?)"); else live.erase(it); ++destroyed; }
  void moved_from(const void *p) { G g(mu); auto it = live.find(p); if (it != live.end()) it->second = 2; ++moves; }
  bool is_live(const void *p) const { G g(mu); auto it = live.find(p); return it != live.end() && it->second == 1; }
  bool is_husk(const void *p) const { G g(mu); auto it = live.find(p); return it != live.end() && it->second == 2; }
} R;

static uint64_t g_poison = ~0ULL;       // equality throws when comparing against this key value
static std::atomic<long> g_ctor_fail_at{0}, g_ctor_count{0}; // value construction from arguments: the k-th throws

// Thread-creation faults: the k-th pthread_create fails with EAGAIN (std::thread then throws std::system_error), as it
// does when the process runs out of threads or of memory for a stack.  The definition in the executable precedes the
// ones of libasan / libc in symbol resolution; the real one is reached through RTLD_NEXT.
static std::atomic<long> g_thr_fail_at{0}, g_thr_count{0};
extern "C" int pthread_create(pthread_t *th, const pthread_attr_t *attr, void *(*fn)(void *), void *arg) {
  typedef int (*real_t)(pthread_t *, const pthread_attr_t *, void *(*)(void *), void *);
  static real_t real = (real_t)dlsym(RTLD_NEXT, "pthread_create");
  long f = g_thr_fail_at.load();
  if (f != 0 && ++g_thr_count == f) {
    int fd = AllocCtl::note_fd();
    if (fd >= 0) { const char m[] = "@pthread_create;"; ssize_t r = ::write(fd, m, sizeof m - 1); (void)r; }
    return EAGAIN;
  }
  return real(th, attr, fn, arg);
}
struct EqThrow {};
struct CtorThrow {};

struct IKey {
  uint64_t v;
  IKey() : v(0) { R.ctor(this); }
  explicit IKey(uint64_t x) : v(x) { R.ctor(this); }
  IKey(const IKey &o) : v(o.v) { R.ctor(this); }
#if VH_TMOVE
  IKey(IKey &&o) noexcept(false) : v(o.v) { R.ctor(this); R.moved_from(&o); }
#else
  IKey(IKey &&o) noexcept : v(o.v) { R.ctor(this); R.moved_from(&o); }
#endif
  ~IKey() { R.dtor(this); }
  IKey &operator=(const IKey &o) { v = o.v; return *this; }
  bool operator==(const IKey &o) const { if (v == g_poison || o.v == g_poison) throw EqThrow(); return v == o.v; }
};
struct IVal {
  uint64_t v;
  IVal() : v(0) { R.ctor(this); }
  // construction from user arguments (may be made to throw)
  explicit IVal(uint64_t x) : v(x) { if (g_ctor_fail_at.load() && ++g_ctor_count == g_ctor_fail_at.load()) throw CtorThrow(); R.ctor(this); }
  IVal(const IVal &o) : v(o.v) { R.ctor(this); }
  IVal(IVal &&o) noexcept : v(o.v) { R.ctor(this); R.moved_from(&o); }
  ~IVal() { R.dtor(this); }
  IVal &operator=(const IVal &o) { v = o.v; return *this; }
  IVal &operator=(IVal &&o) noexcept { v = o.v; R.moved_from(&o); return *this; }
  explicit operator uint64_t() const { return v; }
};
inline uint64_t keyval(const IKey &k) { return k.v; } // found by ADL from the templates in access.hh
// a different type that hashes and compares consistently with IKey (heterogeneous lookup, C16)
struct Probe { uint64_t v; };
inline uint64_t keyval(const Probe &p) { return p.v; }
struct HEq {
  template <class A, class B> bool operator()(const A &a, const B &b) const {
    if (keyval(a) == g_poison || keyval(b) == g_poison) throw EqThrow();
    return keyval(a) == keyval(b);
  }
};

#ifndef VH_BYVAL
#define VH_BYVAL 0
#endif
#if VH_BYVAL
// a hash functor that takes key_type BY VALUE (legal, and common for cheap keys): a key forwarded into it as an rvalue is
// moved from, so the table must hash an lvalue and forward the key only when it constructs the stored element (C16)
struct KHash {
  size_t operator()(IKey k) const { return hashfn(g_hash_mode, k.v); }
  size_t operator()(const Probe &p) const { return hashfn(g_hash_mode, p.v); }
};
#else
using KHash = VHash;
#endif
using Tbl = libcuckoo::cuckoohash_map<IKey, IVal, KHash, HEq, VAlloc<std::pair<const IKey, IVal>>, VH_S>;
using LT = Tbl::locked_table;
using Abs = std::map<uint64_t, uint64_t>;

// contents by direct scan of the live view (no allocation through the table's allocator)
static Abs abs_of(Tbl &t, std::string *problem = nullptr) {
  Abs m;
  constexpr size_t S = VH_S;
  auto &cur = Access::buckets(t);
  auto &old = Access::old_buckets(t);
  auto &gens = Access::all_locks(t);
  if (gens.empty() || cur.is_deallocated()) { if (problem) *problem = "table has no bucket array / lock array"; return m; }
  auto &locks = *std::prev(gens.end());
  auto note = [&](decltype(cur[0]) &bk, size_t s, const char *where) {
    const void *kp = &bk.key(s), *vp = &bk.mapped(s);
    if (problem && problem->empty()) {
      if (R.is_husk(kp) || R.is_husk(vp)) *problem = std::string("a moved-from object is a live element of the ") + where + " array (key " + std::to_string(bk.key(s).v) + ")";
      else if (!R.is_live(kp) || !R.is_live(vp)) *problem = std::string("an occupied slot of the ") + where + " array holds a destroyed object";
    }
    if (m.count(bk.key(s).v) && problem && problem->empty()) *problem = "key " + std::to_string(bk.key(s).v) + " stored twice";
    m[bk.key(s).v] = bk.mapped(s).v;
  };
  for (size_t b = 0; b < cur.size(); ++b) for (size_t s = 0; s < S; ++s) if (cur[b].occupied(s)) note(cur[b], s, "current");
  if (!old.is_deallocated())
    for (size_t b = 0; b < old.size(); ++b) for (size_t s = 0; s < S; ++s)
      if (old[b].occupied(s)) { size_t l = Access::lock_ind<Tbl>(b); if (l < locks.size() && !locks[l].is_migrated()) note(old[b], s, "old"); }
  return m;
}

static std::string probe_locks(Tbl &t) {
  auto &gens = Access::all_locks(t);
  int g = 0;
  for (auto it = gens.begin(); it != gens.end(); ++it, ++g)
    for (size_t i = 0; i < it->size(); ++i) {
      if (!(*it)[i].try_lock()) return "lock (" + std::to_string(g) + "," + std::to_string(i) + ") is held after the call";
      (*it)[i].unlock();
    }
  return "";
}

struct OpSpec { std::string kind; uint64_t a = 0, b = 0; };
static OpSpec parse_op(std::istringstream &is) { OpSpec o; is >> o.kind >> o.a >> o.b; return o; }

// runs one operation; returns canonical result; exceptions -> "err <kind>"
static std::string run_op(Tbl &t, std::unique_ptr<LT> &lt, const OpSpec &o) {
  try {
    if (o.kind == "ins") return t.insert(IKey(o.a), o.b) ? "1" : "0";
    if (o.kind == "ioa") return t.insert_or_assign(IKey(o.a), IVal(o.b)) ? "1" : "0";
    if (o.kind == "ups") return t.upsert(IKey(o.a), [&](IVal &v) { v.v += o.b; }, o.b) ? "1" : "0";
    if (o.kind == "upsthrow") return t.upsert(IKey(o.a), [&](IVal &v) { v.v += o.b; throw EqThrow(); }, o.b) ? "1" : "0";
    if (o.kind == "erase") return t.erase(IKey(o.a)) ? "1" : "0";
    // C16: arguments passed as rvalues of move-tracking types; report the result and whether each was moved from
    if (o.kind == "insmv" || o.kind == "ioamv" || o.kind == "upsmv" || o.kind == "ltinsmv") {
      IKey kk(o.a); IVal vv(o.b);
      bool r;
      if (o.kind == "insmv") r = t.insert(std::move(kk), std::move(vv));
      else if (o.kind == "ioamv") r = t.insert_or_assign(std::move(kk), std::move(vv));
      else if (o.kind == "upsmv") r = t.upsert(std::move(kk), [&](IVal &x) { x.v += 1; }, std::move(vv));
      else { if (!lt) return "nolt"; r = lt->insert(std::move(kk), std::move(vv)).second; }
      bool km = R.is_husk(&kk), vm = R.is_husk(&vv);
      std::string res = std::string(r ? "1" : "0") + " moved=" + (km ? "1" : "0") + "," + (vm ? "1" : "0");
      // contract: consumed exactly when inserted (insert_or_assign assigns from the value on a duplicate: it may move it)
      bool okc = (km == r) && (o.kind == "ioamv" ? (r ? vm : true) : vm == r);
      return okc ? res : "ARGS " + res + " (arguments must be consumed exactly when the call inserts)";
    }
    // C16: arguments passed as LVALUES are never consumed, whatever the call does (insert, duplicate, assign)
    if (o.kind == "inslv" || o.kind == "ioalv" || o.kind == "upslv" || o.kind == "ltinslv") {
      IKey kk(o.a); IVal vv(o.b);
      bool r;
      if (o.kind == "inslv") r = t.insert(kk, vv);
      else if (o.kind == "ioalv") r = t.insert_or_assign(kk, vv);
      else if (o.kind == "upslv") r = t.upsert(kk, [&](IVal &x) { x.v += 1; }, vv);
      else { if (!lt) return "nolt"; r = lt->insert(kk, vv).second; }
      bool km = R.is_husk(&kk), vm = R.is_husk(&vv);
      std::string res = std::string(r ? "1" : "0") + " moved=" + (km ? "1" : "0") + "," + (vm ? "1" : "0");
      if (km || vm || kk.v != o.a || vv.v != o.b) return "ARGS " + res + " (an lvalue argument was moved from or modified)";
      return res;
    }
    // C16: lookups through a compatible non-key type must agree with key_type lookups and construct no key
    if (o.kind == "findp" || o.kind == "erasep" || o.kind == "updp" || o.kind == "containsp") {
      // what key_type itself says (reference for the agreement clause)
      bool present; uint64_t pv = 0;
      { IVal tmp; present = t.find(IKey(o.a), tmp); pv = tmp.v; }
      long c0 = R.constructed;
      std::string res, ref;
      IVal out;
      if (o.kind == "findp") { bool f = t.find(Probe{o.a}, out); res = f ? std::to_string(out.v) : "-"; }
      else if (o.kind == "containsp") res = t.contains(Probe{o.a}) ? "1" : "0";
      else if (o.kind == "updp") res = t.update_fn(Probe{o.a}, [&](IVal &x) { x.v = o.b; }) ? "1" : "0";
      else res = t.erase(Probe{o.a}) ? "1" : "0";
      long made = R.constructed - c0 - 1; // `out` itself
      std::string want = o.kind == "findp" ? (present ? std::to_string(pv) : "-") : (present ? "1" : "0");
      if (res != want) return "HETERO " + res + " (a lookup through a compatible type answers " + res + ", through key_type " + want + ")";
      if (made > 0) return "HETERO " + res + " (a lookup through a compatible type constructed " + std::to_string(made) + " key/value object(s))";
      return res;
    }
    // C16, through the locked table: find / count / erase with a compatible type must agree with key_type and build no key
    if (o.kind == "ltfindp" || o.kind == "ltcountp" || o.kind == "lterasep") {
      if (!lt) return "nolt";
      bool present = lt->find(IKey(o.a)) != lt->end();
      long c0 = R.constructed;
      std::string res;
      if (o.kind == "ltfindp") res = lt->find(Probe{o.a}) != lt->end() ? "1" : "0";
      else if (o.kind == "ltcountp") res = std::to_string(lt->count(Probe{o.a}));
      else res = std::to_string(lt->erase(Probe{o.a}));
      long made = R.constructed - c0;
      std::string want = present ? "1" : "0";
      if (res != want) return "HETERO " + res + " (a locked-table lookup through a compatible type answers " + res + ", through key_type " + want + ")";
      if (made > 0) return "HETERO " + res + " (a locked-table lookup through a compatible type constructed " + std::to_string(made) + " key/value object(s))";
      return res;
    }
    if (o.kind == "find") { IVal v; return t.find(IKey(o.a), v) ? std::to_string(v.v) : "-"; }
    if (o.kind == "upd") return t.update(IKey(o.a), IVal(o.b)) ? "1" : "0";
    if (o.kind == "rehash") return t.rehash(o.a) ? "1" : "0";
    if (o.kind == "reserve") return t.reserve(o.a) ? "1" : "0";
    if (o.kind == "clear") { t.clear(); return "ok"; }
    if (o.kind == "lock") { lt.reset(new LT(t.lock_table())); return "ok"; }
    if (o.kind == "unlock") { lt.reset(); return "ok"; }
    if (o.kind == "ltins") { if (!lt) return "nolt"; return lt->insert(IKey(o.a), o.b).second ? "1" : "0"; }
    if (o.kind == "lterase") { if (!lt) return "nolt"; return std::to_string(lt->erase(IKey(o.a))); }
    if (o.kind == "ltrehash") { if (!lt) return "nolt"; lt->rehash(o.a); return "ok"; }
    if (o.kind == "ltreserve") { if (!lt) return "nolt"; lt->reserve(o.a); return "ok"; }
    if (o.kind == "copy") { Tbl c(t); return "ok " + std::to_string(c.size()); }
    if (o.kind == "move") { Tbl c(t); Tbl d(std::move(c)); return "ok " + std::to_string(d.size()); }
    if (o.kind == "assign") {
      // copy-assign INTO this table from a freshly built source with o.a elements (built before the fault is armed? no:
      // the source is built first with faults suspended)
      long save = AllocCtl::fail_at.exchange(0);
      long cnt = AllocCtl::n_allocs.load();
      Tbl src(8);
      src.minimum_load_factor(0);
      for (uint64_t i = 0; i < o.a; ++i) src.insert(IKey(700000 + i), i);
      // assignment transfers the settings too: hand over the destination's own minimum load factor, so that a table with
      // colliding hashes keeps the threshold that stops its expansions (a minimum of 0 would let one insertion double the
      // table until memory runs out - the harness was killed by the OOM killer in the thorough tier)
      src.minimum_load_factor(t.minimum_load_factor());
      AllocCtl::n_allocs = cnt; AllocCtl::fail_at = save;
      t = src;
      return "ok " + std::to_string(t.size());
    }
    if (o.kind == "moveassign") {
      long save = AllocCtl::fail_at.exchange(0);
      long cnt = AllocCtl::n_allocs.load();
      Tbl src(8);
      src.minimum_load_factor(0);
      for (uint64_t i = 0; i < o.a; ++i) src.insert(IKey(700000 + i), i);
      src.minimum_load_factor(t.minimum_load_factor());
      AllocCtl::n_allocs = cnt; AllocCtl::fail_at = save;
      t = std::move(src);
      return "ok " + std::to_string(t.size());
    }
    return "bad-op";
  } catch (std::bad_alloc &) { return "err badalloc";
  } catch (libcuckoo::load_factor_too_low &) { return "err lftl";
  } catch (libcuckoo::maximum_hashpower_exceeded &) { return "err maxhp";
  } catch (EqThrow &) { return "err eqthrow";
  } catch (CtorThrow &) { return "err ctorthrow";
  } catch (std::system_error &) { return "err syserr"; }
}

static bool is_resize(const OpSpec &o) { return o.kind == "rehash" || o.kind == "reserve"; }

// one fault trial on a copy; returns "" if all good, "done" if the fault did not fire, else the violation
static std::string trial(Tbl &orig, const OpSpec &o, long k, bool locked, const char *mode) {
  Abs base = abs_of(orig);
  Tbl c(orig);
  std::unique_ptr<LT> lt;
  if (locked) lt.reset(new LT(c.lock_table()));
  size_t pre_hp = c.hashpower();
  const size_t pre_gens = Access::all_locks(c).size();
  const size_t pre_rc = Access::rc(c);
  std::string r;
  bool fired;
  if (std::string(mode) == "alloc") {
    AllocCtl::n_allocs = 0; AllocCtl::fail_at = k;
    r = run_op(c, lt, o);
    fired = AllocCtl::n_allocs.load() >= k;
    AllocCtl::fail_at = 0;
  } else if (std::string(mode) == "thread") {
    g_thr_count = 0; g_thr_fail_at = k;
    r = run_op(c, lt, o);
    fired = g_thr_count >= k;
    g_thr_fail_at = 0;
  } else {
    g_ctor_count = 0; g_ctor_fail_at = k;
    r = run_op(c, lt, o);
    fired = g_ctor_count >= k;
    g_ctor_fail_at = 0;
  }
  if (!fired) return "done";
  const char *want = std::string(mode) == "alloc" ? "err badalloc" : std::string(mode) == "thread" ? "err syserr" : "err ctorthrow";
  if (r.rfind("BAD", 0) == 0) return r.substr(4);
  if (r != want) {
    if (r.rfind("err", 0) == 0) return "the failure reached the caller as a different exception: result \"" + r + "\"";
    // The call absorbed the failure and reported success.  That is allowed only if it then had its complete normal
    // effect: same answer, contents, hashpower and structure as a fault-free run from the same state.
    Tbl ref(orig);
    std::unique_ptr<LT> lref;
    if (locked) lref.reset(new LT(ref.lock_table()));
    std::string r2 = run_op(ref, lref, o);
    lref.reset();
    if (lt) lt.reset();
    if (r2 != r) return "the failure did not reach the caller and the call answered \"" + r + "\" where a fault-free run answers \"" + r2 + "\"";
    std::string p1, p2;
    Abs a1 = abs_of(c, &p1), a2 = abs_of(ref, &p2);
    if (!p1.empty()) return "the failure was swallowed and " + p1;
    if (a1 != a2) return "the failure was swallowed and the call did not have its normal effect (contents differ from a fault-free run)";
    // (with helper threads a rebuild inserts in a timing-dependent order, so nested expansions and the final
    // hashpower may legitimately differ between two runs)
    if (c.max_num_worker_threads() == 0 && c.hashpower() != ref.hashpower()) return "the failure was swallowed and the hashpower differs from a fault-free run";
    std::string inv = check_inv(c);
    if (inv != "inv ok") return "the failure was swallowed and the table is left in a broken state: " + inv;
    std::string pl = probe_locks(c);
    if (!pl.empty()) return pl;
    if (!R.errors.empty()) return "lifetime: " + R.errors[0];
    return "";
  }
  if (lt) lt.reset();
  // whatever the failed call did before it failed must be published the way every resize publishes it: a lock array that
  // became current without an advance of the resize counter lets a thread that is parked on a lock of the superseded array
  // pass its re-validation and run next to holders of the new array's locks
  if (Access::all_locks(c).size() != pre_gens && Access::rc(c) == pre_rc)
    return "the failed call appended a lock array without advancing the resize counter (operations parked on the superseded array would pass re-validation: exclusive access lost)";
  std::string p;
  Abs now = abs_of(c, &p);
  if (!p.empty()) return p;
  if (now != base) {
    std::string msg = "contents changed by the failed call (" + std::to_string(base.size()) + " pairs before, " + std::to_string(now.size()) + " after, or a value differs)";
    // quiescent again: size() must be the number of pairs the table holds NOW, whatever the failed call did to them
    if (c.size() != now.size()) msg += "; size() " + std::to_string(c.size()) + " != number of pairs " + std::to_string(now.size()) + " now in the table";
    return msg;
  }
  if (is_resize(o) && c.hashpower() != pre_hp) return "failed " + o.kind + " changed the hashpower from " + std::to_string(pre_hp) + " to " + std::to_string(c.hashpower());
  std::string inv = check_inv(c);
  if (inv != "inv ok") return "table left in a broken state: " + inv;
  if (c.size() != base.size()) return "size() " + std::to_string(c.size()) + " != number of pairs " + std::to_string(base.size());
  std::string pl = probe_locks(c);
  if (!pl.empty()) return pl;
  // still usable (an expansion refused by the table's own policy is not a failure of usability)
  try {
    for (uint64_t x = 900000; x < 900012; ++x) { if (!c.insert(IKey(x), x)) return "table unusable after the failure (insert of a fresh key reports duplicate)"; }
    for (uint64_t x = 900000; x < 900012; ++x) { IVal v; if (!c.find(IKey(x), v) || v.v != x) return "table unusable after the failure (fresh key not found)"; }
  } catch (libcuckoo::load_factor_too_low &) {
  } catch (libcuckoo::maximum_hashpower_exceeded &) {
  }
  for (auto &kv : base) { IVal v; if (!c.find(IKey(kv.first), v) || v.v != kv.second) return "key " + std::to_string(kv.first) + " lost after the failure"; }
  if (!R.errors.empty()) return "lifetime: " + R.errors[0];
  return "";
}

// sweep over k in forked children (a crash is a result)
static std::string sweep(Tbl &t, const OpSpec &o, bool locked, const char *mode) {
  long n = 0;
  for (long k = 1; k <= 400; ++k) {
    int fd[2];
    if (pipe(fd) != 0) return "sweep: pipe failed";
    fflush(stdout);
    pid_t pid = fork();
    if (pid == 0) {
      close(fd[0]);
      AllocCtl::note_fd() = fd[1];
      long live0 = AllocCtl::live_bytes.load();
      size_t objs0 = R.live.size();
      std::string res;
      {
        res = trial(t, o, k, locked, mode);
      }
      if (res.empty()) {
        if (AllocCtl::live_bytes.load() != live0) res = "memory leaked by the failed call and the destruction of the table: " + std::to_string(AllocCtl::live_bytes.load() - live0) + " bytes";
        else if (R.live.size() != objs0) res = "objects leaked (constructed but never destroyed): " + std::to_string((long)R.live.size() - (long)objs0);
        else if (!R.errors.empty()) res = "lifetime: " + R.errors[0];
      }
      if (res.empty()) res = "ok";
      (void)!write(fd[1], res.data(), res.size());
      close(fd[1]);
      _exit(0);
    }
    close(fd[1]);
    std::string res; char buf[512]; ssize_t m;
    while ((m = read(fd[0], buf, sizeof buf)) > 0) res.append(buf, buf + m);
    close(fd[0]);
    int st = 0; waitpid(pid, &st, 0);
    // strip the "@type;" announcements of injected failures
    std::string notes;
    while (!res.empty() && res[0] == '@') { size_t e = res.find(';'); if (e == std::string::npos) { notes += res; res.clear(); break; } notes += res.substr(1, e - 1) + " "; res = res.substr(e + 1); }
    if (!WIFEXITED(st) || WEXITSTATUS(st) != 0) return "FAIL k=" + std::to_string(k) + " the process crashed (signal " + std::to_string(WIFSIGNALED(st) ? WTERMSIG(st) : -1) + ") during or after the failed call; workers=" + std::to_string(t.max_num_worker_threads()) + " failed-allocation-of=" + (notes.empty() ? "-" : notes);
    if (res == "done") { n = k - 1; return "swept n=" + std::to_string(n); }
    if (res != "ok") return "FAIL k=" + std::to_string(k) + " " + res;
  }
  return "swept n>=400";
}

int main() {
  std::ios::sync_with_stdio(false);
  std::unique_ptr<Tbl> t;
  std::unique_ptr<LT> lt;
  std::string line;
  while (std::getline(std::cin, line)) {
    // "ifpending <request>": only while deferred migration is pending (otherwise answered "skip")
    if (line.rfind("ifpending ", 0) == 0) {
      if (!t || Access::rem(*t) == 0) { fputs("skip\n", stdout); continue; }
      line = line.substr(10);
    }
    std::istringstream is(line);
    std::string w; is >> w;
    std::string out;
    if (w == "cfg") { int hm; double mlf; is >> hm; g_hash_mode = hm; out = "ok"; }
    else if (w == "new") { size_t n; is >> n; lt.reset(); t.reset(new Tbl(n)); out = "ok"; }
    else if (w == "workers") { size_t x; is >> x; t->max_num_worker_threads(x); out = "ok"; }
    else if (w == "mlf") { double x; is >> x; t->minimum_load_factor(x); out = "ok"; }
    else if (w == "mhp") { size_t x; is >> x; try { t->maximum_hashpower(x); out = "ok"; } catch (std::invalid_argument &) { out = "err invalid"; } }
    else if (w == "poison") { is >> g_poison; out = "ok"; }
    else if (w == "scan") {
      std::string p; Abs m = abs_of(*t, &p);
      if (p.empty() && !R.errors.empty()) p = "lifetime: " + R.errors[0];
      if (p.empty() && t->size() != m.size() && !lt) p = "size() " + std::to_string(t->size()) + " != pairs " + std::to_string(m.size());
      if (p.empty()) { std::string inv = check_inv(*t); if (inv != "inv ok") p = inv; }
      // every registered live object must belong to an occupied slot (nothing constructed and forgotten): two objects
      // (key, value) per occupied cell of the current array and of the superseded array while it is allocated
      if (p.empty()) {
        size_t cells = 0;
        auto &cur = Access::buckets(*t);
        auto &old = Access::old_buckets(*t);
        for (size_t b = 0; b < cur.size(); ++b) for (size_t s2 = 0; s2 < (size_t)VH_S; ++s2) if (cur[b].occupied(s2)) ++cells;
        if (!old.is_deallocated())
          for (size_t b = 0; b < old.size(); ++b) for (size_t s2 = 0; s2 < (size_t)VH_S; ++s2) if (old[b].occupied(s2)) ++cells;
        if (R.live.size() != 2 * cells)
          p = "lifetime: " + std::to_string(R.live.size()) + " key/value objects are alive but the table's arrays hold " + std::to_string(cells) +
              " occupied cells (an object was leaked, i.e. never destroyed, or destroyed while its cell is occupied)";
      }
      out = p.empty() ? "scan ok n=" + std::to_string(m.size()) + " objs=" + std::to_string(R.live.size()) : "scan BAD " + p;
    }
    else if (w == "sweep" || w == "ltsweep" || w == "ctorsweep" || w == "thrsweep" || w == "ltthrsweep") {
      OpSpec o = parse_op(is);
      // a locked-table request needs a locked table whichever sweep runs it (`ctorsweep ltins` used to run without one and
      // swept nothing)
      out = sweep(*t, o, w == "ltsweep" || w == "ltthrsweep" || o.kind.rfind("lt", 0) == 0, w == "ctorsweep" ? "ctor" : (w == "thrsweep" || w == "ltthrsweep") ? "thread" : "alloc");
    }
    else if (w == "destroy") {
      lt.reset(); t.reset();
      if (AllocCtl::live_bytes.load() != 0) out = "destroy BAD " + std::to_string(AllocCtl::live_bytes.load()) + " bytes not returned";
      else if (!R.live.empty()) out = "destroy BAD " + std::to_string(R.live.size()) + " objects never destroyed";
      else if (!R.errors.empty()) out = "destroy BAD lifetime: " + R.errors[0];
      else out = "destroy ok constructed=" + std::to_string(R.constructed) + " destroyed=" + std::to_string(R.destroyed);
    }
    else if (w == "oldfreed") {
      // the superseded bucket array must be released as soon as its last stripe has migrated
      bool pending = Access::rem(*t) != 0;
      bool alloc = !Access::old_buckets(*t).is_deallocated();
      out = (!pending && alloc && Access::rc(*t) > 0) ? "oldfreed BAD old bucket array still allocated although no stripe is pending" : "oldfreed ok";
    }
    else {
      std::istringstream is2(line);
      OpSpec o = parse_op(is2);
      if (!t) out = "bad-table"; else out = run_op(*t, lt, o);
    }
    fputs(out.c_str(), stdout); fputc('\n', stdout);
  }
  return 0;
}
