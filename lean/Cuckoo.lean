import Cuckoo.Gen.Arith
import Cuckoo.Gen.Consts
import Cuckoo.Arith.Spec
import Cuckoo.Arith.Lemmas
import Cuckoo.Arith.Link
import Cuckoo.Props.C13
