/-
Nat-level specification of libcuckoo's index arithmetic.  The executable model
(`Cuckoo/Model`) uses these definitions; `Cuckoo/Arith/Link.lean` proves that the
functions generated from the C++ source (`Cuckoo/Gen/Arith.lean`) compute exactly these.
-/
namespace Cuckoo.Spec

/-- number of buckets for a hashpower -/
def hashsize (hp : Nat) : Nat := 2 ^ hp

/-- `hashmask hp` as a number -/
def hashmask (hp : Nat) : Nat := 2 ^ hp - 1

/-- first candidate bucket -/
def indexHash (hp h : Nat) : Nat := h % 2 ^ hp

/-- the MurmurHash2 multiplier used by `alt_index` -/
def altMul : Nat := 0xc6a4a7935bd1e995

/-- the (non-zero) odd multiple the tag contributes -/
def tagMul (tag : Nat) : Nat := ((tag + 1) * altMul) % 2 ^ 64

/-- alternate candidate bucket -/
def altIndex (hp tag i : Nat) : Nat := (i ^^^ tagMul tag) % 2 ^ hp

/-- 8-bit partial key: xor-fold of the eight bytes of the hash -/
def partialKey (h : Nat) : Nat :=
  (h % 256) ^^^ ((h >>> 8) % 256) ^^^ ((h >>> 16) % 256) ^^^ ((h >>> 24) % 256) ^^^
  ((h >>> 32) % 256) ^^^ ((h >>> 40) % 256) ^^^ ((h >>> 48) % 256) ^^^ ((h >>> 56) % 256)

/-- lock stripe of a bucket for a stripe limit `M` -/
def lockInd (M i : Nat) : Nat := i % M

/-- smallest `b ≥ from` with `need ≤ 2^b`, searching at most `fuel` steps -/
def log2ceilFrom (need : Nat) : Nat → Nat → Nat
  | 0, b => b
  | fuel + 1, b => if 2 ^ b < need then log2ceilFrom need fuel (b + 1) else b

/-- `reserve_calc`: smallest hashpower whose bucket count holds `n` elements with `S` slots per bucket -/
def reserveCalc (S n : Nat) : Nat := log2ceilFrom ((n + S - 1) / S) 66 0

end Cuckoo.Spec
