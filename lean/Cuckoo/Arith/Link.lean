import Cuckoo.Gen.Arith
import Cuckoo.Gen.Consts
import Cuckoo.Arith.Spec
import Cuckoo.Arith.Lemmas
/-!
Link lemmas: each function generated from the C++ source equals the Nat-level
specification used by the model (on hashpowers below 64, where the C++ shift is defined).
Only these lemmas depend on the shape of the generated code.
-/
namespace Cuckoo.Link
open Cuckoo

theorem hashsize_toNat (hp : BitVec 64) (h : hp.toNat < 64) :
    (Gen.hashsize hp).toNat = Spec.hashsize hp.toNat := by
  unfold Gen.hashsize Spec.hashsize
  simp only [BitVec.shiftLeft_eq', BitVec.toNat_shiftLeft, BitVec.toNat_ofNat, Nat.shiftLeft_eq]
  have : 2 ^ hp.toNat < 2 ^ 64 := Nat.pow_lt_pow_right (by omega) h
  simp [Nat.mod_eq_of_lt this]

theorem hashmask_toNat (hp : BitVec 64) (h : hp.toNat < 64) :
    (Gen.hashmask hp).toNat = Spec.hashmask hp.toNat := by
  unfold Gen.hashmask Spec.hashmask
  have hs := hashsize_toNat hp h
  unfold Spec.hashsize at hs
  have hpos : 0 < 2 ^ hp.toNat := Nat.pow_pos (by omega)
  have : (1#64).toNat ≤ (Gen.hashsize hp).toNat := by rw [hs]; simp; omega
  simp only []
  rw [BitVec.toNat_sub_of_le (by simpa [BitVec.le_def] using this), hs]
  simp

theorem index_hash_toNat (hp hv : BitVec 64) (h : hp.toNat < 64) :
    (Gen.index_hash hp hv).toNat = Spec.indexHash hp.toNat hv.toNat := by
  unfold Gen.index_hash Spec.indexHash
  simp only [BitVec.toNat_and, hashmask_toNat hp h, Spec.hashmask, Nat.and_two_pow_sub_one_eq_mod]

theorem tagMul_eq (p : BitVec 8) :
    ((BitVec.setWidth 64 p + 1#64) * 14313749767032793493#64).toNat = Spec.tagMul p.toNat := by
  unfold Spec.tagMul Spec.altMul
  have hp : p.toNat < 256 := p.isLt
  rw [BitVec.toNat_mul, BitVec.toNat_add, BitVec.toNat_setWidth]
  have h1 : p.toNat % 2 ^ 64 = p.toNat := Nat.mod_eq_of_lt (by omega)
  rw [h1]
  have e1 : (1#64).toNat = 1 := rfl
  have e2 : (14313749767032793493#64).toNat = 0xc6a4a7935bd1e995 := by decide
  rw [e1, e2, Nat.mod_eq_of_lt (a := p.toNat + 1) (by omega)]

theorem alt_index_toNat (hp : BitVec 64) (p : BitVec 8) (i : BitVec 64) (h : hp.toNat < 64) :
    (Gen.alt_index hp p i).toNat = Spec.altIndex hp.toNat p.toNat i.toNat := by
  unfold Gen.alt_index Spec.altIndex
  simp only [BitVec.toNat_and, BitVec.toNat_xor, hashmask_toNat hp h, Spec.hashmask,
    Nat.and_two_pow_sub_one_eq_mod, tagMul_eq]

theorem kMaxNumLocks_eq : Gen.Consts.kMaxNumLocks = 2 ^ 16 := by decide

/-- `lock_ind` masks with `kMaxNumLocks - 1`, i.e. reduces modulo the (power-of-two) stripe limit -/
theorem lock_ind_toNat (i : BitVec 64) :
    (Gen.lock_ind i).toNat = Spec.lockInd Gen.Consts.kMaxNumLocks i.toNat := by
  unfold Gen.lock_ind Spec.lockInd
  simp only [BitVec.toNat_and, BitVec.toNat_ofNat]
  have : (65535 : Nat) % 2 ^ 64 = 2 ^ 16 - 1 := by decide
  rw [this, Nat.and_two_pow_sub_one_eq_mod, kMaxNumLocks_eq]

/-- xor-fold of the eight bytes, at the BitVec level -/
def pkBV (h : BitVec 64) : BitVec 8 :=
  h.extractLsb' 0 8 ^^^ h.extractLsb' 8 8 ^^^ h.extractLsb' 16 8 ^^^ h.extractLsb' 24 8 ^^^
  h.extractLsb' 32 8 ^^^ h.extractLsb' 40 8 ^^^ h.extractLsb' 48 8 ^^^ h.extractLsb' 56 8

theorem partial_key_eq_pkBV (h : BitVec 64) : Gen.partial_key h = pkBV h := by
  unfold Gen.partial_key pkBV
  ext i hi
  have h1 : 16 + i < 32 := by omega
  have h2 : 8 + i < 32 := by omega
  have h3 : ¬ (32 ≤ i) := by omega
  have h4 : 8 + i < 16 := by omega
  have h5 : 16 + (8 + i) < 32 := by omega
  simp [BitVec.getLsbD_sshiftRight, h1, h2, h3, h4, h5]
  rw [show 32 + (16 + i) = 48 + i by omega, show 32 + (8 + i) = 40 + i by omega,
      show 16 + (8 + i) = 24 + i by omega, show 32 + (24 + i) = 56 + i by omega]
  generalize h.getLsbD (8+i) = a
  generalize h.getLsbD (16+i) = b
  generalize h.getLsbD (32+i) = c
  generalize h.getLsbD (24+i) = d
  generalize h.getLsbD (40+i) = e
  generalize h.getLsbD (48+i) = f
  generalize h.getLsbD (56+i) = g
  cases a <;> cases b <;> cases c <;> cases d <;> cases e <;> cases f <;> cases g <;> rfl

theorem pkBV_toNat (h : BitVec 64) : (pkBV h).toNat = Spec.partialKey h.toNat := by
  unfold pkBV Spec.partialKey
  simp only [BitVec.toNat_xor, BitVec.extractLsb'_toNat, Nat.shiftRight_zero]

theorem partial_key_toNat (h : BitVec 64) :
    (Gen.partial_key h).toNat = Spec.partialKey h.toNat := by
  rw [partial_key_eq_pkBV, pkBV_toNat]

theorem slot_per_bucket_eq : Gen.slot_per_bucket.toNat = Gen.Consts.DEFAULT_SLOT_PER_BUCKET := by decide

theorem reserve_loop (need : BitVec 64) (hneed : need.toNat ≤ 2 ^ 62) (fuel : Nat) (p : BitVec 64)
    (a0 : BitVec 64) (v2 : BitVec 16) (v3 v4 v5 : BitVec 64) (v6 : BitVec 16) (v7 : BitVec 64)
    (hp : p.toNat + fuel = 66) (hp2 : p.toNat ≤ 63) :
    ∃ r, Gen.reserve_calc.loop fuel a0 v2 v3 v4 v5 v6 v7 need p = some r ∧
      r.toNat = Spec.log2ceilFrom need.toNat fuel p.toNat := by
  induction fuel generalizing p with
  | zero => omega
  | succ f ih =>
    unfold Gen.reserve_calc.loop Spec.log2ceilFrom
    have hsh : ((1#64) <<< p).toNat = 2 ^ p.toNat := by
      simp only [BitVec.shiftLeft_eq', BitVec.toNat_shiftLeft, BitVec.toNat_ofNat, Nat.shiftLeft_eq]
      have : 2 ^ p.toNat < 2 ^ 64 := Nat.pow_lt_pow_right (by omega) (by omega)
      simp [Nat.mod_eq_of_lt this]
    simp only [BitVec.ult, hsh]
    by_cases hlt : 2 ^ p.toNat < need.toNat
    · have hp63 : p.toNat < 62 := Nat.lt_of_not_le fun hc => by
        have : 2 ^ 62 ≤ 2 ^ p.toNat := Nat.pow_le_pow_right (by omega) hc
        omega
      simp only [hlt, decide_true, BitVec.ofBool_true, ↓reduceIte]
      have hp1 : (p + 1#64).toNat = p.toNat + 1 := by
        rw [BitVec.toNat_add]; simp; omega
      have := ih (p + 1#64) (by omega) (by omega)
      rw [hp1] at this
      exact this
    · simp [hlt]

/-- `reserve_calc` (instantiated with the default slots per bucket) terminates within its fuel and
computes the specification, for every request up to `2^62` slots -/
theorem reserve_calc_toNat (n : BitVec 64) (hn : n.toNat ≤ 2 ^ 62) :
    ∃ r, Gen.reserve_calc n = some r ∧
      r.toNat = Spec.reserveCalc Gen.Consts.DEFAULT_SLOT_PER_BUCKET n.toNat := by
  unfold Gen.reserve_calc Spec.reserveCalc
  have hS : (BitVec.setWidth 64 Gen.slot_per_bucket).toNat = 4 := by decide
  have hD : Gen.Consts.DEFAULT_SLOT_PER_BUCKET = 4 := by decide
  have hsum : (n + BitVec.setWidth 64 Gen.slot_per_bucket - 1#64).toNat = n.toNat + 4 - 1 := by
    rw [BitVec.toNat_sub_of_le, BitVec.toNat_add, hS]
    · have : (n.toNat + 4) % 2 ^ 64 = n.toNat + 4 := Nat.mod_eq_of_lt (by omega)
      rw [this]; rfl
    · rw [BitVec.le_def, BitVec.toNat_add, hS]
      have : (n.toNat + 4) % 2 ^ 64 = n.toNat + 4 := Nat.mod_eq_of_lt (by omega)
      rw [this]; show 1 ≤ n.toNat + 4; omega
  have hneed : ((n + BitVec.setWidth 64 Gen.slot_per_bucket - 1#64) / BitVec.setWidth 64 Gen.slot_per_bucket).toNat
      = (n.toNat + 4 - 1) / 4 := by
    rw [BitVec.toNat_udiv, hsum, hS]
  have hle : (n.toNat + 4 - 1) / 4 ≤ 2 ^ 62 := by omega
  have := reserve_loop _ (by rw [hneed]; exact hle) 66 (0#64) n Gen.slot_per_bucket
    (BitVec.setWidth 64 Gen.slot_per_bucket) (n + BitVec.setWidth 64 Gen.slot_per_bucket)
    (n + BitVec.setWidth 64 Gen.slot_per_bucket - 1#64) Gen.slot_per_bucket
    (BitVec.setWidth 64 Gen.slot_per_bucket) (by simp) (by simp)
  rw [hneed] at this
  simpa [hD] using this

end Cuckoo.Link
