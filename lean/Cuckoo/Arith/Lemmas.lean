import Cuckoo.Arith.Spec
/-!
Facts about the Nat-level index arithmetic, for every hash value, tag, bucket index
and hashpower (no width bound is needed at this level).
-/
namespace Cuckoo.Spec

theorem two_pow_pos (n : Nat) : 0 < 2 ^ n := Nat.pow_pos (by decide)

theorem indexHash_lt (hp h : Nat) : indexHash hp h < 2 ^ hp :=
  Nat.mod_lt _ (two_pow_pos hp)

theorem altIndex_lt (hp tag i : Nat) : altIndex hp tag i < 2 ^ hp :=
  Nat.mod_lt _ (two_pow_pos hp)

theorem xor_mod_invol (i c n : Nat) :
    (((i ^^^ c) % 2 ^ n) ^^^ c) % 2 ^ n = i % 2 ^ n := by
  apply Nat.eq_of_testBit_eq
  intro k
  simp only [Nat.testBit_mod_two_pow, Nat.testBit_xor]
  by_cases hk : k < n <;> simp [hk]

/-- each candidate bucket is the other's alternate -/
theorem altIndex_invol (hp tag i : Nat) (hi : i < 2 ^ hp) :
    altIndex hp tag (altIndex hp tag i) = i := by
  unfold altIndex
  rw [xor_mod_invol, Nat.mod_eq_of_lt hi]

/-- doubling: the first candidate keeps its index or moves up by the old bucket count -/
theorem indexHash_double (hp h : Nat) :
    indexHash (hp + 1) h = indexHash hp h ∨ indexHash (hp + 1) h = indexHash hp h + 2 ^ hp := by
  unfold indexHash
  rw [Nat.mod_pow_succ]
  rcases Nat.mod_two_eq_zero_or_one (h / 2 ^ hp) with h0 | h1
  · left; rw [h0]; simp
  · right; rw [h1]; simp

theorem indexHash_double_mod (hp h : Nat) : indexHash (hp + 1) h % 2 ^ hp = indexHash hp h := by
  unfold indexHash
  rw [Nat.pow_succ, Nat.mod_mul_right_mod]

/-- doubling: the alternate of the doubled table, reduced, is the old alternate of the reduced index -/
theorem altIndex_double_mod (hp tag i : Nat) :
    altIndex (hp + 1) tag i % 2 ^ hp = altIndex hp tag (i % 2 ^ hp) := by
  unfold altIndex
  apply Nat.eq_of_testBit_eq
  intro k
  simp only [Nat.testBit_mod_two_pow, Nat.testBit_xor]
  by_cases hk : k < hp
  · have : k < hp + 1 := by omega
    simp [hk, this]
  · simp [hk]

theorem altIndex_double (hp tag i : Nat) :
    altIndex (hp + 1) tag i = altIndex hp tag (i % 2 ^ hp) ∨
    altIndex (hp + 1) tag i = altIndex hp tag (i % 2 ^ hp) + 2 ^ hp := by
  have h1 := altIndex_double_mod hp tag i
  have h2 := altIndex_lt (hp + 1) tag i
  rw [Nat.pow_succ] at h2
  have h3 := Nat.mod_add_div (altIndex (hp + 1) tag i) (2 ^ hp)
  have h4 : altIndex (hp + 1) tag i / 2 ^ hp < 2 := Nat.div_lt_of_lt_mul h2
  rw [h1] at h3
  generalize altIndex (hp + 1) tag i / 2 ^ hp = q at h3 h4
  rcases Nat.lt_or_ge q 1 with h5 | h5
  · left; have : q = 0 := by omega
    subst this; simpa using h3.symm
  · right; have : q = 1 := by omega
    subst this; simpa using h3.symm

/-- the lock stripe of a bucket is unchanged by moving up by the old bucket count -/
theorem lockInd_stable (m hp i : Nat) (h : m ≤ hp) : lockInd (2 ^ m) (i + 2 ^ hp) = lockInd (2 ^ m) i := by
  unfold lockInd
  obtain ⟨d, rfl⟩ := Nat.exists_eq_add_of_le h
  rw [Nat.pow_add, Nat.add_mul_mod_self_left]

theorem lockInd_lt (M i : Nat) (h : 0 < M) : lockInd M i < M := Nat.mod_lt _ h

theorem lockInd_mod (m hp i : Nat) (h : m ≤ hp) : lockInd (2 ^ m) (i % 2 ^ hp) = lockInd (2 ^ m) i := by
  unfold lockInd
  obtain ⟨d, rfl⟩ := Nat.exists_eq_add_of_le h
  rw [Nat.pow_add, Nat.mod_mul_right_mod]

theorem partialKey_lt (h : Nat) : partialKey h < 256 := by
  unfold partialKey
  have e : (256 : Nat) = 2 ^ 8 := by decide
  rw [e]
  repeat (first | apply Nat.xor_lt_two_pow | exact Nat.mod_lt _ (by decide))

/-! ### reserve_calc -/

theorem log2ceilFrom_ge (need fuel b : Nat) : b ≤ log2ceilFrom need fuel b := by
  induction fuel generalizing b with
  | zero => simp [log2ceilFrom]
  | succ f ih =>
    unfold log2ceilFrom
    split
    · exact Nat.le_trans (Nat.le_succ b) (ih (b + 1))
    · exact Nat.le_refl b

/-- the result is large enough, provided the fuel suffices -/
theorem log2ceilFrom_spec (need fuel b : Nat) (hf : need ≤ 2 ^ (b + fuel)) :
    need ≤ 2 ^ log2ceilFrom need fuel b := by
  induction fuel generalizing b with
  | zero => simpa [log2ceilFrom] using hf
  | succ f ih =>
    unfold log2ceilFrom
    split
    · apply ih; rw [Nat.add_assoc, Nat.add_comm 1 f]; exact hf
    · omega

/-- and minimal: every smaller exponent (≥ the start) is too small -/
theorem log2ceilFrom_min (need fuel b c : Nat) (hb : b ≤ c) (hc : c < log2ceilFrom need fuel b) :
    2 ^ c < need := by
  induction fuel generalizing b with
  | zero => simp [log2ceilFrom] at hc; omega
  | succ f ih =>
    unfold log2ceilFrom at hc
    split at hc
    · rename_i hlt
      rcases Nat.eq_or_lt_of_le hb with rfl | hlt'
      · exact hlt
      · exact ih (b + 1) hlt' hc
    · omega

theorem reserveCalc_enough (S n : Nat) (hS : 0 < S) (hn : (n + S - 1) / S ≤ 2 ^ 66) :
    n ≤ 2 ^ reserveCalc S n * S := by
  unfold reserveCalc
  have h := log2ceilFrom_spec ((n + S - 1) / S) 66 0 (by simpa using hn)
  have h2 : n ≤ ((n + S - 1) / S) * S := by
    have := Nat.div_add_mod (n + S - 1) S
    have hm := Nat.mod_lt (n + S - 1) hS
    rw [Nat.mul_comm]
    omega
  exact Nat.le_trans h2 (Nat.mul_le_mul_right S h)

theorem reserveCalc_minimal (S n c : Nat) (hS : 0 < S) (hc : c < reserveCalc S n) :
    2 ^ c * S < n := by
  unfold reserveCalc at hc
  have h := log2ceilFrom_min ((n + S - 1) / S) 66 0 c (Nat.zero_le _) hc
  have h1 : 2 ^ c + 1 ≤ (n + S - 1) / S := h
  have h2 := (Nat.le_div_iff_mul_le hS).mp h1
  rw [Nat.add_mul] at h2
  omega

end Cuckoo.Spec
