import Cuckoo.Proofs.Migrate
import Cuckoo.Proofs.Prim
/-!
Chunk C — BFS search, path construction and path execution never change the live view, whatever
(stale) data they work from; a successful `run_cuckoo` returns a free, locked, candidate slot.
Helper lemmas only.
-/
namespace Cuckoo.Model
open Cuckoo
variable {κ ν : Type}

theorem slotSearch_go_spec (c : Cfg κ) (locked : Bool) (hp : Nat) (fuel : Nat) :
    ∀ (t : Table κ ν) (q : Array BSlot) (first : Nat), Inv c t → (locked = true → AllMig t) →
    Inv c (slotSearch.go c locked hp fuel t q first).1 ∧ Same c t (slotSearch.go c locked hp fuel t q first).1 ∧
    Keeps c t (slotSearch.go c locked hp fuel t q first).1 := by
  induction fuel with
  | zero => intro t q first h hl; simp only [slotSearch.go]; exact ⟨h, Same.refl _ _, Keeps.refl _ _⟩
  | succ n ih =>
    intro t q first h hl
    simp only [slotSearch.go]
    split
    · exact ⟨h, Same.refl _ _, Keeps.refl _ _⟩
    · rename_i x hx
      obtain ⟨hi, hs, hk, _⟩ := lockOneM_spec c locked t x.bucket h hl
      split
      · exact ⟨hi, hs, hk⟩
      · obtain ⟨hi', hs', hk'⟩ := ih _ (q ++ _) (first+1) hi (fun e => hk.allmig (hl e))
        exact ⟨hi', hs.trans hs', hk.trans hk'⟩

theorem slotSearch_spec (c : Cfg κ) (locked : Bool) (hp : Nat) (t : Table κ ν) (i1 i2 : Nat) (h : Inv c t)
    (hl : locked = true → AllMig t) :
    Inv c (slotSearch c locked hp t i1 i2).1 ∧ Same c t (slotSearch c locked hp t i1 i2).1 ∧
    Keeps c t (slotSearch c locked hp t i1 i2).1 := by
  unfold slotSearch
  exact slotSearch_go_spec c locked hp _ t _ _ h hl

theorem decodeSlots_lt (S : Nat) (hS : 0 < S) : ∀ (n code : Nat) (acc : List Nat), (∀ x ∈ acc, x < S) →
    ∀ x ∈ (decodeSlots S n code acc).2, x < S := by
  intro n
  induction n with
  | zero => intro code acc h; simpa [decodeSlots] using h
  | succ n ih =>
    intro code acc h
    simp only [decodeSlots]
    apply ih
    intro x hx
    rcases List.mem_cons.mp hx with e | e
    · subst e; exact Nat.mod_lt _ hS
    · exact h x e

theorem PathOK_cons (c : Cfg κ) (hp : Nat) (p : PathRec) (suf : List PathRec) (hs : p.slot < c.S)
    (hsuf : PathOK c hp suf)
    (hh : ∀ q, suf.head? = some q → q.bucket = Spec.altIndex hp (Spec.partialKey p.hash) p.bucket) :
    PathOK c hp (p :: suf) := by
  cases suf with
  | nil => exact hs
  | cons q rest => exact ⟨hs, hh q rfl, hsuf⟩

theorem buildPath_go_spec (c : Cfg κ) (locked : Bool) (hp : Nat) (slots : List Nat) :
    ∀ (t : Table κ ν) (b : Nat) (acc : List PathRec), Inv c t → (locked = true → AllMig t) →
    (∀ s ∈ slots, s < c.S) →
    Inv c (buildPath.go c locked hp t b slots acc).1 ∧ Same c t (buildPath.go c locked hp t b slots acc).1 ∧
    Keeps c t (buildPath.go c locked hp t b slots acc).1 ∧
    ∃ suf, (buildPath.go c locked hp t b slots acc).2 = acc.reverse ++ suf ∧ PathOK c hp suf ∧
      ∀ p0, suf.head? = some p0 → p0.bucket = b := by
  induction slots with
  | nil =>
    intro t b acc h hl hs
    simp only [buildPath.go]
    exact ⟨h, Same.refl _ _, Keeps.refl _ _, [], by simp, trivial, by simp⟩
  | cons s rest ih =>
    intro t b acc h hl hs
    simp only [buildPath.go]
    obtain ⟨hi, hsm, hk, _⟩ := lockOneM_spec c locked t b h hl
    have hsS : s < c.S := hs s (List.mem_cons_self)
    split
    · refine ⟨hi, hsm, hk, [⟨b, s, 0, 0⟩], by simp, hsS, ?_⟩
      intro p0 e; simp at e; subst e; rfl
    · rename_i sl hsl
      obtain ⟨hi', hs', hk', suf, he, hok, hhd⟩ := ih (t.lockOneM c locked b)
        (Spec.altIndex hp (Spec.partialKey (c.hash sl.key)) b)
        (⟨b, s, c.hash sl.key, Spec.partialKey (c.hash sl.key)⟩ :: acc) hi (fun e => hk.allmig (hl e))
        (fun x hx => hs x (List.mem_cons_of_mem _ hx))
      refine ⟨hi', hsm.trans hs', hk.trans hk', ⟨b, s, c.hash sl.key, Spec.partialKey (c.hash sl.key)⟩ :: suf, ?_, ?_, ?_⟩
      · rw [he]; simp
      · exact PathOK_cons c hp _ suf hsS hok hhd
      · intro p0 e; simp at e; subst e; rfl

theorem buildPath_spec [DecidableEq κ] (c : Cfg κ) (locked : Bool) (t : Table κ ν) (i1 i2 : Nat) (x : BSlot)
    (h : Inv c t) (hl : locked = true → AllMig t) :
    Inv c (buildPath c locked t.hp t i1 i2 x).1 ∧ Same c t (buildPath c locked t.hp t i1 i2 x).1 ∧
    Keeps c t (buildPath c locked t.hp t i1 i2 x).1 ∧
    PathOK c t.hp (buildPath c locked t.hp t i1 i2 x).2 ∧
    (∀ p0, (buildPath c locked t.hp t i1 i2 x).2.head? = some p0 → p0.bucket = i1 ∨ p0.bucket = i2) := by
  unfold buildPath
  have hd := decodeSlots_lt c.S h.S_pos (x.depth + 1) x.pathcode [] (by simp)
  generalize decodeSlots c.S (x.depth + 1) x.pathcode [] = d at hd
  obtain ⟨code, slots⟩ := d
  simp only
  obtain ⟨hi, hs, hk, suf, he, hok, hhd⟩ := buildPath_go_spec c locked t.hp slots t (if code = 0 then i1 else i2) [] h hl hd
  simp only [List.reverse_nil, List.nil_append] at he
  refine ⟨hi, hs, hk, he ▸ hok, ?_⟩
  intro p0 e
  rw [he] at e
  rw [hhd p0 e]
  split <;> simp

/-- `PathOK` in the reversed orientation -/
def RPathOK (c : Cfg κ) (hp : Nat) : List PathRec → Prop
  | [] => True
  | [p] => p.slot < c.S
  | to :: fr :: rest =>
    to.slot < c.S ∧ to.bucket = Spec.altIndex hp (Spec.partialKey fr.hash) fr.bucket ∧ RPathOK c hp (fr :: rest)

theorem RPathOK_snoc (c : Cfg κ) (hp : Nat) (p : PathRec) (hs : p.slot < c.S) :
    ∀ (l : List PathRec), RPathOK c hp l →
    (∀ q, l.getLast? = some q → q.bucket = Spec.altIndex hp (Spec.partialKey p.hash) p.bucket) →
    RPathOK c hp (l ++ [p]) := by
  intro l
  induction l with
  | nil => intro _ _; exact hs
  | cons a tl ih =>
    intro hok hl
    cases tl with
    | nil => exact ⟨hok, hl a rfl, hs⟩
    | cons b tl' =>
      obtain ⟨h1, h2, h3⟩ := hok
      refine ⟨h1, h2, ?_⟩
      apply ih h3
      intro q hq
      apply hl q
      simpa [List.getLast?_cons_cons] using hq

theorem RPathOK_reverse (c : Cfg κ) (hp : Nat) : ∀ (path : List PathRec), PathOK c hp path →
    RPathOK c hp path.reverse := by
  intro path
  induction path with
  | nil => intro _; trivial
  | cons p tl ih =>
    intro hok
    rw [List.reverse_cons]
    cases tl with
    | nil => exact hok
    | cons q rest =>
      obtain ⟨h1, h2, h3⟩ := hok
      apply RPathOK_snoc c hp p h1 _ (ih h3)
      intro q' hq'
      rw [List.getLast?_reverse] at hq'
      simp at hq'; subst hq'; exact h2

theorem pathMove_go_spec (c : Cfg κ) (locked : Bool) (i1 i2 : Nat) : ∀ (rev : List PathRec) (t : Table κ ν),
    Inv c t → (locked = true → AllMig t) → RPathOK c t.hp rev → 2 ≤ rev.length →
    Inv c (pathMove.go c locked i1 i2 t rev).1 ∧ Same c t (pathMove.go c locked i1 i2 t rev).1 ∧
    Keeps c t (pathMove.go c locked i1 i2 t rev).1 ∧
    ((pathMove.go c locked i1 i2 t rev).2 = true →
      (pathMove.go c locked i1 i2 t rev).1.unmigB c i1 = false ∧
      (pathMove.go c locked i1 i2 t rev).1.unmigB c i2 = false ∧
      ∀ p0, rev.getLast? = some p0 → (pathMove.go c locked i1 i2 t rev).1.cur.get c.S p0.bucket p0.slot = none) := by
  intro rev
  induction rev with
  | nil => intro t _ _ _ hlen; simp at hlen
  | cons to tl ih =>
    intro t h hl hok hlen
    cases tl with
    | nil => simp at hlen
    | cons fr rest =>
      obtain ⟨hslot, halt, hok'⟩ := hok
      cases rest with
      | nil =>
        simp only [pathMove.go, List.isEmpty_nil, if_true]
        obtain ⟨hi, hs, hk, u1, u2, u3⟩ := lockThreeM_spec c locked t i1 i2 to.bucket h hl
        split
        · exact ⟨hi, hs, hk, by simp⟩
        · rename_i t' hhop
          obtain ⟨hi', hs', hk', hg, _, _⟩ := hop_spec c _ t' fr to hi hhop (by rw [hk.hp]; exact halt) hslot u3
          refine ⟨hi', hs.trans hs', hk.trans hk', fun _ => ⟨hk'.mono _ u1, hk'.mono _ u2, ?_⟩⟩
          intro p0 e
          simp at e; subst e; exact hg
      | cons r rest' =>
        simp only [pathMove.go, List.isEmpty_cons, Bool.false_eq_true, if_false]
        obtain ⟨hi, hs, hk, u1, u2⟩ := lockTwoM_spec c locked t fr.bucket to.bucket h hl
        split
        · exact ⟨hi, hs, hk, by simp⟩
        · rename_i t' hhop
          obtain ⟨hi', hs', hk', hg, _, _⟩ := hop_spec c _ t' fr to hi hhop (by rw [hk.hp]; exact halt) hslot u2
          have hk2 := hk.trans hk'
          obtain ⟨hi'', hs'', hk'', hres⟩ := ih t' hi' (fun e => hk2.allmig (hl e)) (by rw [hk2.hp]; exact hok')
            (by simp)
          refine ⟨hi'', (hs.trans hs').trans hs'', hk2.trans hk'', ?_⟩
          intro e
          obtain ⟨r1, r2, r3⟩ := hres e
          refine ⟨r1, r2, ?_⟩
          intro p0 e0
          apply r3
          simpa [List.getLast?_cons_cons] using e0

set_option linter.unusedVariables false in
theorem pathMove_spec (c : Cfg κ) (locked : Bool) (t : Table κ ν) (i1 i2 : Nat) (path : List PathRec)
    (h : Inv c t) (hl : locked = true → AllMig t) (hp : PathOK c t.hp path)
    (h1 : i1 < 2 ^ t.hp) (h2 : i2 < 2 ^ t.hp) :
    Inv c (pathMove c locked t i1 i2 path).1 ∧ Same c t (pathMove c locked t i1 i2 path).1 ∧
    Keeps c t (pathMove c locked t i1 i2 path).1 ∧
    ((pathMove c locked t i1 i2 path).2 = true →
      (pathMove c locked t i1 i2 path).1.unmigB c i1 = false ∧
      (pathMove c locked t i1 i2 path).1.unmigB c i2 = false ∧
      ∀ p0, path.head? = some p0 → (pathMove c locked t i1 i2 path).1.cur.get c.S p0.bucket p0.slot = none) := by
  rcases path with _ | ⟨p0, _ | ⟨p1, rest⟩⟩
  · simp only [pathMove]
    exact ⟨h, Same.refl _ _, Keeps.refl _ _, by simp⟩
  · simp only [pathMove]
    obtain ⟨hi, hs, hk, u1, u2⟩ := lockTwoM_spec c locked t i1 i2 h hl
    refine ⟨hi, hs, hk, fun e => ⟨u1, u2, ?_⟩⟩
    intro p e0
    simp at e0; subst e0
    simp [Store.occ] at e
    exact e
  · simp only [pathMove]
    have := pathMove_go_spec c locked i1 i2 (p0 :: p1 :: rest).reverse t h hl (RPathOK_reverse c t.hp _ hp)
      (by simp)
    rw [List.getLast?_reverse] at this
    exact this


theorem PathOK_head_slot (c : Cfg κ) (hp : Nat) (path : List PathRec) (p0 : PathRec) (hok : PathOK c hp path)
    (hh : path.head? = some p0) : p0.slot < c.S := by
  rcases path with _ | ⟨p, _ | ⟨q, rest⟩⟩
  · simp at hh
  · simp at hh; subst hh; exact hok
  · simp at hh; subst hh; exact hok.1

theorem runCuckoo_go_spec [DecidableEq κ] (c : Cfg κ) (locked : Bool) (i1 i2 hp : Nat) (fuel : Nat) :
    ∀ (t : Table κ ν), Inv c t → (locked = true → AllMig t) → t.hp = hp → i1 < 2 ^ hp → i2 < 2 ^ hp →
    Inv c (runCuckoo.go c locked i1 i2 hp fuel t).1 ∧ Same c t (runCuckoo.go c locked i1 i2 hp fuel t).1 ∧
    Keeps c t (runCuckoo.go c locked i1 i2 hp fuel t).1 ∧
    match (runCuckoo.go c locked i1 i2 hp fuel t).2 with
    | .ok b s => (b = i1 ∨ b = i2) ∧ s < c.S ∧ (runCuckoo.go c locked i1 i2 hp fuel t).1.cur.get c.S b s = none ∧
        (runCuckoo.go c locked i1 i2 hp fuel t).1.unmigB c i1 = false ∧
        (runCuckoo.go c locked i1 i2 hp fuel t).1.unmigB c i2 = false
    | _ => True := by
  induction fuel with
  | zero => intro t h _ _ _ _; simp only [runCuckoo.go]; exact ⟨h, Same.refl _ _, Keeps.refl _ _, trivial⟩
  | succ n ih =>
    intro t h hl hhp h1 h2
    simp only [runCuckoo.go]
    have hss := slotSearch_spec c locked hp t i1 i2 h hl
    generalize slotSearch c locked hp t i1 i2 = r at hss
    obtain ⟨t1, o⟩ := r
    obtain ⟨hi, hs, hk⟩ := hss
    simp only at hi hs hk
    cases o with
    | none => exact ⟨hi, hs, hk, trivial⟩
    | some x =>
      simp only
      have e1 : t1.hp = hp := hk.hp.trans hhp
      have hl1 : locked = true → AllMig t1 := fun e => hk.allmig (hl e)
      have hbp := buildPath_spec c locked t1 i1 i2 x hi hl1
      rw [e1] at hbp
      generalize buildPath c locked hp t1 i1 i2 x = r2 at hbp
      obtain ⟨t2, path⟩ := r2
      obtain ⟨hi2, hs2, hk2, hok, hhead⟩ := hbp
      simp only at hi2 hs2 hk2 hok hhead ⊢
      have e2 : t2.hp = hp := hk2.hp.trans e1
      have hl2 : locked = true → AllMig t2 := fun e => hk2.allmig (hl1 e)
      have hpm := pathMove_spec c locked t2 i1 i2 path hi2 hl2 (by rw [e2]; exact hok) (by rw [e2]; exact h1)
        (by rw [e2]; exact h2)
      generalize pathMove c locked t2 i1 i2 path = r3 at hpm
      obtain ⟨t3, ok⟩ := r3
      obtain ⟨hi3, hs3, hk3, hres⟩ := hpm
      simp only at hi3 hs3 hk3 hres
      have hs03 := (hs.trans hs2).trans hs3
      have hk03 := (hk.trans hk2).trans hk3
      cases ok with
      | true =>
        simp only
        obtain ⟨u1, u2, hg⟩ := hres rfl
        cases hph : path.head? with
        | none => exact ⟨hi3, hs03, hk03, trivial⟩
        | some p0 =>
          exact ⟨hi3, hs03, hk03, hhead p0 hph, PathOK_head_slot c hp path p0 hok hph, hg p0 hph, u1, u2⟩
      | false =>
        simp only
        have e3 : t3.hp = hp := hk03.hp.trans hhp
        obtain ⟨hi4, hs4, hk4, hres4⟩ := ih t3 hi3 (fun e => hk03.allmig (hl e)) e3 h1 h2
        exact ⟨hi4, hs03.trans hs4, hk03.trans hk4, hres4⟩

theorem runCuckoo_spec [DecidableEq κ] (c : Cfg κ) (locked : Bool) (t : Table κ ν) (i1 i2 : Nat)
    (h : Inv c t) (hl : locked = true → AllMig t) (h1 : i1 < 2 ^ t.hp) (h2 : i2 < 2 ^ t.hp) :
    Inv c (runCuckoo c locked t i1 i2).1 ∧ Same c t (runCuckoo c locked t i1 i2).1 ∧
    Keeps c t (runCuckoo c locked t i1 i2).1 ∧
    match (runCuckoo c locked t i1 i2).2 with
    | .ok b s => (b = i1 ∨ b = i2) ∧ s < c.S ∧ (runCuckoo c locked t i1 i2).1.cur.get c.S b s = none ∧
        (runCuckoo c locked t i1 i2).1.unmigB c i1 = false ∧ (runCuckoo c locked t i1 i2).1.unmigB c i2 = false
    | _ => True := by
  unfold runCuckoo
  exact runCuckoo_go_spec c locked i1 i2 t.hp 64 t h hl rfl h1 h2

end Cuckoo.Model
