import Cuckoo.Proofs.Migrate
import Cuckoo.Proofs.Prim
/-!
Chunk C — BFS search, path construction and path execution never change the live view, whatever
(stale) data they work from; a successful `run_cuckoo` returns a free, locked, candidate slot.
Helper lemmas only.
-/
namespace Cuckoo.Model
open Cuckoo
variable {κ ν : Type}

theorem slotSearch_spec (c : Cfg κ) (locked : Bool) (hp : Nat) (t : Table κ ν) (i1 i2 : Nat) (h : Inv c t)
    (hl : locked = true → AllMig t) :
    Inv c (slotSearch c locked hp t i1 i2).1 ∧ Same c t (slotSearch c locked hp t i1 i2).1 ∧
    Keeps c t (slotSearch c locked hp t i1 i2).1 := by
  sorry

theorem buildPath_spec [DecidableEq κ] (c : Cfg κ) (locked : Bool) (t : Table κ ν) (i1 i2 : Nat) (x : BSlot)
    (h : Inv c t) (hl : locked = true → AllMig t) :
    Inv c (buildPath c locked t.hp t i1 i2 x).1 ∧ Same c t (buildPath c locked t.hp t i1 i2 x).1 ∧
    Keeps c t (buildPath c locked t.hp t i1 i2 x).1 ∧
    PathOK c t.hp (buildPath c locked t.hp t i1 i2 x).2 ∧
    (∀ p0, (buildPath c locked t.hp t i1 i2 x).2.head? = some p0 → p0.bucket = i1 ∨ p0.bucket = i2) := by
  sorry

theorem pathMove_spec (c : Cfg κ) (locked : Bool) (t : Table κ ν) (i1 i2 : Nat) (path : List PathRec)
    (h : Inv c t) (hl : locked = true → AllMig t) (hp : PathOK c t.hp path)
    (h1 : i1 < 2 ^ t.hp) (h2 : i2 < 2 ^ t.hp) :
    Inv c (pathMove c locked t i1 i2 path).1 ∧ Same c t (pathMove c locked t i1 i2 path).1 ∧
    Keeps c t (pathMove c locked t i1 i2 path).1 ∧
    ((pathMove c locked t i1 i2 path).2 = true →
      (pathMove c locked t i1 i2 path).1.unmigB c i1 = false ∧
      (pathMove c locked t i1 i2 path).1.unmigB c i2 = false ∧
      ∀ p0, path.head? = some p0 → (pathMove c locked t i1 i2 path).1.cur.get c.S p0.bucket p0.slot = none) := by
  sorry

theorem runCuckoo_spec [DecidableEq κ] (c : Cfg κ) (locked : Bool) (t : Table κ ν) (i1 i2 : Nat)
    (h : Inv c t) (hl : locked = true → AllMig t) (h1 : i1 < 2 ^ t.hp) (h2 : i2 < 2 ^ t.hp) :
    Inv c (runCuckoo c locked t i1 i2).1 ∧ Same c t (runCuckoo c locked t i1 i2).1 ∧
    Keeps c t (runCuckoo c locked t i1 i2).1 ∧
    match (runCuckoo c locked t i1 i2).2 with
    | .ok b s => (b = i1 ∨ b = i2) ∧ s < c.S ∧ (runCuckoo c locked t i1 i2).1.cur.get c.S b s = none ∧
        (runCuckoo c locked t i1 i2).1.unmigB c i1 = false ∧ (runCuckoo c locked t i1 i2).1.unmigB c i2 = false
    | _ => True := by
  sorry

end Cuckoo.Model
