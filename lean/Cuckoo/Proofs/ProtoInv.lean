import Cuckoo.Model.Proto
/-!
The invariant of the protocol transition system and its preservation (helper lemmas only).
-/
namespace Cuckoo.Proto

/-- reachable from an initial state by an accepted trace -/
def Reach (s : PS) : Prop := ∃ hp n evs, 0 < n ∧ run (init hp n) evs = some s

/-- `held` lists are strictly descending (most recent = largest first) -/
def Desc : List LockId → Prop
  | [] => True
  | [_] => True
  | a :: b :: rest => b < a ∧ Desc (b :: rest)

structure PInv (s : PS) : Prop where
  gens_ne : s.gens ≠ []
  gens_pos : ∀ n ∈ s.gens, 0 < n
  /-- ownership of locks is exactly what the threads believe -/
  held_iff : ∀ t l, l ∈ (s.th t).held ↔ s.holder l = some t
  held_desc : ∀ t, Desc (s.th t).held
  held_range : ∀ l t, s.holder l = some t → l.gen < s.gens.length ∧ l.idx < s.gens.getD l.gen 0
  /-- snapshots never run ahead of the counter -/
  rc_le : ∀ t, (s.th t).snapRc ≤ s.rc
  /-- a sound snapshot with a current counter has the current hashpower and sees the current lock array as current,
  unless a resizer is between its change and its counter bump -/
  snap : ∀ t, (s.th t).hpOk = true → (s.th t).snapRc = s.rc → (s.th t).snapHp = s.hp ∨ ∃ z, (s.th z).dirty = true
  /-- a validated thread holds locks of the current array only, and at least one -/
  val_cur : ∀ t, (s.th t).validated = true → (s.th t).held ≠ [] ∧ (∀ l ∈ (s.th t).held, l.gen = s.curGen) ∧
    (s.th t).snapRc = s.rc ∧ (s.th t).hpOk = true
  pend_one : ∀ t, (s.th t).pendingVal = true → ∃ l, (s.th t).held = [l]
  /-- an owner holds every lock of the current array -/
  owner_all : ∀ t, (s.th t).owner = true → s.holdsAllCur t = true
  dirty_owner : ∀ t, (s.th t).dirty = true → (s.th t).owner = true
  /-- every lock of an array older than the newest generation that a non-owner pending/validated thread may hold … -/
  val_excl : ∀ t, (s.th t).validated = true → (s.th t).owner = false ∨ (s.th t).owner = true
  /-- while someone is dirty, nobody else has a lock of the current array -/
  hp_in_hold : ∀ t, (s.th t).hpInHold = true → (s.th t).validated = true ∧ (s.th t).snapHp = s.hp

theorem init_inv (hp n : Nat) (hn : 0 < n) : PInv (init hp n) := by
  sorry

theorem accept_inv (s s' : PS) (e : Ev) (h : PInv s) (ha : accept s e = some s') : PInv s' := by
  sorry

theorem reach_inv (s : PS) (h : Reach s) : PInv s := by
  sorry

end Cuckoo.Proto
