import Cuckoo.Proofs.ProtoInvA
import Cuckoo.Proofs.ProtoInvB
import Cuckoo.Proofs.ProtoInvC
import Cuckoo.Proofs.ProtoInvOrder
/-!
The invariant of the protocol transition system (`PInv`, defined in `ProtoInvBase.lean`) holds in every
reachable state.  Preservation per event: `ProtoInvA.lean` (loads, `lock_all` brackets), `ProtoInvB.lean`
(`acquire`, `release`), `ProtoInvC.lean` (owner events).
-/
namespace Cuckoo.Proto

theorem init_inv (hp n : Nat) (hn : 0 < n) : PInv (init hp n) := by
  constructor
  · simp [init]
  · intro m hm; simp only [init, List.mem_singleton] at hm; omega
  · intro t l; simp [init]
  · intro t; simp [init]
  · intro l t hl; simp [init] at hl
  · intro t; simp [init]
  · intro t; simp [init]
  · intro t hh; simp [init] at hh
  · intro t hh; simp [init] at hh
  · intro t hh; simp [init] at hh
  · intro t hh; simp [init] at hh
  · intro t hh; simp [init] at hh
  · intro t hh; simp [init] at hh

theorem accept_inv (s s' : PS) (e : Ev) (h : PInv s) (ha : accept s e = some s') : PInv s' := by
  cases e with
  | rcLoad t => exact inv_rcLoad h t ha
  | hpLoad t => exact inv_hpLoad h t ha
  | genLoad t => exact inv_genLoad h t ha
  | acquire t l => exact inv_acquire h t l ha
  | release t l => exact inv_release h t l ha
  | access t st =>
    simp only [accept] at ha
    split at ha
    · cases ha; exact h
    · cases ha
  | allBegin t => exact inv_allBegin h t ha
  | allEnd t => exact inv_allEnd h t ha
  | storeHp t v => exact inv_storeHp h t v ha
  | append t n => exact inv_append h t n ha
  | bumpRc t => exact inv_bumpRc h t ha
  | opEnd t k =>
    simp only [accept] at ha
    split at ha
    · split at ha
      · cases ha; exact h
      · cases ha
    · split at ha
      · cases ha; exact h
      · cases ha
  | sectionEnd t =>
    simp only [accept] at ha
    split at ha
    · cases ha; exact h
    · cases ha

theorem run_inv (evs : List Ev) : ∀ (s s' : PS), PInv s → run s evs = some s' → PInv s' := by
  induction evs with
  | nil => intro s s' h hr; simp only [run] at hr; cases hr; exact h
  | cons e es ih =>
    intro s s' h hr
    simp only [run] at hr
    split at hr
    next s1 h1 => exact ih s1 s' (accept_inv s s1 e h h1) hr
    · cases hr

theorem reach_inv (s : PS) (h : Reach s) : PInv s := by
  obtain ⟨hp, n, evs, hn, hr⟩ := h
  exact run_inv evs _ s (init_inv hp n hn) hr

end Cuckoo.Proto
