import Cuckoo.Proofs.FineAux8
/-!
The per-thread / per-hold view of the serialization is the thread's own sequence of accesses; the key list of `E`
only grows at its end.
-/
namespace Cuckoo.Fine
open Cuckoo.Proto

variable {V : Type} [DecidableEq V] {G : Nat → Nat → Nat} {mem0 : Nat → V} {g : GS V}

/-- a post-commit access lands at the very end of the thread's accesses in `E` -/
theorem selE_addTo_self (h : FInv G mem0 g) (t : Tid) (a : Acc V) (Q : Nat → Bool) (hs : g.fs.shrunk t = true) :
    selE t Q (addTo t (g.hold t) a g.E) = selE t Q g.E ++ (if Q (g.hold t) = true then [a] else []) := by
  obtain ⟨-, p, hp, hpt, hpk⟩ := h.shr t hs
  obtain ⟨E1, E2, hE⟩ := List.append_of_mem hp
  have hnd := h.nodup
  have hso := h.sorted
  rw [hE] at hnd hso
  have hE2 : ∀ q ∈ E2, q.tid ≠ t := by
    intro q hq hqt
    have h1 := (List.pairwise_cons.1 (List.pairwise_append.1 hso).2.1).1 q hq (hpt.trans hqt.symm)
    have hqE : q ∈ g.E := by rw [hE]; simp [hq]
    have h2 := h.keys q hqE
    rw [hqt] at h2
    omega
  rw [hE, addTo_split t _ a E1 E2 p hnd hpt hpk]
  simp only [selE_append, selE_cons, selE_none t Q E2 hE2, hpt, hpk, true_and, List.append_nil]
  by_cases hq : Q (g.hold t) = true <;> simp [hq]

theorem viewQ_step (h : FInv G mem0 g) (t : Tid) (Q : Nat → Bool) (e : FEv V) (g' : GS V)
    (hst : gstep G g e = some g') : viewQ t Q g' = viewQ t Q g ++ evSel t Q g e := by
  have hsh := gstep_shape G g g' e hst
  cases hsh with
  | pre u a _ hs hE ho hh =>
    simp only [viewQ, hE, ho, hh, evSel]
    by_cases hu : u = t
    · subst hu
      by_cases hq : Q (g.hold u) = true <;> simp [hq]
    · simp [hu, setL_other _ _ _ _ (Ne.symm hu)]
  | post u a _ hs hE ho hh =>
    simp only [viewQ, hE, ho, hh, evSel]
    by_cases hu : u = t
    · subst hu
      rw [selE_addTo_self h u a Q hs, h.open_nil_of_shrunk hs]
      by_cases hq : Q (g.hold u) = true <;> simp [hq]
    · rw [selE_addTo_other t u _ a Q hu]
      simp [hu]
  | commit u l _ hs hE ho hw hu' =>
    simp only [viewQ, hE, ho, evSel, selE_append, selE_cons, selE_nil, List.append_nil]
    by_cases hu : u = t
    · subst hu
      simp only [setL_same, true_and, ite_self, List.append_nil]
    · simp [hu, setL_other _ _ _ _ (Ne.symm hu), hw t (Ne.symm hu)]
  | rel u l _ hs hE ho hw hu' =>
    simp only [viewQ, hE, ho, evSel, List.append_nil]
    by_cases hu : u = t
    · subst hu
      simp [h.open_nil_of_shrunk hs]
    · simp [hw t (Ne.symm hu)]
  | other ev _ hE ho hh =>
    simp only [viewQ, hE, ho, hh, evSel, List.append_nil]

theorem viewQ_run (t : Tid) (Q : Nat → Bool) (tr : List (FEv V)) : ∀ (g g' : GS V), FInv G mem0 g →
    grun G g tr = some g' → viewQ t Q g' = viewQ t Q g ++ accsSel G t Q g tr := by
  induction tr with
  | nil => intro g g' _ hr; simp only [grun] at hr; cases hr; simp [accsSel]
  | cons e es ih =>
    intro g g' h hr
    simp only [grun] at hr
    cases h1 : gstep G g e with
    | none => rw [h1] at hr; cases hr
    | some g1 =>
      rw [h1] at hr; simp only at hr
      rw [ih g1 g' (gstep_inv h e g1 h1) hr, viewQ_step h t Q e g1 h1]
      simp only [accsSel, h1, List.append_assoc]

/-- with the trivial selector, `accsSel` is the syntactic projection of the trace to the thread -/
theorem accsSel_true (t : Tid) (tr : List (FEv V)) : ∀ (g g' : GS V), grun G g tr = some g' →
    accsSel G t (fun _ => true) g tr = accsOf t tr := by
  induction tr with
  | nil => intro g g' _; rfl
  | cons e es ih =>
    intro g g' hr
    simp only [grun] at hr
    cases h1 : gstep G g e with
    | none => rw [h1] at hr; cases hr
    | some g1 =>
      rw [h1] at hr; simp only at hr
      simp only [accsSel, h1]
      rw [ih g1 g' hr]
      cases e with
      | data u a =>
        simp only [evSel, accsOf, and_true]
        split <;> simp
      | sync ev => simp [evSel, accsOf]

/-! ### the key list of `E` only grows at its end -/

def keysOf (E : List (Ep V)) : List (Tid × Nat) := E.map fun p => (p.tid, p.hold)

omit [DecidableEq V] in
theorem keysOf_addTo (t : Tid) (k : Nat) (a : Acc V) (E : List (Ep V)) : keysOf (addTo t k a E) = keysOf E := by
  simp only [keysOf, addTo_eq, List.map_map]
  apply List.map_congr_left
  intro p _
  simp

theorem keys_step (e : FEv V) (g g' : GS V) (hst : gstep G g e = some g') :
    (∀ u, g.hold u ≤ g'.hold u) ∧ ∃ rest, keysOf g'.E = keysOf g.E ++ rest ∧ ∀ k ∈ rest, g.hold k.1 ≤ k.2 := by
  have hsh := gstep_shape G g g' e hst
  cases hsh with
  | pre u a _ hs hE ho hh => exact ⟨fun w => by rw [hh]; exact Nat.le_refl _, [], by simp [hE], by simp⟩
  | post u a _ hs hE ho hh =>
    exact ⟨fun w => by rw [hh]; exact Nat.le_refl _, [], by simp [hE, keysOf_addTo], by simp⟩
  | commit u l _ hs hE ho hw hu' =>
    refine ⟨?_, [(u, g.hold u)], by simp [hE, keysOf], by simp⟩
    intro w
    by_cases hwu : w = u
    · subst hwu; omega
    · rw [hw w hwu]; exact Nat.le_refl _
  | rel u l _ hs hE ho hw hu' =>
    refine ⟨?_, [], by simp [hE], by simp⟩
    intro w
    by_cases hwu : w = u
    · subst hwu; omega
    · rw [hw w hwu]; exact Nat.le_refl _
  | other ev _ hE ho hh => exact ⟨fun w => by rw [hh]; exact Nat.le_refl _, [], by simp [hE], by simp⟩

theorem keys_run (tr : List (FEv V)) : ∀ (g g' : GS V), grun G g tr = some g' →
    (∀ u, g.hold u ≤ g'.hold u) ∧ ∃ rest, keysOf g'.E = keysOf g.E ++ rest ∧ ∀ k ∈ rest, g.hold k.1 ≤ k.2 := by
  induction tr with
  | nil => intro g g' hr; simp only [grun] at hr; cases hr; exact ⟨fun _ => Nat.le_refl _, [], by simp, by simp⟩
  | cons e es ih =>
    intro g g' hr
    simp only [grun] at hr
    cases h1 : gstep G g e with
    | none => rw [h1] at hr; cases hr
    | some g1 =>
      rw [h1] at hr; simp only at hr
      obtain ⟨m1, r1, hr1, hk1⟩ := keys_step e g g1 h1
      obtain ⟨m2, r2, hr2, hk2⟩ := ih g1 g' hr
      refine ⟨fun u => Nat.le_trans (m1 u) (m2 u), r1 ++ r2, by rw [hr2, hr1, List.append_assoc], ?_⟩
      intro k hk
      rcases List.mem_append.1 hk with hk | hk
      · exact hk1 k hk
      · exact Nat.le_trans (m1 k.1) (hk2 k hk)

theorem grun_append (tr1 tr2 : List (FEv V)) : ∀ (g : GS V),
    grun G g (tr1 ++ tr2) = (grun G g tr1).bind fun g1 => grun G g1 tr2 := by
  induction tr1 with
  | nil => intro g; rfl
  | cons e es ih =>
    intro g
    simp only [List.cons_append, grun]
    cases gstep G g e with
    | none => rfl
    | some g1 => exact ih g1

end Cuckoo.Fine
