import Cuckoo.Proofs.Defs
/-!
Chunk A, part 1 — `moveBucket` (loop invariant of `moveBucket.go`) and the candidate arithmetic.
-/
namespace Cuckoo.Model
open Cuckoo
variable {κ ν : Type}

/-- the test `move_bucket` performs on one element -/
def mvCond (c : Cfg κ) (ohp nhp b nb : Nat) (k : κ) : Prop :=
  (b = c.i1 ohp k ∧ c.i1 nhp k = nb) ∨ (b = c.i2 ohp k ∧ c.i2 nhp k = nb)

theorem i2_double (c : Cfg κ) (hp : Nat) (k : κ) :
    c.i2 (hp + 1) k = c.i2 hp k ∨ c.i2 (hp + 1) k = c.i2 hp k + 2 ^ hp := by
  unfold Cfg.i2
  have h := Spec.altIndex_double hp (c.tag k) (c.i1 (hp + 1) k)
  have h2 : c.i1 (hp + 1) k % 2 ^ hp = c.i1 hp k := Spec.indexHash_double_mod hp (c.hash k)
  rw [h2] at h
  exact h

theorem i1_double (c : Cfg κ) (hp : Nat) (k : κ) :
    c.i1 (hp + 1) k = c.i1 hp k ∨ c.i1 (hp + 1) k = c.i1 hp k + 2 ^ hp :=
  Spec.indexHash_double hp (c.hash k)

/-- an element of old bucket `b` that is not moved up has `b` as a candidate in the doubled table -/
theorem stay_cand (c : Cfg κ) (ohp b : Nat) (k : κ) (hc : b = c.i1 ohp k ∨ b = c.i2 ohp k)
    (hn : ¬ mvCond c ohp (ohp + 1) b (b + 2 ^ ohp) k) :
    b = c.i1 (ohp + 1) k ∨ b = c.i2 (ohp + 1) k := by
  unfold mvCond at hn
  rcases hc with h1 | h2
  · rcases i1_double c ohp k with e | e
    · left; rw [e]; exact h1
    · exfalso; apply hn; left; exact ⟨h1, by rw [e, ← h1]⟩
  · rcases i2_double c ohp k with e | e
    · right; rw [e]; exact h2
    · exfalso; apply hn; right; exact ⟨h2, by rw [e, ← h2]⟩

theorem moveBucket_go_spec (c : Cfg κ) (old : Store κ ν) (b nhp : Nat)
    (hb : b < 2 ^ old.hp) :
    ∀ (fuel s ns : Nat) (cur : Store κ ν), s + fuel = c.S → ns ≤ s →
      cur.cells.size = 2 ^ (old.hp + 1) * c.S →
      (∀ j, ns ≤ j → cur.get c.S (b + 2 ^ old.hp) j = none) →
      (∀ j, s ≤ j → cur.get c.S b j = none) →
      (moveBucket.go c old b old.hp nhp (b + 2 ^ old.hp) s fuel ns cur).hp = cur.hp ∧
      (moveBucket.go c old b old.hp nhp (b + 2 ^ old.hp) s fuel ns cur).cells.size = cur.cells.size ∧
      (∀ b' j, b' ≠ b → b' ≠ b + 2 ^ old.hp →
        (moveBucket.go c old b old.hp nhp (b + 2 ^ old.hp) s fuel ns cur).get c.S b' j = cur.get c.S b' j) ∧
      (∀ j, j < s →
        (moveBucket.go c old b old.hp nhp (b + 2 ^ old.hp) s fuel ns cur).get c.S b j = cur.get c.S b j) ∧
      (∀ j, j < ns →
        (moveBucket.go c old b old.hp nhp (b + 2 ^ old.hp) s fuel ns cur).get c.S (b + 2 ^ old.hp) j =
          cur.get c.S (b + 2 ^ old.hp) j) ∧
      (∀ s' sl, s ≤ s' → old.get c.S b s' = some sl →
        (¬ mvCond c old.hp nhp b (b + 2 ^ old.hp) sl.key ∧
          (moveBucket.go c old b old.hp nhp (b + 2 ^ old.hp) s fuel ns cur).get c.S b s' = some sl) ∨
        (mvCond c old.hp nhp b (b + 2 ^ old.hp) sl.key ∧ ∃ j, ns ≤ j ∧
          (moveBucket.go c old b old.hp nhp (b + 2 ^ old.hp) s fuel ns cur).get c.S (b + 2 ^ old.hp) j = some sl)) ∧
      (∀ j sl, s ≤ j →
        (moveBucket.go c old b old.hp nhp (b + 2 ^ old.hp) s fuel ns cur).get c.S b j = some sl →
        old.get c.S b j = some sl ∧ ¬ mvCond c old.hp nhp b (b + 2 ^ old.hp) sl.key) ∧
      (∀ j sl, ns ≤ j →
        (moveBucket.go c old b old.hp nhp (b + 2 ^ old.hp) s fuel ns cur).get c.S (b + 2 ^ old.hp) j = some sl →
        ∃ s', s ≤ s' ∧ old.get c.S b s' = some sl ∧ mvCond c old.hp nhp b (b + 2 ^ old.hp) sl.key) ∧
      ((∀ s s' sl sl', old.get c.S b s = some sl → old.get c.S b s' = some sl' → sl.key = sl'.key → s = s') →
       ∀ j j' sl sl', ns ≤ j → ns ≤ j' →
        (moveBucket.go c old b old.hp nhp (b + 2 ^ old.hp) s fuel ns cur).get c.S (b + 2 ^ old.hp) j = some sl →
        (moveBucket.go c old b old.hp nhp (b + 2 ^ old.hp) s fuel ns cur).get c.S (b + 2 ^ old.hp) j' = some sl' →
        sl.key = sl'.key → j = j') := by
  have hpow : 0 < 2 ^ old.hp := Spec.two_pow_pos _
  have hnb : b + 2 ^ old.hp ≠ b := by omega
  intro fuel
  induction fuel with
  | zero =>
    intro s ns cur hsf hns hsz hE2 hE1
    unfold moveBucket.go
    refine ⟨rfl, rfl, fun _ _ _ _ => rfl, fun _ _ => rfl, fun _ _ => rfl, ?_, ?_, ?_, ?_⟩
    · intro s' sl hs' hg
      have := (Store.get_some_lt hg).1
      omega
    · intro j sl hj hg; rw [hE1 j hj] at hg; cases hg
    · intro j sl hj hg; rw [hE2 j hj] at hg; cases hg
    · intro _ j j' sl sl' hj _ hg; rw [hE2 j hj] at hg; cases hg
  | succ fuel ih =>
    intro s ns cur hsf hns hsz hE2 hE1
    have hsS : s < c.S := by omega
    unfold moveBucket.go
    cases hget : old.get c.S b s with
    | none =>
      simp only []
      have IH := ih (s + 1) ns cur (by omega) (by omega) hsz hE2 (fun j hj => hE1 j (by omega))
      obtain ⟨i1, i2, i3, i4, i5, i6, i7, i8, i9⟩ := IH
      refine ⟨i1, i2, i3, fun j hj => i4 j (by omega), i5, ?_, ?_, ?_, i9⟩
      · intro s' sl hs' hg
        rcases Nat.eq_or_lt_of_le hs' with e | hlt
        · subst e; rw [hget] at hg; cases hg
        · exact i6 s' sl hlt hg
      · intro j sl hj hg
        rcases Nat.eq_or_lt_of_le hj with e | hlt
        · subst e; rw [i4 s (by omega), hE1 s (Nat.le_refl _)] at hg; cases hg
        · exact i7 j sl hlt hg
      · intro j sl hj hg
        obtain ⟨s', h1, h2⟩ := i8 j sl hj hg
        exact ⟨s', by omega, h2⟩
    | some sl0 =>
      simp only []
      by_cases hc : (b = c.i1 old.hp sl0.key ∧ c.i1 nhp sl0.key = b + 2 ^ old.hp) ∨
          (b = c.i2 old.hp sl0.key ∧ c.i2 nhp sl0.key = b + 2 ^ old.hp)
      · rw [if_pos hc]
        have hlt : (b + 2 ^ old.hp) * c.S + ns < cur.cells.size := by
          rw [hsz, Nat.pow_succ]
          have : (b + 2 ^ old.hp + 1) * c.S ≤ (2 ^ old.hp * 2) * c.S := Nat.mul_le_mul_right _ (by omega)
          rw [Nat.add_mul, Nat.one_mul] at this
          omega
        have hnsS : ns < c.S := by omega
        have IH := ih (s + 1) (ns + 1) (cur.set c.S (b + 2 ^ old.hp) ns (some sl0)) (by omega) (by omega)
          (by rw [Store.set_size]; exact hsz)
          (fun j hj => by
            rw [Store.get_set_other _ _ _ _ _ _ _ hnsS (by omega)]; exact hE2 j (by omega))
          (fun j hj => by
            rw [Store.get_set_other _ _ _ _ _ _ _ hnsS (by omega)]; exact hE1 j (by omega))
        obtain ⟨i1, i2, i3, i4, i5, i6, i7, i8, i9⟩ := IH
        have hR_ns : (moveBucket.go c old b old.hp nhp (b + 2 ^ old.hp) (s + 1) fuel (ns + 1)
            (cur.set c.S (b + 2 ^ old.hp) ns (some sl0))).get c.S (b + 2 ^ old.hp) ns = some sl0 := by
          rw [i5 ns (by omega), Store.get_set_same _ _ _ _ _ hnsS hlt]
        refine ⟨i1, by rw [i2, Store.set_size], ?_, ?_, ?_, ?_, ?_, ?_, ?_⟩
        · intro b' j h1 h2
          rw [i3 b' j h1 h2, Store.get_set_other _ _ _ _ _ _ _ hnsS (by omega)]
        · intro j hj
          rw [i4 j (by omega), Store.get_set_other _ _ _ _ _ _ _ hnsS (by omega)]
        · intro j hj
          rw [i5 j (by omega), Store.get_set_other _ _ _ _ _ _ _ hnsS (by omega)]
        · intro s' sl hs' hg
          rcases Nat.eq_or_lt_of_le hs' with e | hlt'
          · subst e; rw [hget] at hg; cases hg
            right; exact ⟨hc, ns, Nat.le_refl _, hR_ns⟩
          · rcases i6 s' sl hlt' hg with h | ⟨h, j, hj, hh⟩
            · left; exact h
            · right; exact ⟨h, j, by omega, hh⟩
        · intro j sl hj hg
          rcases Nat.eq_or_lt_of_le hj with e | hlt'
          · subst e
            rw [i4 s (by omega), Store.get_set_other _ _ _ _ _ _ _ hnsS (by omega),
              hE1 s (Nat.le_refl _)] at hg
            cases hg
          · exact i7 j sl hlt' hg
        · intro j sl hj hg
          rcases Nat.eq_or_lt_of_le hj with e | hlt'
          · subst e; rw [hR_ns] at hg; cases hg
            exact ⟨s, Nat.le_refl _, hget, hc⟩
          · obtain ⟨s', h1, h2⟩ := i8 j sl hlt' hg
            exact ⟨s', by omega, h2⟩
        · intro hu j j' sl sl' hj hj' hg hg' hk
          rcases Nat.eq_or_lt_of_le hj with e | hlt1 <;> rcases Nat.eq_or_lt_of_le hj' with e' | hlt2
          · omega
          · subst e; rw [hR_ns] at hg; cases hg
            obtain ⟨s', h1, h2, _⟩ := i8 j' sl' hlt2 hg'
            have := hu _ _ _ _ hget h2 hk
            omega
          · subst e'; rw [hR_ns] at hg'; cases hg'
            obtain ⟨s', h1, h2, _⟩ := i8 j sl hlt1 hg
            have := hu _ _ _ _ h2 hget hk
            omega
          · exact i9 hu j j' sl sl' hlt1 hlt2 hg hg' hk
      · rw [if_neg hc]
        have hlt : b * c.S + s < cur.cells.size := by
          rw [hsz, Nat.pow_succ]
          have : (b + 1) * c.S ≤ (2 ^ old.hp * 2) * c.S := Nat.mul_le_mul_right _ (by omega)
          rw [Nat.add_mul, Nat.one_mul] at this
          omega
        have IH := ih (s + 1) ns (cur.set c.S b s (some sl0)) (by omega) (by omega)
          (by rw [Store.set_size]; exact hsz)
          (fun j hj => by
            rw [Store.get_set_other _ _ _ _ _ _ _ hsS (by omega)]; exact hE2 j (by omega))
          (fun j hj => by
            rw [Store.get_set_other _ _ _ _ _ _ _ hsS (by omega)]; exact hE1 j (by omega))
        obtain ⟨i1, i2, i3, i4, i5, i6, i7, i8, i9⟩ := IH
        have hR_s : (moveBucket.go c old b old.hp nhp (b + 2 ^ old.hp) (s + 1) fuel ns
            (cur.set c.S b s (some sl0))).get c.S b s = some sl0 := by
          rw [i4 s (by omega), Store.get_set_same _ _ _ _ _ hsS hlt]
        refine ⟨i1, by rw [i2, Store.set_size], ?_, ?_, ?_, ?_, ?_, ?_, i9⟩
        · intro b' j h1 h2
          rw [i3 b' j h1 h2, Store.get_set_other _ _ _ _ _ _ _ hsS (by omega)]
        · intro j hj
          rw [i4 j (by omega), Store.get_set_other _ _ _ _ _ _ _ hsS (by omega)]
        · intro j hj
          rw [i5 j (by omega), Store.get_set_other _ _ _ _ _ _ _ hsS (by omega)]
        · intro s' sl hs' hg
          rcases Nat.eq_or_lt_of_le hs' with e | hlt'
          · subst e; rw [hget] at hg; cases hg
            left; exact ⟨hc, hR_s⟩
          · exact i6 s' sl hlt' hg
        · intro j sl hj hg
          rcases Nat.eq_or_lt_of_le hj with e | hlt'
          · subst e; rw [hR_s] at hg; cases hg
            exact ⟨hget, hc⟩
          · exact i7 j sl hlt' hg
        · intro j sl hj hg
          obtain ⟨s', h1, h2⟩ := i8 j sl hj hg
          exact ⟨s', by omega, h2⟩

theorem moveBucket_facts (c : Cfg κ) (old cur : Store κ ν) (b : Nat) (_hS : 0 < c.S) (ho : old.WF c)
    (hsz : cur.cells.size = 2 ^ cur.hp * c.S) (hhp : cur.hp = old.hp + 1) (hb : b < 2 ^ old.hp)
    (he1 : ∀ s, cur.get c.S b s = none) (he2 : ∀ s, cur.get c.S (b + 2 ^ old.hp) s = none) :
    (moveBucket c old cur b).hp = cur.hp ∧ (moveBucket c old cur b).cells.size = cur.cells.size ∧
    (∀ b' s, b' ≠ b → b' ≠ b + 2 ^ old.hp → (moveBucket c old cur b).get c.S b' s = cur.get c.S b' s) ∧
    (∀ sl, (∃ s, old.get c.S b s = some sl) ↔
      (∃ s, (moveBucket c old cur b).get c.S b s = some sl ∨
            (moveBucket c old cur b).get c.S (b + 2 ^ old.hp) s = some sl)) ∧
    (∀ b' s sl, (b' = b ∨ b' = b + 2 ^ old.hp) → (moveBucket c old cur b).get c.S b' s = some sl →
      sl.tag = c.tag sl.key ∧ (b' = c.i1 cur.hp sl.key ∨ b' = c.i2 cur.hp sl.key)) ∧
    ((∀ s s' sl sl', old.get c.S b s = some sl → old.get c.S b s' = some sl' → sl.key = sl'.key → s = s') →
      ∀ b1 s1 b2 s2 sl sl', (b1 = b ∨ b1 = b + 2 ^ old.hp) → (b2 = b ∨ b2 = b + 2 ^ old.hp) →
        (moveBucket c old cur b).get c.S b1 s1 = some sl → (moveBucket c old cur b).get c.S b2 s2 = some sl' →
        sl.key = sl'.key → b1 = b2 ∧ s1 = s2) := by
  have hpow : 0 < 2 ^ old.hp := Spec.two_pow_pos _
  have H := moveBucket_go_spec c old b cur.hp hb c.S 0 0 cur (by omega) (Nat.le_refl _)
    (by rw [hsz, hhp]) (fun j _ => he2 j) (fun j _ => he1 j)
  have hdef : moveBucket c old cur b =
      moveBucket.go c old b old.hp cur.hp (b + 2 ^ old.hp) 0 c.S 0 cur := rfl
  rw [hdef]
  obtain ⟨i1, i2, i3, _, _, i6, i7, i8, i9⟩ := H
  refine ⟨i1, i2, i3, ?_, ?_, ?_⟩
  · intro sl
    constructor
    · rintro ⟨s, hs⟩
      rcases i6 s sl (Nat.zero_le _) hs with ⟨_, h⟩ | ⟨_, j, _, h⟩
      · exact ⟨s, Or.inl h⟩
      · exact ⟨j, Or.inr h⟩
    · rintro ⟨s, hs | hs⟩
      · exact ⟨s, (i7 s sl (Nat.zero_le _) hs).1⟩
      · obtain ⟨s', _, h, _⟩ := i8 s sl (Nat.zero_le _) hs
        exact ⟨s', h⟩
  · intro b' s sl hb' hg
    rcases hb' with e | e
    · subst e
      obtain ⟨h1, h2⟩ := i7 s sl (Nat.zero_le _) hg
      obtain ⟨ht, hc⟩ := ho.place _ _ _ h1
      refine ⟨ht, ?_⟩
      rw [hhp] at h2 ⊢
      exact stay_cand c old.hp b' sl.key hc h2
    · subst e
      obtain ⟨s', _, h1, h2⟩ := i8 s sl (Nat.zero_le _) hg
      obtain ⟨ht, _⟩ := ho.place _ _ _ h1
      refine ⟨ht, ?_⟩
      rcases h2 with ⟨_, h⟩ | ⟨_, h⟩
      · left; exact h.symm
      · right; exact h.symm
  · intro hu b1 s1 b2 s2 sl sl' hb1 hb2 hg1 hg2 hk
    rcases hb1 with e1 | e1 <;> rcases hb2 with e2 | e2 <;> subst e1 <;> subst e2
    · obtain ⟨h1, _⟩ := i7 s1 sl (Nat.zero_le _) hg1
      obtain ⟨h2, _⟩ := i7 s2 sl' (Nat.zero_le _) hg2
      exact ⟨rfl, hu _ _ _ _ h1 h2 hk⟩
    · exfalso
      obtain ⟨h1, hn⟩ := i7 s1 sl (Nat.zero_le _) hg1
      obtain ⟨s', _, h2, hy⟩ := i8 s2 sl' (Nat.zero_le _) hg2
      have := hu _ _ _ _ h1 h2 hk
      subst this
      rw [h1] at h2; cases h2
      exact hn hy
    · exfalso
      obtain ⟨h1, hn⟩ := i7 s2 sl' (Nat.zero_le _) hg2
      obtain ⟨s', _, h2, hy⟩ := i8 s1 sl (Nat.zero_le _) hg1
      have := hu _ _ _ _ h1 h2 hk.symm
      subst this
      rw [h1] at h2; cases h2
      exact hn hy
    · exact ⟨rfl, i9 hu s1 s2 sl sl' (Nat.zero_le _) (Nat.zero_le _) hg1 hg2 hk⟩

end Cuckoo.Model
