import Cuckoo.Proofs.FrameAux4
/-!
Helper definitions and lemmas for `Props/C03Comm` (read footprint, commutation of sections on disjoint stripes).

* `AgreeL c L t u` — the tables `t` and `u` agree on everything *local* a section holding the stripes `L` reads: the
  cells of the buckets of those stripes, their locks, and the validated scalars (hashpower, resize counter, sizes).
* `GOld t u` — the one global item a lazily migrating section reads besides: the old bucket array, whenever a migration
  is pending in both.
* `AgreeOn c L t u` = both.
* `OldRule t t'` — how a stripe section treats the two shared migration items: the old array is released exactly when
  the counter of un-migrated stripes goes from positive to 0, and otherwise left alone.
* `Transp c L t u t' u'` — `t → t'` and `u → u'` are "the same step seen from two tables that agree on `L`":
  the results agree on `L` again, both subtract the same number from `rem`, both follow `OldRule`.

Then: the primitive writes (`Store.set`, `bump`, `addTo`, `delFrom`, `setVal`, `hop`) map agreeing tables to
agreeing tables, and leave `rem` / `old` alone.
-/
namespace Cuckoo.Model
open Cuckoo
variable {κ ν : Type}

/-- `t` and `u` agree on the stripes `L` and on the validated scalars -/
structure AgreeL (c : Cfg κ) (L : List Nat) (t u : Table κ ν) : Prop where
  cells  : ∀ b s, c.lockInd b ∈ L → u.cur.get c.S b s = t.cur.get c.S b s
  locks  : ∀ l, l ∈ L → u.locks[l]? = t.locks[l]?
  nlocks : u.locks.size = t.locks.size
  hp     : u.hp = t.hp
  csize  : u.cur.cells.size = t.cur.cells.size
  rc     : u.rc = t.rc

/-- while a migration is pending in both tables they have the same old bucket array -/
def GOld (t u : Table κ ν) : Prop := 0 < u.rem → 0 < t.rem → u.old = t.old

/-- `t` and `u` agree on the stripes `L` and on everything global that a section holding `L` reads -/
structure AgreeOn (c : Cfg κ) (L : List Nat) (t u : Table κ ν) : Prop where
  loc : AgreeL c L t u
  gold : GOld t u

/-- the old array is released exactly when `rem` goes from positive to 0 -/
def OldRule (t t' : Table κ ν) : Prop := t'.old = if 0 < t.rem ∧ t'.rem = 0 then none else t.old

/-- `t → t'` and `u → u'` are the same stripe-local step from two tables agreeing on `L` -/
structure Transp (c : Cfg κ) (L : List Nat) (t u t' u' : Table κ ν) : Prop where
  agree : AgreeL c L t' u'
  rem   : u'.rem + t.rem = u.rem + t'.rem
  remT  : t'.rem ≤ t.rem
  remU  : u'.rem ≤ u.rem
  oldT  : OldRule t t'
  oldU  : OldRule u u'

/-! ### algebra -/

theorem AgreeL.refl (c : Cfg κ) (L : List Nat) (t : Table κ ν) : AgreeL c L t t :=
  ⟨fun _ _ _ => rfl, fun _ _ => rfl, rfl, rfl, rfl, rfl⟩

theorem AgreeL.symm {c : Cfg κ} {L : List Nat} {t u : Table κ ν} (h : AgreeL c L t u) : AgreeL c L u t :=
  ⟨fun b s hb => (h.cells b s hb).symm, fun l hl => (h.locks l hl).symm, h.nlocks.symm, h.hp.symm, h.csize.symm,
   h.rc.symm⟩

theorem AgreeL.trans {c : Cfg κ} {L : List Nat} {t u w : Table κ ν} (h : AgreeL c L t u) (h' : AgreeL c L u w) :
    AgreeL c L t w :=
  ⟨fun b s hb => (h'.cells b s hb).trans (h.cells b s hb), fun l hl => (h'.locks l hl).trans (h.locks l hl),
   h'.nlocks.trans h.nlocks, h'.hp.trans h.hp, h'.csize.trans h.csize, h'.rc.trans h.rc⟩

theorem AgreeL.mono {c : Cfg κ} {L L' : List Nat} {t u : Table κ ν} (h : AgreeL c L t u)
    (hsub : ∀ l, l ∈ L' → l ∈ L) : AgreeL c L' t u :=
  ⟨fun b s hb => h.cells b s (hsub _ hb), fun l hl => h.locks l (hsub _ hl), h.nlocks, h.hp, h.csize, h.rc⟩

theorem OldRule.refl (t : Table κ ν) : OldRule t t := by
  unfold OldRule
  split
  · omega
  · rfl

theorem OldRule.of_eq {t t' : Table κ ν} (hr : t'.rem = t.rem) (ho : t'.old = t.old) : OldRule t t' := by
  unfold OldRule
  rw [hr, ho]
  split
  · omega
  · rfl

theorem OldRule.trans {t t' t'' : Table κ ν} (h : OldRule t t') (h' : OldRule t' t'')
    (hm : t'.rem ≤ t.rem) (hm' : t''.rem ≤ t'.rem) : OldRule t t'' := by
  unfold OldRule at *
  by_cases h0 : 0 < t.rem
  · by_cases h2 : t''.rem = 0
    · rw [if_pos ⟨h0, h2⟩]
      by_cases h1 : t'.rem = 0
      · rw [h', if_neg (by omega), h, if_pos ⟨h0, h1⟩]
      · rw [h', if_pos ⟨by omega, h2⟩]
    · rw [if_neg (fun x => h2 x.2), h', if_neg (fun x => h2 x.2), h, if_neg (fun x => by omega)]
  · rw [if_neg (fun x => h0 x.1), h', if_neg (fun x => by omega), h, if_neg (fun x => h0 x.1)]

/-- same initial `old`, same final `rem`, same initial positivity: same final `old` -/
theorem OldRule.old_eq {t a b : Table κ ν} (ha : OldRule t a) (hb : OldRule t b) (hr : a.rem = b.rem) :
    a.old = b.old := by
  unfold OldRule at *
  rw [ha, hb, hr]

theorem Transp.gold {c : Cfg κ} {L : List Nat} {t u t' u' : Table κ ν} (h : Transp c L t u t' u') (g : GOld t u) :
    GOld t' u' := by
  intro hu ht
  have e1 := h.oldT
  have e2 := h.oldU
  have hm1 := h.remT
  have hm2 := h.remU
  unfold OldRule at e1 e2
  rw [e1, e2, if_neg (fun x => by omega), if_neg (fun x => by omega)]
  exact g (by omega) (by omega)

theorem Transp.agreeOn {c : Cfg κ} {L : List Nat} {t u t' u' : Table κ ν} (h : Transp c L t u t' u')
    (g : AgreeOn c L t u) : AgreeOn c L t' u' := ⟨h.agree, h.gold g.gold⟩

theorem Transp.refl {c : Cfg κ} {L : List Nat} {t u : Table κ ν} (h : AgreeL c L t u) : Transp c L t u t u :=
  ⟨h, rfl, Nat.le_refl _, Nat.le_refl _, OldRule.refl t, OldRule.refl u⟩

theorem Transp.trans {c : Cfg κ} {L : List Nat} {t u t1 u1 t2 u2 : Table κ ν} (h : Transp c L t u t1 u1)
    (h' : Transp c L t1 u1 t2 u2) : Transp c L t u t2 u2 where
  agree := h'.agree
  rem := by have := h.rem; have := h'.rem; omega
  remT := Nat.le_trans h'.remT h.remT
  remU := Nat.le_trans h'.remU h.remU
  oldT := h.oldT.trans h'.oldT h.remT h'.remT
  oldU := h.oldU.trans h'.oldU h.remU h'.remU

/-- a later part of the step that keeps `rem` and `old` on both sides -/
theorem Transp.post {c : Cfg κ} {L : List Nat} {t u t1 u1 t2 u2 : Table κ ν} (h : Transp c L t u t1 u1)
    (ha : AgreeL c L t2 u2) (hrt : t2.rem = t1.rem) (hot : t2.old = t1.old) (hru : u2.rem = u1.rem)
    (hou : u2.old = u1.old) : Transp c L t u t2 u2 :=
  h.trans ⟨ha, by omega, Nat.le_of_eq hrt, Nat.le_of_eq hru, OldRule.of_eq hrt hot, OldRule.of_eq hru hou⟩

theorem Transp.mono {c : Cfg κ} {L L' : List Nat} {t u t' u' : Table κ ν} (h : Transp c L t u t' u')
    (hsub : ∀ l, l ∈ L' → l ∈ L) : Transp c L' t u t' u' :=
  ⟨h.agree.mono hsub, h.rem, h.remT, h.remU, h.oldT, h.oldU⟩

/-- another section ran in between on stripes disjoint from `L`: the tables still agree on `L` -/
theorem AgreeOn.of_writes {c : Cfg κ} {L L' : List Nat} {t u : Table κ ν} (h : WritesWithin c L' t u)
    (hd : ∀ l, l ∈ L → l ∉ L') : AgreeOn c L t u where
  loc := ⟨fun b s hb => h.cells b s (hd _ hb), fun l hl => h.locks l (hd l hl), h.nlocks, h.hp, h.csize, h.rc⟩
  gold := by
    intro hu _
    rcases h.old with e | ⟨_, e⟩
    · exact e
    · omega

/-! ### `get` after `set`, including a write that falls outside the array -/

theorem Store.set_oob (S : Nat) (st : Store κ ν) (b s : Nat) (v) (h : ¬ b * S + s < st.cells.size) :
    st.set S b s v = st := by
  unfold Store.set
  rw [Array.setIfInBounds_eq_of_size_le (by omega)]

theorem Store.get_set_gen (S : Nat) (st : Store κ ν) (b s b' s' : Nat) (v) (hs : s < S) :
    (st.set S b s v).get S b' s' =
      if b' = b ∧ s' = s ∧ b * S + s < st.cells.size then v else st.get S b' s' := by
  by_cases hlt : b * S + s < st.cells.size
  · rw [Store.get_set S st b s b' s' v hs hlt]
    by_cases e : b' = b ∧ s' = s
    · rw [if_pos e, if_pos ⟨e.1, e.2, hlt⟩]
    · rw [if_neg e, if_neg (fun x => e ⟨x.1, x.2.1⟩)]
  · rw [Store.set_oob S st b s v hlt, if_neg (fun x => hlt x.2.2)]

/-! ### primitive writes: the same write on two agreeing tables -/

theorem agree_set (c : Cfg κ) (L : List Nat) (t u : Table κ ν) (b s : Nat) (v : Option (Slot κ ν))
    (hs : s < c.S) (h : AgreeL c L t u) :
    AgreeL c L { t with cur := t.cur.set c.S b s v } { u with cur := u.cur.set c.S b s v } where
  cells b' s' hb' := by
    show (u.cur.set c.S b s v).get c.S b' s' = (t.cur.set c.S b s v).get c.S b' s'
    rw [Store.get_set_gen _ _ _ _ _ _ _ hs, Store.get_set_gen _ _ _ _ _ _ _ hs, h.csize, h.cells b' s' hb']
  locks := h.locks
  nlocks := h.nlocks
  hp := h.hp
  csize := by
    show (u.cur.set c.S b s v).cells.size = (t.cur.set c.S b s v).cells.size
    rw [Store.set_size, Store.set_size]; exact h.csize
  rc := h.rc

theorem agree_bump (c : Cfg κ) (L : List Nat) (t u : Table κ ν) (b : Nat) (d : Int) (h : AgreeL c L t u) :
    AgreeL c L (t.bump c b d) (u.bump c b d) where
  cells := h.cells
  locks l hl := by
    show (u.locks.modify (c.lockInd b) _)[l]? = (t.locks.modify (c.lockInd b) _)[l]?
    rw [Array.getElem?_modify, Array.getElem?_modify, h.locks l hl]
  nlocks := by
    show (u.locks.modify (c.lockInd b) _).size = (t.locks.modify (c.lockInd b) _).size
    rw [Array.size_modify, Array.size_modify]; exact h.nlocks
  hp := h.hp
  csize := h.csize
  rc := h.rc

theorem agree_addTo (c : Cfg κ) (L : List Nat) (t u : Table κ ν) (b s : Nat) (sl : Slot κ ν) (hs : s < c.S)
    (h : AgreeL c L t u) : AgreeL c L (t.addTo c b s sl) (u.addTo c b s sl) :=
  agree_bump c L _ _ b 1 (agree_set c L t u b s (some sl) hs h)

theorem agree_delFrom (c : Cfg κ) (L : List Nat) (t u : Table κ ν) (b s : Nat) (hs : s < c.S)
    (h : AgreeL c L t u) : AgreeL c L (t.delFrom c b s) (u.delFrom c b s) :=
  agree_bump c L _ _ b (-1) (agree_set c L t u b s none hs h)

/-- `setVal` reads the cell first: the bucket must belong to a stripe of `L` -/
theorem agree_setVal (c : Cfg κ) (L : List Nat) (t u : Table κ ν) (b s : Nat) (v : ν) (hb : c.lockInd b ∈ L)
    (h : AgreeL c L t u) : AgreeL c L (t.setVal c b s v) (u.setVal c b s v) := by
  unfold Table.setVal
  rw [h.cells b s hb]
  cases hg : t.cur.get c.S b s with
  | none => exact h
  | some sl => exact agree_set c L t u b s _ (Store.get_some_lt hg).1 h

/-! ### `rem` and `old` are not touched by the primitive writes -/

@[simp] theorem bump_rem (c : Cfg κ) (t : Table κ ν) (b : Nat) (d : Int) : (t.bump c b d).rem = t.rem := rfl
@[simp] theorem bump_old (c : Cfg κ) (t : Table κ ν) (b : Nat) (d : Int) : (t.bump c b d).old = t.old := rfl
@[simp] theorem addTo_rem (c : Cfg κ) (t : Table κ ν) (b s : Nat) (sl : Slot κ ν) : (t.addTo c b s sl).rem = t.rem := rfl
@[simp] theorem addTo_old (c : Cfg κ) (t : Table κ ν) (b s : Nat) (sl : Slot κ ν) : (t.addTo c b s sl).old = t.old := rfl
@[simp] theorem delFrom_rem (c : Cfg κ) (t : Table κ ν) (b s : Nat) : (t.delFrom c b s).rem = t.rem := rfl
@[simp] theorem delFrom_old (c : Cfg κ) (t : Table κ ν) (b s : Nat) : (t.delFrom c b s).old = t.old := rfl

@[simp] theorem setVal_rem (c : Cfg κ) (t : Table κ ν) (b s : Nat) (v : ν) : (t.setVal c b s v).rem = t.rem := by
  unfold Table.setVal; split <;> rfl
@[simp] theorem setVal_old (c : Cfg κ) (t : Table κ ν) (b s : Nat) (v : ν) : (t.setVal c b s v).old = t.old := by
  unfold Table.setVal; split <;> rfl

theorem hop_ro {c : Cfg κ} {t t2 : Table κ ν} {fr to : PathRec} (h : hop c t fr to = some t2) :
    t2.rem = t.rem ∧ t2.old = t.old := by
  unfold hop at h
  split at h
  · split at h
    · cases h; exact ⟨rfl, rfl⟩
    · cases h
  · cases h

/-- one hop on two agreeing tables: refused on both, or done on both -/
theorem agree_hop (c : Cfg κ) (L : List Nat) (t u : Table κ ν) (fr to : PathRec) (hto : to.slot < c.S)
    (hfb : c.lockInd fr.bucket ∈ L) (htb : c.lockInd to.bucket ∈ L) (h : AgreeL c L t u) :
    (hop c t fr to = none ∧ hop c u fr to = none) ∨
    ∃ t2 u2, hop c t fr to = some t2 ∧ hop c u fr to = some u2 ∧ AgreeL c L t2 u2 := by
  unfold hop
  rw [h.cells _ _ hfb, h.cells _ _ htb]
  cases hgt : t.cur.get c.S to.bucket to.slot with
  | some _ => exact Or.inl ⟨rfl, rfl⟩
  | none =>
    cases hgf : t.cur.get c.S fr.bucket fr.slot with
    | none => exact Or.inl ⟨rfl, rfl⟩
    | some sl =>
      simp only
      by_cases e : c.hash sl.key = fr.hash
      · rw [if_pos e, if_pos e]
        refine Or.inr ⟨_, _, rfl, rfl, ?_⟩
        have hfs : fr.slot < c.S := (Store.get_some_lt hgf).1
        exact agree_set c L _ _ fr.bucket fr.slot none hfs (agree_set c L t u to.bucket to.slot (some sl) hto h)
      · rw [if_neg e, if_neg e]
        exact Or.inl ⟨rfl, rfl⟩

end Cuckoo.Model
