import Cuckoo.Proofs.FineAux7
/-!
Shape of the ghost update, and the per-thread / per-hold views of the serialization: the accesses of a thread (of one
hold of a thread) appear in its episodes and its open log exactly as they appear in the trace.
-/
namespace Cuckoo.Fine
open Cuckoo.Proto

variable {V : Type}

/-- what one accepted step does to the ghost components -/
inductive GShape (g : GS V) : FEv V → GS V → Prop
  | pre (u : Tid) (a : Acc V) (g' : GS V) : g.fs.shrunk u = false → g'.E = g.E →
      g'.opn = setL g.opn u (g.opn u ++ [a]) → g'.hold = g.hold → GShape g (.data u a) g'
  | post (u : Tid) (a : Acc V) (g' : GS V) : g.fs.shrunk u = true → g'.E = addTo u (g.hold u) a g.E →
      g'.opn = g.opn → g'.hold = g.hold → GShape g (.data u a) g'
  | commit (u : Tid) (l : LockId) (g' : GS V) : g.fs.shrunk u = false → g'.E = g.E ++ [⟨u, g.hold u, g.opn u⟩] →
      g'.opn = setL g.opn u [] → (∀ w, w ≠ u → g'.hold w = g.hold w) →
      (g'.hold u = g.hold u ∨ g'.hold u = g.hold u + 1) → GShape g (.sync (.release u l)) g'
  | rel (u : Tid) (l : LockId) (g' : GS V) : g.fs.shrunk u = true → g'.E = g.E → g'.opn = g.opn →
      (∀ w, w ≠ u → g'.hold w = g.hold w) →
      (g'.hold u = g.hold u ∨ g'.hold u = g.hold u + 1) → GShape g (.sync (.release u l)) g'
  | other (ev : Ev) (g' : GS V) : g'.E = g.E → g'.opn = g.opn → g'.hold = g.hold → GShape g (.sync ev) g'

theorem gstep_shape [DecidableEq V] (G : Nat → Nat → Nat) (g g' : GS V) (e : FEv V) (hst : gstep G g e = some g') :
    GShape g e g' := by
  simp only [gstep] at hst
  cases hacc : accept G g.fs e with
  | none => rw [hacc] at hst; cases hst
  | some s' =>
    rw [hacc] at hst; simp only [Option.some.injEq] at hst; subst hst
    cases e with
    | data t a =>
      by_cases hsh : g.fs.shrunk t = true
      · apply GShape.post _ _ _ hsh <;> simp [ghost, hsh]
      · have hsh' : g.fs.shrunk t = false := by simpa using hsh
        apply GShape.pre _ _ _ hsh' <;> simp [ghost, hsh']
    | sync ev =>
      cases ev with
      | release t l =>
        have H1 : ∀ w, w ≠ t → (ghost g s' (.sync (.release t l))).hold w = g.hold w := by
          intro w hw; simp only [ghost]; split <;> simp [setN, hw]
        have H2 : (ghost g s' (.sync (.release t l))).hold t = g.hold t ∨
            (ghost g s' (.sync (.release t l))).hold t = g.hold t + 1 := by
          simp only [ghost]; split
          · right; simp [setN]
          · left; rfl
        by_cases hsh : g.fs.shrunk t = true
        · apply GShape.rel _ _ _ hsh _ _ H1 H2 <;> simp [ghost, hsh]
        · have hsh' : g.fs.shrunk t = false := by simpa using hsh
          apply GShape.commit _ _ _ hsh' _ _ H1 H2 <;> simp [ghost, hsh']
      | _ => exact GShape.other _ _ rfl rfl rfl

/-! ### selecting the accesses of one thread (and of some of its holds) from the episode list -/

def selE (t : Tid) (Q : Nat → Bool) (E : List (Ep V)) : List (Acc V) :=
  flat (E.filter fun p => decide (p.tid = t) && Q p.hold)

def viewQ (t : Tid) (Q : Nat → Bool) (g : GS V) : List (Acc V) :=
  selE t Q g.E ++ (if Q (g.hold t) = true then g.opn t else [])

@[simp] theorem selE_nil (t : Tid) (Q : Nat → Bool) : selE t Q ([] : List (Ep V)) = [] := rfl

theorem selE_append (t : Tid) (Q : Nat → Bool) (A B : List (Ep V)) : selE t Q (A ++ B) = selE t Q A ++ selE t Q B := by
  simp [selE, List.filter_append]

theorem selE_cons (t : Tid) (Q : Nat → Bool) (p : Ep V) (B : List (Ep V)) :
    selE t Q (p :: B) = (if p.tid = t ∧ Q p.hold = true then p.accs else []) ++ selE t Q B := by
  simp only [selE, List.filter_cons]
  by_cases h1 : p.tid = t <;> by_cases h2 : Q p.hold = true <;> simp [h1, h2]

theorem selE_none (t : Tid) (Q : Nat → Bool) (E : List (Ep V)) (h : ∀ p ∈ E, p.tid ≠ t) : selE t Q E = [] := by
  induction E with
  | nil => rfl
  | cons p E ih =>
    rw [selE_cons, ih (fun q hq => h q (List.mem_cons_of_mem _ hq))]
    simp [h p (List.mem_cons_self ..)]

theorem selE_addTo_other (t u : Tid) (k : Nat) (a : Acc V) (Q : Nat → Bool) (hu : u ≠ t) (E : List (Ep V)) :
    selE t Q (addTo u k a E) = selE t Q E := by
  induction E with
  | nil => rfl
  | cons p E ih =>
    rw [addTo_eq] at ih ⊢
    rw [List.map_cons, selE_cons, selE_cons, ih]
    simp only [addF_tid, addF_hold]
    by_cases hp : p.tid = t
    · rw [addF_other]
      intro hh; exact hu (hh.1.symm.trans hp)
    · simp [hp]

end Cuckoo.Fine
