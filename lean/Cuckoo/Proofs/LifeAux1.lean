import Cuckoo.Proofs.Resize
/-!
Helper lemmas for `Props/C08Life.lean`, part 1 — counting occupied cells (never property statements).

`Store.count` (a fold over the cell array) is related to the list `occIdx` of occupied flat indices, the effect of one
`Store.set` on the count is computed, and the ledger quantities `objCount`, `husks`, `liveOld` and the enumeration
`liveLocs` of the live positions are defined.
-/
namespace Cuckoo.Model
open Cuckoo
variable {κ ν : Type}

/-! ### `Store.count` as the length of a filtered list -/

theorem foldl_count_eq {α : Type} (l : List (Option α)) (n : Nat) :
    l.foldl (fun n c => if c.isSome then n + 1 else n) n = n + (l.filter Option.isSome).length := by
  induction l generalizing n with
  | nil => simp
  | cons a l ih =>
    rw [List.foldl_cons, ih, List.filter_cons]
    cases a <;> simp <;> omega

theorem Store.count_eq_filter (st : Store κ ν) : st.count = (st.cells.toList.filter Option.isSome).length := by
  unfold Store.count
  rw [← Array.foldl_toList, foldl_count_eq]
  simp

/-- occupied flat indices of a list of cells -/
def occIdxL {α : Type} (l : List (Option α)) : List Nat :=
  (List.range l.length).filter (fun i => (l[i]?.getD none).isSome)

theorem occIdxL_cons {α : Type} (a : Option α) (l : List (Option α)) :
    occIdxL (a :: l) = (if a.isSome then [0] else []) ++ (occIdxL l).map Nat.succ := by
  unfold occIdxL
  rw [List.length_cons, List.range_succ_eq_map, List.filter_cons, List.filter_map]
  have : ((fun i => ((a :: l)[i]?.getD none).isSome) ∘ Nat.succ) = (fun i => (l[i]?.getD none).isSome) := by
    funext i; simp
  rw [this]
  cases a <;> simp

theorem occIdxL_length {α : Type} (l : List (Option α)) : (occIdxL l).length = (l.filter Option.isSome).length := by
  induction l with
  | nil => rfl
  | cons a l ih =>
    rw [occIdxL_cons, List.length_append, List.length_map, ih, List.filter_cons]
    cases a <;> simp <;> omega

/-- occupied flat indices of a store -/
def Store.occIdx (st : Store κ ν) : List Nat :=
  (List.range st.cells.size).filter (fun i => (st.cells.getD i none).isSome)

theorem Store.occIdx_eq (st : Store κ ν) : st.occIdx = occIdxL st.cells.toList := by
  unfold Store.occIdx occIdxL
  rw [Array.length_toList]
  apply List.filter_congr
  intro i _
  simp [Array.getD_eq_getD_getElem?]

theorem Store.count_eq_occIdx (st : Store κ ν) : st.count = st.occIdx.length := by
  rw [Store.count_eq_filter, Store.occIdx_eq, occIdxL_length]

theorem Store.occIdx_nodup (st : Store κ ν) : st.occIdx.Nodup :=
  List.Nodup.sublist List.filter_sublist List.nodup_range

theorem Store.mem_occIdx (st : Store κ ν) (i : Nat) :
    i ∈ st.occIdx ↔ i < st.cells.size ∧ (st.cells.getD i none).isSome = true := by
  unfold Store.occIdx
  rw [List.mem_filter, List.mem_range]

/-- splitting a filtered list by a second test -/
theorem length_filter_split {α : Type} (l : List α) (q : α → Bool) :
    l.length = (l.filter q).length + (l.filter (fun x => !q x)).length := by
  induction l with
  | nil => rfl
  | cons a l ih =>
    rw [List.filter_cons, List.filter_cons]
    cases q a <;> simp <;> omega

/-! ### the effect of one write on the count -/

theorem filter_set_some_of_none {α : Type} (l : List (Option α)) (i : Nat) (v : α) (h : l[i]? = some none) :
    ((l.set i (some v)).filter Option.isSome).length = (l.filter Option.isSome).length + 1 := by
  induction l generalizing i with
  | nil => simp at h
  | cons a l ih =>
    cases i with
    | zero =>
      simp only [List.getElem?_cons_zero, Option.some.injEq] at h
      subst h
      simp
    | succ i =>
      simp only [List.getElem?_cons_succ] at h
      rw [List.set_cons_succ, List.filter_cons, List.filter_cons]
      have := ih i h
      cases a <;> simp <;> omega

theorem filter_set_none_of_some {α : Type} (l : List (Option α)) (i : Nat) (v : α) (h : l[i]? = some (some v)) :
    ((l.set i none).filter Option.isSome).length + 1 = (l.filter Option.isSome).length := by
  induction l generalizing i with
  | nil => simp at h
  | cons a l ih =>
    cases i with
    | zero =>
      simp only [List.getElem?_cons_zero, Option.some.injEq] at h
      subst h
      simp
    | succ i =>
      simp only [List.getElem?_cons_succ] at h
      rw [List.set_cons_succ, List.filter_cons, List.filter_cons]
      have := ih i h
      cases a <;> simp <;> omega

theorem filter_set_some_of_some {α : Type} (l : List (Option α)) (i : Nat) (v w : α) (h : l[i]? = some (some v)) :
    ((l.set i (some w)).filter Option.isSome).length = (l.filter Option.isSome).length := by
  induction l generalizing i with
  | nil => simp at h
  | cons a l ih =>
    cases i with
    | zero =>
      simp only [List.getElem?_cons_zero, Option.some.injEq] at h
      subst h
      simp
    | succ i =>
      simp only [List.getElem?_cons_succ] at h
      rw [List.set_cons_succ, List.filter_cons, List.filter_cons]
      have := ih i h
      cases a <;> simp <;> omega

theorem Store.cell_of_get {S : Nat} {st : Store κ ν} {b s : Nat} (hs : s < S) (hlt : b * S + s < st.cells.size) :
    st.cells.toList[b * S + s]? = some (st.get S b s) := by
  unfold Store.get
  rw [if_pos hs, Array.getElem?_toList, Array.getD_eq_getD_getElem?, Array.getElem?_eq_getElem hlt]
  rfl

/-- constructing into an empty in-range cell adds one object -/
theorem Store.count_set_some_of_empty (S : Nat) (st : Store κ ν) (b s : Nat) (sl : Slot κ ν) (hs : s < S)
    (hlt : b * S + s < st.cells.size) (he : st.get S b s = none) :
    (st.set S b s (some sl)).count = st.count + 1 := by
  rw [Store.count_eq_filter, Store.count_eq_filter]
  show (((st.cells.setIfInBounds (b * S + s) (some sl)).toList).filter Option.isSome).length = _
  rw [Array.toList_setIfInBounds]
  apply filter_set_some_of_none
  rw [Store.cell_of_get hs hlt, he]

/-- destroying an occupied cell removes one object -/
theorem Store.count_set_none_of_occ (S : Nat) (st : Store κ ν) (b s : Nat) (sl : Slot κ ν)
    (he : st.get S b s = some sl) :
    (st.set S b s none).count + 1 = st.count := by
  obtain ⟨hs, hlt⟩ := Store.get_some_lt he
  rw [Store.count_eq_filter, Store.count_eq_filter]
  show (((st.cells.setIfInBounds (b * S + s) none).toList).filter Option.isSome).length + 1 = _
  rw [Array.toList_setIfInBounds]
  apply filter_set_none_of_some _ _ sl
  rw [Store.cell_of_get hs hlt, he]

/-- assigning to an occupied cell neither constructs nor destroys -/
theorem Store.count_set_some_of_occ (S : Nat) (st : Store κ ν) (b s : Nat) (sl sl' : Slot κ ν)
    (he : st.get S b s = some sl) :
    (st.set S b s (some sl')).count = st.count := by
  obtain ⟨hs, hlt⟩ := Store.get_some_lt he
  rw [Store.count_eq_filter, Store.count_eq_filter]
  show (((st.cells.setIfInBounds (b * S + s) (some sl')).toList).filter Option.isSome).length = _
  rw [Array.toList_setIfInBounds]
  apply filter_set_some_of_some _ _ sl
  rw [Store.cell_of_get hs hlt, he]

theorem Store.mk'_count (S hp : Nat) : (Store.mk' S hp : Store κ ν).count = 0 := by
  rw [Store.count_eq_filter]
  simp [Store.mk']

/-- a store without occupied cells (as seen by `get`) has count 0 -/
theorem Store.count_zero_of_empty {S : Nat} (hS : 0 < S) (st : Store κ ν) (h : ∀ b s, st.get S b s = none) :
    st.count = 0 := by
  rw [Store.count_eq_occIdx]
  apply List.length_eq_zero_iff.mpr
  apply List.eq_nil_iff_forall_not_mem.mpr
  intro i hi
  obtain ⟨hlt, hsome⟩ := (st.mem_occIdx i).mp hi
  have := h (i / S) (i % S)
  unfold Store.get at this
  rw [if_pos (Nat.mod_lt _ hS)] at this
  have e : i / S * S + i % S = i := by rw [Nat.mul_comm]; exact Nat.div_add_mod i S
  rw [e] at this
  rw [this] at hsome
  cases hsome

/-! ### ledger quantities -/

/-- number of constructed, not yet destroyed objects: the occupied cells of both arrays -/
def objCount (t : Table κ ν) : Nat :=
  t.cur.count + (match t.old with | some o => o.count | none => 0)

/-- moved-from objects awaiting the release of the old array: occupied cells of `old` in migrated stripes -/
def husks (c : Cfg κ) (t : Table κ ν) : Nat :=
  match t.old with
  | some o => (o.occIdx.filter (fun i => !t.unmigB c (i / c.S))).length
  | none => 0

/-- occupied cells of `old` in stripes that have not been migrated (still live elements) -/
def liveOld (c : Cfg κ) (t : Table κ ν) : Nat :=
  match t.old with
  | some o => (o.occIdx.filter (fun i => t.unmigB c (i / c.S))).length
  | none => 0

theorem objCount_split (c : Cfg κ) (t : Table κ ν) : objCount t = t.cur.count + liveOld c t + husks c t := by
  unfold objCount liveOld husks
  cases t.old with
  | none => rfl
  | some o =>
    simp only []
    rw [Store.count_eq_occIdx o, length_filter_split o.occIdx (fun i => t.unmigB c (i / c.S))]
    omega

/-- the positions of the live view that hold an element -/
def liveLocs (c : Cfg κ) (t : Table κ ν) : List Loc :=
  t.cur.occIdx.map (fun i => Loc.cur (i / c.S) (i % c.S)) ++
  match t.old with
  | some o => (o.occIdx.filter (fun i => t.unmigB c (i / c.S))).map (fun i => Loc.old (i / c.S) (i % c.S))
  | none => []

theorem liveLocs_length (c : Cfg κ) (t : Table κ ν) : (liveLocs c t).length = t.cur.count + liveOld c t := by
  unfold liveLocs liveOld
  rw [List.length_append, List.length_map, ← Store.count_eq_occIdx]
  cases t.old with
  | none => rfl
  | some o => simp only [List.length_map]

theorem divmod_inj {S i j : Nat} (h1 : i / S = j / S) (h2 : i % S = j % S) : i = j := by
  rw [← Nat.div_add_mod i S, ← Nat.div_add_mod j S, h1, h2]

theorem nodup_map_of_inj {α β : Type} (f : α → β) (l : List α) (hl : l.Nodup)
    (hf : ∀ x ∈ l, ∀ y ∈ l, f x = f y → x = y) : (l.map f).Nodup := by
  induction l with
  | nil => exact List.nodup_nil
  | cons a l ih =>
    rw [List.map_cons, List.nodup_cons]
    rw [List.nodup_cons] at hl
    refine ⟨?_, ih hl.2 (fun x hx y hy => hf x (List.mem_cons_of_mem _ hx) y (List.mem_cons_of_mem _ hy))⟩
    intro hmem
    rw [List.mem_map] at hmem
    obtain ⟨y, hy, e⟩ := hmem
    have := hf y (List.mem_cons_of_mem _ hy) a List.mem_cons_self e
    subst this
    exact hl.1 hy

theorem liveLocs_nodup (c : Cfg κ) (t : Table κ ν) : (liveLocs c t).Nodup := by
  unfold liveLocs
  rw [List.nodup_append]
  refine ⟨?_, ?_, ?_⟩
  · apply nodup_map_of_inj _ _ t.cur.occIdx_nodup
    intro i _ j _ e
    injection e with e1 e2
    exact divmod_inj e1 e2
  · cases t.old with
    | none => exact List.nodup_nil
    | some o =>
      simp only []
      apply nodup_map_of_inj _ _ (List.Nodup.sublist List.filter_sublist o.occIdx_nodup)
      intro i _ j _ e
      injection e with e1 e2
      exact divmod_inj e1 e2
  · intro a ha b hb
    rw [List.mem_map] at ha
    obtain ⟨i, _, rfl⟩ := ha
    cases ho : t.old with
    | none => rw [ho] at hb; simp at hb
    | some o =>
      rw [ho] at hb
      simp only [List.mem_map] at hb
      obtain ⟨j, _, rfl⟩ := hb
      intro e; cases e

theorem Store.get_divmod {S : Nat} (hS : 0 < S) (st : Store κ ν) (i : Nat) :
    st.get S (i / S) (i % S) = st.cells.getD i none := by
  unfold Store.get
  rw [if_pos (Nat.mod_lt _ hS)]
  have e : i / S * S + i % S = i := by rw [Nat.mul_comm]; exact Nat.div_add_mod i S
  rw [e]

theorem flat_div {S b s : Nat} (hs : s < S) : (b * S + s) / S = b := by
  have hS : 0 < S := by omega
  rw [Nat.mul_comm, Nat.mul_add_div hS, Nat.div_eq_of_lt hs]; rfl

theorem flat_mod {S b s : Nat} (hs : s < S) : (b * S + s) % S = s := by
  rw [Nat.mul_comm, Nat.mul_add_mod, Nat.mod_eq_of_lt hs]

/-- `liveLocs` enumerates exactly the positions at which the live view holds an element -/
theorem mem_liveLocs {c : Cfg κ} (hS : 0 < c.S) (t : Table κ ν) (p : Loc) :
    p ∈ liveLocs c t ↔ ∃ sl, t.at c p = some sl := by
  unfold liveLocs
  rw [List.mem_append]
  constructor
  · rintro (h | h)
    · rw [List.mem_map] at h
      obtain ⟨i, hi, rfl⟩ := h
      obtain ⟨_, hsome⟩ := (t.cur.mem_occIdx i).mp hi
      show ∃ sl, t.cur.get c.S (i / c.S) (i % c.S) = some sl
      rw [Store.get_divmod hS]
      exact Option.isSome_iff_exists.mp hsome
    · cases ho : t.old with
      | none => rw [ho] at h; simp at h
      | some o =>
        rw [ho] at h
        simp only [List.mem_map, List.mem_filter] at h
        obtain ⟨i, ⟨hi, hu⟩, rfl⟩ := h
        obtain ⟨_, hsome⟩ := (o.mem_occIdx i).mp hi
        simp only [Table.at, ho, hu, if_true]
        rw [Store.get_divmod hS]
        exact Option.isSome_iff_exists.mp hsome
  · rintro ⟨sl, h⟩
    cases p with
    | cur b s =>
      left
      have hg : t.cur.get c.S b s = some sl := h
      obtain ⟨hs, hlt⟩ := Store.get_some_lt hg
      rw [List.mem_map]
      refine ⟨b * c.S + s, ?_, by rw [flat_div hs, flat_mod hs]⟩
      rw [Store.mem_occIdx]
      refine ⟨hlt, ?_⟩
      unfold Store.get at hg
      rw [if_pos hs] at hg
      rw [hg]; rfl
    | old b s =>
      right
      obtain ⟨o, ho, hu, hg⟩ := (at_old_some_iff c t b s sl).mp h
      rw [ho]
      obtain ⟨hs, hlt⟩ := Store.get_some_lt hg
      simp only [List.mem_map, List.mem_filter]
      refine ⟨b * c.S + s, ⟨?_, by rw [flat_div hs]; exact hu⟩, by rw [flat_div hs, flat_mod hs]⟩
      rw [Store.mem_occIdx]
      refine ⟨hlt, ?_⟩
      unfold Store.get at hg
      rw [if_pos hs] at hg
      rw [hg]; rfl

end Cuckoo.Model
