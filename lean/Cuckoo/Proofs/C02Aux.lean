import Cuckoo.Proofs.Resize
import Cuckoo.Proofs.SpecMap
/-!
Helper lemmas for `Cuckoo/Props/C02.lean`: carrying `Rel` through the primitive mutations, the lookup
`locate`, and small facts about `clear`, `init`, the iterator constructor.  Never property statements.
-/
namespace Cuckoo.Model.C02A
open Cuckoo Cuckoo.Model Cuckoo.Spec
variable {κ ν : Type} [DecidableEq κ]

/-! ### `Rel` and lookups -/

theorem rel_lookup_of_live {c : Cfg κ} {t : Table κ ν} {m : AMap κ ν} (hr : Rel c t m) {sl : Slot κ ν}
    (hl : t.Live c sl) : m.lookup sl.key = some sl.val := by
  rw [AMap.lookup_eq_some_iff m hr.nodup]
  exact (hr.pairs _ _).mpr ⟨sl.tag, hl⟩

theorem rel_lookup_none {c : Cfg κ} {t : Table κ ν} {m : AMap κ ν} (hr : Rel c t m) {k : κ}
    (hn : ∀ tag v, ¬ t.Live c ⟨tag, k, v⟩) : m.lookup k = none := by
  rw [AMap.lookup_eq_none_iff]
  intro v hv
  obtain ⟨tag, hl⟩ := (hr.pairs k v).mp hv
  exact hn tag v hl

theorem rel_add {c : Cfg κ} {t t' : Table κ ν} {m : AMap κ ν} (hr : Rel c t m) {tg : Nat} {k : κ} {v : ν}
    (hlive : ∀ sl, t'.Live c sl ↔ (t.Live c sl ∨ sl = ⟨tg, k, v⟩))
    (hsum : t'.sumCnt = t.sumCnt + 1) (hnone : m.lookup k = none) : Rel c t' (m.add k v) := by
  refine ⟨?_, AMap.nodup_add m hr.nodup k v hnone, ?_⟩
  · intro k' v'
    unfold AMap.add
    rw [List.mem_cons, hr.pairs]
    constructor
    · rintro (e | ⟨tag, hl⟩)
      · cases e; exact ⟨tg, (hlive _).mpr (.inr rfl)⟩
      · exact ⟨tag, (hlive _).mpr (.inl hl)⟩
    · rintro ⟨tag, hl⟩
      rcases (hlive _).mp hl with h1 | h1
      · exact .inr ⟨tag, h1⟩
      · cases h1; exact .inl rfl
  · rw [hsum, hr.count]
    unfold AMap.add
    rw [List.length_cons]
    omega

theorem rel_erase {c : Cfg κ} {t t' : Table κ ν} {m : AMap κ ν} (hr : Rel c t m) {k : κ} {v : ν}
    (hlive : ∀ x, t'.Live c x ↔ (t.Live c x ∧ x.key ≠ k))
    (hsum : t'.sumCnt = t.sumCnt - 1) (hmem : m.lookup k = some v) : Rel c t' (m.erase k) := by
  refine ⟨?_, AMap.nodup_erase m hr.nodup k, ?_⟩
  · intro k' v'
    rw [AMap.mem_erase, hr.pairs]
    constructor
    · rintro ⟨⟨tag, hl⟩, hne⟩; exact ⟨tag, (hlive _).mpr ⟨hl, hne⟩⟩
    · rintro ⟨tag, hl⟩
      obtain ⟨h1, h2⟩ := (hlive _).mp hl
      exact ⟨⟨tag, h1⟩, h2⟩
  · have := AMap.length_erase_of_mem m hr.nodup k v ((AMap.lookup_eq_some_iff m hr.nodup k v).mp hmem)
    rw [hsum, hr.count]
    omega

theorem rel_set {c : Cfg κ} {t t' : Table κ ν} {m : AMap κ ν} (hr : Rel c t m) {sl : Slot κ ν} {v : ν}
    (hl : t.Live c sl)
    (hlive : ∀ x, t'.Live c x ↔ ((t.Live c x ∧ x.key ≠ sl.key) ∨ x = { sl with val := v }))
    (hsum : t'.sumCnt = t.sumCnt) : Rel c t' (m.set sl.key v) := by
  refine ⟨?_, AMap.nodup_set m hr.nodup _ v, ?_⟩
  · intro k' v'
    rw [AMap.mem_set m hr.nodup _ _ _ _ ⟨sl.val, (hr.pairs _ _).mpr ⟨sl.tag, hl⟩⟩, hr.pairs]
    constructor
    · rintro (⟨⟨tag, h1⟩, hne⟩ | ⟨rfl, rfl⟩)
      · exact ⟨tag, (hlive _).mpr (.inl ⟨h1, hne⟩)⟩
      · exact ⟨sl.tag, (hlive _).mpr (.inr rfl)⟩
    · rintro ⟨tag, h1⟩
      rcases (hlive _).mp h1 with ⟨h2, hne⟩ | h2
      · exact .inl ⟨⟨tag, h2⟩, hne⟩
      · injection h2 with e1 e2 e3
        exact .inr ⟨e2, e3⟩
  · rw [hsum, hr.count, AMap.length_set]

/-! ### the primitive mutations carry `Rel` -/

theorem setVal_rel (c : Cfg κ) (t : Table κ ν) (m : AMap κ ν) (b s : Nat) (sl : Slot κ ν) (v : ν)
    (h : Inv c t) (hr : Rel c t m) (hget : t.cur.get c.S b s = some sl) :
    Inv c (t.setVal c b s v) ∧ Rel c (t.setVal c b s v) (m.set sl.key v) ∧
    (AllMig t → AllMig (t.setVal c b s v)) ∧
    (t.setVal c b s v).cur.get c.S b s = some { sl with val := v } := by
  obtain ⟨a1, a2, a3, a4, a5, _⟩ := setVal_spec c t b s sl v h hget
  exact ⟨a1, rel_set hr ⟨.cur b s, hget⟩ a2 a3, a5.allmig, a4⟩

theorem delFrom_rel (c : Cfg κ) (t : Table κ ν) (m : AMap κ ν) (b s : Nat) (sl : Slot κ ν)
    (h : Inv c t) (hr : Rel c t m) (hget : t.cur.get c.S b s = some sl) :
    Inv c (t.delFrom c b s) ∧ Rel c (t.delFrom c b s) (m.erase sl.key) ∧
    (AllMig t → AllMig (t.delFrom c b s)) := by
  obtain ⟨a1, a2, a3, a4, _⟩ := delFrom_spec c t b s sl h hget
  exact ⟨a1, rel_erase hr a2 a3 (rel_lookup_of_live hr ⟨.cur b s, hget⟩), a4.allmig⟩

theorem setDel_rel (c : Cfg κ) (t : Table κ ν) (m : AMap κ ν) (b s : Nat) (sl : Slot κ ν) (v : ν)
    (h : Inv c t) (hr : Rel c t m) (hget : t.cur.get c.S b s = some sl) :
    Inv c ((t.setVal c b s v).delFrom c b s) ∧ Rel c ((t.setVal c b s v).delFrom c b s) (m.erase sl.key) ∧
    (AllMig t → AllMig ((t.setVal c b s v).delFrom c b s)) := by
  obtain ⟨a1, a2, a3, a4⟩ := setVal_rel c t m b s sl v h hr hget
  obtain ⟨b1, b2, b3⟩ := delFrom_rel c _ _ b s _ a1 a2 a4
  rw [AMap.set_erase] at b2
  exact ⟨b1, b2, fun ha => b3 (a3 ha)⟩

theorem addTo_rel (c : Cfg κ) (t : Table κ ν) (m : AMap κ ν) (b s : Nat) (k : κ) (v : ν)
    (h : Inv c t) (hr : Rel c t m) (hins : InsOK c t k (.free b s)) :
    Inv c (t.addTo c b s ⟨c.tag k, k, v⟩) ∧ Rel c (t.addTo c b s ⟨c.tag k, k, v⟩) (m.add k v) ∧
    (AllMig t → AllMig (t.addTo c b s ⟨c.tag k, k, v⟩)) ∧
    (t.addTo c b s ⟨c.tag k, k, v⟩).cur.get c.S b s = some ⟨c.tag k, k, v⟩ ∧ m.lookup k = none := by
  obtain ⟨hb, hs, hempty, hmig, hfresh⟩ := hins
  obtain ⟨a1, a2, a3, a4, _⟩ := addTo_spec c t b s k v h hb hs hempty hmig hfresh
  have hnone := rel_lookup_none hr hfresh
  have hblt : b < 2 ^ t.hp := by
    rcases hb with rfl | rfl
    · exact Spec.indexHash_lt _ _
    · exact Spec.altIndex_lt _ _ _
  refine ⟨a1, rel_add hr a2 a3 hnone, a4.allmig, ?_, hnone⟩
  have := upd_get (t := t) (some ⟨c.tag k, k, v⟩) 1 hs (cell_lt h hblt hs) b s
  rw [if_pos ⟨rfl, rfl⟩] at this
  exact this

/-! ### `locate` -/

theorem locate_spec (c : Cfg κ) (locked : Bool) (t : Table κ ν) (m : AMap κ ν) (k : κ)
    (h : Inv c t) (hr : Rel c t m) (hl : locked = true → AllMig t) :
    Inv c (t.locate c locked k).1 ∧ Rel c (t.locate c locked k).1 m ∧
    (AllMig t → AllMig (t.locate c locked k).1) ∧
    match (t.locate c locked k).2 with
    | some (b, s) => ∃ sl, (t.locate c locked k).1.cur.get c.S b s = some sl ∧ sl.key = k ∧
        m.lookup k = some sl.val
    | none => m.lookup k = none := by
  obtain ⟨a1, a2, a3, a4, a5⟩ := lockTwoM_spec c locked t (c.i1 t.hp k) (c.i2 t.hp k) h hl
  have hr' := hr.of_same a2
  show Inv c (t.lockTwoM c locked (c.i1 t.hp k) (c.i2 t.hp k)) ∧
    Rel c (t.lockTwoM c locked (c.i1 t.hp k) (c.i2 t.hp k)) m ∧
    (AllMig t → AllMig (t.lockTwoM c locked (c.i1 t.hp k) (c.i2 t.hp k))) ∧
    match cuckooFind c (t.lockTwoM c locked (c.i1 t.hp k) (c.i2 t.hp k)).cur (c.i1 t.hp k) (c.i2 t.hp k) k with
    | some (b, s) => ∃ sl, (t.lockTwoM c locked (c.i1 t.hp k) (c.i2 t.hp k)).cur.get c.S b s = some sl ∧ sl.key = k ∧
        m.lookup k = some sl.val
    | none => m.lookup k = none
  refine ⟨a1, hr', a3.allmig, ?_⟩
  generalize t.lockTwoM c locked (c.i1 t.hp k) (c.i2 t.hp k) = t1 at *
  have hp : t1.hp = t.hp := a3.hp
  rw [← hp] at a4 a5 ⊢
  have hf := cuckooFind_spec c t1 k a1 a4 a5
  split
  · rename_i b s hfind
    rw [hfind] at hf
    obtain ⟨sl, hg, hk, _⟩ := hf
    refine ⟨sl, hg, hk, ?_⟩
    have := rel_lookup_of_live hr' ⟨.cur b s, hg⟩
    rw [hk] at this
    exact this
  · rename_i hfind
    rw [hfind] at hf
    exact rel_lookup_none hr' hf

/-! ### `clear`, `init` -/

theorem foldl_add_zero (l : List Lock) (b : Int) : l.foldl (fun s _ => s + (0 : Int)) b = b := by
  induction l generalizing b with
  | nil => rfl
  | cons x xs ih => simp only [List.foldl_cons]; rw [ih]; omega

/-- the table `clear` produces, written out -/
def clearT (c : Cfg κ) (t : Table κ ν) : Table κ ν :=
  { t with cur := Store.mk' c.S t.hp, rem := 0, old := none, locks := t.locks.map (fun _ => ⟨0, true⟩) }

omit [DecidableEq κ] in
theorem clear_eq (c : Cfg κ) (t : Table κ ν) : t.clear c = clearT c t := by
  unfold Table.clear Table.setRem clearT
  simp

omit [DecidableEq κ] in
theorem clear_spec (c : Cfg κ) (t : Table κ ν) (h : Inv c t) :
    Inv c (t.clear c) ∧ (∀ sl, ¬ (t.clear c).Live c sl) ∧ (t.clear c).sumCnt = 0 ∧ AllMig (t.clear c) := by
  rw [clear_eq]
  have ha : AllMig (clearT c t) := by
    intro i lk hlk
    simp only [clearT, Array.getElem?_map] at hlk
    cases hx : t.locks[i]? with
    | none => rw [hx] at hlk; cases hlk
    | some x => rw [hx] at hlk; cases hlk; rfl
  have hnl : ∀ p, (clearT c t).at c p = none := by
    intro p
    cases p with
    | cur b s => exact Store.mk'_get _ _ _ _
    | old b s => rfl
  refine ⟨⟨h.S_pos, h.M_pow, Store.mk'_wf c _, ?_, ?_, ?_, ?_, ?_, ?_, ?_, h.limit⟩, ?_, ?_, ha⟩
  · simpa [clearT] using h.locks_pow
  · simpa [clearT] using h.locks_le
  · simpa [clearT, Table.hp] using h.locks_ge
  · rw [Rz.allMig_nUnmig ha]; rfl
  · intro h0; exact absurd h0 (Nat.lt_irrefl 0)
  · intro b s _; exact Store.mk'_get _ _ _ _
  · intro p p' sl sl' hp; rw [hnl] at hp; cases hp
  · rintro sl ⟨p, hp⟩; rw [hnl] at hp; cases hp
  · unfold Table.sumCnt clearT
    simp only
    rw [Array.foldl_map, ← Array.foldl_toList]
    exact foldl_add_zero _ _

omit [DecidableEq κ] in
theorem init_full (c : Cfg κ) (n : Nat) (hS : 0 < c.S) (hM : ∃ m, c.M = 2 ^ m) :
    Inv c (Table.init c n : Table κ ν) ∧ AllMig (Table.init c n : Table κ ν) ∧
    (∀ sl, ¬ (Table.init c n : Table κ ν).Live c sl) ∧ (Table.init c n : Table κ ν).sumCnt = 0 := by
  obtain ⟨a1, a2, a3, _⟩ := Rz.init_spec (ν := ν) c n 0 defaultMlf noMaxHp hS hM (.inl rfl) (Table.init c n) rfl
  refine ⟨a1, a2, a3, ?_⟩
  unfold Table.sumCnt Table.init
  exact Rz.foldl_cnt_replicate _ _ _

/-! ### the iterator constructor on an occupied cell -/

omit [DecidableEq κ] in
theorem itAt_occupied (S : Nat) (st : Store κ ν) (b s : Nat) (sl : Slot κ ν)
    (hsz : st.cells.size = 2 ^ st.hp * S) (hget : st.get S b s = some sl) : st.itAt S (b, s) = (b, s) := by
  obtain ⟨hs, hlt⟩ := Store.get_some_lt hget
  unfold Store.itAt
  split
  · rfl
  · unfold Store.firstFrom Store.flat
    simp only
    have hS : 0 < S := by omega
    have hcell : (st.cells.getD (b * S + s) none).isSome = true := by
      unfold Store.get at hget
      rw [if_pos hs] at hget
      rw [hget]; rfl
    rw [hsz] at hlt
    obtain ⟨f, hf⟩ : ∃ f, 2 ^ st.hp * S + 1 - (b * S + s) = f + 1 := ⟨2 ^ st.hp * S - (b * S + s), by omega⟩
    rw [hf]
    unfold Store.firstFrom.go
    rw [if_neg (by omega), if_pos hcell]
    have h1 : (b * S + s) / S = b := by
      rw [Nat.mul_comm, Nat.mul_add_div hS, Nat.div_eq_of_lt hs]; simp
    have h2 : (b * S + s) % S = s := by
      rw [Nat.mul_comm, Nat.mul_add_mod, Nat.mod_eq_of_lt hs]
    rw [h1, h2]

/-! ### the operations -/

theorem fnOp_spec (c : Cfg κ) (canErase : Bool) (t : Table κ ν) (m : AMap κ ν) (k : κ) (fn : ν → FnOut ν)
    (h : Inv c t) (hr : Rel c t m) :
    Inv c (t.fnOp c canErase k fn).1 ∧
    match m.lookup k with
    | none => (t.fnOp c canErase k fn).2.res = .ok false ∧ (t.fnOp c canErase k fn).2.calls = [] ∧
        Rel c (t.fnOp c canErase k fn).1 m
    | some v =>
      (t.fnOp c canErase k fn).2.calls = [⟨none, v⟩] ∧
      match fn v with
      | .ret v' er => (t.fnOp c canErase k fn).2.res = .ok true ∧
          Rel c (t.fnOp c canErase k fn).1 (if canErase && er then m.erase k else m.set k v')
      | .throw v' => (t.fnOp c canErase k fn).2.res = .err .fnThrow ∧ Rel c (t.fnOp c canErase k fn).1 (m.set k v') := by
  obtain ⟨a1, a2, _, a4⟩ := locate_spec c false t m k h hr (fun e => by cases e)
  rcases hloc : t.locate c false k with ⟨t1, _ | ⟨b, s⟩⟩
  · rw [hloc] at a1 a2 a4
    simp only at a1 a2 a4
    have e : t.fnOp c canErase k fn = (t1, { res := .ok false }) := by
      unfold Table.fnOp; rw [hloc]
    rw [e, a4]
    exact ⟨a1, rfl, rfl, a2⟩
  · rw [hloc] at a1 a2 a4
    simp only at a1 a2 a4
    obtain ⟨sl, hg, hk, hlook⟩ := a4
    subst hk
    rw [hlook]
    simp only
    cases hfn : fn sl.val with
    | throw v' =>
      have e : t.fnOp c canErase sl.key fn =
          (t1.setVal c b s v', { res := .err .fnThrow, calls := [⟨none, sl.val⟩] }) := by
        unfold Table.fnOp; rw [hloc]; simp only [hg, hfn]
      rw [e]
      obtain ⟨b1, b2, _, _⟩ := setVal_rel c t1 m b s sl v' a1 a2 hg
      exact ⟨b1, rfl, rfl, b2⟩
    | ret v' er =>
      cases hce : (canErase && er) with
      | true =>
        have e : t.fnOp c canErase sl.key fn =
            ((t1.setVal c b s v').delFrom c b s, { res := .ok true, calls := [⟨none, sl.val⟩] }) := by
          unfold Table.fnOp; rw [hloc]; simp only [hg, hfn, hce, if_true]
        rw [e]
        obtain ⟨b1, b2, _⟩ := setDel_rel c t1 m b s sl v' a1 a2 hg
        exact ⟨b1, rfl, rfl, by rw [hce]; exact b2⟩
      | false =>
        have e : t.fnOp c canErase sl.key fn =
            (t1.setVal c b s v', { res := .ok true, calls := [⟨none, sl.val⟩] }) := by
          unfold Table.fnOp; rw [hloc]; simp only [hg, hfn, hce]; rfl
        rw [e]
        obtain ⟨b1, b2, _, _⟩ := setVal_rel c t1 m b s sl v' a1 a2 hg
        exact ⟨b1, rfl, rfl, by rw [hce]; exact b2⟩

theorem findVal_spec (c : Cfg κ) (t : Table κ ν) (m : AMap κ ν) (k : κ) (h : Inv c t) (hr : Rel c t m) :
    Inv c (t.findVal c k).1 ∧ Rel c (t.findVal c k).1 m ∧
    (t.findVal c k).2 = (match m.lookup k with | some v => .ok v | none => .err .outOfRange) := by
  obtain ⟨a1, a2, _, a4⟩ := locate_spec c false t m k h hr (fun e => by cases e)
  rcases hloc : t.locate c false k with ⟨t1, _ | ⟨b, s⟩⟩
  · rw [hloc] at a1 a2 a4
    simp only at a1 a2 a4
    have e : t.findVal c k = (t1, .err .outOfRange) := by
      unfold Table.findVal; rw [hloc]
    rw [e, a4]
    exact ⟨a1, a2, rfl⟩
  · rw [hloc] at a1 a2 a4
    simp only at a1 a2 a4
    obtain ⟨sl, hg, hk, hlook⟩ := a4
    have e : t.findVal c k = (t1, .ok sl.val) := by
      unfold Table.findVal; rw [hloc]; simp only [hg]
    rw [e, hlook]
    exact ⟨a1, a2, rfl⟩

/-- copy of `Props.C02.upraseSpec` (definitionally the same), so that the proof can live here -/
def upraseSpecA (m : AMap κ ν) (k : κ) (v : ν) (ctxAware mayErase : Bool) (fn : Ctx → ν → FnOut ν) :
    Res Bool × List (Call ν) × AMap κ ν :=
  match m.lookup k with
  | some old =>
    let call : Call ν := ⟨if ctxAware then some .alreadyExisted else none, old⟩
    match fn .alreadyExisted old with
    | .ret v' er => (.ok false, [call], if mayErase && er then m.erase k else m.set k v')
    | .throw v' => (.err .fnThrow, [call], m.set k v')
  | none =>
    if ctxAware then
      let call : Call ν := ⟨some .newlyInserted, v⟩
      match fn .newlyInserted v with
      | .ret v' er => (.ok true, [call], if mayErase && er then m else m.add k v')
      | .throw v' => (.err .fnThrow, [call], m.add k v')
    else (.ok true, [], m.add k v)

theorem uprase_spec (c : Cfg κ) (locked : Bool) (t : Table κ ν) (m : AMap κ ν) (k : κ) (v : ν)
    (ctxAware mayErase : Bool) (fn : Ctx → ν → FnOut ν)
    (h : Inv c t) (hr : Rel c t m) (hl : locked = true → AllMig t) :
    Inv c (t.uprase c locked k v ctxAware mayErase fn).1 ∧
    (locked = true → AllMig (t.uprase c locked k v ctxAware mayErase fn).1) ∧
    ((∃ e, (t.uprase c locked k v ctxAware mayErase fn).2.1.res = .err e ∧ ResizeErr e ∧
          (t.uprase c locked k v ctxAware mayErase fn).2.1.calls = [] ∧
          Rel c (t.uprase c locked k v ctxAware mayErase fn).1 m) ∨
     ((t.uprase c locked k v ctxAware mayErase fn).2.1.res = (upraseSpecA m k v ctxAware mayErase fn).1 ∧
      (t.uprase c locked k v ctxAware mayErase fn).2.1.calls = (upraseSpecA m k v ctxAware mayErase fn).2.1 ∧
      Rel c (t.uprase c locked k v ctxAware mayErase fn).1 (upraseSpecA m k v ctxAware mayErase fn).2.2)) := by
  obtain ⟨a1, a2, a3, a4⟩ := insertLoop_spec c locked (c.fuel t.cur.cells.size) t k h hl
  have hr1 := hr.of_same a2
  rcases hloop : insertLoop c locked (c.fuel t.cur.cells.size) t k with ⟨t1, pos | e⟩
  · rw [hloop] at a1 a2 a3 a4 hr1
    simp only at a1 a2 a3 a4 hr1
    cases pos with
    | free b s =>
      obtain ⟨b1, b2, b3, b4, b5⟩ := addTo_rel c t1 m b s k v a1 hr1 a4
      cases ctxAware with
      | false =>
        have e : t.uprase c locked k v false mayErase fn =
            (t1.addTo c b s ⟨c.tag k, k, v⟩, { res := .ok true, consumed := true }, some (b, s)) := by
          unfold Table.uprase; rw [hloop]; rfl
        have hs : upraseSpecA m k v false mayErase fn = (.ok true, [], m.add k v) := by
          unfold upraseSpecA; rw [b5]; rfl
        rw [e, hs]
        exact ⟨b1, fun hh => b3 (a3 hh), .inr ⟨rfl, rfl, b2⟩⟩
      | true =>
        cases hfn : fn .newlyInserted v with
        | throw v' =>
          have e : t.uprase c locked k v true mayErase fn =
              ((t1.addTo c b s ⟨c.tag k, k, v⟩).setVal c b s v',
                { res := .err .fnThrow, calls := [⟨some .newlyInserted, v⟩], consumed := true }, some (b, s)) := by
            unfold Table.uprase; rw [hloop]; simp only [Bool.true_or, if_true, b4, hfn]; rfl
          have hs : upraseSpecA m k v true mayErase fn =
              (.err .fnThrow, [⟨some .newlyInserted, v⟩], m.add k v') := by
            unfold upraseSpecA; rw [b5]; simp only [if_true, hfn]
          rw [e, hs]
          obtain ⟨d1, d2, d3, _⟩ := setVal_rel c _ _ b s _ v' b1 b2 b4
          rw [AMap.add_set m k v v' b5] at d2
          exact ⟨d1, fun hh => d3 (b3 (a3 hh)), .inr ⟨rfl, rfl, d2⟩⟩
        | ret v' er =>
          cases hce : (mayErase && er) with
          | true =>
            have e : t.uprase c locked k v true mayErase fn =
                (((t1.addTo c b s ⟨c.tag k, k, v⟩).setVal c b s v').delFrom c b s,
                  { res := .ok true, calls := [⟨some .newlyInserted, v⟩], consumed := true }, some (b, s)) := by
              unfold Table.uprase; rw [hloop]; simp only [Bool.true_or, if_true, b4, hfn, hce]; rfl
            have hs : upraseSpecA m k v true mayErase fn =
                (.ok true, [⟨some .newlyInserted, v⟩], m) := by
              unfold upraseSpecA; rw [b5]; simp only [if_true, hfn, hce]
            rw [e, hs]
            obtain ⟨d1, d2, d3⟩ := setDel_rel c _ _ b s _ v' b1 b2 b4
            rw [AMap.add_erase m k v b5] at d2
            exact ⟨d1, fun hh => d3 (b3 (a3 hh)), .inr ⟨rfl, rfl, d2⟩⟩
          | false =>
            have e : t.uprase c locked k v true mayErase fn =
                ((t1.addTo c b s ⟨c.tag k, k, v⟩).setVal c b s v',
                  { res := .ok true, calls := [⟨some .newlyInserted, v⟩], consumed := true }, some (b, s)) := by
              unfold Table.uprase; rw [hloop]; simp only [Bool.true_or, if_true, b4, hfn, hce]; rfl
            have hs : upraseSpecA m k v true mayErase fn =
                (.ok true, [⟨some .newlyInserted, v⟩], m.add k v') := by
              unfold upraseSpecA; rw [b5]; simp only [if_true, hfn, hce]; rfl
            rw [e, hs]
            obtain ⟨d1, d2, d3, _⟩ := setVal_rel c _ _ b s _ v' b1 b2 b4
            rw [AMap.add_set m k v v' b5] at d2
            exact ⟨d1, fun hh => d3 (b3 (a3 hh)), .inr ⟨rfl, rfl, d2⟩⟩
    | dup b s =>
      obtain ⟨sl, hg, hk⟩ := a4
      have hlook := rel_lookup_of_live hr1 ⟨.cur b s, hg⟩
      subst hk
      cases hfn : fn .alreadyExisted sl.val with
      | throw v' =>
        have e : t.uprase c locked sl.key v ctxAware mayErase fn =
            (t1.setVal c b s v', { res := .err .fnThrow, calls := [⟨if ctxAware then some .alreadyExisted else none, sl.val⟩] }, some (b, s)) := by
          unfold Table.uprase; rw [hloop]
          have : (ctxAware || Ctx.alreadyExisted == Ctx.alreadyExisted) = true := by cases ctxAware <;> rfl
          simp only [this, if_true, hg, hfn]; rfl
        have hs : upraseSpecA m sl.key v ctxAware mayErase fn =
            (.err .fnThrow, [⟨if ctxAware then some .alreadyExisted else none, sl.val⟩], m.set sl.key v') := by
          unfold upraseSpecA; rw [hlook]; simp only [hfn]
        rw [e, hs]
        obtain ⟨d1, d2, d3, _⟩ := setVal_rel c _ _ b s _ v' a1 hr1 hg
        exact ⟨d1, fun hh => d3 (a3 hh), .inr ⟨rfl, rfl, d2⟩⟩
      | ret v' er =>
        cases hce : (mayErase && er) with
        | true =>
          have e : t.uprase c locked sl.key v ctxAware mayErase fn =
              ((t1.setVal c b s v').delFrom c b s, { res := .ok false, calls := [⟨if ctxAware then some .alreadyExisted else none, sl.val⟩] }, some (b, s)) := by
            unfold Table.uprase; rw [hloop]
            have : (ctxAware || Ctx.alreadyExisted == Ctx.alreadyExisted) = true := by cases ctxAware <;> rfl
            simp only [this, if_true, hg, hfn, hce]; rfl
          have hs : upraseSpecA m sl.key v ctxAware mayErase fn =
              (.ok false, [⟨if ctxAware then some .alreadyExisted else none, sl.val⟩], m.erase sl.key) := by
            unfold upraseSpecA; rw [hlook]; simp only [hfn, hce, if_true]
          rw [e, hs]
          obtain ⟨d1, d2, d3⟩ := setDel_rel c _ _ b s _ v' a1 hr1 hg
          exact ⟨d1, fun hh => d3 (a3 hh), .inr ⟨rfl, rfl, d2⟩⟩
        | false =>
          have e : t.uprase c locked sl.key v ctxAware mayErase fn =
              (t1.setVal c b s v', { res := .ok false, calls := [⟨if ctxAware then some .alreadyExisted else none, sl.val⟩] }, some (b, s)) := by
            unfold Table.uprase; rw [hloop]
            have : (ctxAware || Ctx.alreadyExisted == Ctx.alreadyExisted) = true := by cases ctxAware <;> rfl
            simp only [this, if_true, hg, hfn, hce]; rfl
          have hs : upraseSpecA m sl.key v ctxAware mayErase fn =
              (.ok false, [⟨if ctxAware then some .alreadyExisted else none, sl.val⟩], m.set sl.key v') := by
            unfold upraseSpecA; rw [hlook]; simp only [hfn, hce]; rfl
          rw [e, hs]
          obtain ⟨d1, d2, d3, _⟩ := setVal_rel c _ _ b s _ v' a1 hr1 hg
          exact ⟨d1, fun hh => d3 (a3 hh), .inr ⟨rfl, rfl, d2⟩⟩
  · rw [hloop] at a1 a2 a3 a4 hr1
    simp only at a1 a2 a3 a4 hr1
    have e' : t.uprase c locked k v ctxAware mayErase fn = (t1, { res := .err e }, none) := by
      unfold Table.uprase; rw [hloop]
    rw [e']
    exact ⟨a1, a3, .inl ⟨e, rfl, a4, rfl, hr1⟩⟩

theorem rehash_spec (c : Cfg κ) (locked : Bool) (t : Table κ ν) (m : AMap κ ν) (n : Nat)
    (h : Inv c t) (hr : Rel c t m) (hl : locked = true → AllMig t) :
    Inv c (t.rehash c locked n).1 ∧ Rel c (t.rehash c locked n).1 m ∧
    (locked = true → AllMig (t.rehash c locked n).1) ∧
    (match (t.rehash c locked n).2 with | .ok _ => True | .err e => ResizeErr e) := by
  unfold Table.rehash
  split
  · exact ⟨h, hr, hl, trivial⟩
  · obtain ⟨a1, a2, a3, a4⟩ := expandSimple_spec c locked false (c.fuel t.cur.cells.size) t n h hl
    refine ⟨a1, hr.of_same a2, a3, ?_⟩
    split
    · trivial
    · rename_i e he; rw [he] at a4; exact a4

theorem reserve_spec (c : Cfg κ) (locked : Bool) (t : Table κ ν) (m : AMap κ ν) (n : Nat)
    (h : Inv c t) (hr : Rel c t m) (hl : locked = true → AllMig t) :
    Inv c (t.reserve c locked n).1 ∧ Rel c (t.reserve c locked n).1 m ∧
    (locked = true → AllMig (t.reserve c locked n).1) ∧
    (match (t.reserve c locked n).2 with | .ok _ => True | .err e => ResizeErr e) := by
  unfold Table.reserve
  simp only
  split
  · exact ⟨h, hr, hl, trivial⟩
  · obtain ⟨a1, a2, a3, a4⟩ := expandSimple_spec c locked false (c.fuel t.cur.cells.size) t
      (Spec.reserveCalc c.S n) h hl
    refine ⟨a1, hr.of_same a2, a3, ?_⟩
    split
    · trivial
    · rename_i e he; rw [he] at a4; exact a4

omit [DecidableEq κ] in
theorem clear_rel (c : Cfg κ) (t : Table κ ν) (h : Inv c t) :
    Inv c (t.clear c) ∧ Rel c (t.clear c) [] ∧ AllMig (t.clear c) := by
  obtain ⟨a1, a2, a3, a4⟩ := clear_spec c t h
  refine ⟨a1, ⟨?_, List.nodup_nil, by rw [a3]; rfl⟩, a4⟩
  intro k v
  constructor
  · intro hm; cases hm
  · rintro ⟨tag, hl⟩; exact absurd hl (a2 _)

omit [DecidableEq κ] in
theorem init_rel (c : Cfg κ) (n : Nat) (hS : 0 < c.S) (hM : ∃ m, c.M = 2 ^ m) :
    Inv c (Table.init c n : Table κ ν) ∧ Rel c (Table.init c n : Table κ ν) [] := by
  obtain ⟨a1, _, a3, a4⟩ := init_full (ν := ν) c n hS hM
  refine ⟨a1, ⟨?_, List.nodup_nil, by rw [a4]; rfl⟩⟩
  intro k v
  constructor
  · intro hm; cases hm
  · rintro ⟨tag, hl⟩; exact absurd hl (a3 _)

omit [DecidableEq κ] in
theorem lockTable_spec (c : Cfg κ) (t : Table κ ν) (m : AMap κ ν) (h : Inv c t) (hr : Rel c t m) :
    Inv c (t.lockTable c) ∧ Rel c (t.lockTable c) m ∧ AllMig (t.lockTable c) ∧ (t.lockTable c).old = none := by
  obtain ⟨a1, a2, _, _, a5, _, a7, _⟩ := migrateAll_spec c t h
  exact ⟨a1, hr.of_same a2, a5, a7⟩

omit [DecidableEq κ] in
theorem setMlf_spec (c : Cfg κ) (t : Table κ ν) (m : AMap κ ν) (x : Float) (h : Inv c t) (hr : Rel c t m) :
    Inv c (t.setMlf x).1 ∧ Rel c (t.setMlf x).1 m ∧ (AllMig t → AllMig (t.setMlf x).1) := by
  unfold Table.setMlf
  split
  · exact ⟨h, hr, id⟩
  · split
    · exact ⟨h, hr, id⟩
    · exact ⟨⟨h.S_pos, h.M_pow, h.cur_wf, h.locks_pow, h.locks_le, h.locks_ge, h.rem_eq, h.pending,
        h.unmig_empty, h.uniq, h.limit⟩, ⟨hr.pairs, hr.nodup, hr.count⟩, id⟩

omit [DecidableEq κ] in
theorem setMhp_spec (c : Cfg κ) (t : Table κ ν) (m : AMap κ ν) (x : Nat) (h : Inv c t) (hr : Rel c t m) :
    Inv c (t.setMhp x).1 ∧ Rel c (t.setMhp x).1 m ∧ (AllMig t → AllMig (t.setMhp x).1) := by
  unfold Table.setMhp
  split
  · exact ⟨h, hr, id⟩
  · rename_i hg
    exact ⟨⟨h.S_pos, h.M_pow, h.cur_wf, h.locks_pow, h.locks_le, h.locks_ge, h.rem_eq, h.pending,
        h.unmig_empty, h.uniq, .inr (Nat.le_of_not_gt hg)⟩, ⟨hr.pairs, hr.nodup, hr.count⟩, id⟩

theorem ltErase_spec (c : Cfg κ) (t : Table κ ν) (m : AMap κ ν) (k : κ) (h : Inv c t) (hr : Rel c t m)
    (hl : AllMig t) :
    Inv c (t.ltErase c k).1 ∧ AllMig (t.ltErase c k).1 ∧ Rel c (t.ltErase c k).1 (m.erase k) ∧
    (t.ltErase c k).2 = (match m.lookup k with | some _ => 1 | none => 0) := by
  obtain ⟨_, _, _, a4⟩ := locate_spec c true t m k h hr (fun _ => hl)
  have ht : (t.locate c true k).1 = t := rfl
  rw [ht] at a4
  unfold Table.ltErase
  cases hloc : (t.locate c true k).2 with
  | none =>
    rw [hloc] at a4
    simp only at a4 ⊢
    rw [a4, AMap.erase_of_lookup_none m k a4]
    exact ⟨h, hl, hr, rfl⟩
  | some p =>
    obtain ⟨b, s⟩ := p
    rw [hloc] at a4
    simp only at a4 ⊢
    obtain ⟨sl, hg, hk, hlook⟩ := a4
    obtain ⟨b1, b2, b3⟩ := delFrom_rel c t m b s sl h hr hg
    rw [hk] at b2
    rw [hlook]
    exact ⟨b1, b3 hl, b2, rfl⟩

theorem ltInsert_spec (c : Cfg κ) (t : Table κ ν) (m : AMap κ ν) (k : κ) (v : ν) (h : Inv c t) (hr : Rel c t m)
    (hl : AllMig t) :
    Inv c (t.ltInsert c k v).1 ∧ AllMig (t.ltInsert c k v).1 ∧
    match (t.ltInsert c k v).2 with
    | .err e => ResizeErr e ∧ Rel c (t.ltInsert c k v).1 m
    | .ok (p, inserted) =>
      inserted = (m.lookup k).isNone ∧
      Rel c (t.ltInsert c k v).1 (if inserted then m.add k v else m) ∧
      ∃ sl, (t.ltInsert c k v).1.cur.get c.S p.1 p.2 = some sl ∧ sl.key = k ∧
        sl.val = (match m.lookup k with | some old => old | none => v) := by
  obtain ⟨a1, a2, a3, a4⟩ := insertLoop_spec c true (c.fuel t.cur.cells.size) t k h (fun _ => hl)
  have hr1 := hr.of_same a2
  rcases hloop : insertLoop c true (c.fuel t.cur.cells.size) t k with ⟨t1, pos | e⟩
  · rw [hloop] at a1 a2 a3 a4 hr1
    simp only at a1 a2 a3 a4 hr1
    cases pos with
    | free b s =>
      obtain ⟨b1, b2, b3, b4, b5⟩ := addTo_rel c t1 m b s k v a1 hr1 a4
      have hit := itAt_occupied c.S _ b s _ b1.cur_wf.size b4
      have e : t.ltInsert c k v = (t1.addTo c b s ⟨c.tag k, k, v⟩, .ok ((b, s), true)) := by
        unfold Table.ltInsert; rw [hloop]; simp only [hit]
      rw [e, b5]
      exact ⟨b1, b3 (a3 trivial), rfl, b2, _, b4, rfl, rfl⟩
    | dup b s =>
      obtain ⟨sl, hg, hk⟩ := a4
      have hlook := rel_lookup_of_live hr1 ⟨.cur b s, hg⟩
      rw [hk] at hlook
      have hit := itAt_occupied c.S _ b s _ a1.cur_wf.size hg
      have e : t.ltInsert c k v = (t1, .ok ((b, s), false)) := by
        unfold Table.ltInsert; rw [hloop]; simp only [hit]
      rw [e, hlook]
      exact ⟨a1, a3 trivial, rfl, hr1, sl, hg, hk, rfl⟩
  · rw [hloop] at a1 a2 a3 a4 hr1
    simp only at a1 a2 a3 a4 hr1
    have e' : t.ltInsert c k v = (t1, .err e) := by
      unfold Table.ltInsert; rw [hloop]
    rw [e']
    exact ⟨a1, a3 trivial, a4, hr1⟩

end Cuckoo.Model.C02A
