import Cuckoo.Proofs.CommAux3
/-!
Helper lemmas for `Props/C03Comm`: the read footprint of the five stripe sections of `Model/Conc.lean`.
`rf_*`: from two tables satisfying the invariant that agree on the stripes the section takes, the section gives the
same response and the same step (`Transp`).
-/
namespace Cuckoo.Model
open Cuckoo Cuckoo.Model.Conc Cuckoo.Model.ConcA
variable {κ ν : Type}

theorem rf_lockSec (c : Cfg κ) (bs : List Nat) (t u : Table κ ν) (ht : Inv c t) (hu : Inv c u)
    (ha : AgreeOn c (bs.map c.lockInd) t u) :
    (lockSec (ν := ν) c bs u).2 = (lockSec (ν := ν) c bs t).2 ∧
    Transp c (bs.map c.lockInd) t u (lockSec (ν := ν) c bs t).1 (lockSec (ν := ν) c bs u).1 := by
  unfold lockSec
  match bs with
  | [] => exact ⟨rfl, Transp.refl ha.loc⟩
  | [b] => exact ⟨rfl, lockOne_transp c _ t u b (by simp) ht hu ha⟩
  | [b1, b2] => exact ⟨rfl, lockTwo_transp c _ t u b1 b2 (by simp) (by simp) ht hu ha⟩
  | [b1, b2, b3] => exact ⟨rfl, lockThree_transp c _ t u b1 b2 b3 (by simp) (by simp) (by simp) ht hu ha⟩
  | _ :: _ :: _ :: _ :: _ => exact ⟨rfl, Transp.refl ha.loc⟩

theorem rf_hopSec (c : Cfg κ) (hpS rcS : Nat) (fr to : PathRec) (t u : Table κ ν) (ht : Inv c t) (hu : Inv c u)
    (ha : AgreeOn c [c.lockInd fr.bucket, c.lockInd to.bucket] t u) :
    (hopSec c hpS rcS fr to u).2 = (hopSec c hpS rcS fr to t).2 ∧
    Transp c [c.lockInd fr.bucket, c.lockInd to.bucket] t u (hopSec c hpS rcS fr to t).1 (hopSec c hpS rcS fr to u).1 := by
  have a := lockTwo_transp c [c.lockInd fr.bucket, c.lockInd to.bucket] t u fr.bucket to.bucket (by simp) (by simp)
    ht hu ha
  unfold hopSec
  simp only
  rw [valid_congr a.agree hpS rcS]
  generalize t.lockTwo c fr.bucket to.bucket = t1 at *
  generalize u.lockTwo c fr.bucket to.bucket = u1 at *
  by_cases hg : (valid t1 hpS rcS && to.bucket == Spec.altIndex hpS (Spec.partialKey fr.hash) fr.bucket &&
      decide (to.slot < c.S)) = true
  · rw [if_pos hg, if_pos hg]
    simp only [Bool.and_eq_true, beq_iff_eq, decide_eq_true_eq] at hg
    obtain ⟨_, hslot⟩ := hg
    rcases agree_hop c _ t1 u1 fr to hslot (by simp) (by simp) a.agree with ⟨e1, e2⟩ | ⟨t2, u2, e1, e2, a2⟩
    · rw [e1, e2]; exact ⟨rfl, a⟩
    · rw [e1, e2]
      exact ⟨rfl, a.post a2 (hop_ro e1).1 (hop_ro e1).2 (hop_ro e2).1 (hop_ro e2).2⟩
  · rw [if_neg hg, if_neg hg]
    exact ⟨rfl, a⟩

variable [DecidableEq κ]

theorem fnOp_ro (c : Cfg κ) (ce : Bool) (t : Table κ ν) (k : κ) (fn : ν → FnOut ν) :
    (t.fnOp c ce k fn).1.rem = (t.lockTwo c (c.i1 t.hp k) (c.i2 t.hp k)).rem ∧
    (t.fnOp c ce k fn).1.old = (t.lockTwo c (c.i1 t.hp k) (c.i2 t.hp k)).old := by
  have hloc : t.locate c false k = (t.lockTwo c (c.i1 t.hp k) (c.i2 t.hp k),
      cuckooFind c (t.lockTwo c (c.i1 t.hp k) (c.i2 t.hp k)).cur (c.i1 t.hp k) (c.i2 t.hp k) k) := rfl
  generalize t.lockTwo c (c.i1 t.hp k) (c.i2 t.hp k) = t1 at *
  unfold Table.fnOp
  rw [hloc]
  cases cuckooFind c t1.cur (c.i1 t.hp k) (c.i2 t.hp k) k with
  | none => exact ⟨rfl, rfl⟩
  | some p =>
    obtain ⟨b, s⟩ := p
    simp only
    cases t1.cur.get c.S b s with
    | none => exact ⟨rfl, rfl⟩
    | some sl =>
      simp only
      cases fn sl.val with
      | throw v' => simp
      | ret v' er =>
        simp only
        split <;> simp

theorem rf_fnOp (c : Cfg κ) (ce : Bool) (k : κ) (fn : ν → FnOut ν) (t u : Table κ ν) (ht : Inv c t) (hu : Inv c u)
    (ha : AgreeOn c [c.lockInd (c.i1 t.hp k), c.lockInd (c.i2 t.hp k)] t u) :
    (u.fnOp c ce k fn).2.res = (t.fnOp c ce k fn).2.res ∧ (u.fnOp c ce k fn).2.calls = (t.fnOp c ce k fn).2.calls ∧
    Transp c [c.lockInd (c.i1 t.hp k), c.lockInd (c.i2 t.hp k)] t u (t.fnOp c ce k fn).1 (u.fnOp c ce k fn).1 := by
  have a := lockTwo_transp c [c.lockInd (c.i1 t.hp k), c.lockInd (c.i2 t.hp k)] t u (c.i1 t.hp k) (c.i2 t.hp k)
    (by simp) (by simp) ht hu ha
  obtain ⟨rt1, rt2⟩ := fnOp_ro c ce t k fn
  obtain ⟨ru1, ru2⟩ := fnOp_ro c ce u k fn
  have hhp : u.hp = t.hp := ha.loc.hp
  rw [hhp] at ru1 ru2
  have hloc : t.locate c false k = (t.lockTwo c (c.i1 t.hp k) (c.i2 t.hp k),
      cuckooFind c (t.lockTwo c (c.i1 t.hp k) (c.i2 t.hp k)).cur (c.i1 t.hp k) (c.i2 t.hp k) k) := rfl
  have hlocu : u.locate c false k = (u.lockTwo c (c.i1 t.hp k) (c.i2 t.hp k),
      cuckooFind c (u.lockTwo c (c.i1 t.hp k) (c.i2 t.hp k)).cur (c.i1 t.hp k) (c.i2 t.hp k) k) := by
    rw [← hhp]; rfl
  generalize t.lockTwo c (c.i1 t.hp k) (c.i2 t.hp k) = t1 at *
  generalize u.lockTwo c (c.i1 t.hp k) (c.i2 t.hp k) = u1 at *
  have h1 : c.lockInd (c.i1 t.hp k) ∈ [c.lockInd (c.i1 t.hp k), c.lockInd (c.i2 t.hp k)] := by simp
  have h2 : c.lockInd (c.i2 t.hp k) ∈ [c.lockInd (c.i1 t.hp k), c.lockInd (c.i2 t.hp k)] := by simp
  have hfind := cuckooFind_congr c t1.cur u1.cur (c.i1 t.hp k) (c.i2 t.hp k) k (fun s => a.agree.cells _ s h1)
    (fun s => a.agree.cells _ s h2)
  suffices hs : (u.fnOp c ce k fn).2.res = (t.fnOp c ce k fn).2.res ∧
      (u.fnOp c ce k fn).2.calls = (t.fnOp c ce k fn).2.calls ∧
      AgreeL c [c.lockInd (c.i1 t.hp k), c.lockInd (c.i2 t.hp k)] (t.fnOp c ce k fn).1 (u.fnOp c ce k fn).1 from
    ⟨hs.1, hs.2.1, a.post hs.2.2 rt1 rt2 ru1 ru2⟩
  clear rt1 rt2 ru1 ru2
  unfold Table.fnOp
  rw [hloc, hlocu, hfind]
  cases hf : cuckooFind c t1.cur (c.i1 t.hp k) (c.i2 t.hp k) k with
  | none => exact ⟨rfl, rfl, a.agree⟩
  | some p =>
    obtain ⟨b, s⟩ := p
    have hb : c.lockInd b ∈ [c.lockInd (c.i1 t.hp k), c.lockInd (c.i2 t.hp k)] := by
      rcases cuckooFind_bucket hf with e | e <;> rw [e] <;> simp
    simp only
    rw [a.agree.cells b s hb]
    cases hg : t1.cur.get c.S b s with
    | none => exact ⟨rfl, rfl, a.agree⟩
    | some sl =>
      have hs : s < c.S := (Store.get_some_lt hg).1
      simp only
      cases fn sl.val with
      | throw v' => exact ⟨rfl, rfl, agree_setVal c _ t1 u1 b s v' hb a.agree⟩
      | ret v' er =>
        simp only
        by_cases e : (ce && er) = true
        · rw [if_pos e, if_pos e]
          exact ⟨trivial, trivial, agree_delFrom c _ _ _ b s hs (agree_setVal c _ t1 u1 b s v' hb a.agree)⟩
        · rw [if_neg e, if_neg e]
          exact ⟨trivial, trivial, agree_setVal c _ t1 u1 b s v' hb a.agree⟩

theorem rf_lookupSec (c : Cfg κ) (ce : Bool) (k : κ) (fn : ν → FnOut ν) (t u : Table κ ν) (ht : Inv c t)
    (hu : Inv c u) (ha : AgreeOn c [c.lockInd (c.i1 t.hp k), c.lockInd (c.i2 t.hp k)] t u) :
    (lookupSec c ce k fn u).2 = (lookupSec c ce k fn t).2 ∧
    Transp c [c.lockInd (c.i1 t.hp k), c.lockInd (c.i2 t.hp k)] t u (lookupSec c ce k fn t).1 (lookupSec c ce k fn u).1 := by
  obtain ⟨r1, r2, r3⟩ := rf_fnOp c ce k fn t u ht hu ha
  unfold lookupSec
  simp only
  rw [r1, r2]
  exact ⟨rfl, r3⟩

theorem insertTrySec_ro (c : Cfg κ) (k : κ) (v : ν) (ca me : Bool) (fn : Ctx → ν → FnOut ν) (t : Table κ ν) :
    (insertTrySec c k v ca me fn t).1.rem = (t.lockTwo c (c.i1 t.hp k) (c.i2 t.hp k)).rem ∧
    (insertTrySec c k v ca me fn t).1.old = (t.lockTwo c (c.i1 t.hp k) (c.i2 t.hp k)).old := by
  unfold insertTrySec
  simp only
  generalize t.lockTwo c (c.i1 t.hp k) (c.i2 t.hp k) = t1
  cases tryInsert c t1.cur (c.i1 t.hp k) (c.i2 t.hp k) k with
  | needCuckoo => exact ⟨rfl, rfl⟩
  | pos p => exact finishInsert_ro c t1 k v ca me fn p

theorem rf_insertTrySec (c : Cfg κ) (k : κ) (v : ν) (ca me : Bool) (fn : Ctx → ν → FnOut ν) (t u : Table κ ν)
    (ht : Inv c t) (hu : Inv c u) (ha : AgreeOn c [c.lockInd (c.i1 t.hp k), c.lockInd (c.i2 t.hp k)] t u) :
    (insertTrySec c k v ca me fn u).2 = (insertTrySec c k v ca me fn t).2 ∧
    Transp c [c.lockInd (c.i1 t.hp k), c.lockInd (c.i2 t.hp k)] t u (insertTrySec c k v ca me fn t).1
      (insertTrySec c k v ca me fn u).1 := by
  have a := lockTwo_transp c [c.lockInd (c.i1 t.hp k), c.lockInd (c.i2 t.hp k)] t u (c.i1 t.hp k) (c.i2 t.hp k)
    (by simp) (by simp) ht hu ha
  obtain ⟨rt1, rt2⟩ := insertTrySec_ro c k v ca me fn t
  obtain ⟨ru1, ru2⟩ := insertTrySec_ro c k v ca me fn u
  have hhp : u.hp = t.hp := ha.loc.hp
  rw [hhp] at ru1 ru2
  suffices hs : (insertTrySec c k v ca me fn u).2 = (insertTrySec c k v ca me fn t).2 ∧
      AgreeL c [c.lockInd (c.i1 t.hp k), c.lockInd (c.i2 t.hp k)] (insertTrySec c k v ca me fn t).1
        (insertTrySec c k v ca me fn u).1 from ⟨hs.1, a.post hs.2 rt1 rt2 ru1 ru2⟩
  clear rt1 rt2 ru1 ru2
  unfold insertTrySec
  simp only
  rw [hhp]
  generalize t.lockTwo c (c.i1 t.hp k) (c.i2 t.hp k) = t1 at *
  generalize u.lockTwo c (c.i1 t.hp k) (c.i2 t.hp k) = u1 at *
  have h1 : c.lockInd (c.i1 t.hp k) ∈ [c.lockInd (c.i1 t.hp k), c.lockInd (c.i2 t.hp k)] := by simp
  have h2 : c.lockInd (c.i2 t.hp k) ∈ [c.lockInd (c.i1 t.hp k), c.lockInd (c.i2 t.hp k)] := by simp
  rw [tryInsert_congr c t1.cur u1.cur (c.i1 t.hp k) (c.i2 t.hp k) k (fun s => a.agree.cells _ s h1)
    (fun s => a.agree.cells _ s h2)]
  cases htry : tryInsert c t1.cur (c.i1 t.hp k) (c.i2 t.hp k) k with
  | needCuckoo => exact ⟨rfl, a.agree⟩
  | pos p =>
    obtain ⟨hb, hs⟩ := tryInsert_pos htry
    have hbL : c.lockInd p.bkt ∈ [c.lockInd (c.i1 t.hp k), c.lockInd (c.i2 t.hp k)] := by
      rcases hb with e | e <;> rw [e] <;> simp
    obtain ⟨r1, r2⟩ := agree_finishInsert c _ t1 u1 k v ca me fn p hbL hs a.agree
    exact ⟨by simp only [r1], r2⟩

end Cuckoo.Model
