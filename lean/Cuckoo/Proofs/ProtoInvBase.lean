import Cuckoo.Model.Proto
/-!
The invariant `PInv` of the protocol transition system, and the elementary facts used to prove its preservation.
-/
namespace Cuckoo.Proto

/-- reachable from an initial state by an accepted trace -/
def Reach (s : PS) : Prop := ∃ hp n evs, 0 < n ∧ run (init hp n) evs = some s

/-- `held` lists are strictly descending (most recent = largest first) -/
def Desc : List LockId → Prop
  | [] => True
  | [_] => True
  | a :: b :: rest => b < a ∧ Desc (b :: rest)

/-- thread `z` holds every lock of lock array number `g` -/
def HoldsGen (s : PS) (z : Tid) (g : Nat) : Prop := ∀ i, i < s.gens.getD g 0 → s.holder ⟨g, i⟩ = some z

structure PInv (s : PS) : Prop where
  gens_ne : s.gens ≠ []
  gens_pos : ∀ n ∈ s.gens, 0 < n
  /-- ownership of locks is exactly what the threads believe -/
  held_iff : ∀ t l, l ∈ (s.th t).held ↔ s.holder l = some t
  held_desc : ∀ t, (s.th t).held.Pairwise (fun a b => b < a)
  held_range : ∀ l t, s.holder l = some t → l.gen < s.gens.length ∧ l.idx < s.gens.getD l.gen 0
  /-- snapshots never run ahead of the counter -/
  rc_le : ∀ t, (s.th t).snapRc ≤ s.rc
  gen_lt : ∀ t, (s.th t).snapGen < s.gens.length
  /-- a sound snapshot with a current counter has the current hashpower,
  unless a resizer is between its change and its counter bump -/
  snap_hp : ∀ t, (s.th t).hpOk = true → (s.th t).snapRc = s.rc → (s.th t).snapHp = s.hp ∨ ∃ z, (s.th z).dirty = true
  /-- … and saw the current lock array, unless a resizer that still holds all of the array it saw has appended one -/
  snap_gen : ∀ t, (s.th t).genOk = true → (s.th t).snapRc = s.rc →
    (s.th t).snapGen = s.curGen ∨ ∃ z, (s.th z).dirty = true ∧ HoldsGen s z (s.th t).snapGen
  /-- a thread between its first lock and its validation holds exactly that lock; if its counter is still current,
  the lock is in the current array and its snapshot is current -/
  pend : ∀ t, (s.th t).pendingVal = true → ∃ l, (s.th t).held = [l] ∧ (s.th t).validated = false ∧
    (s.th t).inAll = false ∧ (s.th t).owner = false ∧
    ((s.th t).snapRc = s.rc → l.gen = s.curGen ∧ (s.th t).snapHp = s.hp ∧ (s.th t).snapGen = s.curGen)
  /-- a validated thread holds locks of the current array only, at least one, and its snapshot is current -/
  val : ∀ t, (s.th t).validated = true → (s.th t).held ≠ [] ∧ (∀ l ∈ (s.th t).held, l.gen = s.curGen) ∧
    (s.th t).snapRc = s.rc ∧ (s.th t).snapHp = s.hp ∧ (s.th t).snapGen = s.curGen ∧
    (s.th t).owner = false ∧ (s.th t).inAll = false
  /-- an owner holds every lock of the current array -/
  owner_all : ∀ t, (s.th t).owner = true → HoldsGen s t s.curGen ∧ (s.th t).inAll = false
  dirty_owner : ∀ t, (s.th t).dirty = true → (s.th t).owner = true

/-! ### function updates -/

@[simp] theorem upd_same (f : Tid → TS) (t : Tid) (x : TS) : upd f t x t = x := by simp [upd]
theorem upd_other (f : Tid → TS) (t u : Tid) (x : TS) (h : u ≠ t) : upd f t x u = f u := by simp [upd, h]
theorem upd_apply (f : Tid → TS) (t u : Tid) (x : TS) : upd f t x u = if u = t then x else f u := rfl

@[simp] theorem updH_same (f : LockId → Option Tid) (l : LockId) (x : Option Tid) : updH f l x l = x := by simp [updH]
theorem updH_other (f : LockId → Option Tid) (l m : LockId) (x : Option Tid) (h : m ≠ l) : updH f l x m = f m := by
  simp [updH, h]
theorem updH_apply (f : LockId → Option Tid) (l m : LockId) (x : Option Tid) :
    updH f l x m = if m = l then x else f m := rfl

/-! ### the lock order -/

theorem LockId.lt_def (a b : LockId) : a < b ↔ (a.gen < b.gen ∨ (a.gen = b.gen ∧ a.idx < b.idx)) := Iff.rfl

theorem LockId.lt_irrefl (a : LockId) : ¬ a < a := by
  rw [LockId.lt_def]; omega

theorem LockId.lt_trans {a b c : LockId} (h1 : a < b) (h2 : b < c) : a < c := by
  rw [LockId.lt_def] at *; omega

theorem LockId.ne_of_lt {a b : LockId} (h : a < b) : a ≠ b := by
  intro e; subst e; exact LockId.lt_irrefl a h

theorem desc_iff_pairwise (l : List LockId) : Desc l ↔ l.Pairwise (fun a b => b < a) := by
  induction l with
  | nil => simp [Desc]
  | cons a rest ih =>
    cases rest with
    | nil => simp [Desc]
    | cons b rest' =>
      simp only [Desc, ih, List.pairwise_cons]
      constructor
      · rintro ⟨hba, hb, hr⟩
        refine ⟨?_, hb, hr⟩
        intro c hc
        rcases List.mem_cons.1 hc with rfl | hc
        · exact hba
        · exact LockId.lt_trans (hb c hc) hba
      · rintro ⟨ha, hb, hr⟩
        exact ⟨ha b (List.mem_cons_self ..), hb, hr⟩

/-! ### the current array -/

theorem curSize_eq (s : PS) (h : s.gens ≠ []) : s.gens.getD s.curGen 0 = s.curSize := by
  unfold PS.curGen PS.curSize
  cases hg : s.gens with
  | nil => exact absurd hg h
  | cons a l =>
    rw [List.getLastD_eq_getLast?, List.getLast?_eq_getElem?, List.getD_eq_getElem?_getD]

theorem curGen_lt (s : PS) (h : s.gens ≠ []) : s.curGen < s.gens.length := by
  unfold PS.curGen
  have : 0 < s.gens.length := List.length_pos_iff.2 h
  omega

theorem holdsAllCur_iff (s : PS) (t : Tid) :
    s.holdsAllCur t = true ↔ ∀ i, i < s.curSize → s.holder ⟨s.curGen, i⟩ = some t := by
  simp [PS.holdsAllCur, List.all_eq_true]

theorem holdsGen_cur_iff (s : PS) (h : s.gens ≠ []) (t : Tid) :
    HoldsGen s t s.curGen ↔ s.holdsAllCur t = true := by
  rw [holdsAllCur_iff, HoldsGen, curSize_eq s h]

namespace PInv
variable {s : PS}

theorem curSize_pos (h : PInv s) : 0 < s.curSize := by
  rw [← curSize_eq s h.gens_ne]
  apply h.gens_pos
  rw [List.getD_eq_getElem?_getD, List.getElem?_eq_getElem (curGen_lt s h.gens_ne)]
  simp

/-- whoever holds a whole array that contains a lock of `t` is `t` -/
theorem holdsGen_eq (h : PInv s) {z t : Tid} {l : LockId} (hz : HoldsGen s z l.gen) (hl : l ∈ (s.th t).held) : z = t := by
  have h1 := (h.held_iff t l).1 hl
  have h2 := hz l.idx (h.held_range l t h1).2
  have : (⟨l.gen, l.idx⟩ : LockId) = l := by cases l; rfl
  rw [this, h1] at h2
  exact (Option.some.inj h2).symm

theorem owner_held (h : PInv s) {z : Tid} (hz : (s.th z).owner = true) : (⟨s.curGen, 0⟩ : LockId) ∈ (s.th z).held := by
  rw [h.held_iff]
  apply (h.owner_all z hz).1
  rw [curSize_eq s h.gens_ne]; exact h.curSize_pos

theorem owner_unique (h : PInv s) {z z' : Tid} (hz : (s.th z).owner = true) (hz' : (s.th z').owner = true) : z = z' := by
  have h1 := (h.held_iff z _).1 (h.owner_held hz)
  have h2 := (h.held_iff z' _).1 (h.owner_held hz')
  rw [h1] at h2; exact Option.some.inj h2

/-- an owner excludes every thread holding a lock of the current array -/
theorem owner_holds_cur (h : PInv s) {z t : Tid} (hz : (s.th z).owner = true) {l : LockId} (hl : l ∈ (s.th t).held)
    (hg : l.gen = s.curGen) : z = t := by
  apply h.holdsGen_eq (l := l) _ hl
  rw [hg]; exact (h.owner_all z hz).1

theorem owner_not_val (h : PInv s) {z t : Tid} (hz : (s.th z).owner = true) (ht : (s.th t).validated = true) : False := by
  obtain ⟨hne, hcur, -, -, -, hno, -⟩ := h.val t ht
  cases hh : (s.th t).held with
  | nil => exact hne hh
  | cons l rest =>
    have hl : l ∈ (s.th t).held := by rw [hh]; exact List.mem_cons_self ..
    have := h.owner_holds_cur hz hl (hcur l hl)
    subst this
    rw [hz] at hno; cases hno

theorem dirty_not_val (h : PInv s) {z t : Tid} (hz : (s.th z).dirty = true) (ht : (s.th t).validated = true) : False :=
  h.owner_not_val (h.dirty_owner z hz) ht

/-- an owner excludes a pending thread whose counter is current -/
theorem owner_not_pend (h : PInv s) {z t : Tid} (hz : (s.th z).owner = true) (ht : (s.th t).pendingVal = true)
    (hrc : (s.th t).snapRc = s.rc) : False := by
  obtain ⟨l, hl, -, -, hno, hc⟩ := h.pend t ht
  have hl' : l ∈ (s.th t).held := by rw [hl]; exact List.mem_cons_self ..
  have := h.owner_holds_cur hz hl' (hc hrc).1
  subst this
  rw [hz] at hno; cases hno

theorem held_nil_iff (h : PInv s) (t : Tid) : (s.th t).held = [] ↔ ∀ l, s.holder l ≠ some t := by
  constructor
  · intro he l hl
    have := (h.held_iff t l).2 hl
    rw [he] at this; cases this
  · intro hn
    cases hh : (s.th t).held with
    | nil => rfl
    | cons l rest =>
      exact absurd ((h.held_iff t l).1 (by rw [hh]; exact List.mem_cons_self ..)) (hn l)

end PInv

end Cuckoo.Proto
