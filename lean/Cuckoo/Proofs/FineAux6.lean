import Cuckoo.Proofs.FineAux5
/-!
Preservation of the reduction invariant by `release`: the first release of a hold commits the thread's open log as a
new episode at the end of `E`; later releases of the hold only shrink the set of guarded locations.
-/
namespace Cuckoo.Fine
open Cuckoo.Proto

variable {V : Type} [DecidableEq V] {G : Nat → Nat → Nat} {mem0 : Nat → V} {g : GS V}

/-- open logs of different threads touch disjoint locations -/
theorem FInv.open_disj (h : FInv G mem0 g) {t u : Tid} {x : Nat} (ht : x ∈ locs (g.opn t)) (hu : x ∈ locs (g.opn u)) :
    t = u := by
  rcases h.open_guard t x ht with h1 | h1
  · exact h.open_excl hu h1
  · apply Classical.byContradiction
    intro hne
    have := h.open_nil_of_owner h1 (fun e => hne e.symm)
    rw [this] at hu; cases hu

theorem updH_none_ne (f : LockId → Option Tid) (l m : LockId) (u : Tid) (h : f m ≠ some u) :
    updH f l none m ≠ some u := by
  rw [updH_apply]
  split
  · intro e; cases e
  · exact h

theorem finv_release_commit (h : FInv G mem0 g) (t : Tid) (l : LockId) (p' : PS)
    (hacc : Proto.accept g.fs.ps (.release t l) = some p') (hs : g.fs.shrunk t = false)
    (sh' : Tid → Bool) (hd' : Tid → Nat)
    (S1 : ∀ u, u ≠ t → sh' u = g.fs.shrunk u) (S2 : sh' t = true ↔ (p'.th t).held ≠ [])
    (F1 : ∀ u, u ≠ t → hd' u = g.hold u) (F3 : (p'.th t).held ≠ [] → hd' t = g.hold t)
    (F4 : (p'.th t).held = [] → hd' t = g.hold t + 1) :
    FInv G mem0 { fs := { ps := p', mem := g.fs.mem, shrunk := sh' }, E := g.E ++ [⟨t, g.hold t, g.opn t⟩],
                  opn := setL g.opn t [], hold := hd' } := by
  obtain ⟨hhl, hH, hg, hoth, hheld, hown, hval⟩ := release_spec _ _ t l hacc
  have hgd : ∀ x, guard G p' x = guard G g.fs.ps x := guard_eq_of_gens G _ _ hg
  obtain ⟨am, hrun, hK2, hK1⟩ := h.ser
  have hle : g.hold t ≤ hd' t := by
    by_cases he : (p'.th t).held = []
    · rw [F4 he]; omega
    · rw [F3 he]; omega
  constructor
  · exact accept_inv _ _ _ h.pinv hacc
  · obtain ⟨mt, hmt, hagt⟩ := hK1 t
    refine ⟨mt, ?_, ?_, ?_⟩
    · simp only [flat_append, flat_cons, flat_nil, List.append_nil, runAccs_append, hrun, Option.bind_some, hmt]
    · intro y hy
      show g.fs.mem y = mt y
      by_cases hyt : y ∈ locs (g.opn t)
      · exact (hagt y hyt).symm
      · rw [runAccs_untouched _ _ _ hmt y hyt]
        apply hK2
        intro u
        by_cases hu : u = t
        · subst hu; exact hyt
        · have := hy u
          simpa only [setL_other _ _ _ _ hu] using this
    · intro u
      by_cases hu : u = t
      · subst hu
        exact ⟨mt, by simp, by simp⟩
      · obtain ⟨mu, hmu, hagu⟩ := hK1 u
        obtain ⟨r', hr', hagr⟩ := runAccs_congr (fun y => y ∈ locs (g.opn u)) (g.opn u) am mt mu (fun _ hx => hx)
          (by
            intro y hy
            symm
            apply runAccs_untouched _ _ _ hmt
            intro hyt
            exact hu (h.open_disj hyt hy).symm) hmu
        refine ⟨r', by simpa only [setL_other _ _ _ _ hu] using hr', ?_⟩
        intro y hy
        simp only [setL_other _ _ _ _ hu] at hy
        show r' y = g.fs.mem y
        rw [← hagr y hy]; exact hagu y hy
  · intro u hne
    by_cases hu : u = t
    · subst hu; simp at hne
    · simp only [setL_other _ _ _ _ hu] at hne
      show ((p'.th u).validated = true ∨ (p'.th u).owner = true) ∧ sh' u = false
      rw [hoth u hu, S1 u hu]; exact h.open_ok u hne
  · intro u x hx
    by_cases hu : u = t
    · subst hu; simp at hx
    · simp only [setL_other _ _ _ _ hu] at hx
      show p'.holder (guard G p' x) = some u ∨ (p'.th u).owner = true
      rw [hgd, hH, hoth u hu]
      refine (h.open_guard u x hx).imp ?_ id
      intro h1
      rw [updH_other]; exact h1
      intro e; rw [e, hhl] at h1; exact hu (Option.some.inj h1).symm
  · intro u hu
    by_cases hut : u = t
    · subst hut
      have hne : (p'.th u).held ≠ [] := S2.1 hu
      exact ⟨hne, ⟨u, g.hold u, g.opn u⟩, by simp, rfl, (F3 hne).symm⟩
    · change sh' u = true at hu
      rw [S1 u hut] at hu
      obtain ⟨h1, q, hq, hqt, hqk⟩ := h.shr u hu
      refine ⟨?_, q, List.mem_append_left _ hq, hqt, ?_⟩
      · show (p'.th u).held ≠ []
        rw [hoth u hut]; exact h1
      · show q.hold = hd' u
        rw [F1 u hut]; exact hqk
  · intro q hq
    show q.hold < hd' q.tid ∨ (q.hold = hd' q.tid ∧ sh' q.tid = true)
    rw [List.mem_append, List.mem_singleton] at hq
    rcases hq with hq | hq
    · by_cases hqt : q.tid = t
      · rcases h.keys q hq with h1 | h1
        · left; rw [hqt] at h1 ⊢; omega
        · rw [hqt, hs] at h1; cases h1.2
      · rw [F1 _ hqt, S1 _ hqt]; exact h.keys q hq
    · subst hq
      by_cases he : (p'.th t).held = []
      · left; show g.hold t < hd' t; rw [F4 he]; omega
      · right; exact ⟨(F3 he).symm, S2.2 he⟩
  · show (g.E ++ [_]).Pairwise _
    rw [List.pairwise_append]
    refine ⟨h.sorted, by simp, ?_⟩
    intro q hq n hn
    rw [List.mem_singleton] at hn; subst hn
    intro e1
    change q.tid = t at e1
    show q.hold < g.hold t
    rcases h.keys q hq with h1 | h1
    · rw [e1] at h1; exact h1
    · rw [e1, hs] at h1; cases h1.2
  · intro u hu E1 p E2 hE hpt hpk q hq x hx
    change sh' u = true at hu
    change g.E ++ [_] = E1 ++ p :: E2 at hE
    change p.hold = hd' u at hpk
    show p'.holder (guard G p' x) ≠ some u
    rw [hgd, hH]
    apply updH_none_ne
    rcases snoc_eq_split _ _ _ _ _ hE with ⟨rfl, -, -⟩ | ⟨E2', rfl, hE'⟩
    · cases hq
    · have hpE : p ∈ g.E := by rw [hE']; simp
      have hut : u ≠ t := by
        intro e; subst e
        have hne := S2.1 hu
        rw [F3 hne] at hpk
        rcases h.keys p hpE with h1 | h1
        · rw [hpt] at h1; omega
        · rw [hpt, hs] at h1; cases h1.2
      rw [S1 u hut] at hu
      rw [F1 u hut] at hpk
      rw [List.mem_append, List.mem_singleton] at hq
      rcases hq with hq | hq
      · exact h.later u hu E1 p E2' hE' hpt hpk q hq x hx
      · subst hq
        intro e
        exact hut (h.open_excl hx e)

theorem finv_release_later (h : FInv G mem0 g) (t : Tid) (l : LockId) (p' : PS)
    (hacc : Proto.accept g.fs.ps (.release t l) = some p') (hs : g.fs.shrunk t = true)
    (sh' : Tid → Bool) (hd' : Tid → Nat)
    (S1 : ∀ u, u ≠ t → sh' u = g.fs.shrunk u) (S2 : sh' t = true ↔ (p'.th t).held ≠ [])
    (F1 : ∀ u, u ≠ t → hd' u = g.hold u) (F3 : (p'.th t).held ≠ [] → hd' t = g.hold t)
    (F4 : (p'.th t).held = [] → hd' t = g.hold t + 1) :
    FInv G mem0 { fs := { ps := p', mem := g.fs.mem, shrunk := sh' }, E := g.E, opn := g.opn, hold := hd' } := by
  obtain ⟨hhl, hH, hg, hoth, hheld, hown, hval⟩ := release_spec _ _ t l hacc
  have hgd : ∀ x, guard G p' x = guard G g.fs.ps x := guard_eq_of_gens G _ _ hg
  have hopn : g.opn t = [] := h.open_nil_of_shrunk hs
  constructor
  · exact accept_inv _ _ _ h.pinv hacc
  · exact h.ser
  · intro u hne
    have hu : u ≠ t := by intro e; subst e; exact hne hopn
    show ((p'.th u).validated = true ∨ (p'.th u).owner = true) ∧ sh' u = false
    rw [hoth u hu, S1 u hu]; exact h.open_ok u hne
  · intro u x hx
    have hu : u ≠ t := by intro e; subst e; rw [hopn] at hx; cases hx
    show p'.holder (guard G p' x) = some u ∨ (p'.th u).owner = true
    rw [hgd, hH, hoth u hu]
    refine (h.open_guard u x hx).imp ?_ id
    intro h1
    rw [updH_other]; exact h1
    intro e; rw [e, hhl] at h1; exact hu (Option.some.inj h1).symm
  · intro u hu
    change sh' u = true at hu
    by_cases hut : u = t
    · subst hut
      have hne : (p'.th u).held ≠ [] := S2.1 hu
      obtain ⟨-, q, hq, hqt, hqk⟩ := h.shr u hs
      exact ⟨hne, q, hq, hqt, by show q.hold = hd' u; rw [F3 hne]; exact hqk⟩
    · rw [S1 u hut] at hu
      obtain ⟨h1, q, hq, hqt, hqk⟩ := h.shr u hu
      refine ⟨?_, q, hq, hqt, ?_⟩
      · show (p'.th u).held ≠ []
        rw [hoth u hut]; exact h1
      · show q.hold = hd' u
        rw [F1 u hut]; exact hqk
  · intro q hq
    show q.hold < hd' q.tid ∨ (q.hold = hd' q.tid ∧ sh' q.tid = true)
    by_cases hqt : q.tid = t
    · by_cases he : (p'.th t).held = []
      · left
        rcases h.keys q hq with h1 | h1
        · rw [hqt] at h1 ⊢; rw [F4 he]; omega
        · rw [hqt] at h1 ⊢; rw [F4 he]; omega
      · rcases h.keys q hq with h1 | h1
        · left; rw [hqt] at h1 ⊢; rw [F3 he]; exact h1
        · right; rw [hqt] at h1 ⊢; rw [F3 he]; exact ⟨h1.1, S2.2 he⟩
    · rw [F1 _ hqt, S1 _ hqt]; exact h.keys q hq
  · exact h.sorted
  · intro u hu E1 p E2 hE hpt hpk q hq x hx
    change sh' u = true at hu
    change p.hold = hd' u at hpk
    show p'.holder (guard G p' x) ≠ some u
    rw [hgd, hH]
    apply updH_none_ne
    by_cases hut : u = t
    · subst hut
      rw [F3 (S2.1 hu)] at hpk
      exact h.later u hs E1 p E2 hE hpt hpk q hq x hx
    · rw [S1 u hut] at hu
      rw [F1 u hut] at hpk
      exact h.later u hu E1 p E2 hE hpt hpk q hq x hx

end Cuckoo.Fine
