import Cuckoo.Proofs.SchedAux1
import Cuckoo.Proofs.Search
/-!
Helper lemmas for `Cuckoo/Props/C01Sched.lean`, part 2: the BFS of `slot_search` and the path decoding of
`cuckoopath_search` are runs of `lock_one` sections; shape of the path they return, for every table (no invariant).
Never property statements.
-/
namespace Cuckoo.Model.SchedA
open Cuckoo Cuckoo.Model Cuckoo.Model.Conc Cuckoo.Model.Sched
variable {κ ν : Type}

theorem lockSec_one (c : Cfg κ) (b : Nat) (t : Table κ ν) : lockSec c [b] t = (t.lockOne c b, none) := rfl

theorem lockOneM_false (c : Cfg κ) (t : Table κ ν) (b : Nat) : t.lockOneM c false b = t.lockOne c b := rfl
theorem lockTwoM_false (c : Cfg κ) (t : Table κ ν) (b1 b2 : Nat) : t.lockTwoM c false b1 b2 = t.lockTwo c b1 b2 := rfl
theorem lockThreeM_false (c : Cfg κ) (t : Table κ ν) (b1 b2 b3 : Nat) :
    t.lockThreeM c false b1 b2 b3 = t.lockThree c b1 b2 b3 := rfl

/-! ### slot_search -/

theorem slotSearch_go_quiet (c : Cfg κ) (hp : Nat) : ∀ (fuel : Nat) (t : Table κ ν) (q : Array BSlot) (first : Nat),
    Quiet t (slotSearchSched c hp fuel t q first) (slotSearch.go c false hp fuel t q first).1 := by
  intro fuel
  induction fuel with
  | zero => intro t q first; exact Quiet.nil t
  | succ n ih =>
    intro t q first
    simp only [slotSearch.go, slotSearchSched, lockOneM_false]
    cases hq : q[first]? with
    | none => exact Quiet.nil t
    | some x =>
      simp only
      refine Quiet.cons (lockSec_one c x.bucket t) ?_
      cases hb : bfsScan c hp (t.lockOne c x.bucket).cur x with
      | inl r => exact Quiet.nil _
      | inr ch => exact ih _ _ _

theorem slotSearch_go_cur (c : Cfg κ) (hp hpS rcS : Nat) : ∀ (fuel : Nat) (t : Table κ ν) (q : Array BSlot) (first : Nat),
    Cur hpS rcS t → Cur hpS rcS (slotSearch.go c false hp fuel t q first).1 := by
  intro fuel
  induction fuel with
  | zero => intro t q first h; exact h
  | succ n ih =>
    intro t q first h
    simp only [slotSearch.go, lockOneM_false]
    cases hq : q[first]? with
    | none => exact h
    | some x =>
      simp only
      cases hb : bfsScan c hp (t.lockOne c x.bucket).cur x with
      | inl r => exact h.lockOne c _
      | inr ch => exact ih _ _ _ (h.lockOne c _)

theorem bfsScan_inl_pos (c : Cfg κ) (hp : Nat) (st : Store κ ν) (x r : BSlot) (h : bfsScan c hp st x = .inl r) :
    0 < c.S := by
  apply Nat.pos_of_ne_zero
  intro h0
  unfold bfsScan at h
  rw [h0] at h
  simp only [bfsScan.go] at h
  cases h

theorem slotSearch_go_some_pos (c : Cfg κ) (hp : Nat) : ∀ (fuel : Nat) (t : Table κ ν) (q : Array BSlot) (first : Nat)
    (x : BSlot), (slotSearch.go c false hp fuel t q first).2 = some x → 0 < c.S := by
  intro fuel
  induction fuel with
  | zero => intro t q first x h; cases h
  | succ n ih =>
    intro t q first x h
    simp only [slotSearch.go, lockOneM_false] at h
    cases hq : q[first]? with
    | none => rw [hq] at h; cases h
    | some y =>
      rw [hq] at h
      simp only at h
      cases hb : bfsScan c hp (t.lockOne c y.bucket).cur y with
      | inl r => exact bfsScan_inl_pos c hp _ y r hb
      | inr ch => rw [hb] at h; exact ih _ _ _ x h

theorem slotSearch_quiet (c : Cfg κ) (hp : Nat) (t : Table κ ν) (i1 i2 : Nat) :
    Quiet t (slotSearchSched c hp (maxCuckooCount c.S + 1) t #[⟨i1, 0, 0⟩, ⟨i2, 1, 0⟩] 0)
      (slotSearch c false hp t i1 i2).1 :=
  slotSearch_go_quiet c hp _ t _ _

theorem slotSearch_cur (c : Cfg κ) (hp hpS rcS : Nat) (t : Table κ ν) (i1 i2 : Nat) (h : Cur hpS rcS t) :
    Cur hpS rcS (slotSearch c false hp t i1 i2).1 :=
  slotSearch_go_cur c hp hpS rcS _ t _ _ h

theorem slotSearch_some_pos (c : Cfg κ) (hp : Nat) (t : Table κ ν) (i1 i2 : Nat) (x : BSlot)
    (h : (slotSearch c false hp t i1 i2).2 = some x) : 0 < c.S :=
  slotSearch_go_some_pos c hp _ t _ _ x h

theorem slotSearchSched_locks (c : Cfg κ) (hp : Nat) : ∀ (fuel : Nat) (t : Table κ ν) (q : Array BSlot) (first : Nat),
    ∀ f ∈ slotSearchSched c hp fuel t q first, ∃ b, f = lockSec c [b] := by
  intro fuel
  induction fuel with
  | zero => intro t q first f hf; cases hf
  | succ n ih =>
    intro t q first f hf
    simp only [slotSearchSched] at hf
    cases hq : q[first]? with
    | none => rw [hq] at hf; cases hf
    | some x =>
      rw [hq] at hf
      simp only [List.mem_cons] at hf
      rcases hf with e | hf
      · exact ⟨_, e⟩
      · cases hb : bfsScan c hp (t.lockOne c x.bucket).cur x with
        | inl r => rw [hb] at hf; cases hf
        | inr ch => rw [hb] at hf; exact ih _ _ _ f hf

/-! ### cuckoopath_search -/

theorem buildPathSchedGo_locks (c : Cfg κ) (hp : Nat) : ∀ (slots : List Nat) (t : Table κ ν) (b : Nat),
    ∀ f ∈ buildPathSchedGo c hp t b slots, ∃ b', f = lockSec c [b'] := by
  intro slots
  induction slots with
  | nil => intro t b f hf; cases hf
  | cons s rest ih =>
    intro t b f hf
    simp only [buildPathSchedGo, List.mem_cons] at hf
    rcases hf with e | hf
    · exact ⟨_, e⟩
    · cases hg : (t.lockOne c b).cur.get c.S b s with
      | none => rw [hg] at hf; cases hf
      | some sl => rw [hg] at hf; exact ih _ _ f hf

theorem buildPath_go_quiet (c : Cfg κ) (hp : Nat) : ∀ (slots : List Nat) (t : Table κ ν) (b : Nat) (acc : List PathRec),
    Quiet t (buildPathSchedGo c hp t b slots) (buildPath.go c false hp t b slots acc).1 := by
  intro slots
  induction slots with
  | nil => intro t b acc; exact Quiet.nil t
  | cons s rest ih =>
    intro t b acc
    simp only [buildPath.go, buildPathSchedGo, lockOneM_false]
    refine Quiet.cons (lockSec_one c b t) ?_
    cases hg : (t.lockOne c b).cur.get c.S b s with
    | none => exact Quiet.nil _
    | some sl => exact ih _ _ _

theorem buildPath_go_cur (c : Cfg κ) (hp hpS rcS : Nat) : ∀ (slots : List Nat) (t : Table κ ν) (b : Nat)
    (acc : List PathRec), Cur hpS rcS t → Cur hpS rcS (buildPath.go c false hp t b slots acc).1 := by
  intro slots
  induction slots with
  | nil => intro t b acc h; exact h
  | cons s rest ih =>
    intro t b acc h
    simp only [buildPath.go, lockOneM_false]
    cases hg : (t.lockOne c b).cur.get c.S b s with
    | none => exact h.lockOne c _
    | some sl => exact ih _ _ _ (h.lockOne c _)

/-- shape of the decoded path: slots in range, consecutive buckets alternates under the recorded hashes, first
bucket `b` -/
theorem buildPath_go_path (c : Cfg κ) (hp : Nat) : ∀ (slots : List Nat) (t : Table κ ν) (b : Nat) (acc : List PathRec),
    (∀ s ∈ slots, s < c.S) →
    ∃ suf, (buildPath.go c false hp t b slots acc).2 = acc.reverse ++ suf ∧ PathOK c hp suf ∧
      ∀ p0, suf.head? = some p0 → p0.bucket = b := by
  intro slots
  induction slots with
  | nil =>
    intro t b acc hs
    simp only [buildPath.go]
    exact ⟨[], by simp, trivial, by simp⟩
  | cons s rest ih =>
    intro t b acc hs
    simp only [buildPath.go, lockOneM_false]
    have hsS : s < c.S := hs s (List.mem_cons_self)
    cases hg : (t.lockOne c b).cur.get c.S b s with
    | none =>
      refine ⟨[⟨b, s, 0, 0⟩], by simp, hsS, ?_⟩
      intro p0 e; simp at e; subst e; rfl
    | some sl =>
      simp only
      obtain ⟨suf, he, hok, hhd⟩ := ih (t.lockOne c b)
        (Spec.altIndex hp (Spec.partialKey (c.hash sl.key)) b)
        (⟨b, s, c.hash sl.key, Spec.partialKey (c.hash sl.key)⟩ :: acc)
        (fun x hx => hs x (List.mem_cons_of_mem _ hx))
      refine ⟨⟨b, s, c.hash sl.key, Spec.partialKey (c.hash sl.key)⟩ :: suf, ?_, ?_, ?_⟩
      · rw [he]; simp
      · exact PathOK_cons c hp _ suf hsS hok hhd
      · intro p0 e; simp at e; subst e; rfl

variable [DecidableEq κ]

theorem buildPath_quiet (c : Cfg κ) (hp : Nat) (t : Table κ ν) (i1 i2 : Nat) (x : BSlot) :
    Quiet t (buildPathSched c hp t i1 i2 x) (buildPath c false hp t i1 i2 x).1 := by
  unfold buildPath buildPathSched
  generalize decodeSlots c.S (x.depth + 1) x.pathcode [] = d
  obtain ⟨code, slots⟩ := d
  exact buildPath_go_quiet c hp slots t _ []

theorem buildPath_cur (c : Cfg κ) (hp hpS rcS : Nat) (t : Table κ ν) (i1 i2 : Nat) (x : BSlot) (h : Cur hpS rcS t) :
    Cur hpS rcS (buildPath c false hp t i1 i2 x).1 := by
  unfold buildPath
  generalize decodeSlots c.S (x.depth + 1) x.pathcode [] = d
  obtain ⟨code, slots⟩ := d
  exact buildPath_go_cur c hp hpS rcS slots t _ [] h

theorem buildPath_path (c : Cfg κ) (hp : Nat) (t : Table κ ν) (i1 i2 : Nat) (x : BSlot) (hS : 0 < c.S) :
    PathOK c hp (buildPath c false hp t i1 i2 x).2 ∧
    ∀ p0, (buildPath c false hp t i1 i2 x).2.head? = some p0 → p0.bucket = i1 ∨ p0.bucket = i2 := by
  unfold buildPath
  have hd := decodeSlots_lt c.S hS (x.depth + 1) x.pathcode [] (by simp)
  generalize decodeSlots c.S (x.depth + 1) x.pathcode [] = d at hd
  obtain ⟨code, slots⟩ := d
  simp only
  obtain ⟨suf, he, hok, hhd⟩ := buildPath_go_path c hp slots t (if code = 0 then i1 else i2) [] hd
  simp only [List.reverse_nil, List.nil_append] at he
  refine ⟨he ▸ hok, ?_⟩
  intro p0 e
  rw [he] at e
  rw [hhd p0 e]
  split <;> simp

end Cuckoo.Model.SchedA
