import Cuckoo.Proofs.ProtoInvBase
/-!
Preservation of `PInv` by `acquire` and `release` (events that change the lock table and the acting thread's record).
-/
namespace Cuckoo.Proto

/-- frame lemma: an event of `t` that changes the lock table only in `t`'s own entries -/
theorem PInv.frame2 {s : PS} (h : PInv s) (t : Tid) (x' : TS) (H' : LockId → Option Tid)
    (hiff_t : ∀ l, l ∈ x'.held ↔ H' l = some t)
    (hiff_o : ∀ u, u ≠ t → ∀ l, H' l = some u ↔ s.holder l = some u)
    (hdesc : x'.held.Pairwise (fun a b => b < a))
    (hrange : ∀ l, H' l = some t → l.gen < s.gens.length ∧ l.idx < s.gens.getD l.gen 0)
    (hkeep : (s.th t).dirty = true → ∀ l, s.holder l = some t → H' l = some t)
    (hdirty : x'.dirty = (s.th t).dirty)
    (hrc : x'.snapRc ≤ s.rc) (hgen : x'.snapGen < s.gens.length)
    (hsh : x'.hpOk = true → x'.snapRc = s.rc → x'.snapHp = s.hp ∨ ∃ z, (s.th z).dirty = true)
    (hsg : x'.genOk = true → x'.snapRc = s.rc →
      x'.snapGen = s.curGen ∨ ∃ z, (s.th z).dirty = true ∧ HoldsGen s z x'.snapGen)
    (hpend : x'.pendingVal = true → ∃ l, x'.held = [l] ∧ x'.validated = false ∧ x'.inAll = false ∧ x'.owner = false ∧
      (x'.snapRc = s.rc → l.gen = s.curGen ∧ x'.snapHp = s.hp ∧ x'.snapGen = s.curGen))
    (hval : x'.validated = true → x'.held ≠ [] ∧ (∀ l ∈ x'.held, l.gen = s.curGen) ∧
      x'.snapRc = s.rc ∧ x'.snapHp = s.hp ∧ x'.snapGen = s.curGen ∧ x'.owner = false ∧ x'.inAll = false)
    (hown : x'.owner = true → (∀ i, i < s.gens.getD s.curGen 0 → H' ⟨s.curGen, i⟩ = some t) ∧ x'.inAll = false)
    (hdo : x'.dirty = true → x'.owner = true) :
    PInv { s with holder := H', th := upd s.th t x' } := by
  have hd : ∀ z, (upd s.th t x' z).dirty = (s.th z).dirty := by
    intro z; by_cases hz : z = t
    · subst hz; simp [hdirty]
    · simp [upd_other _ _ _ _ hz]
  have hD : (∃ z, (s.th z).dirty = true) → ∃ z, (upd s.th t x' z).dirty = true := by
    rintro ⟨z, hz⟩; exact ⟨z, by rw [hd]; exact hz⟩
  have hHG : ∀ z g, (z = t → (s.th t).dirty = true) → HoldsGen s z g →
      HoldsGen { s with holder := H', th := upd s.th t x' } z g := by
    intro z g hzd hg i hi
    have := hg i hi
    by_cases hz : z = t
    · subst hz; exact hkeep (hzd rfl) _ this
    · exact (hiff_o z hz _).2 this
  have hDG : ∀ g, (∃ z, (s.th z).dirty = true ∧ HoldsGen s z g) →
      ∃ z, (upd s.th t x' z).dirty = true ∧ HoldsGen { s with holder := H', th := upd s.th t x' } z g := by
    rintro g ⟨z, hz, hg⟩
    exact ⟨z, by rw [hd]; exact hz, hHG z g (fun e => e ▸ hz) hg⟩
  constructor
  · exact h.gens_ne
  · exact h.gens_pos
  · intro u l
    by_cases hu : u = t
    · subst hu; simp only [upd_same]; exact hiff_t l
    · simp only [upd_other _ _ _ _ hu]; rw [h.held_iff u l]; exact (hiff_o u hu l).symm
  · intro u
    by_cases hu : u = t
    · subst hu; simp only [upd_same]; exact hdesc
    · simp only [upd_other _ _ _ _ hu]; exact h.held_desc u
  · intro l u hl
    by_cases hu : u = t
    · subst hu; exact hrange l hl
    · exact h.held_range l u ((hiff_o u hu l).1 hl)
  · intro u
    by_cases hu : u = t
    · subst hu; simp only [upd_same]; exact hrc
    · simp only [upd_other _ _ _ _ hu]; exact h.rc_le u
  · intro u
    by_cases hu : u = t
    · subst hu; simp only [upd_same]; exact hgen
    · simp only [upd_other _ _ _ _ hu]; exact h.gen_lt u
  · intro u
    by_cases hu : u = t
    · subst hu; simp only [upd_same]
      intro a b; exact (hsh a b).imp id hD
    · simp only [upd_other _ _ _ _ hu]
      intro a b; exact (h.snap_hp u a b).imp id hD
  · intro u
    by_cases hu : u = t
    · subst hu; simp only [upd_same]
      intro a b; exact (hsg a b).imp id (hDG _)
    · simp only [upd_other _ _ _ _ hu]
      intro a b; exact (h.snap_gen u a b).imp id (hDG _)
  · intro u
    by_cases hu : u = t
    · subst hu; simp only [upd_same]; exact hpend
    · simp only [upd_other _ _ _ _ hu]; exact h.pend u
  · intro u
    by_cases hu : u = t
    · subst hu; simp only [upd_same]; exact hval
    · simp only [upd_other _ _ _ _ hu]; exact h.val u
  · intro u
    by_cases hu : u = t
    · subst hu; simp only [upd_same]; exact hown
    · simp only [upd_other _ _ _ _ hu]
      intro ho
      refine ⟨?_, (h.owner_all u ho).2⟩
      intro i hi
      exact (hiff_o u hu _).2 ((h.owner_all u ho).1 i hi)
  · intro u
    by_cases hu : u = t
    · subst hu; simp only [upd_same]; exact hdo
    · simp only [upd_other _ _ _ _ hu]; exact h.dirty_owner u

/-- the part of `acquire` common to its three accepting branches -/
theorem PInv.acquire_core {s : PS} (h : PInv s) (t : Tid) (l : LockId) (x' : TS)
    (hfree : s.holder l = none)
    (hin : l.gen < s.gens.length ∧ l.idx < s.gens.getD l.gen 0)
    (hasc : ∀ m ∈ (s.th t).held, m < l)
    (hheld : x'.held = l :: (s.th t).held)
    (hdirty : x'.dirty = (s.th t).dirty)
    (hrc : x'.snapRc ≤ s.rc) (hgen : x'.snapGen < s.gens.length)
    (hsh : x'.hpOk = true → x'.snapRc = s.rc → x'.snapHp = s.hp ∨ ∃ z, (s.th z).dirty = true)
    (hsg : x'.genOk = true → x'.snapRc = s.rc →
      x'.snapGen = s.curGen ∨ ∃ z, (s.th z).dirty = true ∧ HoldsGen s z x'.snapGen)
    (hpend : x'.pendingVal = true → ∃ l, x'.held = [l] ∧ x'.validated = false ∧ x'.inAll = false ∧ x'.owner = false ∧
      (x'.snapRc = s.rc → l.gen = s.curGen ∧ x'.snapHp = s.hp ∧ x'.snapGen = s.curGen))
    (hval : x'.validated = true → x'.held ≠ [] ∧ (∀ l ∈ x'.held, l.gen = s.curGen) ∧
      x'.snapRc = s.rc ∧ x'.snapHp = s.hp ∧ x'.snapGen = s.curGen ∧ x'.owner = false ∧ x'.inAll = false)
    (hown : x'.owner = true → (s.th t).owner = true ∧ x'.inAll = false)
    (hdo : x'.dirty = true → x'.owner = true) :
    PInv { s with holder := updH s.holder l (some t), th := upd s.th t x' } := by
  have hne : ∀ m u, s.holder m = some u → m ≠ l := by
    intro m u hm e; subst e; rw [hfree] at hm; cases hm
  refine h.frame2 t x' _ ?_ ?_ ?_ ?_ ?_ hdirty hrc hgen hsh hsg hpend hval ?_ hdo
  · intro m
    rw [hheld, updH_apply, List.mem_cons]
    by_cases hm : m = l
    · simp [hm]
    · simp only [hm, false_or, if_false]; exact h.held_iff t m
  · intro u hu m
    rw [updH_apply]
    by_cases hm : m = l
    · subst hm; simp only [if_true, hfree]
      constructor
      · intro e; exact absurd (Option.some.inj e).symm hu
      · intro e; cases e
    · simp only [hm, if_false]
  · rw [hheld, List.pairwise_cons]; exact ⟨hasc, h.held_desc t⟩
  · intro m
    rw [updH_apply]
    by_cases hm : m = l
    · subst hm; intro _; exact hin
    · simp only [hm, if_false]; exact h.held_range m t
  · intro _ m hm
    rw [updH_other _ _ _ _ (hne m t hm)]; exact hm
  · intro ho
    obtain ⟨ho', hia⟩ := hown ho
    refine ⟨?_, hia⟩
    intro i hi
    have := (h.owner_all t ho').1 i hi
    rw [updH_other _ _ _ _ (hne _ t this)]; exact this

theorem inv_acquire {s s' : PS} (h : PInv s) (t : Tid) (l : LockId) (ha : accept s (.acquire t l) = some s') : PInv s' := by
  simp only [accept] at ha
  split at ha
  · cases ha
  next hfree =>
  split at ha
  · cases ha
  next hin =>
  split at ha
  · cases ha
  next hasc =>
  split at ha
  · cases ha
  next hmp =>
  have hfree : s.holder l = none := Classical.not_not.1 hfree
  have hin : l.gen < s.gens.length ∧ l.idx < s.gens.getD l.gen 0 := by omega
  have hasc : ∀ m ∈ (s.th t).held, m < l := by
    have := Classical.not_not.1 hasc
    simpa [List.all_eq_true] using this
  have hnp : (s.th t).pendingVal = false := by
    cases hh : (s.th t).pendingVal with
    | false => rfl
    | true => exact absurd (Or.inr hh) hmp
  split at ha
  next hia =>
    cases ha
    refine h.acquire_core t l _ hfree hin hasc rfl rfl (h.rc_le t) (h.gen_lt t) (h.snap_hp t) (h.snap_gen t) ?_ ?_ ?_
      (h.dirty_owner t)
    · intro hh; rw [hnp] at hh; cases hh
    · intro hh
      have := (h.val t hh).2.2.2.2.2.2
      rw [hia] at this; cases this
    · intro hh; exact ⟨hh, (h.owner_all t hh).2⟩
  next hia =>
  split at ha
  next hemp =>
    have he : (s.th t).held = [] := List.isEmpty_iff.1 hemp
    split at ha
    next hS =>
      cases ha
      have hno : (s.th t).owner = false := by
        cases hh : (s.th t).owner with
        | false => rfl
        | true => have := h.owner_held hh; rw [he] at this; cases this
      refine h.acquire_core t l _ hfree hin hasc (by rw [he]) rfl (h.rc_le t) (h.gen_lt t) (h.snap_hp t) (h.snap_gen t)
        ?_ ?_ ?_ (h.dirty_owner t)
      · intro _
        refine ⟨l, rfl, rfl, by simpa using hia, hno, ?_⟩
        intro hrc
        have hcur : (s.th t).snapGen = s.curGen := by
          rcases h.snap_gen t hS.2.1 hrc with hc | ⟨z, -, hz⟩
          · exact hc
          · have := hz l.idx (by rw [← hS.2.2]; exact hin.2)
            rw [← hS.2.2] at this
            rw [show (⟨l.gen, l.idx⟩ : LockId) = l from by cases l; rfl, hfree] at this
            cases this
        have hnd : ¬ ∃ z, (s.th z).dirty = true := by
          rintro ⟨z, hz⟩
          have := (h.owner_all z (h.dirty_owner z hz)).1 l.idx (by rw [← hcur, ← hS.2.2]; exact hin.2)
          rw [← hcur, ← hS.2.2] at this
          rw [show (⟨l.gen, l.idx⟩ : LockId) = l from by cases l; rfl, hfree] at this
          cases this
        refine ⟨hS.2.2.trans hcur, ?_, hcur⟩
        exact (h.snap_hp t hS.1 hrc).resolve_right hnd
      · intro hh; cases hh
      · intro hh
        rw [hno] at hh; cases hh
    · cases ha
  next hemp =>
    split at ha
    next hV =>
      cases ha
      obtain ⟨h1, h2, h3, h4, h5, h6, h7⟩ := h.val t hV.1
      have hall : ∀ m ∈ (s.th t).held, m.gen = l.gen := by simpa [List.all_eq_true] using hV.2
      refine h.acquire_core t l _ hfree hin hasc rfl rfl (h.rc_le t) (h.gen_lt t) (h.snap_hp t) (h.snap_gen t) ?_ ?_ ?_
        (h.dirty_owner t)
      · intro hh; rw [hnp] at hh; cases hh
      · intro _
        refine ⟨by simp, ?_, h3, h4, h5, h6, h7⟩
        intro m hm
        rcases List.mem_cons.1 hm with rfl | hm
        · cases hh : (s.th t).held with
          | nil => exact absurd hh h1
          | cons a rest =>
            have ha : a ∈ (s.th t).held := by rw [hh]; exact List.mem_cons_self ..
            rw [← hall a ha]; exact h2 a ha
        · exact h2 m hm
      · intro hh; rw [h6] at hh; cases hh
    · cases ha

theorem inv_release {s s' : PS} (h : PInv s) (t : Tid) (l : LockId) (ha : accept s (.release t l) = some s') : PInv s' := by
  simp only [accept] at ha
  split at ha
  · cases ha
  next hfree =>
  split at ha
  · cases ha
  next hnd =>
  split at ha
  · cases ha
  next hnp =>
  have hl : s.holder l = some t := Classical.not_not.1 hfree
  have hnd : (s.th t).dirty = false := by simpa using hnd
  have hnp : (s.th t).pendingVal = false := by simpa using hnp
  have hmem : ∀ m, m ∈ List.filter (fun x => decide (x ≠ l)) (s.th t).held ↔ m ∈ (s.th t).held ∧ m ≠ l := by
    intro m; simp [List.mem_filter]
  have key : ∀ x' : TS, x'.held = List.filter (fun x => decide (x ≠ l)) (s.th t).held → x'.dirty = false →
      x'.pendingVal = false → x'.owner = false → x'.snapRc = (s.th t).snapRc → x'.snapHp = (s.th t).snapHp →
      x'.snapGen = (s.th t).snapGen → x'.hpOk = (s.th t).hpOk → x'.genOk = (s.th t).genOk →
      (x'.validated = true → x'.held ≠ [] ∧ (s.th t).validated = true ∧ x'.inAll = (s.th t).inAll) →
      PInv { s with holder := updH s.holder l none, th := upd s.th t x' } := by
    intro x' e1 e2 e3 e4 e5 e6 e7 e8 e9 e10
    refine h.frame2 t x' _ ?_ ?_ ?_ ?_ ?_ (by rw [e2, hnd]) (by rw [e5]; exact h.rc_le t) (by rw [e7]; exact h.gen_lt t)
      (by rw [e5, e6, e8]; exact h.snap_hp t) (by rw [e5, e7, e9]; exact h.snap_gen t) ?_ ?_ ?_ ?_
    · intro m
      rw [e1, hmem, updH_apply]
      by_cases hm : m = l
      · simp [hm]
      · simp only [hm, if_false, ne_eq, not_false_eq_true, and_true]; exact h.held_iff t m
    · intro u hu m
      rw [updH_apply]
      by_cases hm : m = l
      · subst hm; simp only [if_true, hl]
        constructor
        · intro e; cases e
        · intro e; exact absurd (Option.some.inj e) (Ne.symm hu)
      · simp only [hm, if_false]
    · rw [e1]; exact (h.held_desc t).filter _
    · intro m
      rw [updH_apply]
      by_cases hm : m = l
      · simp [hm]
      · simp only [hm, if_false]; exact h.held_range m t
    · intro hh; rw [hnd] at hh; cases hh
    · intro hh; rw [e3] at hh; cases hh
    · intro hh
      obtain ⟨a1, a2, a3⟩ := e10 hh
      obtain ⟨h1, h2, h3, h4, h5, h6, h7⟩ := h.val t a2
      refine ⟨a1, ?_, by rw [e5]; exact h3, by rw [e6]; exact h4, by rw [e7]; exact h5, e4, by rw [a3]; exact h7⟩
      intro m hm
      rw [e1, hmem] at hm
      exact h2 m hm.1
    · intro hh; rw [e4] at hh; cases hh
    · intro hh; rw [e2] at hh; cases hh
  cases ha
  split
  next hemp =>
    apply key <;> first | rfl | assumption | skip
    intro hh; cases hh
  next hemp =>
    apply key <;> first | rfl | assumption | skip
    intro hh
    exact ⟨fun e => hemp (by simp only at e; rw [e]; rfl), hh, rfl⟩

end Cuckoo.Proto
