import Cuckoo.Proofs.Migrate
/-!
Helper lemmas for `Props/C02Par`: two different stripes migrate independently (`rehashLock … false` commutes),
hence folding the non-lazy `rehashLock` over any permutation of the stripe indices is the sequential loop.

The store transformers involved (`Store.set`, `moveBucket`, `migrateBuckets`) are *local* (`LocalT`): they keep the
hashpower, leave every cell outside an index set `P` alone, and the cell they produce at index `k` depends on the
input only through its cell at `k`.  Two local transformers with disjoint index sets commute.
-/
namespace Cuckoo.Model
open Cuckoo
variable {κ ν : Type}

theorem Store.ext' {a b : Store κ ν} (h1 : a.hp = b.hp) (h2 : a.cells = b.cells) : a = b := by
  cases a; cases b; simp_all

/-! ### local store transformers -/

structure LocalT (hp : Nat) (P : Nat → Prop) (f : Store κ ν → Store κ ν) : Prop where
  hp_eq : ∀ cur : Store κ ν, cur.hp = hp → (f cur).hp = hp
  frame : ∀ cur : Store κ ν, cur.hp = hp → ∀ k : Nat, ¬ P k → (f cur).cells[k]? = cur.cells[k]?
  pw : ∀ cur cur' : Store κ ν, cur.hp = hp → cur'.hp = hp → ∀ k : Nat, cur.cells[k]? = cur'.cells[k]? →
    (f cur).cells[k]? = (f cur').cells[k]?

theorem LocalT.id (hp : Nat) (P : Nat → Prop) : LocalT hp P (fun cur : Store κ ν => cur) :=
  ⟨fun _ h => h, fun _ _ _ _ => rfl, fun _ _ _ _ _ h => h⟩

theorem LocalT.comp {hp : Nat} {P : Nat → Prop} {f g : Store κ ν → Store κ ν} (hf : LocalT hp P f) (hg : LocalT hp P g) :
    LocalT hp P (fun cur => g (f cur)) :=
  ⟨fun cur h => hg.hp_eq _ (hf.hp_eq cur h),
   fun cur h k hk => (hg.frame _ (hf.hp_eq cur h) k hk).trans (hf.frame cur h k hk),
   fun cur cur' h h' k hk => hg.pw _ _ (hf.hp_eq cur h) (hf.hp_eq cur' h') k (hf.pw cur cur' h h' k hk)⟩

theorem LocalT.congr {hp : Nat} {P : Nat → Prop} {f g : Store κ ν → Store κ ν}
    (h : ∀ cur, cur.hp = hp → g cur = f cur) (hf : LocalT hp P f) : LocalT hp P g := by
  refine ⟨?_, ?_, ?_⟩
  · intro cur hc; rw [h cur hc]; exact hf.hp_eq cur hc
  · intro cur hc k hk; rw [h cur hc]; exact hf.frame cur hc k hk
  · intro cur cur' hc hc' k hk; rw [h cur hc, h cur' hc']; exact hf.pw cur cur' hc hc' k hk

theorem LocalT.set (hp : Nat) (P : Nat → Prop) (S b s : Nat) (v : Option (Slot κ ν)) (hP : P (b * S + s)) :
    LocalT hp P (fun cur : Store κ ν => cur.set S b s v) := by
  refine ⟨fun cur h => h, ?_, ?_⟩
  · intro cur _ k hk
    have hne : b * S + s ≠ k := fun e => hk (e ▸ hP)
    simp only [Store.set]
    exact Array.getElem?_setIfInBounds_ne hne
  · intro cur cur' _ _ k hk
    simp only [Store.set]
    by_cases e : b * S + s = k
    · subst e
      have hsz : (b * S + s < cur.cells.size) ↔ (b * S + s < cur'.cells.size) := by
        constructor
        · intro h
          apply Nat.lt_of_not_le
          intro hge
          have h1 := Array.getElem?_eq_none_iff.mpr hge
          rw [← hk] at h1
          have := Array.getElem?_eq_none_iff.mp h1
          omega
        · intro h
          apply Nat.lt_of_not_le
          intro hge
          have h1 := Array.getElem?_eq_none_iff.mpr hge
          rw [hk] at h1
          have := Array.getElem?_eq_none_iff.mp h1
          omega
      rw [Array.getElem?_setIfInBounds_self, Array.getElem?_setIfInBounds_self]
      by_cases h : b * S + s < cur.cells.size
      · rw [if_pos h, if_pos (hsz.mp h)]
      · rw [if_neg h, if_neg (fun h' => h (hsz.mpr h'))]
    · rw [Array.getElem?_setIfInBounds_ne e, Array.getElem?_setIfInBounds_ne e]; exact hk

/-- local transformers on disjoint index sets commute -/
theorem LocalT.comm {hp : Nat} {P Q : Nat → Prop} {f g : Store κ ν → Store κ ν} (hf : LocalT hp P f) (hg : LocalT hp Q g)
    (hd : ∀ k, P k → Q k → False) (cur : Store κ ν) (h : cur.hp = hp) : f (g cur) = g (f cur) := by
  apply Store.ext'
  · rw [hf.hp_eq _ (hg.hp_eq _ h), hg.hp_eq _ (hf.hp_eq _ h)]
  · apply Array.ext_getElem?
    intro k
    by_cases hP : P k
    · have hQ : ¬ Q k := fun q => hd k hP q
      rw [hf.pw (g cur) cur (hg.hp_eq _ h) h k (hg.frame cur h k hQ), hg.frame (f cur) (hf.hp_eq _ h) k hQ]
    · rw [hf.frame (g cur) (hg.hp_eq _ h) k hP, hg.pw (f cur) cur (hf.hp_eq _ h) h k (hf.frame cur h k hP)]

/-! ### the cells owned by one stripe -/

/-- flat indices of the cells of buckets `b` and `b + 2^ohp` for the old buckets `b ≡ l (mod M)` -/
def StripeIdx (c : Cfg κ) (ohp l : Nat) (k : Nat) : Prop :=
  ∃ b s, s < c.S ∧ b < 2 ^ ohp ∧ b % c.M = l ∧ (k = b * c.S + s ∨ k = (b + 2 ^ ohp) * c.S + s)

theorem StripeIdx.disjoint (c : Cfg κ) (ohp i j k : Nat) (hi : StripeIdx c ohp i k) (hj : StripeIdx c ohp j k) :
    i = j := by
  obtain ⟨b, s, hs, hb, hm, hk⟩ := hi
  obtain ⟨b', s', hs', hb', hm', hk'⟩ := hj
  rcases hk with e | e <;> rcases hk' with e' | e'
  · have := (flat_inj hs hs' (e.symm.trans e')).1
    subst this; omega
  · have := (flat_inj hs hs' (e.symm.trans e')).1
    omega
  · have := (flat_inj hs hs' (e.symm.trans e')).1
    omega
  · have := (flat_inj hs hs' (e.symm.trans e')).1
    have : b = b' := by omega
    subst this; omega

/-! ### `moveBucket` and `migrateBuckets` are local -/

theorem moveBucket_go_loc (c : Cfg κ) (old : Store κ ν) (b nhp hp : Nat) (P : Nat → Prop)
    (hP : ∀ s, s < c.S → P (b * c.S + s) ∧ P ((b + 2 ^ old.hp) * c.S + s)) :
    ∀ (fuel s ns : Nat), s + fuel = c.S → ns ≤ s →
      LocalT hp P (fun cur => moveBucket.go c old b old.hp nhp (b + 2 ^ old.hp) s fuel ns cur) := by
  intro fuel
  induction fuel with
  | zero =>
    intro s ns _ _
    refine LocalT.congr (f := fun cur => cur) ?_ (LocalT.id hp P)
    intro cur _
    show moveBucket.go c old b old.hp nhp (b + 2 ^ old.hp) s 0 ns cur = cur
    unfold moveBucket.go
    rfl
  | succ fuel ih =>
    intro s ns hsf hns
    have hsS : s < c.S := by omega
    cases hget : old.get c.S b s with
    | none =>
      refine LocalT.congr ?_ (ih (s + 1) ns (by omega) (by omega))
      intro cur _
      show moveBucket.go c old b old.hp nhp (b + 2 ^ old.hp) s (fuel + 1) ns cur = _
      rw [moveBucket.go]
      simp only [hget]
    | some sl0 =>
      by_cases hc : (b = c.i1 old.hp sl0.key ∧ c.i1 nhp sl0.key = b + 2 ^ old.hp) ∨
          (b = c.i2 old.hp sl0.key ∧ c.i2 nhp sl0.key = b + 2 ^ old.hp)
      · refine LocalT.congr ?_ (LocalT.comp (LocalT.set hp P c.S (b + 2 ^ old.hp) ns (some sl0) (hP ns (by omega)).2)
          (ih (s + 1) (ns + 1) (by omega) (by omega)))
        intro cur _
        show moveBucket.go c old b old.hp nhp (b + 2 ^ old.hp) s (fuel + 1) ns cur = _
        rw [moveBucket.go]
        simp only [hget, if_pos hc]
      · refine LocalT.congr ?_ (LocalT.comp (LocalT.set hp P c.S b s (some sl0) (hP s hsS).1)
          (ih (s + 1) ns (by omega) (by omega)))
        intro cur _
        show moveBucket.go c old b old.hp nhp (b + 2 ^ old.hp) s (fuel + 1) ns cur = _
        rw [moveBucket.go]
        simp only [hget, if_neg hc]

theorem moveBucket_loc (c : Cfg κ) (old : Store κ ν) (b hp l : Nat) (hb : b < 2 ^ old.hp) (hm : b % c.M = l) :
    LocalT hp (StripeIdx c old.hp l) (fun cur => moveBucket c old cur b) := by
  refine LocalT.congr ?_ (moveBucket_go_loc c old b hp hp (StripeIdx c old.hp l) ?_ c.S 0 0 (by omega) (Nat.le_refl _))
  · intro cur hc
    show moveBucket c old cur b = moveBucket.go c old b old.hp hp (b + 2 ^ old.hp) 0 c.S 0 cur
    rw [← hc]; rfl
  · intro s hs
    exact ⟨⟨b, s, hs, hb, hm, Or.inl rfl⟩, ⟨b, s, hs, hb, hm, Or.inr rfl⟩⟩

theorem migrateBuckets_loc (c : Cfg κ) (old : Store κ ν) (hp l : Nat) :
    ∀ (n b : Nat), b % c.M = l → b + n * c.M < 2 ^ old.hp + c.M →
      LocalT hp (StripeIdx c old.hp l) (fun cur => migrateBuckets c old l n b cur) := by
  intro n
  induction n with
  | zero =>
    intro b _ _
    exact LocalT.congr (f := fun cur => cur) (fun cur _ => rfl) (LocalT.id hp _)
  | succ n ih =>
    intro b hm hlt
    have e : (n + 1) * c.M = n * c.M + c.M := Nat.succ_mul n c.M
    refine LocalT.congr (f := fun cur => migrateBuckets c old l n (b + c.M) (moveBucket c old cur b))
      (fun cur _ => rfl) (LocalT.comp (moveBucket_loc c old b hp l (by omega) hm) (ih (b + c.M) ?_ (by omega)))
    rw [Nat.add_mod_right]; exact hm

theorem migrateBuckets_stripe_loc (c : Cfg κ) (old : Store κ ν) (hp l : Nat) (hl : l < c.M) :
    LocalT hp (StripeIdx c old.hp l)
      (fun cur => migrateBuckets c old l ((2 ^ old.hp + c.M - 1 - l) / c.M) l cur) := by
  apply migrateBuckets_loc c old hp l ((2 ^ old.hp + c.M - 1 - l) / c.M) l (Nat.mod_eq_of_lt hl)
  have := Nat.div_mul_le_self (2 ^ old.hp + c.M - 1 - l) c.M
  have hpow : 0 < 2 ^ old.hp := Spec.two_pow_pos _
  omega

/-! ### `rehashLock … false` -/

theorem rehashLock_false_cases (c : Cfg κ) (t : Table κ ν) (l : Nat) :
    (t.rehashLock c l false = t ∧ ∀ lk, t.locks[l]? = some lk → lk.migrated = true ∨ t.old = none) ∨
    ∃ lk o, t.locks[l]? = some lk ∧ lk.migrated = false ∧ t.old = some o ∧
      t.rehashLock c l false = migT c t l o := by
  cases hlk : t.locks[l]? with
  | none =>
    left
    have h : ∀ lk, t.locks[l]? = some lk → lk.migrated = true ∨ t.old = none := by
      intro lk h; rw [hlk] at h; cases h
    exact ⟨rehashLock_skip c t l false h, fun lk e => by cases e⟩
  | some lk =>
    cases hmig : lk.migrated with
    | true =>
      left
      have h : ∀ lk', t.locks[l]? = some lk' → lk'.migrated = true ∨ t.old = none := by
        intro lk' h; rw [hlk] at h; cases h; exact Or.inl hmig
      exact ⟨rehashLock_skip c t l false h, fun lk' e => by cases e; exact Or.inl hmig⟩
    | false =>
      cases hold : t.old with
      | none =>
        left
        have h : ∀ lk', t.locks[l]? = some lk' → lk'.migrated = true ∨ t.old = none :=
          fun _ _ => Or.inr hold
        exact ⟨rehashLock_skip c t l false h, fun _ _ => Or.inr rfl⟩
      | some o =>
        right
        refine ⟨lk, o, rfl, hmig, rfl, ?_⟩
        rw [rehashLock_active c t l lk o false hlk hmig hold]
        simp

theorem rehashLock_false_old (c : Cfg κ) (t : Table κ ν) (l : Nat) : (t.rehashLock c l false).old = t.old := by
  rcases rehashLock_false_cases c t l with ⟨e, _⟩ | ⟨lk, o, _, _, _, e⟩ <;> rw [e]
  rfl

theorem rehashLock_false_locks_ne (c : Cfg κ) (t : Table κ ν) (l i : Nat) (h : l ≠ i) :
    (t.rehashLock c l false).locks[i]? = t.locks[i]? := by
  rcases rehashLock_false_cases c t l with ⟨e, _⟩ | ⟨lk, o, _, _, _, e⟩ <;> rw [e]
  show (t.locks.modify l _)[i]? = _
  rw [Array.getElem?_modify, if_neg h]

theorem rehashLock_false_size (c : Cfg κ) (t : Table κ ν) (l : Nat) :
    (t.rehashLock c l false).locks.size = t.locks.size := by
  rcases rehashLock_false_cases c t l with ⟨e, _⟩ | ⟨lk, o, _, _, _, e⟩ <;> rw [e]
  show (t.locks.modify l _).size = _
  rw [Array.size_modify]

theorem modify_comm {α : Type} (xs : Array α) (i j : Nat) (f g : α → α) (h : i ≠ j) :
    (xs.modify i f).modify j g = (xs.modify j g).modify i f := by
  apply Array.ext_getElem?
  intro k
  simp only [Array.getElem?_modify]
  by_cases h1 : j = k <;> by_cases h2 : i = k
  · omega
  · simp [h1, h2]
  · simp [h1, h2]
  · simp [h1, h2]

/-- two different stripes migrate independently; all that is needed of the invariant is that there are no more
stripes than `kMaxNumLocks` -/
theorem rehashLock_comm_of_le (c : Cfg κ) (t : Table κ ν) (hle : t.locks.size ≤ c.M) (i j : Nat) (hij : i ≠ j) :
    (t.rehashLock c i false).rehashLock c j false = (t.rehashLock c j false).rehashLock c i false := by
  rcases rehashLock_false_cases c t i with ⟨ei, hi⟩ | ⟨lki, o, hi1, hi2, hi3, ei⟩
  · rw [ei]
    symm
    apply rehashLock_skip
    intro lk hlk
    rw [rehashLock_false_locks_ne c t j i (Ne.symm hij)] at hlk
    rw [rehashLock_false_old]
    exact hi lk hlk
  · rcases rehashLock_false_cases c t j with ⟨ej, hj⟩ | ⟨lkj, o', hj1, hj2, hj3, ej⟩
    · rw [ej]
      apply rehashLock_skip
      intro lk hlk
      rw [rehashLock_false_locks_ne c t i j hij] at hlk
      rw [rehashLock_false_old]
      exact hj lk hlk
    · have ho : o' = o := by rw [hi3] at hj3; cases hj3; rfl
      subst ho
      have hiM : i < c.M := by
        have := (Array.getElem?_eq_some_iff.mp hi1).1; omega
      have hjM : j < c.M := by
        have := (Array.getElem?_eq_some_iff.mp hj1).1; omega
      have l1 : (migT c t i o').locks[j]? = some lkj := by
        show (t.locks.modify i _)[j]? = _
        rw [Array.getElem?_modify, if_neg hij]; exact hj1
      have l2 : (migT c t j o').locks[i]? = some lki := by
        show (t.locks.modify j _)[i]? = _
        rw [Array.getElem?_modify, if_neg (Ne.symm hij)]; exact hi1
      rw [ei, ej, rehashLock_active c _ j lkj o' false l1 hj2 hi3,
        rehashLock_active c _ i lki o' false l2 hi2 hi3]
      simp only [Bool.false_eq_true, if_false]
      have hcur := LocalT.comm (migrateBuckets_stripe_loc c o' t.cur.hp j hjM)
        (migrateBuckets_stripe_loc c o' t.cur.hp i hiM)
        (fun k hj hi => hij (StripeIdx.disjoint c o'.hp i j k hi hj)) t.cur rfl
      have hlocks := modify_comm t.locks i j (fun x : Lock => { x with migrated := true })
        (fun x : Lock => { x with migrated := true }) hij
      simp only [migT]
      rw [hcur, hlocks]

/-! ### folding over a permutation -/

theorem foldl_perm_of_comm {σ : Type} (f : σ → Nat → σ) (H : σ → Prop) (hH : ∀ t i, H t → H (f t i))
    (hc : ∀ t i j, H t → f (f t i) j = f (f t j) i) {l1 l2 : List Nat} (hp : l1.Perm l2) :
    ∀ t, H t → l1.foldl f t = l2.foldl f t := by
  induction hp with
  | nil => intro t _; rfl
  | cons x _ ih => intro t ht; exact ih (f t x) (hH t x ht)
  | swap x y l => intro t ht; simp only [List.foldl_cons]; rw [hc t y x ht]
  | trans _ _ ih1 ih2 => intro t ht; exact (ih1 t ht).trans (ih2 t ht)

theorem migrateAll_go_eq_foldl (c : Cfg κ) : ∀ (n l : Nat) (t : Table κ ν),
    Table.migrateAll.go c n l t = (List.range' l n).foldl (fun t l => t.rehashLock c l false) t := by
  intro n
  induction n with
  | zero => intro l t; unfold Table.migrateAll.go; rfl
  | succ n ih =>
    intro l t
    unfold Table.migrateAll.go
    rw [ih (l + 1) (t.rehashLock c l false)]
    rfl

theorem foldl_rehashLock_perm (c : Cfg κ) (t : Table κ ν) (hle : t.locks.size ≤ c.M) {l1 l2 : List Nat}
    (hp : l1.Perm l2) :
    l1.foldl (fun t l => t.rehashLock c l false) t = l2.foldl (fun t l => t.rehashLock c l false) t := by
  refine foldl_perm_of_comm (fun (t : Table κ ν) l => t.rehashLock c l false) (fun t => t.locks.size ≤ c.M)
    ?_ ?_ hp t hle
  · intro t i h
    show (t.rehashLock c i false).locks.size ≤ c.M
    rw [rehashLock_false_size]; exact h
  · intro t i j h
    by_cases e : i = j
    · subst e; rfl
    · exact rehashLock_comm_of_le c t h i j e

end Cuckoo.Model
