import Cuckoo.Proofs.CommAux1
/-!
Helper lemmas for `Props/C03Comm`: the lazy migration (`rehashLock … true`, `lockOne/Two/Three`) read footprint.
From two tables that agree on the stripes `L` (and on the old array while a migration is pending in both), taking a
stripe `l ∈ L` gives tables that agree on `L` again; both subtract the same number (0 or 1) from `rem`; each
releases the old array exactly when its own counter reaches 0.
-/
namespace Cuckoo.Model
open Cuckoo
variable {κ ν : Type}

theorem getElem?_of_get (S : Nat) (st st' : Store κ ν) (b s : Nat) (hs : s < S)
    (hsz : st'.cells.size = st.cells.size) (h : st'.get S b s = st.get S b s) :
    st'.cells[b * S + s]? = st.cells[b * S + s]? := by
  unfold Store.get at h
  rw [if_pos hs, if_pos hs, Array.getD_eq_getD_getElem?, Array.getD_eq_getD_getElem?] at h
  by_cases hlt : b * S + s < st.cells.size
  · have hlt' : b * S + s < st'.cells.size := by omega
    rw [Array.getElem?_eq_getElem hlt, Array.getElem?_eq_getElem hlt'] at h ⊢
    simp only [Option.getD_some] at h
    rw [h]
  · rw [Array.getElem?_eq_none (by omega), Array.getElem?_eq_none (by omega)]

/-- migrating stripe `l` out of the same old array into two current arrays that agree on bucket `b`: the results
agree on bucket `b` -/
theorem migrateStripe_congr (c : Cfg κ) (o cur cur' : Store κ ν) (l b s : Nat) (hl : l < c.M)
    (hhp : cur'.hp = cur.hp) (hsz : cur'.cells.size = cur.cells.size)
    (h : cur'.get c.S b s = cur.get c.S b s) :
    (migrateBuckets c o l ((2 ^ o.hp + c.M - 1 - l) / c.M) l cur').get c.S b s =
      (migrateBuckets c o l ((2 ^ o.hp + c.M - 1 - l) / c.M) l cur).get c.S b s := by
  by_cases hs : s < c.S
  · apply get_congr_idx
    exact (migrateBuckets_stripe_loc c o cur.hp l hl).pw cur' cur hhp rfl _ (getElem?_of_get c.S cur cur' b s hs hsz h)
  · rw [Store.get_of_not_lt _ _ _ _ hs, Store.get_of_not_lt _ _ _ _ hs]

/-- what the active lazy step does, whichever of its two branches is taken -/
theorem lazyStep_facts (c : Cfg κ) (t : Table κ ν) (l : Nat) (o : Store κ ν) :
    (if t.rem = 1 then migT0 c t l o else migTr c t l o).cur = (migT c t l o).cur ∧
    (if t.rem = 1 then migT0 c t l o else migTr c t l o).locks = (migT c t l o).locks ∧
    (if t.rem = 1 then migT0 c t l o else migTr c t l o).rc = t.rc ∧
    (if t.rem = 1 then migT0 c t l o else migTr c t l o).rem = t.rem - 1 ∧
    OldRule t (if t.rem = 1 then migT0 c t l o else migTr c t l o) := by
  by_cases h1 : t.rem = 1
  · rw [if_pos h1]
    refine ⟨rfl, rfl, rfl, ?_, ?_⟩
    · show 0 = t.rem - 1
      omega
    · unfold OldRule
      rw [if_pos ⟨by omega, rfl⟩]
      rfl
  · rw [if_neg h1]
    refine ⟨rfl, rfl, rfl, rfl, ?_⟩
    unfold OldRule
    rw [if_neg]
    · rfl
    · rintro ⟨h0, h2⟩
      have : t.rem - 1 = 0 := h2
      omega

/-- `rehash_lock<LAZY>` follows the release rule and never increases `rem`, on any table -/
theorem rehashLock_oldRule (c : Cfg κ) (t : Table κ ν) (l : Nat) :
    OldRule t (t.rehashLock c l true) ∧ (t.rehashLock c l true).rem ≤ t.rem := by
  cases hlk : t.locks[l]? with
  | none =>
    rw [rehashLock_skip c t l true (by intro lk h; rw [hlk] at h; cases h)]
    exact ⟨OldRule.refl t, Nat.le_refl _⟩
  | some lk =>
    cases hmig : lk.migrated with
    | true =>
      rw [rehashLock_skip c t l true (by intro lk' h; rw [hlk] at h; cases h; exact Or.inl hmig)]
      exact ⟨OldRule.refl t, Nat.le_refl _⟩
    | false =>
      cases hold : t.old with
      | none =>
        rw [rehashLock_skip c t l true (fun _ _ => Or.inr hold)]
        exact ⟨OldRule.refl t, Nat.le_refl _⟩
      | some o =>
        rw [rehashLock_active c t l lk o true hlk hmig hold]
        simp only [if_true]
        obtain ⟨_, _, _, a4, a5⟩ := lazyStep_facts c t l o
        exact ⟨a5, by rw [a4]; exact Nat.sub_le _ _⟩

/-- **the lazy migration step transported**: taking stripe `l ∈ L` from two tables that agree on `L` -/
theorem rehashLock_transp (c : Cfg κ) (L : List Nat) (t u : Table κ ν) (l : Nat) (hl : l ∈ L) (ht : Inv c t)
    (hu : Inv c u) (ha : AgreeOn c L t u) :
    Transp c L t u (t.rehashLock c l true) (u.rehashLock c l true) := by
  have hlk := ha.loc.locks l hl
  cases hlt : t.locks[l]? with
  | none =>
    rw [rehashLock_skip c t l true (by intro lk h; rw [hlt] at h; cases h),
      rehashLock_skip c u l true (by intro lk h; rw [hlk, hlt] at h; cases h)]
    exact Transp.refl ha.loc
  | some lk =>
    cases hmig : lk.migrated with
    | true =>
      rw [rehashLock_skip c t l true (by intro lk' h; rw [hlt] at h; cases h; exact Or.inl hmig),
        rehashLock_skip c u l true (by intro lk' h; rw [hlk, hlt] at h; cases h; exact Or.inl hmig)]
      exact Transp.refl ha.loc
    | false =>
      have hlu : u.locks[l]? = some lk := hlk.trans hlt
      have hpt : 0 < t.rem := by rw [ht.rem_eq]; exact nUnmig_pos_of t l lk hlt hmig
      have hpu : 0 < u.rem := by rw [hu.rem_eq]; exact nUnmig_pos_of u l lk hlu hmig
      obtain ⟨o, hot, _, _, _, hsz⟩ := ht.pending hpt
      have hou : u.old = some o := (ha.gold hpu hpt).trans hot
      have hlM : l < c.M := by
        have := (Array.getElem?_eq_some_iff.mp hlt).1; omega
      rw [rehashLock_active c t l lk o true hlt hmig hot, rehashLock_active c u l lk o true hlu hmig hou]
      simp only [if_true]
      obtain ⟨a1, a2, a3, a4, a5⟩ := lazyStep_facts c t l o
      obtain ⟨b1, b2, b3, b4, b5⟩ := lazyStep_facts c u l o
      refine ⟨⟨?_, ?_, ?_, ?_, ?_, ?_⟩, by rw [a4, b4]; omega, by rw [a4]; omega, by rw [b4]; omega, a5, b5⟩
      · intro b s hb
        rw [a1, b1]
        exact migrateStripe_congr c o t.cur u.cur l b s hlM ha.loc.hp ha.loc.csize (ha.loc.cells b s hb)
      · intro i hi
        rw [a2, b2]
        show (u.locks.modify l _)[i]? = (t.locks.modify l _)[i]?
        rw [Array.getElem?_modify, Array.getElem?_modify, ha.loc.locks i hi]
      · rw [a2, b2]
        show (u.locks.modify l _).size = (t.locks.modify l _).size
        rw [Array.size_modify, Array.size_modify]; exact ha.loc.nlocks
      · show (ite _ _ _ : Table κ ν).cur.hp = (ite _ _ _ : Table κ ν).cur.hp
        rw [a1, b1]
        show (migrateBuckets c o l _ l u.cur).hp = (migrateBuckets c o l _ l t.cur).hp
        rw [(migrateBuckets_stripe_loc c o u.cur.hp l hlM).hp_eq u.cur rfl,
          (migrateBuckets_stripe_loc c o t.cur.hp l hlM).hp_eq t.cur rfl]
        exact ha.loc.hp
      · rw [a1, b1]
        show (migrateBuckets c o l _ l u.cur).cells.size = (migrateBuckets c o l _ l t.cur).cells.size
        rw [migrateBuckets_size, migrateBuckets_size]; exact ha.loc.csize
      · rw [a3, b3]; exact ha.loc.rc

theorem rehash2_transp (c : Cfg κ) (L : List Nat) (t u : Table κ ν) (la lb : Nat) (ha' : la ∈ L) (hb' : lb ∈ L)
    (ht : Inv c t) (hu : Inv c u) (ha : AgreeOn c L t u) :
    Transp c L t u ((t.rehashLock c la true).rehashLock c lb true) ((u.rehashLock c la true).rehashLock c lb true) := by
  have s1 := rehashLock_transp c L t u la ha' ht hu ha
  exact s1.trans (rehashLock_transp c L _ _ lb hb' (rehashLock_lazy_spec c t la ht).1
    (rehashLock_lazy_spec c u la hu).1 (s1.agreeOn ha))

theorem rehash3_transp (c : Cfg κ) (L : List Nat) (t u : Table κ ν) (la lb lc : Nat) (ha' : la ∈ L) (hb' : lb ∈ L)
    (hc' : lc ∈ L) (ht : Inv c t) (hu : Inv c u) (ha : AgreeOn c L t u) :
    Transp c L t u (((t.rehashLock c la true).rehashLock c lb true).rehashLock c lc true)
      (((u.rehashLock c la true).rehashLock c lb true).rehashLock c lc true) := by
  have s2 := rehash2_transp c L t u la lb ha' hb' ht hu ha
  exact s2.trans (rehashLock_transp c L _ _ lc hc' (rehash2_spec c t la lb ht).1 (rehash2_spec c u la lb hu).1
    (s2.agreeOn ha))

theorem lockOne_transp (c : Cfg κ) (L : List Nat) (t u : Table κ ν) (b : Nat) (hb : c.lockInd b ∈ L)
    (ht : Inv c t) (hu : Inv c u) (ha : AgreeOn c L t u) : Transp c L t u (t.lockOne c b) (u.lockOne c b) :=
  rehashLock_transp c L t u _ hb ht hu ha

theorem lockTwo_transp (c : Cfg κ) (L : List Nat) (t u : Table κ ν) (b1 b2 : Nat) (h1 : c.lockInd b1 ∈ L)
    (h2 : c.lockInd b2 ∈ L) (ht : Inv c t) (hu : Inv c u) (ha : AgreeOn c L t u) :
    Transp c L t u (t.lockTwo c b1 b2) (u.lockTwo c b1 b2) := by
  unfold Table.lockTwo
  simp only []
  generalize c.lockInd b1 = x at h1
  generalize c.lockInd b2 = y at h2
  by_cases e1 : y < x <;> simp only [e1, if_true, if_false]
  · exact rehash2_transp c L t u _ _ h2 h1 ht hu ha
  · exact rehash2_transp c L t u _ _ h1 h2 ht hu ha

theorem lockThree_transp (c : Cfg κ) (L : List Nat) (t u : Table κ ν) (b1 b2 b3 : Nat) (h1 : c.lockInd b1 ∈ L)
    (h2 : c.lockInd b2 ∈ L) (h3 : c.lockInd b3 ∈ L) (ht : Inv c t) (hu : Inv c u) (ha : AgreeOn c L t u) :
    Transp c L t u (t.lockThree c b1 b2 b3) (u.lockThree c b1 b2 b3) := by
  unfold Table.lockThree
  simp only []
  generalize c.lockInd b1 = x at h1
  generalize c.lockInd b2 = y at h2
  generalize c.lockInd b3 = z at h3
  by_cases e1 : z < y <;> simp only [e1, if_true, if_false]
  · by_cases e2 : y < x <;> simp only [e2, if_true, if_false]
    · by_cases e3 : z < y <;> simp only [e3, if_true, if_false]
      · exact rehash3_transp c L t u _ _ _ (by assumption) (by assumption) (by assumption) ht hu ha
      · exact rehash3_transp c L t u _ _ _ (by assumption) (by assumption) (by assumption) ht hu ha
    · by_cases e3 : z < x <;> simp only [e3, if_true, if_false]
      · exact rehash3_transp c L t u _ _ _ (by assumption) (by assumption) (by assumption) ht hu ha
      · exact rehash3_transp c L t u _ _ _ (by assumption) (by assumption) (by assumption) ht hu ha
  · by_cases e2 : z < x <;> simp only [e2, if_true, if_false]
    · by_cases e3 : y < z <;> simp only [e3, if_true, if_false]
      · exact rehash3_transp c L t u _ _ _ (by assumption) (by assumption) (by assumption) ht hu ha
      · exact rehash3_transp c L t u _ _ _ (by assumption) (by assumption) (by assumption) ht hu ha
    · by_cases e3 : y < x <;> simp only [e3, if_true, if_false]
      · exact rehash3_transp c L t u _ _ _ (by assumption) (by assumption) (by assumption) ht hu ha
      · exact rehash3_transp c L t u _ _ _ (by assumption) (by assumption) (by assumption) ht hu ha

end Cuckoo.Model
