import Cuckoo.Proofs.LinAux
/-!
# The memoizing search (`searchM`) is sound and complete

Soundness needs nothing about the cache (a returned order is checked step by step); completeness keeps the invariant
that every cached configuration has no linearization.
-/
namespace Cuckoo.Lin.Aux
open Cuckoo.Spec Cuckoo.Lin

/-! ### one step of a linearization -/

theorem isLin_nil (final m : AMap Nat Nat) (p : List HOp) :
    IsLin final m p [] ↔ p = [] ∧ sameMap m final = true := by
  constructor
  · rintro ⟨h1, _, m', h3, h4⟩
    simp only [runSpec, Option.some.injEq] at h3
    subst h3
    exact ⟨h1.symm.eq_nil, h4⟩
  · rintro ⟨rfl, h⟩
    exact ⟨List.Perm.nil, List.Pairwise.nil, m, rfl, h⟩

theorem isLin_cons_intro (final m : AMap Nat Nat) (q : HOp) (qs : List HOp) (o : HOp) (p1 p2 : List HOp)
    (m1 : AMap Nat Nat) (w1 : List HOp)
    (e1 : q :: qs = p1 ++ o :: p2) (e2 : o.inv ≤ minResp q qs) (e3 : applySpec m o.op o.res = some m1)
    (h : IsLin final m1 (p1 ++ p2) w1) : IsLin final m (q :: qs) (o :: w1) := by
  obtain ⟨i1, i2, m', i3, i4⟩ := h
  rw [e1]
  refine ⟨?_, ?_, m', ?_, i4⟩
  · exact ((List.perm_cons o).mpr i1).trans List.perm_middle.symm
  · refine List.pairwise_cons.mpr ⟨fun r hr => ?_, i2⟩
    have hr1 : r ∈ p1 ++ p2 := i1.mem_iff.mp hr
    have hr2 : r ∈ q :: qs := by
      rw [e1]
      rcases List.mem_append.mp hr1 with a | a
      · exact List.mem_append_left _ a
      · exact List.mem_append_right _ (List.mem_cons_of_mem _ a)
    exact (le_minResp o.inv q qs).mp e2 r hr2
  · rw [runSpec_cons m o w1 m1 e3]; exact i3

theorem isLin_cons_elim (final m : AMap Nat Nat) (q : HOp) (qs : List HOp) (o : HOp) (w1 : List HOp)
    (hwf : ∀ x ∈ q :: qs, x.inv ≤ x.resp) (h : IsLin final m (q :: qs) (o :: w1)) :
    ∃ p1 p2 m1, q :: qs = p1 ++ o :: p2 ∧ o.inv ≤ minResp q qs ∧ applySpec m o.op o.res = some m1 ∧
      IsLin final m1 (p1 ++ p2) w1 := by
  obtain ⟨h1, h2, m', h3, h4⟩ := h
  have ho : o ∈ q :: qs := h1.mem_iff.mp (List.mem_cons_self ..)
  obtain ⟨p1, p2, e1⟩ := List.append_of_mem ho
  have hperm : w1.Perm (p1 ++ p2) := by
    have : (o :: w1).Perm (o :: (p1 ++ p2)) := by rw [e1] at h1; exact h1.trans List.perm_middle
    exact this.cons_inv
  obtain ⟨r1, r2⟩ := List.pairwise_cons.mp h2
  cases happ : applySpec m o.op o.res with
  | none => simp [runSpec, happ] at h3
  | some m1 =>
    rw [runSpec_cons m o w1 m1 happ] at h3
    refine ⟨p1, p2, m1, e1, ?_, rfl, hperm, r2, m', h3, h4⟩
    apply (le_minResp o.inv q qs).mpr
    intro r hr
    rw [e1] at hr
    rcases List.mem_append.mp hr with a | a
    · exact r1 r (hperm.mem_iff.mpr (List.mem_append_left _ a))
    · rcases List.mem_cons.mp a with rfl | a
      · exact hwf r ho
      · exact r1 r (hperm.mem_iff.mpr (List.mem_append_right _ a))

/-! ### soundness -/

theorem tryEachM_some (k : AMap Nat Nat → List HOp → Cache → Option (List HOp) × Cache) (m : AMap Nat Nat)
    (lim : Nat) (pre post : List HOp) (c c' : Cache) (w : List HOp)
    (h : tryEachM k m lim pre post c = (some w, c')) :
    ∃ o post1 post2 m' w' c1 c2, post = post1 ++ o :: post2 ∧ o.inv ≤ lim ∧ applySpec m o.op o.res = some m' ∧
      k m' (pre.reverse ++ (post1 ++ post2)) c1 = (some w', c2) ∧ w = o :: w' := by
  induction post generalizing pre c with
  | nil => simp [tryEachM] at h
  | cons o post ih =>
    have step : ∀ c0, tryEachM k m lim (o :: pre) post c0 = (some w, c') →
        ∃ o' post1 post2 m' w' c1 c2, o :: post = post1 ++ o' :: post2 ∧ o'.inv ≤ lim ∧
          applySpec m o'.op o'.res = some m' ∧
          k m' (pre.reverse ++ (post1 ++ post2)) c1 = (some w', c2) ∧ w = o' :: w' := by
      intro c0 h0
      obtain ⟨o', p1, p2, m', w', c1, c2, e1, e2, e3, e4, e5⟩ := ih (o :: pre) c0 h0
      refine ⟨o', o :: p1, p2, m', w', c1, c2, by rw [e1]; rfl, e2, e3, ?_, e5⟩
      simpa using e4
    rw [tryEachM] at h
    by_cases hlim : o.inv ≤ lim
    · simp only [hlim, if_true] at h
      cases happ : applySpec m o.op o.res with
      | none => rw [happ] at h; exact step c h
      | some m1 =>
        rw [happ] at h
        simp only at h
        rcases hk : k m1 (pre.reverseAux post) c with ⟨_ | w1, c1⟩
        · rw [hk] at h; exact step c1 h
        · rw [hk] at h
          simp only [Prod.mk.injEq, Option.some.injEq] at h
          refine ⟨o, [], post, m1, w1, c, c1, rfl, hlim, happ, ?_, h.1.symm⟩
          rw [← hk, List.reverseAux_eq]; rfl
    · simp only [hlim, if_false] at h
      exact step c h

theorem searchM_sound (final : AMap Nat Nat) (fuel : Nat) (m : AMap Nat Nat) (p : List HOp) (c c' : Cache)
    (w : List HOp) (h : searchM final fuel m p c = (some w, c')) : IsLin final m p w := by
  induction fuel generalizing m p w c c' with
  | zero =>
    cases p with
    | nil =>
      simp only [searchM, Prod.mk.injEq] at h
      split at h
      · rename_i hs
        cases h.1
        exact (isLin_nil final m []).mpr ⟨rfl, hs⟩
      · cases h.1
    | cons q qs => simp [searchM] at h
  | succ fuel ih =>
    cases p with
    | nil =>
      simp only [searchM, Prod.mk.injEq] at h
      split at h
      · rename_i hs
        cases h.1
        exact (isLin_nil final m []).mpr ⟨rfl, hs⟩
      · cases h.1
    | cons q qs =>
      simp only [searchM] at h
      split at h
      · cases h
      · rcases ht : tryEachM (searchM final fuel) m (minResp q qs) [] (q :: qs) c with ⟨_ | w0, c0⟩
        · rw [ht] at h; cases h
        · rw [ht] at h
          simp only [Prod.mk.injEq, Option.some.injEq] at h
          obtain ⟨rfl, _⟩ := h
          obtain ⟨o, p1, p2, m1, w1, c1, c2, e1, e2, e3, e4, e5⟩ := tryEachM_some _ m _ [] (q :: qs) c c0 w0 ht
          simp only [List.reverse_nil, List.nil_append] at e4
          subst e5
          exact isLin_cons_intro final m q qs o p1 p2 m1 w1 e1 e2 e3 (ih m1 (p1 ++ p2) c1 c2 w1 e4)

/-! ### completeness -/

/-- every cached configuration has no linearization -/
def CacheOK (final : AMap Nat Nat) (c : Cache) : Prop := ∀ e ∈ c, ¬ ∃ w, IsLin final e.2 e.1 w

theorem tryEachM_spec (final : AMap Nat Nat) (k : AMap Nat Nat → List HOp → Cache → Option (List HOp) × Cache)
    (G : List HOp → Prop)
    (hk : ∀ m' p' c r c', G p' → CacheOK final c → k m' p' c = (r, c') →
      CacheOK final c' ∧ (r = none → ¬ ∃ w, IsLin final m' p' w))
    (m : AMap Nat Nat) (lim : Nat) (pre post : List HOp) (c : Cache) (r : Option (List HOp)) (c' : Cache)
    (hg : ∀ p1 o p2, post = p1 ++ o :: p2 → G (pre.reverse ++ (p1 ++ p2)))
    (hc : CacheOK final c) (h : tryEachM k m lim pre post c = (r, c')) :
    CacheOK final c' ∧ (r = none → ∀ p1 o p2 m1, post = p1 ++ o :: p2 → o.inv ≤ lim →
      applySpec m o.op o.res = some m1 → ¬ ∃ w, IsLin final m1 (pre.reverse ++ (p1 ++ p2)) w) := by
  induction post generalizing pre c with
  | nil =>
    simp only [tryEachM, Prod.mk.injEq] at h
    obtain ⟨_, rfl⟩ := h
    exact ⟨hc, fun _ p1 o p2 _ e => by cases p1 <;> cases e⟩
  | cons o post ih =>
    have hg' : ∀ p1 o' p2, post = p1 ++ o' :: p2 → G ((o :: pre).reverse ++ (p1 ++ p2)) := by
      intro p1 o' p2 e
      have := hg (o :: p1) o' p2 (by rw [e]; rfl)
      simpa using this
    -- what the recursive call gives, once the head `o` is known not to work
    have step : ∀ c0, CacheOK final c0 → tryEachM k m lim (o :: pre) post c0 = (r, c') →
        (o.inv ≤ lim → ∀ m1, applySpec m o.op o.res = some m1 → ¬ ∃ w, IsLin final m1 (pre.reverse ++ post) w) →
        CacheOK final c' ∧ (r = none → ∀ p1 o' p2 m1, o :: post = p1 ++ o' :: p2 → o'.inv ≤ lim →
          applySpec m o'.op o'.res = some m1 → ¬ ∃ w, IsLin final m1 (pre.reverse ++ (p1 ++ p2)) w) := by
      intro c0 hc0 h0 hhead
      obtain ⟨a, b⟩ := ih (o :: pre) c0 hg' hc0 h0
      refine ⟨a, fun hr p1 o' p2 m1 e e2 e3 => ?_⟩
      cases p1 with
      | nil =>
        simp only [List.nil_append, List.cons.injEq] at e
        obtain ⟨rfl, rfl⟩ := e
        exact hhead e2 m1 e3
      | cons x p1 =>
        simp only [List.cons_append, List.cons.injEq] at e
        obtain ⟨rfl, e⟩ := e
        have := b hr p1 o' p2 m1 e e2 e3
        simpa using this
    rw [tryEachM] at h
    by_cases hlim : o.inv ≤ lim
    · simp only [hlim, if_true] at h
      cases happ : applySpec m o.op o.res with
      | none =>
        rw [happ] at h
        exact step c hc h (fun _ m1 e => by rw [happ] at e; cases e)
      | some m1 =>
        rw [happ] at h
        simp only at h
        rcases hkk : k m1 (pre.reverseAux post) c with ⟨_ | w1, c1⟩
        · rw [hkk] at h
          rw [List.reverseAux_eq] at hkk
          obtain ⟨a, b⟩ := hk m1 _ c none c1 (by simpa using hg [] o post rfl) hc hkk
          exact step c1 a h (fun _ m2 e => by rw [happ] at e; cases e; exact b rfl)
        · rw [hkk] at h
          simp only [Prod.mk.injEq] at h
          obtain ⟨rfl, rfl⟩ := h
          rw [List.reverseAux_eq] at hkk
          obtain ⟨a, _⟩ := hk m1 _ c _ c1 (by simpa using hg [] o post rfl) hc hkk
          exact ⟨a, fun e => by cases e⟩
    · simp only [hlim, if_false] at h
      exact step c hc h (fun e => absurd e hlim)

theorem searchM_spec (final : AMap Nat Nat) (fuel : Nat) (m : AMap Nat Nat) (p : List HOp) (c : Cache)
    (r : Option (List HOp)) (c' : Cache)
    (hf : p.length ≤ fuel) (hwf : ∀ x ∈ p, x.inv ≤ x.resp) (hc : CacheOK final c)
    (h : searchM final fuel m p c = (r, c')) :
    CacheOK final c' ∧ (r = none → ¬ ∃ w, IsLin final m p w) := by
  induction fuel generalizing m p c r c' with
  | zero =>
    have : p = [] := List.eq_nil_of_length_eq_zero (Nat.le_zero.mp hf)
    subst this
    simp only [searchM, Prod.mk.injEq] at h
    obtain ⟨rfl, rfl⟩ := h
    refine ⟨hc, fun hr => ?_⟩
    rintro ⟨w, hw⟩
    have hw0 : w = [] := hw.1.eq_nil
    subst hw0
    simp [((isLin_nil final m []).mp hw).2] at hr
  | succ fuel ih =>
    cases p with
    | nil =>
      simp only [searchM, Prod.mk.injEq] at h
      obtain ⟨rfl, rfl⟩ := h
      refine ⟨hc, fun hr => ?_⟩
      rintro ⟨w, hw⟩
      have hw0 : w = [] := hw.1.eq_nil
      subst hw0
      simp [((isLin_nil final m []).mp hw).2] at hr
    | cons q qs =>
      simp only [searchM] at h
      split at h
      · rename_i hmem
        simp only [Prod.mk.injEq] at h
        obtain ⟨rfl, rfl⟩ := h
        exact ⟨hc, fun _ => hc _ (List.contains_iff_mem.mp hmem)⟩
      · have hsub : ∀ p1 o p2, q :: qs = p1 ++ o :: p2 →
            (p1 ++ p2).length ≤ fuel ∧ ∀ x ∈ p1 ++ p2, x.inv ≤ x.resp := by
          intro p1 o p2 e
          constructor
          · have := congrArg List.length e
            simp only [List.length_append, List.length_cons] at this hf ⊢
            omega
          · intro x hx
            apply hwf
            rw [e]
            rcases List.mem_append.mp hx with a | a
            · exact List.mem_append_left _ a
            · exact List.mem_append_right _ (List.mem_cons_of_mem _ a)
        rcases ht : tryEachM (searchM final fuel) m (minResp q qs) [] (q :: qs) c with ⟨r0, c0⟩
        obtain ⟨a, b⟩ := tryEachM_spec final (searchM final fuel)
          (fun p' => p'.length ≤ fuel ∧ ∀ x ∈ p', x.inv ≤ x.resp)
          (fun m' p' c r c' g hc' hs => ih m' p' c r c' g.1 g.2 hc' hs)
          m (minResp q qs) [] (q :: qs) c r0 c0
          (fun p1 o p2 e => by simpa using hsub p1 o p2 e) hc ht
        rw [ht] at h
        cases r0 with
        | some w0 =>
          simp only [Prod.mk.injEq] at h
          obtain ⟨rfl, rfl⟩ := h
          exact ⟨a, fun e => by cases e⟩
        | none =>
          simp only [Prod.mk.injEq] at h
          obtain ⟨rfl, rfl⟩ := h
          have hno : ¬ ∃ w, IsLin final m (q :: qs) w := by
            rintro ⟨w, hw⟩
            cases w with
            | nil => exact absurd ((isLin_nil final m _).mp hw).1 (by simp)
            | cons o w1 =>
              obtain ⟨p1, p2, m1, e1, e2, e3, e4⟩ := isLin_cons_elim final m q qs o w1 hwf hw
              exact b rfl p1 o p2 m1 e1 e2 e3 ⟨w1, by simpa using e4⟩
          refine ⟨fun e he => ?_, fun _ => hno⟩
          rcases List.mem_cons.mp he with rfl | he
          · exact hno
          · exact a e he

end Cuckoo.Lin.Aux
