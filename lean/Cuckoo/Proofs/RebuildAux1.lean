import Cuckoo.Props.C01Conc
import Cuckoo.Proofs.SpecMap
/-!
Helper lemmas for `Cuckoo/Props/C02Rebuild.lean`, part 1: the vocabulary of the statement (`insCall`, `kvOf`,
`completed`, `AllOk`, `Interleave`) and the pure fact about the abstract map: a linearization (`C01Conc.linRun`) that
consists of successful `insert` calls of pairwise distinct, absent keys builds exactly the map of those pairs, and every
one of them answers `true`.  Never property statements.
-/
namespace Cuckoo.Model.RebuildA
open Cuckoo Cuckoo.Model Cuckoo.Model.Conc Cuckoo.Spec Cuckoo.Props.C01Conc
variable {κ ν : Type}

/-- `new_map.insert(k, v)`: `uprase_fn` with a functor that ignores the context, keeps the value of a duplicate and never
erases -/
def insCall (k : κ) (v : ν) : Props.C01Conc.Call κ ν := .uprase k v false false (fun _ w => .ret w false)

/-- the pair an inserting call is about -/
def kvOf : Props.C01Conc.Call κ ν → Option (κ × ν)
  | .uprase k v _ _ _ => some (k, v)
  | _ => none

/-- the pairs of the calls that received a final response, in the order of their final sections: the list of pairs
`calls.zip responses` filtered for `some _` responses -/
def completed (calls : List (Props.C01Conc.Call κ ν)) (resps : List (Option (Resp ν))) : List (κ × ν) :=
  (calls.zip resps).filterMap (fun p => match p.2 with | some _ => kvOf p.1 | none => none)

/-- every final response is a success (no expansion error, no exception) -/
def AllOk (resps : List (Option (Resp ν))) : Prop := ∀ r, some r ∈ resps → ∃ b cs, r = Resp.bool (.ok b) cs

/-- every final response is `true` without a functor call: the element was newly inserted -/
def AllNew (resps : List (Option (Resp ν))) : Prop := ∀ r, some r ∈ resps → r = Resp.bool (.ok true) []

/-- `out` is an interleaving of the lists `ls` (each list keeps its order) -/
inductive Interleave {α : Type} : List (List α) → List α → Prop
  | done (ls : List (List α)) (h : ∀ l ∈ ls, l = []) : Interleave ls []
  | step (pre post : List (List α)) (a : α) (l out : List α) :
      Interleave (pre ++ l :: post) out → Interleave (pre ++ (a :: l) :: post) (a :: out)

theorem flatten_all_nil {α : Type} : ∀ (ls : List (List α)), (∀ l ∈ ls, l = []) → ls.flatten = []
  | [], _ => rfl
  | l :: ls, h => by
    rw [List.flatten_cons, h l List.mem_cons_self, flatten_all_nil ls (fun x hx => h x (List.mem_cons_of_mem _ hx))]
    rfl

theorem Interleave.perm {α : Type} {ls : List (List α)} {out : List α} (h : Interleave ls out) :
    out.Perm ls.flatten := by
  induction h with
  | done ls h => rw [flatten_all_nil ls h]
  | step pre post a l out _ ih =>
    rw [List.flatten_append, List.flatten_cons, List.cons_append] at *
    exact (List.Perm.cons a ih).trans List.perm_middle.symm

/-- the concatenation is one interleaving -/
theorem Interleave.flatten {α : Type} : ∀ (ls : List (List α)), Interleave ls ls.flatten
  | [] => .done [] (fun _ h => by cases h)
  | [] :: ls => by
    have ih := Interleave.flatten ls
    rw [List.flatten_cons, List.nil_append]
    generalize ls.flatten = out at ih
    induction ih with
    | done ls h =>
      refine .done _ ?_
      intro l hl
      rcases List.mem_cons.mp hl with e | e
      · exact e
      · exact h l e
    | step pre post a l out _ ih2 => exact .step ([] :: pre) post a l out ih2
  | (a :: l) :: ls => by
    have ih := Interleave.flatten (l :: ls)
    exact .step [] ls a l _ ih
termination_by ls => ls.flatten.length + ls.length
decreasing_by
  all_goals simp only [List.flatten_cons, List.length_append, List.length_cons, List.length_nil]
  all_goals omega

theorem completed_nil_left (resps : List (Option (Resp ν))) : completed ([] : List (Props.C01Conc.Call κ ν)) resps = [] := rfl

theorem completed_nil_right (calls : List (Props.C01Conc.Call κ ν)) : completed calls ([] : List (Option (Resp ν))) = [] := by
  unfold completed
  rw [List.zip_nil_right]
  rfl

theorem completed_cons_none (cl : Props.C01Conc.Call κ ν) (cs : List (Props.C01Conc.Call κ ν)) (rs : List (Option (Resp ν))) :
    completed (cl :: cs) (none :: rs) = completed cs rs := by
  unfold completed
  rw [List.zip_cons_cons, List.filterMap_cons]

theorem completed_cons_some (k : κ) (v : ν) (ca me : Bool) (fn : Ctx → ν → FnOut ν) (cs : List (Props.C01Conc.Call κ ν)) (r : Resp ν)
    (rs : List (Option (Resp ν))) :
    completed (Props.C01Conc.Call.uprase k v ca me fn :: cs) (some r :: rs) = (k, v) :: completed cs rs := by
  unfold completed
  rw [List.zip_cons_cons, List.filterMap_cons]
  rfl

theorem completed_append (c1 c2 : List (Props.C01Conc.Call κ ν)) (r1 r2 : List (Option (Resp ν))) (hl : c1.length = r1.length) :
    completed (c1 ++ c2) (r1 ++ r2) = completed c1 r1 ++ completed c2 r2 := by
  unfold completed
  rw [List.zip_append hl, List.filterMap_append]

theorem completed_replicate_none (cl : Props.C01Conc.Call κ ν) : ∀ (n : Nat) (cs : List (Props.C01Conc.Call κ ν)) (rs : List (Option (Resp ν))),
    completed (List.replicate n cl ++ cs) (List.replicate n none ++ rs) = completed cs rs
  | 0, _, _ => rfl
  | n + 1, cs, rs => by
    rw [List.replicate_succ, List.replicate_succ, List.cons_append, List.cons_append, completed_cons_none]
    exact completed_replicate_none cl n cs rs

variable [DecidableEq κ]

/-- what the specification says about a successful `insert` of an absent key -/
theorem specOf_ins_absent (m m1 : AMap κ ν) (k : κ) (v : ν) (r : Resp ν) (hk : m.lookup k = none)
    (hs : specOf m (insCall k v) r m1) (hok : ∃ b cs, r = Resp.bool (.ok b) cs) :
    r = Resp.bool (.ok true) [] ∧ m1 = (k, v) :: m := by
  have hspec : Props.C02.upraseSpec m k v false false (fun _ w => FnOut.ret w false) = (.ok true, [], m.add k v) := by
    unfold Props.C02.upraseSpec
    rw [hk]
    rfl
  rcases hs with ⟨e, _, he, _⟩ | ⟨h1, h2⟩
  · obtain ⟨b, cs, hb⟩ := hok
    rw [hb] at he
    cases he
  · rw [hspec] at h1 h2
    exact ⟨h1, h2⟩

/-- **the linearization of a rebuild**: successful inserts of pairwise distinct keys that are absent from `m` -/
theorem linRun_inserts : ∀ (calls : List (Props.C01Conc.Call κ ν)) (resps : List (Option (Resp ν))) (m m' : AMap κ ν),
    (∀ cl ∈ calls, ∃ k v, cl = insCall k v) → AllOk resps → linRun m calls resps m' →
    ((completed calls resps).map Prod.fst).Nodup → (∀ p ∈ completed calls resps, m.lookup p.1 = none) →
    m' = (completed calls resps).reverse ++ m ∧ AllNew resps := by
  intro calls
  induction calls with
  | nil =>
    intro resps m m' _ _ hl _ _
    cases resps with
    | nil =>
      have : m' = m := hl
      rw [this]
      exact ⟨rfl, fun r hr => by cases hr⟩
    | cons r rs => exact absurd hl (by unfold linRun; exact id)
  | cons cl cs ih =>
    intro resps m m' hc hok hl hnd hab
    cases resps with
    | nil => exact absurd hl (by unfold linRun; exact id)
    | cons r rs =>
      have hc' : ∀ cl ∈ cs, ∃ k v, cl = insCall k v := fun x hx => hc x (List.mem_cons_of_mem _ hx)
      have hok' : AllOk rs := fun x hx => hok x (List.mem_cons_of_mem _ hx)
      cases r with
      | none =>
        have hl' : linRun m cs rs m' := hl
        rw [completed_cons_none] at hnd hab ⊢
        obtain ⟨e1, e2⟩ := ih rs m m' hc' hok' hl' hnd hab
        refine ⟨e1, ?_⟩
        intro x hx
        rcases List.mem_cons.mp hx with e | e
        · cases e
        · exact e2 x e
      | some r =>
        obtain ⟨k, v, hcl⟩ := hc cl List.mem_cons_self
        subst hcl
        obtain ⟨m1, hs, hl'⟩ : ∃ m1, specOf m (insCall k v) r m1 ∧ linRun m1 cs rs m' := hl
        unfold insCall at hnd hab ⊢
        rw [completed_cons_some] at hnd hab ⊢
        rw [List.map_cons, List.nodup_cons] at hnd
        have hk : m.lookup k = none := hab (k, v) List.mem_cons_self
        obtain ⟨hr, hm1⟩ := specOf_ins_absent m m1 k v r hk hs (hok r List.mem_cons_self)
        have hab' : ∀ p ∈ completed cs rs, m1.lookup p.1 = none := by
          intro p hp
          rw [hm1, AMap.lookup_cons]
          have hne : k ≠ p.1 := by
            intro e
            apply hnd.1
            rw [List.mem_map]
            exact ⟨p, hp, e.symm⟩
          rw [if_neg hne]
          exact hab p (List.mem_cons_of_mem _ hp)
        obtain ⟨e1, e2⟩ := ih rs m1 m' hc' hok' hl' hnd.2 hab'
        refine ⟨?_, ?_⟩
        · rw [e1, hm1, List.reverse_cons, List.append_assoc]
          rfl
        · intro x hx
          rcases List.mem_cons.mp hx with e | e
          · cases e; exact hr
          · exact e2 x e

/-- lookups in an association list with distinct keys are determined by its set of pairs -/
theorem lookup_congr_of_perm (m1 m2 : AMap κ ν) (hp : m1.Perm m2) (hn : (m1.map Prod.fst).Nodup) (k : κ) :
    m1.lookup k = m2.lookup k := by
  have hn2 : (m2.map Prod.fst).Nodup := (hp.map Prod.fst).nodup_iff.mp hn
  cases h2 : m2.lookup k with
  | some v =>
    rw [AMap.lookup_eq_some_iff m1 hn]
    exact hp.mem_iff.mpr ((AMap.lookup_eq_some_iff m2 hn2 k v).mp h2)
  | none =>
    rw [AMap.lookup_eq_none_iff] at h2 ⊢
    intro v hv
    exact h2 v (hp.mem_iff.mp hv)

end Cuckoo.Model.RebuildA
