import Cuckoo.Proofs.MigrateAux3
/-!
Chunk A — lazy and batch migration (`move_bucket`, `rehash_lock`, `lock_one/two/three`,
`rehash_with_workers`) preserve the invariant and the live view.  Helper lemmas only.
-/
namespace Cuckoo.Model
open Cuckoo
variable {κ ν : Type}

/-- splitting one old bucket `b` into buckets `b` and `b + 2^old.hp` of the (so far empty there) current
array: the same slots, each in a candidate bucket of the doubled table, nothing else touched -/
theorem moveBucket_spec (c : Cfg κ) (old cur : Store κ ν) (b : Nat) (hS : 0 < c.S) (ho : old.WF c)
    (hsz : cur.cells.size = 2 ^ cur.hp * c.S) (hhp : cur.hp = old.hp + 1) (hb : b < 2 ^ old.hp)
    (he1 : ∀ s, cur.get c.S b s = none) (he2 : ∀ s, cur.get c.S (b + 2 ^ old.hp) s = none) :
    (moveBucket c old cur b).hp = cur.hp ∧ (moveBucket c old cur b).cells.size = cur.cells.size ∧
    (∀ b' s, b' ≠ b → b' ≠ b + 2 ^ old.hp → (moveBucket c old cur b).get c.S b' s = cur.get c.S b' s) ∧
    (∀ sl, (∃ s, old.get c.S b s = some sl) ↔
      (∃ s, (moveBucket c old cur b).get c.S b s = some sl ∨
            (moveBucket c old cur b).get c.S (b + 2 ^ old.hp) s = some sl)) ∧
    (∀ b' s sl, (b' = b ∨ b' = b + 2 ^ old.hp) → (moveBucket c old cur b).get c.S b' s = some sl →
      sl.tag = c.tag sl.key ∧ (b' = c.i1 cur.hp sl.key ∨ b' = c.i2 cur.hp sl.key)) ∧
    ((∀ s s' sl sl', old.get c.S b s = some sl → old.get c.S b s' = some sl' → sl.key = sl'.key → s = s') →
      ∀ b1 s1 b2 s2 sl sl', (b1 = b ∨ b1 = b + 2 ^ old.hp) → (b2 = b ∨ b2 = b + 2 ^ old.hp) →
        (moveBucket c old cur b).get c.S b1 s1 = some sl → (moveBucket c old cur b).get c.S b2 s2 = some sl' →
        sl.key = sl'.key → b1 = b2 ∧ s1 = s2) := by
  exact moveBucket_facts c old cur b hS ho hsz hhp hb he1 he2
/-! ### `rehashLock`: defining equations -/

/-- the table after stripe `l` has been split into the current array (no `rem` bookkeeping) -/
def migT (c : Cfg κ) (t : Table κ ν) (l : Nat) (o : Store κ ν) : Table κ ν :=
  { t with cur := migrateBuckets c o l ((2 ^ o.hp + c.M - 1 - l) / c.M) l t.cur,
           locks := t.locks.modify l (fun x => { x with migrated := true }) }

/-- … and the old array dropped (the last lazy step) -/
def migT0 (c : Cfg κ) (t : Table κ ν) (l : Nat) (o : Store κ ν) : Table κ ν :=
  { migT c t l o with rem := 0, old := none }

/-- … and one fewer stripe remaining (any other lazy step) -/
def migTr (c : Cfg κ) (t : Table κ ν) (l : Nat) (o : Store κ ν) : Table κ ν :=
  { migT c t l o with rem := t.rem - 1 }

theorem rehashLock_active (c : Cfg κ) (t : Table κ ν) (l : Nat) (lk : Lock) (o : Store κ ν) (z : Bool)
    (hlk : t.locks[l]? = some lk) (hmig : lk.migrated = false) (hold : t.old = some o) :
    t.rehashLock c l z =
      if z then (if t.rem = 1 then migT0 c t l o else migTr c t l o)
      else migT c t l o := by
  unfold Table.rehashLock
  rw [hlk]
  simp only [hmig, hold]
  cases z <;> simp [migT, migT0, migTr, hold]

theorem rehashLock_skip (c : Cfg κ) (t : Table κ ν) (l : Nat) (z : Bool)
    (h : ∀ lk, t.locks[l]? = some lk → lk.migrated = true ∨ t.old = none) :
    t.rehashLock c l z = t := by
  unfold Table.rehashLock
  cases hlk : t.locks[l]? with
  | none => rfl
  | some lk =>
    simp only []
    rcases h lk hlk with h1 | h1
    · simp [h1]
    · simp [h1]

/-! ### congruence of the live view -/

theorem unmigB_congr (c : Cfg κ) (t t' : Table κ ν) (h : t'.locks = t.locks) (b : Nat) :
    t'.unmigB c b = t.unmigB c b := by
  unfold Table.unmigB; rw [h]

theorem unmigB_false_of_flag (c : Cfg κ) (t : Table κ ν) (b : Nat)
    (h : ∀ lk, t.locks[c.lockInd b]? = some lk → lk.migrated = true) : t.unmigB c b = false := by
  unfold Table.unmigB
  split
  · rename_i lk hlk; simp [h lk hlk]
  · rfl

theorem at_congr (c : Cfg κ) (t t' : Table κ ν) (hc : t'.cur = t.cur) (hl : t'.locks = t.locks)
    (ho : t'.old = t.old) (p : Loc) : t'.at c p = t.at c p := by
  cases p with
  | cur b s => show t'.cur.get _ _ _ = t.cur.get _ _ _; rw [hc]
  | old b s => simp only [Table.at]; rw [ho, unmigB_congr c t t' hl]

theorem at_dropOld (c : Cfg κ) (t t' : Table κ ν) (hc : t'.cur = t.cur) (_hl : t'.locks = t.locks)
    (ho : t'.old = none) (hz : t.nUnmig = 0) (p : Loc) : t'.at c p = t.at c p := by
  cases p with
  | cur b s => show t'.cur.get _ _ _ = t.cur.get _ _ _; rw [hc]
  | old b s =>
    simp only [Table.at]
    rw [ho, ((nUnmig_zero_iff t).mp hz).unmigB (c := c) b]
    cases t.old <;> simp

theorem WInv.of_at_eq (c : Cfg κ) (t t' : Table κ ν) (hw : WInv c t) (hc : t'.cur = t.cur)
    (hl : t'.locks = t.locks) (hm : t'.mhp = t.mhp) (hat : ∀ p, t'.at c p = t.at c p)
    (hp : 0 < t.nUnmig → t'.old = t.old) : WInv c t' := by
  have hhp : t'.hp = t.hp := by unfold Table.hp; rw [hc]
  have hn : t'.nUnmig = t.nUnmig := by unfold Table.nUnmig; rw [hl]
  refine ⟨hw.S_pos, hw.M_pow, by rw [hc]; exact hw.cur_wf, by rw [hl]; exact hw.locks_pow,
    by rw [hl]; exact hw.locks_le, by rw [hl, hhp]; exact hw.locks_ge, ?_, ?_, ?_,
    by rw [hm, hhp]; exact hw.limit⟩
  · intro h
    rw [hn] at h
    rw [hp h, hhp, hl]
    exact hw.pending h
  · intro b s hu
    rw [unmigB_congr c t t' hl] at hu
    rw [hc]; exact hw.unmig_empty b s hu
  · intro p p' sl sl' h1 h2
    rw [hat] at h1 h2
    exact hw.uniq p p' sl sl' h1 h2

theorem live_of_at_eq {c : Cfg κ} {t t' : Table κ ν} (hat : ∀ p, t'.at c p = t.at c p) (sl : Slot κ ν) :
    t'.Live c sl ↔ t.Live c sl := by
  unfold Table.Live; simp only [hat]

/-! ### one migration step, lazy or not -/

theorem migStep_full (c : Cfg κ) (t t1 : Table κ ν) (l : Nat) (lk : Lock) (o : Store κ ν)
    (hw : WInv c t) (hlk : t.locks[l]? = some lk) (hmig : lk.migrated = false) (hold : t.old = some o)
    (hcur : t1.cur = (migT c t l o).cur) (hlocks : t1.locks = (migT c t l o).locks)
    (hold1 : t1.old = t.old ∨ (t1.old = none ∧ t.nUnmig = 1))
    (hmhp : t1.mhp = t.mhp) (hmlf : t1.mlf = t.mlf) (hwk : t1.workers = t.workers) (hrc : t1.rc = t.rc) :
    WInv c t1 ∧ Same c t t1 ∧ Keeps c t t1 ∧ t1.locks.size = t.locks.size ∧
    (∀ lk, t1.locks[l]? = some lk → lk.migrated = true) ∧
    (∀ (i : Nat), (∀ lk : Lock, t.locks[i]? = some lk → lk.migrated = true) →
      ∀ lk : Lock, t1.locks[i]? = some lk → lk.migrated = true) ∧
    t1.nUnmig + 1 = t.nUnmig := by
  obtain ⟨w0, live0, n0, sum0, hp0, un0⟩ :=
    migStep_spec c t (migT c t l o) l lk o hw hlk hmig hold rfl rfl rfl rfl
  have hn : t1.nUnmig = (migT c t l o).nUnmig := by unfold Table.nUnmig; rw [hlocks]
  have hat : ∀ p, t1.at c p = (migT c t l o).at c p := by
    rcases hold1 with h | ⟨h, h1⟩
    · exact at_congr c _ t1 hcur hlocks h
    · exact at_dropOld c _ t1 hcur hlocks h (by omega)
  have w1 : WInv c t1 := by
    refine WInv.of_at_eq c _ t1 w0 hcur hlocks hmhp hat ?_
    intro hp
    rcases hold1 with h | ⟨h, h1⟩
    · exact h
    · omega
  have hml : (migT c t l o).locks = t.locks.modify l (fun x => { x with migrated := true }) := rfl
  refine ⟨w1, ⟨fun sl => (live_of_at_eq hat sl).trans (live0 sl), ?_, hmlf, hmhp, hwk⟩,
    ⟨?_, hrc, ?_, ?_⟩, ?_, ?_, ?_, by omega⟩
  · unfold Table.sumCnt at sum0 ⊢
    rw [hlocks]; exact sum0
  · have : t1.hp = (migT c t l o).hp := by unfold Table.hp; rw [hcur]
    rw [this]; exact hp0
  · intro b hb
    rw [unmigB_congr c _ t1 hlocks, un0]
    split
    · rfl
    · exact hb
  · intro ha
    have := ha l lk hlk
    rw [hmig] at this; cases this
  · rw [hlocks, hml, Array.size_modify]
  · intro lk' h
    rw [hlocks, hml, Array.getElem?_modify, if_pos rfl, hlk] at h
    cases h; rfl
  · intro i hi lk' h
    rw [hlocks, hml, Array.getElem?_modify] at h
    by_cases e : l = i
    · subst e
      rw [if_pos rfl, hlk] at h
      cases h; rfl
    · rw [if_neg e] at h
      exact hi lk' h

theorem rehashLock_step (c : Cfg κ) (t : Table κ ν) (l : Nat) (z : Bool) (hw : WInv c t)
    (hz : z = true → t.rem = t.nUnmig) :
    WInv c (t.rehashLock c l z) ∧ Same c t (t.rehashLock c l z) ∧ Keeps c t (t.rehashLock c l z) ∧
    (t.rehashLock c l z).locks.size = t.locks.size ∧ (t.rehashLock c l z).oldGens = t.oldGens ∧
    (∀ lk, (t.rehashLock c l z).locks[l]? = some lk → lk.migrated = true) ∧
    (∀ (i : Nat), (∀ lk : Lock, t.locks[i]? = some lk → lk.migrated = true) →
      ∀ lk : Lock, (t.rehashLock c l z).locks[i]? = some lk → lk.migrated = true) ∧
    (z = true → (t.rehashLock c l z).rem = (t.rehashLock c l z).nUnmig) := by
  cases hlk : t.locks[l]? with
  | none =>
    rw [rehashLock_skip c t l z (by intro lk h; rw [hlk] at h; cases h)]
    exact ⟨hw, Same.refl c t, Keeps.refl c t, rfl, rfl, (by intro lk h; rw [hlk] at h; cases h),
      fun i h => h, hz⟩
  | some lk =>
    cases hmig : lk.migrated with
    | true =>
      rw [rehashLock_skip c t l z (by intro lk' h; rw [hlk] at h; cases h; exact Or.inl hmig)]
      exact ⟨hw, Same.refl c t, Keeps.refl c t, rfl, rfl,
        (by intro lk' h; rw [hlk] at h; cases h; exact hmig), fun i h => h, hz⟩
    | false =>
      obtain ⟨o, hold, _⟩ := hw.pending (nUnmig_pos_of t l lk hlk hmig)
      rw [rehashLock_active c t l lk o z hlk hmig hold]
      cases z with
      | false =>
        simp only [Bool.false_eq_true, if_false]
        obtain ⟨a1, a2, a3, a4, a5, a6, _⟩ :=
          migStep_full c t (migT c t l o) l lk o hw hlk hmig hold rfl rfl (Or.inl rfl) rfl rfl rfl rfl
        exact ⟨a1, a2, a3, a4, rfl, a5, a6, fun h => by cases h⟩
      | true =>
        simp only [if_true]
        have hr := hz rfl
        by_cases h1 : t.rem = 1
        · rw [if_pos h1]
          obtain ⟨a1, a2, a3, a4, a5, a6, a7⟩ :=
            migStep_full c t (migT0 c t l o) l lk o hw hlk hmig hold rfl rfl
              (Or.inr ⟨rfl, by omega⟩) rfl rfl rfl rfl
          refine ⟨a1, a2, a3, a4, rfl, a5, a6, fun _ => ?_⟩
          show 0 = (migT0 c t l o).nUnmig
          omega
        · rw [if_neg h1]
          obtain ⟨a1, a2, a3, a4, a5, a6, a7⟩ :=
            migStep_full c t (migTr c t l o) l lk o hw hlk hmig hold rfl rfl
              (Or.inl rfl) rfl rfl rfl rfl
          refine ⟨a1, a2, a3, a4, rfl, a5, a6, fun _ => ?_⟩
          show t.rem - 1 = (migTr c t l o).nUnmig
          omega

/-- taking stripe `l` (lazily migrating it) -/
theorem rehashLock_lazy_spec (c : Cfg κ) (t : Table κ ν) (l : Nat) (h : Inv c t) :
    Inv c (t.rehashLock c l true) ∧ Same c t (t.rehashLock c l true) ∧ Keeps c t (t.rehashLock c l true) ∧
    (t.rehashLock c l true).locks.size = t.locks.size ∧
    (t.rehashLock c l true).oldGens = t.oldGens ∧
    (∀ lk, (t.rehashLock c l true).locks[l]? = some lk → lk.migrated = true) := by
  obtain ⟨a1, a2, a3, a4, a5, a6, _, a8⟩ := rehashLock_step c t l true h.toW (fun _ => h.rem_eq)
  exact ⟨a1.toInv (a8 rfl), a2, a3, a4, a5, a6⟩
theorem rehash2_spec (c : Cfg κ) (t : Table κ ν) (la lb : Nat) (h : Inv c t) :
    Inv c ((t.rehashLock c la true).rehashLock c lb true) ∧
    Same c t ((t.rehashLock c la true).rehashLock c lb true) ∧
    Keeps c t ((t.rehashLock c la true).rehashLock c lb true) ∧
    (∀ b, c.lockInd b = la ∨ c.lockInd b = lb →
      ((t.rehashLock c la true).rehashLock c lb true).unmigB c b = false) := by
  obtain ⟨a1, a2, a3, _, _, a6⟩ := rehashLock_lazy_spec c t la h
  obtain ⟨b1, b2, b3, _, _, b6⟩ := rehashLock_lazy_spec c (t.rehashLock c la true) lb a1
  refine ⟨b1, a2.trans b2, a3.trans b3, ?_⟩
  intro b hb
  rcases hb with e | e
  · apply b3.mono
    exact unmigB_false_of_flag c _ b (by rw [e]; exact a6)
  · exact unmigB_false_of_flag c _ b (by rw [e]; exact b6)

theorem rehash3_spec (c : Cfg κ) (t : Table κ ν) (la lb lc : Nat) (h : Inv c t) :
    Inv c (((t.rehashLock c la true).rehashLock c lb true).rehashLock c lc true) ∧
    Same c t (((t.rehashLock c la true).rehashLock c lb true).rehashLock c lc true) ∧
    Keeps c t (((t.rehashLock c la true).rehashLock c lb true).rehashLock c lc true) ∧
    (∀ b, c.lockInd b = la ∨ c.lockInd b = lb ∨ c.lockInd b = lc →
      (((t.rehashLock c la true).rehashLock c lb true).rehashLock c lc true).unmigB c b = false) := by
  obtain ⟨a1, a2, a3, a4⟩ := rehash2_spec c t la lb h
  obtain ⟨b1, b2, b3, _, _, b6⟩ :=
    rehashLock_lazy_spec c ((t.rehashLock c la true).rehashLock c lb true) lc a1
  refine ⟨b1, a2.trans b2, a3.trans b3, ?_⟩
  intro b hb
  rcases hb with e | e | e
  · exact b3.mono b (a4 b (Or.inl e))
  · exact b3.mono b (a4 b (Or.inr e))
  · exact unmigB_false_of_flag c _ b (by rw [e]; exact b6)

theorem lockThree_eq (c : Cfg κ) (t : Table κ ν) (b1 b2 b3 : Nat) :
    ∃ la lb lc, t.lockThree c b1 b2 b3 =
        ((t.rehashLock c la true).rehashLock c lb true).rehashLock c lc true ∧
      (c.lockInd b1 = la ∨ c.lockInd b1 = lb ∨ c.lockInd b1 = lc) ∧
      (c.lockInd b2 = la ∨ c.lockInd b2 = lb ∨ c.lockInd b2 = lc) ∧
      (c.lockInd b3 = la ∨ c.lockInd b3 = lb ∨ c.lockInd b3 = lc) := by
  unfold Table.lockThree
  simp only []
  generalize c.lockInd b1 = x
  generalize c.lockInd b2 = y
  generalize c.lockInd b3 = z
  by_cases h1 : z < y <;> simp only [h1, if_true, if_false]
  · by_cases h2 : y < x <;> simp only [h2, if_true, if_false]
    · by_cases h3 : z < y <;> simp only [h3, if_true, if_false]
      · exact ⟨_, _, _, rfl, by simp, by simp, by simp⟩
      · exact ⟨_, _, _, rfl, by simp, by simp, by simp⟩
    · by_cases h3 : z < x <;> simp only [h3, if_true, if_false]
      · exact ⟨_, _, _, rfl, by simp, by simp, by simp⟩
      · exact ⟨_, _, _, rfl, by simp, by simp, by simp⟩
  · by_cases h2 : z < x <;> simp only [h2, if_true, if_false]
    · by_cases h3 : y < z <;> simp only [h3, if_true, if_false]
      · exact ⟨_, _, _, rfl, by simp, by simp, by simp⟩
      · exact ⟨_, _, _, rfl, by simp, by simp, by simp⟩
    · by_cases h3 : y < x <;> simp only [h3, if_true, if_false]
      · exact ⟨_, _, _, rfl, by simp, by simp, by simp⟩
      · exact ⟨_, _, _, rfl, by simp, by simp, by simp⟩

theorem lockTwo_eq (c : Cfg κ) (t : Table κ ν) (b1 b2 : Nat) :
    ∃ la lb, t.lockTwo c b1 b2 = (t.rehashLock c la true).rehashLock c lb true ∧
      (c.lockInd b1 = la ∨ c.lockInd b1 = lb) ∧ (c.lockInd b2 = la ∨ c.lockInd b2 = lb) := by
  unfold Table.lockTwo
  simp only []
  generalize c.lockInd b1 = x
  generalize c.lockInd b2 = y
  by_cases h1 : y < x <;> simp only [h1, if_true, if_false]
  · exact ⟨_, _, rfl, by simp, by simp⟩
  · exact ⟨_, _, rfl, by simp, by simp⟩

theorem lockOne_spec (c : Cfg κ) (t : Table κ ν) (b : Nat) (h : Inv c t) :
    Inv c (t.lockOne c b) ∧ Same c t (t.lockOne c b) ∧ Keeps c t (t.lockOne c b) ∧
    (t.lockOne c b).unmigB c b = false := by
  obtain ⟨a1, a2, a3, _, _, a6⟩ := rehashLock_lazy_spec c t (c.lockInd b) h
  exact ⟨a1, a2, a3, unmigB_false_of_flag c _ b a6⟩

theorem lockTwo_spec (c : Cfg κ) (t : Table κ ν) (b1 b2 : Nat) (h : Inv c t) :
    Inv c (t.lockTwo c b1 b2) ∧ Same c t (t.lockTwo c b1 b2) ∧ Keeps c t (t.lockTwo c b1 b2) ∧
    (t.lockTwo c b1 b2).unmigB c b1 = false ∧ (t.lockTwo c b1 b2).unmigB c b2 = false := by
  obtain ⟨la, lb, e, h1, h2⟩ := lockTwo_eq c t b1 b2
  rw [e]
  obtain ⟨a1, a2, a3, a4⟩ := rehash2_spec c t la lb h
  exact ⟨a1, a2, a3, a4 b1 h1, a4 b2 h2⟩

theorem lockThree_spec (c : Cfg κ) (t : Table κ ν) (b1 b2 b3 : Nat) (h : Inv c t) :
    Inv c (t.lockThree c b1 b2 b3) ∧ Same c t (t.lockThree c b1 b2 b3) ∧ Keeps c t (t.lockThree c b1 b2 b3) ∧
    (t.lockThree c b1 b2 b3).unmigB c b1 = false ∧ (t.lockThree c b1 b2 b3).unmigB c b2 = false ∧
    (t.lockThree c b1 b2 b3).unmigB c b3 = false := by
  obtain ⟨la, lb, lc, e, h1, h2, h3⟩ := lockThree_eq c t b1 b2 b3
  rw [e]
  obtain ⟨a1, a2, a3, a4⟩ := rehash3_spec c t la lb lc h
  exact ⟨a1, a2, a3, a4 b1 h1, a4 b2 h2, a4 b3 h3⟩

/-- the mode-dispatching variants: in locked mode nothing happens and everything is migrated already -/
theorem lockOneM_spec (c : Cfg κ) (locked : Bool) (t : Table κ ν) (b : Nat) (h : Inv c t)
    (hl : locked = true → AllMig t) :
    Inv c (t.lockOneM c locked b) ∧ Same c t (t.lockOneM c locked b) ∧ Keeps c t (t.lockOneM c locked b) ∧
    (t.lockOneM c locked b).unmigB c b = false := by
  unfold Table.lockOneM
  cases locked with
  | true => exact ⟨h, Same.refl c t, Keeps.refl c t, (hl rfl).unmigB b⟩
  | false => exact lockOne_spec c t b h

theorem lockTwoM_spec (c : Cfg κ) (locked : Bool) (t : Table κ ν) (b1 b2 : Nat) (h : Inv c t)
    (hl : locked = true → AllMig t) :
    Inv c (t.lockTwoM c locked b1 b2) ∧ Same c t (t.lockTwoM c locked b1 b2) ∧ Keeps c t (t.lockTwoM c locked b1 b2) ∧
    (t.lockTwoM c locked b1 b2).unmigB c b1 = false ∧ (t.lockTwoM c locked b1 b2).unmigB c b2 = false := by
  unfold Table.lockTwoM
  cases locked with
  | true => exact ⟨h, Same.refl c t, Keeps.refl c t, (hl rfl).unmigB b1, (hl rfl).unmigB b2⟩
  | false => exact lockTwo_spec c t b1 b2 h

theorem lockThreeM_spec (c : Cfg κ) (locked : Bool) (t : Table κ ν) (b1 b2 b3 : Nat) (h : Inv c t)
    (hl : locked = true → AllMig t) :
    Inv c (t.lockThreeM c locked b1 b2 b3) ∧ Same c t (t.lockThreeM c locked b1 b2 b3) ∧
    Keeps c t (t.lockThreeM c locked b1 b2 b3) ∧
    (t.lockThreeM c locked b1 b2 b3).unmigB c b1 = false ∧ (t.lockThreeM c locked b1 b2 b3).unmigB c b2 = false ∧
    (t.lockThreeM c locked b1 b2 b3).unmigB c b3 = false := by
  unfold Table.lockThreeM
  cases locked with
  | true =>
    exact ⟨h, Same.refl c t, Keeps.refl c t, (hl rfl).unmigB b1, (hl rfl).unmigB b2, (hl rfl).unmigB b3⟩
  | false => exact lockThree_spec c t b1 b2 b3 h
theorem migrateAll_go_spec (c : Cfg κ) : ∀ (n l : Nat) (t : Table κ ν), WInv c t →
    (∀ i, i < l → ∀ lk, t.locks[i]? = some lk → lk.migrated = true) → l + n = t.locks.size →
    WInv c (Table.migrateAll.go c n l t) ∧ Same c t (Table.migrateAll.go c n l t) ∧
    (Table.migrateAll.go c n l t).hp = t.hp ∧ (Table.migrateAll.go c n l t).rc = t.rc ∧
    AllMig (Table.migrateAll.go c n l t) ∧ (Table.migrateAll.go c n l t).locks.size = t.locks.size ∧
    (Table.migrateAll.go c n l t).oldGens = t.oldGens := by
  intro n
  induction n with
  | zero =>
    intro l t hw hf hsz
    unfold Table.migrateAll.go
    refine ⟨hw, Same.refl c t, rfl, rfl, ?_, rfl, rfl⟩
    intro i lk hi
    have : i < t.locks.size := (Array.getElem?_eq_some_iff.mp hi).1
    exact hf i (by omega) lk hi
  | succ n ih =>
    intro l t hw hf hsz
    unfold Table.migrateAll.go
    obtain ⟨a1, a2, a3, a4, a5, a6, a7, _⟩ := rehashLock_step c t l false hw (fun h => by cases h)
    obtain ⟨b1, b2, b3, b4, b5, b6, b7⟩ := ih (l + 1) (t.rehashLock c l false) a1
      (by
        intro i hi lk hlk
        rcases Nat.lt_or_ge i l with h | h
        · exact a7 i (hf i h) lk hlk
        · have : i = l := by omega
          subst this
          exact a6 lk hlk)
      (by rw [a4]; omega)
    exact ⟨b1, a2.trans b2, b3.trans a3.hp, b4.trans a3.rc, b5, b6.trans a4, b7.trans a5⟩

/-- finishing every pending migration (`rehash_with_workers`, the loop of `cuckoo_fast_double`) -/
theorem migrateAll_spec (c : Cfg κ) (t : Table κ ν) (h : Inv c t) :
    Inv c (t.migrateAll c) ∧ Same c t (t.migrateAll c) ∧ (t.migrateAll c).hp = t.hp ∧ (t.migrateAll c).rc = t.rc ∧
    AllMig (t.migrateAll c) ∧ (t.migrateAll c).rem = 0 ∧ (t.migrateAll c).old = none ∧
    (t.migrateAll c).locks.size = t.locks.size ∧ (t.migrateAll c).oldGens = t.oldGens := by
  obtain ⟨a1, a2, a3, a4, a5, a6, a7⟩ := migrateAll_go_spec c t.locks.size 0 t h.toW
    (fun i hi => by omega) (by omega)
  have e : t.migrateAll c =
      { Table.migrateAll.go c t.locks.size 0 t with rem := 0, old := none } := by
    unfold Table.migrateAll Table.setRem
    simp
  rw [e]
  have hz : (Table.migrateAll.go c t.locks.size 0 t).nUnmig = 0 := (nUnmig_zero_iff _).mpr a5
  have hat := at_dropOld c (Table.migrateAll.go c t.locks.size 0 t)
    { Table.migrateAll.go c t.locks.size 0 t with rem := 0, old := none } rfl rfl rfl hz
  have w := WInv.of_at_eq c _ { Table.migrateAll.go c t.locks.size 0 t with rem := 0, old := none }
    a1 rfl rfl rfl hat (fun hp => by omega)
  refine ⟨w.toInv ?_, ⟨fun sl => (live_of_at_eq hat sl).trans (a2.live sl), a2.sum, a2.mlf, a2.mhp, a2.workers⟩,
    a3, a4, a5, rfl, rfl, a6, a7⟩
  show 0 = _
  exact hz.symm

end Cuckoo.Model
