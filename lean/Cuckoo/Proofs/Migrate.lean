import Cuckoo.Proofs.Defs
/-!
Chunk A — lazy and batch migration (`move_bucket`, `rehash_lock`, `lock_one/two/three`,
`rehash_with_workers`) preserve the invariant and the live view.  Helper lemmas only.
-/
namespace Cuckoo.Model
open Cuckoo
variable {κ ν : Type}

/-- splitting one old bucket `b` into buckets `b` and `b + 2^old.hp` of the (so far empty there) current
array: the same slots, each in a candidate bucket of the doubled table, nothing else touched -/
theorem moveBucket_spec (c : Cfg κ) (old cur : Store κ ν) (b : Nat) (hS : 0 < c.S) (ho : old.WF c)
    (hsz : cur.cells.size = 2 ^ cur.hp * c.S) (hhp : cur.hp = old.hp + 1) (hb : b < 2 ^ old.hp)
    (he1 : ∀ s, cur.get c.S b s = none) (he2 : ∀ s, cur.get c.S (b + 2 ^ old.hp) s = none) :
    (moveBucket c old cur b).hp = cur.hp ∧ (moveBucket c old cur b).cells.size = cur.cells.size ∧
    (∀ b' s, b' ≠ b → b' ≠ b + 2 ^ old.hp → (moveBucket c old cur b).get c.S b' s = cur.get c.S b' s) ∧
    (∀ sl, (∃ s, old.get c.S b s = some sl) ↔
      (∃ s, (moveBucket c old cur b).get c.S b s = some sl ∨
            (moveBucket c old cur b).get c.S (b + 2 ^ old.hp) s = some sl)) ∧
    (∀ b' s sl, (b' = b ∨ b' = b + 2 ^ old.hp) → (moveBucket c old cur b).get c.S b' s = some sl →
      sl.tag = c.tag sl.key ∧ (b' = c.i1 cur.hp sl.key ∨ b' = c.i2 cur.hp sl.key)) ∧
    ((∀ s s' sl sl', old.get c.S b s = some sl → old.get c.S b s' = some sl' → sl.key = sl'.key → s = s') →
      ∀ b1 s1 b2 s2 sl sl', (b1 = b ∨ b1 = b + 2 ^ old.hp) → (b2 = b ∨ b2 = b + 2 ^ old.hp) →
        (moveBucket c old cur b).get c.S b1 s1 = some sl → (moveBucket c old cur b).get c.S b2 s2 = some sl' →
        sl.key = sl'.key → b1 = b2 ∧ s1 = s2) := by
  sorry

/-- taking stripe `l` (lazily migrating it) -/
theorem rehashLock_lazy_spec (c : Cfg κ) (t : Table κ ν) (l : Nat) (h : Inv c t) :
    Inv c (t.rehashLock c l true) ∧ Same c t (t.rehashLock c l true) ∧ Keeps c t (t.rehashLock c l true) ∧
    (t.rehashLock c l true).locks.size = t.locks.size ∧
    (t.rehashLock c l true).oldGens = t.oldGens ∧
    (∀ lk, (t.rehashLock c l true).locks[l]? = some lk → lk.migrated = true) := by
  sorry

theorem lockOne_spec (c : Cfg κ) (t : Table κ ν) (b : Nat) (h : Inv c t) :
    Inv c (t.lockOne c b) ∧ Same c t (t.lockOne c b) ∧ Keeps c t (t.lockOne c b) ∧
    (t.lockOne c b).unmigB c b = false := by
  sorry

theorem lockTwo_spec (c : Cfg κ) (t : Table κ ν) (b1 b2 : Nat) (h : Inv c t) :
    Inv c (t.lockTwo c b1 b2) ∧ Same c t (t.lockTwo c b1 b2) ∧ Keeps c t (t.lockTwo c b1 b2) ∧
    (t.lockTwo c b1 b2).unmigB c b1 = false ∧ (t.lockTwo c b1 b2).unmigB c b2 = false := by
  sorry

theorem lockThree_spec (c : Cfg κ) (t : Table κ ν) (b1 b2 b3 : Nat) (h : Inv c t) :
    Inv c (t.lockThree c b1 b2 b3) ∧ Same c t (t.lockThree c b1 b2 b3) ∧ Keeps c t (t.lockThree c b1 b2 b3) ∧
    (t.lockThree c b1 b2 b3).unmigB c b1 = false ∧ (t.lockThree c b1 b2 b3).unmigB c b2 = false ∧
    (t.lockThree c b1 b2 b3).unmigB c b3 = false := by
  sorry

/-- the mode-dispatching variants: in locked mode nothing happens and everything is migrated already -/
theorem lockOneM_spec (c : Cfg κ) (locked : Bool) (t : Table κ ν) (b : Nat) (h : Inv c t)
    (hl : locked = true → AllMig t) :
    Inv c (t.lockOneM c locked b) ∧ Same c t (t.lockOneM c locked b) ∧ Keeps c t (t.lockOneM c locked b) ∧
    (t.lockOneM c locked b).unmigB c b = false := by
  sorry

theorem lockTwoM_spec (c : Cfg κ) (locked : Bool) (t : Table κ ν) (b1 b2 : Nat) (h : Inv c t)
    (hl : locked = true → AllMig t) :
    Inv c (t.lockTwoM c locked b1 b2) ∧ Same c t (t.lockTwoM c locked b1 b2) ∧ Keeps c t (t.lockTwoM c locked b1 b2) ∧
    (t.lockTwoM c locked b1 b2).unmigB c b1 = false ∧ (t.lockTwoM c locked b1 b2).unmigB c b2 = false := by
  sorry

theorem lockThreeM_spec (c : Cfg κ) (locked : Bool) (t : Table κ ν) (b1 b2 b3 : Nat) (h : Inv c t)
    (hl : locked = true → AllMig t) :
    Inv c (t.lockThreeM c locked b1 b2 b3) ∧ Same c t (t.lockThreeM c locked b1 b2 b3) ∧
    Keeps c t (t.lockThreeM c locked b1 b2 b3) ∧
    (t.lockThreeM c locked b1 b2 b3).unmigB c b1 = false ∧ (t.lockThreeM c locked b1 b2 b3).unmigB c b2 = false ∧
    (t.lockThreeM c locked b1 b2 b3).unmigB c b3 = false := by
  sorry

/-- finishing every pending migration (`rehash_with_workers`, the loop of `cuckoo_fast_double`) -/
theorem migrateAll_spec (c : Cfg κ) (t : Table κ ν) (h : Inv c t) :
    Inv c (t.migrateAll c) ∧ Same c t (t.migrateAll c) ∧ (t.migrateAll c).hp = t.hp ∧ (t.migrateAll c).rc = t.rc ∧
    AllMig (t.migrateAll c) ∧ (t.migrateAll c).rem = 0 ∧ (t.migrateAll c).old = none ∧
    (t.migrateAll c).locks.size = t.locks.size ∧ (t.migrateAll c).oldGens = t.oldGens := by
  sorry

end Cuckoo.Model
