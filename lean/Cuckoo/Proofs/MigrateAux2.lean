import Cuckoo.Proofs.MigrateAux1
/-!
Chunk A, part 2 — `migrateBuckets` (all buckets of one stripe) and small list/array lemmas about the
lock array.
-/
namespace Cuckoo.Model
open Cuckoo
variable {κ ν : Type}

/-- what `moveBucket` guarantees about old bucket `b`, as seen in a later store `R` -/
def MoveFacts (c : Cfg κ) (o : Store κ ν) (hp b : Nat) (R : Store κ ν) : Prop :=
  (∀ sl, (∃ s, o.get c.S b s = some sl) ↔
      (∃ s, R.get c.S b s = some sl ∨ R.get c.S (b + 2 ^ o.hp) s = some sl)) ∧
  (∀ b' s sl, (b' = b ∨ b' = b + 2 ^ o.hp) → R.get c.S b' s = some sl →
      sl.tag = c.tag sl.key ∧ (b' = c.i1 hp sl.key ∨ b' = c.i2 hp sl.key)) ∧
  ((∀ s s' sl sl', o.get c.S b s = some sl → o.get c.S b s' = some sl' → sl.key = sl'.key → s = s') →
      ∀ b1 s1 b2 s2 sl sl', (b1 = b ∨ b1 = b + 2 ^ o.hp) → (b2 = b ∨ b2 = b + 2 ^ o.hp) →
        R.get c.S b1 s1 = some sl → R.get c.S b2 s2 = some sl' →
        sl.key = sl'.key → b1 = b2 ∧ s1 = s2)

theorem MoveFacts.congr {c : Cfg κ} {o : Store κ ν} {hp b : Nat} {R R' : Store κ ν}
    (h1 : ∀ s, R'.get c.S b s = R.get c.S b s)
    (h2 : ∀ s, R'.get c.S (b + 2 ^ o.hp) s = R.get c.S (b + 2 ^ o.hp) s)
    (h : MoveFacts c o hp b R) : MoveFacts c o hp b R' := by
  have key : ∀ b' s, (b' = b ∨ b' = b + 2 ^ o.hp) → R'.get c.S b' s = R.get c.S b' s := by
    intro b' s hb'
    rcases hb' with e | e <;> subst e
    · exact h1 s
    · exact h2 s
  obtain ⟨a1, a2, a3⟩ := h
  refine ⟨?_, ?_, ?_⟩
  · intro sl
    rw [a1 sl]
    constructor
    · rintro ⟨s, hs⟩; refine ⟨s, ?_⟩; rw [h1, h2]; exact hs
    · rintro ⟨s, hs⟩; refine ⟨s, ?_⟩; rw [h1, h2] at hs; exact hs
  · intro b' s sl hb' hg
    rw [key b' s hb'] at hg
    exact a2 b' s sl hb' hg
  · intro hu b1 s1 b2 s2 sl sl' hb1 hb2 hg1 hg2 hk
    rw [key b1 s1 hb1] at hg1
    rw [key b2 s2 hb2] at hg2
    exact a3 hu b1 s1 b2 s2 sl sl' hb1 hb2 hg1 hg2 hk

theorem migrateBuckets_spec (c : Cfg κ) (o : Store κ ν) (l : Nat) (hS : 0 < c.S) (ho : o.WF c)
    (hM : 0 < c.M) :
    ∀ (n b : Nat) (cur : Store κ ν), cur.cells.size = 2 ^ cur.hp * c.S → cur.hp = o.hp + 1 →
      (∀ i, i < n → b + i * c.M < 2 ^ o.hp) →
      (∀ i s, i < n → cur.get c.S (b + i * c.M) s = none ∧ cur.get c.S (b + i * c.M + 2 ^ o.hp) s = none) →
      (migrateBuckets c o l n b cur).hp = cur.hp ∧
      (migrateBuckets c o l n b cur).cells.size = cur.cells.size ∧
      (∀ b' s, (∀ i, i < n → b' ≠ b + i * c.M ∧ b' ≠ b + i * c.M + 2 ^ o.hp) →
        (migrateBuckets c o l n b cur).get c.S b' s = cur.get c.S b' s) ∧
      (∀ i, i < n → MoveFacts c o cur.hp (b + i * c.M) (migrateBuckets c o l n b cur)) := by
  intro n
  induction n with
  | zero =>
    intro b cur _ _ _ _
    unfold migrateBuckets
    exact ⟨rfl, rfl, fun _ _ _ => rfl, fun i hi => by omega⟩
  | succ n ih =>
    intro b cur hsz hhp hbd hemp
    unfold migrateBuckets
    have hb0 : b < 2 ^ o.hp := by have := hbd 0 (by omega); simpa using this
    have he1 : ∀ s, cur.get c.S b s = none := fun s => by
      have := (hemp 0 s (by omega)).1; simpa using this
    have he2 : ∀ s, cur.get c.S (b + 2 ^ o.hp) s = none := fun s => by
      have := (hemp 0 s (by omega)).2; simpa using this
    obtain ⟨f1, f2, f3, f4, f5, f6⟩ := moveBucket_facts c o cur b hS ho hsz hhp hb0 he1 he2
    have hbd' : ∀ i, i < n → b + c.M + i * c.M < 2 ^ o.hp := by
      intro i hi
      have := hbd (i + 1) (by omega)
      rw [Nat.succ_mul] at this
      omega
    have IH := ih (b + c.M) (moveBucket c o cur b) (by rw [f1, f2]; exact hsz) (by rw [f1]; exact hhp) hbd'
      (by
        intro i s hi
        have h1 := hbd' i hi
        have h2 := hemp (i + 1) s (by omega)
        rw [Nat.succ_mul] at h2
        rw [f3 _ _ (by omega) (by omega), f3 _ _ (by omega) (by omega)]
        have e1 : b + c.M + i * c.M = b + (i * c.M + c.M) := by omega
        rw [e1]
        exact h2)
    obtain ⟨g1, g2, g3, g4⟩ := IH
    refine ⟨by rw [g1, f1], by rw [g2, f2], ?_, ?_⟩
    · intro b' s hne
      have hne0 := hne 0 (by omega)
      simp only [Nat.zero_mul, Nat.add_zero] at hne0
      rw [g3 b' s, f3 b' s hne0.1 hne0.2]
      intro i hi
      have := hne (i + 1) (by omega)
      rw [Nat.succ_mul] at this
      have e1 : b + c.M + i * c.M = b + (i * c.M + c.M) := by omega
      rw [e1]
      exact this
    · intro i hi
      cases i with
      | zero =>
        simp only [Nat.zero_mul, Nat.add_zero]
        have hmf : MoveFacts c o cur.hp b (moveBucket c o cur b) := ⟨f4, f5, f6⟩
        refine MoveFacts.congr ?_ ?_ hmf
        · intro s
          apply g3
          intro i hi'
          have := hbd' i hi'
          omega
        · intro s
          apply g3
          intro i hi'
          have := hbd' i hi'
          omega
      | succ i =>
        have := g4 i (by omega)
        rw [f1] at this
        rw [Nat.succ_mul]
        have e1 : b + c.M + i * c.M = b + (i * c.M + c.M) := by omega
        rw [e1] at this
        exact this

/-! ### the lock array -/

theorem filter_modify_len (xs : List Lock) (l : Nat) (lk : Lock) (h : xs[l]? = some lk)
    (hm : lk.migrated = false) :
    ((xs.modify l (fun x => { x with migrated := true })).filter (fun l => !l.migrated)).length + 1 =
      (xs.filter (fun l => !l.migrated)).length := by
  induction xs generalizing l with
  | nil => simp at h
  | cons a xs ih =>
    cases l with
    | zero =>
      simp only [List.getElem?_cons_zero, Option.some.injEq] at h
      subst h
      simp [List.modify_cons, hm]
    | succ l =>
      simp only [List.getElem?_cons_succ] at h
      have := ih l h
      simp only [List.modify_succ_cons, List.filter_cons]
      split
      · simp only [List.length_cons]; omega
      · omega

theorem foldl_modify_cnt (xs : List Lock) (l : Nat) (f : Lock → Lock) (hf : ∀ x, (f x).cnt = x.cnt)
    (init : Int) :
    (xs.modify l f).foldl (fun s l => s + l.cnt) init = xs.foldl (fun s l => s + l.cnt) init := by
  induction xs generalizing l init with
  | nil => simp
  | cons a xs ih =>
    cases l with
    | zero => simp [List.modify_cons, hf]
    | succ l => simp only [List.modify_succ_cons, List.foldl_cons]; exact ih l _

theorem sumCnt_modify (t : Table κ ν) (ls : Array Lock) (l : Nat) (f : Lock → Lock)
    (hf : ∀ x, (f x).cnt = x.cnt) (h : ls = t.locks.modify l f) :
    ({ t with locks := ls } : Table κ ν).sumCnt = t.sumCnt := by
  subst h
  unfold Table.sumCnt
  simp only []
  rw [← Array.foldl_toList, ← Array.foldl_toList, Array.toList_modify]
  exact foldl_modify_cnt _ _ _ hf _

theorem nUnmig_zero_iff (t : Table κ ν) : t.nUnmig = 0 ↔ AllMig t := by
  unfold Table.nUnmig AllMig
  rw [List.length_eq_zero_iff, List.filter_eq_nil_iff]
  constructor
  · intro h i lk hi
    have hmem : lk ∈ t.locks.toList := by
      rw [List.mem_iff_getElem?]
      exact ⟨i, by rw [Array.getElem?_toList]; exact hi⟩
    have := h lk hmem
    simpa using this
  · intro h a ha
    rw [List.mem_iff_getElem?] at ha
    obtain ⟨i, hi⟩ := ha
    rw [Array.getElem?_toList] at hi
    simp [h i a hi]

theorem nUnmig_pos_of (t : Table κ ν) (l : Nat) (lk : Lock) (h : t.locks[l]? = some lk)
    (hm : lk.migrated = false) : 0 < t.nUnmig := by
  apply Nat.pos_of_ne_zero
  intro h0
  have := (nUnmig_zero_iff t).mp h0 l lk h
  rw [hm] at this
  cases this

end Cuckoo.Model
