import Cuckoo.Proofs.ProtoInvBase
/-!
Pure order facts about `LockId` used for deadlock freedom (C04).
-/
namespace Cuckoo.Proto

/-- a non-empty list has an element whose image is maximal -/
theorem exists_maximal (f : Tid → LockId) : ∀ (L : List Tid), L ≠ [] → ∃ t₀ ∈ L, ∀ t ∈ L, ¬ f t₀ < f t := by
  intro L
  induction L with
  | nil => intro h; exact absurd rfl h
  | cons a rest ih =>
    intro _
    by_cases hr : rest = []
    · subst hr
      refine ⟨a, List.mem_cons_self .., ?_⟩
      intro t ht
      rw [List.mem_singleton.1 ht]; exact LockId.lt_irrefl _
    · obtain ⟨t₀, ht₀, hmax⟩ := ih hr
      by_cases hlt : f t₀ < f a
      · refine ⟨a, List.mem_cons_self .., ?_⟩
        intro t ht
        rcases List.mem_cons.1 ht with rfl | ht
        · exact LockId.lt_irrefl _
        · intro hat; exact hmax t ht (LockId.lt_trans hlt hat)
      · refine ⟨t₀, List.mem_cons_of_mem _ ht₀, ?_⟩
        intro t ht
        rcases List.mem_cons.1 ht with rfl | ht
        · exact hlt
        · exact hmax t ht

/-- a strictly increasing sequence never returns to its start -/
theorem chain_lt (w : Nat → LockId) (hw : ∀ i, w i < w (i + 1)) : ∀ k, w 0 < w (k + 1) := by
  intro k
  induction k with
  | zero => exact hw 0
  | succ k ih => exact LockId.lt_trans ih (hw (k + 1))

end Cuckoo.Proto
