import Cuckoo.Proofs.CommAux4
/-!
Helper lemmas for `Props/C03Comm`: read footprint of the last section of a displacing insertion, and the assembly of
a table equality from the equalities of its parts.
-/
namespace Cuckoo.Model
open Cuckoo Cuckoo.Model.Conc Cuckoo.Model.ConcA
variable {κ ν : Type}

section
variable [DecidableEq κ]

theorem rf_insertLastSec_none (c : Cfg κ) (hpS rcS : Nat) (k : κ) (v : ν) (ca me : Bool) (fn : Ctx → ν → FnOut ν)
    (fr : PathRec) (t u : Table κ ν) (ht : Inv c t) (hu : Inv c u) (ha : AgreeOn c (lastStripes c hpS k none) t u) :
    (insertLastSec c hpS rcS k v ca me fn fr none u).2 = (insertLastSec c hpS rcS k v ca me fn fr none t).2 ∧
    Transp c (lastStripes c hpS k none) t u (insertLastSec c hpS rcS k v ca me fn fr none t).1
      (insertLastSec c hpS rcS k v ca me fn fr none u).1 := by
  have h1 : c.lockInd (c.i1 hpS k) ∈ lastStripes c hpS k none := by simp [lastStripes]
  have h2 : c.lockInd (c.i2 hpS k) ∈ lastStripes c hpS k none := by simp [lastStripes]
  have a := lockTwo_transp c (lastStripes c hpS k none) t u (c.i1 hpS k) (c.i2 hpS k) h1 h2 ht hu ha
  rw [insertLastSec_none_eq, insertLastSec_none_eq, valid_congr a.agree hpS rcS]
  generalize t.lockTwo c (c.i1 hpS k) (c.i2 hpS k) = t1 at *
  generalize u.lockTwo c (c.i1 hpS k) (c.i2 hpS k) = u1 at *
  by_cases hg : (!(valid t1 hpS rcS && (fr.bucket == c.i1 hpS k || fr.bucket == c.i2 hpS k) &&
      decide (fr.slot < c.S))) = true
  · rw [if_pos hg, if_pos hg]
    exact ⟨rfl, a⟩
  · rw [if_neg hg, if_neg hg]
    simp only [Bool.not_eq_true', Bool.not_eq_false, Bool.and_eq_true, Bool.or_eq_true, beq_iff_eq,
      decide_eq_true_eq] at hg
    obtain ⟨⟨_, hb⟩, hs⟩ := hg
    have hfb : c.lockInd fr.bucket ∈ lastStripes c hpS k none := by
      rcases hb with e | e <;> rw [e] <;> assumption
    have hocc : u1.cur.occ c.S fr.bucket fr.slot = t1.cur.occ c.S fr.bucket fr.slot := by
      unfold Store.occ
      rw [a.agree.cells _ _ hfb]
    rw [hocc]
    by_cases ho : t1.cur.occ c.S fr.bucket fr.slot = true
    · rw [if_pos ho, if_pos ho]
      exact ⟨rfl, a⟩
    · rw [if_neg ho, if_neg ho]
      obtain ⟨r1, r2⟩ := agree_lastTail c _ t1 u1 hpS k v ca me fn fr h1 h2 hb hs a.agree
      obtain ⟨p1, p2⟩ := lastTail_ro c t1 hpS k v ca me fn fr
      obtain ⟨q1, q2⟩ := lastTail_ro c u1 hpS k v ca me fn fr
      exact ⟨r1, a.post r2 p1 p2 q1 q2⟩

theorem rf_insertLastSec_some (c : Cfg κ) (hpS rcS : Nat) (k : κ) (v : ν) (ca me : Bool) (fn : Ctx → ν → FnOut ν)
    (fr to : PathRec) (t u : Table κ ν) (ht : Inv c t) (hu : Inv c u)
    (ha : AgreeOn c (lastStripes c hpS k (some to)) t u) :
    (insertLastSec c hpS rcS k v ca me fn fr (some to) u).2 = (insertLastSec c hpS rcS k v ca me fn fr (some to) t).2 ∧
    Transp c (lastStripes c hpS k (some to)) t u (insertLastSec c hpS rcS k v ca me fn fr (some to) t).1
      (insertLastSec c hpS rcS k v ca me fn fr (some to) u).1 := by
  have h1 : c.lockInd (c.i1 hpS k) ∈ lastStripes c hpS k (some to) := by simp [lastStripes]
  have h2 : c.lockInd (c.i2 hpS k) ∈ lastStripes c hpS k (some to) := by simp [lastStripes]
  have h3 : c.lockInd to.bucket ∈ lastStripes c hpS k (some to) := by simp [lastStripes]
  have a := lockThree_transp c (lastStripes c hpS k (some to)) t u (c.i1 hpS k) (c.i2 hpS k) to.bucket h1 h2 h3
    ht hu ha
  rw [insertLastSec_some_eq, insertLastSec_some_eq, valid_congr a.agree hpS rcS]
  generalize t.lockThree c (c.i1 hpS k) (c.i2 hpS k) to.bucket = t1 at *
  generalize u.lockThree c (c.i1 hpS k) (c.i2 hpS k) to.bucket = u1 at *
  by_cases hg : (!(valid t1 hpS rcS && (fr.bucket == c.i1 hpS k || fr.bucket == c.i2 hpS k) &&
      decide (fr.slot < c.S))) = true
  · rw [if_pos hg, if_pos hg]
    exact ⟨rfl, a⟩
  · rw [if_neg hg, if_neg hg]
    simp only [Bool.not_eq_true', Bool.not_eq_false, Bool.and_eq_true, Bool.or_eq_true, beq_iff_eq,
      decide_eq_true_eq] at hg
    obtain ⟨⟨_, hb⟩, hs⟩ := hg
    have hfb : c.lockInd fr.bucket ∈ lastStripes c hpS k (some to) := by
      rcases hb with e | e <;> rw [e] <;> assumption
    by_cases hg2 : (to.bucket == Spec.altIndex hpS (Spec.partialKey fr.hash) fr.bucket && decide (to.slot < c.S)) = true
    · rw [if_pos hg2, if_pos hg2]
      simp only [Bool.and_eq_true, beq_iff_eq, decide_eq_true_eq] at hg2
      obtain ⟨_, hslot⟩ := hg2
      rcases agree_hop c _ t1 u1 fr to hslot hfb h3 a.agree with ⟨e1, e2⟩ | ⟨t2, u2, e1, e2, a2⟩
      · rw [e1, e2]; exact ⟨rfl, a⟩
      · rw [e1, e2]
        simp only
        obtain ⟨r1, r2⟩ := agree_lastTail c _ t2 u2 hpS k v ca me fn fr h1 h2 hb hs a2
        obtain ⟨p1, p2⟩ := lastTail_ro c t2 hpS k v ca me fn fr
        obtain ⟨q1, q2⟩ := lastTail_ro c u2 hpS k v ca me fn fr
        exact ⟨r1, a.post r2 (p1.trans (hop_ro e1).1) (p2.trans (hop_ro e1).2) (q1.trans (hop_ro e2).1)
          (q2.trans (hop_ro e2).2)⟩
    · rw [if_neg hg2, if_neg hg2]
      exact ⟨rfl, a⟩

theorem rf_insertLastSec (c : Cfg κ) (hpS rcS : Nat) (k : κ) (v : ν) (ca me : Bool) (fn : Ctx → ν → FnOut ν)
    (fr : PathRec) (to : Option PathRec) (t u : Table κ ν) (ht : Inv c t) (hu : Inv c u)
    (ha : AgreeOn c (lastStripes c hpS k to) t u) :
    (insertLastSec c hpS rcS k v ca me fn fr to u).2 = (insertLastSec c hpS rcS k v ca me fn fr to t).2 ∧
    Transp c (lastStripes c hpS k to) t u (insertLastSec c hpS rcS k v ca me fn fr to t).1
      (insertLastSec c hpS rcS k v ca me fn fr to u).1 := by
  cases to with
  | none => exact rf_insertLastSec_none c hpS rcS k v ca me fn fr t u ht hu ha
  | some to => exact rf_insertLastSec_some c hpS rcS k v ca me fn fr to t u ht hu ha

end

/-! ### a table is its parts -/

/-- a flat array is determined by its size and its `(bucket, slot)` reads -/
theorem cells_ext (S : Nat) (hS : 0 < S) (a b : Store κ ν) (hsz : a.cells.size = b.cells.size)
    (h : ∀ bk s, a.get S bk s = b.get S bk s) : a.cells = b.cells := by
  apply Array.ext hsz
  intro i h1 h2
  have hm : i % S < S := Nat.mod_lt _ hS
  have hi : i / S * S + i % S = i := by
    rw [Nat.mul_comm]; exact Nat.div_add_mod i S
  have := h (i / S) (i % S)
  unfold Store.get at this
  rw [if_pos hm, if_pos hm, hi, Array.getD_eq_getD_getElem?, Array.getD_eq_getD_getElem?,
    Array.getElem?_eq_getElem h1, Array.getElem?_eq_getElem h2] at this
  simpa using this

theorem Table.ext' {a b : Table κ ν} (h1 : a.cur = b.cur) (h2 : a.old = b.old) (h3 : a.locks = b.locks)
    (h4 : a.oldGens = b.oldGens) (h5 : a.rem = b.rem) (h6 : a.rc = b.rc) (h7 : a.mlf = b.mlf) (h8 : a.mhp = b.mhp)
    (h9 : a.workers = b.workers) : a = b := by
  cases a; cases b; simp_all

/-- two tables with the same reads everywhere, the same locks and the same scalars are equal -/
theorem Table.eq_of_parts (c : Cfg κ) (hS : 0 < c.S) {a b : Table κ ν}
    (hcells : ∀ bk s, a.cur.get c.S bk s = b.cur.get c.S bk s) (hcsz : a.cur.cells.size = b.cur.cells.size)
    (hhp : a.hp = b.hp) (hlocks : ∀ l : Nat, a.locks[l]? = b.locks[l]?) (hold : a.old = b.old)
    (hgens : a.oldGens = b.oldGens) (hrem : a.rem = b.rem) (hrc : a.rc = b.rc) (hmlf : a.mlf = b.mlf)
    (hmhp : a.mhp = b.mhp) (hw : a.workers = b.workers) : a = b :=
  Table.ext' (Store.ext' hhp (cells_ext c.S hS a.cur b.cur hcsz hcells)) hold (Array.ext_getElem? hlocks) hgens hrem
    hrc hmlf hmhp hw

/-- the core of the commutation argument: two steps `t → t1` (within `L1`) and `t → t2` (within `L2`), each replayed
after the other as the same step (`Transp`), close the diamond -/
theorem commute_core (c : Cfg κ) (hS : 0 < c.S) {L1 L2 : List Nat} {t t1 t2 t12 t21 : Table κ ν}
    (hd : ∀ l, l ∈ L1 → l ∉ L2)
    (w1 : WritesWithin c L1 t t1) (w2 : WritesWithin c L2 t t2)
    (w12 : WritesWithin c L2 t1 t12) (w21 : WritesWithin c L1 t2 t21)
    (tg : Transp c L2 t t1 t2 t12) (tf : Transp c L1 t t2 t1 t21) : t12 = t21 := by
  have hrem : t12.rem = t21.rem := by
    have := tg.rem
    have := tf.rem
    omega
  apply Table.eq_of_parts c hS
  · intro b s
    by_cases m1 : c.lockInd b ∈ L1
    · rw [w12.cells b s (hd _ m1), tf.agree.cells b s m1]
    · by_cases m2 : c.lockInd b ∈ L2
      · rw [tg.agree.cells b s m2, w21.cells b s m1]
      · rw [w12.cells b s m2, w1.cells b s m1, w21.cells b s m1, w2.cells b s m2]
  · rw [w12.csize, w1.csize, w21.csize, w2.csize]
  · rw [w12.hp, w1.hp, w21.hp, w2.hp]
  · intro l
    by_cases m1 : l ∈ L1
    · rw [w12.locks l (hd _ m1), tf.agree.locks l m1]
    · by_cases m2 : l ∈ L2
      · rw [tg.agree.locks l m2, w21.locks l m1]
      · rw [w12.locks l m2, w1.locks l m1, w21.locks l m1, w2.locks l m2]
  · exact (tf.oldT.trans tg.oldU tf.remT tg.remU).old_eq (tg.oldT.trans tf.oldU tg.remT tf.remU) hrem
  · rw [w12.gens, w1.gens, w21.gens, w2.gens]
  · exact hrem
  · rw [w12.rc, w1.rc, w21.rc, w2.rc]
  · rw [w12.cfg.1, w1.cfg.1, w21.cfg.1, w2.cfg.1]
  · rw [w12.cfg.2.1, w1.cfg.2.1, w21.cfg.2.1, w2.cfg.2.1]
  · rw [w12.cfg.2.2, w1.cfg.2.2, w21.cfg.2.2, w2.cfg.2.2]

/-- lazy migration of two different stripes commutes — cells, flags, the shared counter `rem` and the release of the
old array by whichever comes last (`ParAux.rehashLock_comm_of_le` is the non-lazy case, which touches neither) -/
theorem rehashLock_lazy_comm (c : Cfg κ) (t : Table κ ν) (h : Inv c t) (i j : Nat) (hij : i ≠ j) :
    (t.rehashLock c i true).rehashLock c j true = (t.rehashLock c j true).rehashLock c i true := by
  have hd : ∀ l, l ∈ [i] → l ∉ [j] := by
    intro l hl hl2
    rw [List.mem_singleton.mp hl] at hl2
    exact hij (List.mem_singleton.mp hl2)
  have hd2 : ∀ l, l ∈ [j] → l ∉ [i] := fun l h2 h1 => hd l h1 h2
  have mi : i ∈ [i] := List.mem_singleton.mpr rfl
  have mj : j ∈ [j] := List.mem_singleton.mpr rfl
  have i1 := (rehashLock_lazy_spec c t i h).1
  have i2 := (rehashLock_lazy_spec c t j h).1
  have w1 := ww_rehashLock c [i] t i true h mi
  have w2 := ww_rehashLock c [j] t j true h mj
  exact commute_core c h.S_pos hd w1 w2 (ww_rehashLock c [j] _ j true i1 mj) (ww_rehashLock c [i] _ i true i2 mi)
    (rehashLock_transp c [j] t _ j mj h i1 (AgreeOn.of_writes w1 hd2))
    (rehashLock_transp c [i] t _ i mi h i2 (AgreeOn.of_writes w2 hd))

end Cuckoo.Model
