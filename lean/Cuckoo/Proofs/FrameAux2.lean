import Cuckoo.Proofs.FrameAux1
/-!
Helper lemmas for `Props/C03Frame`: footprint of the lazy migration (`moveBucket`, `migrateBuckets`, `rehashLock`,
`lockOne/Two/Three`).  The cells a stripe owns are those of the old buckets `b ≡ l (mod M)` and of their upper
halves `b + 2^oldhp`; since `M` divides `2^oldhp` these are again buckets of stripe `l` (stripe stability).
-/
namespace Cuckoo.Model
open Cuckoo
variable {κ ν : Type}

/-! ### sizes -/

theorem moveBucket_go_size (c : Cfg κ) (old : Store κ ν) (b ohp nhp nb : Nat) :
    ∀ (fuel s ns : Nat) (cur : Store κ ν),
      (moveBucket.go c old b ohp nhp nb s fuel ns cur).cells.size = cur.cells.size := by
  intro fuel
  induction fuel with
  | zero => intro s ns cur; unfold moveBucket.go; rfl
  | succ fuel ih =>
    intro s ns cur
    rw [moveBucket.go]
    split
    · exact ih _ _ _
    · simp only []
      split
      · rw [ih]; exact Store.set_size _ _ _ _ _
      · rw [ih]; exact Store.set_size _ _ _ _ _

theorem moveBucket_size (c : Cfg κ) (old cur : Store κ ν) (b : Nat) :
    (moveBucket c old cur b).cells.size = cur.cells.size :=
  moveBucket_go_size c old b _ _ _ _ _ _ cur

theorem migrateBuckets_size (c : Cfg κ) (old : Store κ ν) (l : Nat) :
    ∀ (n b : Nat) (cur : Store κ ν), (migrateBuckets c old l n b cur).cells.size = cur.cells.size := by
  intro n
  induction n with
  | zero => intro b cur; rfl
  | succ n ih =>
    intro b cur
    show (migrateBuckets c old l n (b + c.M) (moveBucket c old cur b)).cells.size = _
    rw [ih, moveBucket_size]

/-! ### stripe stability -/

theorem le_of_two_pow_le {m n : Nat} (h : 2 ^ m ≤ 2 ^ n) : m ≤ n := by
  apply Nat.le_of_not_lt
  intro hlt
  have : 2 ^ n < 2 ^ m := Nat.pow_lt_pow_right (by decide) hlt
  omega

/-- a cell of a bucket of another stripe is not among the flat indices stripe `l` owns -/
theorem not_stripeIdx (c : Cfg κ) (m ohp l b s : Nat) (hM : c.M = 2 ^ m) (hle : c.M ≤ 2 ^ ohp) (hs : s < c.S)
    (hb : c.lockInd b ≠ l) : ¬ StripeIdx c ohp l (b * c.S + s) := by
  rintro ⟨b', s', hs', _, hm, hk | hk⟩
  · have e := (flat_inj hs hs' hk).1
    subst e
    exact hb hm
  · have e := (flat_inj hs hs' hk).1
    subst e
    apply hb
    have hmo : m ≤ ohp := le_of_two_pow_le (by rw [← hM]; exact hle)
    have := Spec.lockInd_stable m ohp b' hmo
    show Spec.lockInd c.M (b' + 2 ^ ohp) = l
    rw [hM, this, ← hM]
    exact hm

theorem get_congr_idx (S : Nat) (st st' : Store κ ν) (b s : Nat)
    (h : st'.cells[b * S + s]? = st.cells[b * S + s]?) : st'.get S b s = st.get S b s := by
  unfold Store.get
  split
  · rw [Array.getD_eq_getD_getElem?, Array.getD_eq_getD_getElem?, h]
  · rfl

/-- migrating stripe `l` leaves the cells of every bucket of another stripe alone -/
theorem migrateStripe_other (c : Cfg κ) (o cur : Store κ ν) (m l b s : Nat) (hM : c.M = 2 ^ m)
    (hle : c.M ≤ 2 ^ o.hp) (hl : l < c.M) (hb : c.lockInd b ≠ l) :
    (migrateBuckets c o l ((2 ^ o.hp + c.M - 1 - l) / c.M) l cur).get c.S b s = cur.get c.S b s := by
  by_cases hs : s < c.S
  · apply get_congr_idx
    exact (migrateBuckets_stripe_loc c o cur.hp l hl).frame cur rfl _ (not_stripeIdx c m o.hp l b s hM hle hs hb)
  · rw [Store.get_of_not_lt _ _ _ _ hs, Store.get_of_not_lt _ _ _ _ hs]

/-! ### `rehashLock` -/

/-- any table obtained from `t` by splitting stripe `l` into the current array, rewriting lock `l`, and possibly
releasing the old array -/
theorem ww_migStep (c : Cfg κ) (t t1 : Table κ ν) (m l : Nat) (o : Store κ ν) (f : Lock → Lock)
    (hM : c.M = 2 ^ m) (hle : c.M ≤ 2 ^ o.hp) (hl : l < c.M)
    (hcur : t1.cur = migrateBuckets c o l ((2 ^ o.hp + c.M - 1 - l) / c.M) l t.cur)
    (hlocks : t1.locks = t.locks.modify l f)
    (hgens : t1.oldGens = t.oldGens) (hrc : t1.rc = t.rc)
    (hcfg : t1.mlf = t.mlf ∧ t1.mhp = t.mhp ∧ t1.workers = t.workers)
    (hold : t1.old = t.old ∨ (t1.old = none ∧ t1.rem = 0)) (hrem : t1.rem ≤ t.rem) :
    WritesWithin c [l] t t1 where
  cells b s hb := by
    rw [hcur]
    exact migrateStripe_other c o t.cur m l b s hM hle hl (fun e => hb (by rw [e]; exact List.mem_singleton.mpr rfl))
  locks i hi := by
    rw [hlocks, Array.getElem?_modify, if_neg]
    intro e
    exact hi (by rw [e]; exact List.mem_singleton.mpr rfl)
  nlocks := by rw [hlocks, Array.size_modify]
  hp := by
    show t1.cur.hp = t.cur.hp
    rw [hcur]
    exact (migrateBuckets_stripe_loc c o t.cur.hp l hl).hp_eq t.cur rfl
  csize := by rw [hcur]; exact migrateBuckets_size c o l _ _ _
  rc := hrc
  gens := hgens
  cfg := hcfg
  old := hold
  rem := hrem

/-- `rehash_lock(l)` writes only stripe `l`; all it needs of the invariant is that, while stripe `l` is pending,
the stripes are stable under the doubling (`kMaxNumLocks ≤ 2^oldhp`, a power of two) and `l` is a stripe -/
theorem ww_rehashLock_of (c : Cfg κ) (t : Table κ ν) (m l : Nat) (z : Bool) (hM : c.M = 2 ^ m)
    (hpend : ∀ lk o, t.locks[l]? = some lk → lk.migrated = false → t.old = some o →
      c.M ≤ 2 ^ o.hp ∧ t.locks.size ≤ c.M) :
    WritesWithin c [l] t (t.rehashLock c l z) := by
  cases hlk : t.locks[l]? with
  | none =>
    exact WritesWithin.of_eq (rehashLock_skip c t l z (by intro lk h; rw [hlk] at h; cases h))
  | some lk =>
    cases hmig : lk.migrated with
    | true =>
      exact WritesWithin.of_eq
        (rehashLock_skip c t l z (by intro lk' h; rw [hlk] at h; cases h; exact Or.inl hmig))
    | false =>
      cases hold : t.old with
      | none => exact WritesWithin.of_eq (rehashLock_skip c t l z (fun _ _ => Or.inr hold))
      | some o =>
        obtain ⟨hle, hsz⟩ := hpend lk o hlk hmig hold
        have hl : l < c.M := by
          have := (Array.getElem?_eq_some_iff.mp hlk).1; omega
        rw [rehashLock_active c t l lk o z hlk hmig hold]
        cases z with
        | false =>
          simp only [Bool.false_eq_true, if_false]
          exact ww_migStep c t _ m l o (fun x => { x with migrated := true }) hM hle hl rfl rfl rfl rfl ⟨rfl, rfl, rfl⟩ (Or.inl rfl) (Nat.le_refl _)
        | true =>
          simp only [if_true]
          split
          · exact ww_migStep c t _ m l o (fun x => { x with migrated := true }) hM hle hl rfl rfl rfl rfl ⟨rfl, rfl, rfl⟩ (Or.inr ⟨rfl, rfl⟩)
              (Nat.zero_le _)
          · exact ww_migStep c t _ m l o (fun x => { x with migrated := true }) hM hle hl rfl rfl rfl rfl ⟨rfl, rfl, rfl⟩ (Or.inl rfl)
              (Nat.sub_le _ _)

theorem ww_rehashLock (c : Cfg κ) (L : List Nat) (t : Table κ ν) (l : Nat) (z : Bool) (h : Inv c t) (hl : l ∈ L) :
    WritesWithin c L t (t.rehashLock c l z) := by
  obtain ⟨m, hM⟩ := h.M_pow
  refine (ww_rehashLock_of c t m l z hM ?_).mono (fun i hi => by rw [List.mem_singleton.mp hi]; exact hl)
  intro lk o hlk hmig hold
  have hpos : 0 < t.rem := by rw [h.rem_eq]; exact nUnmig_pos_of t l lk hlk hmig
  obtain ⟨o', ho', _, _, hle, hsz⟩ := h.pending hpos
  rw [hold] at ho'
  cases ho'
  exact ⟨hle, Nat.le_of_eq hsz⟩

theorem ww_rehash2 (c : Cfg κ) (L : List Nat) (t : Table κ ν) (la lb : Nat) (h : Inv c t)
    (ha : la ∈ L) (hb : lb ∈ L) :
    WritesWithin c L t ((t.rehashLock c la true).rehashLock c lb true) :=
  (ww_rehashLock c L t la true h ha).trans
    (ww_rehashLock c L _ lb true (rehashLock_lazy_spec c t la h).1 hb)

theorem ww_rehash3 (c : Cfg κ) (L : List Nat) (t : Table κ ν) (la lb lc : Nat) (h : Inv c t)
    (ha : la ∈ L) (hb : lb ∈ L) (hc : lc ∈ L) :
    WritesWithin c L t (((t.rehashLock c la true).rehashLock c lb true).rehashLock c lc true) :=
  (ww_rehash2 c L t la lb h ha hb).trans
    (ww_rehashLock c L _ lc true (rehash2_spec c t la lb h).1 hc)

theorem ww_lockOne (c : Cfg κ) (L : List Nat) (t : Table κ ν) (b : Nat) (h : Inv c t) (hb : c.lockInd b ∈ L) :
    WritesWithin c L t (t.lockOne c b) :=
  ww_rehashLock c L t _ true h hb

theorem ww_lockTwo (c : Cfg κ) (L : List Nat) (t : Table κ ν) (b1 b2 : Nat) (h : Inv c t)
    (h1 : c.lockInd b1 ∈ L) (h2 : c.lockInd b2 ∈ L) : WritesWithin c L t (t.lockTwo c b1 b2) := by
  unfold Table.lockTwo
  simp only []
  generalize c.lockInd b1 = x at h1
  generalize c.lockInd b2 = y at h2
  by_cases e1 : y < x <;> simp only [e1, if_true, if_false]
  · exact ww_rehash2 c L t _ _ h h2 h1
  · exact ww_rehash2 c L t _ _ h h1 h2

theorem ww_lockThree (c : Cfg κ) (L : List Nat) (t : Table κ ν) (b1 b2 b3 : Nat) (h : Inv c t)
    (h1 : c.lockInd b1 ∈ L) (h2 : c.lockInd b2 ∈ L) (h3 : c.lockInd b3 ∈ L) :
    WritesWithin c L t (t.lockThree c b1 b2 b3) := by
  -- (`lockThree_eq` does not say that its three stripes are among the requested ones; redo the case split)
  unfold Table.lockThree
  simp only []
  generalize c.lockInd b1 = x at h1
  generalize c.lockInd b2 = y at h2
  generalize c.lockInd b3 = z at h3
  by_cases e1 : z < y <;> simp only [e1, if_true, if_false]
  · by_cases e2 : y < x <;> simp only [e2, if_true, if_false]
    · by_cases e3 : z < y <;> simp only [e3, if_true, if_false]
      · exact ww_rehash3 c L t _ _ _ h (by assumption) (by assumption) (by assumption)
      · exact ww_rehash3 c L t _ _ _ h (by assumption) (by assumption) (by assumption)
    · by_cases e3 : z < x <;> simp only [e3, if_true, if_false]
      · exact ww_rehash3 c L t _ _ _ h (by assumption) (by assumption) (by assumption)
      · exact ww_rehash3 c L t _ _ _ h (by assumption) (by assumption) (by assumption)
  · by_cases e2 : z < x <;> simp only [e2, if_true, if_false]
    · by_cases e3 : y < z <;> simp only [e3, if_true, if_false]
      · exact ww_rehash3 c L t _ _ _ h (by assumption) (by assumption) (by assumption)
      · exact ww_rehash3 c L t _ _ _ h (by assumption) (by assumption) (by assumption)
    · by_cases e3 : y < x <;> simp only [e3, if_true, if_false]
      · exact ww_rehash3 c L t _ _ _ h (by assumption) (by assumption) (by assumption)
      · exact ww_rehash3 c L t _ _ _ h (by assumption) (by assumption) (by assumption)

end Cuckoo.Model
