import Cuckoo.Proofs.Resize
/-!
Helper lemmas for C07 / C08: a failed rebuild keeps the hashpower.
-/
namespace Cuckoo.Model
open Cuckoo
variable {κ ν : Type}

/-- every error exit of `cuckoo_expand_simple` leaves the hashpower unchanged -/
theorem expandSimple_err_hp [DecidableEq κ] (c : Cfg κ) (locked auto : Bool) (fuel : Nat) (t : Table κ ν) (n : Nat)
    (h : Inv c t) (e : Err) (he : (expandSimple c locked auto fuel t n).2 = .err e) :
    (expandSimple c locked auto fuel t n).1.hp = t.hp := by
  cases fuel with
  | zero => unfold expandSimple; rfl
  | succ fuel =>
    have hm := (migrateAll_spec c t h).2.2.1
    unfold expandSimple at he ⊢
    simp only at he ⊢
    cases hc : t.checkResize c auto n with
    | some e' => rfl
    | none =>
      simp only [hc] at he ⊢
      by_cases hlim : n > c.hpLimit
      · simp only [hlim, if_true]; exact hm
      · simp only [hlim, if_false] at he ⊢
        generalize List.foldl (rebuildStep c (insertLoop c false fuel)) _ _ = r at he ⊢
        obtain ⟨nm, res⟩ := r
        cases res with
        | err e' => exact hm
        | ok a => cases he

end Cuckoo.Model
