import Cuckoo.Proofs.ProtoInvBase
/-!
Preservation of `PInv` by the events that change only the acting thread's own record
(`rcLoad`, `hpLoad`, `genLoad`, `allBegin`, `allEnd`).
-/
namespace Cuckoo.Proto

/-- frame lemma: an event that replaces only `th t` by a record with the same `held` and `dirty` -/
theorem PInv.frame {s : PS} (h : PInv s) (t : Tid) (x' : TS)
    (hheld : x'.held = (s.th t).held) (hdirty : x'.dirty = (s.th t).dirty)
    (hrc : x'.snapRc ≤ s.rc) (hgen : x'.snapGen < s.gens.length)
    (hsh : x'.hpOk = true → x'.snapRc = s.rc → x'.snapHp = s.hp ∨ ∃ z, (s.th z).dirty = true)
    (hsg : x'.genOk = true → x'.snapRc = s.rc →
      x'.snapGen = s.curGen ∨ ∃ z, (s.th z).dirty = true ∧ HoldsGen s z x'.snapGen)
    (hpend : x'.pendingVal = true → ∃ l, x'.held = [l] ∧ x'.validated = false ∧ x'.inAll = false ∧ x'.owner = false ∧
      (x'.snapRc = s.rc → l.gen = s.curGen ∧ x'.snapHp = s.hp ∧ x'.snapGen = s.curGen))
    (hval : x'.validated = true → x'.held ≠ [] ∧ (∀ l ∈ x'.held, l.gen = s.curGen) ∧
      x'.snapRc = s.rc ∧ x'.snapHp = s.hp ∧ x'.snapGen = s.curGen ∧ x'.owner = false ∧ x'.inAll = false)
    (hown : x'.owner = true → HoldsGen s t s.curGen ∧ x'.inAll = false)
    (hdo : x'.dirty = true → x'.owner = true) :
    PInv { s with th := upd s.th t x' } := by
  have hd : ∀ z, (upd s.th t x' z).dirty = (s.th z).dirty := by
    intro z; by_cases hz : z = t
    · subst hz; simp [hdirty]
    · simp [upd_other _ _ _ _ hz]
  have hD : (∃ z, (s.th z).dirty = true) → ∃ z, (upd s.th t x' z).dirty = true := by
    rintro ⟨z, hz⟩; exact ⟨z, by rw [hd]; exact hz⟩
  have hDG : ∀ g, (∃ z, (s.th z).dirty = true ∧ HoldsGen s z g) →
      ∃ z, (upd s.th t x' z).dirty = true ∧ HoldsGen { s with th := upd s.th t x' } z g := by
    rintro g ⟨z, hz, hg⟩; exact ⟨z, by rw [hd]; exact hz, hg⟩
  constructor
  · exact h.gens_ne
  · exact h.gens_pos
  · intro u l
    by_cases hu : u = t
    · subst hu; simp only [upd_same, hheld]; exact h.held_iff u l
    · simp only [upd_other _ _ _ _ hu]; exact h.held_iff u l
  · intro u
    by_cases hu : u = t
    · subst hu; simp only [upd_same, hheld]; exact h.held_desc u
    · simp only [upd_other _ _ _ _ hu]; exact h.held_desc u
  · exact h.held_range
  · intro u
    by_cases hu : u = t
    · subst hu; simp only [upd_same]; exact hrc
    · simp only [upd_other _ _ _ _ hu]; exact h.rc_le u
  · intro u
    by_cases hu : u = t
    · subst hu; simp only [upd_same]; exact hgen
    · simp only [upd_other _ _ _ _ hu]; exact h.gen_lt u
  · intro u
    by_cases hu : u = t
    · subst hu; simp only [upd_same]
      intro a b; exact (hsh a b).imp id hD
    · simp only [upd_other _ _ _ _ hu]
      intro a b; exact (h.snap_hp u a b).imp id hD
  · intro u
    by_cases hu : u = t
    · subst hu; simp only [upd_same]
      intro a b; exact (hsg a b).imp id (hDG _)
    · simp only [upd_other _ _ _ _ hu]
      intro a b; exact (h.snap_gen u a b).imp id (hDG _)
  · intro u
    by_cases hu : u = t
    · subst hu; simp only [upd_same]; exact hpend
    · simp only [upd_other _ _ _ _ hu]; exact h.pend u
  · intro u
    by_cases hu : u = t
    · subst hu; simp only [upd_same]; exact hval
    · simp only [upd_other _ _ _ _ hu]; exact h.val u
  · intro u
    by_cases hu : u = t
    · subst hu; simp only [upd_same]; exact hown
    · simp only [upd_other _ _ _ _ hu]; exact h.owner_all u
  · intro u
    by_cases hu : u = t
    · subst hu; simp only [upd_same]; exact hdo
    · simp only [upd_other _ _ _ _ hu]; exact h.dirty_owner u

theorem inv_rcLoad {s s' : PS} (h : PInv s) (t : Tid) (ha : accept s (.rcLoad t) = some s') : PInv s' := by
  simp only [accept] at ha
  split at ha
  next hp =>
    obtain ⟨l, hl, hv, hia, ho, hc⟩ := h.pend t hp
    split at ha
    next hrc =>
      cases ha
      refine h.frame t _ rfl rfl (h.rc_le t) (h.gen_lt t) (h.snap_hp t) (h.snap_gen t) ?_ ?_ ?_ ?_
      · intro hh; cases hh
      · intro _
        obtain ⟨h1, h2, h3⟩ := hc hrc
        refine ⟨?_, ?_, hrc, h2, h3, ho, hia⟩
        · show (s.th t).held ≠ []
          rw [hl]; simp
        · show ∀ m ∈ (s.th t).held, _
          rw [hl]; intro m hm; rw [List.mem_singleton.1 hm]; exact h1
      · intro hh; rw [ho] at hh; cases hh
      · exact h.dirty_owner t
    next hrc =>
      cases ha
      refine h.frame t _ rfl rfl (h.rc_le t) (h.gen_lt t) (h.snap_hp t) (h.snap_gen t) ?_ ?_ ?_ ?_
      · intro hh; cases hh
      · intro hh; rw [hv] at hh; cases hh
      · intro hh; rw [ho] at hh; cases hh
      · exact h.dirty_owner t
  next hp =>
    cases ha
    refine h.frame t _ rfl rfl (Nat.le_refl _) (h.gen_lt t) ?_ ?_ ?_ ?_ ?_ ?_
    · intro hh _
      simp only [Bool.and_eq_true] at hh
      exact Or.inl (h.val t hh.1.2).2.2.2.1
    · intro hh _
      simp only [Bool.and_eq_true] at hh
      exact Or.inl (h.val t hh.1.2).2.2.2.2.1
    · intro hh; exact absurd hh hp
    · intro hh
      obtain ⟨h1, h2, h3, h4, h5, h6, h7⟩ := h.val t hh
      exact ⟨h1, h2, rfl, h4, h5, h6, h7⟩
    · exact h.owner_all t
    · exact h.dirty_owner t

theorem inv_hpLoad {s s' : PS} (h : PInv s) (t : Tid) (ha : accept s (.hpLoad t) = some s') : PInv s' := by
  simp only [accept] at ha
  split at ha
  · cases ha
  next hp =>
    cases ha
    refine h.frame t _ rfl rfl (h.rc_le t) (h.gen_lt t) ?_ ?_ ?_ ?_ ?_ ?_
    · intro _ _; exact Or.inl rfl
    · exact h.snap_gen t
    · intro hh; exact absurd hh hp
    · intro hh
      obtain ⟨h1, h2, h3, h4, h5, h6, h7⟩ := h.val t hh
      exact ⟨h1, h2, h3, rfl, h5, h6, h7⟩
    · exact h.owner_all t
    · exact h.dirty_owner t

theorem inv_genLoad {s s' : PS} (h : PInv s) (t : Tid) (ha : accept s (.genLoad t) = some s') : PInv s' := by
  simp only [accept] at ha
  cases ha
  refine h.frame t _ rfl rfl (h.rc_le t) (curGen_lt s h.gens_ne) (h.snap_hp t) ?_ ?_ ?_ ?_ ?_
  · intro _ _; exact Or.inl rfl
  · intro hh
    obtain ⟨l, h1, h2, h3, h4, h5⟩ := h.pend t hh
    exact ⟨l, h1, h2, h3, h4, fun hrc => ⟨(h5 hrc).1, (h5 hrc).2.1, rfl⟩⟩
  · intro hh
    obtain ⟨h1, h2, h3, h4, h5, h6, h7⟩ := h.val t hh
    exact ⟨h1, h2, h3, h4, rfl, h6, h7⟩
  · exact h.owner_all t
  · exact h.dirty_owner t

theorem inv_allBegin {s s' : PS} (h : PInv s) (t : Tid) (ha : accept s (.allBegin t) = some s') : PInv s' := by
  simp only [accept] at ha
  split at ha
  next hg =>
    cases ha
    have he : (s.th t).held = [] := List.isEmpty_iff.1 hg.1
    refine h.frame t _ rfl rfl (h.rc_le t) (h.gen_lt t) (h.snap_hp t) (h.snap_gen t) ?_ ?_ ?_ ?_
    · intro hh
      obtain ⟨l, h1, -⟩ := h.pend t hh
      rw [he] at h1; cases h1
    · intro hh
      exact absurd he (h.val t hh).1
    · intro hh
      have := h.owner_held hh
      rw [he] at this; cases this
    · exact h.dirty_owner t
  · cases ha

theorem inv_allEnd {s s' : PS} (h : PInv s) (t : Tid) (ha : accept s (.allEnd t) = some s') : PInv s' := by
  simp only [accept] at ha
  split at ha
  next hg =>
    cases ha
    refine h.frame t _ rfl rfl (h.rc_le t) (h.gen_lt t) (h.snap_hp t) (h.snap_gen t) ?_ ?_ ?_ ?_
    · intro hh
      obtain ⟨l, h1, h2, h3, -⟩ := h.pend t hh
      rw [hg.1] at h3; cases h3
    · intro hh
      have := (h.val t hh).2.2.2.2.2.2
      rw [hg.1] at this; cases this
    · intro _
      exact ⟨(holdsGen_cur_iff s h.gens_ne t).2 hg.2, rfl⟩
    · intro _; rfl
  · cases ha

end Cuckoo.Proto
