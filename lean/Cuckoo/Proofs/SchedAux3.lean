import Cuckoo.Proofs.SchedAux2
/-!
Helper lemmas for `Cuckoo/Props/C01Sched.lean`, part 3: `cuckoopath_move` is a run of `hopSec`s closed by an
`insertLastSec`, when the snapshot is current and the path has the shape `buildPath` produces.
Never property statements.
-/
namespace Cuckoo.Model.SchedA
open Cuckoo Cuckoo.Model Cuckoo.Model.Conc Cuckoo.Model.Sched
variable {κ ν : Type} [DecidableEq κ]

section
variable (c : Cfg κ) (k : κ) (v : ν) (ca me : Bool) (fn : Ctx → ν → FnOut ν) (hp rc : Nat)

/-- what the sequential code does after a successful `cuckoopath_move`: duplicate re-check (`insertLoop`), then
`add_to_bucket` and the functor (`uprase`), written with `finishInsert` -/
def tailOf (t3 : Table κ ν) (p0 : PathRec) : Table κ ν × Resp ν :=
  match cuckooFind c t3.cur (c.i1 hp k) (c.i2 hp k) k with
  | some (b, s) => finishInsert c t3 k v ca me fn (.dup b s)
  | none => finishInsert c t3 k v ca me fn (.free p0.bucket p0.slot)

omit [DecidableEq κ] in
theorem hopSec_cur (t : Table κ ν) (fr to : PathRec) (hc : Cur hp rc t)
    (halt : to.bucket = Spec.altIndex hp (Spec.partialKey fr.hash) fr.bucket) (hts : to.slot < c.S) :
    hopSec c hp rc fr to t =
      (match hop c (t.lockTwo c fr.bucket to.bucket) fr to with
       | some t2 => (t2, none)
       | none => (t.lockTwo c fr.bucket to.bucket, none)) := by
  have hv := (hc.lockTwo c fr.bucket to.bucket).valid
  unfold hopSec
  simp only [hv, ← halt, beq_self_eq_true, hts, decide_true, Bool.and_self, if_true]
  cases hop c (t.lockTwo c fr.bucket to.bucket) fr to <;> rfl

theorem insertLastSec_some_cur (t : Table κ ν) (fr to : PathRec) (hc : Cur hp rc t)
    (hb : fr.bucket = c.i1 hp k ∨ fr.bucket = c.i2 hp k) (hs : fr.slot < c.S)
    (halt : to.bucket = Spec.altIndex hp (Spec.partialKey fr.hash) fr.bucket) (hts : to.slot < c.S) :
    insertLastSec c hp rc k v ca me fn fr (some to) t =
      (match hop c (t.lockThree c (c.i1 hp k) (c.i2 hp k) to.bucket) fr to with
       | none => (t.lockThree c (c.i1 hp k) (c.i2 hp k) to.bucket, none)
       | some t2 => ((tailOf c k v ca me fn hp t2 fr).1, some (tailOf c k v ca me fn hp t2 fr).2)) := by
  have hv := (hc.lockThree c (c.i1 hp k) (c.i2 hp k) to.bucket).valid
  have hcond : (valid (t.lockThree c (c.i1 hp k) (c.i2 hp k) to.bucket) hp rc &&
      (fr.bucket == c.i1 hp k || fr.bucket == c.i2 hp k) && decide (fr.slot < c.S)) = true := by
    rw [hv]
    rcases hb with e | e <;> simp [e, hs]
  have hcond2 : (to.bucket == Spec.altIndex hp (Spec.partialKey fr.hash) fr.bucket && decide (to.slot < c.S)) = true := by
    simp [← halt, hts]
  unfold insertLastSec tailOf
  simp only [hcond, hcond2, Bool.not_true, Bool.false_eq_true, if_false, if_true]
  cases hop c (t.lockThree c (c.i1 hp k) (c.i2 hp k) to.bucket) fr to with
  | none => rfl
  | some t2 =>
    simp only
    cases cuckooFind c t2.cur (c.i1 hp k) (c.i2 hp k) k with
    | none => rfl
    | some p => rfl

theorem insertLastSec_none_cur (t : Table κ ν) (fr : PathRec) (hc : Cur hp rc t)
    (hb : fr.bucket = c.i1 hp k ∨ fr.bucket = c.i2 hp k) (hs : fr.slot < c.S) :
    insertLastSec c hp rc k v ca me fn fr none t =
      (if (t.lockTwo c (c.i1 hp k) (c.i2 hp k)).cur.occ c.S fr.bucket fr.slot
       then (t.lockTwo c (c.i1 hp k) (c.i2 hp k), none)
       else ((tailOf c k v ca me fn hp (t.lockTwo c (c.i1 hp k) (c.i2 hp k)) fr).1,
             some (tailOf c k v ca me fn hp (t.lockTwo c (c.i1 hp k) (c.i2 hp k)) fr).2)) := by
  have hv := (hc.lockTwo c (c.i1 hp k) (c.i2 hp k)).valid
  have hcond : (valid (t.lockTwo c (c.i1 hp k) (c.i2 hp k)) hp rc &&
      (fr.bucket == c.i1 hp k || fr.bucket == c.i2 hp k) && decide (fr.slot < c.S)) = true := by
    rw [hv]
    rcases hb with e | e <;> simp [e, hs]
  unfold insertLastSec tailOf
  simp only [hcond, Bool.not_true, Bool.false_eq_true, if_false]
  cases (t.lockTwo c (c.i1 hp k) (c.i2 hp k)).cur.occ c.S fr.bucket fr.slot with
  | true => rfl
  | false =>
    simp only [Bool.false_eq_true, if_false]
    cases cuckooFind c (t.lockTwo c (c.i1 hp k) (c.i2 hp k)).cur (c.i1 hp k) (c.i2 hp k) k with
    | none => rfl
    | some p => rfl

/-- the hops, from the end of the path -/
theorem pathMove_go_sched : ∀ (rev : List PathRec) (t : Table κ ν) (p0 : PathRec),
    Cur hp rc t → RPathOK c hp rev → 2 ≤ rev.length → rev.getLast? = some p0 →
    (p0.bucket = c.i1 hp k ∨ p0.bucket = c.i2 hp k) →
    Cur hp rc (pathMove.go c false (c.i1 hp k) (c.i2 hp k) t rev).1 ∧
    ((pathMove.go c false (c.i1 hp k) (c.i2 hp k) t rev).2 = false →
      Quiet t (pathMoveSchedGo c k v ca me fn hp rc t rev) (pathMove.go c false (c.i1 hp k) (c.i2 hp k) t rev).1) ∧
    ((pathMove.go c false (c.i1 hp k) (c.i2 hp k) t rev).2 = true →
      Done t (pathMoveSchedGo c k v ca me fn hp rc t rev)
        (tailOf c k v ca me fn hp (pathMove.go c false (c.i1 hp k) (c.i2 hp k) t rev).1 p0)) := by
  intro rev
  induction rev with
  | nil => intro t p0 _ _ hlen; simp at hlen
  | cons to tl ih =>
    intro t p0 hc hok hlen hlast hb
    cases tl with
    | nil => simp at hlen
    | cons fr rest =>
      obtain ⟨hslot, halt, hok'⟩ := hok
      cases rest with
      | nil =>
        simp only [List.getLast?_cons_cons, List.getLast?_singleton, Option.some.injEq] at hlast
        subst hlast
        have hfs : fr.slot < c.S := hok'
        have hsec := insertLastSec_some_cur c k v ca me fn hp rc t fr to hc hb hfs halt hslot
        simp only [pathMove.go, pathMoveSchedGo, List.isEmpty_nil, if_true, lockThreeM_false]
        cases hh : hop c (t.lockThree c (c.i1 hp k) (c.i2 hp k) to.bucket) fr to with
        | none =>
          rw [hh] at hsec
          refine ⟨hc.lockThree c _ _ _, fun _ => Quiet.single hsec, fun e => by cases e⟩
        | some t2 =>
          rw [hh] at hsec
          refine ⟨(hc.lockThree c _ _ _).hop c fr to hh, fun e => (by cases e), fun _ => Done.single hsec⟩
      | cons r rest' =>
        have hsec := hopSec_cur c hp rc t fr to hc halt hslot
        simp only [pathMove.go, pathMoveSchedGo, List.isEmpty_cons, Bool.false_eq_true, if_false, lockTwoM_false]
        cases hh : hop c (t.lockTwo c fr.bucket to.bucket) fr to with
        | none =>
          rw [hh] at hsec
          refine ⟨hc.lockTwo c _ _, fun _ => Quiet.single hsec, fun e => by cases e⟩
        | some t2 =>
          rw [hh] at hsec
          have hc2 := (hc.lockTwo c fr.bucket to.bucket).hop c fr to hh
          obtain ⟨i1, i2, i3⟩ := ih t2 p0 hc2 hok' (by simp) (by simpa [List.getLast?_cons_cons] using hlast) hb
          exact ⟨i1, fun e => Quiet.cons hsec (i2 e), fun e => Done.cons hsec (i3 e)⟩

/-- `cuckoopath_move` -/
theorem pathMove_sched (t : Table κ ν) (path : List PathRec) (hc : Cur hp rc t) (hok : PathOK c hp path)
    (hhead : ∀ p0, path.head? = some p0 → p0.bucket = c.i1 hp k ∨ p0.bucket = c.i2 hp k) :
    Cur hp rc (pathMove c false t (c.i1 hp k) (c.i2 hp k) path).1 ∧
    ((pathMove c false t (c.i1 hp k) (c.i2 hp k) path).2 = false →
      Quiet t (pathMoveSched c k v ca me fn hp rc t path) (pathMove c false t (c.i1 hp k) (c.i2 hp k) path).1) ∧
    (∀ p0, path.head? = some p0 → (pathMove c false t (c.i1 hp k) (c.i2 hp k) path).2 = true →
      Done t (pathMoveSched c k v ca me fn hp rc t path)
        (tailOf c k v ca me fn hp (pathMove c false t (c.i1 hp k) (c.i2 hp k) path).1 p0)) := by
  rcases path with _ | ⟨q0, _ | ⟨q1, rest⟩⟩
  · simp only [pathMove, pathMoveSched]
    exact ⟨hc, fun _ => Quiet.nil t, fun p0 e => by simp at e⟩
  · have hb := hhead q0 rfl
    have hs : q0.slot < c.S := hok
    have hsec := insertLastSec_none_cur c k v ca me fn hp rc t q0 hc hb hs
    simp only [pathMove, pathMoveSched, lockTwoM_false]
    refine ⟨hc.lockTwo c _ _, ?_, ?_⟩
    · intro e
      simp only [Bool.not_eq_false'] at e
      rw [e] at hsec
      exact Quiet.single hsec
    · intro p0 e0 e
      simp only [List.head?_cons, Option.some.injEq] at e0
      subst e0
      simp only [Bool.not_eq_true', ] at e
      rw [e] at hsec
      exact Done.single hsec
  · have hb := hhead q0 rfl
    have := pathMove_go_sched c k v ca me fn hp rc (q0 :: q1 :: rest).reverse t q0 hc
      (RPathOK_reverse c hp _ hok) (by simp) (by rw [List.getLast?_reverse]; rfl) hb
    simp only [pathMove, pathMoveSched]
    refine ⟨this.1, this.2.1, ?_⟩
    intro p0 e0
    simp only [List.head?_cons, Option.some.injEq] at e0
    subst e0
    exact this.2.2

end

end Cuckoo.Model.SchedA
