import Cuckoo.Proofs.Defs
/-!
Chunk B, auxiliary lemmas: counter sums, the `Frame` relation (only cells of `cur` and stripe counters change),
one-cell updates of the live view.
-/
namespace Cuckoo.Model
open Cuckoo
variable {κ ν : Type}

/-! ### counters -/

theorem foldl_cnt_shift (l : List Lock) (acc d : Int) :
    l.foldl (fun s x => s + x.cnt) (acc + d) = l.foldl (fun s x => s + x.cnt) acc + d := by
  induction l generalizing acc with
  | nil => rfl
  | cons x xs ih =>
    simp only [List.foldl_cons]
    have : acc + d + x.cnt = acc + x.cnt + d := by omega
    rw [this, ih]

theorem foldl_cnt_modify (l : List Lock) (i : Nat) (f : Lock → Lock) (d : Int) (acc : Int)
    (hf : ∀ x, (f x).cnt = x.cnt + d) (hi : i < l.length) :
    (l.modify i f).foldl (fun s x => s + x.cnt) acc = l.foldl (fun s x => s + x.cnt) acc + d := by
  induction l generalizing i acc with
  | nil => simp at hi
  | cons x xs ih =>
    cases i with
    | zero =>
      simp only [List.modify_zero_cons, List.foldl_cons, hf]
      rw [← Int.add_assoc, foldl_cnt_shift]
    | succ i =>
      simp only [List.modify_succ_cons, List.foldl_cons]
      exact ih i _ (by simpa using hi)

theorem sumCnt_bump (c : Cfg κ) (t : Table κ ν) (b : Nat) (d : Int) (hi : c.lockInd b < t.locks.size) :
    (t.bump c b d).sumCnt = t.sumCnt + d := by
  unfold Table.sumCnt Table.bump
  simp only
  rw [← Array.foldl_toList, ← Array.foldl_toList, Array.toList_modify]
  exact foldl_cnt_modify _ _ _ d 0 (fun _ => rfl) (by simpa using hi)

theorem lockInd_lt_size {c : Cfg κ} {t : Table κ ν} (h : Inv c t) {b : Nat} (hb : b < 2 ^ t.hp) :
    c.lockInd b < t.locks.size := by
  obtain ⟨m, hm⟩ := h.M_pow
  have hM : 0 < c.M := by rw [hm]; exact Spec.two_pow_pos m
  have h1 := h.locks_ge
  have h2 : b % c.M < c.M := Nat.mod_lt _ hM
  have h3 : b % c.M ≤ b := Nat.mod_le _ _
  unfold Cfg.lockInd Spec.lockInd
  rw [Nat.min_def] at h1
  split at h1 <;> omega


/-- `t'` differs from `t` only in cells of `cur` and in stripe counters -/
structure Frame (t t' : Table κ ν) : Prop where
  hp : t'.cur.hp = t.cur.hp
  csize : t'.cur.cells.size = t.cur.cells.size
  old : t'.old = t.old
  lsize : t'.locks.size = t.locks.size
  lmig : ∀ i : Nat, (t'.locks[i]?).map Lock.migrated = (t.locks[i]?).map Lock.migrated
  rem : t'.rem = t.rem
  rc : t'.rc = t.rc
  mhp : t'.mhp = t.mhp

theorem Frame.unmigB {t t' : Table κ ν} (f : Frame t t') (c : Cfg κ) (b : Nat) :
    t'.unmigB c b = t.unmigB c b := by
  unfold Table.unmigB
  have := f.lmig (c.lockInd b)
  cases h1 : t'.locks[c.lockInd b]? <;> cases h2 : t.locks[c.lockInd b]? <;> simp_all

theorem Frame.nUnmig {t t' : Table κ ν} (f : Frame t t') : t'.nUnmig = t.nUnmig := by
  unfold Table.nUnmig
  have e : t'.locks.toList.map Lock.migrated = t.locks.toList.map Lock.migrated := by
    apply List.ext_getElem?
    intro i
    simp only [List.getElem?_map, Array.getElem?_toList]
    exact f.lmig i
  have k : ∀ l : List Lock, (l.filter (fun l => !l.migrated)).length = (l.map Lock.migrated).countP (!·) := by
    intro l
    rw [List.countP_map, List.countP_eq_length_filter]
    rfl
  rw [k, k, e]

theorem Frame.at_old {t t' : Table κ ν} (f : Frame t t') (c : Cfg κ) (b s : Nat) :
    t'.at c (.old b s) = t.at c (.old b s) := by
  simp only [Table.at, f.old, f.unmigB]

theorem Frame.allmig {t t' : Table κ ν} (f : Frame t t') (h : AllMig t) : AllMig t' := by
  intro i lk hlk
  have := f.lmig i
  rw [hlk] at this
  cases h2 : t.locks[i]? with
  | none => simp [h2] at this
  | some lk' =>
    have := h i lk' h2
    simp_all

theorem Frame.keeps {t t' : Table κ ν} (f : Frame t t') (c : Cfg κ) : Keeps c t t' :=
  ⟨f.hp, f.rc, fun b hb => by rw [f.unmigB]; exact hb, f.allmig⟩

theorem Frame.inv {c : Cfg κ} {t t' : Table κ ν} (f : Frame t t') (h : Inv c t)
    (place : ∀ b s sl, t'.cur.get c.S b s = some sl →
      sl.tag = c.tag sl.key ∧ (b = c.i1 t.hp sl.key ∨ b = c.i2 t.hp sl.key))
    (ue : ∀ b s, t.unmigB c b = true → t'.cur.get c.S b s = none)
    (uq : ∀ p p' sl sl', t'.at c p = some sl → t'.at c p' = some sl' → sl.key = sl'.key → p = p') :
    Inv c t' where
  S_pos := h.S_pos
  M_pow := h.M_pow
  cur_wf := ⟨by rw [f.csize, f.hp]; exact h.cur_wf.size, by
    intro b s sl hg
    have := place b s sl hg
    rw [f.hp]; exact this⟩
  locks_pow := by rw [f.lsize]; exact h.locks_pow
  locks_le := by rw [f.lsize]; exact h.locks_le
  locks_ge := by
    have := h.locks_ge
    rw [f.lsize]; unfold Table.hp at *; rw [f.hp]; exact this
  rem_eq := by rw [f.rem, f.nUnmig]; exact h.rem_eq
  pending := by
    intro hr
    rw [f.rem] at hr
    obtain ⟨o, h1, h2, h3, h4, h5⟩ := h.pending hr
    refine ⟨o, by rw [f.old]; exact h1, h2, ?_, h4, by rw [f.lsize]; exact h5⟩
    unfold Table.hp at *; rw [f.hp]; exact h3
  unmig_empty := by
    intro b s hb
    rw [f.unmigB] at hb
    exact ue b s hb
  uniq := uq
  limit := by
    have := h.limit
    rw [f.mhp]; unfold Table.hp at *; rw [f.hp]; exact this


theorem flat_lt {n S b s : Nat} (hb : b < n) (hs : s < S) : b * S + s < n * S := by
  have : (b + 1) * S ≤ n * S := Nat.mul_le_mul_right S hb
  rw [Nat.add_mul] at this
  omega

theorem cell_lt {c : Cfg κ} {t : Table κ ν} (h : Inv c t) {b s : Nat} (hb : b < 2 ^ t.hp) (hs : s < c.S) :
    b * c.S + s < t.cur.cells.size := by
  rw [h.cur_wf.size]; exact flat_lt hb hs

/-- the table obtained by overwriting one cell and adjusting the stripe counter -/
def Table.upd (c : Cfg κ) (t : Table κ ν) (b s : Nat) (nv : Option (Slot κ ν)) (d : Int) : Table κ ν :=
  ({ t with cur := t.cur.set c.S b s nv }).bump c b d

theorem upd_frame (c : Cfg κ) (t : Table κ ν) (b s : Nat) (nv) (d : Int) : Frame t (t.upd c b s nv d) where
  hp := rfl
  csize := by simp [Table.upd, Table.bump]
  old := rfl
  lsize := by simp [Table.upd, Table.bump]
  lmig := by
    intro i
    simp only [Table.upd, Table.bump, Array.getElem?_modify]
    split
    · cases t.locks[i]? <;> rfl
    · rfl
  rem := rfl
  rc := rfl
  mhp := rfl

theorem upd_get {c : Cfg κ} {t : Table κ ν} {b s : Nat} (nv) (d : Int) (hs : s < c.S)
    (hlt : b * c.S + s < t.cur.cells.size) (b' s' : Nat) :
    (t.upd c b s nv d).cur.get c.S b' s' = if b' = b ∧ s' = s then nv else t.cur.get c.S b' s' :=
  Store.get_set c.S t.cur b s b' s' nv hs hlt

theorem at_of_get {c : Cfg κ} {t t' : Table κ ν} {b s : Nat} {nv : Option (Slot κ ν)} (f : Frame t t')
    (hg : ∀ b' s', t'.cur.get c.S b' s' = if b' = b ∧ s' = s then nv else t.cur.get c.S b' s') (p : Loc) :
    t'.at c p = if p = .cur b s then nv else t.at c p := by
  cases p with
  | cur b' s' =>
    show t'.cur.get c.S b' s' = _
    rw [hg]
    simp only [Loc.cur.injEq]
    rfl
  | old b' s' =>
    rw [f.at_old]
    simp

theorem upd_at {c : Cfg κ} {t : Table κ ν} {b s : Nat} (nv) (d : Int) (hs : s < c.S)
    (hlt : b * c.S + s < t.cur.cells.size) (p : Loc) :
    (t.upd c b s nv d).at c p = if p = .cur b s then nv else t.at c p :=
  at_of_get (upd_frame c t b s nv d) (upd_get nv d hs hlt) p

theorem upd_sumCnt {c : Cfg κ} {t : Table κ ν} (h : Inv c t) {b : Nat} (s : Nat) (nv) (d : Int) (hb : b < 2 ^ t.hp) :
    (t.upd c b s nv d).sumCnt = t.sumCnt + d :=
  sumCnt_bump c _ b d (lockInd_lt_size h hb)

/-- live view after a one-position change -/
theorem live_of_at {c : Cfg κ} {t t' : Table κ ν} {q : Loc} {nv : Option (Slot κ ν)}
    (hat : ∀ p, t'.at c p = if p = q then nv else t.at c p) (x : Slot κ ν) :
    t'.Live c x ↔ ((∃ p, p ≠ q ∧ t.at c p = some x) ∨ nv = some x) := by
  constructor
  · rintro ⟨p, hp⟩
    rw [hat] at hp
    split at hp
    · exact .inr hp
    · exact .inl ⟨p, ‹_›, hp⟩
  · rintro (⟨p, hne, hp⟩ | hnv)
    · exact ⟨p, by rw [hat, if_neg hne]; exact hp⟩
    · exact ⟨q, by rw [hat, if_pos rfl]; exact hnv⟩

theorem others_of_some {c : Cfg κ} {t : Table κ ν} (h : Inv c t) {q : Loc} {sl : Slot κ ν}
    (hq : t.at c q = some sl) (x : Slot κ ν) :
    (∃ p, p ≠ q ∧ t.at c p = some x) ↔ (t.Live c x ∧ x.key ≠ sl.key) := by
  constructor
  · rintro ⟨p, hne, hp⟩
    exact ⟨⟨p, hp⟩, fun hk => hne (h.uniq p q x sl hp hq hk)⟩
  · rintro ⟨⟨p, hp⟩, hk⟩
    refine ⟨p, ?_, hp⟩
    intro e
    subst e
    rw [hq] at hp
    cases hp
    exact hk rfl

theorem others_of_none {c : Cfg κ} {t : Table κ ν} {q : Loc}
    (hq : t.at c q = none) (x : Slot κ ν) :
    (∃ p, p ≠ q ∧ t.at c p = some x) ↔ t.Live c x := by
  constructor
  · rintro ⟨p, _, hp⟩
    exact ⟨p, hp⟩
  · rintro ⟨p, hp⟩
    refine ⟨p, ?_, hp⟩
    intro e
    subst e
    rw [hq] at hp
    cases hp

theorem uniq_of_at {c : Cfg κ} {t t' : Table κ ν} (h : Inv c t) {q : Loc} {nv : Option (Slot κ ν)}
    (hat : ∀ p, t'.at c p = if p = q then nv else t.at c p)
    (hnew : ∀ x, nv = some x → ∀ p sl, p ≠ q → t.at c p = some sl → sl.key ≠ x.key) :
    ∀ p p' sl sl', t'.at c p = some sl → t'.at c p' = some sl' → sl.key = sl'.key → p = p' := by
  intro p p' sl sl' hp hp' hk
  rw [hat] at hp hp'
  by_cases e : p = q <;> by_cases e' : p' = q
  · rw [e, e']
  · rw [if_pos e] at hp; rw [if_neg e'] at hp'
    exact absurd hk.symm (hnew sl hp p' sl' e' hp')
  · rw [if_neg e] at hp; rw [if_pos e'] at hp'
    exact absurd hk (hnew sl' hp' p sl e hp)
  · rw [if_neg e] at hp; rw [if_neg e'] at hp'
    exact h.uniq p p' sl sl' hp hp' hk

/-! ### bucket scans -/

/-- no well-tagged cell of bucket `b` with slot in `[lo, hi)` holds key `k` -/
def NoKeyIn (c : Cfg κ) (st : Store κ ν) (b : Nat) (k : κ) (lo hi : Nat) : Prop :=
  ∀ r, lo ≤ r → r < hi → ∀ sl, st.get c.S b r = some sl → sl.tag = c.tag sl.key → sl.key ≠ k

theorem NoKeyIn.step {c : Cfg κ} {st : Store κ ν} {b : Nat} {k : κ} {s fuel : Nat}
    (a1 : ∀ sl, st.get c.S b s = some sl → sl.tag = c.tag sl.key → sl.key ≠ k)
    (a2 : NoKeyIn c st b k (s + 1) (s + 1 + fuel)) : NoKeyIn c st b k s (s + (fuel + 1)) := by
  intro r h1 h2
  by_cases e : r = s
  · rw [e]; exact a1
  · exact a2 r (by omega) (by omega)

theorem match_true_of [DecidableEq κ] {c : Cfg κ} {k : κ} {sl : Slot κ ν} (ht : sl.tag = c.tag sl.key) (hk : sl.key = k) :
    ((c.simple || c.tag k == sl.tag) && decide (sl.key = k)) = true := by
  subst hk
  simp [ht]

theorem findGo_some [DecidableEq κ] (c : Cfg κ) (st : Store κ ν) (b : Nat) (k : κ) (s fuel r : Nat)
    (hr : findInBucket.go c st b k (c.tag k) s fuel = some r) :
    ∃ sl, st.get c.S b r = some sl ∧ sl.key = k := by
  induction fuel generalizing s with
  | zero => unfold findInBucket.go at hr; cases hr
  | succ fuel ih =>
    unfold findInBucket.go at hr
    cases hg : st.get c.S b s with
    | none => rw [hg] at hr; exact ih _ hr
    | some sl =>
      rw [hg] at hr
      simp only at hr
      split at hr
      · rename_i hc
        cases hr
        refine ⟨sl, hg, ?_⟩
        simp at hc
        exact hc.2
      · exact ih _ hr

theorem findGo_none [DecidableEq κ] (c : Cfg κ) (st : Store κ ν) (b : Nat) (k : κ) (s fuel : Nat)
    (hr : findInBucket.go c st b k (c.tag k) s fuel = none) : NoKeyIn c st b k s (s + fuel) := by
  induction fuel generalizing s with
  | zero => intro r h1 h2; omega
  | succ fuel ih =>
    unfold findInBucket.go at hr
    cases hg : st.get c.S b s with
    | none =>
      rw [hg] at hr
      refine NoKeyIn.step ?_ (ih _ hr)
      intro sl hsl; rw [hg] at hsl; cases hsl
    | some sl =>
      rw [hg] at hr
      simp only at hr
      split at hr
      · cases hr
      · rename_i hc
        refine NoKeyIn.step ?_ (ih _ hr)
        intro sl' hsl ht hk
        rw [hg] at hsl; cases hsl
        exact hc (match_true_of ht hk)

theorem findInBucket_some [DecidableEq κ] {c : Cfg κ} {st : Store κ ν} {b : Nat} {k : κ} {r : Nat}
    (h : findInBucket c st b k = some r) : ∃ sl, st.get c.S b r = some sl ∧ sl.key = k :=
  findGo_some c st b k 0 c.S r h

theorem findInBucket_none [DecidableEq κ] {c : Cfg κ} {st : Store κ ν} {b : Nat} {k : κ}
    (h : findInBucket c st b k = none) : NoKeyIn c st b k 0 c.S := by
  have := findGo_none c st b k 0 c.S h
  rw [Nat.zero_add] at this
  exact this


theorem scanGo_dup [DecidableEq κ] (c : Cfg κ) (st : Store κ ν) (b : Nat) (k : κ) (s fuel : Nat) (free : Option Nat)
    (r : Nat) (hr : scanForInsert.go c st b k (c.tag k) s fuel free = .dup r) :
    ∃ sl, st.get c.S b r = some sl ∧ sl.key = k := by
  induction fuel generalizing s free with
  | zero => unfold scanForInsert.go at hr; cases hr
  | succ fuel ih =>
    unfold scanForInsert.go at hr
    cases hg : st.get c.S b s with
    | none => rw [hg] at hr; exact ih _ _ hr
    | some sl =>
      rw [hg] at hr
      simp only at hr
      split at hr
      · rename_i hc
        cases hr
        refine ⟨sl, hg, ?_⟩
        simp at hc
        exact hc.2
      · exact ih _ _ hr

theorem scanGo_free [DecidableEq κ] (c : Cfg κ) (st : Store κ ν) (b : Nat) (k : κ) (s fuel : Nat) (free f : Option Nat)
    (hr : scanForInsert.go c st b k (c.tag k) s fuel free = .free f) :
    NoKeyIn c st b k s (s + fuel) ∧
    ∀ x, f = some x → free = some x ∨ (x < s + fuel ∧ st.get c.S b x = none) := by
  induction fuel generalizing s free with
  | zero =>
    unfold scanForInsert.go at hr
    cases hr
    exact ⟨fun r h1 h2 => by omega, fun x hx => .inl hx⟩
  | succ fuel ih =>
    unfold scanForInsert.go at hr
    cases hg : st.get c.S b s with
    | none =>
      rw [hg] at hr
      obtain ⟨a, a'⟩ := ih _ _ hr
      refine ⟨NoKeyIn.step ?_ a, ?_⟩
      · intro sl hsl; rw [hg] at hsl; cases hsl
      · intro x hx
        rcases a' x hx with e | ⟨e1, e2⟩
        · cases e; exact .inr ⟨by omega, hg⟩
        · exact .inr ⟨by omega, e2⟩
    | some sl =>
      rw [hg] at hr
      simp only at hr
      split at hr
      · cases hr
      · rename_i hc
        obtain ⟨a, a'⟩ := ih _ _ hr
        refine ⟨NoKeyIn.step ?_ a, ?_⟩
        · intro sl' hsl ht hk
          rw [hg] at hsl; cases hsl
          exact hc (match_true_of ht hk)
        · intro x hx
          rcases a' x hx with e | ⟨e1, e2⟩
          · exact .inl e
          · exact .inr ⟨by omega, e2⟩

theorem scan_dup [DecidableEq κ] {c : Cfg κ} {st : Store κ ν} {b : Nat} {k : κ} {r : Nat}
    (h : scanForInsert c st b k = .dup r) : ∃ sl, st.get c.S b r = some sl ∧ sl.key = k :=
  scanGo_dup c st b k 0 c.S none r h

theorem scan_free [DecidableEq κ] {c : Cfg κ} {st : Store κ ν} {b : Nat} {k : κ} {f : Option Nat}
    (h : scanForInsert c st b k = .free f) :
    NoKeyIn c st b k 0 c.S ∧ ∀ x, f = some x → x < c.S ∧ st.get c.S b x = none := by
  have := scanGo_free c st b k 0 c.S none f h
  rw [Nat.zero_add] at this
  refine ⟨this.1, fun x hx => ?_⟩
  rcases this.2 x hx with e | e
  · cases e
  · exact e

/-! ### a key absent from both candidate buckets is not live -/

theorem unmigB_congr_lockInd {c : Cfg κ} {t : Table κ ν} {b b' : Nat} (e : c.lockInd b = c.lockInd b') :
    t.unmigB c b = t.unmigB c b' := by
  unfold Table.unmigB; rw [e]

theorem nUnmig_pos {c : Cfg κ} {t : Table κ ν} {b : Nat} (h : t.unmigB c b = true) : 0 < t.nUnmig := by
  unfold Table.unmigB at h
  split at h
  · rename_i lk hlk
    unfold Table.nUnmig
    apply List.length_pos_of_mem (a := lk)
    rw [List.mem_filter]
    refine ⟨?_, h⟩
    apply List.mem_of_getElem? (i := c.lockInd b)
    rw [Array.getElem?_toList]; exact hlk
  · cases h

theorem old_stripe {c : Cfg κ} {t : Table κ ν} (h : Inv c t) {o : Store κ ν} (ho : t.old = some o)
    {b s : Nat} {sl : Slot κ ν} (hu : t.unmigB c b = true) (hg : o.get c.S b s = some sl) :
    c.lockInd b = c.lockInd (c.i1 t.hp sl.key) ∨ c.lockInd b = c.lockInd (c.i2 t.hp sl.key) := by
  have hrem : 0 < t.rem := by rw [h.rem_eq]; exact nUnmig_pos hu
  obtain ⟨o', ho', hwf, hhp, hM, _⟩ := h.pending hrem
  rw [ho] at ho'; cases ho'
  obtain ⟨m, hm⟩ := h.M_pow
  have hmle : m ≤ o.hp := by
    rw [hm] at hM
    exact (Nat.pow_le_pow_iff_right (by decide)).mp hM
  obtain ⟨_, hpl⟩ := hwf.place b s sl hg
  unfold Cfg.lockInd
  rw [hm, ← hhp]
  rcases hpl with e | e
  · left
    rw [e, ← Spec.lockInd_mod m o.hp (c.i1 (o.hp + 1) sl.key) hmle]
    unfold Cfg.i1
    rw [Spec.indexHash_double_mod]
  · right
    rw [e, ← Spec.lockInd_mod m o.hp (c.i2 (o.hp + 1) sl.key) hmle]
    unfold Cfg.i2
    rw [Spec.altIndex_double_mod]
    unfold Cfg.i1
    rw [Spec.indexHash_double_mod]

theorem not_live_of_noKey {c : Cfg κ} {t : Table κ ν} {k : κ} (h : Inv c t)
    (h1 : t.unmigB c (c.i1 t.hp k) = false) (h2 : t.unmigB c (c.i2 t.hp k) = false)
    (n1 : NoKeyIn c t.cur (c.i1 t.hp k) k 0 c.S) (n2 : NoKeyIn c t.cur (c.i2 t.hp k) k 0 c.S) :
    ∀ tag v, ¬ t.Live c ⟨tag, k, v⟩ := by
  rintro tag v ⟨p, hp⟩
  cases p with
  | cur b s =>
    have hp : t.cur.get c.S b s = some ⟨tag, k, v⟩ := hp
    obtain ⟨hs, _⟩ := Store.get_some_lt hp
    obtain ⟨ht, hb⟩ := h.cur_wf.place b s _ hp
    rcases hb with e | e
    · rw [e] at hp; exact n1 s (Nat.zero_le _) hs _ hp ht rfl
    · rw [e] at hp; exact n2 s (Nat.zero_le _) hs _ hp ht rfl
  | old b s =>
    simp only [Table.at] at hp
    split at hp
    · rename_i o ho
      split at hp
      · rename_i hu
        rcases old_stripe h ho hu hp with e | e
        · rw [unmigB_congr_lockInd e] at hu
          rw [h1] at hu; cases hu
        · rw [unmigB_congr_lockInd e] at hu
          rw [h2] at hu; cases hu
      · cases hp
    · cases hp

end Cuckoo.Model
