import Cuckoo.Proofs.LifeAux4
/-!
Helper lemmas for `Props/C08Life.lean`, part 5 — the shape of the tables the resize paths produce
(`cuckoo_fast_double`, `cuckoo_expand_simple`) and the insertions of the rebuild loop (never property statements).
-/
namespace Cuckoo.Model
open Cuckoo
variable {κ ν : Type}

/-! ### `cuckoo_fast_double` -/

theorem fastDouble_success_eq [DecidableEq κ] (c : Cfg κ) (locked auto : Bool) (fuel : Nat) (t : Table κ ν)
    (hn : c.nothrowMove = true) (hchk : t.checkResize c auto (t.hp + 1) = none) (hlim : t.hp + 1 ≤ c.hpLimit) :
    fastDouble c locked auto (fuel + 1) t t.hp =
      (Rz.bumpRc (Rz.doubleCore c locked (t.migrateAll c) (t.hp + 1)), .ok true) := by
  rw [fastDouble.eq_2]
  have hl : ¬ t.hp + 1 > c.hpLimit := by omega
  simp only [hn, Bool.not_true, Bool.false_eq_true, if_false, hchk, ne_eq, not_true_eq_false, hl]
  rfl

/-- the lazy branch (at least `M` buckets, normal mode): the former current array becomes the old array as it is,
a fresh empty array becomes current, every stripe is flagged un-migrated -/
theorem doubleCore_lazy_eq [DecidableEq κ] (c : Cfg κ) (t1 : Table κ ν) (h1 : Inv c t1) (hge : c.M ≤ 2 ^ t1.hp) :
    Rz.doubleCore c false t1 (t1.hp + 1) =
      { t1 with old := some t1.cur, cur := Store.mk' c.S (t1.hp + 1),
                locks := t1.locks.map (fun l => ({ l with migrated := false } : Lock)), rem := t1.locks.size } := by
  have hsz : c.M ≤ t1.locks.size := by have := h1.locks_ge; omega
  unfold Rz.doubleCore
  dsimp only
  rw [Rz.mrl_noop c t1 _ hsz, if_neg (show ¬ 2 ^ t1.cur.hp < c.M from by show ¬ 2 ^ t1.hp < c.M; omega)]
  simp

/-- the eager branch (fewer than `M` buckets): every bucket is split at once and the old array is released -/
theorem doubleCore_eager_eq [DecidableEq κ] (c : Cfg κ) (locked : Bool) (t1 : Table κ ν) (hlt : 2 ^ t1.hp < c.M) :
    Rz.doubleCore c locked t1 (t1.hp + 1) =
      { t1.maybeResizeLocks c (2 ^ (t1.hp + 1)) with
          cur := fastDouble.mv c t1.cur (2 ^ t1.hp) 0 (Store.mk' c.S (t1.hp + 1)), old := none, rem := 0 } := by
  have hc := Rz.maybeResizeLocks_spec' c t1 (2 ^ (t1.hp + 1))
  unfold Rz.doubleCore
  dsimp only
  rw [if_pos (by rw [hc.1]; exact hlt), hc.1]
  simp [Table.setRem]
  rfl

/-- in the lazy branch every cell of the new old array is live, under its old coordinates -/
theorem lazy_at_old (c : Cfg κ) (t1 t' : Table κ ν) (h1 : Inv c t1) (hge : c.M ≤ 2 ^ t1.hp)
    (hold : t'.old = some t1.cur)
    (hlocks : t'.locks = t1.locks.map (fun l => ({ l with migrated := false } : Lock))) (b s : Nat) :
    t'.unmigB c b = true ∧ t'.at c (.old b s) = t1.cur.get c.S b s := by
  have hsz : t1.locks.size = c.M := by
    have := h1.locks_ge; have := h1.locks_le; omega
  have hMpos : 0 < c.M := by obtain ⟨m, hm⟩ := h1.M_pow; rw [hm]; exact Spec.two_pow_pos m
  have hu : t'.unmigB c b = true := by
    unfold Table.unmigB
    rw [hlocks, Array.getElem?_map]
    have hlt : c.lockInd b < t1.locks.size := by
      rw [hsz]; exact Nat.mod_lt _ hMpos
    rw [Array.getElem?_eq_getElem hlt]
    rfl
  refine ⟨hu, ?_⟩
  simp only [Table.at, hold, hu, if_true]

/-! ### `cuckoo_expand_simple` -/

/-- the temporary map of `cuckoo_expand_simple` -/
def tmpMap (c : Cfg κ) (auto : Bool) (t : Table κ ν) (newHp : Nat) : Table κ ν :=
  { (Table.init c (2 ^ newHp * c.S)) with workers := t.workers, mlf := if auto then t.mlf else 0.0, mhp := t.mhp }

/-- shape of a successful rebuild -/
theorem expandSimple_ok_shape [DecidableEq κ] (c : Cfg κ) (locked auto : Bool) (fuel : Nat) (t t' : Table κ ν)
    (newHp : Nat) (r : Bool) (h : expandSimple c locked auto fuel t newHp = (t', .ok r)) :
    ∃ fuel' nmf, fuel = fuel' + 1 ∧ t.checkResize c auto newHp = none ∧ newHp ≤ c.hpLimit ∧
      (t.migrateAll c).cur.elems.foldl (rebuildStep c (insertLoop c false fuel'))
        (tmpMap c auto (t.migrateAll c) newHp, .ok ()) = (nmf, .ok ()) ∧
      t'.cur = (nmf.migrateAll c).cur ∧ t'.old = (t.migrateAll c).old ∧ r = true := by
  cases fuel with
  | zero => rw [expandSimple.eq_1] at h; cases h
  | succ fuel' =>
    rw [expandSimple.eq_2] at h
    split at h
    · cases h
    · rename_i hnone
      dsimp only at h
      split at h
      · cases h
      · rename_i hlim
        split at h
        · cases h
        · rename_i nmf u heq
          have hc := Rz.maybeResizeLocks_spec' c (t.migrateAll c) (2 ^ (nmf.migrateAll c).hp)
          injection h with h1 h2
          injection h2 with h2
          subst h1
          refine ⟨fuel', nmf, rfl, hnone, by omega, ?_, rfl, hc.2.1, h2.symm⟩
          cases u
          exact heq

/-- shape of a failed rebuild in the model: the table is the original one, possibly with its pending migration
finished (nothing else) -/
theorem expandSimple_err_shape [DecidableEq κ] (c : Cfg κ) (locked auto : Bool) (fuel : Nat) (t t' : Table κ ν)
    (newHp : Nat) (e : Err) (h : expandSimple c locked auto fuel t newHp = (t', .err e)) :
    t' = t ∨ t' = t.migrateAll c := by
  cases fuel with
  | zero => rw [expandSimple.eq_1] at h; cases h; exact Or.inl rfl
  | succ fuel' =>
    rw [expandSimple.eq_2] at h
    split at h
    · cases h; exact Or.inl rfl
    · dsimp only at h
      split at h
      · cases h; exact Or.inr rfl
      · split at h
        · cases h; exact Or.inr rfl
        · cases h

/-! ### the insertions of the rebuild loop -/

/-- before each element of the list is inserted, the temporary map satisfies the invariant and does not hold the
element's key -/
theorem rebuild_prefix [DecidableEq κ] (c : Cfg κ) (fuel : Nat) (L : List (Slot κ ν)) (nm : Table κ ν)
    (hnm : Inv c nm) (htag : ∀ sl ∈ L, sl.tag = c.tag sl.key) (hpw : L.Pairwise (fun a b => a.key ≠ b.key))
    (hfresh : ∀ sl ∈ L, ∀ tag v, ¬ nm.Live c ⟨tag, sl.key, v⟩)
    (pre post : List (Slot κ ν)) (sl : Slot κ ν) (hsplit : L = pre ++ sl :: post) (acc : Table κ ν)
    (hacc : pre.foldl (rebuildStep c (insertLoop c false fuel)) (nm, .ok ()) = (acc, .ok ())) :
    Inv c acc ∧ ∀ tag v, ¬ acc.Live c ⟨tag, sl.key, v⟩ := by
  subst hsplit
  have hpre : ∀ x ∈ pre, x ∈ pre ++ sl :: post := fun x hx => List.mem_append_left _ hx
  rw [List.pairwise_append] at hpw
  have fr := Rz.foldl_rebuild c fuel (Rz.resize_all c ν fuel).1 pre nm hnm
    (fun x hx => htag x (hpre x hx)) hpw.1 (fun x hx => hfresh x (hpre x hx))
  rw [hacc] at fr
  obtain ⟨f1, _, f3⟩ := fr
  dsimp only at f1 f3
  refine ⟨f1, ?_⟩
  intro tag v hl
  rcases (f3 _).mp hl with h0 | h0
  · exact hfresh sl (List.mem_append_right _ List.mem_cons_self) tag v h0
  · exact hpw.2.2 _ h0 sl List.mem_cons_self rfl

/-- the conditions of `rebuild_prefix` hold for the elements of the current array and the fresh temporary map -/
theorem rebuild_conditions (c : Cfg κ) (auto : Bool) (t1 : Table κ ν) (newHp : Nat) (h1 : Inv c t1)
    (hlim : t1.mhp = noMaxHp ∨ newHp ≤ t1.mhp) :
    Inv c (tmpMap c auto t1 newHp) ∧ (∀ sl ∈ t1.cur.elems, sl.tag = c.tag sl.key) ∧
    t1.cur.elems.Pairwise (fun a b => a.key ≠ b.key) ∧
    (∀ sl ∈ t1.cur.elems, ∀ tag v, ¬ (tmpMap c auto t1 newHp).Live c ⟨tag, sl.key, v⟩) ∧
    (∀ b s, (tmpMap c auto t1 newHp).cur.get c.S b s = none) := by
  have hlim' : t1.mhp = noMaxHp ∨ Spec.reserveCalc c.S (2 ^ newHp * c.S) ≤ t1.mhp := by
    rcases hlim with h0 | h0
    · exact Or.inl h0
    · exact Or.inr (Nat.le_trans (Rz.reserveCalc_le _ _ h1.S_pos) h0)
  obtain ⟨n1, _, n3, _⟩ := Rz.init_spec c (2 ^ newHp * c.S) t1.workers
    (if auto = true then t1.mlf else 0.0) t1.mhp h1.S_pos h1.M_pow hlim' (tmpMap c auto t1 newHp) rfl
  refine ⟨n1, ?_, Rz.elems_pairwise h1.S_pos _ (Rz.inv_curUniq h1), fun sl _ tag v hl => n3 _ hl, ?_⟩
  · intro sl hsl
    obtain ⟨b, s, hg⟩ := (Rz.mem_elems h1.S_pos _ sl).mp hsl
    exact (h1.cur_wf.place b s sl hg).1
  · intro b s
    exact Store.mk'_get _ _ _ _

end Cuckoo.Model
