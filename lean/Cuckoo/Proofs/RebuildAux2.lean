import Cuckoo.Proofs.RebuildAux1
import Cuckoo.Proofs.SchedAux5
import Cuckoo.Proofs.Resize
import Cuckoo.Props.C05
/-!
Helper lemmas for `Cuckoo/Props/C02Rebuild.lean`, part 2: the statement about schedules (`RebuildSched`, `rebuild_core`),
and the sequential loop of `cuckoo_expand_simple` (`foldl rebuildStep`) as one such schedule.  Never property statements.
-/
namespace Cuckoo.Model.RebuildA
open Cuckoo Cuckoo.Model Cuckoo.Model.Conc Cuckoo.Model.Sched Cuckoo.Model.SchedA Cuckoo.Spec Cuckoo.Props.C01Conc
variable {κ ν : Type} [DecidableEq κ]

/-- run of a schedule of events -/
abbrev run {c : Cfg κ} (t0 : Table κ ν) (evs : List (Ev c ν)) : Table κ ν × List (Option (Resp ν)) :=
  exec t0 (evs.map (·.f))

/-- `evs` is a schedule of a (helper-thread) rebuild of `items` on the temporary map `t0`: any interleaving of sections of
`new_map.insert(k, v)` calls, in whose run every call that answers succeeds, and for every item exactly one call on it
answers (the list of answered calls, in the order of their final sections, is a rearrangement of `items`) -/
structure RebuildSched (c : Cfg κ) (items : List (κ × ν)) (t0 : Table κ ν) (evs : List (Ev c ν)) : Prop where
  calls : ∀ ev ∈ evs, ∃ k v, ev.call = insCall k v
  ok : AllOk (run t0 evs).2
  once : (completed (evs.map (·.call)) (run t0 evs).2).Perm items

theorem rebuild_core (c : Cfg κ) (items : List (κ × ν)) (hnd : (items.map Prod.fst).Nodup) (t0 : Table κ ν)
    (h : Inv c t0) (hr : Rel c t0 []) (evs : List (Ev c ν)) (hs : RebuildSched c items t0 evs) :
    Inv c (run t0 evs).1 ∧ Rel c (run t0 evs).1 (completed (evs.map (·.call)) (run t0 evs).2).reverse ∧
    AllNew (run t0 evs).2 := by
  obtain ⟨m', l1, l2, l3⟩ := conc_linearizable c evs t0 [] h hr
  have hc : ∀ cl ∈ evs.map (·.call), ∃ k v, cl = insCall k v := by
    intro cl hcl
    obtain ⟨ev, hev, e⟩ := List.mem_map.mp hcl
    rw [← e]
    exact hs.calls ev hev
  have hnd' : ((completed (evs.map (·.call)) (run t0 evs).2).map Prod.fst).Nodup :=
    ((hs.once.map Prod.fst).nodup_iff).mpr hnd
  obtain ⟨e1, e2⟩ := linRun_inserts _ _ [] m' hc hs.ok l1 hnd' (fun _ _ => rfl)
  rw [List.append_nil] at e1
  rw [e1] at l3
  exact ⟨l2, l3, e2⟩

/-! ### the sequential loop as a schedule -/

/-- `insert`'s functor -/
abbrev insFn : Ctx → ν → FnOut ν := fun _ w => .ret w false

omit [DecidableEq κ] in
theorem finishInsert_dup_resp [DecidableEq κ] (c : Cfg κ) (t : Table κ ν) (k : κ) (v : ν) (b s : Nat) :
    ∃ cs, (finishInsert c t k v false false insFn (.dup b s)).2 = Resp.bool (.ok false) cs := by
  unfold finishInsert applyFn
  simp only
  split
  · exact ⟨_, rfl⟩
  · exact ⟨_, rfl⟩

theorem finishInsert_free (c : Cfg κ) (t : Table κ ν) (k : κ) (v : ν) (b s : Nat) :
    finishInsert c t k v false false insFn (.free b s) = (t.addTo c b s ⟨c.tag k, k, v⟩, Resp.bool (.ok true) []) := rfl

theorem replicate_map_call (c : Cfg κ) (call : Props.C01Conc.Call κ ν) (l : List (Section κ ν)) (hall : AllSec c call l) :
    ∀ ev ∈ mkEvs c call l hall, ev.call = call := by
  intro ev hev
  have h1 : ev.call ∈ (mkEvs c call l hall).map (·.call) := List.mem_map_of_mem hev
  rw [mkEvs_call] at h1
  exact (List.mem_replicate.mp h1).2

/-- one `new_map.insert(k, v)` of an absent key, run alone: it is a schedule of sections of that call, only the last of
which answers, with `true`; the duplicate branch of `rebuildStep` is not taken -/
theorem one_insert_sched (c : Cfg κ) (fuel : Nat) (nm : Table κ ν) (m : AMap κ ν) (k : κ) (v : ν)
    (h : Inv c nm) (hr : Rel c nm m) (hk : m.lookup k = none) (nm1 : Table κ ν) (pos : InsPos)
    (hins : insertLoop c false fuel nm k = (nm1, .ok pos)) :
    ∃ b s, pos = .free b s ∧ Inv c (nm1.addTo c b s ⟨c.tag k, k, v⟩) ∧ Rel c (nm1.addTo c b s ⟨c.tag k, k, v⟩) ((k, v) :: m) ∧
      ∃ (evs : List (Ev c ν)) (n : Nat), evs.map (·.call) = List.replicate (n + 1) (insCall k v) ∧
        run nm evs = (nm1.addTo c b s ⟨c.tag k, k, v⟩, List.replicate n none ++ [some (Resp.bool (.ok true) [])]) := by
  have hne : (insertLoop c false fuel nm k).2 ≠ .err .fuel := by rw [hins]; intro e; cases e
  have hd := (ins_sched c k v false false insFn fuel nm hne).eq
  have hall : AllSec c (insCall k v) (insSched c k v false false insFn fuel nm) := insSched_all c k v false false insFn fuel nm
  have hlen := exec_length nm (insSched c k v false false insFn fuel nm)
  rw [hd] at hlen
  simp only [List.length_append, List.length_replicate, List.length_cons, List.length_nil] at hlen
  generalize hn : (insSched c k v false false insFn fuel nm).length - 1 = n at hd hlen
  obtain ⟨m1, l1, l2, l3⟩ := conc_linearizable c (mkEvs c (insCall k v) _ hall) nm m h hr
  rw [mkEvs_f, hd] at l2 l3
  rw [mkEvs_f, mkEvs_call, hd, ← hlen] at l1
  have hspec := linRun_single _ _ n m m1 l1
  rw [hins] at hspec l2 l3 hd
  simp only [fin] at hspec l2 l3 hd
  cases pos with
  | dup b s =>
    obtain ⟨cs, hcs⟩ := finishInsert_dup_resp c nm1 k v b s
    rw [hcs] at hspec
    have := (specOf_ins_absent m m1 k v _ hk hspec ⟨_, _, rfl⟩).1
    cases this
  | free b s =>
    rw [finishInsert_free] at hspec l2 l3 hd
    have hm1 := (specOf_ins_absent m m1 k v _ hk hspec ⟨_, _, rfl⟩).2
    rw [hm1] at l3
    refine ⟨b, s, rfl, l2, l3, mkEvs c (insCall k v) _ hall, n, ?_, ?_⟩
    · rw [mkEvs_call, ← hlen]
    · show exec nm ((mkEvs c (insCall k v) _ hall).map (·.f)) = _
      rw [mkEvs_f, hd]

/-- the loop `for each element of the old array: new_map.insert(key, value)` of `cuckoo_expand_simple`, run by one thread
and ending without exception, is the run of a schedule of `insert` calls, one per element, all answering `true` -/
theorem seq_rebuild_sched (c : Cfg κ) (fuel : Nat) : ∀ (L : List (Slot κ ν)) (nm : Table κ ν) (m : AMap κ ν),
    Inv c nm → Rel c nm m → (L.map (·.key)).Nodup → (∀ sl ∈ L, m.lookup sl.key = none) →
    ∀ nmF, L.foldl (rebuildStep c (insertLoop c false fuel)) (nm, .ok ()) = (nmF, .ok ()) →
    ∃ evs : List (Ev c ν),
      (∀ ev ∈ evs, ∃ sl ∈ L, ev.call = insCall sl.key sl.val) ∧ (run nm evs).1 = nmF ∧ AllOk (run nm evs).2 ∧
      completed (evs.map (·.call)) (run nm evs).2 = L.map (fun sl => (sl.key, sl.val)) := by
  intro L
  induction L with
  | nil =>
    intro nm m _ _ _ _ nmF hf
    cases hf
    exact ⟨[], fun _ h => (by cases h), rfl, fun _ h => (by cases h), rfl⟩
  | cons sl L ih =>
    intro nm m h hr hnd hab nmF hf
    rw [List.foldl_cons, Rz.rebuildStep_ok] at hf
    rw [List.map_cons, List.nodup_cons] at hnd
    rcases hins : insertLoop c false fuel nm sl.key with ⟨nm1, pos | e⟩
    · obtain ⟨b, s, hpos, i1, r1, evs1, n, hc1, hrun1⟩ :=
        one_insert_sched c fuel nm m sl.key sl.val h hr (hab sl List.mem_cons_self) nm1 pos hins
      subst hpos
      rw [hins] at hf
      simp only at hf
      have hab' : ∀ x ∈ L, AMap.lookup ((sl.key, sl.val) :: m) x.key = none := by
        intro x hx
        rw [AMap.lookup_cons]
        have hne : sl.key ≠ x.key := by
          intro e
          apply hnd.1
          rw [List.mem_map]
          exact ⟨x, hx, e.symm⟩
        rw [if_neg hne]
        exact hab x (List.mem_cons_of_mem _ hx)
      obtain ⟨evs2, hc2, ht2, hok2, hcomp2⟩ := ih _ _ i1 r1 hnd.2 hab' nmF hf
      have hrunA : run nm (evs1 ++ evs2) =
          ((run (nm1.addTo c b s ⟨c.tag sl.key, sl.key, sl.val⟩) evs2).1,
           (List.replicate n none ++ [some (Resp.bool (.ok true) [])]) ++
             (run (nm1.addTo c b s ⟨c.tag sl.key, sl.key, sl.val⟩) evs2).2) := by
        show exec nm ((evs1 ++ evs2).map (·.f)) = _
        rw [List.map_append, exec_append]
        have : exec nm (evs1.map (·.f)) = run nm evs1 := rfl
        rw [this, hrun1]
      refine ⟨evs1 ++ evs2, ?_, ?_, ?_, ?_⟩
      · intro ev hev
        rcases List.mem_append.mp hev with e | e
        · refine ⟨sl, List.mem_cons_self, ?_⟩
          have h1 : ev.call ∈ evs1.map (·.call) := List.mem_map_of_mem e
          rw [hc1] at h1
          exact (List.mem_replicate.mp h1).2
        · obtain ⟨x, hx, e'⟩ := hc2 ev e
          exact ⟨x, List.mem_cons_of_mem _ hx, e'⟩
      · rw [hrunA]; exact ht2
      · rw [hrunA]
        intro r hrm
        rcases List.mem_append.mp hrm with e | e
        · rcases List.mem_append.mp e with e | e
          · exact absurd (List.mem_replicate.mp e).2 (by intro h; cases h)
          · rw [List.mem_singleton] at e
            cases e
            exact ⟨_, _, rfl⟩
        · exact hok2 r e
      · rw [hrunA, List.map_append, hc1]
        rw [completed_append _ _ _ _ (by simp), hcomp2, List.replicate_succ', completed_replicate_none]
        rfl
    · rw [hins] at hf
      simp only at hf
      rw [Rz.foldl_rebuild_err] at hf
      cases hf

end Cuckoo.Model.RebuildA
