import Cuckoo.Spec.Map
/-! Helper lemmas about the abstract map (never property statements). -/
namespace Cuckoo.Spec
variable {κ ν : Type} [DecidableEq κ]

theorem AMap.lookup_nil (k : κ) : (([] : AMap κ ν)).lookup k = none := rfl

theorem AMap.lookup_cons (k' : κ) (v : ν) (rest : AMap κ ν) (k : κ) :
    AMap.lookup ((k', v) :: rest) k = if k' = k then some v else AMap.lookup rest k := rfl

theorem AMap.mem_of_lookup (m : AMap κ ν) (k : κ) (v : ν) (h : m.lookup k = some v) : (k, v) ∈ m := by
  induction m with
  | nil => cases h
  | cons p rest ih =>
    obtain ⟨k', w⟩ := p
    rw [AMap.lookup_cons] at h
    split at h
    · rename_i e
      cases h
      rw [e]
      exact List.mem_cons_self
    · exact List.mem_cons_of_mem _ (ih h)

theorem AMap.lookup_eq_some_iff (m : AMap κ ν) (hn : (m.map Prod.fst).Nodup) (k : κ) (v : ν) :
    m.lookup k = some v ↔ (k, v) ∈ m := by
  refine ⟨AMap.mem_of_lookup m k v, ?_⟩
  induction m with
  | nil => intro h; cases h
  | cons p rest ih =>
    obtain ⟨k', w⟩ := p
    intro h
    rw [List.map_cons, List.nodup_cons] at hn
    rw [AMap.lookup_cons]
    rcases List.mem_cons.mp h with e | e
    · cases e
      rw [if_pos rfl]
    · have hne : k' ≠ k := by
        intro e'
        apply hn.1
        rw [List.mem_map]
        exact ⟨(k, v), e, e'.symm⟩
      rw [if_neg hne]
      exact ih hn.2 e

theorem AMap.lookup_eq_none_iff (m : AMap κ ν) (k : κ) : m.lookup k = none ↔ ∀ v, (k, v) ∉ m := by
  induction m with
  | nil => exact ⟨fun _ v h => (nomatch h), fun _ => rfl⟩
  | cons p rest ih =>
    obtain ⟨k', w⟩ := p
    rw [AMap.lookup_cons]
    by_cases e : k' = k
    · rw [if_pos e]
      constructor
      · intro h; cases h
      · intro h
        exact absurd (by rw [e]; exact List.mem_cons_self) (h w)
    · rw [if_neg e, ih]
      constructor
      · intro h v hv
        rcases List.mem_cons.mp hv with e' | e'
        · cases e'; exact e rfl
        · exact h v e'
      · intro h v hv
        exact h v (List.mem_cons_of_mem _ hv)

theorem AMap.mem_erase (m : AMap κ ν) (k k' : κ) (v : ν) : (k', v) ∈ m.erase k ↔ ((k', v) ∈ m ∧ k' ≠ k) := by
  unfold AMap.erase
  rw [List.mem_filter]
  simp

theorem AMap.nodup_erase (m : AMap κ ν) (hn : (m.map Prod.fst).Nodup) (k : κ) : ((m.erase k).map Prod.fst).Nodup := by
  unfold AMap.erase
  exact hn.sublist (List.Sublist.map _ List.filter_sublist)

/-- erasing a present key shortens the list by exactly one -/
theorem AMap.length_erase_of_mem (m : AMap κ ν) (hn : (m.map Prod.fst).Nodup) (k : κ) (v : ν) (h : (k, v) ∈ m) :
    (m.erase k).length + 1 = m.length := by
  induction m with
  | nil => cases h
  | cons p rest ih =>
    obtain ⟨k', w⟩ := p
    rw [List.map_cons, List.nodup_cons] at hn
    unfold AMap.erase at ih ⊢
    rcases List.mem_cons.mp h with e | e
    · cases e
      have hall : rest.filter (fun p => decide (p.1 ≠ k)) = rest := by
        rw [List.filter_eq_self]
        intro a ha
        simp only [ne_eq, decide_not, Bool.not_eq_eq_eq_not, Bool.not_true, decide_eq_false_iff_not]
        intro e'
        apply hn.1
        rw [List.mem_map]
        exact ⟨a, ha, e'⟩
      rw [List.filter_cons_of_neg (by simp), hall]
      rfl
    · have hne : k' ≠ k := by
        intro e'
        apply hn.1
        rw [List.mem_map]
        exact ⟨(k, v), e, e'.symm⟩
      rw [List.filter_cons_of_pos (by simpa using hne)]
      simp only [List.length_cons]
      rw [ih hn.2 e]

/-- without the nodup hypothesis (general form of `mem_set`) -/
theorem AMap.mem_set' (m : AMap κ ν) (k k' : κ) (v v' : ν) :
    (k', v') ∈ m.set k v ↔ (((k', v') ∈ m ∧ k' ≠ k) ∨ (k' = k ∧ v' = v ∧ ∃ w, (k, w) ∈ m)) := by
  unfold AMap.set
  rw [List.mem_map]
  constructor
  · rintro ⟨⟨a, w⟩, ha, e⟩
    by_cases hk : a = k
    · simp only [hk, if_true] at e
      cases e
      subst hk
      exact .inr ⟨rfl, rfl, w, ha⟩
    · simp only [hk, if_false] at e
      cases e
      exact .inl ⟨ha, hk⟩
  · rintro (⟨h1, h2⟩ | ⟨rfl, rfl, w, hw⟩)
    · exact ⟨(k', v'), h1, by simp [h2]⟩
    · exact ⟨(k', w), hw, by simp⟩

theorem AMap.mem_set (m : AMap κ ν) (hn : (m.map Prod.fst).Nodup) (k k' : κ) (v v' : ν) (hk : ∃ w, (k, w) ∈ m) :
    (k', v') ∈ m.set k v ↔ (((k', v') ∈ m ∧ k' ≠ k) ∨ (k' = k ∧ v' = v)) := by
  have _ := hn
  rw [AMap.mem_set']
  constructor
  · rintro (h | ⟨h1, h2, _⟩)
    · exact .inl h
    · exact .inr ⟨h1, h2⟩
  · rintro (h | ⟨h1, h2⟩)
    · exact .inl h
    · exact .inr ⟨h1, h2, hk⟩

theorem AMap.map_fst_set (m : AMap κ ν) (k : κ) (v : ν) : (m.set k v).map Prod.fst = m.map Prod.fst := by
  unfold AMap.set
  rw [List.map_map]
  apply List.map_congr_left
  intro a _
  simp only [Function.comp]
  split
  · rename_i e; exact e.symm
  · rfl

theorem AMap.nodup_set (m : AMap κ ν) (hn : (m.map Prod.fst).Nodup) (k : κ) (v : ν) : ((m.set k v).map Prod.fst).Nodup := by
  rw [AMap.map_fst_set]; exact hn

@[simp] theorem AMap.length_set (m : AMap κ ν) (k : κ) (v : ν) : (m.set k v).length = m.length := by
  simp [AMap.set]

theorem AMap.nodup_add (m : AMap κ ν) (hn : (m.map Prod.fst).Nodup) (k : κ) (v : ν) (h : m.lookup k = none) :
    ((m.add k v).map Prod.fst).Nodup := by
  unfold AMap.add
  rw [List.map_cons, List.nodup_cons]
  refine ⟨?_, hn⟩
  intro hm
  rw [List.mem_map] at hm
  obtain ⟨⟨a, w⟩, ha, e⟩ := hm
  simp only at e
  subst e
  exact (AMap.lookup_eq_none_iff m a).mp h w ha

/-! ### more equations -/

theorem AMap.erase_of_lookup_none (m : AMap κ ν) (k : κ) (h : m.lookup k = none) : m.erase k = m := by
  unfold AMap.erase
  rw [List.filter_eq_self]
  rintro ⟨a, w⟩ ha
  simp only [ne_eq, decide_not, Bool.not_eq_eq_eq_not, Bool.not_true, decide_eq_false_iff_not]
  intro e
  subst e
  exact (AMap.lookup_eq_none_iff m a).mp h w ha

theorem AMap.set_of_lookup_none (m : AMap κ ν) (k : κ) (v : ν) (h : m.lookup k = none) : m.set k v = m := by
  unfold AMap.set
  conv => rhs; rw [← List.map_id m]
  apply List.map_congr_left
  rintro ⟨a, w⟩ ha
  have : a ≠ k := by
    intro e
    subst e
    exact (AMap.lookup_eq_none_iff m a).mp h w ha
  simp [this]

theorem AMap.add_set (m : AMap κ ν) (k : κ) (v v' : ν) (h : m.lookup k = none) :
    (m.add k v).set k v' = m.add k v' := by
  have := AMap.set_of_lookup_none m k v' h
  unfold AMap.set at this
  unfold AMap.add AMap.set
  rw [List.map_cons, this]
  simp

theorem AMap.add_erase (m : AMap κ ν) (k : κ) (v : ν) (h : m.lookup k = none) :
    (m.add k v).erase k = m := by
  have := AMap.erase_of_lookup_none m k h
  unfold AMap.erase at this
  unfold AMap.add AMap.erase
  rw [List.filter_cons_of_neg (by simp), this]

theorem AMap.set_erase (m : AMap κ ν) (k : κ) (v : ν) : (m.set k v).erase k = m.erase k := by
  unfold AMap.set AMap.erase
  induction m with
  | nil => rfl
  | cons p rest ih =>
    obtain ⟨a, w⟩ := p
    rw [List.map_cons]
    by_cases e : a = k
    · simp only [e, if_true]
      rw [List.filter_cons_of_neg (by simp), List.filter_cons_of_neg (by simp), ih]
    · simp only [e, if_false]
      rw [List.filter_cons_of_pos (by simpa using e), List.filter_cons_of_pos (by simpa using e), ih]

theorem AMap.lookup_add_self (m : AMap κ ν) (k : κ) (v : ν) : (m.add k v).lookup k = some v := by
  unfold AMap.add
  rw [AMap.lookup_cons, if_pos rfl]

end Cuckoo.Spec
