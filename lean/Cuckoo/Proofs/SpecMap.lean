import Cuckoo.Spec.Map
/-! Helper lemmas about the abstract map (never property statements). -/
namespace Cuckoo.Spec
variable {κ ν : Type} [DecidableEq κ]

theorem AMap.lookup_eq_some_iff (m : AMap κ ν) (hn : (m.map Prod.fst).Nodup) (k : κ) (v : ν) :
    m.lookup k = some v ↔ (k, v) ∈ m := by
  sorry

theorem AMap.lookup_eq_none_iff (m : AMap κ ν) (k : κ) : m.lookup k = none ↔ ∀ v, (k, v) ∉ m := by
  sorry

theorem AMap.mem_erase (m : AMap κ ν) (k k' : κ) (v : ν) : (k', v) ∈ m.erase k ↔ ((k', v) ∈ m ∧ k' ≠ k) := by
  sorry

theorem AMap.nodup_erase (m : AMap κ ν) (hn : (m.map Prod.fst).Nodup) (k : κ) : ((m.erase k).map Prod.fst).Nodup := by
  sorry

/-- erasing a present key shortens the list by exactly one -/
theorem AMap.length_erase_of_mem (m : AMap κ ν) (hn : (m.map Prod.fst).Nodup) (k : κ) (v : ν) (h : (k, v) ∈ m) :
    (m.erase k).length + 1 = m.length := by
  sorry

theorem AMap.mem_set (m : AMap κ ν) (hn : (m.map Prod.fst).Nodup) (k k' : κ) (v v' : ν) (hk : ∃ w, (k, w) ∈ m) :
    (k', v') ∈ m.set k v ↔ (((k', v') ∈ m ∧ k' ≠ k) ∨ (k' = k ∧ v' = v)) := by
  sorry

theorem AMap.nodup_set (m : AMap κ ν) (hn : (m.map Prod.fst).Nodup) (k : κ) (v : ν) : ((m.set k v).map Prod.fst).Nodup := by
  sorry

@[simp] theorem AMap.length_set (m : AMap κ ν) (k : κ) (v : ν) : (m.set k v).length = m.length := by
  simp [AMap.set]

theorem AMap.nodup_add (m : AMap κ ν) (hn : (m.map Prod.fst).Nodup) (k : κ) (v : ν) (h : m.lookup k = none) :
    ((m.add k v).map Prod.fst).Nodup := by
  sorry

end Cuckoo.Spec
