import Cuckoo.Proofs.RebuildAux2
import Cuckoo.Props.C02Par
/-!
Helper lemmas for `Cuckoo/Props/C02Rebuild.lean`, part 3: the elements of a bucket array listed bucket by bucket, the work
lists of the chunks handed out by `parallel_exec` (`splitWork`), the temporary map of `cuckoo_expand_simple` is empty.
Never property statements.
-/
namespace Cuckoo.Model.RebuildA
open Cuckoo Cuckoo.Model Cuckoo.Model.Conc Cuckoo.Spec Cuckoo.Props.C01Conc
variable {κ ν : Type}

/-- key and value of a stored element -/
def kv (sl : Slot κ ν) : κ × ν := (sl.key, sl.val)

/-- the occupied slots of bucket `b`, in slot order -/
def bucketElems (S : Nat) (st : Store κ ν) (b : Nat) : List (Slot κ ν) :=
  (List.range S).filterMap (fun s => st.get S b s)

/-- the work list of one chunk `[start, end)` of bucket indices: its elements, bucket by bucket -/
def chunkItems (S : Nat) (st : Store κ ν) (ch : Nat × Nat) : List (κ × ν) :=
  (chunkIdx ch).flatMap (fun b => (bucketElems S st b).map kv)

theorem range_mul (S : Nat) : ∀ nb : Nat,
    List.range (nb * S) = (List.range nb).flatMap (fun b => (List.range S).map (fun s => b * S + s))
  | 0 => by simp
  | n + 1 => by
    have e : (n + 1) * S = n * S + S := Nat.succ_mul n S
    rw [e, List.range_eq_range', ← List.range'_append_1, ← List.range_eq_range', range_mul S n, List.range_succ,
      List.flatMap_append, List.flatMap_singleton, Nat.zero_add, List.range'_eq_map_range]

theorem toList_by_index {α : Type} (a : Array α) (d : α) :
    a.toList = (List.range a.size).map (fun i => a.getD i d) := by
  apply List.ext_getElem
  · simp
  · intro i h1 h2
    simp only [Array.length_toList] at h1
    simp [Array.getD, h1]

theorem filterMap_flatMap_id {α β : Type} (l : List α) (g : α → List (Option β)) :
    (l.flatMap g).filterMap id = l.flatMap (fun a => (g a).filterMap id) := by
  induction l with
  | nil => rfl
  | cons a l ih => rw [List.flatMap_cons, List.filterMap_append, ih, List.flatMap_cons]

theorem flatMap_congr_mem {α β : Type} (l : List α) (g1 g2 : α → List β) (h : ∀ a ∈ l, g1 a = g2 a) :
    l.flatMap g1 = l.flatMap g2 := by
  induction l with
  | nil => rfl
  | cons a l ih =>
    rw [List.flatMap_cons, List.flatMap_cons, h a List.mem_cons_self, ih (fun x hx => h x (List.mem_cons_of_mem _ hx))]

theorem filterMap_congr_mem {α β : Type} (l : List α) (g1 g2 : α → Option β) (h : ∀ a ∈ l, g1 a = g2 a) :
    l.filterMap g1 = l.filterMap g2 := by
  induction l with
  | nil => rfl
  | cons a l ih =>
    rw [List.filterMap_cons, List.filterMap_cons, h a List.mem_cons_self, ih (fun x hx => h x (List.mem_cons_of_mem _ hx))]

/-- the elements in cell order are the elements bucket by bucket -/
theorem elems_by_bucket (S : Nat) (st : Store κ ν) (nb : Nat) (hsz : st.cells.size = nb * S) :
    st.elems = (List.range nb).flatMap (bucketElems S st) := by
  unfold Store.elems
  rw [toList_by_index st.cells none, hsz, range_mul, List.map_flatMap, filterMap_flatMap_id]
  apply flatMap_congr_mem
  intro b _
  unfold bucketElems
  rw [List.map_map, List.filterMap_map]
  apply filterMap_congr_mem
  intro s hs
  have hs' : s < S := List.mem_range.mp hs
  simp only [Function.comp, id, Store.get, hs', if_true]

/-- **the chunks' work lists, concatenated, are the elements of the array** (every element is handed to exactly one
thread) -/
theorem chunks_cover (S : Nat) (st : Store κ ν) (nb workers : Nat) (hsz : st.cells.size = nb * S) :
    ((splitWork 0 nb workers).map (chunkItems S st)).flatten = st.elems.map kv := by
  rw [← List.flatMap_def]
  unfold chunkItems
  rw [← List.flatMap_assoc, Props.C02Par.splitWork_partition 0 nb workers (Nat.zero_le _), Nat.sub_zero,
    ← List.range_eq_range', elems_by_bucket S st nb hsz, List.map_flatMap]

/-- the stored keys are pairwise distinct -/
theorem elems_keys_nodup {c : Cfg κ} {t : Table κ ν} (h : Inv c t) : ((t.cur.elems.map kv).map Prod.fst).Nodup := by
  rw [List.map_map]
  unfold List.Nodup
  rw [List.pairwise_map]
  exact Rz.elems_pairwise h.S_pos _ (Rz.inv_curUniq h)

theorem elems_keys_nodup' {c : Cfg κ} {t : Table κ ν} (h : Inv c t) : (t.cur.elems.map (·.key)).Nodup := by
  have := elems_keys_nodup h
  rw [List.map_map] at this
  exact this

/-- the temporary map `new_map` of `cuckoo_expand_simple` is well formed and empty -/
theorem tempMap_empty (c : Cfg κ) (n w : Nat) (f : Float) (mh : Nat) (hS : 0 < c.S) (hM : ∃ m, c.M = 2 ^ m)
    (hlim : mh = noMaxHp ∨ Spec.reserveCalc c.S n ≤ mh) :
    Inv c ({ (Table.init c n : Table κ ν) with workers := w, mlf := f, mhp := mh }) ∧
    Rel c ({ (Table.init c n : Table κ ν) with workers := w, mlf := f, mhp := mh }) [] := by
  obtain ⟨a1, _, a3, _⟩ := Rz.init_spec (ν := ν) c n w f mh hS hM hlim _ rfl
  refine ⟨a1, ⟨?_, List.nodup_nil, ?_⟩⟩
  · intro k v
    constructor
    · intro hm; cases hm
    · rintro ⟨tag, hl⟩; exact absurd hl (a3 _)
  · unfold Table.sumCnt Table.init
    exact Rz.foldl_cnt_replicate _ _ _

theorem nodup_of_nodup_map {α β : Type} (f : α → β) : ∀ (l : List α), (l.map f).Nodup → l.Nodup
  | [], _ => List.nodup_nil
  | a :: l, h => by
    rw [List.map_cons, List.nodup_cons] at h
    rw [List.nodup_cons]
    exact ⟨fun hm => h.1 (List.mem_map_of_mem hm), nodup_of_nodup_map f l h.2⟩

/-- two association lists with distinct keys and the same pairs are rearrangements of each other -/
theorem perm_of_same_pairs (m1 m2 : AMap κ ν) (h1 : (m1.map Prod.fst).Nodup) (h2 : (m2.map Prod.fst).Nodup)
    (h : ∀ k v, (k, v) ∈ m1 ↔ (k, v) ∈ m2) : m1.Perm m2 :=
  (List.perm_ext_iff_of_nodup (nodup_of_nodup_map _ _ h1) (nodup_of_nodup_map _ _ h2)).mpr (fun p => h p.1 p.2)

/-- in a fully migrated table the abstract map is read off the current array -/
theorem elems_represent [DecidableEq κ] (c : Cfg κ) (t : Table κ ν) (m : AMap κ ν) (h : Inv c t) (hr : Rel c t m)
    (ha : AllMig t) (k : κ) (v : ν) : (k, v) ∈ m ↔ ∃ sl ∈ t.cur.elems, sl.key = k ∧ sl.val = v := by
  rw [hr.pairs]
  constructor
  · rintro ⟨tag, hl⟩
    rw [Rz.live_iff_cur (fun b => ha.unmigB b), ← Rz.mem_elems h.S_pos] at hl
    exact ⟨_, hl, rfl, rfl⟩
  · rintro ⟨sl, hsl, rfl, rfl⟩
    refine ⟨sl.tag, ?_⟩
    rw [Rz.live_iff_cur (fun b => ha.unmigB b), ← Rz.mem_elems h.S_pos]
    exact hsl

/-- executable test "internal, or answered `true` without functor call" (used to evaluate concrete schedules) -/
def isNew : Option (Resp ν) → Bool
  | none => true
  | some (.bool (.ok true) []) => true
  | _ => false

theorem allOk_of_isNew (l : List (Option (Resp ν))) (h : l.all isNew = true) : AllOk l := by
  intro r hr
  have := List.all_eq_true.mp h _ hr
  unfold isNew at this
  split at this
  · rename_i e; cases e
  · rename_i e; cases e; exact ⟨_, _, rfl⟩
  · cases this

end Cuckoo.Model.RebuildA
