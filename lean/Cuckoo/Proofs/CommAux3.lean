import Cuckoo.Proofs.CommAux2
/-!
Helper lemmas for `Props/C03Comm`: the bucket scans read only their bucket (congruence lemmas), and the functor /
insertion tails (`applyFn`, `finishInsert`, `lastTail`) map tables agreeing on `L` to tables agreeing on `L` with the
same response, provided the bucket they work on belongs to a stripe of `L`.
-/
namespace Cuckoo.Model
open Cuckoo Cuckoo.Model.Conc Cuckoo.Model.ConcA
variable {κ ν : Type}

/-! ### the scans read one bucket -/

theorem findInBucket_go_congr [DecidableEq κ] (c : Cfg κ) (st st' : Store κ ν) (b : Nat) (k : κ) (tag : Nat)
    (h : ∀ s, st'.get c.S b s = st.get c.S b s) :
    ∀ fuel s, findInBucket.go c st' b k tag s fuel = findInBucket.go c st b k tag s fuel := by
  intro fuel
  induction fuel with
  | zero => intro s; unfold findInBucket.go; rfl
  | succ n ih =>
    intro s
    rw [findInBucket.go, findInBucket.go, h s]
    cases st.get c.S b s with
    | none => exact ih _
    | some sl => simp only; rw [ih]

theorem findInBucket_congr [DecidableEq κ] (c : Cfg κ) (st st' : Store κ ν) (b : Nat) (k : κ)
    (h : ∀ s, st'.get c.S b s = st.get c.S b s) : findInBucket c st' b k = findInBucket c st b k :=
  findInBucket_go_congr c st st' b k _ h _ _

theorem cuckooFind_congr [DecidableEq κ] (c : Cfg κ) (st st' : Store κ ν) (i1 i2 : Nat) (k : κ)
    (h1 : ∀ s, st'.get c.S i1 s = st.get c.S i1 s) (h2 : ∀ s, st'.get c.S i2 s = st.get c.S i2 s) :
    cuckooFind c st' i1 i2 k = cuckooFind c st i1 i2 k := by
  unfold cuckooFind
  rw [findInBucket_congr c st st' i1 k h1, findInBucket_congr c st st' i2 k h2]

theorem scanForInsert_go_congr [DecidableEq κ] (c : Cfg κ) (st st' : Store κ ν) (b : Nat) (k : κ) (tag : Nat)
    (h : ∀ s, st'.get c.S b s = st.get c.S b s) :
    ∀ fuel s free, scanForInsert.go c st' b k tag s fuel free = scanForInsert.go c st b k tag s fuel free := by
  intro fuel
  induction fuel with
  | zero => intro s free; unfold scanForInsert.go; rfl
  | succ n ih =>
    intro s free
    rw [scanForInsert.go, scanForInsert.go, h s]
    cases st.get c.S b s with
    | none => exact ih _ _
    | some sl => simp only; rw [ih]

theorem scanForInsert_congr [DecidableEq κ] (c : Cfg κ) (st st' : Store κ ν) (b : Nat) (k : κ)
    (h : ∀ s, st'.get c.S b s = st.get c.S b s) : scanForInsert c st' b k = scanForInsert c st b k :=
  scanForInsert_go_congr c st st' b k _ h _ _ _

theorem tryInsert_congr [DecidableEq κ] (c : Cfg κ) (st st' : Store κ ν) (i1 i2 : Nat) (k : κ)
    (h1 : ∀ s, st'.get c.S i1 s = st.get c.S i1 s) (h2 : ∀ s, st'.get c.S i2 s = st.get c.S i2 s) :
    tryInsert c st' i1 i2 k = tryInsert c st i1 i2 k := by
  unfold tryInsert
  rw [scanForInsert_congr c st st' i1 k h1, scanForInsert_congr c st st' i2 k h2]

theorem valid_congr {c : Cfg κ} {L : List Nat} {t u : Table κ ν} (h : AgreeL c L t u) (hpS rcS : Nat) :
    valid u hpS rcS = valid t hpS rcS := by
  unfold valid
  rw [h.rc, h.hp]

/-! ### the functor tail -/

theorem applyFn_ro (c : Cfg κ) (t : Table κ ν) (b s : Nat) (ctx : Option Ctx) (me : Bool) (fn : ν → FnOut ν)
    (okRes : Bool) :
    (applyFn c t b s ctx me fn okRes).1.rem = t.rem ∧ (applyFn c t b s ctx me fn okRes).1.old = t.old := by
  unfold applyFn
  cases t.cur.get c.S b s with
  | none => exact ⟨rfl, rfl⟩
  | some sl =>
    simp only
    cases fn sl.val with
    | throw v' => simp
    | ret v' er =>
      simp only
      split <;> simp

theorem agree_applyFn (c : Cfg κ) (L : List Nat) (t u : Table κ ν) (b s : Nat) (ctx : Option Ctx) (me : Bool)
    (fn : ν → FnOut ν) (okRes : Bool) (hb : c.lockInd b ∈ L) (h : AgreeL c L t u) :
    (applyFn c u b s ctx me fn okRes).2 = (applyFn c t b s ctx me fn okRes).2 ∧
    AgreeL c L (applyFn c t b s ctx me fn okRes).1 (applyFn c u b s ctx me fn okRes).1 := by
  unfold applyFn
  rw [h.cells b s hb]
  cases hg : t.cur.get c.S b s with
  | none => exact ⟨rfl, h⟩
  | some sl =>
    have hs : s < c.S := (Store.get_some_lt hg).1
    simp only
    cases fn sl.val with
    | throw v' => exact ⟨rfl, agree_setVal c L t u b s v' hb h⟩
    | ret v' er =>
      simp only
      by_cases e : (me && er) = true
      · rw [if_pos e, if_pos e]
        exact ⟨trivial, agree_delFrom c L _ _ b s hs (agree_setVal c L t u b s v' hb h)⟩
      · rw [if_neg e, if_neg e]
        exact ⟨trivial, agree_setVal c L t u b s v' hb h⟩

theorem finishInsert_ro [DecidableEq κ] (c : Cfg κ) (t : Table κ ν) (k : κ) (v : ν) (ca me : Bool)
    (fn : Ctx → ν → FnOut ν) (p : InsPos) :
    (finishInsert c t k v ca me fn p).1.rem = t.rem ∧ (finishInsert c t k v ca me fn p).1.old = t.old := by
  cases p with
  | free b s =>
    unfold finishInsert
    simp only
    cases ca with
    | false => exact ⟨rfl, rfl⟩
    | true =>
      have := applyFn_ro c (t.addTo c b s ⟨c.tag k, k, v⟩) b s (some .newlyInserted) me (fn .newlyInserted) true
      simpa using this
  | dup b s =>
    unfold finishInsert
    exact applyFn_ro c t b s _ me _ false

theorem agree_finishInsert [DecidableEq κ] (c : Cfg κ) (L : List Nat) (t u : Table κ ν) (k : κ) (v : ν)
    (ca me : Bool) (fn : Ctx → ν → FnOut ν) (p : InsPos) (hb : c.lockInd p.bkt ∈ L)
    (hs : ∀ b s, p = .free b s → s < c.S) (h : AgreeL c L t u) :
    (finishInsert c u k v ca me fn p).2 = (finishInsert c t k v ca me fn p).2 ∧
    AgreeL c L (finishInsert c t k v ca me fn p).1 (finishInsert c u k v ca me fn p).1 := by
  cases p with
  | free b s =>
    have ha := agree_addTo c L t u b s ⟨c.tag k, k, v⟩ (hs b s rfl) h
    unfold finishInsert
    simp only
    cases ca with
    | false => exact ⟨rfl, ha⟩
    | true => exact agree_applyFn c L _ _ b s _ me _ true hb ha
  | dup b s =>
    unfold finishInsert
    exact agree_applyFn c L t u b s _ me _ false hb h

/-- the tail of the last section of a displacing insertion -/
theorem lastTail_ro [DecidableEq κ] (c : Cfg κ) (t2 : Table κ ν) (hpS : Nat) (k : κ) (v : ν) (ca me : Bool)
    (fn : Ctx → ν → FnOut ν) (fr : PathRec) :
    (lastTail c t2 hpS k v ca me fn fr).1.rem = t2.rem ∧ (lastTail c t2 hpS k v ca me fn fr).1.old = t2.old := by
  unfold lastTail
  cases cuckooFind c t2.cur (c.i1 hpS k) (c.i2 hpS k) k with
  | some p => exact finishInsert_ro c t2 k v ca me fn (.dup p.1 p.2)
  | none => exact finishInsert_ro c t2 k v ca me fn (.free fr.bucket fr.slot)

theorem agree_lastTail [DecidableEq κ] (c : Cfg κ) (L : List Nat) (t2 u2 : Table κ ν) (hpS : Nat) (k : κ) (v : ν)
    (ca me : Bool) (fn : Ctx → ν → FnOut ν) (fr : PathRec)
    (h1 : c.lockInd (c.i1 hpS k) ∈ L) (h2 : c.lockInd (c.i2 hpS k) ∈ L)
    (hb : fr.bucket = c.i1 hpS k ∨ fr.bucket = c.i2 hpS k) (hs : fr.slot < c.S) (h : AgreeL c L t2 u2) :
    (lastTail c u2 hpS k v ca me fn fr).2 = (lastTail c t2 hpS k v ca me fn fr).2 ∧
    AgreeL c L (lastTail c t2 hpS k v ca me fn fr).1 (lastTail c u2 hpS k v ca me fn fr).1 := by
  unfold lastTail
  rw [cuckooFind_congr c t2.cur u2.cur _ _ k (fun s => h.cells _ s h1) (fun s => h.cells _ s h2)]
  cases hfind : cuckooFind c t2.cur (c.i1 hpS k) (c.i2 hpS k) k with
  | some p =>
    obtain ⟨b, s⟩ := p
    have hbL : c.lockInd b ∈ L := by
      rcases cuckooFind_bucket hfind with e | e <;> rw [e] <;> assumption
    obtain ⟨r1, r2⟩ := agree_finishInsert c L t2 u2 k v ca me fn (.dup b s) hbL (fun _ _ e => by cases e) h
    exact ⟨by simp only [r1], r2⟩
  | none =>
    have hbL : c.lockInd fr.bucket ∈ L := by
      rcases hb with e | e <;> rw [e] <;> assumption
    obtain ⟨r1, r2⟩ := agree_finishInsert c L t2 u2 k v ca me fn (.free fr.bucket fr.slot) hbL
      (fun _ _ e => by cases e; exact hs) h
    exact ⟨by simp only [r1], r2⟩

end Cuckoo.Model
