import Cuckoo.Proofs.LifeAux2
import Cuckoo.Proofs.Migrate
/-!
Helper lemmas for `Props/C08Life.lean`, part 3 — the write trace of `move_bucket` and of one stripe migration
(never property statements).

`mvWrites` lists the writes `moveBucket.go` performs (target bucket, target slot, element), `stripeWrites` those of
`migrateBuckets`; the migration functions are shown to be exactly the left fold of these writes over the current
array, and the targets are characterised.
-/
namespace Cuckoo.Model
open Cuckoo
variable {κ ν : Type}

/-- one write into a bucket array: target bucket, target slot, the element constructed there -/
abbrev Write (κ ν : Type) := Nat × Nat × Slot κ ν

def applyW (S : Nat) (st : Store κ ν) (w : Write κ ν) : Store κ ν := st.set S w.1 w.2.1 (some w.2.2)

/-- two writes have different targets -/
def Write.Apart (w w' : Write κ ν) : Prop := ¬ (w.1 = w'.1 ∧ w.2.1 = w'.2.1)

/-- the writes of `moveBucket.go`, in order (they depend on the old array only) -/
def mvWrites (c : Cfg κ) (old : Store κ ν) (nhp b : Nat) : Nat → Nat → Nat → List (Write κ ν)
  | _, 0, _ => []
  | s, fuel + 1, ns =>
    match old.get c.S b s with
    | none => mvWrites c old nhp b (s + 1) fuel ns
    | some sl =>
      if (b = c.i1 old.hp sl.key ∧ c.i1 nhp sl.key = b + 2 ^ old.hp) ∨
         (b = c.i2 old.hp sl.key ∧ c.i2 nhp sl.key = b + 2 ^ old.hp) then
        (b + 2 ^ old.hp, ns, sl) :: mvWrites c old nhp b (s + 1) fuel (ns + 1)
      else
        (b, s, sl) :: mvWrites c old nhp b (s + 1) fuel ns

theorem mvGo_eq_fold (c : Cfg κ) (old : Store κ ν) (nhp b : Nat) :
    ∀ (fuel s ns : Nat) (cur : Store κ ν),
      moveBucket.go c old b old.hp nhp (b + 2 ^ old.hp) s fuel ns cur =
        (mvWrites c old nhp b s fuel ns).foldl (applyW c.S) cur := by
  intro fuel
  induction fuel with
  | zero => intro s ns cur; rfl
  | succ fuel ih =>
    intro s ns cur
    unfold moveBucket.go mvWrites
    cases old.get c.S b s with
    | none => exact ih (s + 1) ns cur
    | some sl =>
      simp only []
      split
      · rw [List.foldl_cons]; exact ih _ _ _
      · rw [List.foldl_cons]; exact ih _ _ _

/-- `moveBucket` performs exactly the writes of its trace -/
theorem moveBucket_eq_fold (c : Cfg κ) (old cur : Store κ ν) (b : Nat) :
    moveBucket c old cur b = (mvWrites c old cur.hp b 0 c.S 0).foldl (applyW c.S) cur :=
  mvGo_eq_fold c old cur.hp b c.S 0 0 cur

theorem fold_hp (S : Nat) (ws : List (Write κ ν)) (st : Store κ ν) : (ws.foldl (applyW S) st).hp = st.hp := by
  induction ws generalizing st with
  | nil => rfl
  | cons w ws ih => rw [List.foldl_cons, ih]; rfl

theorem fold_size (S : Nat) (ws : List (Write κ ν)) (st : Store κ ν) :
    (ws.foldl (applyW S) st).cells.size = st.cells.size := by
  induction ws generalizing st with
  | nil => rfl
  | cons w ws ih => rw [List.foldl_cons, ih]; exact Store.set_size _ _ _ _ _

/-- a cell none of the writes targets keeps its content -/
theorem fold_get_untouched (S : Nat) (ws : List (Write κ ν)) (st : Store κ ν) (b s : Nat)
    (hs : ∀ w ∈ ws, w.2.1 < S) (hne : ∀ w ∈ ws, ¬ (b = w.1 ∧ s = w.2.1)) :
    (ws.foldl (applyW S) st).get S b s = st.get S b s := by
  induction ws generalizing st with
  | nil => rfl
  | cons w ws ih =>
    rw [List.foldl_cons, ih _ (fun w' h => hs w' (List.mem_cons_of_mem _ h))
      (fun w' h => hne w' (List.mem_cons_of_mem _ h))]
    exact Store.get_set_other S st w.1 w.2.1 b s _ (hs w List.mem_cons_self) (hne w List.mem_cons_self)

/-- writes with pairwise different targets that are empty at the start each hit an empty cell when executed -/
theorem fold_hits_empty (S : Nat) (ws : List (Write κ ν)) (st : Store κ ν)
    (hs : ∀ w ∈ ws, w.2.1 < S) (he : ∀ w ∈ ws, st.get S w.1 w.2.1 = none) (hp : ws.Pairwise Write.Apart)
    (pre post : List (Write κ ν)) (w : Write κ ν) (hsplit : ws = pre ++ w :: post) :
    (pre.foldl (applyW S) st).get S w.1 w.2.1 = none := by
  subst hsplit
  rw [fold_get_untouched S pre st w.1 w.2.1 (fun w' h => hs w' (List.mem_append_left _ h))]
  · exact he w (List.mem_append_right _ List.mem_cons_self)
  · intro w' hw' e
    rw [List.pairwise_append] at hp
    exact hp.2.2 w' hw' w List.mem_cons_self ⟨e.1.symm, e.2.symm⟩

/-- after all writes, a written cell holds the written element (targets pairwise different, in range) -/
theorem fold_get_written (S : Nat) (ws : List (Write κ ν)) (st : Store κ ν)
    (hs : ∀ w ∈ ws, w.2.1 < S) (hlt : ∀ w ∈ ws, w.1 * S + w.2.1 < st.cells.size) (hp : ws.Pairwise Write.Apart)
    (w : Write κ ν) (hw : w ∈ ws) : (ws.foldl (applyW S) st).get S w.1 w.2.1 = some w.2.2 := by
  induction ws generalizing st with
  | nil => cases hw
  | cons a ws ih =>
    rw [List.foldl_cons]
    rw [List.pairwise_cons] at hp
    rcases List.mem_cons.mp hw with e | hmem
    · subst e
      rw [fold_get_untouched S ws _ w.1 w.2.1 (fun w' h => hs w' (List.mem_cons_of_mem _ h))
        (fun w' h => hp.1 w' h)]
      exact Store.get_set_same S st w.1 w.2.1 _ (hs w List.mem_cons_self) (hlt w List.mem_cons_self)
    · exact ih _ (fun w' h => hs w' (List.mem_cons_of_mem _ h))
        (fun w' h => by rw [applyW, Store.set_size]; exact hlt w' (List.mem_cons_of_mem _ h)) hp.2 hmem

/-- constructions into pairwise different, empty, in-range cells: one object more per write -/
theorem fold_count (S : Nat) (ws : List (Write κ ν)) (st : Store κ ν)
    (hs : ∀ w ∈ ws, w.2.1 < S) (hlt : ∀ w ∈ ws, w.1 * S + w.2.1 < st.cells.size)
    (he : ∀ w ∈ ws, st.get S w.1 w.2.1 = none) (hp : ws.Pairwise Write.Apart) :
    (ws.foldl (applyW S) st).count = st.count + ws.length := by
  induction ws generalizing st with
  | nil => rfl
  | cons a ws ih =>
    rw [List.foldl_cons, List.length_cons]
    rw [List.pairwise_cons] at hp
    have hsa := hs a List.mem_cons_self
    rw [ih (applyW S st a) (fun w h => hs w (List.mem_cons_of_mem _ h))
      (fun w h => by rw [applyW, Store.set_size]; exact hlt w (List.mem_cons_of_mem _ h))
      (fun w h => by
        rw [applyW, Store.get_set_other _ _ _ _ _ _ _ hsa (fun e => hp.1 w h ⟨e.1.symm, e.2.symm⟩)]
        exact he w (List.mem_cons_of_mem _ h)) hp.2]
    rw [applyW, Store.count_set_some_of_empty S st a.1 a.2.1 a.2.2 hsa (hlt a List.mem_cons_self)
      (he a List.mem_cons_self)]
    omega

/-- where the writes of `moveBucket.go` go and what they copy -/
theorem mvWrites_mem (c : Cfg κ) (old : Store κ ν) (nhp b : Nat) :
    ∀ (fuel s ns : Nat), s + fuel = c.S → ns ≤ s → ∀ w ∈ mvWrites c old nhp b s fuel ns,
      (w.1 = b ∧ s ≤ w.2.1 ∧ w.2.1 < c.S ∧ old.get c.S b w.2.1 = some w.2.2) ∨
      (w.1 = b + 2 ^ old.hp ∧ ns ≤ w.2.1 ∧ ∃ s', s ≤ s' ∧ w.2.1 ≤ s' ∧ s' < c.S ∧ old.get c.S b s' = some w.2.2) := by
  intro fuel
  induction fuel with
  | zero => intro s ns _ _ w hw; cases hw
  | succ fuel ih =>
    intro s ns hsf hns w hw
    unfold mvWrites at hw
    cases hg : old.get c.S b s with
    | none =>
      rw [hg] at hw
      rcases ih (s + 1) ns (by omega) (by omega) w hw with ⟨h1, h2, h3⟩ | ⟨h1, h2, s', h3, h4⟩
      · exact Or.inl ⟨h1, by omega, h3⟩
      · exact Or.inr ⟨h1, h2, s', by omega, h4⟩
    | some sl =>
      rw [hg] at hw
      simp only [] at hw
      split at hw
      · rcases List.mem_cons.mp hw with e | hmem
        · subst e
          exact Or.inr ⟨rfl, Nat.le_refl _, s, Nat.le_refl _, hns, by omega, hg⟩
        · rcases ih (s + 1) (ns + 1) (by omega) (by omega) w hmem with ⟨h1, h2, h3⟩ | ⟨h1, h2, s', h3, h4⟩
          · exact Or.inl ⟨h1, by omega, h3⟩
          · exact Or.inr ⟨h1, by omega, s', by omega, h4⟩
      · rcases List.mem_cons.mp hw with e | hmem
        · subst e
          exact Or.inl ⟨rfl, Nat.le_refl _, (by show s < c.S; omega), hg⟩
        · rcases ih (s + 1) ns (by omega) (by omega) w hmem with ⟨h1, h2, h3⟩ | ⟨h1, h2, s', h3, h4⟩
          · exact Or.inl ⟨h1, by omega, h3⟩
          · exact Or.inr ⟨h1, h2, s', by omega, h4⟩

theorem mvWrites_pairwise (c : Cfg κ) (old : Store κ ν) (nhp b : Nat) :
    ∀ (fuel s ns : Nat), s + fuel = c.S → ns ≤ s → (mvWrites c old nhp b s fuel ns).Pairwise Write.Apart := by
  have hpow : 0 < 2 ^ old.hp := Spec.two_pow_pos _
  intro fuel
  induction fuel with
  | zero => intro s ns _ _; exact List.Pairwise.nil
  | succ fuel ih =>
    intro s ns hsf hns
    unfold mvWrites
    cases hg : old.get c.S b s with
    | none => exact ih (s + 1) ns (by omega) (by omega)
    | some sl =>
      simp only []
      split
      · rw [List.pairwise_cons]
        refine ⟨?_, ih (s + 1) (ns + 1) (by omega) (by omega)⟩
        intro w hw e
        rcases mvWrites_mem c old nhp b fuel (s + 1) (ns + 1) (by omega) (by omega) w hw with ⟨h1, _⟩ | ⟨_, h2, _⟩
        · have := e.1; simp only [] at this; omega
        · have := e.2; simp only [] at this; omega
      · rw [List.pairwise_cons]
        refine ⟨?_, ih (s + 1) ns (by omega) (by omega)⟩
        intro w hw e
        rcases mvWrites_mem c old nhp b fuel (s + 1) ns (by omega) (by omega) w hw with ⟨_, h2, _⟩ | ⟨h1, _⟩
        · have := e.2; simp only [] at this; omega
        · have := e.1; simp only [] at this; omega

/-- the elements written are, in order, the occupied cells of the old bucket: each source is copied exactly once -/
theorem mvWrites_elems (c : Cfg κ) (old : Store κ ν) (nhp b : Nat) :
    ∀ (fuel s ns : Nat), (mvWrites c old nhp b s fuel ns).map (·.2.2) =
      (List.range' s fuel).filterMap (fun s => old.get c.S b s) := by
  intro fuel
  induction fuel with
  | zero => intro s ns; rfl
  | succ fuel ih =>
    intro s ns
    unfold mvWrites
    rw [List.range'_succ, List.filterMap_cons]
    cases hg : old.get c.S b s with
    | none => exact ih (s + 1) ns
    | some sl =>
      simp only []
      split
      · rw [List.map_cons, ih]
      · rw [List.map_cons, ih]

/-! ### one stripe -/

/-- the writes of `moveBucket` for the buckets `b, b+step, …` (`n` of them): `migrateBuckets` uses `step = M`
(one stripe), the eager loop of `cuckoo_fast_double` uses `step = 1` (every bucket) -/
def stripeWrites (c : Cfg κ) (old : Store κ ν) (nhp step : Nat) : Nat → Nat → List (Write κ ν)
  | 0, _ => []
  | n + 1, b => mvWrites c old nhp b 0 c.S 0 ++ stripeWrites c old nhp step n (b + step)

theorem migrateBuckets_eq_fold (c : Cfg κ) (old : Store κ ν) (l : Nat) :
    ∀ (n b : Nat) (cur : Store κ ν),
      migrateBuckets c old l n b cur = (stripeWrites c old cur.hp c.M n b).foldl (applyW c.S) cur := by
  intro n
  induction n with
  | zero => intro b cur; rfl
  | succ n ih =>
    intro b cur
    unfold migrateBuckets stripeWrites
    rw [List.foldl_append, ih, moveBucket_eq_fold, fold_hp]

theorem mv_eq_fold [DecidableEq κ] (c : Cfg κ) (old : Store κ ν) :
    ∀ (n b : Nat) (cur : Store κ ν),
      fastDouble.mv c old n b cur = (stripeWrites c old cur.hp 1 n b).foldl (applyW c.S) cur := by
  intro n
  induction n with
  | zero => intro b cur; rfl
  | succ n ih =>
    intro b cur
    unfold fastDouble.mv stripeWrites
    rw [List.foldl_append, ih, moveBucket_eq_fold, fold_hp]

theorem stripeWrites_mem (c : Cfg κ) (old : Store κ ν) (nhp step : Nat) :
    ∀ (n b : Nat), ∀ w ∈ stripeWrites c old nhp step n b,
      ∃ i, i < n ∧ (w.1 = b + i * step ∨ w.1 = b + i * step + 2 ^ old.hp) ∧ w.2.1 < c.S ∧
        ∃ s, old.get c.S (b + i * step) s = some w.2.2 := by
  intro n
  induction n with
  | zero => intro b w hw; cases hw
  | succ n ih =>
    intro b w hw
    unfold stripeWrites at hw
    rcases List.mem_append.mp hw with h | h
    · refine ⟨0, by omega, ?_⟩
      simp only [Nat.zero_mul, Nat.add_zero]
      rcases mvWrites_mem c old nhp b c.S 0 0 (by omega) (Nat.le_refl _) w h with ⟨h1, _, h3, h4⟩ | ⟨h1, _, s', _, h3, h4, h5⟩
      · exact ⟨Or.inl h1, h3, _, h4⟩
      · exact ⟨Or.inr h1, by omega, s', h5⟩
    · obtain ⟨i, hi, h1, h2, h3⟩ := ih (b + step) w h
      have e : b + step + i * step = b + (i + 1) * step := by rw [Nat.succ_mul]; omega
      rw [e] at h1 h3
      exact ⟨i + 1, by omega, h1, h2, h3⟩

theorem stripeWrites_pairwise (c : Cfg κ) (old : Store κ ν) (nhp step : Nat) (hM : 0 < step) :
    ∀ (n b : Nat), (∀ i, i < n → b + i * step < 2 ^ old.hp) →
      (stripeWrites c old nhp step n b).Pairwise Write.Apart := by
  intro n
  induction n with
  | zero => intro b _; exact List.Pairwise.nil
  | succ n ih =>
    intro b hbd
    unfold stripeWrites
    rw [List.pairwise_append]
    have hbd' : ∀ i, i < n → b + step + i * step < 2 ^ old.hp := by
      intro i hi
      have := hbd (i + 1) (by omega)
      rw [Nat.succ_mul] at this
      omega
    refine ⟨mvWrites_pairwise c old nhp b c.S 0 0 (by omega) (Nat.le_refl _), ih (b + step) hbd', ?_⟩
    intro w hw w' hw' e
    have hb0 : b < 2 ^ old.hp := by have := hbd 0 (by omega); simpa using this
    obtain ⟨i, hi, h1, _⟩ := stripeWrites_mem c old nhp step n (b + step) w' hw'
    have hbi := hbd' i hi
    have hpos : 0 < (i + 1) * step := Nat.mul_pos (by omega) hM
    rw [Nat.succ_mul] at hpos
    have hw1 : w.1 = b ∨ w.1 = b + 2 ^ old.hp := by
      rcases mvWrites_mem c old nhp b c.S 0 0 (by omega) (Nat.le_refl _) w hw with ⟨h, _⟩ | ⟨h, _⟩
      · exact Or.inl h
      · exact Or.inr h
    have := e.1
    rcases hw1 with h | h <;> rcases h1 with h' | h' <;> omega

/-- the elements a stripe migration writes are, in order, the occupied cells of its old buckets -/
theorem stripeWrites_elems (c : Cfg κ) (old : Store κ ν) (nhp step : Nat) :
    ∀ (n b : Nat), (stripeWrites c old nhp step n b).map (·.2.2) =
      ((List.range n).map (fun i => (List.range c.S).filterMap (fun s => old.get c.S (b + i * step) s))).flatten := by
  intro n
  induction n with
  | zero => intro b; rfl
  | succ n ih =>
    intro b
    unfold stripeWrites
    rw [List.map_append, mvWrites_elems, ih, List.range_succ_eq_map, List.map_cons, List.flatten_cons,
      List.map_map, List.range_eq_range']
    simp only [Nat.zero_mul, Nat.add_zero]
    congr 2
    apply List.map_congr_left
    intro i _
    simp only [Function.comp]
    have e : b + step + i * step = b + (i + 1) * step := by rw [Nat.succ_mul]; omega
    rw [Nat.succ_eq_add_one, e]

end Cuckoo.Model
