import Cuckoo.Props.C02
import Cuckoo.Model.Conc
/-!
Helper lemmas for `Cuckoo/Props/C01Conc.lean`: the resize counter along the resize paths, the functor tail
(`applyFn`, `finishInsert`) against `upraseSpec`, and the raw facts about each critical section.
Never property statements.
-/
namespace Cuckoo.Model.ConcA
open Cuckoo Cuckoo.Model Cuckoo.Spec
variable {κ ν : Type}

theorem rehashLock_rc (c : Cfg κ) (t : Table κ ν) (l : Nat) (z : Bool) : (t.rehashLock c l z).rc = t.rc := by
  unfold Table.rehashLock
  split
  · rfl
  · split
    · rfl
    · split
      · rfl
      · dsimp only
        split
        · split <;> rfl
        · rfl

theorem migrateAll_go_rc (c : Cfg κ) : ∀ (n l : Nat) (t : Table κ ν), (Table.migrateAll.go c n l t).rc = t.rc := by
  intro n
  induction n with
  | zero => intro l t; rfl
  | succ n ih =>
    intro l t
    unfold Table.migrateAll.go
    rw [ih, rehashLock_rc]

theorem setRem_rc (t : Table κ ν) (n : Nat) : (t.setRem n).rc = t.rc := by
  unfold Table.setRem; split <;> rfl

theorem migrateAll_rc (c : Cfg κ) (t : Table κ ν) : (t.migrateAll c).rc = t.rc := by
  unfold Table.migrateAll
  rw [setRem_rc, migrateAll_go_rc]

variable [DecidableEq κ]

theorem expandSimple_rc (c : Cfg κ) (locked auto : Bool) (fuel : Nat) (t : Table κ ν) (n : Nat) (h : Inv c t) :
    t.rc ≤ (expandSimple c locked auto fuel t n).1.rc ∧
    ((expandSimple c locked auto fuel t n).1.rc = t.rc → (expandSimple c locked auto fuel t n).1.hp = t.hp) := by
  cases fuel with
  | zero => unfold expandSimple; exact ⟨Nat.le_refl _, fun _ => rfl⟩
  | succ fuel =>
    have hm := (migrateAll_spec c t h).2.2.1
    have hrc := migrateAll_rc c t
    unfold expandSimple
    simp only
    cases hc : t.checkResize c auto n with
    | some e' => exact ⟨Nat.le_refl _, fun _ => rfl⟩
    | none =>
      simp only
      by_cases hlim : n > c.hpLimit
      · simp only [hlim, if_true]; exact ⟨by omega, fun _ => hm⟩
      · simp only [hlim, if_false]
        generalize List.foldl (rebuildStep c (insertLoop c false fuel)) _ _ = r
        obtain ⟨nm, res⟩ := r
        cases res with
        | err e' => exact ⟨by simp only; omega, fun _ => hm⟩
        | ok a =>
          simp only
          rw [(maybeResizeLocks_spec c _ _).2.2.2.1, hrc]
          exact ⟨by omega, fun e => by omega⟩


theorem fastDouble_rc (c : Cfg κ) (locked auto : Bool) (fuel : Nat) (t : Table κ ν) (n : Nat) (h : Inv c t) :
    t.rc ≤ (fastDouble c locked auto fuel t n).1.rc ∧
    ((fastDouble c locked auto fuel t n).1.rc = t.rc → (fastDouble c locked auto fuel t n).1.hp = t.hp) := by
  cases fuel with
  | zero => unfold fastDouble; exact ⟨Nat.le_refl _, fun _ => rfl⟩
  | succ fuel =>
    have hm := (migrateAll_spec c t h).2.2.1
    have hrc := migrateAll_rc c t
    unfold fastDouble
    split
    · exact expandSimple_rc c locked auto fuel t (n + 1) h
    · simp only
      cases hc : t.checkResize c auto (n + 1) with
      | some e' => exact ⟨Nat.le_refl _, fun _ => rfl⟩
      | none =>
        simp only
        split
        · exact ⟨Nat.le_refl _, fun _ => rfl⟩
        · split
          · exact ⟨by simp only; omega, fun _ => hm⟩
          · have hmr := (maybeResizeLocks_spec c (t.migrateAll c) (2 ^ (n + 1))).2.2.2.1
            simp only
            split
            · simp only [setRem_rc]
              rw [hmr, hrc]
              exact ⟨by omega, fun e => by omega⟩
            · split
              · simp only [migrateAll_rc]
                rw [hmr, hrc]
                exact ⟨by omega, fun e => by omega⟩
              · simp only
                rw [hmr, hrc]
                exact ⟨by omega, fun e => by omega⟩


/-! ### the functor tail of the final sections -/
open Cuckoo.Model.Conc Cuckoo.Model.C02A

theorem applyFn_spec (c : Cfg κ) (t : Table κ ν) (m : AMap κ ν) (b s : Nat) (sl : Slot κ ν) (ctx : Option Ctx)
    (me : Bool) (fn : ν → FnOut ν) (okRes : Bool)
    (h : Inv c t) (hr : Rel c t m) (hget : t.cur.get c.S b s = some sl) :
    Inv c (applyFn c t b s ctx me fn okRes).1 ∧ Keeps c t (applyFn c t b s ctx me fn okRes).1 ∧
    match fn sl.val with
    | .ret v' er => (applyFn c t b s ctx me fn okRes).2 = .bool (.ok okRes) [⟨ctx, sl.val⟩] ∧
        Rel c (applyFn c t b s ctx me fn okRes).1 (if me && er then m.erase sl.key else m.set sl.key v')
    | .throw v' => (applyFn c t b s ctx me fn okRes).2 = .bool (.err .fnThrow) [⟨ctx, sl.val⟩] ∧
        Rel c (applyFn c t b s ctx me fn okRes).1 (m.set sl.key v') := by
  cases hfn : fn sl.val with
  | throw v' =>
    have e : applyFn c t b s ctx me fn okRes = (t.setVal c b s v', .bool (.err .fnThrow) [⟨ctx, sl.val⟩]) := by
      unfold applyFn; simp only [hget, hfn]
    rw [e]
    obtain ⟨b1, b2, _, _⟩ := setVal_rel c t m b s sl v' h hr hget
    exact ⟨b1, (setVal_spec c t b s sl v' h hget).2.2.2.2.1, rfl, b2⟩
  | ret v' er =>
    obtain ⟨b1, b2, _, b4⟩ := setVal_rel c t m b s sl v' h hr hget
    have k1 := (setVal_spec c t b s sl v' h hget).2.2.2.2.1
    cases hce : (me && er) with
    | true =>
      have e : applyFn c t b s ctx me fn okRes =
          ((t.setVal c b s v').delFrom c b s, .bool (.ok okRes) [⟨ctx, sl.val⟩]) := by
        unfold applyFn; simp only [hget, hfn, hce, if_true]
      rw [e]
      obtain ⟨d1, d2, _⟩ := setDel_rel c t m b s sl v' h hr hget
      have k2 := (delFrom_spec c _ b s _ b1 b4).2.2.2.1
      exact ⟨d1, k1.trans k2, rfl, by rw [hce]; exact d2⟩
    | false =>
      have e : applyFn c t b s ctx me fn okRes = (t.setVal c b s v', .bool (.ok okRes) [⟨ctx, sl.val⟩]) := by
        unfold applyFn; simp only [hget, hfn, hce]; rfl
      rw [e]
      exact ⟨b1, k1, rfl, by rw [hce]; exact b2⟩

theorem finishInsert_spec (c : Cfg κ) (t : Table κ ν) (m : AMap κ ν) (k : κ) (v : ν) (ca me : Bool)
    (fn : Ctx → ν → FnOut ν) (p : InsPos) (h : Inv c t) (hr : Rel c t m) (hins : InsOK c t k p) :
    Inv c (finishInsert c t k v ca me fn p).1 ∧ Keeps c t (finishInsert c t k v ca me fn p).1 ∧
    (finishInsert c t k v ca me fn p).2 =
      .bool (Props.C02.upraseSpec m k v ca me fn).1 (Props.C02.upraseSpec m k v ca me fn).2.1 ∧
    Rel c (finishInsert c t k v ca me fn p).1 (Props.C02.upraseSpec m k v ca me fn).2.2 := by
  cases p with
  | free b s =>
    obtain ⟨b1, b2, _, b4, b5⟩ := addTo_rel c t m b s k v h hr hins
    have k0 : Keeps c t (t.addTo c b s ⟨c.tag k, k, v⟩) := by
      obtain ⟨hb, hs, hempty, hmig, hfresh⟩ := hins
      exact (addTo_spec c t b s k v h hb hs hempty hmig hfresh).2.2.2.1
    cases ca with
    | false =>
      have e : finishInsert c t k v false me fn (.free b s) =
          (t.addTo c b s ⟨c.tag k, k, v⟩, .bool (.ok true) []) := by
        unfold finishInsert; rfl
      have hs : Props.C02.upraseSpec m k v false me fn = (.ok true, [], m.add k v) := by
        unfold Props.C02.upraseSpec; rw [b5]; rfl
      rw [e, hs]
      exact ⟨b1, k0, rfl, b2⟩
    | true =>
      have e : finishInsert c t k v true me fn (.free b s) =
          applyFn c (t.addTo c b s ⟨c.tag k, k, v⟩) b s (some .newlyInserted) me (fn .newlyInserted) true := by
        unfold finishInsert; rfl
      rw [e]
      obtain ⟨d1, d2, d3⟩ := applyFn_spec c _ (m.add k v) b s _ (some .newlyInserted) me (fn .newlyInserted) true
        b1 b2 b4
      simp only at d3
      cases hfn : fn .newlyInserted v with
      | throw v' =>
        rw [hfn] at d3; simp only at d3
        have hs : Props.C02.upraseSpec m k v true me fn =
            (.err .fnThrow, [⟨some .newlyInserted, v⟩], m.add k v') := by
          unfold Props.C02.upraseSpec; rw [b5]; simp only [if_true, hfn]
        rw [hs]
        rw [AMap.add_set m k v v' b5] at d3
        exact ⟨d1, k0.trans d2, d3.1, d3.2⟩
      | ret v' er =>
        rw [hfn] at d3; simp only at d3
        cases hce : (me && er) with
        | true =>
          have hs : Props.C02.upraseSpec m k v true me fn = (.ok true, [⟨some .newlyInserted, v⟩], m) := by
            unfold Props.C02.upraseSpec; rw [b5]; simp only [if_true, hfn, hce]
          rw [hs]
          rw [hce, if_pos rfl, AMap.add_erase m k v b5] at d3
          exact ⟨d1, k0.trans d2, d3.1, d3.2⟩
        | false =>
          have hs : Props.C02.upraseSpec m k v true me fn =
              (.ok true, [⟨some .newlyInserted, v⟩], m.add k v') := by
            unfold Props.C02.upraseSpec; rw [b5]; simp only [if_true, hfn, hce]; rfl
          rw [hs]
          rw [hce, if_neg (by decide), AMap.add_set m k v v' b5] at d3
          exact ⟨d1, k0.trans d2, d3.1, d3.2⟩
  | dup b s =>
    obtain ⟨sl, hg, hk⟩ := hins
    have hlook := rel_lookup_of_live hr ⟨.cur b s, hg⟩
    subst hk
    have e : finishInsert c t sl.key v ca me fn (.dup b s) =
        applyFn c t b s (if ca then some .alreadyExisted else none) me (fn .alreadyExisted) false := by
      unfold finishInsert; rfl
    rw [e]
    obtain ⟨d1, d2, d3⟩ := applyFn_spec c t m b s sl (if ca then some .alreadyExisted else none) me
      (fn .alreadyExisted) false h hr hg
    cases hfn : fn .alreadyExisted sl.val with
    | throw v' =>
      rw [hfn] at d3; simp only at d3
      have hs : Props.C02.upraseSpec m sl.key v ca me fn =
          (.err .fnThrow, [⟨if ca then some .alreadyExisted else none, sl.val⟩], m.set sl.key v') := by
        unfold Props.C02.upraseSpec; rw [hlook]; simp only [hfn]
      rw [hs]
      exact ⟨d1, d2, d3.1, d3.2⟩
    | ret v' er =>
      rw [hfn] at d3; simp only at d3
      have hs : Props.C02.upraseSpec m sl.key v ca me fn =
          (.ok false, [⟨if ca then some .alreadyExisted else none, sl.val⟩],
            if me && er then m.erase sl.key else m.set sl.key v') := by
        unfold Props.C02.upraseSpec; rw [hlook]; simp only [hfn]
      rw [hs]
      exact ⟨d1, d2, d3.1, d3.2⟩

/-! ### the sections -/

omit [DecidableEq κ] in
theorem valid_eq {t : Table κ ν} {hpS rcS : Nat} (h : valid t hpS rcS = true) : t.rc = rcS ∧ t.hp = hpS := by
  unfold valid at h
  simp only [Bool.and_eq_true, beq_iff_eq] at h
  exact h

omit [DecidableEq κ] in
theorem lockSec_core (c : Cfg κ) (bs : List Nat) (t : Table κ ν) (h : Inv c t) :
    Inv c (lockSec (ν := ν) c bs t).1 ∧ Same c t (lockSec c bs t).1 ∧ Keeps c t (lockSec c bs t).1 ∧
    (lockSec c bs t).2 = none := by
  unfold lockSec
  match bs with
  | [] => exact ⟨h, Same.refl c t, Keeps.refl c t, rfl⟩
  | [b] => obtain ⟨a1, a2, a3, _⟩ := lockOne_spec c t b h; exact ⟨a1, a2, a3, rfl⟩
  | [b1, b2] => obtain ⟨a1, a2, a3, _⟩ := lockTwo_spec c t b1 b2 h; exact ⟨a1, a2, a3, rfl⟩
  | [b1, b2, b3] => obtain ⟨a1, a2, a3, _⟩ := lockThree_spec c t b1 b2 b3 h; exact ⟨a1, a2, a3, rfl⟩
  | _ :: _ :: _ :: _ :: _ => exact ⟨h, Same.refl c t, Keeps.refl c t, rfl⟩

omit [DecidableEq κ] in
theorem hopSec_core (c : Cfg κ) (hpS rcS : Nat) (fr to : PathRec) (t : Table κ ν) (h : Inv c t) :
    Inv c (hopSec c hpS rcS fr to t).1 ∧ Same c t (hopSec c hpS rcS fr to t).1 ∧
    Keeps c t (hopSec c hpS rcS fr to t).1 ∧ (hopSec c hpS rcS fr to t).2 = none := by
  obtain ⟨a1, a2, a3, _, a5⟩ := lockTwo_spec c t fr.bucket to.bucket h
  unfold hopSec
  simp only
  split
  · rename_i hg
    simp only [Bool.and_eq_true, beq_iff_eq, decide_eq_true_eq] at hg
    obtain ⟨⟨hv, halt⟩, hslot⟩ := hg
    cases hh : hop c (t.lockTwo c fr.bucket to.bucket) fr to with
    | none => exact ⟨a1, a2, a3, rfl⟩
    | some t2 =>
      obtain ⟨b1, b2, b3, _⟩ := hop_spec c _ t2 fr to a1 hh (by rw [(valid_eq hv).2]; exact halt) hslot a5
      exact ⟨b1, a2.trans b2, a3.trans b3, rfl⟩
  · exact ⟨a1, a2, a3, rfl⟩


theorem fnOp_keeps (c : Cfg κ) (ce : Bool) (t : Table κ ν) (k : κ) (fn : ν → FnOut ν) (h : Inv c t) :
    Keeps c t (t.fnOp c ce k fn).1 := by
  obtain ⟨a1, _, a3, _⟩ := lockTwo_spec c t (c.i1 t.hp k) (c.i2 t.hp k) h
  have hloc : t.locate c false k = (t.lockTwo c (c.i1 t.hp k) (c.i2 t.hp k),
      cuckooFind c (t.lockTwo c (c.i1 t.hp k) (c.i2 t.hp k)).cur (c.i1 t.hp k) (c.i2 t.hp k) k) := rfl
  generalize t.lockTwo c (c.i1 t.hp k) (c.i2 t.hp k) = t1 at *
  unfold Table.fnOp
  rw [hloc]
  cases cuckooFind c t1.cur (c.i1 t.hp k) (c.i2 t.hp k) k with
  | none => exact a3
  | some p =>
    obtain ⟨b, s⟩ := p
    simp only
    cases hg : t1.cur.get c.S b s with
    | none => exact a3
    | some sl =>
      simp only
      have k1 := (setVal_spec c t1 b s sl · a1 hg)
      cases hfn : fn sl.val with
      | throw v' => exact a3.trans (k1 v').2.2.2.2.1
      | ret v' er =>
        simp only
        split
        · exact a3.trans ((k1 v').2.2.2.2.1.trans (delFrom_spec c _ b s _ (k1 v').1 (k1 v').2.2.2.1).2.2.2.1)
        · exact a3.trans (k1 v').2.2.2.2.1

omit [DecidableEq κ] in
theorem clear_rc_hp (c : Cfg κ) (t : Table κ ν) : (t.clear c).rc = t.rc ∧ (t.clear c).hp = t.hp := by
  rw [clear_eq]; exact ⟨rfl, rfl⟩


/-- what a section of an inserting call must deliver -/
def InsRes (c : Cfg κ) (m : AMap κ ν) (k : κ) (v : ν) (ca me : Bool) (fn : Ctx → ν → FnOut ν)
    (r : Table κ ν × Option (Resp ν)) : Prop :=
  match r.2 with
  | none => Rel c r.1 m
  | some x => x = .bool (Props.C02.upraseSpec m k v ca me fn).1 (Props.C02.upraseSpec m k v ca me fn).2.1 ∧
      Rel c r.1 (Props.C02.upraseSpec m k v ca me fn).2.2

theorem finish_res (c : Cfg κ) (t0 t : Table κ ν) (m : AMap κ ν) (k : κ) (v : ν) (ca me : Bool)
    (fn : Ctx → ν → FnOut ν) (p : InsPos) (h : Inv c t) (hr : Rel c t m) (hk : Keeps c t0 t) (hins : InsOK c t k p) :
    Inv c (finishInsert c t k v ca me fn p).1 ∧ Keeps c t0 (finishInsert c t k v ca me fn p).1 ∧
    InsRes c m k v ca me fn ((finishInsert c t k v ca me fn p).1, some (finishInsert c t k v ca me fn p).2) := by
  obtain ⟨a1, a2, a3, a4⟩ := finishInsert_spec c t m k v ca me fn p h hr hins
  exact ⟨a1, hk.trans a2, a3, a4⟩

theorem insertTrySec_core (c : Cfg κ) (k : κ) (v : ν) (ca me : Bool) (fn : Ctx → ν → FnOut ν)
    (t : Table κ ν) (m : AMap κ ν) (h : Inv c t) (hr : Rel c t m) :
    Inv c (insertTrySec c k v ca me fn t).1 ∧ Keeps c t (insertTrySec c k v ca me fn t).1 ∧
    InsRes c m k v ca me fn (insertTrySec c k v ca me fn t) := by
  obtain ⟨a1, a2, a3, a4, a5⟩ := lockTwo_spec c t (c.i1 t.hp k) (c.i2 t.hp k) h
  have hr1 := hr.of_same a2
  unfold insertTrySec
  simp only
  generalize t.lockTwo c (c.i1 t.hp k) (c.i2 t.hp k) = t1 at *
  have hhp : t1.hp = t.hp := a3.hp
  have ts := tryInsert_spec c t1 k a1 (by rw [hhp]; exact a4) (by rw [hhp]; exact a5)
  rw [hhp] at ts
  cases htry : tryInsert c t1.cur (c.i1 t.hp k) (c.i2 t.hp k) k with
  | needCuckoo => exact ⟨a1, a3, hr1⟩
  | pos p =>
    rw [htry] at ts
    exact finish_res c t t1 m k v ca me fn p a1 hr1 a3 ts

/-- the common tail of the last section: duplicate re-check, insertion, functor -/
def lastTail (c : Cfg κ) (t2 : Table κ ν) (hpS : Nat) (k : κ) (v : ν) (ca me : Bool) (fn : Ctx → ν → FnOut ν)
    (fr : PathRec) : Table κ ν × Option (Resp ν) :=
  match cuckooFind c t2.cur (c.i1 hpS k) (c.i2 hpS k) k with
  | some (b, s) => let r := finishInsert c t2 k v ca me fn (.dup b s); (r.1, some r.2)
  | none => let r := finishInsert c t2 k v ca me fn (.free fr.bucket fr.slot); (r.1, some r.2)

theorem lastTail_spec (c : Cfg κ) (t0 t2 : Table κ ν) (m : AMap κ ν) (hpS : Nat) (k : κ) (v : ν) (ca me : Bool)
    (fn : Ctx → ν → FnOut ν) (fr : PathRec) (h : Inv c t2) (hr : Rel c t2 m) (hk : Keeps c t0 t2)
    (hhp : t2.hp = hpS) (u1 : t2.unmigB c (c.i1 hpS k) = false) (u2 : t2.unmigB c (c.i2 hpS k) = false)
    (hb : fr.bucket = c.i1 hpS k ∨ fr.bucket = c.i2 hpS k) (hs : fr.slot < c.S)
    (hfree : t2.cur.get c.S fr.bucket fr.slot = none) :
    Inv c (lastTail c t2 hpS k v ca me fn fr).1 ∧ Keeps c t0 (lastTail c t2 hpS k v ca me fn fr).1 ∧
    InsRes c m k v ca me fn (lastTail c t2 hpS k v ca me fn fr) := by
  subst hhp
  have hf := cuckooFind_spec c t2 k h u1 u2
  unfold lastTail
  cases hfind : cuckooFind c t2.cur (c.i1 t2.hp k) (c.i2 t2.hp k) k with
  | some p =>
    obtain ⟨b, s⟩ := p
    rw [hfind] at hf
    obtain ⟨sl, hg, hkey, _⟩ := hf
    exact finish_res c t0 t2 m k v ca me fn (.dup b s) h hr hk ⟨sl, hg, hkey⟩
  | none =>
    rw [hfind] at hf
    have hmig : t2.unmigB c fr.bucket = false := by
      rcases hb with e | e <;> rw [e] <;> assumption
    exact finish_res c t0 t2 m k v ca me fn (.free fr.bucket fr.slot) h hr hk ⟨hb, hs, hfree, hmig, hf⟩

theorem insertLastSec_core (c : Cfg κ) (hpS rcS : Nat) (k : κ) (v : ν) (ca me : Bool) (fn : Ctx → ν → FnOut ν)
    (fr : PathRec) (to : Option PathRec) (t : Table κ ν) (m : AMap κ ν) (h : Inv c t) (hr : Rel c t m) :
    Inv c (insertLastSec c hpS rcS k v ca me fn fr to t).1 ∧
    Keeps c t (insertLastSec c hpS rcS k v ca me fn fr to t).1 ∧
    InsRes c m k v ca me fn (insertLastSec c hpS rcS k v ca me fn fr to t) := by
  cases to with
  | none =>
    obtain ⟨a1, a2, a3, a4, a5⟩ := lockTwo_spec c t (c.i1 hpS k) (c.i2 hpS k) h
    have hr1 := hr.of_same a2
    have e : insertLastSec c hpS rcS k v ca me fn fr none t =
        if !(valid (t.lockTwo c (c.i1 hpS k) (c.i2 hpS k)) hpS rcS &&
              (fr.bucket == c.i1 hpS k || fr.bucket == c.i2 hpS k) && decide (fr.slot < c.S))
        then (t.lockTwo c (c.i1 hpS k) (c.i2 hpS k), none)
        else if (t.lockTwo c (c.i1 hpS k) (c.i2 hpS k)).cur.occ c.S fr.bucket fr.slot
          then (t.lockTwo c (c.i1 hpS k) (c.i2 hpS k), none)
          else lastTail c (t.lockTwo c (c.i1 hpS k) (c.i2 hpS k)) hpS k v ca me fn fr := by
      unfold insertLastSec lastTail
      simp only
      split
      · rfl
      · by_cases ho : (t.lockTwo c (c.i1 hpS k) (c.i2 hpS k)).cur.occ c.S fr.bucket fr.slot = true
        · simp only [ho, if_true]
        · simp only [ho]; rfl
    rw [e]
    generalize t.lockTwo c (c.i1 hpS k) (c.i2 hpS k) = t1 at *
    split
    · exact ⟨a1, a3, hr1⟩
    · rename_i hg
      simp only [Bool.not_eq_true', Bool.not_eq_false, Bool.and_eq_true, Bool.or_eq_true, beq_iff_eq, decide_eq_true_eq] at hg
      obtain ⟨⟨hv, hb⟩, hs⟩ := hg
      split
      · exact ⟨a1, a3, hr1⟩
      · rename_i hocc
        have hfree : t1.cur.get c.S fr.bucket fr.slot = none := by
          unfold Store.occ at hocc
          cases hx : t1.cur.get c.S fr.bucket fr.slot with
          | none => rfl
          | some x => rw [hx] at hocc; exact absurd rfl hocc
        exact lastTail_spec c t t1 m hpS k v ca me fn fr a1 hr1 a3 (valid_eq hv).2 a4 a5 hb hs hfree
  | some to =>
    obtain ⟨a1, a2, a3, a4, a5, a6⟩ := lockThree_spec c t (c.i1 hpS k) (c.i2 hpS k) to.bucket h
    have hr1 := hr.of_same a2
    have e : insertLastSec c hpS rcS k v ca me fn fr (some to) t =
        if !(valid (t.lockThree c (c.i1 hpS k) (c.i2 hpS k) to.bucket) hpS rcS &&
              (fr.bucket == c.i1 hpS k || fr.bucket == c.i2 hpS k) && decide (fr.slot < c.S))
        then (t.lockThree c (c.i1 hpS k) (c.i2 hpS k) to.bucket, none)
        else if (to.bucket == Spec.altIndex hpS (Spec.partialKey fr.hash) fr.bucket && decide (to.slot < c.S)) then
          match hop c (t.lockThree c (c.i1 hpS k) (c.i2 hpS k) to.bucket) fr to with
          | none => (t.lockThree c (c.i1 hpS k) (c.i2 hpS k) to.bucket, none)
          | some t2 => lastTail c t2 hpS k v ca me fn fr
        else (t.lockThree c (c.i1 hpS k) (c.i2 hpS k) to.bucket, none) := by
      unfold insertLastSec lastTail
      simp only
      split
      · rfl
      · by_cases ho : (to.bucket == Spec.altIndex hpS (Spec.partialKey fr.hash) fr.bucket && decide (to.slot < c.S)) = true
        · simp only [ho, if_true]
          cases hop c (t.lockThree c (c.i1 hpS k) (c.i2 hpS k) to.bucket) fr to <;> rfl
        · simp only [ho]; rfl
    rw [e]
    generalize t.lockThree c (c.i1 hpS k) (c.i2 hpS k) to.bucket = t1 at *
    split
    · exact ⟨a1, a3, hr1⟩
    · rename_i hg
      simp only [Bool.not_eq_true', Bool.not_eq_false, Bool.and_eq_true, Bool.or_eq_true, beq_iff_eq, decide_eq_true_eq] at hg
      obtain ⟨⟨hv, hb⟩, hs⟩ := hg
      have hhp := (valid_eq hv).2
      split
      · rename_i hg2
        simp only [Bool.and_eq_true, beq_iff_eq, decide_eq_true_eq] at hg2
        obtain ⟨halt, hslot⟩ := hg2
        cases hh : hop c t1 fr to with
        | none => exact ⟨a1, a3, hr1⟩
        | some t2 =>
          obtain ⟨b1, b2, b3, b4, _⟩ := hop_spec c t1 t2 fr to a1 hh (by rw [hhp]; exact halt) hslot a6
          exact lastTail_spec c t t2 m hpS k v ca me fn fr b1 (hr1.of_same b2) (a3.trans b3) (b3.hp.trans hhp)
            (b3.mono _ a4) (b3.mono _ a5) hb hs b4
      · exact ⟨a1, a3, hr1⟩


end Cuckoo.Model.ConcA
