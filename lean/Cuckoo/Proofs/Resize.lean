import Cuckoo.Proofs.Search
/-!
Chunk D — the insertion loop and the resize paths preserve the invariant and the live view
(`cuckoo_insert_loop`, `cuckoo_fast_double`, `cuckoo_expand_simple`).  Helper lemmas only.
-/
namespace Cuckoo.Model
open Cuckoo
variable {κ ν : Type}

/-- the errors an inserting / resizing step may end with -/
def ResizeErr (e : Err) : Prop :=
  e = .loadFactorTooLow ∨ e = .maxHpExceeded ∨ e = .badAlloc ∨ e = .fuel

theorem maybeResizeLocks_spec (c : Cfg κ) (t : Table κ ν) (n : Nat) :
    (t.maybeResizeLocks c n).cur = t.cur ∧ (t.maybeResizeLocks c n).old = t.old ∧
    (t.maybeResizeLocks c n).rem = t.rem ∧ (t.maybeResizeLocks c n).rc = t.rc ∧
    (t.maybeResizeLocks c n).mlf = t.mlf ∧ (t.maybeResizeLocks c n).mhp = t.mhp ∧
    (t.maybeResizeLocks c n).workers = t.workers ∧
    (t.maybeResizeLocks c n).sumCnt = t.sumCnt ∧
    (AllMig t → AllMig (t.maybeResizeLocks c n)) ∧
    (∀ (i : Nat) (lk : Lock), t.locks[i]? = some lk → (t.maybeResizeLocks c n).locks[i]? = some lk) ∧
    t.locks.size ≤ (t.maybeResizeLocks c n).locks.size := by
  sorry

/-- the three mutually recursive procedures, by induction on the fuel -/
theorem insertLoop_spec [DecidableEq κ] (c : Cfg κ) (locked : Bool) (fuel : Nat) (t : Table κ ν) (k : κ)
    (h : Inv c t) (hl : locked = true → AllMig t) :
    Inv c (insertLoop c locked fuel t k).1 ∧ Same c t (insertLoop c locked fuel t k).1 ∧
    (locked = true → AllMig (insertLoop c locked fuel t k).1) ∧
    match (insertLoop c locked fuel t k).2 with
    | .ok p => InsOK c (insertLoop c locked fuel t k).1 k p
    | .err e => ResizeErr e := by
  sorry

theorem fastDouble_spec [DecidableEq κ] (c : Cfg κ) (locked auto : Bool) (fuel : Nat) (t : Table κ ν) (curHp : Nat)
    (h : Inv c t) (hl : locked = true → AllMig t) :
    Inv c (fastDouble c locked auto fuel t curHp).1 ∧ Same c t (fastDouble c locked auto fuel t curHp).1 ∧
    (locked = true → AllMig (fastDouble c locked auto fuel t curHp).1) ∧
    match (fastDouble c locked auto fuel t curHp).2 with
    | .ok _ => True
    | .err e => ResizeErr e := by
  sorry

theorem expandSimple_spec [DecidableEq κ] (c : Cfg κ) (locked auto : Bool) (fuel : Nat) (t : Table κ ν) (newHp : Nat)
    (h : Inv c t) (hl : locked = true → AllMig t) :
    Inv c (expandSimple c locked auto fuel t newHp).1 ∧ Same c t (expandSimple c locked auto fuel t newHp).1 ∧
    (locked = true → AllMig (expandSimple c locked auto fuel t newHp).1) ∧
    match (expandSimple c locked auto fuel t newHp).2 with
    | .ok _ => AllMig (expandSimple c locked auto fuel t newHp).1
    | .err e => ResizeErr e := by
  sorry

end Cuckoo.Model
