import Cuckoo.Proofs.Search
/-!
Chunk D — the insertion loop and the resize paths preserve the invariant and the live view
(`cuckoo_insert_loop`, `cuckoo_fast_double`, `cuckoo_expand_simple`).  Helper lemmas only.

The auxiliary lemmas live in the namespace `Cuckoo.Model.Rz`; the four chunk theorems are at the end.
-/
namespace Cuckoo.Model
open Cuckoo
variable {κ ν : Type}

/-- the errors an inserting / resizing step may end with -/
def ResizeErr (e : Err) : Prop :=
  e = .loadFactorTooLow ∨ e = .maxHpExceeded ∨ e = .badAlloc ∨ e = .fuel

namespace Rz



theorem foldl_cnt_replicate (n : Nat) (b : Int) (m : Bool) :
    (Array.replicate n (⟨0, m⟩ : Lock)).foldl (fun s l => s + l.cnt) b = b := by
  induction n with
  | zero => simp
  | succ n ih => rw [Array.replicate_succ, Array.foldl_push, ih]; simp

theorem maybeResizeLocks_spec' (c : Cfg κ) (t : Table κ ν) (n : Nat) :
    (t.maybeResizeLocks c n).cur = t.cur ∧ (t.maybeResizeLocks c n).old = t.old ∧
    (t.maybeResizeLocks c n).rem = t.rem ∧ (t.maybeResizeLocks c n).rc = t.rc ∧
    (t.maybeResizeLocks c n).mlf = t.mlf ∧ (t.maybeResizeLocks c n).mhp = t.mhp ∧
    (t.maybeResizeLocks c n).workers = t.workers ∧
    (t.maybeResizeLocks c n).sumCnt = t.sumCnt ∧
    (AllMig t → AllMig (t.maybeResizeLocks c n)) ∧
    (∀ (i : Nat) (lk : Lock), t.locks[i]? = some lk → (t.maybeResizeLocks c n).locks[i]? = some lk) ∧
    t.locks.size ≤ (t.maybeResizeLocks c n).locks.size := by
  unfold Table.maybeResizeLocks
  split
  · refine ⟨rfl, rfl, rfl, rfl, rfl, rfl, rfl, ?_, ?_, ?_, ?_⟩
    · simp only [Table.sumCnt, Array.foldl_append, foldl_cnt_replicate]
    · intro ha i lk hlk
      simp only [Array.getElem?_append] at hlk
      split at hlk
      · exact ha i lk hlk
      · rw [Array.getElem?_replicate] at hlk
        split at hlk
        · cases hlk; rfl
        · cases hlk
    · intro i lk hlk
      have hi : i < t.locks.size := by
        apply Nat.lt_of_not_le; intro hge
        rw [Array.getElem?_eq_none hge] at hlk; cases hlk
      simp only [Array.getElem?_append, hi, ↓reduceIte, hlk]
    · simp
  · exact ⟨rfl, rfl, rfl, rfl, rfl, rfl, rfl, rfl, fun h => h, fun _ _ h => h, Nat.le_refl _⟩


theorem allMig_nUnmig {t : Table κ ν} (h : AllMig t) : t.nUnmig = 0 := by
  unfold Table.nUnmig
  rw [List.length_eq_zero_iff, List.filter_eq_nil_iff]
  intro a ha
  rw [Array.mem_toList_iff, Array.mem_iff_getElem?] at ha
  obtain ⟨i, hi⟩ := ha
  simp [h i a hi]

theorem nUnmig_map_false (xs : Array Lock) :
    ((xs.map (fun l => ({ l with migrated := false } : Lock))).toList.filter (fun l => !l.migrated)).length = xs.size := by
  rw [List.filter_eq_self.mpr]
  · simp
  · intro a ha
    simp only [Array.toList_map, List.mem_map] at ha
    obtain ⟨x, _, rfl⟩ := ha
    rfl

theorem foldl_cnt_map (xs : Array Lock) (f : Lock → Lock) (hf : ∀ x, (f x).cnt = x.cnt) (b : Int) :
    (xs.map f).foldl (fun s l => s + l.cnt) b = xs.foldl (fun s l => s + l.cnt) b := by
  rw [Array.foldl_map]
  simp only [hf]

theorem min_two_pow (a b : Nat) : min (2 ^ a) (2 ^ b) = 2 ^ (min a b) := by
  rcases Nat.le_total a b with h | h
  · rw [Nat.min_eq_left h, Nat.min_eq_left (Nat.pow_le_pow_right (by decide) h)]
  · rw [Nat.min_eq_right h, Nat.min_eq_right (Nat.pow_le_pow_right (by decide) h)]

theorem live_iff_cur {c : Cfg κ} {t : Table κ ν} (h : ∀ b, t.unmigB c b = false) (sl : Slot κ ν) :
    t.Live c sl ↔ ∃ b s, t.cur.get c.S b s = some sl := by
  constructor
  · rintro ⟨p, hp⟩
    cases p with
    | cur b s => exact ⟨b, s, hp⟩
    | old b s =>
      simp only [Table.at, h b] at hp
      split at hp <;> simp at hp
  · rintro ⟨b, s, hp⟩
    exact ⟨.cur b s, hp⟩

theorem mem_elems {S : Nat} (hS : 0 < S) (st : Store κ ν) (sl : Slot κ ν) :
    sl ∈ st.elems ↔ ∃ b s, st.get S b s = some sl := by
  unfold Store.elems
  rw [List.mem_filterMap]
  constructor
  · rintro ⟨a, ha, hid⟩
    simp only [id] at hid
    subst hid
    rw [Array.mem_toList_iff, Array.mem_iff_getElem?] at ha
    obtain ⟨i, hi⟩ := ha
    refine ⟨i / S, i % S, ?_⟩
    have hm := Nat.mod_lt i hS
    have hd := Nat.div_add_mod i S
    have e : i / S * S + i % S = i := by rw [Nat.mul_comm]; exact hd
    simp only [Store.get, hm, ↓reduceIte, e, Array.getD_eq_getD_getElem?, hi, Option.getD_some]
  · rintro ⟨b, s, h⟩
    have ⟨hs, hlt⟩ := Store.get_some_lt h
    refine ⟨some sl, ?_, rfl⟩
    rw [Array.mem_toList_iff, Array.mem_iff_getElem?]
    refine ⟨b * S + s, ?_⟩
    simp only [Store.get, hs, ↓reduceIte, Array.getD_eq_getD_getElem?] at h
    rw [Array.getElem?_eq_getElem hlt] at h ⊢
    simpa using h


theorem get_of_cell {S : Nat} (hS : 0 < S) (st : Store κ ν) (i : Nat) (sl : Slot κ ν)
    (hi : st.cells[i]? = some (some sl)) : st.get S (i / S) (i % S) = some sl := by
  have hm := Nat.mod_lt i hS
  have hd := Nat.div_add_mod i S
  have e : i / S * S + i % S = i := by rw [Nat.mul_comm]; exact hd
  simp only [Store.get, hm, ↓reduceIte, e, Array.getD_eq_getD_getElem?, hi, Option.getD_some]

theorem elems_pairwise {S : Nat} (hS : 0 < S) (st : Store κ ν)
    (huniq : ∀ b s b' s' sl sl', st.get S b s = some sl → st.get S b' s' = some sl' → sl.key = sl'.key →
      b = b' ∧ s = s') :
    st.elems.Pairwise (fun a b => a.key ≠ b.key) := by
  unfold Store.elems
  rw [List.pairwise_filterMap, List.pairwise_iff_getElem]
  intro i j hi hj hij a ha b hb heq
  simp only [id] at ha hb
  have h1 : st.cells[i]? = some (some a) := by
    rw [← ha, ← Array.getElem?_toList, List.getElem?_eq_getElem hi]
  have h2 : st.cells[j]? = some (some b) := by
    rw [← hb, ← Array.getElem?_toList, List.getElem?_eq_getElem hj]
  have := huniq _ _ _ _ _ _ (get_of_cell hS st i a h1) (get_of_cell hS st j b h2) heq
  have hd := Nat.div_add_mod i S
  have hd' := Nat.div_add_mod j S
  rw [this.1, this.2] at hd
  omega


def StoreUniq (S : Nat) (st : Store κ ν) : Prop :=
  ∀ b s b' s' sl sl', st.get S b s = some sl → st.get S b' s' = some sl' → sl.key = sl'.key → b = b' ∧ s = s'

structure MvInv (c : Cfg κ) (old cur : Store κ ν) (b : Nat) : Prop where
  hp : cur.hp = old.hp + 1
  size : cur.cells.size = 2 ^ cur.hp * c.S
  empty : ∀ b' s, (b ≤ b' ∧ b' < 2 ^ old.hp) ∨ b + 2 ^ old.hp ≤ b' → cur.get c.S b' s = none
  content : ∀ sl, (∃ b' s, cur.get c.S b' s = some sl) ↔ (∃ b' s, b' < b ∧ old.get c.S b' s = some sl)
  place : ∀ b' s sl, cur.get c.S b' s = some sl →
    sl.tag = c.tag sl.key ∧ (b' = c.i1 cur.hp sl.key ∨ b' = c.i2 cur.hp sl.key)
  uniq : StoreUniq c.S cur

theorem MvInv.step {c : Cfg κ} {old cur : Store κ ν} {b : Nat} (hS : 0 < c.S) (ho : old.WF c)
    (hu : StoreUniq c.S old) (h : MvInv c old cur b) (hb : b < 2 ^ old.hp) :
    MvInv c old (moveBucket c old cur b) (b + 1) := by
  have he1 : ∀ s, cur.get c.S b s = none := fun s => h.empty b s (Or.inl ⟨Nat.le_refl _, hb⟩)
  have he2 : ∀ s, cur.get c.S (b + 2 ^ old.hp) s = none := fun s => h.empty _ s (Or.inr (Nat.le_refl _))
  obtain ⟨hp', size', other, cont, plc, unq⟩ := moveBucket_spec c old cur b hS ho h.size h.hp hb he1 he2
  have unq' := unq (fun s s' sl sl' h1 h2 hk => (hu _ _ _ _ _ _ h1 h2 hk).2)
  refine ⟨hp'.trans h.hp, by rw [size', hp']; exact h.size, ?_, ?_, ?_, ?_⟩
  · intro b' s hb'
    rw [other b' s (by omega) (by omega)]
    exact h.empty b' s (by omega)
  · intro sl
    constructor
    · rintro ⟨b', s, hg⟩
      by_cases hin : b' = b ∨ b' = b + 2 ^ old.hp
      · have : ∃ s, old.get c.S b s = some sl := by
          apply (cont sl).mpr
          rcases hin with rfl | rfl
          · exact ⟨s, Or.inl hg⟩
          · exact ⟨s, Or.inr hg⟩
        obtain ⟨s0, hs0⟩ := this
        exact ⟨b, s0, Nat.lt_succ_self _, hs0⟩
      · rw [other b' s (fun e => hin (Or.inl e)) (fun e => hin (Or.inr e))] at hg
        obtain ⟨b'', s'', hlt, hg'⟩ := (h.content sl).mp ⟨b', s, hg⟩
        exact ⟨b'', s'', Nat.lt_succ_of_lt hlt, hg'⟩
    · rintro ⟨b'', s'', hlt, hg⟩
      by_cases hbb : b'' = b
      · subst hbb
        obtain ⟨s, hs | hs⟩ := (cont sl).mp ⟨s'', hg⟩
        · exact ⟨_, s, hs⟩
        · exact ⟨_, s, hs⟩
      · obtain ⟨b', s, hg'⟩ := (h.content sl).mpr ⟨b'', s'', by omega, hg⟩
        refine ⟨b', s, ?_⟩
        rw [other b' s ?_ ?_]
        · exact hg'
        · rintro rfl; rw [he1] at hg'; cases hg'
        · rintro rfl; rw [he2] at hg'; cases hg'
  · intro b' s sl hg
    by_cases hin : b' = b ∨ b' = b + 2 ^ old.hp
    · rw [hp']; exact plc b' s sl hin hg
    · rw [other b' s (fun e => hin (Or.inl e)) (fun e => hin (Or.inr e))] at hg
      rw [hp']; exact h.place b' s sl hg
  · intro b1 s1 b2 s2 sl sl' h1 h2 hk
    have cross : ∀ b1 s1 b2 s2 (sl sl' : Slot κ ν), (b1 = b ∨ b1 = b + 2 ^ old.hp) →
        ¬ (b2 = b ∨ b2 = b + 2 ^ old.hp) →
        (moveBucket c old cur b).get c.S b1 s1 = some sl → (moveBucket c old cur b).get c.S b2 s2 = some sl' →
        sl.key = sl'.key → False := by
      intro b1 s1 b2 s2 sl sl' hin1 hin2 h1 h2 hk
      have : ∃ s, old.get c.S b s = some sl := by
        apply (cont sl).mpr
        rcases hin1 with rfl | rfl
        · exact ⟨s1, Or.inl h1⟩
        · exact ⟨s1, Or.inr h1⟩
      obtain ⟨s0, hs0⟩ := this
      rw [other b2 s2 (fun e => hin2 (Or.inl e)) (fun e => hin2 (Or.inr e))] at h2
      obtain ⟨b'', s'', hlt, hg'⟩ := (h.content sl').mp ⟨b2, s2, h2⟩
      have := (hu _ _ _ _ _ _ hs0 hg' hk).1
      omega
    by_cases hin1 : b1 = b ∨ b1 = b + 2 ^ old.hp
    · by_cases hin2 : b2 = b ∨ b2 = b + 2 ^ old.hp
      · exact unq' b1 s1 b2 s2 sl sl' hin1 hin2 h1 h2 hk
      · exact (cross _ _ _ _ _ _ hin1 hin2 h1 h2 hk).elim
    · by_cases hin2 : b2 = b ∨ b2 = b + 2 ^ old.hp
      · exact (cross _ _ _ _ _ _ hin2 hin1 h2 h1 hk.symm).elim
      · rw [other b1 s1 (fun e => hin1 (Or.inl e)) (fun e => hin1 (Or.inr e))] at h1
        rw [other b2 s2 (fun e => hin2 (Or.inl e)) (fun e => hin2 (Or.inr e))] at h2
        exact h.uniq _ _ _ _ _ _ h1 h2 hk

theorem MvInv.init (c : Cfg κ) (old : Store κ ν) : MvInv c old (Store.mk' c.S (old.hp + 1)) 0 := by
  refine ⟨rfl, Store.mk'_size _ _, fun _ _ _ => Store.mk'_get _ _ _ _, ?_, ?_, ?_⟩
  · intro sl
    constructor
    · rintro ⟨b, s, h⟩; rw [Store.mk'_get] at h; cases h
    · rintro ⟨_, _, h, _⟩; omega
  · intro b s sl h; rw [Store.mk'_get] at h; cases h
  · intro b s b' s' sl sl' h; rw [Store.mk'_get] at h; cases h

theorem mv_spec [DecidableEq κ] {c : Cfg κ} {old : Store κ ν} (hS : 0 < c.S) (ho : old.WF c) (hu : StoreUniq c.S old) :
    ∀ (n b : Nat) (cur : Store κ ν), b + n = 2 ^ old.hp → MvInv c old cur b →
      MvInv c old (fastDouble.mv c old n b cur) (2 ^ old.hp) := by
  intro n
  induction n with
  | zero => intro b cur hb h; simp only [fastDouble.mv]; rw [← hb]; exact h
  | succ n ih =>
    intro b cur hb h
    simp only [fastDouble.mv]
    exact ih (b + 1) _ (by omega) (h.step hS ho hu (by omega))



theorem mrl_size (c : Cfg κ) (t : Table κ ν) (a : Nat) (hM : ∃ m, c.M = 2 ^ m)
    (hp : ∃ j, t.locks.size = 2 ^ j) (hle : t.locks.size ≤ c.M) :
    (∃ j, (t.maybeResizeLocks c (2 ^ a)).locks.size = 2 ^ j) ∧
    (t.maybeResizeLocks c (2 ^ a)).locks.size ≤ c.M ∧
    min (2 ^ a) c.M ≤ (t.maybeResizeLocks c (2 ^ a)).locks.size := by
  unfold Table.maybeResizeLocks
  split
  · rename_i hc
    have e : (t.locks ++ Array.replicate (min c.M (2 ^ a) - t.locks.size) (⟨0, true⟩ : Lock)).size
        = min c.M (2 ^ a) := by
      simp only [Array.size_append, Array.size_replicate]; omega
    simp only [e]
    refine ⟨?_, by omega, by omega⟩
    obtain ⟨m, hm⟩ := hM
    exact ⟨min m a, by rw [hm, min_two_pow]⟩
  · rename_i hc
    exact ⟨hp, hle, by omega⟩

theorem inv_curUniq {c : Cfg κ} {t : Table κ ν} (h : Inv c t) : StoreUniq c.S t.cur := by
  intro b s b' s' sl sl' h1 h2 hk
  have := h.uniq (.cur b s) (.cur b' s') sl sl' h1 h2 hk
  cases this
  exact ⟨rfl, rfl⟩

theorem double_now [DecidableEq κ] {c : Cfg κ} {t1 t' : Table κ ν} (h1 : Inv c t1) (ha : AllMig t1)
    (hlim : t1.mhp = noMaxHp ∨ t1.hp + 1 ≤ t1.mhp)
    (hcur : t'.cur = fastDouble.mv c t1.cur (2 ^ t1.cur.hp) 0 (Store.mk' c.S (t1.cur.hp + 1)))
    (hold : t'.old = none) (hlocks : t'.locks = (t1.maybeResizeLocks c (2 ^ (t1.hp + 1))).locks)
    (hrem : t'.rem = 0)
    (hmlf : t'.mlf = t1.mlf) (hmhp : t'.mhp = t1.mhp) (hw : t'.workers = t1.workers) :
    Inv c t' ∧ Same c t1 t' ∧ AllMig t' := by
  have hspec := maybeResizeLocks_spec' c t1 (2 ^ (t1.hp + 1))
  have ha' : AllMig t' := by
    intro i lk hlk
    rw [hlocks] at hlk
    exact hspec.2.2.2.2.2.2.2.2.1 ha i lk hlk
  have mvi := mv_spec h1.S_pos h1.cur_wf (inv_curUniq h1) (2 ^ t1.cur.hp) 0 _ (by omega) (MvInv.init c t1.cur)
  rw [← hcur] at mvi
  have hsz := mrl_size c t1 (t1.hp + 1) h1.M_pow h1.locks_pow h1.locks_le
  rw [← hlocks] at hsz
  have hhp : t'.hp = t1.hp + 1 := mvi.hp
  refine ⟨⟨h1.S_pos, h1.M_pow, ⟨mvi.size, mvi.place⟩, hsz.1, hsz.2.1, ?_, ?_, ?_, ?_, ?_, ?_⟩, ⟨?_, ?_, hmlf, hmhp, hw⟩, ha'⟩
  · rw [hhp]; exact hsz.2.2
  · rw [hrem, allMig_nUnmig ha']
  · intro h; rw [hrem] at h; omega
  · intro b s h; rw [ha'.unmigB] at h; cases h
  · intro p p' sl sl' hp hp' hk
    cases p with
    | old b s => simp only [Table.at, hold] at hp; cases hp
    | cur b s =>
      cases p' with
      | old b s => simp only [Table.at, hold] at hp'; cases hp'
      | cur b' s' =>
        have := mvi.uniq _ _ _ _ _ _ hp hp' hk
        rw [this.1, this.2]
  · rw [hmhp, hhp]; exact hlim
  · intro sl
    rw [live_iff_cur (fun b => ha'.unmigB b), live_iff_cur (fun b => ha.unmigB b), mvi.content]
    constructor
    · rintro ⟨b, s, _, h⟩; exact ⟨b, s, h⟩
    · rintro ⟨b, s, h⟩; exact ⟨b, s, Store.get_some_bucket_lt h1.cur_wf.size h, h⟩
  · unfold Table.sumCnt; rw [hlocks]; exact hspec.2.2.2.2.2.2.2.1


theorem mrl_noop (c : Cfg κ) (t : Table κ ν) (n : Nat) (h : c.M ≤ t.locks.size) :
    t.maybeResizeLocks c n = t := by
  unfold Table.maybeResizeLocks
  rw [if_neg]; omega

theorem double_lazy {c : Cfg κ} {t1 t' : Table κ ν} (h1 : Inv c t1) (ha : AllMig t1)
    (hge : c.M ≤ 2 ^ t1.hp)
    (hlim : t1.mhp = noMaxHp ∨ t1.hp + 1 ≤ t1.mhp)
    (hcur : t'.cur = Store.mk' c.S (t1.hp + 1))
    (hold : t'.old = some t1.cur)
    (hlocks : t'.locks = t1.locks.map (fun l => ({ l with migrated := false } : Lock)))
    (hrem : t'.rem = t1.locks.size)
    (hmlf : t'.mlf = t1.mlf) (hmhp : t'.mhp = t1.mhp) (hw : t'.workers = t1.workers) :
    Inv c t' ∧ Same c t1 t' := by
  have hsz : t1.locks.size = c.M := by
    have := h1.locks_ge; have := h1.locks_le; omega
  have hsz' : t'.locks.size = c.M := by rw [hlocks, Array.size_map, hsz]
  have hMpos : 0 < c.M := by obtain ⟨m, hm⟩ := h1.M_pow; rw [hm]; exact Spec.two_pow_pos m
  have hhp : t'.hp = t1.hp + 1 := by unfold Table.hp; rw [hcur]; rfl
  have hun : ∀ b, t'.unmigB c b = true := by
    intro b
    unfold Table.unmigB
    have hlt : c.lockInd b < t1.locks.size := by rw [hsz]; exact Spec.lockInd_lt _ _ hMpos
    rw [hlocks, Array.getElem?_map, Array.getElem?_eq_getElem hlt]
    rfl
  have hget : ∀ b s, t'.cur.get c.S b s = none := by
    intro b s; rw [hcur]; exact Store.mk'_get _ _ _ _
  have hat : ∀ b s, t'.at c (.old b s) = t1.cur.get c.S b s := by
    intro b s; simp only [Table.at, hold, hun b, ↓reduceIte]
  refine ⟨⟨h1.S_pos, h1.M_pow, by rw [hcur]; exact Store.mk'_wf c _, by rw [hsz']; exact h1.M_pow,
    by omega, by omega, ?_, ?_, ?_, ?_, ?_⟩, ⟨?_, ?_, hmlf, hmhp, hw⟩⟩
  · rw [hrem]; unfold Table.nUnmig; rw [hlocks, nUnmig_map_false]
  · intro _
    exact ⟨t1.cur, hold, h1.cur_wf, by rw [hhp]; rfl, hge, hsz'⟩
  · intro b s _; exact hget b s
  · intro p p' sl sl' hp hp' hk
    cases p with
    | cur b s => simp only [Table.at, hget] at hp; cases hp
    | old b s =>
      cases p' with
      | cur b s => simp only [Table.at, hget] at hp'; cases hp'
      | old b' s' =>
        rw [hat] at hp hp'
        have := (inv_curUniq h1) _ _ _ _ _ _ hp hp' hk
        rw [this.1, this.2]
  · rw [hmhp, hhp]; exact hlim
  · intro sl
    rw [live_iff_cur (fun b => ha.unmigB b)]
    constructor
    · rintro ⟨p, hp⟩
      cases p with
      | cur b s => simp only [Table.at, hget] at hp; cases hp
      | old b s => rw [hat] at hp; exact ⟨b, s, hp⟩
    · rintro ⟨b, s, h⟩
      exact ⟨.old b s, by rw [hat]; exact h⟩
  · unfold Table.sumCnt; rw [hlocks]; exact foldl_cnt_map t1.locks (fun l => ({ l with migrated := false } : Lock)) (fun _ => rfl) 0



theorem checkResize_some {c : Cfg κ} {t : Table κ ν} {auto : Bool} {n : Nat} {e : Err}
    (h : t.checkResize c auto n = some e) : ResizeErr e := by
  unfold Table.checkResize at h
  split at h
  · cases h; exact Or.inr (Or.inl rfl)
  · split at h
    · cases h; exact Or.inl rfl
    · cases h

theorem checkResize_none {c : Cfg κ} {t : Table κ ν} {auto : Bool} {n : Nat}
    (h : t.checkResize c auto n = none) : t.mhp = noMaxHp ∨ n ≤ t.mhp := by
  unfold Table.checkResize at h
  split at h
  · cases h
  · rename_i hc
    by_cases hm : t.mhp = noMaxHp
    · exact Or.inl hm
    · right; apply Nat.le_of_not_lt; intro hlt; exact hc ⟨hm, hlt⟩

theorem fields_irrel {c : Cfg κ} {t t' : Table κ ν} (hcur : t'.cur = t.cur) (hold : t'.old = t.old)
    (hlocks : t'.locks = t.locks) (hrem : t'.rem = t.rem) (hmlf : t'.mlf = t.mlf) (hmhp : t'.mhp = t.mhp)
    (hw : t'.workers = t.workers) :
    (Inv c t → Inv c t') ∧ Same c t t' ∧ (AllMig t → AllMig t') := by
  obtain ⟨a1, a2, a3, a4, a5, a6, a7, a8, a9⟩ := t
  obtain ⟨b1, b2, b3, b4, b5, b6, b7, b8, b9⟩ := t'
  simp only at hcur hold hlocks hrem hmlf hmhp hw
  subst hcur hold hlocks hrem hmlf hmhp hw
  refine ⟨fun h => ⟨h.S_pos, h.M_pow, h.cur_wf, h.locks_pow, h.locks_le, h.locks_ge, h.rem_eq, h.pending,
    h.unmig_empty, h.uniq, h.limit⟩, ⟨fun sl => Iff.rfl, rfl, rfl, rfl, rfl⟩, fun h => h⟩

def PIns [DecidableEq κ] (c : Cfg κ) (ν : Type) (fuel : Nat) : Prop :=
  ∀ (locked : Bool) (t : Table κ ν) (k : κ), Inv c t → (locked = true → AllMig t) →
    Inv c (insertLoop c locked fuel t k).1 ∧ Same c t (insertLoop c locked fuel t k).1 ∧
    (locked = true → AllMig (insertLoop c locked fuel t k).1) ∧
    match (insertLoop c locked fuel t k).2 with
    | .ok p => InsOK c (insertLoop c locked fuel t k).1 k p
    | .err e => ResizeErr e

def PDbl [DecidableEq κ] (c : Cfg κ) (ν : Type) (fuel : Nat) : Prop :=
  ∀ (locked auto : Bool) (t : Table κ ν) (curHp : Nat), Inv c t → (locked = true → AllMig t) →
    Inv c (fastDouble c locked auto fuel t curHp).1 ∧ Same c t (fastDouble c locked auto fuel t curHp).1 ∧
    (locked = true → AllMig (fastDouble c locked auto fuel t curHp).1) ∧
    match (fastDouble c locked auto fuel t curHp).2 with
    | .ok _ => True
    | .err e => ResizeErr e

def PExp [DecidableEq κ] (c : Cfg κ) (ν : Type) (fuel : Nat) : Prop :=
  ∀ (locked auto : Bool) (t : Table κ ν) (newHp : Nat), Inv c t → (locked = true → AllMig t) →
    Inv c (expandSimple c locked auto fuel t newHp).1 ∧ Same c t (expandSimple c locked auto fuel t newHp).1 ∧
    (locked = true → AllMig (expandSimple c locked auto fuel t newHp).1) ∧
    match (expandSimple c locked auto fuel t newHp).2 with
    | .ok _ => AllMig (expandSimple c locked auto fuel t newHp).1
    | .err e => ResizeErr e


def bumpRc (t : Table κ ν) : Table κ ν := { t with rc := t.rc + 1 }

theorem bumpRc_spec (c : Cfg κ) (t : Table κ ν) :
    (Inv c t → Inv c (bumpRc t)) ∧ Same c t (bumpRc t) ∧ (AllMig t → AllMig (bumpRc t)) :=
  fields_irrel rfl rfl rfl rfl rfl rfl rfl

def doubleCore [DecidableEq κ] (c : Cfg κ) (locked : Bool) (t1 : Table κ ν) (newHp : Nat) : Table κ ν :=
  let t := t1.maybeResizeLocks c (2 ^ newHp)
  let old := t.cur
  let t := { t with old := some old, cur := Store.mk' c.S newHp }
  if 2 ^ old.hp < c.M then
    ({ t with cur := fastDouble.mv c old (2 ^ old.hp) 0 t.cur }).setRem 0
  else
    let t := { t with locks := t.locks.map (fun l => { l with migrated := false }), rem := t.locks.size }
    if locked then t.migrateAll c else t

theorem doubleCore_spec [DecidableEq κ] (c : Cfg κ) (locked : Bool) (t1 : Table κ ν) (newHp : Nat)
    (h1 : Inv c t1) (ha : AllMig t1) (hn : newHp = t1.hp + 1)
    (hlim : t1.mhp = noMaxHp ∨ t1.hp + 1 ≤ t1.mhp) :
    Inv c (doubleCore c locked t1 newHp) ∧ Same c t1 (doubleCore c locked t1 newHp) ∧
    (locked = true → AllMig (doubleCore c locked t1 newHp)) := by
  subst hn
  have hc := (maybeResizeLocks_spec' c t1 (2 ^ (t1.hp + 1)))
  unfold doubleCore
  dsimp only
  by_cases hlt : 2 ^ t1.hp < c.M
  · rw [if_pos (by rw [hc.1]; exact hlt)]
    have := double_now h1 ha hlim (t' := ({ (t1.maybeResizeLocks c (2 ^ (t1.hp + 1))) with
                old := some (t1.maybeResizeLocks c (2 ^ (t1.hp + 1))).cur,
                cur := fastDouble.mv c (t1.maybeResizeLocks c (2 ^ (t1.hp + 1))).cur
                  (2 ^ (t1.maybeResizeLocks c (2 ^ (t1.hp + 1))).cur.hp) 0 (Store.mk' c.S (t1.hp + 1)) } : Table κ ν).setRem 0)
       (by
         show fastDouble.mv c (t1.maybeResizeLocks c (2 ^ (t1.hp + 1))).cur
                  (2 ^ (t1.maybeResizeLocks c (2 ^ (t1.hp + 1))).cur.hp) 0 (Store.mk' c.S (t1.hp + 1)) = _
         rw [hc.1]; rfl) rfl rfl rfl hc.2.2.2.2.1 hc.2.2.2.2.2.1 hc.2.2.2.2.2.2.1
    exact ⟨this.1, this.2.1, fun _ => this.2.2⟩
  · have hge : c.M ≤ 2 ^ t1.hp := Nat.le_of_not_lt hlt
    have hsz : c.M ≤ t1.locks.size := by have := h1.locks_ge; omega
    rw [mrl_noop c t1 _ hsz]
    rw [if_neg (show ¬ 2 ^ t1.cur.hp < c.M from hlt)]
    have := double_lazy h1 ha hge hlim (t' := { t1 with old := some t1.cur, cur := Store.mk' c.S (t1.hp + 1), locks := t1.locks.map (fun l => ({ l with migrated := false } : Lock)), rem := t1.locks.size })
        rfl rfl rfl rfl rfl rfl rfl
    split
    · obtain ⟨m1, m2, _, _, m5, _⟩ := migrateAll_spec c _ this.1
      exact ⟨m1, this.2.trans m2, fun _ => m5⟩
    · rename_i hl
      exact ⟨this.1, this.2, fun h => absurd h hl⟩

theorem fastDouble_step [DecidableEq κ] (c : Cfg κ) (fuel : Nat) (hE : PExp c ν fuel) : PDbl c ν (fuel + 1) := by
  intro locked auto t curHp h hl
  rw [fastDouble.eq_2]
  split
  · have := hE locked auto t (curHp + 1) h hl
    refine ⟨this.1, this.2.1, this.2.2.1, ?_⟩
    have h4 := this.2.2.2
    generalize (expandSimple c locked auto fuel t (curHp + 1)).2 = r at h4 ⊢
    cases r
    · trivial
    · exact h4
  · dsimp only
    split
    · rename_i e he
      exact ⟨h, Same.refl c t, hl, checkResize_some he⟩
    · rename_i hnone
      split
      · exact ⟨h, Same.refl c t, hl, trivial⟩
      · rename_i hhp
        have hhp : curHp = t.hp := by
          apply Classical.byContradiction; intro hne; exact hhp (fun e => hne e.symm)
        subst hhp
        obtain ⟨m1, m2, m3, m4, m5, m6, m7, m8, m9⟩ := migrateAll_spec c t h
        split
        · exact ⟨m1, m2, fun _ => m5, Or.inr (Or.inr (Or.inl rfl))⟩
        · show Inv c (bumpRc (doubleCore c locked (t.migrateAll c) (t.hp + 1))) ∧
            Same c t (bumpRc (doubleCore c locked (t.migrateAll c) (t.hp + 1))) ∧
            (locked = true → AllMig (bumpRc (doubleCore c locked (t.migrateAll c) (t.hp + 1)))) ∧ True
          have hlim : (t.migrateAll c).mhp = noMaxHp ∨ (t.migrateAll c).hp + 1 ≤ (t.migrateAll c).mhp := by
            rw [m2.mhp, m3]; exact checkResize_none hnone
          obtain ⟨d1, d2, d3⟩ := doubleCore_spec c locked (t.migrateAll c) (t.hp + 1) m1 m5 (by rw [m3]) hlim
          obtain ⟨r1, r2, r3⟩ := bumpRc_spec c (doubleCore c locked (t.migrateAll c) (t.hp + 1))
          exact ⟨r1 d1, (m2.trans d2).trans r2, fun hh => r3 (d3 hh), trivial⟩




theorem i1_lt (c : Cfg κ) (hp : Nat) (k : κ) : c.i1 hp k < 2 ^ hp := Spec.indexHash_lt _ _
theorem i2_lt (c : Cfg κ) (hp : Nat) (k : κ) : c.i2 hp k < 2 ^ hp := Spec.altIndex_lt _ _ _

theorem insertLoop_step [DecidableEq κ] (c : Cfg κ) (fuel : Nat) (hI : PIns c ν fuel) (hD : PDbl c ν fuel) :
    PIns c ν (fuel + 1) := by
  intro locked t k h hl
  rw [insertLoop.eq_2]
  obtain ⟨l1, l2, l3, l4, l5⟩ := lockTwoM_spec c locked t (c.i1 t.hp k) (c.i2 t.hp k) h hl
  generalize t.lockTwoM c locked (c.i1 t.hp k) (c.i2 t.hp k) = t1 at *
  have hhp : t1.hp = t.hp := l3.hp
  have hl1 : locked = true → AllMig t1 := fun hh => l3.allmig (hl hh)
  have ts := tryInsert_spec c t1 k l1 (by rw [hhp]; exact l4) (by rw [hhp]; exact l5)
  rw [hhp] at ts
  split
  · rename_i p hp
    rw [hp] at ts
    exact ⟨l1, l2, hl1, ts⟩
  · rename_i hnc
    rw [hnc] at ts
    have rs := runCuckoo_spec c locked t1 (c.i1 t.hp k) (c.i2 t.hp k) l1 hl1
      (by rw [hhp]; exact i1_lt c _ k) (by rw [hhp]; exact i2_lt c _ k)
    split
    · rename_i t2 b s heq
      rw [heq] at rs
      obtain ⟨r1, r2, r3, r4, r5, r6, r7, r8⟩ := rs
      dsimp only at r1 r2 r3 r4 r5 r6 r7 r8
      have hhp2 : t2.hp = t.hp := r3.hp.trans hhp
      have hl2 : locked = true → AllMig t2 := fun hh => r3.allmig (hl1 hh)
      have cf := cuckooFind_spec c t2 k r1 (by rw [hhp2]; exact r7) (by rw [hhp2]; exact r8)
      rw [hhp2] at cf
      split
      · rename_i b' s' hf
        rw [hf] at cf
        obtain ⟨sl, hsl, hk, _⟩ := cf
        exact ⟨r1, l2.trans r2, hl2, sl, hsl, hk⟩
      · rename_i hf
        rw [hf] at cf
        refine ⟨r1, l2.trans r2, hl2, ?_, r5, r6, ?_, cf⟩
        · rw [hhp2]; exact r4
        · rcases r4 with rfl | rfl
          · exact r7
          · exact r8
    · rename_i t2 heq
      rw [heq] at rs
      exact ⟨rs.1, l2.trans rs.2.1, fun hh => rs.2.2.1.allmig (hl1 hh), Or.inr (Or.inr (Or.inr rfl))⟩
    · rename_i t2 heq
      rw [heq] at rs
      obtain ⟨r1, r2, r3, _⟩ := rs
      dsimp only at r1 r2 r3
      have hl2 : locked = true → AllMig t2 := fun hh => r3.allmig (hl1 hh)
      have ds := hD locked true t2 t.hp r1 hl2
      split
      · rename_i t3 e heq3
        rw [heq3] at ds
        exact ⟨ds.1, (l2.trans r2).trans ds.2.1, ds.2.2.1, ds.2.2.2⟩
      · rename_i t3 a heq3
        rw [heq3] at ds
        obtain ⟨d1, d2, d3, _⟩ := ds
        dsimp only at d1 d2 d3
        have is := hI locked t3 k d1 d3
        exact ⟨is.1, ((l2.trans r2).trans d2).trans is.2.1, is.2.2.1, is.2.2.2⟩

theorem insertLoop_zero [DecidableEq κ] (c : Cfg κ) : PIns c ν 0 := by
  intro locked t k h hl
  rw [insertLoop.eq_1]
  exact ⟨h, Same.refl c t, hl, Or.inr (Or.inr (Or.inr rfl))⟩

theorem fastDouble_zero [DecidableEq κ] (c : Cfg κ) : PDbl c ν 0 := by
  intro locked auto t n h hl
  rw [fastDouble.eq_1]
  exact ⟨h, Same.refl c t, hl, Or.inr (Or.inr (Or.inr rfl))⟩

theorem expandSimple_zero [DecidableEq κ] (c : Cfg κ) : PExp c ν 0 := by
  intro locked auto t n h hl
  rw [expandSimple.eq_1]
  exact ⟨h, Same.refl c t, hl, Or.inr (Or.inr (Or.inr rfl))⟩


theorem init_spec (c : Cfg κ) (n w : Nat) (f : Float) (mh : Nat) (hS : 0 < c.S) (hM : ∃ m, c.M = 2 ^ m)
    (hlim : mh = noMaxHp ∨ Spec.reserveCalc c.S n ≤ mh) (nm : Table κ ν)
    (hnm : nm = { (Table.init c n : Table κ ν) with workers := w, mlf := f, mhp := mh }) :
    Inv c nm ∧ AllMig nm ∧ (∀ sl, ¬ nm.Live c sl) ∧ nm.mhp = mh := by
  subst hnm
  have ha : AllMig ({ (Table.init c n : Table κ ν) with workers := w, mlf := f, mhp := mh }) := by
    intro i lk hlk
    simp only [Table.init, Array.getElem?_replicate] at hlk
    split at hlk
    · cases hlk; rfl
    · cases hlk
  have hnl : ∀ p, ({ (Table.init c n : Table κ ν) with workers := w, mlf := f, mhp := mh }).at c p = none := by
    intro p
    cases p with
    | cur b s => exact Store.mk'_get _ _ _ _
    | old b s =>
      simp only [Table.at, Table.init, Store.mk'_get, ite_self]
  refine ⟨⟨hS, hM, Store.mk'_wf c _, ?_, ?_, ?_, ?_, ?_, ?_, ?_, hlim⟩, ha, ?_, rfl⟩
  · obtain ⟨m, hm⟩ := hM
    refine ⟨min (Spec.reserveCalc c.S n) m, ?_⟩
    simp only [Table.init, Array.size_replicate, hm, min_two_pow]
  · simp only [Table.init, Array.size_replicate]; exact Nat.min_le_right _ _
  · simp only [Table.init, Array.size_replicate, Table.hp, Store.mk'_hp]; exact Nat.le_refl _
  · rw [allMig_nUnmig ha]; rfl
  · intro h; exact absurd h (Nat.lt_irrefl 0)
  · intro b s _; exact Store.mk'_get _ _ _ _
  · intro p p' sl sl' hp; rw [hnl] at hp; cases hp
  · rintro sl ⟨p, hp⟩; rw [hnl] at hp; cases hp


theorem foldl_rebuild_err (c : Cfg κ) (ins : Table κ ν → κ → Table κ ν × Res InsPos) (L : List (Slot κ ν))
    (nm : Table κ ν) (e : Err) :
    L.foldl (rebuildStep c ins) (nm, .err e) = (nm, .err e) := by
  induction L with
  | nil => rfl
  | cons a L ih => rw [List.foldl_cons]; exact ih

theorem rebuildStep_ok (c : Cfg κ) (ins : Table κ ν → κ → Table κ ν × Res InsPos) (nm : Table κ ν)
    (sl : Slot κ ν) :
    rebuildStep c ins (nm, .ok ()) sl =
      match ins nm sl.key with
      | (nm, .err e) => (nm, .err e)
      | (nm, .ok (.dup _ _)) => (nm, .ok ())
      | (nm, .ok (.free b s)) => (nm.addTo c b s ⟨c.tag sl.key, sl.key, sl.val⟩, .ok ()) := rfl

theorem foldl_rebuild [DecidableEq κ] (c : Cfg κ) (fuel : Nat) (hI : PIns c ν fuel) :
    ∀ (L : List (Slot κ ν)) (nm : Table κ ν), Inv c nm →
    (∀ sl ∈ L, sl.tag = c.tag sl.key) → L.Pairwise (fun a b => a.key ≠ b.key) →
    (∀ sl ∈ L, ∀ tag v, ¬ nm.Live c ⟨tag, sl.key, v⟩) →
    Inv c (L.foldl (rebuildStep c (insertLoop c false fuel)) (nm, .ok ())).1 ∧
    (L.foldl (rebuildStep c (insertLoop c false fuel)) (nm, .ok ())).1.mhp = nm.mhp ∧
    match (L.foldl (rebuildStep c (insertLoop c false fuel)) (nm, .ok ())).2 with
    | .err e => ResizeErr e
    | .ok _ => ∀ sl, (L.foldl (rebuildStep c (insertLoop c false fuel)) (nm, .ok ())).1.Live c sl ↔
        (nm.Live c sl ∨ sl ∈ L) := by
  intro L
  induction L with
  | nil =>
    intro nm h _ _ _
    exact ⟨h, rfl, fun sl => by simp⟩
  | cons a L ih =>
    intro nm h htag hpw hfresh
    rw [List.foldl_cons]
    have is := hI false nm a.key h (by intro hh; cases hh)
    rw [rebuildStep_ok]
    generalize insertLoop c false fuel nm a.key = r at is ⊢
    obtain ⟨nm1, res⟩ := r
    cases res with
    | err e =>
      dsimp only
      rw [foldl_rebuild_err]
      exact ⟨is.1, is.2.1.mhp, is.2.2.2⟩
    | ok p =>
      obtain ⟨i1, i2, _, i4⟩ := is
      dsimp only at i1 i2 i4
      cases p with
      | dup b s =>
        obtain ⟨sl', hsl', hk⟩ := i4
        have : nm.Live c sl' := (i2.live sl').mp ⟨.cur b s, hsl'⟩
        exfalso
        apply hfresh a (List.mem_cons_self) sl'.tag sl'.val
        rw [← hk]; exact this
      | free b s =>
        obtain ⟨hb, hs, hempty, hmig, hnl⟩ := i4
        obtain ⟨a1, a2, _, _, _, a6, _⟩ := addTo_spec c nm1 b s a.key a.val i1 hb hs hempty hmig hnl
        have ha : (⟨c.tag a.key, a.key, a.val⟩ : Slot κ ν) = a := by
          rw [← htag a List.mem_cons_self]
        dsimp only
        rw [ha] at a1 a2 a6 ⊢
        have hpw' := List.pairwise_cons.mp hpw
        have := ih (nm1.addTo c b s a) a1 (fun sl hsl => htag sl (List.mem_cons_of_mem _ hsl)) hpw'.2 ?_
        · refine ⟨this.1, this.2.1.trans (a6.trans i2.mhp), ?_⟩
          have h3 := this.2.2
          generalize (List.foldl (rebuildStep c (insertLoop c false fuel)) (nm1.addTo c b s a, Res.ok ()) L) = r at h3 ⊢
          obtain ⟨nmf, resf⟩ := r
          cases resf with
          | err e => exact h3
          | ok u =>
            dsimp only at h3 ⊢
            intro sl
            rw [h3 sl, a2 sl, i2.live sl, List.mem_cons]
            constructor
            · rintro ((h | h) | h)
              · exact Or.inl h
              · exact Or.inr (Or.inl h)
              · exact Or.inr (Or.inr h)
            · rintro (h | h | h)
              · exact Or.inl (Or.inl h)
              · exact Or.inl (Or.inr h)
              · exact Or.inr h
        · intro sl hsl tag v hlive
          rcases (a2 _).mp hlive with h1 | h1
          · exact hfresh sl (List.mem_cons_of_mem _ hsl) tag v ((i2.live _).mp h1)
          · have : sl.key = a.key := by rw [← h1]
            exact hpw'.1 sl hsl this.symm


theorem rebuild_final {c : Cfg κ} {t1 nm2 t' : Table κ ν} (h1 : Inv c t1) (ha : AllMig t1)
    (hn : Inv c nm2) (hna : AllMig nm2) (hnmhp : nm2.mhp = t1.mhp)
    (hlive : ∀ sl, nm2.Live c sl ↔ t1.Live c sl)
    (hcur : t'.cur = nm2.cur) (hold : t'.old = none)
    (hlocks : t'.locks = (t1.maybeResizeLocks c (2 ^ nm2.hp)).locks) (hrem : t'.rem = 0)
    (hmlf : t'.mlf = t1.mlf) (hmhp : t'.mhp = t1.mhp) (hw : t'.workers = t1.workers) :
    Inv c t' ∧ Same c t1 t' ∧ AllMig t' := by
  have hspec := maybeResizeLocks_spec' c t1 (2 ^ nm2.hp)
  have ha' : AllMig t' := by
    intro i lk hlk
    rw [hlocks] at hlk
    exact hspec.2.2.2.2.2.2.2.2.1 ha i lk hlk
  have hsz := mrl_size c t1 nm2.hp h1.M_pow h1.locks_pow h1.locks_le
  rw [← hlocks] at hsz
  have hhp : t'.hp = nm2.hp := by unfold Table.hp; rw [hcur]
  have hwf := hn.cur_wf
  rw [← hcur] at hwf
  refine ⟨⟨h1.S_pos, h1.M_pow, hwf, hsz.1, hsz.2.1, ?_, ?_, ?_, ?_, ?_, ?_⟩, ⟨?_, ?_, hmlf, hmhp, hw⟩, ha'⟩
  · rw [hhp]; exact hsz.2.2
  · rw [hrem, allMig_nUnmig ha']
  · intro h; rw [hrem] at h; omega
  · intro b s h; rw [ha'.unmigB] at h; cases h
  · intro p p' sl sl' hp hp' hk
    cases p with
    | old b s => simp only [Table.at, hold] at hp; cases hp
    | cur b s =>
      cases p' with
      | old b s => simp only [Table.at, hold] at hp'; cases hp'
      | cur b' s' =>
        simp only [Table.at, hcur] at hp hp'
        have := (inv_curUniq hn) _ _ _ _ _ _ hp hp' hk
        rw [this.1, this.2]
  · rw [hmhp, hhp, ← hnmhp]; exact hn.limit
  · intro sl
    rw [← hlive sl, live_iff_cur (fun b => ha'.unmigB b), live_iff_cur (fun b => hna.unmigB b), hcur]
  · unfold Table.sumCnt; rw [hlocks]; exact hspec.2.2.2.2.2.2.2.1



theorem reserveCalc_le (S n : Nat) (hS : 0 < S) : Spec.reserveCalc S (2 ^ n * S) ≤ n := by
  apply Nat.le_of_not_lt
  intro hlt
  have := Spec.reserveCalc_minimal S (2 ^ n * S) n hS hlt
  omega

theorem expandSimple_step [DecidableEq κ] (c : Cfg κ) (fuel : Nat) (hI : PIns c ν fuel) : PExp c ν (fuel + 1) := by
  intro locked auto t newHp h hl
  rw [expandSimple.eq_2]
  split
  · rename_i e he
    exact ⟨h, Same.refl c t, hl, checkResize_some he⟩
  · rename_i hnone
    obtain ⟨m1, m2, m3, m4, m5, m6, m7, m8, m9⟩ := migrateAll_spec c t h
    dsimp only
    split
    · exact ⟨m1, m2, fun _ => m5, Or.inr (Or.inr (Or.inl rfl))⟩
    · have hlim0 := checkResize_none hnone
      have hlim : (t.migrateAll c).mhp = noMaxHp ∨ Spec.reserveCalc c.S (2 ^ newHp * c.S) ≤ (t.migrateAll c).mhp := by
        rw [m2.mhp]
        rcases hlim0 with h0 | h0
        · exact Or.inl h0
        · exact Or.inr (Nat.le_trans (reserveCalc_le _ _ h.S_pos) h0)
      obtain ⟨n1, n2, n3, n4⟩ := init_spec c (2 ^ newHp * c.S) (t.migrateAll c).workers
        (if auto = true then (t.migrateAll c).mlf else 0.0) (t.migrateAll c).mhp h.S_pos h.M_pow hlim _ rfl
      have fr := foldl_rebuild c fuel hI (t.migrateAll c).cur.elems _ n1
        (fun sl hsl => by
          obtain ⟨b, s, hg⟩ := (mem_elems h.S_pos _ sl).mp hsl
          exact (m1.cur_wf.place b s sl hg).1)
        (elems_pairwise h.S_pos _ (inv_curUniq m1))
        (fun sl _ tag v hl => n3 _ hl)
      dsimp only at fr n2 n4
      split
      · rename_i nmf e heq
        rw [heq] at fr
        exact ⟨m1, m2, fun _ => m5, fr.2.2⟩
      · rename_i nmf a heq
        rw [heq] at fr
        obtain ⟨f1, f2, f3⟩ := fr
        dsimp only at f1 f2 f3
        obtain ⟨k1, k2, k3, k4, k5, k6, k7, k8, k9⟩ := migrateAll_spec c nmf f1
        have hc := maybeResizeLocks_spec' c (t.migrateAll c) (2 ^ (nmf.migrateAll c).hp)
        have hlive : ∀ sl, (nmf.migrateAll c).Live c sl ↔ (t.migrateAll c).Live c sl := by
          intro sl
          rw [k2.live sl, f3 sl, live_iff_cur (fun b => m5.unmigB b), mem_elems h.S_pos]
          constructor
          · rintro (h0 | h0)
            · exact absurd h0 (n3 sl)
            · exact h0
          · exact Or.inr
        obtain ⟨g1, g2, g3⟩ := rebuild_final (c := c) (t1 := t.migrateAll c) (nm2 := nmf.migrateAll c)
          (t' := { (t.migrateAll c).maybeResizeLocks c (2 ^ (nmf.migrateAll c).hp) with
                     cur := (nmf.migrateAll c).cur })
          m1 m5 k1 k5 (k2.mhp.trans (f2.trans n4)) hlive rfl (hc.2.1.trans m7) rfl (hc.2.2.1.trans m6)
          hc.2.2.2.2.1 hc.2.2.2.2.2.1 hc.2.2.2.2.2.2.1
        obtain ⟨r1, r2, r3⟩ := bumpRc_spec c ({ (t.migrateAll c).maybeResizeLocks c (2 ^ (nmf.migrateAll c).hp) with
                     cur := (nmf.migrateAll c).cur })
        exact ⟨r1 g1, (m2.trans g2).trans r2, fun _ => r3 g3, r3 g3⟩

/-- the three mutually recursive procedures, by induction on the fuel -/
theorem resize_all [DecidableEq κ] (c : Cfg κ) (ν : Type) :
    ∀ fuel, PIns c ν fuel ∧ PDbl c ν fuel ∧ PExp c ν fuel := by
  intro fuel
  induction fuel with
  | zero => exact ⟨insertLoop_zero c, fastDouble_zero c, expandSimple_zero c⟩
  | succ n ih =>
    exact ⟨insertLoop_step c n ih.1 ih.2.1, fastDouble_step c n ih.2.2, expandSimple_step c n ih.1⟩


end Rz

theorem maybeResizeLocks_spec (c : Cfg κ) (t : Table κ ν) (n : Nat) :
    (t.maybeResizeLocks c n).cur = t.cur ∧ (t.maybeResizeLocks c n).old = t.old ∧
    (t.maybeResizeLocks c n).rem = t.rem ∧ (t.maybeResizeLocks c n).rc = t.rc ∧
    (t.maybeResizeLocks c n).mlf = t.mlf ∧ (t.maybeResizeLocks c n).mhp = t.mhp ∧
    (t.maybeResizeLocks c n).workers = t.workers ∧
    (t.maybeResizeLocks c n).sumCnt = t.sumCnt ∧
    (AllMig t → AllMig (t.maybeResizeLocks c n)) ∧
    (∀ (i : Nat) (lk : Lock), t.locks[i]? = some lk → (t.maybeResizeLocks c n).locks[i]? = some lk) ∧
    t.locks.size ≤ (t.maybeResizeLocks c n).locks.size :=
  Rz.maybeResizeLocks_spec' c t n

/-- the three mutually recursive procedures, by induction on the fuel -/
theorem insertLoop_spec [DecidableEq κ] (c : Cfg κ) (locked : Bool) (fuel : Nat) (t : Table κ ν) (k : κ)
    (h : Inv c t) (hl : locked = true → AllMig t) :
    Inv c (insertLoop c locked fuel t k).1 ∧ Same c t (insertLoop c locked fuel t k).1 ∧
    (locked = true → AllMig (insertLoop c locked fuel t k).1) ∧
    match (insertLoop c locked fuel t k).2 with
    | .ok p => InsOK c (insertLoop c locked fuel t k).1 k p
    | .err e => ResizeErr e :=
  (Rz.resize_all c ν fuel).1 locked t k h hl

theorem fastDouble_spec [DecidableEq κ] (c : Cfg κ) (locked auto : Bool) (fuel : Nat) (t : Table κ ν) (curHp : Nat)
    (h : Inv c t) (hl : locked = true → AllMig t) :
    Inv c (fastDouble c locked auto fuel t curHp).1 ∧ Same c t (fastDouble c locked auto fuel t curHp).1 ∧
    (locked = true → AllMig (fastDouble c locked auto fuel t curHp).1) ∧
    match (fastDouble c locked auto fuel t curHp).2 with
    | .ok _ => True
    | .err e => ResizeErr e :=
  (Rz.resize_all c ν fuel).2.1 locked auto t curHp h hl

theorem expandSimple_spec [DecidableEq κ] (c : Cfg κ) (locked auto : Bool) (fuel : Nat) (t : Table κ ν) (newHp : Nat)
    (h : Inv c t) (hl : locked = true → AllMig t) :
    Inv c (expandSimple c locked auto fuel t newHp).1 ∧ Same c t (expandSimple c locked auto fuel t newHp).1 ∧
    (locked = true → AllMig (expandSimple c locked auto fuel t newHp).1) ∧
    match (expandSimple c locked auto fuel t newHp).2 with
    | .ok _ => AllMig (expandSimple c locked auto fuel t newHp).1
    | .err e => ResizeErr e :=
  (Rz.resize_all c ν fuel).2.2 locked auto t newHp h hl

end Cuckoo.Model
