import Cuckoo.Model.Sched
import Cuckoo.Proofs.ConcAux
/-!
Helper lemmas for `Cuckoo/Props/C01Sched.lean`, part 1: running lists of sections (`exec`), "silent" and "finishing"
runs, and the facts that hold for *every* table (no invariant): lazy migration and hops change neither the hashpower
nor the resize counter.  Never property statements.
-/
namespace Cuckoo.Model.SchedA
open Cuckoo Cuckoo.Model Cuckoo.Model.Conc Cuckoo.Model.Sched
variable {κ ν : Type}

/-! ### exec -/

theorem exec_append (t : Table κ ν) (l1 l2 : List (Section κ ν)) :
    exec t (l1 ++ l2) = ((exec (exec t l1).1 l2).1, (exec t l1).2 ++ (exec (exec t l1).1 l2).2) := by
  induction l1 generalizing t with
  | nil => rfl
  | cons f fs ih =>
    simp only [List.cons_append, exec, ih, List.cons_append]

theorem exec_length (t : Table κ ν) (l : List (Section κ ν)) : (exec t l).2.length = l.length := by
  induction l generalizing t with
  | nil => rfl
  | cons f fs ih => simp only [exec, List.length_cons, ih]

/-- a run of internal sections only, ending in `t'` -/
def Quiet (t : Table κ ν) (l : List (Section κ ν)) (t' : Table κ ν) : Prop :=
  ∃ n, exec t l = (t', List.replicate n none)

/-- a run whose last section, and only that one, answers -/
def Done (t : Table κ ν) (l : List (Section κ ν)) (r : Table κ ν × Resp ν) : Prop :=
  ∃ n, exec t l = (r.1, List.replicate n none ++ [some r.2])

theorem Quiet.nil (t : Table κ ν) : Quiet t [] t := ⟨0, rfl⟩

theorem Quiet.cons {t t1 t' : Table κ ν} {f : Section κ ν} {l : List (Section κ ν)} (hf : f t = (t1, none))
    (h : Quiet t1 l t') : Quiet t (f :: l) t' := by
  obtain ⟨n, hn⟩ := h
  refine ⟨n + 1, ?_⟩
  simp only [exec, hf, hn, List.replicate_succ]

theorem Quiet.single {t t1 : Table κ ν} {f : Section κ ν} (hf : f t = (t1, none)) : Quiet t [f] t1 :=
  Quiet.cons hf (Quiet.nil t1)

theorem Quiet.append {t t1 t2 : Table κ ν} {l1 l2 : List (Section κ ν)} (h1 : Quiet t l1 t1) (h2 : Quiet t1 l2 t2) :
    Quiet t (l1 ++ l2) t2 := by
  obtain ⟨n, hn⟩ := h1
  obtain ⟨m, hm⟩ := h2
  refine ⟨n + m, ?_⟩
  rw [exec_append, hn]
  simp only [hm, List.replicate_append_replicate]

theorem Done.single {t t' : Table κ ν} {f : Section κ ν} {r : Resp ν} (hf : f t = (t', some r)) :
    Done t [f] (t', r) := by
  refine ⟨0, ?_⟩
  simp only [exec, hf, List.replicate_zero, List.nil_append]

theorem Done.cons {t t1 : Table κ ν} {f : Section κ ν} {l : List (Section κ ν)} {r : Table κ ν × Resp ν}
    (hf : f t = (t1, none)) (h : Done t1 l r) : Done t (f :: l) r := by
  obtain ⟨n, hn⟩ := h
  refine ⟨n + 1, ?_⟩
  simp only [exec, hf, hn, List.replicate_succ, List.cons_append]

theorem Quiet.done {t t1 : Table κ ν} {l1 l2 : List (Section κ ν)} {r : Table κ ν × Resp ν}
    (h1 : Quiet t l1 t1) (h2 : Done t1 l2 r) : Done t (l1 ++ l2) r := by
  obtain ⟨n, hn⟩ := h1
  obtain ⟨m, hm⟩ := h2
  refine ⟨n + m, ?_⟩
  rw [exec_append, hn]
  simp only [hm, ← List.append_assoc, List.replicate_append_replicate]

theorem Quiet.eq {t t' : Table κ ν} {l : List (Section κ ν)} (h : Quiet t l t') :
    exec t l = (t', List.replicate l.length none) := by
  obtain ⟨n, hn⟩ := h
  have hl := exec_length t l
  rw [hn] at hl
  simp only [List.length_replicate] at hl
  rw [← hl, hn]

theorem Done.eq {t : Table κ ν} {l : List (Section κ ν)} {r : Table κ ν × Resp ν} (h : Done t l r) :
    exec t l = (r.1, List.replicate (l.length - 1) none ++ [some r.2]) := by
  obtain ⟨n, hn⟩ := h
  have hl := exec_length t l
  rw [hn] at hl
  simp only [List.length_append, List.length_replicate, List.length_cons, List.length_nil] at hl
  have : l.length - 1 = n := by omega
  rw [this, hn]

/-! ### hashpower and resize counter under lazy migration and hops (no invariant needed) -/

theorem moveBucket_go_hp (c : Cfg κ) (old : Store κ ν) (b ohp nhp nb : Nat) :
    ∀ (fuel s ns : Nat) (cur : Store κ ν), (moveBucket.go c old b ohp nhp nb s fuel ns cur).hp = cur.hp := by
  intro fuel
  induction fuel with
  | zero => intro s ns cur; rfl
  | succ n ih =>
    intro s ns cur
    unfold moveBucket.go
    split
    · exact ih _ _ _
    · dsimp only
      split
      · rw [ih]; rfl
      · rw [ih]; rfl

theorem moveBucket_hp (c : Cfg κ) (old cur : Store κ ν) (b : Nat) : (moveBucket c old cur b).hp = cur.hp := by
  unfold moveBucket
  exact moveBucket_go_hp c old b _ _ _ _ _ _ _

theorem migrateBuckets_hp (c : Cfg κ) (old : Store κ ν) (l : Nat) :
    ∀ (n b : Nat) (cur : Store κ ν), (migrateBuckets c old l n b cur).hp = cur.hp := by
  intro n
  induction n with
  | zero => intro b cur; rfl
  | succ n ih => intro b cur; unfold migrateBuckets; rw [ih, moveBucket_hp]

theorem rehashLock_hp (c : Cfg κ) (t : Table κ ν) (l : Nat) (z : Bool) : (t.rehashLock c l z).hp = t.hp := by
  unfold Table.rehashLock
  split
  · rfl
  · split
    · rfl
    · split
      · rfl
      · dsimp only
        split
        · split <;> exact migrateBuckets_hp c _ _ _ _ _
        · exact migrateBuckets_hp c _ _ _ _ _

/-- the snapshot `(hp, rc)` is current in `t` -/
def Cur (hp rc : Nat) (t : Table κ ν) : Prop := t.hp = hp ∧ t.rc = rc

theorem Cur.rehashLock {hp rc : Nat} {t : Table κ ν} (h : Cur hp rc t) (c : Cfg κ) (l : Nat) (z : Bool) :
    Cur hp rc (t.rehashLock c l z) :=
  ⟨(rehashLock_hp c t l z).trans h.1, (ConcA.rehashLock_rc c t l z).trans h.2⟩

theorem Cur.lockOne {hp rc : Nat} {t : Table κ ν} (h : Cur hp rc t) (c : Cfg κ) (b : Nat) :
    Cur hp rc (t.lockOne c b) := h.rehashLock c _ _

theorem Cur.lockTwo {hp rc : Nat} {t : Table κ ν} (h : Cur hp rc t) (c : Cfg κ) (b1 b2 : Nat) :
    Cur hp rc (t.lockTwo c b1 b2) := by
  obtain ⟨la, lb, e, _⟩ := lockTwo_eq c t b1 b2
  rw [e]
  exact (h.rehashLock c _ _).rehashLock c _ _

theorem Cur.lockThree {hp rc : Nat} {t : Table κ ν} (h : Cur hp rc t) (c : Cfg κ) (b1 b2 b3 : Nat) :
    Cur hp rc (t.lockThree c b1 b2 b3) := by
  obtain ⟨la, lb, lc, e, _⟩ := lockThree_eq c t b1 b2 b3
  rw [e]
  exact ((h.rehashLock c _ _).rehashLock c _ _).rehashLock c _ _

theorem Cur.hop {hp rc : Nat} {t t' : Table κ ν} (h : Cur hp rc t) (c : Cfg κ) (fr to : PathRec)
    (hh : Model.hop c t fr to = some t') : Cur hp rc t' := by
  unfold Model.hop at hh
  split at hh
  · split at hh
    · cases hh; exact h
    · cases hh
  · cases hh

theorem Cur.valid {hp rc : Nat} {t : Table κ ν} (h : Cur hp rc t) : valid t hp rc = true := by
  unfold Conc.valid
  simp only [h.1, h.2, beq_self_eq_true, Bool.and_self]

end Cuckoo.Model.SchedA
