import Cuckoo.Model.Footprint
import Cuckoo.Proofs.ParAux
/-!
Helper lemmas for `Props/C03Frame`: algebra of `WritesWithin` and the footprint of the primitive writes
(`Store.set`, `bump`, `addTo`, `delFrom`, `setVal`, `hop`).  Never property statements.
-/
namespace Cuckoo.Model
open Cuckoo
variable {κ ν : Type}

theorem WritesWithin.refl (c : Cfg κ) (L : List Nat) (t : Table κ ν) : WritesWithin c L t t :=
  ⟨fun _ _ _ => rfl, fun _ _ => rfl, rfl, rfl, rfl, rfl, rfl, ⟨rfl, rfl, rfl⟩, Or.inl rfl, Nat.le_refl _⟩

theorem WritesWithin.of_eq {c : Cfg κ} {L : List Nat} {t t' : Table κ ν} (e : t' = t) : WritesWithin c L t t' := by
  subst e; exact WritesWithin.refl c L _

theorem WritesWithin.trans {c : Cfg κ} {L : List Nat} {t t' t'' : Table κ ν}
    (h : WritesWithin c L t t') (h' : WritesWithin c L t' t'') : WritesWithin c L t t'' where
  cells b s hb := (h'.cells b s hb).trans (h.cells b s hb)
  locks l hl := (h'.locks l hl).trans (h.locks l hl)
  nlocks := h'.nlocks.trans h.nlocks
  hp := h'.hp.trans h.hp
  csize := h'.csize.trans h.csize
  rc := h'.rc.trans h.rc
  gens := h'.gens.trans h.gens
  cfg := ⟨h'.cfg.1.trans h.cfg.1, h'.cfg.2.1.trans h.cfg.2.1, h'.cfg.2.2.trans h.cfg.2.2⟩
  old := by
    rcases h'.old with e' | ⟨e', r'⟩
    · rcases h.old with e | ⟨e, r⟩
      · exact Or.inl (e'.trans e)
      · refine Or.inr ⟨e'.trans e, ?_⟩
        have := h'.rem
        omega
    · exact Or.inr ⟨e', r'⟩
  rem := Nat.le_trans h'.rem h.rem

theorem WritesWithin.mono {c : Cfg κ} {L L' : List Nat} {t t' : Table κ ν}
    (h : WritesWithin c L t t') (hsub : ∀ l, l ∈ L → l ∈ L') : WritesWithin c L' t t' where
  cells b s hb := h.cells b s (fun hm => hb (hsub _ hm))
  locks l hl := h.locks l (fun hm => hl (hsub _ hm))
  nlocks := h.nlocks
  hp := h.hp
  csize := h.csize
  rc := h.rc
  gens := h.gens
  cfg := h.cfg
  old := h.old
  rem := h.rem

/-! ### primitive writes -/

/-- writing one cell of a bucket of stripe `lockInd b ∈ L` -/
theorem ww_set (c : Cfg κ) (L : List Nat) (t : Table κ ν) (b s : Nat) (v : Option (Slot κ ν))
    (hs : s < c.S) (hb : c.lockInd b ∈ L) :
    WritesWithin c L t { t with cur := t.cur.set c.S b s v } where
  cells b' s' hb' := by
    show (t.cur.set c.S b s v).get c.S b' s' = _
    apply Store.get_set_other c.S t.cur b s b' s' v hs
    rintro ⟨e, _⟩
    subst e
    exact hb' hb
  locks _ _ := rfl
  nlocks := rfl
  hp := rfl
  csize := Store.set_size _ _ _ _ _
  rc := rfl
  gens := rfl
  cfg := ⟨rfl, rfl, rfl⟩
  old := Or.inl rfl
  rem := Nat.le_refl _

/-- adjusting the element counter of the stripe of bucket `b` -/
theorem ww_bump (c : Cfg κ) (L : List Nat) (t : Table κ ν) (b : Nat) (d : Int) (hb : c.lockInd b ∈ L) :
    WritesWithin c L t (t.bump c b d) where
  cells _ _ _ := rfl
  locks l hl := by
    show (t.locks.modify (c.lockInd b) _)[l]? = _
    rw [Array.getElem?_modify, if_neg]
    intro e
    exact hl (e ▸ hb)
  nlocks := by
    show (t.locks.modify (c.lockInd b) _).size = _
    rw [Array.size_modify]
  hp := rfl
  csize := rfl
  rc := rfl
  gens := rfl
  cfg := ⟨rfl, rfl, rfl⟩
  old := Or.inl rfl
  rem := Nat.le_refl _

theorem ww_addTo (c : Cfg κ) (L : List Nat) (t : Table κ ν) (b s : Nat) (sl : Slot κ ν)
    (hs : s < c.S) (hb : c.lockInd b ∈ L) : WritesWithin c L t (t.addTo c b s sl) :=
  (ww_set c L t b s (some sl) hs hb).trans (ww_bump c L _ b 1 hb)

theorem ww_delFrom (c : Cfg κ) (L : List Nat) (t : Table κ ν) (b s : Nat)
    (hs : s < c.S) (hb : c.lockInd b ∈ L) : WritesWithin c L t (t.delFrom c b s) :=
  (ww_set c L t b s none hs hb).trans (ww_bump c L _ b (-1) hb)

/-- `setVal` writes only if the cell is occupied, hence only for `s < S` -/
theorem ww_setVal (c : Cfg κ) (L : List Nat) (t : Table κ ν) (b s : Nat) (v : ν) (hb : c.lockInd b ∈ L) :
    WritesWithin c L t (t.setVal c b s v) := by
  unfold Table.setVal
  cases hg : t.cur.get c.S b s with
  | none => exact WritesWithin.refl c L t
  | some sl => exact ww_set c L t b s _ (Store.get_some_lt hg).1 hb

/-- one hop of `cuckoopath_move` writes the two cells `to` and `fr` -/
theorem ww_hop (c : Cfg κ) (L : List Nat) (t t' : Table κ ν) (fr to : PathRec)
    (hto : to.slot < c.S) (hfb : c.lockInd fr.bucket ∈ L) (htb : c.lockInd to.bucket ∈ L)
    (hh : hop c t fr to = some t') : WritesWithin c L t t' := by
  unfold hop at hh
  split at hh
  · rename_i sl _ hfr
    split at hh
    · cases hh
      have hfs : fr.slot < c.S := (Store.get_some_lt hfr).1
      exact (ww_set c L t to.bucket to.slot (some sl) hto htb).trans
        (ww_set c L _ fr.bucket fr.slot none hfs hfb)
    · cases hh
  · cases hh

end Cuckoo.Model
