import Cuckoo.Proofs.ProtoInv
import Cuckoo.Model.Fine
/-!
What one accepted protocol event does to the components of the protocol state that the reduction argument looks at
(lock table, lock arrays, `held`, `validated`, `owner`).
-/
namespace Cuckoo.Fine
open Cuckoo.Proto

/-- events that change neither the lock table nor the lock arrays nor any `held` list -/
def quiet : Ev → Bool
  | .acquire _ _ => false
  | .release _ _ => false
  | .append _ _ => false
  | _ => true

theorem canAccess_spec (G : Nat → Nat → Nat) (p : PS) (t : Tid) (x : Nat) (h : canAccess G p t x = true) :
    ((p.th t).validated = true ∨ (p.th t).owner = true) ∧ p.holder (guard G p x) = some t := by
  simp only [canAccess, Proto.accept] at h
  split at h
  next hg => exact ⟨hg.1, hg.2.1⟩
  · cases h

theorem quiet_spec (s s' : PS) (e : Ev) (hq : quiet e = true) (h : Proto.accept s e = some s') :
    s'.holder = s.holder ∧ s'.gens = s.gens ∧
    ∀ u, (s'.th u).held = (s.th u).held ∧ ((s.th u).validated = true → (s'.th u).validated = true) ∧
      ((s.th u).owner = true → (s'.th u).owner = true) := by
  cases e with
  | acquire t l => cases hq
  | release t l => cases hq
  | append t n => cases hq
  | rcLoad t =>
    simp only [Proto.accept] at h
    split at h
    · split at h <;>
      · cases h
        refine ⟨rfl, rfl, fun u => ?_⟩
        by_cases hu : u = t
        · subst hu; simp
        · simp [upd_other _ _ _ _ hu]
    · cases h
      refine ⟨rfl, rfl, fun u => ?_⟩
      by_cases hu : u = t
      · subst hu; simp
      · simp [upd_other _ _ _ _ hu]
  | hpLoad t =>
    simp only [Proto.accept] at h
    split at h
    · cases h
    · cases h
      refine ⟨rfl, rfl, fun u => ?_⟩
      by_cases hu : u = t
      · subst hu; simp
      · simp [upd_other _ _ _ _ hu]
  | genLoad t =>
    simp only [Proto.accept] at h
    cases h
    refine ⟨rfl, rfl, fun u => ?_⟩
    by_cases hu : u = t
    · subst hu; simp
    · simp [upd_other _ _ _ _ hu]
  | access t st =>
    simp only [Proto.accept] at h
    split at h
    · cases h; exact ⟨rfl, rfl, fun u => ⟨rfl, id, id⟩⟩
    · cases h
  | allBegin t =>
    simp only [Proto.accept] at h
    split at h
    · cases h
      refine ⟨rfl, rfl, fun u => ?_⟩
      by_cases hu : u = t
      · subst hu; simp
      · simp [upd_other _ _ _ _ hu]
    · cases h
  | allEnd t =>
    simp only [Proto.accept] at h
    split at h
    · cases h
      refine ⟨rfl, rfl, fun u => ?_⟩
      by_cases hu : u = t
      · subst hu; simp
      · simp [upd_other _ _ _ _ hu]
    · cases h
  | storeHp t v =>
    simp only [Proto.accept] at h
    split at h
    · cases h
      refine ⟨rfl, rfl, fun u => ?_⟩
      by_cases hu : u = t
      · subst hu; simp
      · simp [upd_other _ _ _ _ hu]
    · cases h
  | bumpRc t =>
    simp only [Proto.accept] at h
    split at h
    · cases h
      refine ⟨rfl, rfl, fun u => ?_⟩
      by_cases hu : u = t
      · subst hu; simp
      · simp [upd_other _ _ _ _ hu]
    · cases h
  | opEnd t k =>
    simp only [Proto.accept] at h
    split at h
    · split at h
      · cases h; exact ⟨rfl, rfl, fun u => ⟨rfl, id, id⟩⟩
      · cases h
    · split at h
      · cases h; exact ⟨rfl, rfl, fun u => ⟨rfl, id, id⟩⟩
      · cases h
  | sectionEnd t =>
    simp only [Proto.accept] at h
    split at h
    · cases h; exact ⟨rfl, rfl, fun u => ⟨rfl, id, id⟩⟩
    · cases h

theorem acquire_spec (s s' : PS) (t : Tid) (l : LockId) (h : Proto.accept s (.acquire t l) = some s') :
    s.holder l = none ∧ s'.holder = updH s.holder l (some t) ∧ s'.gens = s.gens ∧
    (∀ u, u ≠ t → s'.th u = s.th u) ∧ (s'.th t).held = l :: (s.th t).held ∧
    (s'.th t).owner = (s.th t).owner ∧ ((s.th t).held ≠ [] → (s'.th t).validated = (s.th t).validated) := by
  simp only [Proto.accept] at h
  split at h
  · cases h
  next hfree =>
    have hfree' : s.holder l = none := by simpa using hfree
    split at h
    · cases h
    split at h
    · cases h
    split at h
    · cases h
    split at h
    · cases h
      exact ⟨hfree', rfl, rfl, fun u hu => upd_other _ _ _ _ hu, by simp, by simp, by simp⟩
    split at h
    next hemp =>
      split at h
      · cases h
        have : (s.th t).held = [] := List.isEmpty_iff.1 hemp
        exact ⟨hfree', rfl, rfl, fun u hu => upd_other _ _ _ _ hu, by simp [this], by simp, by simp [this]⟩
      · cases h
    split at h
    · cases h
      exact ⟨hfree', rfl, rfl, fun u hu => upd_other _ _ _ _ hu, by simp, by simp, by simp⟩
    · cases h

theorem release_spec (s s' : PS) (t : Tid) (l : LockId) (h : Proto.accept s (.release t l) = some s') :
    s.holder l = some t ∧ s'.holder = updH s.holder l none ∧ s'.gens = s.gens ∧
    (∀ u, u ≠ t → s'.th u = s.th u) ∧ (s'.th t).held = (s.th t).held.filter (· ≠ l) ∧
    (s'.th t).owner = false ∧ ((s'.th t).validated = true → (s.th t).validated = true) := by
  simp only [Proto.accept] at h
  split at h
  · cases h
  next hh =>
    have hh' : s.holder l = some t := by simpa using hh
    split at h
    · cases h
    split at h
    · cases h
    cases h
    refine ⟨hh', rfl, rfl, fun u hu => upd_other _ _ _ _ hu, ?_, ?_, ?_⟩
    · simp only [upd_same]; split <;> rfl
    · simp only [upd_same]; split <;> rfl
    · simp only [upd_same]; split
      · intro hc; cases hc
      · exact id

theorem append_spec (s s' : PS) (t : Tid) (n : Nat) (h : Proto.accept s (.append t n) = some s') :
    (s.th t).owner = true ∧ 0 < n ∧ s'.gens = s.gens ++ [n] ∧
    (∀ l, s'.holder l = if l.gen = s.gens.length ∧ l.idx < n then some t else s.holder l) ∧
    (∀ u, u ≠ t → s'.th u = s.th u) ∧ (s'.th t).owner = true ∧
    ((s.th t).held ≠ [] → (s'.th t).held ≠ []) := by
  simp only [Proto.accept] at h
  split at h
  next hg =>
    cases h
    refine ⟨hg.1, hg.2, rfl, fun l => rfl, fun u hu => upd_other _ _ _ _ hu, by simpa using hg.1, ?_⟩
    intro hne
    simp only [upd_same]
    intro hc
    exact hne (List.append_eq_nil_iff.1 hc).2
  · cases h

end Cuckoo.Fine
