import Cuckoo.Proofs.FrameAux2
import Cuckoo.Proofs.ConcAux
/-!
Helper lemmas for `Props/C03Frame`: footprint of the critical sections of `Model/Conc.lean`.  Every write after the
locking step goes to a bucket the section computed from the same inputs as its lock set, at a slot `< S`.
-/
namespace Cuckoo.Model
open Cuckoo Cuckoo.Model.Conc Cuckoo.Model.ConcA
variable {κ ν : Type}

/-! ### where the scans point -/

theorem cuckooFind_bucket [DecidableEq κ] {c : Cfg κ} {st : Store κ ν} {i1 i2 : Nat} {k : κ} {b s : Nat}
    (h : cuckooFind c st i1 i2 k = some (b, s)) : b = i1 ∨ b = i2 := by
  unfold cuckooFind at h
  cases e1 : findInBucket c st i1 k with
  | some s1 => rw [e1] at h; cases h; exact Or.inl rfl
  | none =>
    rw [e1] at h
    cases e2 : findInBucket c st i2 k with
    | some s2 => rw [e2] at h; cases h; exact Or.inr rfl
    | none => rw [e2] at h; cases h

def InsPos.bkt : InsPos → Nat
  | .free b _ => b
  | .dup b _ => b

/-- a position returned by the two bucket scans lies in one of the two buckets; a free one at a slot `< S` -/
theorem tryInsert_pos [DecidableEq κ] {c : Cfg κ} {st : Store κ ν} {i1 i2 : Nat} {k : κ} {p : InsPos}
    (h : tryInsert c st i1 i2 k = .pos p) :
    (p.bkt = i1 ∨ p.bkt = i2) ∧ ∀ b s, p = .free b s → s < c.S := by
  unfold tryInsert at h
  cases e1 : scanForInsert c st i1 k with
  | dup s =>
    rw [e1] at h; cases h
    exact ⟨Or.inl rfl, fun _ _ e => by cases e⟩
  | free r1 =>
    rw [e1] at h
    cases e2 : scanForInsert c st i2 k with
    | dup s =>
      rw [e2] at h; cases h
      exact ⟨Or.inr rfl, fun _ _ e => by cases e⟩
    | free r2 =>
      rw [e2] at h
      cases r1 with
      | some s1 =>
        cases h
        exact ⟨Or.inl rfl, fun _ _ e => by cases e; exact ((scan_free e1).2 _ rfl).1⟩
      | none =>
        cases r2 with
        | some s2 =>
          cases h
          exact ⟨Or.inr rfl, fun _ _ e => by cases e; exact ((scan_free e2).2 _ rfl).1⟩
        | none => cases h

/-! ### the functor tail -/

theorem ww_applyFn (c : Cfg κ) (L : List Nat) (t : Table κ ν) (b s : Nat) (ctx : Option Ctx) (me : Bool)
    (fn : ν → FnOut ν) (okRes : Bool) (hb : c.lockInd b ∈ L) :
    WritesWithin c L t (applyFn c t b s ctx me fn okRes).1 := by
  unfold applyFn
  cases hg : t.cur.get c.S b s with
  | none => exact WritesWithin.refl c L t
  | some sl =>
    have hs : s < c.S := (Store.get_some_lt hg).1
    simp only
    cases fn sl.val with
    | throw v' => exact ww_setVal c L t b s v' hb
    | ret v' er =>
      simp only
      split
      · exact (ww_setVal c L t b s v' hb).trans (ww_delFrom c L _ b s hs hb)
      · exact ww_setVal c L t b s v' hb

theorem ww_finishInsert [DecidableEq κ] (c : Cfg κ) (L : List Nat) (t : Table κ ν) (k : κ) (v : ν) (ca me : Bool)
    (fn : Ctx → ν → FnOut ν) (p : InsPos) (hb : c.lockInd p.bkt ∈ L) (hs : ∀ b s, p = .free b s → s < c.S) :
    WritesWithin c L t (finishInsert c t k v ca me fn p).1 := by
  cases p with
  | free b s =>
    have ha := ww_addTo c L t b s ⟨c.tag k, k, v⟩ (hs b s rfl) hb
    unfold finishInsert
    simp only
    cases ca with
    | false => exact ha
    | true => exact ha.trans (ww_applyFn c L _ b s _ me _ true hb)
  | dup b s =>
    unfold finishInsert
    exact ww_applyFn c L t b s _ me _ false hb

/-! ### the sections -/

theorem ww_lockSec (c : Cfg κ) (t : Table κ ν) (bs : List Nat) (h : Inv c t) :
    WritesWithin c (bs.map c.lockInd) t (lockSec (ν := ν) c bs t).1 := by
  unfold lockSec
  match bs with
  | [] => exact WritesWithin.refl c _ t
  | [b] => exact ww_lockOne c _ t b h (by simp)
  | [b1, b2] => exact ww_lockTwo c _ t b1 b2 h (by simp) (by simp)
  | [b1, b2, b3] => exact ww_lockThree c _ t b1 b2 b3 h (by simp) (by simp) (by simp)
  | _ :: _ :: _ :: _ :: _ => exact WritesWithin.refl c _ t

theorem ww_hopSec (c : Cfg κ) (hpS rcS : Nat) (fr to : PathRec) (t : Table κ ν) (h : Inv c t) :
    WritesWithin c [c.lockInd fr.bucket, c.lockInd to.bucket] t (hopSec c hpS rcS fr to t).1 := by
  have a := ww_lockTwo c [c.lockInd fr.bucket, c.lockInd to.bucket] t fr.bucket to.bucket h (by simp) (by simp)
  unfold hopSec
  simp only
  split
  · rename_i hg
    simp only [Bool.and_eq_true, beq_iff_eq, decide_eq_true_eq] at hg
    obtain ⟨_, hslot⟩ := hg
    cases hh : hop c (t.lockTwo c fr.bucket to.bucket) fr to with
    | none => exact a
    | some t2 => exact a.trans (ww_hop c _ _ t2 fr to hslot (by simp) (by simp) hh)
  · exact a

theorem ww_fnOp [DecidableEq κ] (c : Cfg κ) (ce : Bool) (t : Table κ ν) (k : κ) (fn : ν → FnOut ν) (h : Inv c t) :
    WritesWithin c [c.lockInd (c.i1 t.hp k), c.lockInd (c.i2 t.hp k)] t (t.fnOp c ce k fn).1 := by
  have a := ww_lockTwo c [c.lockInd (c.i1 t.hp k), c.lockInd (c.i2 t.hp k)] t (c.i1 t.hp k) (c.i2 t.hp k) h
    (by simp) (by simp)
  have hloc : t.locate c false k = (t.lockTwo c (c.i1 t.hp k) (c.i2 t.hp k),
      cuckooFind c (t.lockTwo c (c.i1 t.hp k) (c.i2 t.hp k)).cur (c.i1 t.hp k) (c.i2 t.hp k) k) := rfl
  generalize t.lockTwo c (c.i1 t.hp k) (c.i2 t.hp k) = t1 at *
  unfold Table.fnOp
  rw [hloc]
  cases hf : cuckooFind c t1.cur (c.i1 t.hp k) (c.i2 t.hp k) k with
  | none => exact a
  | some p =>
    obtain ⟨b, s⟩ := p
    have hb : c.lockInd b ∈ [c.lockInd (c.i1 t.hp k), c.lockInd (c.i2 t.hp k)] := by
      rcases cuckooFind_bucket hf with e | e <;> rw [e] <;> simp
    simp only
    cases hg : t1.cur.get c.S b s with
    | none => exact a
    | some sl =>
      have hs : s < c.S := (Store.get_some_lt hg).1
      simp only
      cases fn sl.val with
      | throw v' => exact a.trans (ww_setVal c _ t1 b s v' hb)
      | ret v' er =>
        simp only
        split
        · exact a.trans ((ww_setVal c _ t1 b s v' hb).trans (ww_delFrom c _ _ b s hs hb))
        · exact a.trans (ww_setVal c _ t1 b s v' hb)

theorem ww_insertTrySec [DecidableEq κ] (c : Cfg κ) (k : κ) (v : ν) (ca me : Bool) (fn : Ctx → ν → FnOut ν)
    (t : Table κ ν) (h : Inv c t) :
    WritesWithin c [c.lockInd (c.i1 t.hp k), c.lockInd (c.i2 t.hp k)] t (insertTrySec c k v ca me fn t).1 := by
  have a := ww_lockTwo c [c.lockInd (c.i1 t.hp k), c.lockInd (c.i2 t.hp k)] t (c.i1 t.hp k) (c.i2 t.hp k) h
    (by simp) (by simp)
  unfold insertTrySec
  simp only
  generalize t.lockTwo c (c.i1 t.hp k) (c.i2 t.hp k) = t1 at *
  cases htry : tryInsert c t1.cur (c.i1 t.hp k) (c.i2 t.hp k) k with
  | needCuckoo => exact a
  | pos p =>
    obtain ⟨hb, hs⟩ := tryInsert_pos htry
    refine a.trans (ww_finishInsert c _ t1 k v ca me fn p ?_ hs)
    rcases hb with e | e <;> rw [e] <;> simp

/-- the common tail of the last section -/
theorem ww_lastTail [DecidableEq κ] (c : Cfg κ) (L : List Nat) (t2 : Table κ ν) (hpS : Nat) (k : κ) (v : ν)
    (ca me : Bool) (fn : Ctx → ν → FnOut ν) (fr : PathRec)
    (h1 : c.lockInd (c.i1 hpS k) ∈ L) (h2 : c.lockInd (c.i2 hpS k) ∈ L)
    (hb : fr.bucket = c.i1 hpS k ∨ fr.bucket = c.i2 hpS k) (hs : fr.slot < c.S) :
    WritesWithin c L t2 (lastTail c t2 hpS k v ca me fn fr).1 := by
  unfold lastTail
  cases hfind : cuckooFind c t2.cur (c.i1 hpS k) (c.i2 hpS k) k with
  | some p =>
    obtain ⟨b, s⟩ := p
    refine ww_finishInsert c L t2 k v ca me fn (.dup b s) ?_ (fun _ _ e => by cases e)
    show c.lockInd b ∈ L
    rcases cuckooFind_bucket hfind with e | e <;> rw [e] <;> assumption
  | none =>
    refine ww_finishInsert c L t2 k v ca me fn (.free fr.bucket fr.slot) ?_ (fun _ _ e => by cases e; exact hs)
    show c.lockInd fr.bucket ∈ L
    rcases hb with e | e <;> rw [e] <;> assumption

theorem insertLastSec_none_eq [DecidableEq κ] (c : Cfg κ) (hpS rcS : Nat) (k : κ) (v : ν) (ca me : Bool)
    (fn : Ctx → ν → FnOut ν) (fr : PathRec) (t : Table κ ν) :
    insertLastSec c hpS rcS k v ca me fn fr none t =
      if !(valid (t.lockTwo c (c.i1 hpS k) (c.i2 hpS k)) hpS rcS &&
            (fr.bucket == c.i1 hpS k || fr.bucket == c.i2 hpS k) && decide (fr.slot < c.S))
      then (t.lockTwo c (c.i1 hpS k) (c.i2 hpS k), none)
      else if (t.lockTwo c (c.i1 hpS k) (c.i2 hpS k)).cur.occ c.S fr.bucket fr.slot
        then (t.lockTwo c (c.i1 hpS k) (c.i2 hpS k), none)
        else lastTail c (t.lockTwo c (c.i1 hpS k) (c.i2 hpS k)) hpS k v ca me fn fr := by
  unfold insertLastSec lastTail
  simp only
  split
  · rfl
  · by_cases ho : (t.lockTwo c (c.i1 hpS k) (c.i2 hpS k)).cur.occ c.S fr.bucket fr.slot = true
    · simp only [ho, if_true]
    · simp only [ho]; rfl

theorem insertLastSec_some_eq [DecidableEq κ] (c : Cfg κ) (hpS rcS : Nat) (k : κ) (v : ν) (ca me : Bool)
    (fn : Ctx → ν → FnOut ν) (fr to : PathRec) (t : Table κ ν) :
    insertLastSec c hpS rcS k v ca me fn fr (some to) t =
      if !(valid (t.lockThree c (c.i1 hpS k) (c.i2 hpS k) to.bucket) hpS rcS &&
            (fr.bucket == c.i1 hpS k || fr.bucket == c.i2 hpS k) && decide (fr.slot < c.S))
      then (t.lockThree c (c.i1 hpS k) (c.i2 hpS k) to.bucket, none)
      else if (to.bucket == Spec.altIndex hpS (Spec.partialKey fr.hash) fr.bucket && decide (to.slot < c.S)) then
        match hop c (t.lockThree c (c.i1 hpS k) (c.i2 hpS k) to.bucket) fr to with
        | none => (t.lockThree c (c.i1 hpS k) (c.i2 hpS k) to.bucket, none)
        | some t2 => lastTail c t2 hpS k v ca me fn fr
      else (t.lockThree c (c.i1 hpS k) (c.i2 hpS k) to.bucket, none) := by
  unfold insertLastSec lastTail
  simp only
  split
  · rfl
  · by_cases ho : (to.bucket == Spec.altIndex hpS (Spec.partialKey fr.hash) fr.bucket && decide (to.slot < c.S)) = true
    · simp only [ho, if_true]
      cases hop c (t.lockThree c (c.i1 hpS k) (c.i2 hpS k) to.bucket) fr to <;> rfl
    · simp only [ho]; rfl

theorem ww_insertLastSec [DecidableEq κ] (c : Cfg κ) (hpS rcS : Nat) (k : κ) (v : ν) (ca me : Bool)
    (fn : Ctx → ν → FnOut ν) (fr : PathRec) (to : Option PathRec) (t : Table κ ν) (h : Inv c t) :
    WritesWithin c (lastStripes c hpS k to) t (insertLastSec c hpS rcS k v ca me fn fr to t).1 := by
  cases to with
  | none =>
    have a := ww_lockTwo c (lastStripes c hpS k none) t (c.i1 hpS k) (c.i2 hpS k) h
      (by simp [lastStripes]) (by simp [lastStripes])
    rw [insertLastSec_none_eq]
    generalize t.lockTwo c (c.i1 hpS k) (c.i2 hpS k) = t1 at *
    split
    · exact a
    · rename_i hg
      simp only [Bool.not_eq_true', Bool.not_eq_false, Bool.and_eq_true, Bool.or_eq_true, beq_iff_eq,
        decide_eq_true_eq] at hg
      obtain ⟨⟨_, hb⟩, hs⟩ := hg
      split
      · exact a
      · exact a.trans (ww_lastTail c _ t1 hpS k v ca me fn fr (by simp [lastStripes]) (by simp [lastStripes]) hb hs)
  | some to =>
    have a := ww_lockThree c (lastStripes c hpS k (some to)) t (c.i1 hpS k) (c.i2 hpS k) to.bucket h
      (by simp [lastStripes]) (by simp [lastStripes]) (by simp [lastStripes])
    rw [insertLastSec_some_eq]
    generalize t.lockThree c (c.i1 hpS k) (c.i2 hpS k) to.bucket = t1 at *
    split
    · exact a
    · rename_i hg
      simp only [Bool.not_eq_true', Bool.not_eq_false, Bool.and_eq_true, Bool.or_eq_true, beq_iff_eq,
        decide_eq_true_eq] at hg
      obtain ⟨⟨_, hb⟩, hs⟩ := hg
      split
      · rename_i hg2
        simp only [Bool.and_eq_true, beq_iff_eq, decide_eq_true_eq] at hg2
        obtain ⟨_, hslot⟩ := hg2
        cases hh : hop c t1 fr to with
        | none => exact a
        | some t2 =>
          have hfb : c.lockInd fr.bucket ∈ lastStripes c hpS k (some to) := by
            rcases hb with e | e <;> rw [e] <;> simp [lastStripes]
          have a2 := ww_hop c _ t1 t2 fr to hslot hfb (by simp [lastStripes]) hh
          exact (a.trans a2).trans
            (ww_lastTail c _ t2 hpS k v ca me fn fr (by simp [lastStripes]) (by simp [lastStripes]) hb hs)
      · exact a

end Cuckoo.Model
