import Cuckoo.Proofs.MigrateAux2
/-!
Chunk A, part 3 — one migration step on the whole table: the weak invariant `WInv`
(everything of `Inv` except the `rem` bookkeeping) is preserved and the live view is unchanged.
-/
namespace Cuckoo.Model
open Cuckoo
variable {κ ν : Type}

/-- all buckets of stripe `l`, in terms of the stripe rather than of loop indices -/
theorem migrateStripe_spec (c : Cfg κ) (o cur : Store κ ν) (l m : Nat) (hS : 0 < c.S) (ho : o.WF c)
    (hM : c.M = 2 ^ m) (hm : m ≤ o.hp) (hl : l < c.M)
    (hsz : cur.cells.size = 2 ^ cur.hp * c.S) (hhp : cur.hp = o.hp + 1)
    (hemp : ∀ b s, b % c.M = l → cur.get c.S b s = none) :
    (migrateBuckets c o l ((2 ^ o.hp + c.M - 1 - l) / c.M) l cur).hp = cur.hp ∧
    (migrateBuckets c o l ((2 ^ o.hp + c.M - 1 - l) / c.M) l cur).cells.size = cur.cells.size ∧
    (∀ b' s, b' % c.M ≠ l →
      (migrateBuckets c o l ((2 ^ o.hp + c.M - 1 - l) / c.M) l cur).get c.S b' s = cur.get c.S b' s) ∧
    (∀ bb, bb < 2 ^ o.hp → bb % c.M = l →
      MoveFacts c o cur.hp bb (migrateBuckets c o l ((2 ^ o.hp + c.M - 1 - l) / c.M) l cur)) := by
  have hMpos : 0 < c.M := by rw [hM]; exact Spec.two_pow_pos m
  have hpw : 2 ^ o.hp = 2 ^ (o.hp - m) * c.M := by
    rw [hM, ← Nat.pow_add]; congr 1; omega
  generalize 2 ^ (o.hp - m) = q at hpw
  have hn : (2 ^ o.hp + c.M - 1 - l) / c.M = q := by
    have e : 2 ^ o.hp + c.M - 1 - l = c.M * q + (c.M - 1 - l) := by
      rw [hpw, Nat.mul_comm]; omega
    rw [e, Nat.mul_add_div hMpos, Nat.div_eq_of_lt (by omega)]
    rfl
  rw [hn]
  have hmod1 : ∀ i, (l + i * c.M) % c.M = l := by
    intro i; rw [Nat.add_mul_mod_self_right, Nat.mod_eq_of_lt hl]
  have hmod2 : ∀ i, (l + i * c.M + 2 ^ o.hp) % c.M = l := by
    intro i; rw [hpw, Nat.add_mul_mod_self_right]; exact hmod1 i
  have hbd : ∀ i, i < q → l + i * c.M < 2 ^ o.hp := by
    intro i hi
    have : (i + 1) * c.M ≤ q * c.M := Nat.mul_le_mul_right _ hi
    rw [Nat.succ_mul] at this
    rw [hpw]; omega
  obtain ⟨r1, r2, r3, r4⟩ := migrateBuckets_spec c o l hS ho hMpos q l cur hsz hhp hbd
    (fun i s _ => ⟨hemp _ _ (hmod1 i), hemp _ _ (hmod2 i)⟩)
  refine ⟨r1, r2, ?_, ?_⟩
  · intro b' s hne
    apply r3
    intro i _
    constructor
    · intro e; apply hne; rw [e]; exact hmod1 i
    · intro e; apply hne; rw [e]; exact hmod2 i
  · intro bb hbb hbl
    have hdm := Nat.div_add_mod bb c.M
    have hlt : bb / c.M < q := by
      apply Nat.div_lt_of_lt_mul
      rw [Nat.mul_comm, ← hpw]; exact hbb
    have e : bb = l + bb / c.M * c.M := by
      rw [Nat.mul_comm (bb / c.M)]; omega
    have := r4 (bb / c.M) hlt
    rw [← e] at this
    exact this

/-! ### the weak invariant -/

/-- `Inv` without the `rem` bookkeeping (which does not hold in the middle of `migrateAll`) -/
structure WInv (c : Cfg κ) (t : Table κ ν) : Prop where
  S_pos : 0 < c.S
  M_pow : ∃ m, c.M = 2 ^ m
  cur_wf : t.cur.WF c
  locks_pow : ∃ j, t.locks.size = 2 ^ j
  locks_le : t.locks.size ≤ c.M
  locks_ge : min (2 ^ t.hp) c.M ≤ t.locks.size
  pending : 0 < t.nUnmig → ∃ o, t.old = some o ∧ o.WF c ∧ o.hp + 1 = t.hp ∧ c.M ≤ 2 ^ o.hp ∧ t.locks.size = c.M
  unmig_empty : ∀ b s, t.unmigB c b = true → t.cur.get c.S b s = none
  uniq : ∀ p p' sl sl', t.at c p = some sl → t.at c p' = some sl' → sl.key = sl'.key → p = p'
  limit : t.mhp = noMaxHp ∨ t.hp ≤ t.mhp

theorem Inv.toW {c : Cfg κ} {t : Table κ ν} (h : Inv c t) : WInv c t :=
  ⟨h.S_pos, h.M_pow, h.cur_wf, h.locks_pow, h.locks_le, h.locks_ge,
   fun hp => h.pending (by rw [h.rem_eq]; exact hp), h.unmig_empty, h.uniq, h.limit⟩

theorem WInv.toInv {c : Cfg κ} {t : Table κ ν} (h : WInv c t) (hr : t.rem = t.nUnmig) : Inv c t :=
  ⟨h.S_pos, h.M_pow, h.cur_wf, h.locks_pow, h.locks_le, h.locks_ge, hr,
   fun hp => h.pending (by rw [← hr]; exact hp), h.unmig_empty, h.uniq, h.limit⟩

theorem at_old_some_iff (c : Cfg κ) (t : Table κ ν) (b s : Nat) (sl : Slot κ ν) :
    t.at c (.old b s) = some sl ↔ ∃ o, t.old = some o ∧ t.unmigB c b = true ∧ o.get c.S b s = some sl := by
  simp only [Table.at]
  cases ho : t.old with
  | none => simp
  | some o =>
    simp only [Option.some.injEq, exists_eq_left']
    by_cases hu : t.unmigB c b = true
    · simp [hu]
    · simp [hu]

theorem unmigB_of (c : Cfg κ) (t : Table κ ν) (b l : Nat) (lk : Lock) (hb : b % c.M = l)
    (hlk : t.locks[l]? = some lk) (hm : lk.migrated = false) : t.unmigB c b = true := by
  unfold Table.unmigB
  have : c.lockInd b = l := hb
  rw [this, hlk]
  simp [hm]

/-- bucket of a live position -/
def Loc.bkt : Loc → Nat
  | .cur b _ => b
  | .old b _ => b

theorem mod_double (b P : Nat) (h : b < 2 * P) : b = b % P ∨ b = b % P + P := by
  rcases Nat.lt_or_ge b P with h1 | h1
  · left; rw [Nat.mod_eq_of_lt h1]
  · right
    rw [Nat.mod_eq_sub_mod h1, Nat.mod_eq_of_lt (by omega)]
    omega

/-- one stripe is migrated: generic in the resulting table, which is described by its fields -/
theorem migStep_spec (c : Cfg κ) (t t1 : Table κ ν) (l : Nat) (lk : Lock) (o : Store κ ν)
    (hw : WInv c t) (hlk : t.locks[l]? = some lk) (hmig : lk.migrated = false) (hold : t.old = some o)
    (hcur : t1.cur = migrateBuckets c o l ((2 ^ o.hp + c.M - 1 - l) / c.M) l t.cur)
    (hlocks : t1.locks = t.locks.modify l (fun x => { x with migrated := true }))
    (hold1 : t1.old = t.old) (hmhp : t1.mhp = t.mhp) :
    WInv c t1 ∧ (∀ sl, t1.Live c sl ↔ t.Live c sl) ∧ t1.nUnmig + 1 = t.nUnmig ∧ t1.sumCnt = t.sumCnt ∧
    t1.hp = t.hp ∧
    (∀ b, t1.unmigB c b = if b % c.M = l then false else t.unmigB c b) := by
  obtain ⟨m, hM⟩ := hw.M_pow
  have hpos := nUnmig_pos_of t l lk hlk hmig
  obtain ⟨o', ho', howf, hohp, hMle, hlsz⟩ := hw.pending hpos
  rw [hold] at ho'; cases ho'
  have hm : m ≤ o.hp := by
    rw [hM] at hMle
    exact (Nat.pow_le_pow_iff_right (by decide : 1 < 2)).mp hMle
  have hl : l < c.M := by
    obtain ⟨h, _⟩ := Array.getElem?_eq_some_iff.mp hlk
    omega
  have hemp : ∀ b s, b % c.M = l → t.cur.get c.S b s = none := fun b s hb =>
    hw.unmig_empty b s (unmigB_of c t b l lk hb hlk hmig)
  have hohp' : t.cur.hp = o.hp + 1 := hohp.symm
  obtain ⟨r1, r2, r3, r4⟩ := migrateStripe_spec c o t.cur l m hw.S_pos howf hM hm hl hw.cur_wf.size hohp' hemp
  rw [← hcur] at r1 r2 r3 r4
  have hhp : t1.hp = t.hp := r1
  -- flags
  have hunm : ∀ b, t1.unmigB c b = if b % c.M = l then false else t.unmigB c b := by
    intro b
    unfold Table.unmigB
    have e : c.lockInd b = b % c.M := rfl
    rw [hlocks, Array.getElem?_modify, e]
    by_cases hb : b % c.M = l
    · rw [if_pos hb, if_pos hb.symm, hb, hlk]; rfl
    · rw [if_neg hb, if_neg (fun h => hb h.symm)]
  -- origin of a cell of stripe `l` of the new current array
  have K2 : ∀ b s sl, b % c.M = l → t1.cur.get c.S b s = some sl →
      (b % 2 ^ o.hp) % c.M = l ∧ b % 2 ^ o.hp < 2 ^ o.hp ∧
      (b = b % 2 ^ o.hp ∨ b = b % 2 ^ o.hp + 2 ^ o.hp) ∧ ∃ s', o.get c.S (b % 2 ^ o.hp) s' = some sl := by
    intro b s sl hb hg
    have hblt : b < 2 ^ t1.cur.hp :=
      Store.get_some_bucket_lt (by rw [r2, r1]; exact hw.cur_wf.size) hg
    rw [r1, hohp', Nat.pow_succ] at hblt
    have hbm : (b % 2 ^ o.hp) % c.M = l := by
      have := Spec.lockInd_mod m o.hp b hm
      unfold Spec.lockInd at this
      rw [hM, this, ← hM]; exact hb
    have hlt : b % 2 ^ o.hp < 2 ^ o.hp := Nat.mod_lt _ (Spec.two_pow_pos _)
    have hd := mod_double b (2 ^ o.hp) (by omega)
    refine ⟨hbm, hlt, hd, ?_⟩
    apply ((r4 _ hlt hbm).1 sl).mpr
    rcases hd with e | e
    · exact ⟨s, Or.inl (by rw [← e]; exact hg)⟩
    · exact ⟨s, Or.inr (by rw [← e]; exact hg)⟩
  -- uniqueness inside the old stripe
  have hatold : ∀ b s sl, b % c.M = l → o.get c.S b s = some sl → t.at c (.old b s) = some sl := by
    intro b s sl hb hg
    exact (at_old_some_iff c t b s sl).mpr ⟨o, hold, unmigB_of c t b l lk hb hlk hmig, hg⟩
  have hou : ∀ b s b' s' sl sl', b % c.M = l → b' % c.M = l → o.get c.S b s = some sl →
      o.get c.S b' s' = some sl' → sl.key = sl'.key → b = b' ∧ s = s' := by
    intro b s b' s' sl sl' hb hb' hg hg' hk
    have := hw.uniq _ _ _ _ (hatold b s sl hb hg) (hatold b' s' sl' hb' hg') hk
    simpa using this
  -- the old part of the new view
  have hat1 : ∀ b s sl, t1.at c (.old b s) = some sl ↔ (b % c.M ≠ l ∧ t.at c (.old b s) = some sl) := by
    intro b s sl
    rw [at_old_some_iff, at_old_some_iff, hold1, hunm]
    by_cases hb : b % c.M = l
    · simp [hb]
    · simp [hb]
  -- every new live cell comes from an old live cell
  have origin : ∀ p sl, t1.at c p = some sl →
      (t.at c p = some sl ∧ p.bkt % c.M ≠ l) ∨
      (∃ b s s', p = .cur b s ∧ b % c.M = l ∧ (b % 2 ^ o.hp) % c.M = l ∧ b % 2 ^ o.hp < 2 ^ o.hp ∧
        (b = b % 2 ^ o.hp ∨ b = b % 2 ^ o.hp + 2 ^ o.hp) ∧
        o.get c.S (b % 2 ^ o.hp) s' = some sl) := by
    intro p sl hp
    cases p with
    | cur b s =>
      by_cases hb : b % c.M = l
      · right
        obtain ⟨h1, h2, h3, s', h4⟩ := K2 b s sl hb hp
        exact ⟨b, s, s', rfl, hb, h1, h2, h3, h4⟩
      · left
        refine ⟨?_, hb⟩
        have : t1.cur.get c.S b s = some sl := hp
        rw [r3 b s hb] at this
        exact this
    | old b s =>
      left
      obtain ⟨h1, h2⟩ := (hat1 b s sl).mp hp
      exact ⟨h2, h1⟩
  refine ⟨?_, ?_, ?_, ?_, hhp, hunm⟩
  · -- WInv
    refine ⟨hw.S_pos, hw.M_pow, ⟨?_, ?_⟩, ?_, ?_, ?_, ?_, ?_, ?_, ?_⟩
    · rw [r2, r1]; exact hw.cur_wf.size
    · intro b s sl hg
      by_cases hb : b % c.M = l
      · obtain ⟨h1, h2, h3, _⟩ := K2 b s sl hb hg
        have := (r4 _ h2 h1).2.1 b s sl h3 hg
        rw [r1]; exact this
      · rw [r3 b s hb] at hg
        rw [r1]; exact hw.cur_wf.place b s sl hg
    · rw [hlocks, Array.size_modify]; exact hw.locks_pow
    · rw [hlocks, Array.size_modify]; exact hw.locks_le
    · rw [hlocks, Array.size_modify, hhp]; exact hw.locks_ge
    · intro _
      refine ⟨o, by rw [hold1, hold], howf, by rw [hhp]; exact hohp, hMle, ?_⟩
      rw [hlocks, Array.size_modify]; exact hlsz
    · intro b s hu
      rw [hunm] at hu
      by_cases hb : b % c.M = l
      · rw [if_pos hb] at hu; cases hu
      · rw [if_neg hb] at hu
        rw [r3 b s hb]; exact hw.unmig_empty b s hu
    · intro p p' sl sl' h1 h2 hk
      rcases origin p sl h1 with ⟨a1, a2⟩ | ⟨b, s, s0, e, hb, a1, a2, a3, a4⟩
      · rcases origin p' sl' h2 with ⟨b1, b2⟩ | ⟨b', s', s0', e', hb', b1, b2, b3, b4⟩
        · exact hw.uniq p p' sl sl' a1 b1 hk
        · exfalso
          have := hw.uniq _ _ _ _ a1 (hatold _ _ _ b1 b4) hk
          rw [this] at a2
          exact a2 b1
      · rcases origin p' sl' h2 with ⟨b1, b2⟩ | ⟨b', s', s0', e', hb', b1, b2, b3, b4⟩
        · exfalso
          have := hw.uniq _ _ _ _ (hatold _ _ _ a1 a4) b1 hk
          rw [← this] at b2
          exact b2 a1
        · subst e; subst e'
          obtain ⟨ebb, _⟩ := hou _ _ _ _ _ _ a1 b1 a4 b4 hk
          have hu : ∀ s s' sl sl', o.get c.S (b % 2 ^ o.hp) s = some sl →
              o.get c.S (b % 2 ^ o.hp) s' = some sl' → sl.key = sl'.key → s = s' :=
            fun s s' sl sl' g g' k => (hou _ _ _ _ _ _ a1 a1 g g' k).2
          rw [← ebb] at b3
          obtain ⟨e1, e2⟩ := (r4 _ a2 a1).2.2 hu b s b' s' sl sl' a3 b3 h1 h2 hk
          rw [e1, e2]
    · rw [hmhp, hhp]; exact hw.limit
  · -- live view
    intro sl
    constructor
    · rintro ⟨p, hp⟩
      rcases origin p sl hp with ⟨a1, _⟩ | ⟨b, s, s0, _, _, a1, _, _, a4⟩
      · exact ⟨p, a1⟩
      · exact ⟨_, hatold _ _ _ a1 a4⟩
    · rintro ⟨p, hp⟩
      cases p with
      | cur b s =>
        by_cases hb : b % c.M = l
        · have : t.cur.get c.S b s = some sl := hp
          rw [hemp b s hb] at this; cases this
        · refine ⟨.cur b s, ?_⟩
          show t1.cur.get c.S b s = some sl
          rw [r3 b s hb]; exact hp
      | old b s =>
        by_cases hb : b % c.M = l
        · obtain ⟨o', ho', hu, hg⟩ := (at_old_some_iff c t b s sl).mp hp
          rw [hold] at ho'; cases ho'
          have hblt := Store.get_some_bucket_lt howf.size hg
          obtain ⟨s', hs'⟩ := ((r4 b hblt hb).1 sl).mp ⟨s, hg⟩
          rcases hs' with h | h
          · exact ⟨.cur b s', h⟩
          · exact ⟨.cur (b + 2 ^ o.hp) s', h⟩
        · exact ⟨.old b s, (hat1 b s sl).mpr ⟨hb, hp⟩⟩
  · unfold Table.nUnmig
    rw [hlocks, Array.toList_modify]
    exact filter_modify_len _ l lk (by rw [Array.getElem?_toList]; exact hlk) hmig
  · unfold Table.sumCnt
    rw [hlocks, ← Array.foldl_toList, ← Array.foldl_toList, Array.toList_modify]
    exact foldl_modify_cnt _ l (fun x => { x with migrated := true }) (fun _ => rfl) _

end Cuckoo.Model
