import Cuckoo.Proofs.Resize
/-!
Helper lemmas for C12 (stream serialization): the table that `operator>>` builds, field by field.
-/
namespace Cuckoo.Model
open Cuckoo
variable {κ ν : Type}

/-- the lock array after `maybe_resize_locks` in `operator>>` -/
def Table.readMrl (c : Cfg κ) (t : Table κ ν) (s : Wire κ ν) : Table κ ν :=
  ({ t with cur := ⟨s.hp, s.cells⟩ } : Table κ ν).maybeResizeLocks c (2 ^ s.hp)

/-- the lock array `operator>>` leaves -/
def Table.readLocks (c : Cfg κ) (t : Table κ ν) (s : Wire κ ν) : Array Lock :=
  if s.size > 0 then
    ((t.readMrl c s).locks.map (fun (l : Lock) => { l with cnt := 0 })).modify 0 (fun (l : Lock) => { l with cnt := (s.size : Int) })
  else (t.readMrl c s).locks.map (fun (l : Lock) => { l with cnt := 0 })

/-- everything `operator>>` does before the two setters -/
def Table.readCore (c : Cfg κ) (bump : Bool) (t : Table κ ν) (s : Wire κ ν) : Table κ ν :=
  { t with cur := ⟨s.hp, s.cells⟩, locks := t.readLocks c s,
           oldGens := (t.readMrl c s).oldGens, rc := if bump then t.rc + 1 else t.rc }

theorem readMrl_fields (c : Cfg κ) (t : Table κ ν) (s : Wire κ ν) :
    (t.readMrl c s).cur = ⟨s.hp, s.cells⟩ ∧ (t.readMrl c s).old = t.old ∧ (t.readMrl c s).rem = t.rem ∧
    (t.readMrl c s).rc = t.rc ∧ (t.readMrl c s).mlf = t.mlf ∧ (t.readMrl c s).mhp = t.mhp ∧
    (t.readMrl c s).workers = t.workers := by
  have h := Rz.maybeResizeLocks_spec' c ({ t with cur := ⟨s.hp, s.cells⟩ } : Table κ ν) (2 ^ s.hp)
  exact ⟨h.1, h.2.1, h.2.2.1, h.2.2.2.1, h.2.2.2.2.1, h.2.2.2.2.2.1, h.2.2.2.2.2.2.1⟩

theorem read_core_eq (c : Cfg κ) (bump : Bool) (t : Table κ ν) (s : Wire κ ν) :
    t.read c bump s =
      match (t.readCore c bump s).setMlf s.mlf with
      | (t, .err e) => (t, .err e)
      | (t, .ok _) => t.setMhp s.mhp := by
  have hf := readMrl_fields c t s
  have key : (let t0 : Table κ ν := { t with cur := ⟨s.hp, s.cells⟩ }
      let t1 := t0.maybeResizeLocks c (2 ^ s.hp)
      let t2 : Table κ ν := { t1 with locks := t1.locks.map (fun (l : Lock) => { l with cnt := 0 }) }
      let t3 : Table κ ν := if s.size > 0 then { t2 with locks := t2.locks.modify 0 (fun (l : Lock) => { l with cnt := (s.size : Int) }) } else t2
      (if bump then { t3 with rc := t3.rc + 1 } else t3 : Table κ ν)) = t.readCore c bump s := by
    dsimp only
    unfold Table.readCore Table.readLocks
    change _ = ({ t with cur := ⟨s.hp, s.cells⟩, locks := _, oldGens := (t.readMrl c s).oldGens, rc := _ } : Table κ ν)
    generalize hm : t.readMrl c s = M at hf
    have hm' : ({ t with cur := ⟨s.hp, s.cells⟩ } : Table κ ν).maybeResizeLocks c (2 ^ s.hp) = M := hm
    rw [hm']
    obtain ⟨m1, m2, m3, m4, m5, m6, m7, m8, m9⟩ := M
    obtain ⟨h1, h2, h3, h4, h5, h6, h7⟩ := hf
    simp only at h1 h2 h3 h4 h5 h6 h7
    subst h1 h2 h3 h4 h5 h6 h7
    cases bump <;> by_cases hs : s.size > 0 <;> simp [hs]
  unfold Table.read
  exact congrArg (fun (x : Table κ ν) => (match x.setMlf s.mlf with
      | (t, .err e) => ((t, .err e) : Table κ ν × Res Unit)
      | (t, .ok _) => t.setMhp s.mhp)) key

/-! ### the lock array -/

theorem readLocks_size (c : Cfg κ) (t : Table κ ν) (s : Wire κ ν) :
    (t.readLocks c s).size = (t.readMrl c s).locks.size := by
  unfold Table.readLocks
  split <;> simp

theorem readLocks_mig (c : Cfg κ) (t : Table κ ν) (s : Wire κ ν) (i : Nat) :
    ((t.readLocks c s)[i]?).map Lock.migrated = ((t.readMrl c s).locks[i]?).map Lock.migrated := by
  unfold Table.readLocks
  split
  · rw [Array.getElem?_modify, Array.getElem?_map]
    cases (t.readMrl c s).locks[i]? <;> by_cases h : 0 = i <;> simp [h]
  · rw [Array.getElem?_map]
    cases (t.readMrl c s).locks[i]? <;> simp

theorem foldl_cnt_zero (l : List Lock) (acc : Int) :
    (l.map (fun (l : Lock) => ({ l with cnt := 0 } : Lock))).foldl (fun s x => s + x.cnt) acc = acc := by
  induction l generalizing acc with
  | nil => rfl
  | cons x xs ih => simp only [List.map_cons, List.foldl_cons, Int.add_zero, ih]

theorem readLocks_sum (c : Cfg κ) (t : Table κ ν) (s : Wire κ ν) (hne : 0 < (t.readMrl c s).locks.size) :
    (t.readLocks c s).foldl (fun s l => s + l.cnt) (0 : Int) = (s.size : Int) := by
  unfold Table.readLocks
  split
  · rw [← Array.foldl_toList, Array.toList_modify, Array.toList_map]
    cases hl : (t.readMrl c s).locks.toList with
    | nil =>
      have : (t.readMrl c s).locks.toList.length = 0 := by rw [hl]; rfl
      rw [Array.length_toList] at this
      omega
    | cons x xs =>
      simp only [List.map_cons, List.modify_zero_cons, List.foldl_cons, Int.zero_add, foldl_cnt_zero]
  · rename_i h
    rw [← Array.foldl_toList, Array.toList_map, foldl_cnt_zero]
    omega

theorem readMrl_allMig (c : Cfg κ) (t : Table κ ν) (s : Wire κ ν) (h : AllMig t) : AllMig (t.readMrl c s) :=
  (Rz.maybeResizeLocks_spec' c ({ t with cur := ⟨s.hp, s.cells⟩ } : Table κ ν) (2 ^ s.hp)).2.2.2.2.2.2.2.2.1 h

theorem readMrl_size_le (c : Cfg κ) (t : Table κ ν) (s : Wire κ ν) : t.locks.size ≤ (t.readMrl c s).locks.size :=
  (Rz.maybeResizeLocks_spec' c ({ t with cur := ⟨s.hp, s.cells⟩ } : Table κ ν) (2 ^ s.hp)).2.2.2.2.2.2.2.2.2.2

theorem readLocks_allMig (c : Cfg κ) (t : Table κ ν) (s : Wire κ ν) (h : AllMig t) (i : Nat) (lk : Lock)
    (hlk : (t.readLocks c s)[i]? = some lk) : lk.migrated = true := by
  have h1 := readLocks_mig c t s i
  rw [hlk] at h1
  cases h2 : (t.readMrl c s).locks[i]? with
  | none => rw [h2] at h1; cases h1
  | some lk' =>
    rw [h2] at h1
    have := readMrl_allMig c t s h i lk' h2
    simp only [Option.map_some, Option.some.injEq] at h1
    rw [h1, this]

theorem locks_pos {c : Cfg κ} {t : Table κ ν} (h : Inv c t) : 0 < t.locks.size := by
  obtain ⟨j, hj⟩ := h.locks_pow
  rw [hj]; exact Spec.two_pow_pos j

theorem readCore_sumCnt (c : Cfg κ) (bump : Bool) (t : Table κ ν) (s : Wire κ ν) (h : Inv c t) :
    (t.readCore c bump s).sumCnt = (s.size : Int) :=
  readLocks_sum c t s (Nat.lt_of_lt_of_le (locks_pos h) (readMrl_size_le c t s))

/-! ### the result of `operator>>` -/

theorem setters_locks (t : Table κ ν) (x : Float) (y : Nat) :
    (match t.setMlf x with
      | (t, .err e) => ((t, .err e) : Table κ ν × Res Unit)
      | (t, .ok _) => t.setMhp y).1.locks = t.locks ∧
    (match t.setMlf x with
      | (t, .err e) => ((t, .err e) : Table κ ν × Res Unit)
      | (t, .ok _) => t.setMhp y).1.rc = t.rc := by
  unfold Table.setMlf
  by_cases h1 : x < 0.0
  · rw [if_pos h1]; exact ⟨rfl, rfl⟩
  · rw [if_neg h1]
    by_cases h2 : x > 1.0
    · rw [if_pos h2]; exact ⟨rfl, rfl⟩
    · rw [if_neg h2]
      dsimp only
      unfold Table.setMhp
      split <;> exact ⟨rfl, rfl⟩

theorem read_locks (c : Cfg κ) (bump : Bool) (t : Table κ ν) (s : Wire κ ν) :
    (t.read c bump s).1.locks = t.readLocks c s ∧ (t.read c bump s).1.rc = if bump then t.rc + 1 else t.rc := by
  rw [read_core_eq]
  exact setters_locks _ _ _

theorem read_ok (c : Cfg κ) (bump : Bool) (t : Table κ ν) (s : Wire κ ν)
    (hmlf : (s.mlf < 0.0) = false ∧ (s.mlf > 1.0) = false) (hhp : s.hp ≤ s.mhp) :
    t.read c bump s = ({ (t.readCore c bump s) with mlf := s.mlf, mhp := s.mhp }, .ok ()) := by
  rw [read_core_eq]
  unfold Table.setMlf
  rw [if_neg (by rw [hmlf.1]; simp), if_neg (by rw [hmlf.2]; simp)]
  dsimp only
  unfold Table.setMhp
  rw [if_neg]
  show ¬ s.hp > s.mhp
  omega

/-- the table `operator>>` produces when both setters accept the recorded settings -/
def Table.readFinal (c : Cfg κ) (bump : Bool) (dst src : Table κ ν) : Table κ ν :=
  { (dst.readCore c bump src.write) with mlf := src.mlf, mhp := src.mhp }

theorem readFinal_cur (c : Cfg κ) (bump : Bool) (dst src : Table κ ν) : (dst.readFinal c bump src).cur = src.cur := rfl

theorem readFinal_allMig (c : Cfg κ) (bump : Bool) (dst src : Table κ ν) (hdl : AllMig dst) :
    AllMig (dst.readFinal c bump src) :=
  fun i lk hlk => readLocks_allMig c dst src.write hdl i lk hlk

theorem readFinal_live (c : Cfg κ) (bump : Bool) (dst src : Table κ ν) (hsl : AllMig src) (hdl : AllMig dst)
    (sl : Slot κ ν) : (dst.readFinal c bump src).Live c sl ↔ src.Live c sl := by
  rw [Rz.live_iff_cur (fun b => (readFinal_allMig c bump dst src hdl).unmigB b),
    Rz.live_iff_cur (fun b => hsl.unmigB b), readFinal_cur]

theorem readFinal_inv (c : Cfg κ) (bump : Bool) (dst src : Table κ ν) (hs : Inv c src)
    (hd : Inv c dst) (hdl : AllMig dst) : Inv c (dst.readFinal c bump src) := by
  have ha := readFinal_allMig c bump dst src hdl
  have hsz := Rz.mrl_size c ({ dst with cur := ⟨src.write.hp, src.write.cells⟩ } : Table κ ν) src.write.hp
    hd.M_pow hd.locks_pow hd.locks_le
  have hls : (dst.readFinal c bump src).locks.size = (dst.readMrl c src.write).locks.size :=
    readLocks_size c dst src.write
  have hrem : dst.rem = 0 := by rw [hd.rem_eq, Rz.allMig_nUnmig hdl]
  refine ⟨hd.S_pos, hd.M_pow, hs.cur_wf, ?_, ?_, ?_, ?_, ?_, ?_, ?_, hs.limit⟩
  · rw [hls]; exact hsz.1
  · rw [hls]; exact hsz.2.1
  · rw [hls]; exact hsz.2.2
  · rw [Rz.allMig_nUnmig ha]; exact hrem
  · intro h
    have : (dst.readFinal c bump src).rem = dst.rem := rfl
    omega
  · intro b s hb
    rw [ha.unmigB] at hb; cases hb
  · intro p p' sl sl' h1 h2 hk
    have key : ∀ q sl, (dst.readFinal c bump src).at c q = some sl → src.at c q = some sl := by
      intro q sl hq
      cases q with
      | cur b s => exact hq
      | old b s =>
        simp only [Table.at, ha.unmigB] at hq
        split at hq <;> simp at hq
    exact hs.uniq p p' sl sl' (key p sl h1) (key p' sl' h2) hk

theorem readFinal_sumCnt (c : Cfg κ) (bump : Bool) (dst src : Table κ ν) (hd : Inv c dst) :
    (dst.readFinal c bump src).sumCnt = (src.size : Int) :=
  readCore_sumCnt c bump dst src.write hd

end Cuckoo.Model
