import Cuckoo.Model.Lin
/-!
# Helper lemmas for the linearizability checker (`Model/Lin.lean`): the search is sound and complete
-/
namespace Cuckoo.Lin.Aux
open Cuckoo.Spec Cuckoo.Lin

/-- real-time order as a `Pairwise` property: an earlier call of the order was invoked no later than any later call
responded -/
def RT (l : List HOp) : Prop := l.Pairwise (fun a b => a.inv ≤ b.resp)

/-- a linearization of the pending calls `p` from the map `m` -/
def IsLin (final m : AMap Nat Nat) (p w : List HOp) : Prop :=
  w.Perm p ∧ RT w ∧ ∃ m', runSpec m w = some m' ∧ sameMap m' final = true

/-! ### `minResp` -/

theorem le_foldl_min (x : Nat) (l : List HOp) (a : Nat) :
    x ≤ l.foldl (fun a p => min a p.resp) a ↔ x ≤ a ∧ ∀ q ∈ l, x ≤ q.resp := by
  induction l generalizing a with
  | nil => simp
  | cons q qs ih =>
    rw [List.foldl_cons, ih, Nat.le_min]
    constructor
    · rintro ⟨⟨h1, h2⟩, h3⟩
      refine ⟨h1, fun r hr => ?_⟩
      rcases List.mem_cons.mp hr with rfl | hr
      · exact h2
      · exact h3 r hr
    · rintro ⟨h1, h2⟩
      exact ⟨⟨h1, h2 q (List.mem_cons_self ..)⟩, fun r hr => h2 r (List.mem_cons_of_mem _ hr)⟩

theorem le_minResp (x : Nat) (q : HOp) (qs : List HOp) : x ≤ minResp q qs ↔ ∀ r ∈ q :: qs, x ≤ r.resp := by
  unfold minResp
  rw [le_foldl_min]
  constructor
  · rintro ⟨h1, h2⟩ r hr
    rcases List.mem_cons.mp hr with rfl | hr
    · exact h1
    · exact h2 r hr
  · intro h
    exact ⟨h q (List.mem_cons_self ..), fun r hr => h r (List.mem_cons_of_mem _ hr)⟩

/-! ### `tryEach` -/

theorem tryEach_some (k : AMap Nat Nat → List HOp → Option (List HOp)) (m : AMap Nat Nat) (lim : Nat)
    (pre post w : List HOp) (h : tryEach k m lim pre post = some w) :
    ∃ o post1 post2 m' w', post = post1 ++ o :: post2 ∧ o.inv ≤ lim ∧ applySpec m o.op o.res = some m' ∧
      k m' (pre.reverse ++ (post1 ++ post2)) = some w' ∧ w = o :: w' := by
  induction post generalizing pre with
  | nil => simp [tryEach] at h
  | cons o post ih =>
    rw [tryEach] at h
    by_cases hlim : o.inv ≤ lim
    · cases happ : applySpec m o.op o.res with
      | none =>
        simp only [hlim, if_true, happ] at h
        obtain ⟨o', p1, p2, m', w', e1, e2, e3, e4, e5⟩ := ih (o :: pre) h
        refine ⟨o', o :: p1, p2, m', w', by rw [e1]; rfl, e2, e3, ?_, e5⟩
        simpa using e4
      | some m1 =>
        cases hk : k m1 (pre.reverseAux post) with
        | none =>
          simp only [hlim, if_true, happ, hk] at h
          obtain ⟨o', p1, p2, m', w', e1, e2, e3, e4, e5⟩ := ih (o :: pre) h
          refine ⟨o', o :: p1, p2, m', w', by rw [e1]; rfl, e2, e3, ?_, e5⟩
          simpa using e4
        | some w1 =>
          simp only [hlim, if_true, happ, hk] at h
          refine ⟨o, [], post, m1, w1, rfl, hlim, happ, ?_, (Option.some.inj h).symm⟩
          rw [← hk, List.reverseAux_eq]; rfl
    · simp only [hlim, if_false] at h
      obtain ⟨o', p1, p2, m', w', e1, e2, e3, e4, e5⟩ := ih (o :: pre) h
      refine ⟨o', o :: p1, p2, m', w', by rw [e1]; rfl, e2, e3, ?_, e5⟩
      simpa using e4

theorem tryEach_isSome (k : AMap Nat Nat → List HOp → Option (List HOp)) (m : AMap Nat Nat) (lim : Nat)
    (o : HOp) (m' : AMap Nat Nat) (post1 post2 pre : List HOp)
    (h1 : o.inv ≤ lim) (h2 : applySpec m o.op o.res = some m')
    (h3 : (k m' (pre.reverse ++ (post1 ++ post2))).isSome = true) :
    (tryEach k m lim pre (post1 ++ o :: post2)).isSome = true := by
  induction post1 generalizing pre with
  | nil =>
    rw [List.nil_append, tryEach]
    simp only [h1, if_true, h2, List.reverseAux_eq]
    rw [List.nil_append] at h3
    cases hk : k m' (pre.reverse ++ post2) with
    | none => rw [hk] at h3; cases h3
    | some w => rfl
  | cons x post1 ih =>
    rw [List.cons_append, tryEach]
    have hrec := ih (x :: pre) (by simpa using h3)
    split
    · rfl
    · exact hrec

/-! ### the search -/

theorem runSpec_cons (m : AMap Nat Nat) (o : HOp) (w : List HOp) (m1 : AMap Nat Nat)
    (h : applySpec m o.op o.res = some m1) : runSpec m (o :: w) = runSpec m1 w := by
  simp only [runSpec, h]

/-- every answer of the search is a linearization -/
theorem search_sound (final : AMap Nat Nat) (fuel : Nat) (m : AMap Nat Nat) (p w : List HOp)
    (h : search final fuel m p = some w) : IsLin final m p w := by
  induction fuel generalizing m p w with
  | zero =>
    cases p with
    | nil =>
      simp only [search] at h
      split at h
      · cases h
        exact ⟨List.Perm.nil, List.Pairwise.nil, m, rfl, by assumption⟩
      · cases h
    | cons q qs => simp [search] at h
  | succ fuel ih =>
    cases p with
    | nil =>
      simp only [search] at h
      split at h
      · cases h
        exact ⟨List.Perm.nil, List.Pairwise.nil, m, rfl, by assumption⟩
      · cases h
    | cons q qs =>
      simp only [search] at h
      obtain ⟨o, p1, p2, m1, w1, e1, e2, e3, e4, e5⟩ := tryEach_some _ m _ [] (q :: qs) w h
      simp only [List.reverse_nil, List.nil_append] at e4
      obtain ⟨i1, i2, m', i3, i4⟩ := ih m1 (p1 ++ p2) w1 e4
      subst e5
      rw [e1]
      refine ⟨?_, ?_, m', ?_, i4⟩
      · exact ((List.perm_cons o).mpr i1).trans List.perm_middle.symm
      · refine List.pairwise_cons.mpr ⟨fun r hr => ?_, i2⟩
        have hr1 : r ∈ p1 ++ p2 := i1.mem_iff.mp hr
        have hr2 : r ∈ q :: qs := by
          rw [e1]
          rcases List.mem_append.mp hr1 with a | a
          · exact List.mem_append_left _ a
          · exact List.mem_append_right _ (List.mem_cons_of_mem _ a)
        exact (le_minResp o.inv q qs).mp e2 r hr2
      · rw [runSpec_cons m o w1 m1 e3]; exact i3

/-- if the pending calls have a linearization, the search finds one (given enough fuel; every call is invoked no
later than it responds) -/
theorem search_complete (final : AMap Nat Nat) (fuel : Nat) (m : AMap Nat Nat) (p w : List HOp)
    (hf : p.length ≤ fuel) (hwf : ∀ o ∈ p, o.inv ≤ o.resp) (h : IsLin final m p w) :
    (search final fuel m p).isSome = true := by
  induction fuel generalizing m p w with
  | zero =>
    have : p = [] := List.eq_nil_of_length_eq_zero (Nat.le_zero.mp hf)
    subst this
    obtain ⟨h1, _, m', h3, h4⟩ := h
    have : w = [] := h1.eq_nil
    subst this
    simp only [runSpec, Option.some.injEq] at h3
    subst h3
    simp [search, h4]
  | succ fuel ih =>
    obtain ⟨h1, h2, m', h3, h4⟩ := h
    cases w with
    | nil =>
      have : p = [] := h1.symm.eq_nil
      subst this
      simp only [runSpec, Option.some.injEq] at h3
      subst h3
      simp [search, h4]
    | cons o w1 =>
      have ho : o ∈ p := h1.mem_iff.mp (List.mem_cons_self ..)
      obtain ⟨p1, p2, e1⟩ := List.append_of_mem ho
      have hperm : w1.Perm (p1 ++ p2) := by
        have : (o :: w1).Perm (o :: (p1 ++ p2)) := by rw [e1] at h1; exact h1.trans List.perm_middle
        exact this.cons_inv
      obtain ⟨r1, r2⟩ := List.pairwise_cons.mp h2
      cases happ : applySpec m o.op o.res with
      | none => simp [runSpec, happ] at h3
      | some m1 =>
        rw [runSpec_cons m o w1 m1 happ] at h3
        have hlen : (p1 ++ p2).length ≤ fuel := by
          have := congrArg List.length e1
          simp only [List.length_append, List.length_cons] at this ⊢
          omega
        have hwf' : ∀ x ∈ p1 ++ p2, x.inv ≤ x.resp := by
          intro x hx
          apply hwf
          rw [e1]
          rcases List.mem_append.mp hx with a | a
          · exact List.mem_append_left _ a
          · exact List.mem_append_right _ (List.mem_cons_of_mem _ a)
        have hrec := ih m1 (p1 ++ p2) w1 hlen hwf' ⟨hperm, r2, m', h3, h4⟩
        cases p with
        | nil => cases p1 <;> cases e1
        | cons q qs =>
          simp only [search]
          rw [e1]
          apply tryEach_isSome _ m _ o m1 p1 p2 [] _ happ
          · simpa using hrec
          · apply (le_minResp o.inv q qs).mpr
            intro r hr
            rw [e1] at hr
            rcases List.mem_append.mp hr with a | a
            · exact r1 r (hperm.mem_iff.mpr (List.mem_append_left _ a))
            · rcases List.mem_cons.mp a with rfl | a
              · exact hwf r ho
              · exact r1 r (hperm.mem_iff.mpr (List.mem_append_right _ a))

/-! ### `sameMap` -/

theorem lookup_none_iff (m : AMap Nat Nat) (k : Nat) : m.lookup k = none ↔ ∀ p ∈ m, p.1 ≠ k := by
  induction m with
  | nil => simp [AMap.lookup]
  | cons p rest ih =>
    obtain ⟨k', v⟩ := p
    simp only [AMap.lookup]
    by_cases e : k' = k
    · simp [e]
    · simp [e, ih]

theorem sameMap_iff (a b : AMap Nat Nat) : sameMap a b = true ↔ ∀ k, a.lookup k = b.lookup k := by
  unfold sameMap
  simp only [Bool.and_eq_true, List.all_eq_true, beq_iff_eq]
  constructor
  · rintro ⟨h1, h2⟩ k
    cases ha : a.lookup k with
    | some v =>
      have : ¬ ∀ p ∈ a, p.1 ≠ k := fun hn => by rw [(lookup_none_iff a k).mpr hn] at ha; cases ha
      have : ∃ p ∈ a, p.1 = k := Classical.byContradiction fun hn => this fun p hp e => hn ⟨p, hp, e⟩
      obtain ⟨p, hp, rfl⟩ := this
      rw [← ha]; exact (h1 p hp).symm
    | none =>
      cases hb : b.lookup k with
      | none => rfl
      | some v =>
        have : ¬ ∀ p ∈ b, p.1 ≠ k := fun hn => by rw [(lookup_none_iff b k).mpr hn] at hb; cases hb
        have : ∃ p ∈ b, p.1 = k := Classical.byContradiction fun hn => this fun p hp e => hn ⟨p, hp, e⟩
        obtain ⟨p, hp, rfl⟩ := this
        rw [← ha, ← hb]; exact h2 p hp
  · intro h
    exact ⟨fun p _ => (h p.1).symm, fun p _ => h p.1⟩

/-! ### the independent re-validation of a witness -/

theorem realTimeB_iff (l : List HOp) : realTimeB l = true ↔ RT l := by
  induction l with
  | nil => simp [realTimeB, RT]
  | cons o rest ih =>
    simp only [realTimeB, Bool.and_eq_true, List.all_eq_true, decide_eq_true_eq, ih, RT, List.pairwise_cons]

theorem validWitness_iff (m0 : AMap Nat Nat) (h order : List HOp) (final : AMap Nat Nat) :
    validWitness m0 h order final = true ↔ IsLin final m0 h order := by
  unfold validWitness IsLin
  simp only [Bool.and_eq_true, List.isPerm_iff, realTimeB_iff]
  cases hr : runSpec m0 order with
  | none => simp
  | some m => simp [and_assoc]

end Cuckoo.Lin.Aux
