import Cuckoo.Proofs.FineAux4
/-!
Preservation of the reduction invariant by the synchronisation events other than `release`:
quiet events, `acquire` (pre-commit threads only, rule T) and `append` (a pre-commit owner only, rule T).
-/
namespace Cuckoo.Fine
open Cuckoo.Proto

variable {V : Type} [DecidableEq V] {G : Nat → Nat → Nat} {mem0 : Nat → V} {g : GS V}

theorem guard_eq_of_gens (G : Nat → Nat → Nat) (p p' : PS) (h : p'.gens = p.gens) (x : Nat) :
    guard G p' x = guard G p x := by
  simp only [guard, PS.curGen, PS.curSize, h]

theorem finv_quiet (h : FInv G mem0 g) (e : Ev) (p' : PS) (hq : quiet e = true)
    (hacc : Proto.accept g.fs.ps e = some p') :
    FInv G mem0 { g with fs := { g.fs with ps := p' } } := by
  obtain ⟨hH, hg, hth⟩ := quiet_spec _ _ e hq hacc
  have hgd : ∀ x, guard G p' x = guard G g.fs.ps x := guard_eq_of_gens G _ _ hg
  constructor
  · exact accept_inv _ _ e h.pinv hacc
  · exact h.ser
  · intro u hne
    obtain ⟨h1, h2⟩ := h.open_ok u hne
    refine ⟨?_, h2⟩
    rcases h1 with h1 | h1
    · exact Or.inl ((hth u).2.1 h1)
    · exact Or.inr ((hth u).2.2 h1)
  · intro u x hx
    show p'.holder (guard G p' x) = some u ∨ (p'.th u).owner = true
    rw [hgd, hH]
    exact (h.open_guard u x hx).imp id (hth u).2.2
  · intro u hu
    obtain ⟨h1, h2⟩ := h.shr u hu
    refine ⟨?_, h2⟩
    show (p'.th u).held ≠ []
    rw [(hth u).1]; exact h1
  · exact h.keys
  · exact h.sorted
  · intro u hu E1 p E2 hE hpt hpk q hq x hx
    show p'.holder (guard G p' x) ≠ some u
    rw [hgd, hH]
    exact h.later u hu E1 p E2 hE hpt hpk q hq x hx

theorem finv_acquire (h : FInv G mem0 g) (t : Tid) (l : LockId) (p' : PS) (hs : g.fs.shrunk t = false)
    (hacc : Proto.accept g.fs.ps (.acquire t l) = some p') :
    FInv G mem0 { g with fs := { g.fs with ps := p' } } := by
  obtain ⟨hfree, hH, hg, hoth, hheld, hown, hval⟩ := acquire_spec _ _ t l hacc
  have hgd : ∀ x, guard G p' x = guard G g.fs.ps x := guard_eq_of_gens G _ _ hg
  constructor
  · exact accept_inv _ _ _ h.pinv hacc
  · exact h.ser
  · intro u hne
    obtain ⟨h1, h2⟩ := h.open_ok u hne
    refine ⟨?_, h2⟩
    by_cases hu : u = t
    · subst hu
      show (p'.th u).validated = true ∨ (p'.th u).owner = true
      rw [hown, hval (may_touch_held h.pinv h1)]; exact h1
    · show (p'.th u).validated = true ∨ (p'.th u).owner = true
      rw [hoth u hu]; exact h1
  · intro u x hx
    show p'.holder (guard G p' x) = some u ∨ (p'.th u).owner = true
    rw [hgd, hH]
    rcases h.open_guard u x hx with h1 | h1
    · left
      rw [updH_other]; exact h1
      intro e; rw [e, hfree] at h1; cases h1
    · right
      by_cases hu : u = t
      · subst hu; rw [hown]; exact h1
      · rw [hoth u hu]; exact h1
  · intro u hu
    have hut : u ≠ t := by intro e; subst e; rw [hs] at hu; cases hu
    obtain ⟨h1, h2⟩ := h.shr u hu
    refine ⟨?_, h2⟩
    show (p'.th u).held ≠ []
    rw [hoth u hut]; exact h1
  · exact h.keys
  · exact h.sorted
  · intro u hu E1 p E2 hE hpt hpk q hq x hx
    have hut : u ≠ t := by intro e; subst e; rw [hs] at hu; cases hu
    show p'.holder (guard G p' x) ≠ some u
    rw [hgd, hH, updH_apply]
    split
    · intro e; exact hut (Option.some.inj e).symm
    · exact h.later u hu E1 p E2 hE hpt hpk q hq x hx

theorem finv_append (h : FInv G mem0 g) (t : Tid) (n : Nat) (p' : PS) (hs : g.fs.shrunk t = false)
    (hacc : Proto.accept g.fs.ps (.append t n) = some p') :
    FInv G mem0 { g with fs := { g.fs with ps := p' } } := by
  obtain ⟨howner, hn, hg, hH, hoth, hown', hheld⟩ := append_spec _ _ t n hacc
  constructor
  · exact accept_inv _ _ _ h.pinv hacc
  · exact h.ser
  · intro u hne
    obtain ⟨h1, h2⟩ := h.open_ok u hne
    refine ⟨?_, h2⟩
    by_cases hu : u = t
    · subst hu; exact Or.inr hown'
    · show (p'.th u).validated = true ∨ (p'.th u).owner = true
      rw [hoth u hu]; exact h1
  · intro u x hx
    by_cases hu : u = t
    · subst hu; exact Or.inr hown'
    · have := h.open_nil_of_owner howner hu
      rw [this] at hx; cases hx
  · intro u hu
    have hut : u ≠ t := by intro e; subst e; rw [hs] at hu; cases hu
    obtain ⟨h1, h2⟩ := h.shr u hu
    refine ⟨?_, h2⟩
    show (p'.th u).held ≠ []
    rw [hoth u hut]; exact h1
  · exact h.keys
  · exact h.sorted
  · intro u hu E1 p E2 hE hpt hpk q hq x hx
    have hut : u ≠ t := by intro e; subst e; rw [hs] at hu; cases hu
    show p'.holder (guard G p' x) ≠ some u
    rw [hH]
    split
    · intro e; exact hut (Option.some.inj e).symm
    · intro e
      have := (h.pinv.held_range _ _ e).1
      simp only [guard, PS.curGen, hg, List.length_append, List.length_singleton] at this
      omega

end Cuckoo.Fine
