import Cuckoo.Proofs.SchedAux4
import Cuckoo.Props.C01Conc
/-!
Helper lemmas for `Cuckoo/Props/C01Sched.lean`, part 5: every section of the schedule of an inserting call is a
legitimate section of that call (`C01Conc.SecOf`), so the schedule is a list of `C01Conc.Ev`.
Never property statements.
-/
namespace Cuckoo.Model.SchedA
open Cuckoo Cuckoo.Model Cuckoo.Model.Conc Cuckoo.Model.Sched Cuckoo.Props.C01Conc
variable {κ ν : Type} [DecidableEq κ]

/-- all sections of a list are legitimate sections of `call` -/
def AllSec (c : Cfg κ) (call : Props.C01Conc.Call κ ν) (l : List (Section κ ν)) : Prop := ∀ f ∈ l, SecOf c call f

theorem AllSec.nil (c : Cfg κ) (call : Props.C01Conc.Call κ ν) : AllSec c call [] := fun _ h => by cases h

theorem AllSec.cons {c : Cfg κ} {call : Props.C01Conc.Call κ ν} {f : Section κ ν} {l : List (Section κ ν)}
    (hf : SecOf c call f) (hl : AllSec c call l) : AllSec c call (f :: l) := by
  intro g hg
  rcases List.mem_cons.mp hg with e | e
  · rw [e]; exact hf
  · exact hl g e

theorem AllSec.append {c : Cfg κ} {call : Props.C01Conc.Call κ ν} {l1 l2 : List (Section κ ν)}
    (h1 : AllSec c call l1) (h2 : AllSec c call l2) : AllSec c call (l1 ++ l2) := by
  intro g hg
  rcases List.mem_append.mp hg with e | e
  · exact h1 g e
  · exact h2 g e

theorem slotSearchSched_all (c : Cfg κ) (call : Props.C01Conc.Call κ ν) (hp : Nat) :
    ∀ (fuel : Nat) (t : Table κ ν) (q : Array BSlot) (first : Nat), AllSec c call (slotSearchSched c hp fuel t q first) := by
  intro fuel
  induction fuel with
  | zero => intro t q first; exact AllSec.nil c call
  | succ n ih =>
    intro t q first
    simp only [slotSearchSched]
    cases q[first]? with
    | none => exact AllSec.nil c call
    | some x =>
      simp only
      refine AllSec.cons (lockSec_sec c call _) ?_
      cases bfsScan c hp (t.lockOne c x.bucket).cur x with
      | inl r => exact AllSec.nil c call
      | inr ch => exact ih _ _ _

theorem buildPathSchedGo_all (c : Cfg κ) (call : Props.C01Conc.Call κ ν) (hp : Nat) :
    ∀ (slots : List Nat) (t : Table κ ν) (b : Nat), AllSec c call (buildPathSchedGo c hp t b slots) := by
  intro slots
  induction slots with
  | nil => intro t b; exact AllSec.nil c call
  | cons s rest ih =>
    intro t b
    simp only [buildPathSchedGo]
    refine AllSec.cons (lockSec_sec c call _) ?_
    cases (t.lockOne c b).cur.get c.S b s with
    | none => exact AllSec.nil c call
    | some sl => exact ih _ _

section
variable (c : Cfg κ) (k : κ) (v : ν) (ca me : Bool) (fn : Ctx → ν → FnOut ν)

theorem pathMoveSchedGo_all (hp rc : Nat) : ∀ (rev : List PathRec) (t : Table κ ν),
    AllSec c (.uprase k v ca me fn) (pathMoveSchedGo c k v ca me fn hp rc t rev) := by
  intro rev
  induction rev with
  | nil => intro t; exact AllSec.nil c _
  | cons to tl ih =>
    intro t
    cases tl with
    | nil => exact AllSec.nil c _
    | cons fr rest =>
      simp only [pathMoveSchedGo]
      split
      · exact AllSec.cons (insertLastSec_sec c hp rc k v ca me fn fr (some to)) (AllSec.nil c _)
      · refine AllSec.cons (hopSec_sec c _ hp rc fr to) ?_
        cases hop c (t.lockTwo c fr.bucket to.bucket) fr to with
        | none => exact AllSec.nil c _
        | some t' => exact ih t'

theorem pathMoveSched_all (hp rc : Nat) (t : Table κ ν) (path : List PathRec) :
    AllSec c (.uprase k v ca me fn) (pathMoveSched c k v ca me fn hp rc t path) := by
  rcases path with _ | ⟨q0, _ | ⟨q1, rest⟩⟩
  · exact AllSec.nil c _
  · exact AllSec.cons (insertLastSec_sec c hp rc k v ca me fn q0 none) (AllSec.nil c _)
  · exact pathMoveSchedGo_all c k v ca me fn hp rc _ t

theorem cuckooSched_all (hp rc dfuel : Nat) (restart : Table κ ν → List (Section κ ν))
    (hrestart : ∀ t2, AllSec c (.uprase k v ca me fn) (restart t2)) : ∀ (fuel : Nat) (t : Table κ ν),
    AllSec c (.uprase k v ca me fn) (cuckooSched c k v ca me fn hp rc dfuel restart fuel t) := by
  intro fuel
  induction fuel with
  | zero => intro t; exact AllSec.nil c _
  | succ n ih =>
    intro t
    simp only [cuckooSched]
    refine AllSec.append (slotSearchSched_all c _ hp _ t _ _) ?_
    rcases slotSearch c false hp t (c.i1 hp k) (c.i2 hp k) with ⟨t1, _ | x⟩
    · simp only
      refine AllSec.cons (doubleSec_sec c k v ca me fn dfuel hp) ?_
      rcases fastDouble c false true dfuel t1 hp with ⟨t2, a | e⟩
      · exact hrestart t2
      · exact AllSec.nil c _
    · simp only
      refine AllSec.append (buildPathSchedGo_all c _ hp _ t1 _) (AllSec.append (pathMoveSched_all c k v ca me fn hp rc _ _) ?_)
      rcases pathMove c false (buildPath c false hp t1 (c.i1 hp k) (c.i2 hp k) x).1 (c.i1 hp k) (c.i2 hp k)
        (buildPath c false hp t1 (c.i1 hp k) (c.i2 hp k) x).2 with ⟨t3, _ | _⟩
      · exact ih t3
      · exact AllSec.nil c _

theorem insSched_all : ∀ (fuel : Nat) (t : Table κ ν),
    AllSec c (.uprase k v ca me fn) (insSched c k v ca me fn fuel t) := by
  intro fuel
  induction fuel with
  | zero => intro t; exact AllSec.nil c _
  | succ n ih =>
    intro t
    simp only [insSched]
    refine AllSec.cons (insertTrySec_sec c k v ca me fn) ?_
    cases tryInsert c (t.lockTwo c (c.i1 t.hp k) (c.i2 t.hp k)).cur (c.i1 t.hp k) (c.i2 t.hp k) k with
    | pos p => exact AllSec.nil c _
    | needCuckoo => exact cuckooSched_all c k v ca me fn _ _ _ _ ih _ _

end

/-- a list of legitimate sections of one call, as scheduled events -/
def mkEvs (c : Cfg κ) (call : Props.C01Conc.Call κ ν) : (l : List (Section κ ν)) → AllSec c call l → List (Ev c ν)
  | [], _ => []
  | f :: fs, h => ⟨call, f, h f List.mem_cons_self⟩ :: mkEvs c call fs (fun g hg => h g (List.mem_cons_of_mem _ hg))

theorem mkEvs_f (c : Cfg κ) (call : Props.C01Conc.Call κ ν) : ∀ (l : List (Section κ ν)) (h : AllSec c call l),
    (mkEvs c call l h).map (·.f) = l := by
  intro l
  induction l with
  | nil => intro _; rfl
  | cons f fs ih => intro h; exact congrArg (f :: ·) (ih _)

theorem mkEvs_call (c : Cfg κ) (call : Props.C01Conc.Call κ ν) : ∀ (l : List (Section κ ν)) (h : AllSec c call l),
    (mkEvs c call l h).map (·.call) = List.replicate l.length call := by
  intro l
  induction l with
  | nil => intro _; rfl
  | cons f fs ih => intro h; exact congrArg (call :: ·) (ih _)

/-- a run of one call's sections in which only the last answers has that answer as its linearization -/
theorem linRun_single (call : Props.C01Conc.Call κ ν) (r : Resp ν) : ∀ (n : Nat) (m m' : Spec.AMap κ ν),
    linRun m (List.replicate (n + 1) call) (List.replicate n none ++ [some r]) m' → specOf m call r m' := by
  intro n
  induction n with
  | zero =>
    intro m m' h
    obtain ⟨m1, h1, h2⟩ := h
    have : m' = m1 := h2
    rw [this]; exact h1
  | succ n ih =>
    intro m m' h
    exact ih m m' h

end Cuckoo.Model.SchedA
