import Cuckoo.Proofs.FineAux1
import Cuckoo.Proofs.FineAux2
/-!
The reduction invariant `FInv` over accepted fine-grained prefixes, elementary consequences, and list lemmas about the
episode list.
-/
namespace Cuckoo.Fine
open Cuckoo.Proto

variable {V : Type}

/-- two episodes have the same key (thread, hold number) -/
def sameKey (p q : Ep V) : Prop := p.tid = q.tid ∧ p.hold = q.hold

structure FInv [DecidableEq V] (G : Nat → Nat → Nat) (mem0 : Nat → V) (g : GS V) : Prop where
  pinv : PInv g.fs.ps
  /-- the serial run of the committed episodes succeeds; its result `am` is the real memory except where an open
  log has written, and every open log runs on `am` with the values the thread really saw -/
  ser : ∃ am, runAccs mem0 (flat g.E) = some am ∧
    (∀ x, (∀ t, x ∉ locs (g.opn t)) → g.fs.mem x = am x) ∧
    (∀ t, ∃ mt, runAccs am (g.opn t) = some mt ∧ ∀ x ∈ locs (g.opn t), mt x = g.fs.mem x)
  /-- a thread with a non-empty open log may touch data and is pre-commit -/
  open_ok : ∀ t, g.opn t ≠ [] →
    ((g.fs.ps.th t).validated = true ∨ (g.fs.ps.th t).owner = true) ∧ g.fs.shrunk t = false
  /-- what an open log touches is guarded by a lock of its thread (or the thread owns the table) -/
  open_guard : ∀ t x, x ∈ locs (g.opn t) →
    g.fs.ps.holder (guard G g.fs.ps x) = some t ∨ (g.fs.ps.th t).owner = true
  /-- a post-commit thread still holds a lock and has the episode of its current hold in `E` -/
  shr : ∀ t, g.fs.shrunk t = true → (g.fs.ps.th t).held ≠ [] ∧ ∃ p ∈ g.E, p.tid = t ∧ p.hold = g.hold t
  /-- episodes belong to past holds, or to the current hold of a post-commit thread -/
  keys : ∀ p ∈ g.E, p.hold < g.hold p.tid ∨ (p.hold = g.hold p.tid ∧ g.fs.shrunk p.tid = true)
  /-- the episodes of one thread are in the order of its holds (in particular keys are distinct) -/
  sorted : g.E.Pairwise fun p q => p.tid = q.tid → p.hold < q.hold
  /-- nothing committed after the episode of a post-commit thread touches what that thread still guards -/
  later : ∀ t, g.fs.shrunk t = true → ∀ E1 p E2, g.E = E1 ++ p :: E2 → p.tid = t → p.hold = g.hold t →
    ∀ q ∈ E2, ∀ x ∈ locs q.accs, g.fs.ps.holder (guard G g.fs.ps x) ≠ some t

/-! ### list lemmas -/

@[simp] theorem flat_nil : flat ([] : List (Ep V)) = [] := rfl
@[simp] theorem flat_cons (p : Ep V) (E : List (Ep V)) : flat (p :: E) = p.accs ++ flat E := by simp [flat]
@[simp] theorem flat_append (A B : List (Ep V)) : flat (A ++ B) = flat A ++ flat B := by simp [flat]

theorem mem_locs_flat (E : List (Ep V)) (x : Nat) : x ∈ locs (flat E) ↔ ∃ q ∈ E, x ∈ locs q.accs := by
  induction E with
  | nil => simp
  | cons p E ih => simp [ih]

theorem snoc_eq_split {α : Type} (E E1 E2 : List α) (n p : α) (h : E ++ [n] = E1 ++ p :: E2) :
    (E2 = [] ∧ E1 = E ∧ p = n) ∨ ∃ E2', E2 = E2' ++ [n] ∧ E = E1 ++ p :: E2' := by
  rcases List.eq_nil_or_concat E2 with rfl | ⟨E2', q, hq⟩
  all_goals try (rw [List.concat_eq_append] at hq; subst hq)
  · left
    have := List.append_inj' h (by simp)
    exact ⟨rfl, this.1.symm, by simpa using this.2.symm⟩
  · right
    have h' : E ++ [n] = (E1 ++ p :: E2') ++ [q] := by simp [h]
    have := List.append_inj' h' (by simp)
    have e : n = q := by simpa using this.2
    subst e
    exact ⟨E2', rfl, this.1⟩

/-- the function applied by `addTo` -/
def addF (t : Tid) (k : Nat) (a : Acc V) (p : Ep V) : Ep V :=
  if p.tid = t ∧ p.hold = k then { p with accs := p.accs ++ [a] } else p

theorem addTo_eq (t : Tid) (k : Nat) (a : Acc V) (E : List (Ep V)) : addTo t k a E = E.map (addF t k a) := rfl

@[simp] theorem addF_tid (t : Tid) (k : Nat) (a : Acc V) (p : Ep V) : (addF t k a p).tid = p.tid := by
  simp only [addF]; split <;> rfl
@[simp] theorem addF_hold (t : Tid) (k : Nat) (a : Acc V) (p : Ep V) : (addF t k a p).hold = p.hold := by
  simp only [addF]; split <;> rfl

theorem addF_other (t : Tid) (k : Nat) (a : Acc V) (p : Ep V) (h : ¬ (p.tid = t ∧ p.hold = k)) : addF t k a p = p := by
  simp [addF, h]

theorem addF_locs (t : Tid) (k : Nat) (a : Acc V) (p : Ep V) (x : Nat) (h : x ∈ locs (addF t k a p).accs) :
    x ∈ locs p.accs ∨ (p.tid = t ∧ p.hold = k ∧ x = a.loc) := by
  simp only [addF] at h
  split at h
  next hk =>
    simp only [locs_append, List.mem_append, locs_cons, locs_nil, List.mem_singleton] at h
    rcases h with h | h
    · exact Or.inl h
    · exact Or.inr ⟨hk.1, hk.2, h⟩
  · exact Or.inl h

/-- `addTo` extends exactly the episode with the given key -/
theorem addTo_split (t : Tid) (k : Nat) (a : Acc V) (E1 E2 : List (Ep V)) (p : Ep V)
    (hn : (E1 ++ p :: E2).Pairwise fun p q => ¬ sameKey p q) (ht : p.tid = t) (hk : p.hold = k) :
    addTo t k a (E1 ++ p :: E2) = E1 ++ { p with accs := p.accs ++ [a] } :: E2 := by
  rw [addTo_eq, List.map_append, List.map_cons]
  rw [List.pairwise_append] at hn
  obtain ⟨-, h2, h3⟩ := hn
  rw [List.pairwise_cons] at h2
  have e1 : E1.map (addF t k a) = E1 := by
    conv => rhs; rw [← List.map_id E1]
    apply List.map_congr_left
    intro q hq
    apply addF_other
    intro hh
    exact h3 q hq p (List.mem_cons_self ..) ⟨hh.1.trans ht.symm, hh.2.trans hk.symm⟩
  have e2 : E2.map (addF t k a) = E2 := by
    conv => rhs; rw [← List.map_id E2]
    apply List.map_congr_left
    intro q hq
    apply addF_other
    intro hh
    exact h2.1 q hq ⟨ht.trans hh.1.symm, hk.trans hh.2.symm⟩
  rw [e1, e2]
  simp [addF, ht, hk]

/-! ### consequences of the invariant -/

section
variable [DecidableEq V] {G : Nat → Nat → Nat} {mem0 : Nat → V} {g : GS V}

theorem FInv.nodup (h : FInv G mem0 g) : g.E.Pairwise fun p q => ¬ sameKey p q := by
  refine h.sorted.imp ?_
  intro p q hpq hk
  have := hpq hk.1
  rw [hk.2] at this; omega

/-- whoever holds the guard of a location touched by an open log is the thread of that log -/
theorem FInv.open_excl (h : FInv G mem0 g) {t u : Tid} {x : Nat} (hx : x ∈ locs (g.opn u))
    (ht : g.fs.ps.holder (guard G g.fs.ps x) = some t) : t = u := by
  rcases h.open_guard u x hx with h1 | h1
  · rw [h1] at ht; exact (Option.some.inj ht).symm
  · have hr := (h.pinv.held_range _ _ ht).2
    have := (h.pinv.owner_all u h1).1 _ hr
    simp only [guard] at ht hr this
    rw [this] at ht; exact (Option.some.inj ht).symm

theorem FInv.open_nil_of_shrunk (h : FInv G mem0 g) {t : Tid} (hs : g.fs.shrunk t = true) : g.opn t = [] := by
  cases ho : g.opn t with
  | nil => rfl
  | cons a L =>
    have := (h.open_ok t (by rw [ho]; simp)).2
    rw [hs] at this; cases this

/-- while somebody owns the table, every other open log is empty -/
theorem FInv.open_nil_of_owner (h : FInv G mem0 g) {z u : Tid} (hz : (g.fs.ps.th z).owner = true) (hu : u ≠ z) :
    g.opn u = [] := by
  cases ho : g.opn u with
  | nil => rfl
  | cons a L =>
    rcases (h.open_ok u (by rw [ho]; simp)).1 with h1 | h1
    · exact (h.pinv.owner_not_val hz h1).elim
    · exact absurd (h.pinv.owner_unique h1 hz) hu

/-- a thread that may touch data holds a lock -/
theorem may_touch_held {p : PS} (hp : PInv p) {t : Tid}
    (h : (p.th t).validated = true ∨ (p.th t).owner = true) : (p.th t).held ≠ [] := by
  rcases h with h | h
  · exact (hp.val t h).1
  · intro hc
    have := hp.owner_held h
    rw [hc] at this; cases this

end

end Cuckoo.Fine
