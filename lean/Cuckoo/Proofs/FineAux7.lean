import Cuckoo.Proofs.FineAux6
/-!
The reduction invariant holds along every accepted fine-grained trace.
-/
namespace Cuckoo.Fine
open Cuckoo.Proto

variable {V : Type} [DecidableEq V] {G : Nat → Nat → Nat} {mem0 : Nat → V} {g : GS V}

theorem ginit_inv (G : Nat → Nat → Nat) (hp n : Nat) (hn : 0 < n) (mem0 : Nat → V) :
    FInv G mem0 (ginit hp n mem0) := by
  constructor
  · exact init_inv hp n hn
  · exact ⟨mem0, rfl, fun _ _ => rfl, fun _ => ⟨mem0, rfl, fun _ hx => by cases hx⟩⟩
  · intro t hne; exact absurd rfl hne
  · intro t x hx; cases hx
  · intro t hs; cases hs
  · intro p hp; cases hp
  · exact List.Pairwise.nil
  · intro t hs; cases hs

theorem gstep_inv (h : FInv G mem0 g) (e : FEv V) (g' : GS V) (hst : gstep G g e = some g') : FInv G mem0 g' := by
  cases e with
  | data t a =>
    simp only [gstep] at hst
    cases hacc : accept G g.fs (.data t a) with
    | none => rw [hacc] at hst; cases hst
    | some s' =>
      rw [hacc] at hst; simp only [Option.some.injEq] at hst; subst hst
      obtain ⟨hc, ha, hs'⟩ := accept_data_spec _ _ _ _ hacc
      rw [hs']
      by_cases hsh : g.fs.shrunk t = true
      · simp only [ghost, hsh, if_true]; exact finv_data_post h t a _ hsh hc ha
      · have hsh' : g.fs.shrunk t = false := by simpa using hsh
        simp only [ghost, hsh']; exact finv_data_pre h t a _ hsh' hc ha
  | sync ev =>
    simp only [gstep, accept, syncStep] at hst
    cases hp : Proto.accept g.fs.ps ev with
    | none => rw [hp] at hst; simp at hst
    | some p' =>
      rw [hp] at hst
      cases ev with
      | acquire t l =>
        simp only at hst
        by_cases hsh : g.fs.shrunk t = true
        · simp [hsh] at hst
        · have hsh' : g.fs.shrunk t = false := by simpa using hsh
          simp only [hsh', Bool.false_eq_true, if_false, Option.some.injEq] at hst
          subst hst
          exact finv_acquire h t l p' hsh' hp
      | append t n =>
        simp only at hst
        by_cases hsh : g.fs.shrunk t = true
        · simp [hsh] at hst
        · have hsh' : g.fs.shrunk t = false := by simpa using hsh
          simp only [hsh', Bool.false_eq_true, if_false, Option.some.injEq] at hst
          subst hst
          exact finv_append h t n p' hsh' hp
      | release t l =>
        simp only [Option.some.injEq] at hst
        subst hst
        have S1 : ∀ u, u ≠ t → setB g.fs.shrunk t (!(p'.th t).held.isEmpty) u = g.fs.shrunk u := by
          intro u hu; simp [setB, hu]
        have S2 : setB g.fs.shrunk t (!(p'.th t).held.isEmpty) t = true ↔ (p'.th t).held ≠ [] := by
          simp [setB]
        have F1 : ∀ u, u ≠ t → (if (p'.th t).held.isEmpty = true then setN g.hold t (g.hold t + 1) else g.hold) u
            = g.hold u := by
          intro u hu; split <;> simp [setN, hu]
        have F3 : (p'.th t).held ≠ [] → (if (p'.th t).held.isEmpty = true then setN g.hold t (g.hold t + 1) else g.hold) t
            = g.hold t := by
          intro hne; simp [hne]
        have F4 : (p'.th t).held = [] → (if (p'.th t).held.isEmpty = true then setN g.hold t (g.hold t + 1) else g.hold) t
            = g.hold t + 1 := by
          intro he; simp [he, setN]
        by_cases hsh : g.fs.shrunk t = true
        · simp only [ghost, hsh, if_true]
          exact finv_release_later h t l p' hp hsh _ _ S1 S2 F1 F3 F4
        · have hsh' : g.fs.shrunk t = false := by simpa using hsh
          simp only [ghost, hsh', Bool.false_eq_true, if_false]
          exact finv_release_commit h t l p' hp hsh' _ _ S1 S2 F1 F3 F4
      | rcLoad t => cases hst; exact finv_quiet h _ p' rfl hp
      | hpLoad t => cases hst; exact finv_quiet h _ p' rfl hp
      | genLoad t => cases hst; exact finv_quiet h _ p' rfl hp
      | access t st => cases hst; exact finv_quiet h _ p' rfl hp
      | allBegin t => cases hst; exact finv_quiet h _ p' rfl hp
      | allEnd t => cases hst; exact finv_quiet h _ p' rfl hp
      | storeHp t v => cases hst; exact finv_quiet h _ p' rfl hp
      | bumpRc t => cases hst; exact finv_quiet h _ p' rfl hp
      | opEnd t k => cases hst; exact finv_quiet h _ p' rfl hp
      | sectionEnd t => cases hst; exact finv_quiet h _ p' rfl hp

theorem grun_inv (tr : List (FEv V)) : ∀ (g g' : GS V), FInv G mem0 g → grun G g tr = some g' → FInv G mem0 g' := by
  induction tr with
  | nil => intro g g' h hr; simp only [grun] at hr; cases hr; exact h
  | cons e es ih =>
    intro g g' h hr
    simp only [grun] at hr
    split at hr
    next g1 h1 => exact ih g1 g' (gstep_inv h e g1 h1) hr
    · cases hr

/-- the ghost components never block: the ghost run succeeds exactly when the plain run does, with the same fine state -/
theorem grun_fs (tr : List (FEv V)) : ∀ (g : GS V) (s' : FS V), run G g.fs tr = some s' →
    ∃ g', grun G g tr = some g' ∧ g'.fs = s' := by
  induction tr with
  | nil => intro g s' h; simp only [run] at h; cases h; exact ⟨g, rfl, rfl⟩
  | cons e es ih =>
    intro g s' h
    simp only [run] at h
    split at h
    next s1 h1 =>
      have hfs : (ghost g s1 e).fs = s1 := by
        cases e with
        | data t a => simp only [ghost]; split <;> rfl
        | sync ev => cases ev <;> rfl
      obtain ⟨g', hg', hfs'⟩ := ih (ghost g s1 e) s' (by rw [hfs]; exact h)
      refine ⟨g', ?_, hfs'⟩
      simp only [grun, gstep, h1]
      exact hg'
    · cases h

theorem grun_run (tr : List (FEv V)) : ∀ (g g' : GS V), grun G g tr = some g' → run G g.fs tr = some g'.fs := by
  induction tr with
  | nil => intro g g' h; simp only [grun] at h; cases h; rfl
  | cons e es ih =>
    intro g g' h
    simp only [grun, gstep] at h
    cases h1 : accept G g.fs e with
    | none => rw [h1] at h; simp at h
    | some s1 =>
      rw [h1] at h; simp only at h
      have hfs : (ghost g s1 e).fs = s1 := by
        cases e with
        | data t a => simp only [ghost]; split <;> rfl
        | sync ev => cases ev <;> rfl
      have := ih _ _ h
      rw [hfs] at this
      simp only [run, h1]; exact this

end Cuckoo.Fine
