import Cuckoo.Model.CFile
/-!
# Helper lemmas about the byte-level file format (`Model/CFile.lean`), used by `Props/C14.lean`
-/
namespace Cuckoo.CFile

theorem encode_length (w n : Nat) : (encode w n).length = w := by
  induction w generalizing n with
  | zero => rfl
  | succ w ih => simp only [encode, List.length_cons, ih]

theorem writePairs_length (kw vw : Nat) (ps : List (Nat × Nat)) :
    (writePairs kw vw ps).length = ps.length * (kw + vw) := by
  induction ps with
  | nil => simp [writePairs]
  | cons p rest ih =>
    obtain ⟨k, v⟩ := p
    simp only [writePairs, List.length_append, encode_length, ih, List.length_cons, Nat.succ_mul]
    omega

theorem decode_encode (w n : Nat) (h : n < 256 ^ w) : decode (encode w n) = n := by
  induction w generalizing n with
  | zero =>
    simp only [Nat.pow_zero] at h
    simp only [encode, decode]
    omega
  | succ w ih =>
    have h2 : n / 256 < 256 ^ w := by
      apply Nat.div_lt_of_lt_mul
      rw [Nat.pow_succ, Nat.mul_comm] at h
      exact h
    simp only [encode, decode, ih _ h2]
    omega

theorem take?_append (n : Nat) (a b : List Byte) (h : a.length = n) : take? n (a ++ b) = some (a, b) := by
  unfold take?
  rw [if_pos (by rw [List.length_append]; omega), List.take_left' h, List.drop_left' h]

theorem take?_short (n : Nat) (bs : List Byte) (h : bs.length < n) : take? n bs = none := by
  unfold take?
  rw [if_neg (by omega)]

theorem take_append_ge (a b : List Byte) (n : Nat) (h : a.length ≤ n) :
    (a ++ b).take n = a ++ b.take (n - a.length) := by
  rw [List.take_append, List.take_of_length_le h]

theorem readPairs_writePairs (kw vw : Nat) (ps : List (Nat × Nat)) (rest : List Byte)
    (hfit : ∀ p ∈ ps, p.1 < 256 ^ kw ∧ p.2 < 256 ^ vw) :
    readPairs kw vw ps.length (writePairs kw vw ps ++ rest) = some ps := by
  induction ps with
  | nil => rfl
  | cons p tl ih =>
    obtain ⟨k, v⟩ := p
    have hp := hfit (k, v) (List.mem_cons_self ..)
    have ih' := ih (fun q hq => hfit q (List.mem_cons_of_mem _ hq))
    simp only [writePairs, List.length_cons, readPairs, List.append_assoc]
    rw [take?_append kw _ _ (encode_length kw k)]
    simp only []
    rw [take?_append vw _ _ (encode_length vw v)]
    simp only [ih', decode_encode _ _ hp.1, decode_encode _ _ hp.2]

theorem readPairs_truncated (kw vw : Nat) (ps : List (Nat × Nat)) (j : Nat)
    (hj : j < (writePairs kw vw ps).length) :
    readPairs kw vw ps.length ((writePairs kw vw ps).take j) = none := by
  induction ps generalizing j with
  | nil => simp [writePairs] at hj
  | cons p tl ih =>
    obtain ⟨k, v⟩ := p
    simp only [writePairs, List.length_append, encode_length] at hj
    simp only [writePairs, List.length_cons, readPairs, List.append_assoc]
    by_cases h1 : j < kw
    · rw [take?_short kw _ (by rw [List.length_take]; omega)]
    · rw [take_append_ge _ _ _ (by rw [encode_length]; omega), encode_length,
        take?_append kw _ _ (encode_length kw k)]
      simp only []
      by_cases h2 : j - kw < vw
      · rw [take?_short vw _ (by rw [List.length_take]; omega)]
      · rw [take_append_ge _ _ _ (by rw [encode_length]; omega), encode_length,
          take?_append vw _ _ (encode_length vw v)]
        simp only []
        rw [ih (j - kw - vw) (by omega)]

end Cuckoo.CFile
