import Cuckoo.Model.Fine
/-!
Serial memory semantics `runAccs`: append, frame (unwritten locations), congruence, and the commutation lemma that
lets a late access be inserted into the middle of the serial execution.
-/
namespace Cuckoo.Fine
open Cuckoo.Proto

variable {V : Type}

@[simp] theorem setM_same (m : Nat → V) (x : Nat) (v : V) : setM m x v x = v := by simp [setM]
theorem setM_other (m : Nat → V) (x y : Nat) (v : V) (h : y ≠ x) : setM m x v y = m y := by simp [setM, h]

theorem setM_comm (m : Nat → V) (x y : Nat) (v w : V) (h : x ≠ y) :
    setM (setM m x v) y w = setM (setM m y w) x v := by
  funext z
  simp only [setM]
  by_cases h1 : z = y
  · subst h1; simp [Ne.symm h]
  · simp [h1]

@[simp] theorem locs_nil : locs ([] : List (Acc V)) = [] := rfl
@[simp] theorem locs_cons (a : Acc V) (L : List (Acc V)) : locs (a :: L) = a.loc :: locs L := rfl
@[simp] theorem locs_append (A B : List (Acc V)) : locs (A ++ B) = locs A ++ locs B := by simp [locs]

theorem wlocs_sub (L : List (Acc V)) (x : Nat) (h : x ∈ wlocs L) : x ∈ locs L := by
  simp only [wlocs, locs, List.mem_map, List.mem_filter] at *
  obtain ⟨a, ⟨ha, -⟩, e⟩ := h
  exact ⟨a, ha, e⟩

variable [DecidableEq V]

@[simp] theorem runAccs_nil (m : Nat → V) : runAccs m [] = some m := rfl

theorem runAccs_cons (m : Nat → V) (a : Acc V) (L : List (Acc V)) :
    runAccs m (a :: L) = (applyAcc m a).bind fun m' => runAccs m' L := rfl

theorem runAccs_append (A B : List (Acc V)) : ∀ (m : Nat → V),
    runAccs m (A ++ B) = (runAccs m A).bind fun m' => runAccs m' B := by
  induction A with
  | nil => intro m; simp
  | cons a A ih =>
    intro m
    simp only [List.cons_append, runAccs_cons]
    cases h : applyAcc m a with
    | none => simp
    | some m1 => simp [ih]

theorem runAccs_single (m : Nat → V) (a : Acc V) : runAccs m [a] = applyAcc m a := by
  simp only [runAccs_cons]
  cases applyAcc m a <;> simp

/-- an access changes the memory at most at its own location -/
theorem applyAcc_other (m m' : Nat → V) (a : Acc V) (h : applyAcc m a = some m') (x : Nat) (hx : x ≠ a.loc) :
    m' x = m x := by
  cases a with
  | read y v =>
    simp only [applyAcc] at h
    split at h
    · cases h; rfl
    · cases h
  | write y v =>
    simp only [applyAcc] at h
    cases h
    exact setM_other _ _ _ _ hx

theorem applyAcc_read_unchanged (m m' : Nat → V) (y : Nat) (v : V) (h : applyAcc m (.read y v) = some m') : m' = m := by
  simp only [applyAcc] at h
  split at h
  · cases h; rfl
  · cases h

/-- a location that is not written keeps its value -/
theorem runAccs_unwritten (L : List (Acc V)) : ∀ (m m' : Nat → V), runAccs m L = some m' →
    ∀ x, x ∉ wlocs L → m' x = m x := by
  induction L with
  | nil => intro m m' h x _; simp at h; rw [h]
  | cons a L ih =>
    intro m m' h x hx
    rw [runAccs_cons] at h
    cases h1 : applyAcc m a with
    | none => rw [h1] at h; simp at h
    | some m1 =>
      rw [h1] at h; simp only [Option.bind_some] at h
      have hx' : x ∉ wlocs L := by
        intro hh; apply hx
        simp only [wlocs, List.mem_map, List.mem_filter] at *
        obtain ⟨b, ⟨hb, hw⟩, e⟩ := hh
        exact ⟨b, ⟨List.mem_cons_of_mem _ hb, hw⟩, e⟩
      rw [ih m1 m' h x hx']
      cases a with
      | read y v => rw [applyAcc_read_unchanged m m1 y v h1]
      | write y v =>
        apply applyAcc_other m m1 _ h1
        intro e
        apply hx
        simp only [wlocs, List.mem_map, List.mem_filter]
        exact ⟨.write y v, ⟨List.mem_cons_self .., rfl⟩, e.symm⟩

theorem runAccs_untouched (L : List (Acc V)) (m m' : Nat → V) (h : runAccs m L = some m')
    (x : Nat) (hx : x ∉ locs L) : m' x = m x :=
  runAccs_unwritten L m m' h x (fun hh => hx (wlocs_sub L x hh))

/-- running the same accesses on two memories that agree on a set `S` containing every touched location -/
theorem runAccs_congr (S : Nat → Prop) (L : List (Acc V)) : ∀ (m m' r : Nat → V),
    (∀ x ∈ locs L, S x) → (∀ x, S x → m x = m' x) → runAccs m L = some r →
    ∃ r', runAccs m' L = some r' ∧ ∀ x, S x → r x = r' x := by
  induction L with
  | nil => intro m m' r _ hag h; simp at h; subst h; exact ⟨m', rfl, hag⟩
  | cons a L ih =>
    intro m m' r hS hag h
    rw [runAccs_cons] at h
    have hSa : S a.loc := hS _ (by simp)
    have hSL : ∀ x ∈ locs L, S x := fun x hx => hS x (by simp [hx])
    cases a with
    | read y v =>
      simp only [applyAcc] at h
      split at h
      next hv =>
        simp only [Option.bind_some] at h
        obtain ⟨r', hr', hag'⟩ := ih m m' r hSL hag h
        refine ⟨r', ?_, hag'⟩
        rw [runAccs_cons]
        have : m' y = v := by rw [← hag y hSa]; exact hv
        simp [applyAcc, this, hr']
      · simp at h
    | write y v =>
      simp only [applyAcc, Option.bind_some] at h
      have hag1 : ∀ x, S x → setM m y v x = setM m' y v x := by
        intro x hx
        simp only [setM]
        split
        · rfl
        · exact hag x hx
      obtain ⟨r', hr', hag'⟩ := ih _ _ r hSL hag1 h
      refine ⟨r', ?_, hag'⟩
      rw [runAccs_cons]
      simp [applyAcc, hr']

/-- two accesses of different locations commute -/
theorem applyAcc_swap (a b : Acc V) (h : a.loc ≠ b.loc) (m : Nat → V) :
    ((applyAcc m a).bind fun m' => applyAcc m' b) = (applyAcc m b).bind fun m' => applyAcc m' a := by
  cases a with
  | read x v =>
    cases b with
    | read y w =>
      simp only [applyAcc]
      by_cases h1 : m x = v <;> by_cases h2 : m y = w <;> simp [h1, h2]
    | write y w =>
      have hxy : x ≠ y := h
      simp only [applyAcc, Option.bind_some, setM_other m y x w hxy]
      by_cases h1 : m x = v <;> simp [h1]
  | write x v =>
    cases b with
    | read y w =>
      have hxy : y ≠ x := fun e => h e.symm
      simp only [applyAcc, Option.bind_some, setM_other m x y v hxy]
      by_cases h1 : m y = w <;> simp [h1]
    | write y w =>
      have hxy : x ≠ y := h
      simp only [applyAcc, Option.bind_some]
      rw [setM_comm m x y v w hxy]

/-- an access commutes with a list of accesses that do not touch its location -/
theorem applyAcc_comm (a : Acc V) (B : List (Acc V)) (hB : a.loc ∉ locs B) : ∀ (m : Nat → V),
    ((applyAcc m a).bind fun m' => runAccs m' B) = (runAccs m B).bind fun r => applyAcc r a := by
  induction B with
  | nil => intro m; simp
  | cons b B ih =>
    intro m
    simp only [locs_cons, List.mem_cons, not_or] at hB
    obtain ⟨hne, hB'⟩ := hB
    have ih' := ih hB'
    have e1 : ((applyAcc m a).bind fun m' => runAccs m' (b :: B)) =
        ((applyAcc m a).bind fun m' => applyAcc m' b).bind fun m2 => runAccs m2 B := by
      rw [Option.bind_assoc]; rfl
    have e2 : ((runAccs m (b :: B)).bind fun r => applyAcc r a) =
        (applyAcc m b).bind fun m1 => (runAccs m1 B).bind fun r => applyAcc r a := by
      rw [runAccs_cons, Option.bind_assoc]
    rw [e1, e2, applyAcc_swap a b hne m, Option.bind_assoc]
    congr 1
    funext m1
    exact ih' m1

/-- insertion of an access into the middle of a serial run, before a part that does not touch its location -/
theorem runAccs_insert (P B : List (Acc V)) (a : Acc V) (hB : a.loc ∉ locs B) (m : Nat → V) :
    runAccs m (P ++ [a] ++ B) = (runAccs m (P ++ B)).bind fun r => applyAcc r a := by
  rw [List.append_assoc, runAccs_append, runAccs_append P B]
  cases runAccs m P with
  | none => simp
  | some m1 =>
    simp only [Option.bind_some, List.singleton_append, runAccs_cons]
    exact applyAcc_comm a B hB m1

end Cuckoo.Fine
