import Cuckoo.Props.C01Conc
import Cuckoo.Proofs.LinAux
/-!
# The checker's specification `applySpec` is the specification the refinement theorems mention

* `callOf` : the `C01Conc.Call` a harness call is; `Projects` : what the harness observes of a `Conc.Resp`;
* per operation: `applySpec m op r = some m'` iff `C01Conc.specOf m (callOf op)` allows a response that projects to `r`
  and leads to the map `m'` (the very same association list);
* sections: `secRun` is a run of `C02.specRun` in locked mode.
-/
set_option linter.unusedSimpArgs false
namespace Cuckoo.Lin
open Cuckoo Cuckoo.Model Cuckoo.Spec Cuckoo.Model.Conc Cuckoo.Props

def LErr.toErr : LErr → Err
  | .lftl => .loadFactorTooLow
  | .maxhp => .maxHpExceeded
  | .badalloc => .badAlloc

/-- the call of the model (`Props/C01Conc.lean`) a harness call is; a section is not a single `Call` (see `secRun_is_specRun`) -/
def callOf : LOp → Option (C01Conc.Call Nat Nat)
  | .find k => some (.lookup false k (fun v => .ret v false))
  | .update k v => some (.lookup false k (fun _ => .ret v false))
  | .erase k => some (.lookup true k (fun v => .ret v true))
  | .updatefn k d => some (.lookup false k (fun v => .ret (v + d) false))
  | .erasefn k d => some (.lookup true k (fun v => .ret v (v == d)))
  | .insert k v => some (.uprase k v false false (fun _ v => .ret v false))
  | .ioa k v => some (.uprase k v false false (fun _ _ => .ret v false))
  | .upsert k d => some (.uprase k d false false (fun _ v => .ret (v + d) false))
  | .rehash n => some (.rehash n)
  | .reserve n => some (.reserve n)
  | .clear => some .clear
  | .sec _ => none

/-- what the harness records of the response `resp` of the model:
`find` reports the value the functor saw; the boolean operations their flag, or the permitted failure;
`rehash`/`reserve`/`clear` answer `ok` (the model's `Resp.unit` does not say whether an explicit `rehash`/`reserve`
failed, so both `ok` and a failure are projections of it). -/
def Projects (op : LOp) (resp : Resp Nat) (r : LRes) : Prop :=
  match op with
  | .find _ => (resp = .bool (.ok false) [] ∧ r = .val none) ∨
      ∃ v, resp = .bool (.ok true) [⟨none, v⟩] ∧ r = .val (some v)
  | .rehash _ | .reserve _ => resp = .unit ∧ (r = .ok ∨ ∃ e, r = .fail e)
  | .clear => resp = .unit ∧ r = .ok
  | .sec _ => False
  | _ => (∃ b calls, resp = .bool (.ok b) calls ∧ r = .bool b) ∨ (∃ e, resp = .bool (.err e.toErr) [] ∧ r = .fail e)

/-- the operation of `Props/C02.lean` a call inside a section is (the read-only `find` / `size` / `other` are not
operations of `C02.Op`) -/
def ltToOp : LtOp → Option (C02.Op Nat Nat)
  | .insert k v => some (.ltInsert k v)
  | .erase k => some (.ltErase k)
  | .clear => some .clear
  | .rehash n => some (.rehash n)
  | .reserve n => some (.reserve n)
  | .find _ | .size | .other => none

/-- what the harness records of the observation `o` of a locked-mode call -/
def ProjLt (op : LtOp) (o : C02.Obs Nat) (r : LtRes) : Prop :=
  match op with
  | .insert _ _ => (∃ b, o = .ins (.ok b) ∧ r = .bool b) ∨ ∃ e, o = .ins (.err e.toErr) ∧ r = .fail e
  | .erase _ => ∃ n, o = .count n ∧ r = .bool (n == 1)
  | .clear => o = .unit (.ok ()) ∧ r = .ok
  | .rehash _ | .reserve _ => (∃ b, o = .ins (.ok b) ∧ r = .ok) ∨ ∃ e, o = .ins (.err e.toErr) ∧ r = .fail e
  | _ => False

/-- the executed part of a section `body` answering `rs`, as operations of `C02` with their observations:
a call that throws is the last one executed -/
inductive SecObs : List LtOp → List LtRes → List (C02.Op Nat Nat) → List (C02.Obs Nat) → Prop
  | done : SecObs [] [] [] []
  | abort {op rest cop o e} : ltToOp op = some cop → ProjLt op o (.fail e) → SecObs (op :: rest) [.fail e] [cop] [o]
  | step {op rest cop o r rs ops obs} : ltToOp op = some cop → ProjLt op o r → (∀ e, r ≠ .fail e) →
      SecObs rest rs ops obs → SecObs (op :: rest) (r :: rs) (cop :: ops) (o :: obs)

namespace Aux

theorem resizeErr_toErr (e : LErr) : ResizeErr e.toErr := by
  cases e <;> simp [ResizeErr, LErr.toErr]

theorem spec_find (m m' : AMap Nat Nat) (k : Nat) (r : LRes) :
    applySpec m (.find k) r = some m' ↔
      ∃ resp, C01Conc.specOf m (.lookup false k (fun v => .ret v false)) resp m' ∧ Projects (.find k) resp r := by
  cases hl : m.lookup k <;> cases r <;>
    simp [applySpec, C01Conc.specOf, Projects, hl, and_assoc, or_and_right, exists_or]
  all_goals grind

theorem spec_update (m m' : AMap Nat Nat) (k v : Nat) (r : LRes) :
    applySpec m (.update k v) r = some m' ↔
      ∃ resp, C01Conc.specOf m (.lookup false k (fun _ => .ret v false)) resp m' ∧ Projects (.update k v) resp r := by
  cases hl : m.lookup k <;> cases r <;>
    simp [applySpec, C01Conc.specOf, Projects, hl, expect, and_assoc, or_and_right, exists_or]
  all_goals grind

theorem spec_erase (m m' : AMap Nat Nat) (k : Nat) (r : LRes) :
    applySpec m (.erase k) r = some m' ↔
      ∃ resp, C01Conc.specOf m (.lookup true k (fun v => .ret v true)) resp m' ∧ Projects (.erase k) resp r := by
  cases hl : m.lookup k <;> cases r <;>
    simp [applySpec, C01Conc.specOf, Projects, hl, expect, and_assoc, or_and_right, exists_or]
  all_goals grind

theorem spec_updatefn (m m' : AMap Nat Nat) (k d : Nat) (r : LRes) :
    applySpec m (.updatefn k d) r = some m' ↔
      ∃ resp, C01Conc.specOf m (.lookup false k (fun v => .ret (v + d) false)) resp m' ∧
        Projects (.updatefn k d) resp r := by
  cases hl : m.lookup k <;> cases r <;>
    simp [applySpec, C01Conc.specOf, Projects, hl, expect, and_assoc, or_and_right, exists_or]
  all_goals grind

theorem spec_erasefn (m m' : AMap Nat Nat) (k d : Nat) (r : LRes) :
    applySpec m (.erasefn k d) r = some m' ↔
      ∃ resp, C01Conc.specOf m (.lookup true k (fun v => .ret v (v == d))) resp m' ∧
        Projects (.erasefn k d) resp r := by
  cases hl : m.lookup k <;> cases r <;>
    simp [applySpec, C01Conc.specOf, Projects, hl, expect, and_assoc, or_and_right, exists_or]
  all_goals grind

theorem spec_insert (m m' : AMap Nat Nat) (k v : Nat) (r : LRes) :
    applySpec m (.insert k v) r = some m' ↔
      ∃ resp, C01Conc.specOf m (.uprase k v false false (fun _ v => .ret v false)) resp m' ∧
        Projects (.insert k v) resp r := by
  cases hl : m.lookup k <;> cases r <;>
    simp [applySpec, C01Conc.specOf, Projects, hl, expect, C02.upraseSpec, and_assoc, or_and_right, exists_or]
  all_goals grind [resizeErr_toErr]

theorem spec_ioa (m m' : AMap Nat Nat) (k v : Nat) (r : LRes) :
    applySpec m (.ioa k v) r = some m' ↔
      ∃ resp, C01Conc.specOf m (.uprase k v false false (fun _ _ => .ret v false)) resp m' ∧
        Projects (.ioa k v) resp r := by
  cases hl : m.lookup k <;> cases r <;>
    simp [applySpec, C01Conc.specOf, Projects, hl, expect, C02.upraseSpec, and_assoc, or_and_right, exists_or]
  all_goals grind [resizeErr_toErr]

theorem spec_upsert (m m' : AMap Nat Nat) (k d : Nat) (r : LRes) :
    applySpec m (.upsert k d) r = some m' ↔
      ∃ resp, C01Conc.specOf m (.uprase k d false false (fun _ v => .ret (v + d) false)) resp m' ∧
        Projects (.upsert k d) resp r := by
  cases hl : m.lookup k <;> cases r <;>
    simp [applySpec, C01Conc.specOf, Projects, hl, expect, C02.upraseSpec, and_assoc, or_and_right, exists_or]
  all_goals grind [resizeErr_toErr]

theorem spec_rehash (m m' : AMap Nat Nat) (n : Nat) (r : LRes) :
    applySpec m (.rehash n) r = some m' ↔
      ∃ resp, C01Conc.specOf m (.rehash n) resp m' ∧ Projects (.rehash n) resp r := by
  cases r <;> simp [applySpec, C01Conc.specOf, Projects, and_assoc]
  all_goals grind

theorem spec_reserve (m m' : AMap Nat Nat) (n : Nat) (r : LRes) :
    applySpec m (.reserve n) r = some m' ↔
      ∃ resp, C01Conc.specOf m (.reserve n) resp m' ∧ Projects (.reserve n) resp r := by
  cases r <;> simp [applySpec, C01Conc.specOf, Projects, and_assoc]
  all_goals grind

theorem spec_clear (m m' : AMap Nat Nat) (r : LRes) :
    applySpec m .clear r = some m' ↔
      ∃ resp, C01Conc.specOf m (.clear : C01Conc.Call Nat Nat) resp m' ∧ Projects .clear resp r := by
  cases r <;> simp [applySpec, C01Conc.specOf, Projects, and_assoc]
  all_goals grind

theorem spec_all (m m' : AMap Nat Nat) (op : LOp) (call : C01Conc.Call Nat Nat) (r : LRes) (hc : callOf op = some call) :
    applySpec m op r = some m' ↔ ∃ resp, C01Conc.specOf m call resp m' ∧ Projects op resp r := by
  cases op <;> simp only [callOf, Option.some.injEq, reduceCtorEq] at hc <;> subst hc
  · exact spec_find ..
  · exact spec_insert ..
  · exact spec_ioa ..
  · exact spec_update ..
  · exact spec_erase ..
  · exact spec_upsert ..
  · exact spec_updatefn ..
  · exact spec_erasefn ..
  · exact spec_rehash ..
  · exact spec_reserve ..
  · exact spec_clear ..

theorem linRun_runSpec (evs : List (HOp × C01Conc.Call Nat Nat × Option (Resp Nat))) (m m' : AMap Nat Nat)
    (hcall : ∀ e ∈ evs, callOf e.1.op = some e.2.1)
    (hproj : ∀ e ∈ evs, ∀ resp, e.2.2 = some resp → Projects e.1.op resp e.1.res)
    (hrun : C01Conc.linRun m (evs.map (·.2.1)) (evs.map (·.2.2)) m') :
    runSpec m ((evs.filter (·.2.2.isSome)).map (·.1)) = some m' := by
  induction evs generalizing m with
  | nil =>
    simp only [List.map_nil, C01Conc.linRun] at hrun
    simp [runSpec, hrun]
  | cons e rest ih =>
    obtain ⟨o, call, resp⟩ := e
    have ih' := fun m1 => ih m1 (fun e he => hcall e (List.mem_cons_of_mem _ he))
      (fun e he => hproj e (List.mem_cons_of_mem _ he))
    cases resp with
    | none =>
      simp only [List.map_cons, C01Conc.linRun] at hrun
      simpa using ih' m hrun
    | some resp =>
      simp only [List.map_cons, C01Conc.linRun] at hrun
      obtain ⟨m1, s1, s2⟩ := hrun
      have ha : applySpec m o.op o.res = some m1 :=
        (spec_all m m1 o.op call o.res (hcall _ (List.mem_cons_self ..))).mpr
          ⟨resp, s1, hproj _ (List.mem_cons_self ..) resp rfl⟩
      have := ih' m1 s2
      simp only [List.filter_cons, Option.isSome_some, if_true, List.map_cons]
      rw [runSpec_cons m o _ m1 ha]
      exact this

/-! ### sections -/

theorem ltStep_ok (m m' : AMap Nat Nat) (op : LtOp) (cop : C02.Op Nat Nat) (r : LtRes) (hc : ltToOp op = some cop)
    (hr : ∀ e, r ≠ .fail e) :
    ltStep m op r = some m' ↔ ∃ o, C02.specStep true m cop o m' ∧ ProjLt op o r := by
  cases op <;> simp only [ltToOp, Option.some.injEq, reduceCtorEq] at hc <;> subst hc <;> cases r <;>
    simp [ltStep, C02.specStep, ProjLt, expect, and_assoc, or_and_right, exists_or] at hr ⊢
  all_goals grind [resizeErr_toErr]

theorem ltStep_fail (m m' : AMap Nat Nat) (op : LtOp) (cop : C02.Op Nat Nat) (e : LErr) (hc : ltToOp op = some cop) :
    (op.mayFail = true ∧ m' = m) ↔ ∃ o, C02.specStep true m cop o m' ∧ ProjLt op o (.fail e) := by
  cases op <;> simp only [ltToOp, Option.some.injEq, reduceCtorEq] at hc <;> subst hc <;>
    simp [LtOp.mayFail, C02.specStep, ProjLt, and_assoc, or_and_right, exists_or]
  all_goals grind [resizeErr_toErr]

theorem ltStep_fail_none (m : AMap Nat Nat) (op : LtOp) (e : LErr) : ltStep m op (.fail e) = none := by
  cases op <;> rfl

theorem specRun_locked_cons (op : LtOp) (cop : C02.Op Nat Nat) (hcop : ltToOp op = some cop) (m m' : AMap Nat Nat)
    (ops : List (C02.Op Nat Nat)) (o : C02.Obs Nat) (obs : List (C02.Obs Nat)) :
    C02.specRun true m (cop :: ops) (o :: obs) m' ↔
      ∃ m1, C02.specStep true m cop o m1 ∧ C02.specRun true m1 ops obs m' := by
  cases op <;> simp only [ltToOp, Option.some.injEq, reduceCtorEq] at hcop <;> subst hcop <;> exact Iff.rfl

theorem secRun_cons_ok (m : AMap Nat Nat) (op : LtOp) (rest : List LtOp) (r : LtRes) (rs : List LtRes)
    (hr : ∀ e, r ≠ .fail e) :
    secRun m (op :: rest) (r :: rs) = (ltStep m op r).bind (fun m' => secRun m' rest rs) := by
  cases r <;> first
    | (exfalso; exact hr _ rfl)
    | (simp only [secRun]; cases ltStep m op _ <;> rfl)

theorem secRun_cons_fail (m : AMap Nat Nat) (op : LtOp) (rest : List LtOp) (e : LErr) (rs : List LtRes) :
    secRun m (op :: rest) (.fail e :: rs) = if rs = [] ∧ op.mayFail = true then some m else none := by
  cases rs with
  | nil => simp [secRun]
  | cons r rs => simp [secRun, ltStep_fail_none]

theorem secRun_locked (m m' : AMap Nat Nat) (body : List LtOp) (rs : List LtRes)
    (hb : ∀ op ∈ body, (ltToOp op).isSome = true) :
    secRun m body rs = some m' ↔
      ∃ ops obs, SecObs body rs ops obs ∧ C02.specRun true m (ops ++ [.unlock]) (obs ++ [.unit (.ok ())]) m' := by
  induction body generalizing m rs with
  | nil =>
    constructor
    · intro h
      cases rs with
      | nil =>
        simp only [secRun, Option.some.injEq] at h
        exact ⟨[], [], .done, m, ⟨rfl, rfl⟩, h.symm⟩
      | cons r rs => simp [secRun] at h
    · rintro ⟨ops, obs, hs, hrun⟩
      cases hs
      obtain ⟨m1, ⟨_, e1⟩, e2⟩ := hrun
      simp only [C02.specRun] at e2
      simp [secRun, e1 ▸ e2]
  | cons op rest ih =>
    obtain ⟨cop, hcop⟩ := Option.isSome_iff_exists.mp (hb op (List.mem_cons_self ..))
    have ih' := fun m rs => ih m rs (fun x hx => hb x (List.mem_cons_of_mem _ hx))
    cases rs with
    | nil =>
      constructor
      · intro h; simp [secRun] at h
      · rintro ⟨ops, obs, hs, _⟩; cases hs
    | cons r rs =>
      by_cases hr : ∃ e, r = .fail e
      · obtain ⟨e, rfl⟩ := hr
        rw [secRun_cons_fail]
        constructor
        · intro h
          split at h
          · rename_i hc
            obtain ⟨rfl, hmf⟩ := hc
            have hm : m = m' := Option.some.inj h
            obtain ⟨o, s1, s2⟩ := (ltStep_fail m m' op cop e hcop).mp ⟨hmf, hm.symm⟩
            exact ⟨[cop], [o], .abort hcop s2, m', s1, m', ⟨rfl, rfl⟩, rfl⟩
          · cases h
        · rintro ⟨ops, obs, hs, hrun⟩
          cases hs with
          | abort hc hp =>
            rw [hcop] at hc
            cases hc
            obtain ⟨m1, s1, m2, ⟨_, e2⟩, e3⟩ := hrun
            simp only [C02.specRun] at e3
            have e4 : m' = m1 := e3.trans e2
            obtain ⟨hmf, e5⟩ := (ltStep_fail m m1 op cop e hcop).mpr ⟨_, s1, hp⟩
            simp [hmf, e4, e5]
          | step _ _ hne _ => exact absurd rfl (hne e)
      · have hr' : ∀ e, r ≠ .fail e := fun e he => hr ⟨e, he⟩
        rw [secRun_cons_ok m op rest r rs hr']
        constructor
        · intro h
          cases hst : ltStep m op r with
          | none => simp [hst] at h
          | some m1 =>
            simp only [hst, Option.bind_some] at h
            obtain ⟨o, s1, s2⟩ := (ltStep_ok m m1 op cop r hcop hr').mp hst
            obtain ⟨ops, obs, t1, t2⟩ := (ih' m1 rs).mp h
            exact ⟨cop :: ops, o :: obs, .step hcop s2 hr' t1,
              (specRun_locked_cons op cop hcop m m' _ o _).mpr ⟨m1, s1, t2⟩⟩
        · rintro ⟨ops, obs, hs, hrun⟩
          cases hs with
          | abort _ _ => exact absurd rfl (hr' _)
          | step hc hp _ hrest =>
            rw [hcop] at hc
            cases hc
            obtain ⟨m1, s1, s2⟩ := (specRun_locked_cons op cop hcop m m' _ _ _).mp hrun
            have hst := (ltStep_ok m m1 op cop r hcop hr').mpr ⟨_, s1, hp⟩
            simp only [hst, Option.bind_some]
            exact (ih' m1 rs).mpr ⟨_, _, hrest, s2⟩

/-- a whole section, between `lock_table()` and `unlock()` -/
theorem secRun_specRun (m m' : AMap Nat Nat) (body : List LtOp) (rs : List LtRes)
    (hb : ∀ op ∈ body, (ltToOp op).isSome = true) :
    secRun m body rs = some m' ↔
      ∃ ops obs, SecObs body rs ops obs ∧
        C02.specRun false m (.lockTable :: ops ++ [.unlock]) (.unit (.ok ()) :: obs ++ [.unit (.ok ())]) m' := by
  rw [secRun_locked m m' body rs hb]
  constructor
  · rintro ⟨ops, obs, h1, h2⟩
    exact ⟨ops, obs, h1, m, ⟨rfl, rfl⟩, h2⟩
  · rintro ⟨ops, obs, h1, m1, ⟨_, e1⟩, h2⟩
    subst e1
    exact ⟨ops, obs, h1, h2⟩

theorem ltStep_find (m m' : AMap Nat Nat) (k : Nat) (r : LtRes) :
    ltStep m (.find k) r = some m' ↔ r = .val (m.lookup k) ∧ m' = m := by
  cases r <;> simp [ltStep]
  all_goals grind

theorem ltStep_size (m m' : AMap Nat Nat) (r : LtRes) :
    ltStep m .size r = some m' ↔ r = .size m.length ∧ m' = m := by
  cases r <;> simp [ltStep]
  all_goals grind

theorem ltStep_other (m m' : AMap Nat Nat) (r : LtRes) :
    ltStep m .other r = some m' ↔ r = .ok ∧ m' = m := by
  cases r <;> simp [ltStep]
  all_goals grind

end Aux
end Cuckoo.Lin
