import Cuckoo.Proofs.ProtoInvBase
/-!
Preservation of `PInv` by the owner events `storeHp`, `bumpRc`, `append`.
-/
namespace Cuckoo.Proto

theorem getD_append_lt (l : List Nat) (a i : Nat) (h : i < l.length) : (l ++ [a]).getD i 0 = l.getD i 0 := by
  simp only [List.getD_eq_getElem?_getD, List.getElem?_append_left h]

theorem getD_append_len (l : List Nat) (a : Nat) : (l ++ [a]).getD l.length 0 = a := by
  simp [List.getD_eq_getElem?_getD]

theorem curGen_append (s : PS) (a : Nat) : ({ s with gens := s.gens ++ [a] } : PS).curGen = s.gens.length := by
  simp [PS.curGen]

theorem inv_storeHp {s s' : PS} (h : PInv s) (z : Tid) (v : Nat) (ha : accept s (.storeHp z v) = some s') : PInv s' := by
  simp only [accept] at ha
  split at ha
  next ho =>
    cases ha
    have hf : ∀ u, upd s.th z { s.th z with dirty := true } u = { s.th u with dirty := (s.th u).dirty || decide (u = z) } := by
      intro u; by_cases hu : u = z
      · subst hu; simp
      · simp [upd_other _ _ _ _ hu, hu]
    constructor
    · exact h.gens_ne
    · exact h.gens_pos
    · intro u l; simp only [hf]; exact h.held_iff u l
    · intro u; simp only [hf]; exact h.held_desc u
    · exact h.held_range
    · intro u; simp only [hf]; exact h.rc_le u
    · intro u; simp only [hf]; exact h.gen_lt u
    · intro u _ _; exact Or.inr ⟨z, by simp⟩
    · intro u; simp only [hf]
      intro a b
      rcases h.snap_gen u a b with hc | ⟨z', hz', hg⟩
      · exact Or.inl hc
      · exact Or.inr ⟨z', by simp [hz'], hg⟩
    · intro u; simp only [hf]
      intro hp
      obtain ⟨l, h1, h2, h3, h4, h5⟩ := h.pend u hp
      exact ⟨l, h1, h2, h3, h4, fun hrc => (h.owner_not_pend ho hp hrc).elim⟩
    · intro u; simp only [hf]
      intro hv; exact (h.owner_not_val ho hv).elim
    · intro u; simp only [hf]; exact h.owner_all u
    · intro u; simp only [hf, Bool.or_eq_true, decide_eq_true_eq]
      rintro (hd | rfl)
      · exact h.dirty_owner u hd
      · exact ho
  · cases ha

theorem inv_bumpRc {s s' : PS} (h : PInv s) (z : Tid) (ha : accept s (.bumpRc z) = some s') : PInv s' := by
  simp only [accept] at ha
  split at ha
  next ho =>
    cases ha
    have hf : ∀ u, upd s.th z { s.th z with dirty := false } u = { s.th u with dirty := (s.th u).dirty && !decide (u = z) } := by
      intro u; by_cases hu : u = z
      · subst hu; simp
      · simp [upd_other _ _ _ _ hu, hu]
    constructor
    · exact h.gens_ne
    · exact h.gens_pos
    · intro u l; simp only [hf]; exact h.held_iff u l
    · intro u; simp only [hf]; exact h.held_desc u
    · exact h.held_range
    · intro u; simp only [hf]; exact Nat.le_succ_of_le (h.rc_le u)
    · intro u; simp only [hf]; exact h.gen_lt u
    · intro u; simp only [hf]
      intro _ b; have := h.rc_le u; omega
    · intro u; simp only [hf]
      intro _ b; have := h.rc_le u; omega
    · intro u; simp only [hf]
      intro hp
      obtain ⟨l, h1, h2, h3, h4, h5⟩ := h.pend u hp
      refine ⟨l, h1, h2, h3, h4, fun hrc => ?_⟩
      have := h.rc_le u; omega
    · intro u; simp only [hf]
      intro hv; exact (h.owner_not_val ho hv).elim
    · intro u; simp only [hf]; exact h.owner_all u
    · intro u; simp only [hf, Bool.and_eq_true]
      intro hd; exact h.dirty_owner u hd.1
  · cases ha

theorem mem_newLocks (g size : Nat) (m : LockId) :
    m ∈ ((List.range size).map (fun i => (⟨g, i⟩ : LockId))).reverse ↔ m.gen = g ∧ m.idx < size := by
  simp only [List.mem_reverse, List.mem_map, List.mem_range]
  constructor
  · rintro ⟨i, hi, rfl⟩; exact ⟨rfl, hi⟩
  · rintro ⟨rfl, hi⟩; exact ⟨m.idx, hi, by cases m; rfl⟩

theorem desc_newLocks (g size : Nat) :
    (((List.range size).map (fun i => (⟨g, i⟩ : LockId))).reverse).Pairwise (fun a b => b < a) := by
  rw [List.pairwise_reverse, List.pairwise_map]
  refine List.Pairwise.imp ?_ List.pairwise_lt_range
  intro a b hab
  rw [LockId.lt_def]; exact Or.inr ⟨rfl, hab⟩

/-- the state after `append z size` -/
def appSt (s : PS) (z : Tid) (size : Nat) : PS :=
  { s with gens := s.gens ++ [size],
           holder := fun l => if l.gen = s.gens.length ∧ l.idx < size then some z else s.holder l,
           th := upd s.th z { s.th z with dirty := true, held :=
             ((List.range size).map (fun i => (⟨s.gens.length, i⟩ : LockId))).reverse ++ (s.th z).held } }

theorem appSt_th_other (s : PS) (z : Tid) (size : Nat) (u : Tid) (hu : u ≠ z) : (appSt s z size).th u = s.th u :=
  upd_other _ _ _ _ hu

theorem appSt_th_same (s : PS) (z : Tid) (size : Nat) : (appSt s z size).th z = { s.th z with dirty := true, held :=
    ((List.range size).map (fun i => (⟨s.gens.length, i⟩ : LockId))).reverse ++ (s.th z).held } :=
  upd_same _ _ _

theorem appSt_dirty (s : PS) (z : Tid) (size : Nat) (u : Tid) (hd : (s.th u).dirty = true) :
    ((appSt s z size).th u).dirty = true := by
  by_cases hu : u = z
  · subst hu; rw [appSt_th_same]
  · rw [appSt_th_other _ _ _ _ hu]; exact hd

theorem appSt_holder (s : PS) (z : Tid) (size : Nat) (l : LockId) :
    (appSt s z size).holder l = if l.gen = s.gens.length ∧ l.idx < size then some z else s.holder l := rfl

theorem appSt_gens (s : PS) (z : Tid) (size : Nat) : (appSt s z size).gens = s.gens ++ [size] := rfl

theorem appSt_holdsGen (s : PS) (z : Tid) (size : Nat) (z' : Tid) (g : Nat) (hg : g < s.gens.length)
    (hz' : HoldsGen s z' g) : HoldsGen (appSt s z size) z' g := by
  intro i hi
  rw [appSt_gens, getD_append_lt _ _ _ hg] at hi
  rw [appSt_holder]
  have : ¬ (g = s.gens.length ∧ i < size) := by omega
  simp only [this, if_false]
  exact hz' i hi

theorem inv_appSt {s : PS} (h : PInv s) (z : Tid) (size : Nat) (ho : (s.th z).owner = true) (hsz : 0 < size) :
    PInv (appSt s z size) := by
  have hcg : s.curGen < s.gens.length := curGen_lt s h.gens_ne
  have hf := appSt_th_other s z size
  constructor
  · simp [appSt_gens]
  · intro n hn
    rcases List.mem_append.1 hn with hn | hn
    · exact h.gens_pos n hn
    · rw [List.mem_singleton.1 hn]; exact hsz
  · intro u m
    rw [appSt_holder]
    by_cases hu : u = z
    · subst hu
      simp only [appSt_th_same, List.mem_append, mem_newLocks]
      by_cases hc : m.gen = s.gens.length ∧ m.idx < size
      · simp [hc]
      · simp only [hc, false_or, if_false]; exact h.held_iff u m
    · rw [hf u hu]
      by_cases hc : m.gen = s.gens.length ∧ m.idx < size
      · simp only [hc, and_self, if_true]
        constructor
        · intro hm
          have := (h.held_range m u ((h.held_iff u m).1 hm)).1
          omega
        · intro e; exact absurd (Option.some.inj e).symm hu
      · simp only [hc, if_false]; exact h.held_iff u m
  · intro u
    by_cases hu : u = z
    · subst hu
      simp only [appSt_th_same]
      rw [List.pairwise_append]
      refine ⟨desc_newLocks _ _, h.held_desc u, ?_⟩
      intro a ha b hb
      rw [mem_newLocks] at ha
      have := (h.held_range b u ((h.held_iff u b).1 hb)).1
      rw [LockId.lt_def]; omega
    · rw [hf u hu]; exact h.held_desc u
  · intro m u
    rw [appSt_holder, appSt_gens]
    by_cases hc : m.gen = s.gens.length ∧ m.idx < size
    · simp only [hc, and_self, if_true, List.length_append, List.length_cons, List.length_nil]
      intro _
      rw [getD_append_len]
      exact ⟨by omega, hc.2⟩
    · simp only [hc, if_false, List.length_append, List.length_cons, List.length_nil]
      intro hm
      have := h.held_range m u hm
      rw [getD_append_lt _ _ _ this.1]
      exact ⟨by omega, this.2⟩
  · intro u
    by_cases hu : u = z
    · subst hu; simp only [appSt_th_same]; exact h.rc_le u
    · rw [hf u hu]; exact h.rc_le u
  · intro u
    simp only [appSt_gens, List.length_append, List.length_cons, List.length_nil]
    by_cases hu : u = z
    · subst hu; simp only [appSt_th_same]; exact Nat.lt_succ_of_lt (h.gen_lt u)
    · rw [hf u hu]; exact Nat.lt_succ_of_lt (h.gen_lt u)
  · intro u _ _; exact Or.inr ⟨z, by rw [appSt_th_same]⟩
  · intro u
    have main : (s.th u).genOk = true → (s.th u).snapRc = s.rc →
        ∃ z', ((appSt s z size).th z').dirty = true ∧ HoldsGen (appSt s z size) z' (s.th u).snapGen := by
      intro a b
      rcases h.snap_gen u a b with hc | ⟨z', hz', hg'⟩
      · refine ⟨z, by rw [appSt_th_same], ?_⟩
        rw [hc]
        exact appSt_holdsGen s z size z _ hcg (h.owner_all z ho).1
      · exact ⟨z', appSt_dirty s z size z' hz', appSt_holdsGen s z size z' _ (h.gen_lt u) hg'⟩
    by_cases hu : u = z
    · subst hu; simp only [appSt_th_same]
      intro a b; exact Or.inr (main a b)
    · rw [hf u hu]
      intro a b; exact Or.inr (main a b)
  · intro u
    by_cases hu : u = z
    · subst hu; simp only [appSt_th_same]
      intro hp
      obtain ⟨l, h1, h2, h3, h4, h5⟩ := h.pend u hp
      rw [ho] at h4; cases h4
    · rw [hf u hu]
      intro hp
      obtain ⟨l, h1, h2, h3, h4, h5⟩ := h.pend u hp
      exact ⟨l, h1, h2, h3, h4, fun hrc => (h.owner_not_pend ho hp hrc).elim⟩
  · intro u
    by_cases hu : u = z
    · subst hu; simp only [appSt_th_same]
      intro hv; exact (h.owner_not_val ho hv).elim
    · rw [hf u hu]
      intro hv; exact (h.owner_not_val ho hv).elim
  · intro u
    by_cases hu : u = z
    · subst hu; simp only [appSt_th_same]
      intro _
      refine ⟨?_, (h.owner_all u ho).2⟩
      intro i hi
      have e : (appSt s u size).curGen = s.gens.length := curGen_append s size
      rw [e] at hi ⊢
      rw [appSt_gens, getD_append_len] at hi
      rw [appSt_holder]
      simp [hi]
    · rw [hf u hu]
      intro hou; exact absurd (h.owner_unique hou ho) hu
  · intro u
    by_cases hu : u = z
    · subst hu; simp only [appSt_th_same]; intro _; exact ho
    · rw [hf u hu]; exact h.dirty_owner u

theorem inv_append {s s' : PS} (h : PInv s) (z : Tid) (size : Nat) (ha : accept s (.append z size) = some s') : PInv s' := by
  simp only [accept] at ha
  split at ha
  next hg =>
    cases ha
    exact inv_appSt h z size hg.1 hg.2
  · cases ha

end Cuckoo.Proto
