import Cuckoo.Proofs.C02Aux
/-!
Helper lemma for `Cuckoo/Props/C16.lean`: the three ways `Table.uprase` can end, with the value of `Out.consumed`,
the shape of `Out.res` and the abstract lookup in each.  Never a property statement.
-/
namespace Cuckoo.Model.Consumed
open Cuckoo Cuckoo.Model Cuckoo.Spec Cuckoo.Model.C02A
variable {κ ν : Type} [DecidableEq κ]

/-- (A) the key was absent, a free slot was found and filled: consumed;
    (B) the key was present: not consumed;
    (C) the insert loop failed: not consumed, `res` is that error (never `fnThrow` in the sense that the functor
        was not called: the error comes out of `insertLoop`). -/
theorem uprase_cases (c : Cfg κ) (locked : Bool) (t : Table κ ν) (m : AMap κ ν) (k : κ) (v : ν)
    (ctxAware mayErase : Bool) (fn : Ctx → ν → FnOut ν)
    (h : Inv c t) (hr : Rel c t m) (hl : locked = true → AllMig t) :
    (m.lookup k = none ∧ (t.uprase c locked k v ctxAware mayErase fn).2.1.consumed = true ∧
      ((t.uprase c locked k v ctxAware mayErase fn).2.1.res = .ok true ∨
       (t.uprase c locked k v ctxAware mayErase fn).2.1.res = .err .fnThrow) ∧
      (ctxAware = false → (t.uprase c locked k v ctxAware mayErase fn).2.1.res = .ok true ∧
        Rel c (t.uprase c locked k v ctxAware mayErase fn).1 (m.add k v))) ∨
    ((∃ old, m.lookup k = some old) ∧ (t.uprase c locked k v ctxAware mayErase fn).2.1.consumed = false ∧
      ((t.uprase c locked k v ctxAware mayErase fn).2.1.res = .ok false ∨
       (t.uprase c locked k v ctxAware mayErase fn).2.1.res = .err .fnThrow)) ∨
    ((∃ e, (t.uprase c locked k v ctxAware mayErase fn).2.1.res = .err e ∧ e ≠ .fnThrow) ∧
      (t.uprase c locked k v ctxAware mayErase fn).2.1.consumed = false) := by
  obtain ⟨a1, a2, a3, a4⟩ := insertLoop_spec c locked (c.fuel t.cur.cells.size) t k h hl
  have hr1 := hr.of_same a2
  rcases hloop : insertLoop c locked (c.fuel t.cur.cells.size) t k with ⟨t1, pos | e⟩
  · rw [hloop] at a1 a2 a3 a4 hr1
    simp only at a1 a2 a3 a4 hr1
    cases pos with
    | free b s =>
      obtain ⟨b1, b2, b3, b4, b5⟩ := addTo_rel c t1 m b s k v a1 hr1 a4
      refine .inl ⟨b5, ?_⟩
      cases ctxAware with
      | false =>
        have e : t.uprase c locked k v false mayErase fn =
            (t1.addTo c b s ⟨c.tag k, k, v⟩, { res := .ok true, consumed := true }, some (b, s)) := by
          unfold Table.uprase; rw [hloop]; rfl
        rw [e]
        exact ⟨rfl, .inl rfl, fun _ => ⟨rfl, b2⟩⟩
      | true =>
        cases hfn : fn .newlyInserted v with
        | throw v' =>
          have e : t.uprase c locked k v true mayErase fn =
              ((t1.addTo c b s ⟨c.tag k, k, v⟩).setVal c b s v',
                { res := .err .fnThrow, calls := [⟨some .newlyInserted, v⟩], consumed := true }, some (b, s)) := by
            unfold Table.uprase; rw [hloop]; simp only [Bool.true_or, if_true, b4, hfn]; rfl
          rw [e]
          exact ⟨rfl, .inr rfl, fun hh => by cases hh⟩
        | ret v' er =>
          cases hce : (mayErase && er) with
          | true =>
            have e : t.uprase c locked k v true mayErase fn =
                (((t1.addTo c b s ⟨c.tag k, k, v⟩).setVal c b s v').delFrom c b s,
                  { res := .ok true, calls := [⟨some .newlyInserted, v⟩], consumed := true }, some (b, s)) := by
              unfold Table.uprase; rw [hloop]; simp only [Bool.true_or, if_true, b4, hfn, hce]; rfl
            rw [e]
            exact ⟨rfl, .inl rfl, fun hh => by cases hh⟩
          | false =>
            have e : t.uprase c locked k v true mayErase fn =
                ((t1.addTo c b s ⟨c.tag k, k, v⟩).setVal c b s v',
                  { res := .ok true, calls := [⟨some .newlyInserted, v⟩], consumed := true }, some (b, s)) := by
              unfold Table.uprase; rw [hloop]; simp only [Bool.true_or, if_true, b4, hfn, hce]; rfl
            rw [e]
            exact ⟨rfl, .inl rfl, fun hh => by cases hh⟩
    | dup b s =>
      obtain ⟨sl, hg, hk⟩ := a4
      have hlook := rel_lookup_of_live hr1 ⟨.cur b s, hg⟩
      subst hk
      refine .inr (.inl ⟨⟨_, hlook⟩, ?_⟩)
      cases hfn : fn .alreadyExisted sl.val with
      | throw v' =>
        have e : t.uprase c locked sl.key v ctxAware mayErase fn =
            (t1.setVal c b s v', { res := .err .fnThrow, calls := [⟨if ctxAware then some .alreadyExisted else none, sl.val⟩] }, some (b, s)) := by
          unfold Table.uprase; rw [hloop]
          have : (ctxAware || Ctx.alreadyExisted == Ctx.alreadyExisted) = true := by cases ctxAware <;> rfl
          simp only [this, if_true, hg, hfn]; rfl
        rw [e]
        exact ⟨rfl, .inr rfl⟩
      | ret v' er =>
        cases hce : (mayErase && er) with
        | true =>
          have e : t.uprase c locked sl.key v ctxAware mayErase fn =
              ((t1.setVal c b s v').delFrom c b s, { res := .ok false, calls := [⟨if ctxAware then some .alreadyExisted else none, sl.val⟩] }, some (b, s)) := by
            unfold Table.uprase; rw [hloop]
            have : (ctxAware || Ctx.alreadyExisted == Ctx.alreadyExisted) = true := by cases ctxAware <;> rfl
            simp only [this, if_true, hg, hfn, hce]; rfl
          rw [e]
          exact ⟨rfl, .inl rfl⟩
        | false =>
          have e : t.uprase c locked sl.key v ctxAware mayErase fn =
              (t1.setVal c b s v', { res := .ok false, calls := [⟨if ctxAware then some .alreadyExisted else none, sl.val⟩] }, some (b, s)) := by
            unfold Table.uprase; rw [hloop]
            have : (ctxAware || Ctx.alreadyExisted == Ctx.alreadyExisted) = true := by cases ctxAware <;> rfl
            simp only [this, if_true, hg, hfn, hce]; rfl
          rw [e]
          exact ⟨rfl, .inl rfl⟩
  · rw [hloop] at a1 a2 a3 a4 hr1
    simp only at a1 a2 a3 a4 hr1
    have e' : t.uprase c locked k v ctxAware mayErase fn = (t1, { res := .err e }, none) := by
      unfold Table.uprase; rw [hloop]
    rw [e']
    refine .inr (.inr ⟨⟨e, rfl, ?_⟩, rfl⟩)
    intro he
    subst he
    rcases a4 with x | x | x | x <;> cases x
