import Cuckoo.Proofs.Store
import Cuckoo.Arith.Lemmas
/-!
Vocabulary shared by the helper-lemma files: "same live view", "everything migrated".
-/
namespace Cuckoo.Model
open Cuckoo
variable {κ ν : Type}

/-- `t'` has the same live view, counters' sum and settings as `t` (what every internal step of an
operation — lazy migration, displacement, resizing — must guarantee) -/
structure Same (c : Cfg κ) (t t' : Table κ ν) : Prop where
  live : ∀ sl, t'.Live c sl ↔ t.Live c sl
  sum : t'.sumCnt = t.sumCnt
  mlf : t'.mlf = t.mlf
  mhp : t'.mhp = t.mhp
  workers : t'.workers = t.workers

theorem Same.refl (c : Cfg κ) (t : Table κ ν) : Same c t t := ⟨fun _ => Iff.rfl, rfl, rfl, rfl, rfl⟩

theorem Same.trans {c : Cfg κ} {t t' t'' : Table κ ν} (h : Same c t t') (h' : Same c t' t'') : Same c t t'' :=
  ⟨fun sl => (h'.live sl).trans (h.live sl), h'.sum.trans h.sum, h'.mlf.trans h.mlf, h'.mhp.trans h.mhp,
   h'.workers.trans h.workers⟩

/-- every stripe is migrated (always true inside a `locked_table`) -/
def AllMig (t : Table κ ν) : Prop := ∀ (i : Nat) (lk : Lock), t.locks[i]? = some lk → lk.migrated = true

theorem AllMig.unmigB {c : Cfg κ} {t : Table κ ν} (h : AllMig t) (b : Nat) : t.unmigB c b = false := by
  unfold Table.unmigB
  split
  · rename_i lk hlk; simp [h _ _ hlk]
  · rfl

/-- structural facts every internal step of an operation preserves -/
structure Keeps (c : Cfg κ) (t t' : Table κ ν) : Prop where
  hp : t'.hp = t.hp
  rc : t'.rc = t.rc
  mono : ∀ b, t.unmigB c b = false → t'.unmigB c b = false
  allmig : AllMig t → AllMig t'

theorem Keeps.refl (c : Cfg κ) (t : Table κ ν) : Keeps c t t := ⟨rfl, rfl, fun _ h => h, fun h => h⟩

theorem Keeps.trans {c : Cfg κ} {t t' t'' : Table κ ν} (h : Keeps c t t') (h' : Keeps c t' t'') : Keeps c t t'' :=
  ⟨h'.hp.trans h.hp, h'.rc.trans h.rc, fun b hb => h'.mono b (h.mono b hb), fun ha => h'.allmig (h.allmig ha)⟩

/-- a cuckoo path whose consecutive buckets are alternates of each other under the recorded hashes -/
def PathOK (c : Cfg κ) (hp : Nat) : List PathRec → Prop
  | [] => True
  | [p] => p.slot < c.S
  | p :: q :: rest =>
    p.slot < c.S ∧ q.bucket = Spec.altIndex hp (Spec.partialKey p.hash) p.bucket ∧ PathOK c hp (q :: rest)

/-- what `cuckoo_insert_loop` promises about the position it returns -/
def InsOK (c : Cfg κ) (t : Table κ ν) (k : κ) : InsPos → Prop
  | .free b s =>
    (b = c.i1 t.hp k ∨ b = c.i2 t.hp k) ∧ s < c.S ∧ t.cur.get c.S b s = none ∧ t.unmigB c b = false ∧
    ∀ tag v, ¬ t.Live c ⟨tag, k, v⟩
  | .dup b s => ∃ sl, t.cur.get c.S b s = some sl ∧ sl.key = k

/-- a relation is carried along an unchanged live view -/
theorem Rel.of_same {c : Cfg κ} {t t' : Table κ ν} {m : List (κ × ν)} (h : Rel c t m) (hs : Same c t t') :
    Rel c t' m :=
  ⟨fun k v => (h.pairs k v).trans ⟨fun ⟨tag, hl⟩ => ⟨tag, (hs.live _).mpr hl⟩, fun ⟨tag, hl⟩ => ⟨tag, (hs.live _).mp hl⟩⟩,
   h.nodup, hs.sum.trans h.count⟩

end Cuckoo.Model
