import Cuckoo.Proofs.Store
import Cuckoo.Arith.Lemmas
/-!
Vocabulary shared by the helper-lemma files: "same live view", "everything migrated".
-/
namespace Cuckoo.Model
open Cuckoo
variable {κ ν : Type}

/-- `t'` has the same live view, counters' sum and settings as `t` (what every internal step of an
operation — lazy migration, displacement, resizing — must guarantee) -/
structure Same (c : Cfg κ) (t t' : Table κ ν) : Prop where
  live : ∀ sl, t'.Live c sl ↔ t.Live c sl
  sum : t'.sumCnt = t.sumCnt
  mlf : t'.mlf = t.mlf
  mhp : t'.mhp = t.mhp
  workers : t'.workers = t.workers

theorem Same.refl (c : Cfg κ) (t : Table κ ν) : Same c t t := ⟨fun _ => Iff.rfl, rfl, rfl, rfl, rfl⟩

theorem Same.trans {c : Cfg κ} {t t' t'' : Table κ ν} (h : Same c t t') (h' : Same c t' t'') : Same c t t'' :=
  ⟨fun sl => (h'.live sl).trans (h.live sl), h'.sum.trans h.sum, h'.mlf.trans h.mlf, h'.mhp.trans h.mhp,
   h'.workers.trans h.workers⟩

/-- every stripe is migrated (always true inside a `locked_table`) -/
def AllMig (t : Table κ ν) : Prop := ∀ (i : Nat) (lk : Lock), t.locks[i]? = some lk → lk.migrated = true

theorem AllMig.unmigB {c : Cfg κ} {t : Table κ ν} (h : AllMig t) (b : Nat) : t.unmigB c b = false := by
  unfold Table.unmigB
  split
  · rename_i lk hlk; simp [h _ _ hlk]
  · rfl

/-- a relation is carried along an unchanged live view -/
theorem Rel.of_same {c : Cfg κ} {t t' : Table κ ν} {m : List (κ × ν)} (h : Rel c t m) (hs : Same c t t') :
    Rel c t' m :=
  ⟨fun k v => (h.pairs k v).trans ⟨fun ⟨tag, hl⟩ => ⟨tag, (hs.live _).mpr hl⟩, fun ⟨tag, hl⟩ => ⟨tag, (hs.live _).mp hl⟩⟩,
   h.nodup, hs.sum.trans h.count⟩

end Cuckoo.Model
