import Cuckoo.Proofs.LifeAux3
import Cuckoo.Proofs.C02Aux
/-!
Helper lemmas for `Props/C08Life.lean`, part 4 — the write discipline of the table-level steps: one displacement
hop, one stripe migration under the (weak) invariant, the states just before the old array is released
(never property statements).
-/
namespace Cuckoo.Model
open Cuckoo
variable {κ ν : Type}

/-! ### one hop -/

theorem hop_shape (c : Cfg κ) (t t' : Table κ ν) (fr to : PathRec) (hhop : hop c t fr to = some t') :
    ∃ sl, t.cur.get c.S to.bucket to.slot = none ∧ t.cur.get c.S fr.bucket fr.slot = some sl ∧
      c.hash sl.key = fr.hash ∧
      t' = { t with cur := (t.cur.set c.S to.bucket to.slot (some sl)).set c.S fr.bucket fr.slot none } := by
  unfold hop at hhop
  split at hhop
  · rename_i sl hto hfr
    split at hhop
    · rename_i hh
      cases hhop
      exact ⟨sl, hto, hfr, hh, rfl⟩
    · cases hhop
  · cases hhop

/-- the full effect of a validated hop on the cells -/
theorem hop_cells (c : Cfg κ) (t t' : Table κ ν) (fr to : PathRec) (hsz : t.cur.cells.size = 2 ^ t.hp * c.S)
    (hhop : hop c t fr to = some t') (hb : to.bucket < 2 ^ t.hp) (hslot : to.slot < c.S) :
    ∃ sl, t.cur.get c.S to.bucket to.slot = none ∧ t.cur.get c.S fr.bucket fr.slot = some sl ∧
      t'.cur.get c.S to.bucket to.slot = some sl ∧ t'.cur.get c.S fr.bucket fr.slot = none ∧
      (∀ b s, ¬ (b = to.bucket ∧ s = to.slot) → ¬ (b = fr.bucket ∧ s = fr.slot) →
        t'.cur.get c.S b s = t.cur.get c.S b s) ∧
      t'.old = t.old ∧ t'.locks = t.locks ∧ t'.cur.count = t.cur.count := by
  obtain ⟨sl, hto, hfr, _, rfl⟩ := hop_shape c t t' fr to hhop
  obtain ⟨hfs, hflt⟩ := Store.get_some_lt hfr
  have htlt : to.bucket * c.S + to.slot < t.cur.cells.size := by rw [hsz]; exact flat_lt hb hslot
  have hne : ¬ (fr.bucket = to.bucket ∧ fr.slot = to.slot) := by
    intro e; rw [e.1, e.2, hto] at hfr; cases hfr
  have h1 : (t.cur.set c.S to.bucket to.slot (some sl)).get c.S fr.bucket fr.slot = some sl := by
    rw [Store.get_set_other _ _ _ _ _ _ _ hslot hne]; exact hfr
  refine ⟨sl, hto, hfr, ?_, ?_, ?_, rfl, rfl, ?_⟩
  · show ((t.cur.set c.S to.bucket to.slot (some sl)).set c.S fr.bucket fr.slot none).get c.S to.bucket to.slot = _
    rw [Store.get_set_other _ _ _ _ _ _ _ hfs (fun e => hne ⟨e.1.symm, e.2.symm⟩)]
    exact Store.get_set_same _ _ _ _ _ hslot htlt
  · show ((t.cur.set c.S to.bucket to.slot (some sl)).set c.S fr.bucket fr.slot none).get c.S fr.bucket fr.slot = _
    exact Store.get_set_same _ _ _ _ _ hfs (by rw [Store.set_size]; exact hflt)
  · intro b s n1 n2
    show ((t.cur.set c.S to.bucket to.slot (some sl)).set c.S fr.bucket fr.slot none).get c.S b s = _
    rw [Store.get_set_other _ _ _ _ _ _ _ hfs n2, Store.get_set_other _ _ _ _ _ _ _ hslot n1]
  · show ((t.cur.set c.S to.bucket to.slot (some sl)).set c.S fr.bucket fr.slot none).count = _
    have e1 := Store.count_set_some_of_empty c.S t.cur to.bucket to.slot sl hslot htlt hto
    have e2 := Store.count_set_none_of_occ c.S _ fr.bucket fr.slot sl h1
    omega

/-! ### one stripe migration -/

theorem stripe_arith (M m ohp l : Nat) (hM : M = 2 ^ m) (hm : m ≤ ohp) (hl : l < M) :
    (∀ i, i < (2 ^ ohp + M - 1 - l) / M → l + i * M < 2 ^ ohp) ∧ (∀ i, (l + i * M) % M = l) ∧
    (∀ i, (l + i * M + 2 ^ ohp) % M = l) := by
  have hMpos : 0 < M := by rw [hM]; exact Spec.two_pow_pos m
  have hpw : 2 ^ ohp = 2 ^ (ohp - m) * M := by
    rw [hM, ← Nat.pow_add]; congr 1; omega
  generalize 2 ^ (ohp - m) = q at hpw
  have hn : (2 ^ ohp + M - 1 - l) / M = q := by
    have e : 2 ^ ohp + M - 1 - l = M * q + (M - 1 - l) := by
      rw [hpw, Nat.mul_comm]; omega
    rw [e, Nat.mul_add_div hMpos, Nat.div_eq_of_lt (by omega)]
    rfl
  rw [hn]
  have hmod1 : ∀ i, (l + i * M) % M = l := by
    intro i; rw [Nat.add_mul_mod_self_right, Nat.mod_eq_of_lt hl]
  refine ⟨?_, hmod1, ?_⟩
  · intro i hi
    have : (i + 1) * M ≤ q * M := Nat.mul_le_mul_right _ hi
    rw [Nat.succ_mul] at this
    rw [hpw]; omega
  · intro i; rw [hpw, Nat.add_mul_mod_self_right]; exact hmod1 i

/-- the write trace of `rehash_lock` on an un-migrated stripe -/
def rehashWrites (c : Cfg κ) (t : Table κ ν) (l : Nat) (o : Store κ ν) : List (Write κ ν) :=
  stripeWrites c o t.cur.hp c.M ((2 ^ o.hp + c.M - 1 - l) / c.M) l

theorem rehashLock_cur (c : Cfg κ) (t : Table κ ν) (l : Nat) (lk : Lock) (o : Store κ ν) (z : Bool)
    (hlk : t.locks[l]? = some lk) (hmig : lk.migrated = false) (hold : t.old = some o) :
    (t.rehashLock c l z).cur = (rehashWrites c t l o).foldl (applyW c.S) t.cur ∧
    ((t.rehashLock c l z).old = some o ∨ ((t.rehashLock c l z).old = none ∧ z = true ∧ t.rem = 1)) := by
  rw [rehashLock_active c t l lk o z hlk hmig hold]
  have e : (migT c t l o).cur = (rehashWrites c t l o).foldl (applyW c.S) t.cur :=
    migrateBuckets_eq_fold c o l _ l t.cur
  cases z with
  | false => exact ⟨e, Or.inl hold⟩
  | true =>
    simp only [if_true]
    by_cases h1 : t.rem = 1
    · rw [if_pos h1]; exact ⟨e, Or.inr ⟨rfl, trivial, h1⟩⟩
    · rw [if_neg h1]; exact ⟨e, Or.inl hold⟩

/-- under the (weak) invariant every write of a stripe migration targets a cell of the stripe that is empty in the
current array, in range; the element is a copy of an occupied cell of an old bucket of the stripe; the targets are
pairwise different -/
theorem rehashWrites_facts (c : Cfg κ) (t : Table κ ν) (l : Nat) (lk : Lock) (o : Store κ ν)
    (hw : WInv c t) (hlk : t.locks[l]? = some lk) (hmig : lk.migrated = false) (hold : t.old = some o) :
    (∀ w ∈ rehashWrites c t l o, w.2.1 < c.S ∧ w.1 < 2 ^ t.hp ∧ w.1 % c.M = l ∧ t.cur.get c.S w.1 w.2.1 = none ∧
      ∃ b s, b % c.M = l ∧ b < 2 ^ o.hp ∧ o.get c.S b s = some w.2.2) ∧
    (rehashWrites c t l o).Pairwise Write.Apart := by
  obtain ⟨m, hM⟩ := hw.M_pow
  have hpos := nUnmig_pos_of t l lk hlk hmig
  obtain ⟨o', ho', _, hohp, hMle, hlsz⟩ := hw.pending hpos
  rw [hold] at ho'; cases ho'
  have hm : m ≤ o.hp := by
    rw [hM] at hMle
    exact (Nat.pow_le_pow_iff_right (by decide : 1 < 2)).mp hMle
  have hl : l < c.M := by
    obtain ⟨h, _⟩ := Array.getElem?_eq_some_iff.mp hlk
    omega
  have hMpos : 0 < c.M := by omega
  obtain ⟨hbd, hmod1, hmod2⟩ := stripe_arith c.M m o.hp l hM hm hl
  refine ⟨?_, stripeWrites_pairwise c o _ c.M hMpos _ l hbd⟩
  intro w hwm
  obtain ⟨i, hi, h1, h2, s, h3⟩ := stripeWrites_mem c o _ c.M _ l w hwm
  have hbi := hbd i hi
  have hmod : w.1 % c.M = l := by
    rcases h1 with e | e <;> rw [e]
    · exact hmod1 i
    · exact hmod2 i
  have hlt : w.1 < 2 ^ t.hp := by
    rw [← hohp, Nat.pow_succ]
    rcases h1 with e | e <;> omega
  exact ⟨h2, hlt, hmod, hw.unmig_empty w.1 w.2.1 (unmigB_of c t w.1 l lk hmod hlk hmig),
    l + i * c.M, s, hmod1 i, hbi, h3⟩

/-! ### who is in the old array when it is released -/

/-- every object of the old array is a husk: its stripe has been migrated (so it is no live element) -/
def OldAllHusks (c : Cfg κ) (t : Table κ ν) : Prop :=
  ∀ o, t.old = some o → ∀ b s sl, o.get c.S b s = some sl → t.unmigB c b = false ∧ t.at c (.old b s) = none

theorem oldAllHusks_of_allMig (c : Cfg κ) (t : Table κ ν) (h : AllMig t) : OldAllHusks c t := by
  intro o ho b s sl _
  refine ⟨h.unmigB b, ?_⟩
  simp only [Table.at, ho, h.unmigB b]
  rfl

/-- the lazy release: the stripe that brings `rem` from 1 to 0 -/
theorem lazy_release (c : Cfg κ) (t : Table κ ν) (l : Nat) (lk : Lock) (o : Store κ ν) (h : Inv c t)
    (hrem : t.rem = 1) (hlk : t.locks[l]? = some lk) (hmig : lk.migrated = false) (hold : t.old = some o) :
    t.rehashLock c l true = { migT c t l o with rem := 0, old := none } ∧
    (migT c t l o).old = some o ∧ AllMig (migT c t l o) := by
  refine ⟨?_, hold, ?_⟩
  · rw [rehashLock_active c t l lk o true hlk hmig hold]
    simp only [if_true, hrem]
    rfl
  · obtain ⟨_, _, _, _, _, _, a7⟩ :=
      migStep_full c t (migT c t l o) l lk o h.toW hlk hmig hold rfl rfl (Or.inl rfl) rfl rfl rfl rfl
    apply (nUnmig_zero_iff _).mp
    have := h.rem_eq
    omega

/-- the batch release: `rehash_with_workers` / the loop at the start of `cuckoo_fast_double` / `lock_table` -/
theorem migrateAll_release (c : Cfg κ) (t : Table κ ν) (h : Inv c t) :
    t.migrateAll c = { Table.migrateAll.go c t.locks.size 0 t with rem := 0, old := none } ∧
    AllMig (Table.migrateAll.go c t.locks.size 0 t) := by
  obtain ⟨_, _, _, _, a5, _, _⟩ := migrateAll_go_spec c t.locks.size 0 t h.toW
    (fun i hi => by omega) (by omega)
  refine ⟨?_, a5⟩
  unfold Table.migrateAll Table.setRem
  simp

end Cuckoo.Model
