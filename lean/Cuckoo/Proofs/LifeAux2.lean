import Cuckoo.Proofs.LifeAux1
/-!
Helper lemmas for `Props/C08Life.lean`, part 2 — the ledger: the stored pairs are in bijection with the occupied
positions of the live view (never property statements).
-/
namespace Cuckoo.Model
open Cuckoo
variable {κ ν : Type}

/-- the key held at a live position -/
def keyAtLoc (c : Cfg κ) (t : Table κ ν) (p : Loc) : Option κ := (t.at c p).map (·.key)

theorem liveKeys_nodup {c : Cfg κ} {t : Table κ ν} (h : Inv c t) : ((liveLocs c t).map (keyAtLoc c t)).Nodup := by
  apply nodup_map_of_inj _ _ (liveLocs_nodup c t)
  intro p hp p' hp' e
  obtain ⟨sl, hsl⟩ := (mem_liveLocs h.S_pos t p).mp hp
  obtain ⟨sl', hsl'⟩ := (mem_liveLocs h.S_pos t p').mp hp'
  unfold keyAtLoc at e
  rw [hsl, hsl'] at e
  simp only [Option.map_some, Option.some.injEq] at e
  exact h.uniq p p' sl sl' hsl hsl' e

/-- the stored pairs are as many as the occupied positions of the live view -/
theorem rel_length_liveLocs {c : Cfg κ} {t : Table κ ν} {m : List (κ × ν)} (h : Inv c t) (hr : Rel c t m) :
    m.length = (liveLocs c t).length := by
  have n1 : ((m.map Prod.fst).map some).Nodup :=
    nodup_map_of_inj _ _ hr.nodup (fun x _ y _ e => by cases e; rfl)
  have n2 := liveKeys_nodup h
  have hperm : ((m.map Prod.fst).map some).Perm ((liveLocs c t).map (keyAtLoc c t)) := by
    rw [List.perm_ext_iff_of_nodup n1 n2]
    intro x
    simp only [List.mem_map]
    constructor
    · rintro ⟨k, ⟨⟨k', v⟩, hmem, rfl⟩, rfl⟩
      obtain ⟨tag, p, hp⟩ := (hr.pairs k' v).mp hmem
      exact ⟨p, (mem_liveLocs h.S_pos t p).mpr ⟨_, hp⟩, by unfold keyAtLoc; rw [hp]; rfl⟩
    · rintro ⟨p, hp, rfl⟩
      obtain ⟨sl, hsl⟩ := (mem_liveLocs h.S_pos t p).mp hp
      have hm : (sl.key, sl.val) ∈ m := (hr.pairs sl.key sl.val).mpr ⟨sl.tag, p, hsl⟩
      exact ⟨sl.key, ⟨(sl.key, sl.val), hm, rfl⟩, by unfold keyAtLoc; rw [hsl]; rfl⟩
  have := hperm.length_eq
  simpa using this

/-- **ledger**: every constructed, not yet destroyed object is exactly one stored pair or a husk -/
theorem objCount_ledger {c : Cfg κ} {t : Table κ ν} {m : List (κ × ν)} (h : Inv c t) (hr : Rel c t m) :
    objCount t = m.length + husks c t := by
  rw [objCount_split c t, rel_length_liveLocs h hr, liveLocs_length]

theorem husks_of_no_old (c : Cfg κ) (t : Table κ ν) (h : t.old = none) : husks c t = 0 := by
  unfold husks; rw [h]

theorem liveOld_of_allMig (c : Cfg κ) (t : Table κ ν) (h : AllMig t) : liveOld c t = 0 := by
  unfold liveOld
  cases t.old with
  | none => rfl
  | some o =>
    simp only []
    rw [List.length_eq_zero_iff, List.filter_eq_nil_iff]
    intro i _
    rw [h.unmigB]
    simp

/-- the executable `liveCount` of `Model/Inv.lean` (used by the driver's self-check) counts the same cells -/
theorem liveCount_eq (c : Cfg κ) (t : Table κ ν) : t.liveCount c = t.cur.count + liveOld c t := by
  unfold Table.liveCount liveOld
  congr 1
  cases t.old with
  | none => rfl
  | some o =>
    simp only []
    unfold Store.occIdx
    rw [List.filter_filter]
    generalize List.range o.cells.size = L
    suffices H : ∀ n, L.foldl (fun n i =>
        match o.cells.getD i none, t.locks[c.lockInd (i / c.S)]? with
        | some _, some lk => if lk.migrated then n else n + 1
        | _, _ => n) n = n + (L.filter (fun a => t.unmigB c (a / c.S) && (o.cells.getD a none).isSome)).length by
      have := H 0; rw [Nat.zero_add] at this; exact this
    induction L with
    | nil => intro n; rfl
    | cons a L ih =>
      intro n
      rw [List.foldl_cons, ih, List.filter_cons]
      unfold Table.unmigB
      cases o.cells.getD a none <;> cases t.locks[c.lockInd (a / c.S)]? with
      | none => simp
      | some lk => cases hm : lk.migrated <;> simp [hm] <;> omega

/-- the per-stripe counters add up to the number of live cells (the driver's `count` check, as a theorem) -/
theorem sumCnt_eq_liveCount {c : Cfg κ} {t : Table κ ν} {m : List (κ × ν)} (h : Inv c t) (hr : Rel c t m) :
    t.sumCnt = (t.liveCount c : Int) := by
  rw [hr.count, liveCount_eq, rel_length_liveLocs h hr, liveLocs_length]

end Cuckoo.Model
