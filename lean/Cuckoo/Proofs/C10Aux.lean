import Cuckoo.Proofs.Resize
import Cuckoo.Proofs.Fault
/-!
Helper lemmas for `Cuckoo/Props/C10.lean`: lower bounds on the hashpower along the insertion loop and the
resize paths (`cuckoo_insert_loop`, `cuckoo_fast_double`, `cuckoo_expand_simple`).  Never property statements.

`Spec.reserveCalc` searches at most 66 steps, so a fresh table never has a hashpower above 66: every bound
`B` below is therefore restricted to `B ≤ 66`.
-/
namespace Cuckoo.Model.C10A
open Cuckoo Cuckoo.Model
variable {κ ν : Type}

/-! ### `reserve_calc` -/

theorem log2ceilFrom_le (need fuel b : Nat) : Spec.log2ceilFrom need fuel b ≤ b + fuel := by
  induction fuel generalizing b with
  | zero => simp [Spec.log2ceilFrom]
  | succ f ih =>
    unfold Spec.log2ceilFrom
    split
    · have := ih (b + 1); omega
    · omega

theorem log2ceilFrom_lower (need fuel b B : Nat) (hall : ∀ c, c < B → 2 ^ c < need) (hf : B ≤ b + fuel) :
    B ≤ Spec.log2ceilFrom need fuel b := by
  induction fuel generalizing b with
  | zero => simpa [Spec.log2ceilFrom] using hf
  | succ f ih =>
    unfold Spec.log2ceilFrom
    split
    · exact ih (b + 1) (by omega)
    · rename_i hnl
      apply Nat.le_of_not_lt
      intro hlt
      exact hnl (hall b hlt)

theorem reserveCalc_le_66 (S n : Nat) : Spec.reserveCalc S n ≤ 66 := by
  unfold Spec.reserveCalc
  have := log2ceilFrom_le ((n + S - 1) / S) 66 0
  omega

/-- a table created for `2 ^ n` buckets has hashpower at least `min n 66` -/
theorem reserveCalc_pow_ge (S n B : Nat) (hS : 0 < S) (hB : B ≤ 66) (hle : B ≤ n) :
    B ≤ Spec.reserveCalc S (2 ^ n * S) := by
  unfold Spec.reserveCalc
  apply log2ceilFrom_lower _ _ _ _ _ (by omega)
  intro c hc
  have h1 : 2 ^ c < 2 ^ n := Nat.pow_lt_pow_right (by decide) (by omega)
  have h2 : 2 ^ n ≤ (2 ^ n * S + S - 1) / S := by
    rw [Nat.le_div_iff_mul_le hS]; omega
  omega

/-! ### the primitives keep the hashpower -/

theorem addTo_hp (c : Cfg κ) (t : Table κ ν) (b s : Nat) (sl : Slot κ ν) : (t.addTo c b s sl).hp = t.hp := rfl

theorem delFrom_hp (c : Cfg κ) (t : Table κ ν) (b s : Nat) : (t.delFrom c b s).hp = t.hp := rfl

theorem setVal_hp (c : Cfg κ) (t : Table κ ν) (b s : Nat) (v : ν) : (t.setVal c b s v).hp = t.hp := by
  unfold Table.setVal
  split <;> rfl

theorem setRem_hp (t : Table κ ν) (n : Nat) : (t.setRem n).hp = t.hp := by
  unfold Table.setRem
  split <;> rfl

/-! ### the three mutually recursive procedures -/

def MIns [DecidableEq κ] (c : Cfg κ) (ν : Type) (fuel : Nat) : Prop :=
  ∀ (locked : Bool) (t : Table κ ν) (k : κ) (B : Nat), Inv c t → (locked = true → AllMig t) → B ≤ 66 → B ≤ t.hp →
    B ≤ (insertLoop c locked fuel t k).1.hp

def MDbl [DecidableEq κ] (c : Cfg κ) (ν : Type) (fuel : Nat) : Prop :=
  ∀ (locked auto : Bool) (t : Table κ ν) (B : Nat), Inv c t → (locked = true → AllMig t) → B ≤ 66 → B ≤ t.hp →
    B ≤ (fastDouble c locked auto fuel t t.hp).1.hp

def MExp [DecidableEq κ] (c : Cfg κ) (ν : Type) (fuel : Nat) : Prop :=
  ∀ (locked auto : Bool) (t : Table κ ν) (newHp B : Nat), Inv c t → B ≤ 66 → B ≤ newHp →
    match (expandSimple c locked auto fuel t newHp).2 with
    | .ok _ => B ≤ (expandSimple c locked auto fuel t newHp).1.hp
    | .err _ => True

/-- the rebuild loop: the temporary map never drops below a bound it started above -/
theorem foldl_rebuild_hp [DecidableEq κ] (c : Cfg κ) (fuel B : Nat) (hB : B ≤ 66) (hM : MIns c ν fuel) :
    ∀ (L : List (Slot κ ν)) (nm : Table κ ν), Inv c nm →
    (∀ sl ∈ L, sl.tag = c.tag sl.key) → L.Pairwise (fun a b => a.key ≠ b.key) →
    (∀ sl ∈ L, ∀ tag v, ¬ nm.Live c ⟨tag, sl.key, v⟩) → B ≤ nm.hp →
    B ≤ (L.foldl (rebuildStep c (insertLoop c false fuel)) (nm, .ok ())).1.hp := by
  have hI := (Rz.resize_all c ν fuel).1
  intro L
  induction L with
  | nil =>
    intro nm _ _ _ _ hle
    exact hle
  | cons a L ih =>
    intro nm h htag hpw hfresh hle
    rw [List.foldl_cons]
    have is := hI false nm a.key h (by intro hh; cases hh)
    have ms := hM false nm a.key B h (by intro hh; cases hh) hB hle
    rw [Rz.rebuildStep_ok]
    generalize insertLoop c false fuel nm a.key = r at is ms ⊢
    obtain ⟨nm1, res⟩ := r
    cases res with
    | err e =>
      dsimp only
      rw [Rz.foldl_rebuild_err]
      exact ms
    | ok p =>
      obtain ⟨i1, i2, _, i4⟩ := is
      dsimp only at i1 i2 i4 ms
      cases p with
      | dup b s =>
        obtain ⟨sl', hsl', hk⟩ := i4
        have : nm.Live c sl' := (i2.live sl').mp ⟨.cur b s, hsl'⟩
        exfalso
        apply hfresh a (List.mem_cons_self) sl'.tag sl'.val
        rw [← hk]; exact this
      | free b s =>
        obtain ⟨hb, hs, hempty, hmig, hnl⟩ := i4
        obtain ⟨a1, a2, _, _, _, _, _⟩ := addTo_spec c nm1 b s a.key a.val i1 hb hs hempty hmig hnl
        have ha : (⟨c.tag a.key, a.key, a.val⟩ : Slot κ ν) = a := by
          rw [← htag a List.mem_cons_self]
        dsimp only
        rw [ha] at a1 a2 ⊢
        have hpw' := List.pairwise_cons.mp hpw
        refine ih (nm1.addTo c b s a) a1 (fun sl hsl => htag sl (List.mem_cons_of_mem _ hsl)) hpw'.2 ?_ ?_
        · intro sl hsl tag v hlive
          rcases (a2 _).mp hlive with h1 | h1
          · exact hfresh sl (List.mem_cons_of_mem _ hsl) tag v ((i2.live _).mp h1)
          · have : sl.key = a.key := by rw [← h1]
            exact hpw'.1 sl hsl this.symm
        · rw [addTo_hp]; exact ms

theorem expandSimple_step [DecidableEq κ] (c : Cfg κ) (fuel : Nat) (hM : MIns c ν fuel) : MExp c ν (fuel + 1) := by
  intro locked auto t newHp B h hB hle
  have hI := (Rz.resize_all c ν fuel).1
  rw [expandSimple.eq_2]
  cases hc : t.checkResize c auto newHp with
  | some e => exact True.intro
  | none =>
    obtain ⟨m1, m2, m3, m4, m5, m6, m7, m8, m9⟩ := migrateAll_spec c t h
    dsimp only
    by_cases hlim' : newHp > c.hpLimit
    · simp only [hlim', if_true]
    · simp only [hlim', if_false]
      have hlim0 := Rz.checkResize_none hc
      have hlim : (t.migrateAll c).mhp = noMaxHp ∨ Spec.reserveCalc c.S (2 ^ newHp * c.S) ≤ (t.migrateAll c).mhp := by
        rw [m2.mhp]
        rcases hlim0 with h0 | h0
        · exact Or.inl h0
        · exact Or.inr (Nat.le_trans (Rz.reserveCalc_le _ _ h.S_pos) h0)
      obtain ⟨n1, n2, n3, n4⟩ := Rz.init_spec c (2 ^ newHp * c.S) (t.migrateAll c).workers
        (if auto = true then (t.migrateAll c).mlf else 0.0) (t.migrateAll c).mhp h.S_pos h.M_pow hlim _ rfl
      have htag : ∀ sl ∈ (t.migrateAll c).cur.elems, sl.tag = c.tag sl.key := fun sl hsl => by
        obtain ⟨b, s, hg⟩ := (Rz.mem_elems h.S_pos _ sl).mp hsl
        exact (m1.cur_wf.place b s sl hg).1
      generalize hr : List.foldl (rebuildStep c (insertLoop c false fuel)) _ _ = r
      have fr1 : Inv c r.1 := by
        rw [← hr]
        exact (Rz.foldl_rebuild c fuel hI (t.migrateAll c).cur.elems _ n1 htag
          (Rz.elems_pairwise h.S_pos _ (Rz.inv_curUniq m1))
          (fun sl _ tag v hl => n3 _ hl)).1
      have frh : B ≤ r.1.hp := by
        rw [← hr]
        exact foldl_rebuild_hp c fuel B hB hM (t.migrateAll c).cur.elems _ n1 htag
          (Rz.elems_pairwise h.S_pos _ (Rz.inv_curUniq m1))
          (fun sl _ tag v hl => n3 _ hl)
          (reserveCalc_pow_ge c.S newHp B h.S_pos hB hle)
      obtain ⟨nmf, res⟩ := r
      cases res with
      | err e => exact True.intro
      | ok a =>
        dsimp only at fr1 frh
        have k3 := (migrateAll_spec c nmf fr1).2.2.1
        show B ≤ (nmf.migrateAll c).hp
        rw [k3]; exact frh

theorem doubleCore_hp [DecidableEq κ] (c : Cfg κ) (locked : Bool) (t1 : Table κ ν) (newHp : Nat)
    (h1 : Inv c t1) (ha : AllMig t1) (hn : newHp = t1.hp + 1)
    (hlim : t1.mhp = noMaxHp ∨ t1.hp + 1 ≤ t1.mhp) :
    (Rz.doubleCore c locked t1 newHp).hp = newHp := by
  subst hn
  have hc := (Rz.maybeResizeLocks_spec' c t1 (2 ^ (t1.hp + 1)))
  unfold Rz.doubleCore
  dsimp only
  by_cases hlt : 2 ^ t1.hp < c.M
  · rw [if_pos (by rw [hc.1]; exact hlt)]
    have mvi := Rz.mv_spec h1.S_pos h1.cur_wf (Rz.inv_curUniq h1) (2 ^ t1.cur.hp) 0 _ (by omega)
      (Rz.MvInv.init c t1.cur)
    rw [setRem_hp]
    show (fastDouble.mv c (t1.maybeResizeLocks c (2 ^ (t1.hp + 1))).cur
            (2 ^ (t1.maybeResizeLocks c (2 ^ (t1.hp + 1))).cur.hp) 0 (Store.mk' c.S (t1.hp + 1))).hp = t1.hp + 1
    rw [hc.1]
    exact mvi.hp
  · have hge : c.M ≤ 2 ^ t1.hp := Nat.le_of_not_lt hlt
    have hsz : c.M ≤ t1.locks.size := by have := h1.locks_ge; omega
    rw [Rz.mrl_noop c t1 _ hsz]
    rw [if_neg (show ¬ 2 ^ t1.cur.hp < c.M from hlt)]
    have := Rz.double_lazy h1 ha hge hlim (t' := { t1 with old := some t1.cur, cur := Store.mk' c.S (t1.hp + 1), locks := t1.locks.map (fun l => ({ l with migrated := false } : Lock)), rem := t1.locks.size })
        rfl rfl rfl rfl rfl rfl rfl
    split
    · rw [(migrateAll_spec c _ this.1).2.2.1]; rfl
    · rfl

theorem fastDouble_step [DecidableEq κ] (c : Cfg κ) (fuel : Nat) (hE : MExp c ν fuel) : MDbl c ν (fuel + 1) := by
  intro locked auto t B h hl hB hle
  rw [fastDouble.eq_2]
  split
  · have hok := hE locked auto t (t.hp + 1) B h hB (by omega)
    have herr := expandSimple_err_hp c locked auto fuel t (t.hp + 1) h
    generalize expandSimple c locked auto fuel t (t.hp + 1) = r at hok herr ⊢
    obtain ⟨t', res⟩ := r
    cases res with
    | ok a => exact hok
    | err e =>
      have := herr e rfl
      dsimp only at this ⊢
      omega
  · dsimp only
    split
    · exact hle
    · rename_i hnone
      split
      · exact hle
      · obtain ⟨m1, m2, m3, m4, m5, m6, m7, m8, m9⟩ := migrateAll_spec c t h
        split
        · show B ≤ (t.migrateAll c).hp
          rw [m3]; exact hle
        · show B ≤ (Rz.doubleCore c locked (t.migrateAll c) (t.hp + 1)).hp
          have hlim : (t.migrateAll c).mhp = noMaxHp ∨ (t.migrateAll c).hp + 1 ≤ (t.migrateAll c).mhp := by
            rw [m2.mhp, m3]; exact Rz.checkResize_none hnone
          rw [doubleCore_hp c locked (t.migrateAll c) (t.hp + 1) m1 m5 (by rw [m3]) hlim]
          omega

theorem insertLoop_step [DecidableEq κ] (c : Cfg κ) (fuel : Nat) (hM : MIns c ν fuel) (hD : MDbl c ν fuel) :
    MIns c ν (fuel + 1) := by
  intro locked t k B h hl hB hle
  rw [insertLoop.eq_2]
  obtain ⟨l1, l2, l3, l4, l5⟩ := lockTwoM_spec c locked t (c.i1 t.hp k) (c.i2 t.hp k) h hl
  generalize t.lockTwoM c locked (c.i1 t.hp k) (c.i2 t.hp k) = t1 at *
  have hhp : t1.hp = t.hp := l3.hp
  have hl1 : locked = true → AllMig t1 := fun hh => l3.allmig (hl hh)
  split
  · show B ≤ t1.hp
    omega
  · have rs := runCuckoo_spec c locked t1 (c.i1 t.hp k) (c.i2 t.hp k) l1 hl1
      (by rw [hhp]; exact Rz.i1_lt c _ k) (by rw [hhp]; exact Rz.i2_lt c _ k)
    split
    · rename_i t2 b s heq
      rw [heq] at rs
      have hhp2 : t2.hp = t1.hp := rs.2.2.1.hp
      split
      · show B ≤ t2.hp
        omega
      · show B ≤ t2.hp
        omega
    · rename_i t2 heq
      rw [heq] at rs
      have hhp2 : t2.hp = t1.hp := rs.2.2.1.hp
      show B ≤ t2.hp
      omega
    · rename_i t2 heq
      rw [heq] at rs
      obtain ⟨r1, r2, r3, _⟩ := rs
      dsimp only at r1 r2 r3
      have hhp2 : t2.hp = t.hp := r3.hp.trans hhp
      have hl2 : locked = true → AllMig t2 := fun hh => r3.allmig (hl1 hh)
      have ds := hD locked true t2 B r1 hl2 hB (by omega)
      have dspec := (Rz.resize_all c ν fuel).2.1 locked true t2 t2.hp r1 hl2
      rw [hhp2] at ds dspec
      split
      · rename_i t3 e heq3
        rw [heq3] at ds
        exact ds
      · rename_i t3 a heq3
        rw [heq3] at ds dspec
        obtain ⟨d1, _, d3, _⟩ := dspec
        dsimp only at d1 d3 ds
        exact hM locked t3 k B d1 d3 hB ds

theorem mono_all [DecidableEq κ] (c : Cfg κ) (ν : Type) :
    ∀ fuel, MIns c ν fuel ∧ MDbl c ν fuel ∧ MExp c ν fuel := by
  intro fuel
  induction fuel with
  | zero =>
    refine ⟨?_, ?_, ?_⟩
    · intro locked t k B _ _ _ hle
      rw [insertLoop.eq_1]; exact hle
    · intro locked auto t B _ _ _ hle
      rw [fastDouble.eq_1]; exact hle
    · intro locked auto t newHp B _ _ _
      rw [expandSimple.eq_1]; exact True.intro
  | succ n ih =>
    exact ⟨insertLoop_step c n ih.1 ih.2.1, fastDouble_step c n ih.2.2, expandSimple_step c n ih.1⟩

/-! ### the facts used by C10 -/

/-- the insertion loop never takes the hashpower below a bound `B ≤ 66` it started above -/
theorem insertLoop_hp_ge [DecidableEq κ] (c : Cfg κ) (locked : Bool) (fuel : Nat) (t : Table κ ν) (k : κ) (B : Nat)
    (h : Inv c t) (hl : locked = true → AllMig t) (hB : B ≤ 66) (hle : B ≤ t.hp) :
    B ≤ (insertLoop c locked fuel t k).1.hp :=
  (mono_all c ν fuel).1 locked t k B h hl hB hle

/-- a successful rebuild to `newHp` ends with a hashpower of at least `min newHp 66` -/
theorem expandSimple_hp_ge [DecidableEq κ] (c : Cfg κ) (locked auto : Bool) (fuel : Nat) (t : Table κ ν)
    (newHp B : Nat) (h : Inv c t) (hB : B ≤ 66) (hle : B ≤ newHp) (b : Bool)
    (hok : (expandSimple c locked auto fuel t newHp).2 = .ok b) :
    B ≤ (expandSimple c locked auto fuel t newHp).1.hp := by
  have := (mono_all c ν fuel).2.2 locked auto t newHp B h hB hle
  rw [hok] at this
  exact this

/-- a successful rebuild was within the allocation limit -/
theorem expandSimple_ok_le_limit [DecidableEq κ] (c : Cfg κ) (locked auto : Bool) (fuel : Nat) (t : Table κ ν)
    (newHp : Nat) (b : Bool) (hok : (expandSimple c locked auto fuel t newHp).2 = .ok b) :
    newHp ≤ c.hpLimit ∧ b = true := by
  cases fuel with
  | zero => rw [expandSimple.eq_1] at hok; cases hok
  | succ fuel =>
    rw [expandSimple.eq_2] at hok
    split at hok
    · cases hok
    · dsimp only at hok
      split at hok
      · cases hok
      · rename_i hlim
        split at hok
        · cases hok
        · cases hok
          exact ⟨Nat.le_of_not_lt hlim, rfl⟩

/-- the functor tail of `uprase_fn` keeps the hashpower -/
theorem uprase_hp [DecidableEq κ] (c : Cfg κ) (locked : Bool) (t : Table κ ν) (k : κ) (v : ν)
    (ctxAware mayErase : Bool) (fn : Ctx → ν → FnOut ν) :
    (t.uprase c locked k v ctxAware mayErase fn).1.hp =
      (insertLoop c locked (c.fuel t.cur.cells.size) t k).1.hp := by
  unfold Table.uprase
  generalize insertLoop c locked (c.fuel t.cur.cells.size) t k = r
  obtain ⟨t1, res⟩ := r
  cases res with
  | err e => rfl
  | ok pos =>
    cases pos with
    | free b s =>
      dsimp only
      split
      · split
        · rfl
        · split
          · dsimp only; rw [setVal_hp]; rfl
          · dsimp only
            split
            · rw [delFrom_hp, setVal_hp]; rfl
            · rw [setVal_hp]; rfl
      · rfl
    | dup b s =>
      dsimp only
      split
      · split
        · rfl
        · split
          · dsimp only; rw [setVal_hp]
          · dsimp only
            split
            · rw [delFrom_hp, setVal_hp]
            · rw [setVal_hp]
      · rfl

end Cuckoo.Model.C10A
