import Cuckoo.Model.Inv
/-!
Helper lemmas about the flat bucket store (`get`/`set` laws) — never property statements.
-/
namespace Cuckoo.Model
open Cuckoo
variable {κ ν : Type}

theorem flat_inj {S b s b' s' : Nat} (hs : s < S) (hs' : s' < S) (h : b * S + s = b' * S + s') :
    b = b' ∧ s = s' := by
  have hS : 0 < S := by omega
  have h1 : (b * S + s) / S = b := by
    rw [Nat.mul_comm, Nat.mul_add_div hS, Nat.div_eq_of_lt hs]; simp
  have h2 : (b' * S + s') / S = b' := by
    rw [Nat.mul_comm, Nat.mul_add_div hS, Nat.div_eq_of_lt hs']; simp
  have hb : b = b' := by rw [← h1, ← h2, h]
  subst hb
  exact ⟨rfl, by omega⟩

@[simp] theorem Store.set_hp (S : Nat) (st : Store κ ν) (b s : Nat) (v) : (st.set S b s v).hp = st.hp := rfl

@[simp] theorem Store.set_size (S : Nat) (st : Store κ ν) (b s : Nat) (v) :
    (st.set S b s v).cells.size = st.cells.size := by
  simp [Store.set]

theorem Store.get_of_not_lt (S : Nat) (st : Store κ ν) (b s : Nat) (h : ¬ s < S) : st.get S b s = none := by
  simp [Store.get, h]

/-- a stored cell lies inside the array -/
theorem Store.get_some_lt {S : Nat} {st : Store κ ν} {b s : Nat} {sl : Slot κ ν}
    (h : st.get S b s = some sl) : s < S ∧ b * S + s < st.cells.size := by
  unfold Store.get at h
  split at h
  · rename_i hs
    refine ⟨hs, ?_⟩
    apply Nat.lt_of_not_le
    intro hge
    rw [Array.getD_eq_getD_getElem?, Array.getElem?_eq_none hge] at h
    simp at h
  · simp at h

theorem Store.get_some_bucket_lt {S : Nat} {st : Store κ ν} {b s : Nat} {sl : Slot κ ν}
    (hsz : st.cells.size = 2 ^ st.hp * S) (h : st.get S b s = some sl) : b < 2 ^ st.hp := by
  have ⟨hs, hlt⟩ := Store.get_some_lt h
  rw [hsz] at hlt
  apply Nat.lt_of_not_le
  intro hge
  have : 2 ^ st.hp * S ≤ b * S := Nat.mul_le_mul_right S hge
  omega

theorem Store.get_set_same (S : Nat) (st : Store κ ν) (b s : Nat) (v)
    (hs : s < S) (hlt : b * S + s < st.cells.size) : (st.set S b s v).get S b s = v := by
  simp [Store.get, Store.set, hs, Array.getD_eq_getD_getElem?, hlt]

theorem Store.get_set_other (S : Nat) (st : Store κ ν) (b s b' s' : Nat) (v)
    (hs : s < S) (hne : ¬ (b' = b ∧ s' = s)) : (st.set S b s v).get S b' s' = st.get S b' s' := by
  unfold Store.get Store.set
  by_cases hs' : s' < S
  · simp only [hs', ↓reduceIte]
    have hidx : b * S + s ≠ b' * S + s' := by
      intro h
      have := flat_inj hs hs' h
      exact hne ⟨this.1.symm, this.2.symm⟩
    simp [Array.getD_eq_getD_getElem?, Array.getElem?_setIfInBounds_ne hidx]
  · simp [hs']

/-- `set` out of range changes nothing observable -/
theorem Store.get_set (S : Nat) (st : Store κ ν) (b s b' s' : Nat) (v)
    (hs : s < S) (hlt : b * S + s < st.cells.size) :
    (st.set S b s v).get S b' s' = if b' = b ∧ s' = s then v else st.get S b' s' := by
  split
  · rename_i h; rw [h.1, h.2]; exact Store.get_set_same S st b s v hs hlt
  · rename_i h; exact Store.get_set_other S st b s b' s' v hs h

theorem Store.mk'_get (S hp b s : Nat) : (Store.mk' S hp : Store κ ν).get S b s = none := by
  unfold Store.get Store.mk'
  split
  · simp only [Array.getD_eq_getD_getElem?, Array.getElem?_replicate]
    split <;> rfl
  · rfl

theorem Store.mk'_size (S hp : Nat) : (Store.mk' S hp : Store κ ν).cells.size = 2 ^ hp * S := by
  simp [Store.mk']

@[simp] theorem Store.mk'_hp (S hp : Nat) : (Store.mk' S hp : Store κ ν).hp = hp := rfl

theorem Store.mk'_wf (c : Cfg κ) (hp : Nat) : (Store.mk' c.S hp : Store κ ν).WF c :=
  ⟨Store.mk'_size _ _, by intro b s sl h; rw [Store.mk'_get] at h; cases h⟩

end Cuckoo.Model
