import Cuckoo.Proofs.SchedAux3
/-!
Helper lemmas for `Cuckoo/Props/C01Sched.lean`, part 4: the retry loop of `run_cuckoo`, the doubling and the restart
of the insertion; the tail of `uprase_fn` written with `finishInsert`.  Never property statements.
-/
namespace Cuckoo.Model.SchedA
open Cuckoo Cuckoo.Model Cuckoo.Model.Conc Cuckoo.Model.Sched
variable {κ ν : Type} [DecidableEq κ]

section
variable (c : Cfg κ) (k : κ) (v : ν) (ca me : Bool) (fn : Ctx → ν → FnOut ν)

/-- the tail of `uprase_fn` after `cuckoo_insert_loop`, as table and response -/
def fin (r : Table κ ν × Res InsPos) : Table κ ν × Resp ν :=
  match r with
  | (t, .err e) => (t, .bool (.err e) [])
  | (t, .ok pos) => finishInsert c t k v ca me fn pos

/-- what `insertLoop` does with the outcome of `run_cuckoo` -/
def afterCuckoo (fuel hp : Nat) (r : Table κ ν × CuckooOut) : Table κ ν × Res InsPos :=
  match r with
  | (t, .ok b s) =>
    match cuckooFind c t.cur (c.i1 hp k) (c.i2 hp k) k with
    | some (b', s') => (t, .ok (.dup b' s'))
    | none => (t, .ok (.free b s))
  | (t, .fuel) => (t, .err .fuel)
  | (t, .full) =>
    match fastDouble c false true fuel t hp with
    | (t, .err e) => (t, .err e)
    | (t, .ok _) => insertLoop c false fuel t k

theorem insertLoop_succ (fuel : Nat) (t : Table κ ν) :
    insertLoop c false (fuel + 1) t k =
      match tryInsert c (t.lockTwo c (c.i1 t.hp k) (c.i2 t.hp k)).cur (c.i1 t.hp k) (c.i2 t.hp k) k with
      | .pos p => (t.lockTwo c (c.i1 t.hp k) (c.i2 t.hp k), .ok p)
      | .needCuckoo =>
        afterCuckoo c k fuel t.hp (runCuckoo c false (t.lockTwo c (c.i1 t.hp k) (c.i2 t.hp k)) (c.i1 t.hp k) (c.i2 t.hp k)) := by
  rw [insertLoop.eq_2]
  simp only [lockTwoM_false]
  cases tryInsert c (t.lockTwo c (c.i1 t.hp k) (c.i2 t.hp k)).cur (c.i1 t.hp k) (c.i2 t.hp k) k with
  | pos p => rfl
  | needCuckoo =>
    simp only
    rcases runCuckoo c false (t.lockTwo c (c.i1 t.hp k) (c.i2 t.hp k)) (c.i1 t.hp k) (c.i2 t.hp k) with ⟨t2, _ | _ | _⟩
    · rfl
    · rfl
    · rfl

/-- `uprase_fn` = `cuckoo_insert_loop` followed by `finishInsert` -/
theorem uprase_eq_fin (t : Table κ ν) :
    (t.uprase c false k v ca me fn).1 = (fin c k v ca me fn (insertLoop c false (c.fuel t.cur.cells.size) t k)).1 ∧
    Resp.bool (t.uprase c false k v ca me fn).2.1.res (t.uprase c false k v ca me fn).2.1.calls =
      (fin c k v ca me fn (insertLoop c false (c.fuel t.cur.cells.size) t k)).2 := by
  unfold Table.uprase fin
  rcases insertLoop c false (c.fuel t.cur.cells.size) t k with ⟨t1, pos | e⟩
  · cases pos with
    | free b s =>
      cases ca with
      | false => exact ⟨rfl, rfl⟩
      | true =>
        simp only [finishInsert, applyFn, Bool.true_or, if_true]
        cases (t1.addTo c b s ⟨c.tag k, k, v⟩).cur.get c.S b s with
        | none => exact ⟨rfl, rfl⟩
        | some sl =>
          simp only
          cases fn .newlyInserted sl.val with
          | throw v' => exact ⟨rfl, rfl⟩
          | ret v' er => exact ⟨rfl, rfl⟩
    | dup b s =>
      simp only [finishInsert, applyFn]
      cases ca <;>
      · cases t1.cur.get c.S b s with
        | none => exact ⟨rfl, rfl⟩
        | some sl =>
          simp only
          cases fn .alreadyExisted sl.val with
          | throw v' => exact ⟨rfl, rfl⟩
          | ret v' er => exact ⟨rfl, rfl⟩
  · exact ⟨rfl, rfl⟩

theorem uprase_res_fuel (t : Table κ ν) (hne : (t.uprase c false k v ca me fn).2.1.res ≠ .err .fuel) :
    (insertLoop c false (c.fuel t.cur.cells.size) t k).2 ≠ .err .fuel := by
  intro h
  apply hne
  unfold Table.uprase
  generalize insertLoop c false (c.fuel t.cur.cells.size) t k = r at h ⊢
  obtain ⟨t1, pos | e⟩ := r
  · cases h
  · simp only at h
    cases h
    rfl

theorem doubleSec_ok (fuel hp : Nat) (t t2 : Table κ ν) (a : Bool) (h : fastDouble c false true fuel t hp = (t2, .ok a)) :
    doubleSec c fuel hp t = (t2, none) := by
  unfold doubleSec; rw [h]

theorem doubleSec_err (fuel hp : Nat) (t t2 : Table κ ν) (e : Err) (h : fastDouble c false true fuel t hp = (t2, .err e)) :
    doubleSec c fuel hp t = (t2, some (.bool (.err e) [])) := by
  unfold doubleSec; rw [h]

/-- the attempts of `run_cuckoo`, then either the final section, or the doubling and the restart -/
theorem cuckoo_sched (hp rc dfuel : Nat) (restart : Table κ ν → List (Section κ ν))
    (hrestart : ∀ t2, (insertLoop c false dfuel t2 k).2 ≠ .err .fuel →
      Done t2 (restart t2) (fin c k v ca me fn (insertLoop c false dfuel t2 k))) :
    ∀ (fuel : Nat) (t : Table κ ν), Cur hp rc t →
      (afterCuckoo c k dfuel hp (runCuckoo.go c false (c.i1 hp k) (c.i2 hp k) hp fuel t)).2 ≠ .err .fuel →
      Done t (cuckooSched c k v ca me fn hp rc dfuel restart fuel t)
        (fin c k v ca me fn (afterCuckoo c k dfuel hp (runCuckoo.go c false (c.i1 hp k) (c.i2 hp k) hp fuel t))) := by
  intro fuel
  induction fuel with
  | zero =>
    intro t _ hne
    exact absurd rfl hne
  | succ n ih =>
    intro t hc hne
    have hq := slotSearch_quiet c hp t (c.i1 hp k) (c.i2 hp k)
    have hc1 := slotSearch_cur c hp hp rc t (c.i1 hp k) (c.i2 hp k) hc
    have hpos := slotSearch_some_pos c hp t (c.i1 hp k) (c.i2 hp k)
    simp only [runCuckoo.go] at hne ⊢
    simp only [cuckooSched]
    generalize slotSearch c false hp t (c.i1 hp k) (c.i2 hp k) = ss at hq hc1 hpos hne ⊢
    obtain ⟨t1, o⟩ := ss
    simp only at hq hc1 hpos
    refine hq.done ?_
    cases o with
    | none =>
      simp only [afterCuckoo] at hne ⊢
      rcases hfd : fastDouble c false true dfuel t1 hp with ⟨t2, a | e⟩
      · rw [hfd] at hne
        simp only at hne ⊢
        exact Done.cons (doubleSec_ok c dfuel hp t1 t2 a hfd) (hrestart t2 hne)
      · simp only
        exact Done.single (doubleSec_err c dfuel hp t1 t2 e hfd)
    | some x =>
      have hS := hpos x rfl
      have hbq := buildPath_quiet c hp t1 (c.i1 hp k) (c.i2 hp k) x
      have hbc := buildPath_cur c hp hp rc t1 (c.i1 hp k) (c.i2 hp k) x hc1
      have hbp := buildPath_path c hp t1 (c.i1 hp k) (c.i2 hp k) x hS
      simp only at hne ⊢
      refine hbq.done ?_
      generalize buildPath c false hp t1 (c.i1 hp k) (c.i2 hp k) x = bp at hbq hbc hbp hne ⊢
      obtain ⟨t2, path⟩ := bp
      simp only at hbc hbp hne ⊢
      have hpm := pathMove_sched c k v ca me fn hp rc t2 path hbc hbp.1 hbp.2
      generalize pathMove c false t2 (c.i1 hp k) (c.i2 hp k) path = pm at hpm hne ⊢
      obtain ⟨t3, ok⟩ := pm
      obtain ⟨hc3, hquiet, hdone⟩ := hpm
      simp only at hc3 hquiet hdone
      cases ok with
      | false =>
        simp only at hne ⊢
        exact (hquiet rfl).done (ih t3 hc3 hne)
      | true =>
        simp only [List.append_nil] at hne ⊢
        cases hph : path.head? with
        | none =>
          rw [hph] at hne
          exact absurd rfl hne
        | some p0 =>
          have hd := hdone p0 hph rfl
          have e : fin c k v ca me fn (afterCuckoo c k dfuel hp (t3, CuckooOut.ok p0.bucket p0.slot)) =
              tailOf c k v ca me fn hp t3 p0 := by
            unfold afterCuckoo tailOf fin
            simp only
            cases cuckooFind c t3.cur (c.i1 hp k) (c.i2 hp k) k with
            | none => rfl
            | some p => rfl
          simp only
          rw [e]
          exact hd

/-- the insertion loop -/
theorem ins_sched : ∀ (fuel : Nat) (t : Table κ ν), (insertLoop c false fuel t k).2 ≠ .err .fuel →
    Done t (insSched c k v ca me fn fuel t) (fin c k v ca me fn (insertLoop c false fuel t k)) := by
  intro fuel
  induction fuel with
  | zero =>
    intro t hne
    rw [insertLoop.eq_1] at hne
    exact absurd rfl hne
  | succ n ih =>
    intro t hne
    rw [insertLoop_succ] at hne ⊢
    simp only [insSched]
    have hc : Cur t.hp t.rc (t.lockTwo c (c.i1 t.hp k) (c.i2 t.hp k)) := Cur.lockTwo ⟨rfl, rfl⟩ c _ _
    cases htry : tryInsert c (t.lockTwo c (c.i1 t.hp k) (c.i2 t.hp k)).cur (c.i1 t.hp k) (c.i2 t.hp k) k with
    | pos p =>
      have hsec : insertTrySec c k v ca me fn t =
          ((finishInsert c (t.lockTwo c (c.i1 t.hp k) (c.i2 t.hp k)) k v ca me fn p).1,
           some (finishInsert c (t.lockTwo c (c.i1 t.hp k) (c.i2 t.hp k)) k v ca me fn p).2) := by
        unfold insertTrySec
        simp only [htry]
      exact Done.single hsec
    | needCuckoo =>
      have hsec : insertTrySec c k v ca me fn t = (t.lockTwo c (c.i1 t.hp k) (c.i2 t.hp k), none) := by
        unfold insertTrySec
        simp only [htry]
      rw [htry] at hne
      simp only at hne ⊢
      refine Done.cons hsec ?_
      have hrun : runCuckoo c false (t.lockTwo c (c.i1 t.hp k) (c.i2 t.hp k)) (c.i1 t.hp k) (c.i2 t.hp k) =
          runCuckoo.go c false (c.i1 t.hp k) (c.i2 t.hp k) t.hp 64 (t.lockTwo c (c.i1 t.hp k) (c.i2 t.hp k)) := by
        unfold runCuckoo
        rw [hc.1]
      rw [hrun] at hne ⊢
      exact cuckoo_sched c k v ca me fn t.hp t.rc n (insSched c k v ca me fn n) ih 64 _ hc hne

end

end Cuckoo.Model.SchedA
