import Cuckoo.Model.ProtoLive
import Cuckoo.Proofs.ProtoInvBase
/-!
# Helpers for `Props/C04Live.lean`: the inductive invariant of the product run `runL`
-/
namespace Cuckoo.Proto

/-- what one accepted event does to the resize counter -/
def bumpOf : Ev → Nat
  | .bumpRc _ => 1
  | _ => 0

theorem bumps_cons (e : Ev) (es : List Ev) : bumps (e :: es) = bumpOf e + bumps es := by
  cases e <;> simp [bumps, bumpOf, Nat.add_comm]

theorem accept_rc {s s' : PS} {e : Ev} (h : accept s e = some s') : s'.rc = s.rc + bumpOf e := by
  cases e <;> simp only [accept] at h <;> (repeat' split at h) <;>
    first
    | contradiction
    | (simp only [Option.some.injEq] at h; subst h; simp [bumpOf])


def isRcLoad : Ev → Bool
  | .rcLoad _ => true
  | _ => false

theorem accept_frame {s s' : PS} {e : Ev} (hne : isRcLoad e = false) (h : accept s e = some s') (u : Tid) :
    (s'.th u).snapRc = (s.th u).snapRc ∧
    ((s'.th u).pendingVal = true → (s.th u).pendingVal = true ∨
      ∃ k, e = .acquire u k ∧ (s.th u).held.isEmpty = true ∧ (s.th u).inAll = false) := by
  cases e with
  | rcLoad t => simp [isRcLoad] at hne
  | acquire t k =>
    simp only [accept] at h
    (repeat' split at h) <;> first
      | contradiction
      | (simp only [Option.some.injEq] at h; subst h
         by_cases hut : u = t
         · subst hut; simp_all
         · simp only [upd_other _ _ _ _ hut, true_and]; exact fun h => Or.inl h)
  | release t k =>
    simp only [accept] at h
    (repeat' split at h) <;> first
      | contradiction
      | (simp only [Option.some.injEq] at h; subst h
         by_cases hut : u = t
         · subst hut; simp
         · simp [upd_other _ _ _ _ hut])
  | _ =>
    simp only [accept] at h
    (repeat' split at h) <;> first
      | contradiction
      | (simp only [Option.some.injEq] at h; subst h
         try simp only [upd_apply]
         try split
         all_goals simp_all)



structure LInvT (s : PS) (l : LS) (t : Tid) : Prop where
  pn : (s.th t).pendingVal = true → l.needSnap t = false
  le : (s.th t).snapRc ≤ s.rc
  nf : l.needSnap t = true → l.fails t ≤ s.rc
  ff : l.needSnap t = false → l.fails t ≤ (s.th t).snapRc

def LInv (s : PS) (l : LS) : Prop := ∀ t, LInvT s l t

theorem linvT_frame {s s' : PS} {l l' : LS} {u : Tid} (hi : LInvT s l u) (hrc : s.rc ≤ s'.rc)
    (hsn : (s'.th u).snapRc = (s.th u).snapRc) (hf : l'.fails u = l.fails u) (hn : l'.needSnap u = l.needSnap u)
    (hp : (s'.th u).pendingVal = true → (s.th u).pendingVal = true ∨ l.needSnap u = false) : LInvT s' l' u := by
  constructor
  · intro h; rw [hn]; rcases hp h with h | h
    · exact hi.pn h
    · exact h
  · rw [hsn]; exact Nat.le_trans hi.le hrc
  · rw [hn, hf]; intro h; exact Nat.le_trans (hi.nf h) hrc
  · rw [hn, hf, hsn]; exact hi.ff

theorem stepL_not_rcLoad {s : PS} {l l' : LS} {e : Ev} (hne : isRcLoad e = false) (h : stepL s l e = some l') : l' = l := by
  cases e with
  | rcLoad t => simp [isRcLoad] at hne
  | acquire t k => simp only [stepL] at h; split at h <;> simp_all
  | _ => simp_all [stepL]

theorem stepL_acquire {s : PS} {l l' : LS} {t : Tid} {k : LockId} (h : stepL s l (.acquire t k) = some l')
    (he : (s.th t).held.isEmpty = true) (hia : (s.th t).inAll = false) : l.needSnap t = false := by
  simp only [stepL] at h; split at h
  · contradiction
  · simp_all

theorem linv_step {s s' : PS} {l l' : LS} {e : Ev} (hi : LInv s l) (ha : accept s e = some s')
    (hl : stepL s l e = some l') : LInv s' l' := by
  intro u
  have hu := hi u
  have hrc : s.rc ≤ s'.rc := by rw [accept_rc ha]; omega
  by_cases hne : isRcLoad e = false
  · have := stepL_not_rcLoad hne hl; subst this
    obtain ⟨h1, h2⟩ := accept_frame hne ha u
    refine linvT_frame hu hrc h1 rfl rfl ?_
    intro h
    rcases h2 h with h | ⟨k, rfl, h3, h4⟩
    · exact Or.inl h
    · exact Or.inr (stepL_acquire hl h3 h4)
  · cases e with
    | rcLoad t =>
      simp only [accept] at ha; simp only [stepL] at hl
      by_cases hut : u = t
      · subst hut
        by_cases hp : (s.th u).pendingVal = true
        · simp only [hp, if_true] at ha hl
          have h1 := hu.pn hp
          have h2 := hu.ff h1
          have h3 := hu.le
          split at ha
          · rename_i hr
            simp only [hr, if_true, Option.some.injEq] at hl
            simp only [Option.some.injEq] at ha
            subst ha; subst hl
            constructor <;> simp only [upd_same]
            · intro h; simp at h
            · exact h3
            · exact hu.nf
            · exact hu.ff
          · rename_i hr
            simp only [hr, if_false, Option.some.injEq] at hl
            simp only [Option.some.injEq] at ha
            subst ha; subst hl
            constructor <;> simp only [upd_same, updN, updB, if_true]
            · intro h; simp at h
            · exact h3
            · intro _; omega
            · intro h; simp at h
        · simp only [hp, Bool.false_eq_true, if_false, Option.some.injEq] at ha hl
          subst ha; subst hl
          constructor <;> simp only [upd_same, updB, if_true]
          · intro _; trivial
          · exact Nat.le_refl _
          · intro h; simp at h
          · intro _
            cases hq : l.needSnap u
            · exact Nat.le_trans (hu.ff hq) hu.le
            · exact hu.nf hq
      · have e1 : (s'.th u).snapRc = (s.th u).snapRc ∧ (s'.th u).pendingVal = (s.th u).pendingVal := by
          (repeat' split at ha) <;> (simp only [Option.some.injEq] at ha; subst ha; simp [upd_other _ _ _ _ hut])
        have e2 : l'.fails u = l.fails u ∧ l'.needSnap u = l.needSnap u := by
          (repeat' split at hl) <;> (simp only [Option.some.injEq] at hl; subst hl; simp [updN, updB, hut])
        exact linvT_frame hu hrc e1.1 e2.1 e2.2 (fun h => Or.inl (e1.2 ▸ h))
    | _ => simp [isRcLoad] at hne



theorem linv_init (hp n : Nat) : LInv (init hp n) LS.init := by
  intro t; constructor <;> simp [init, LS.init]

theorem linv_run {evs : List Ev} {s s' : PS} {l l' : LS} (hi : LInv s l) (h : runL s l evs = some (s', l')) :
    LInv s' l' := by
  induction evs generalizing s l with
  | nil => simp only [runL, Option.some.injEq, Prod.mk.injEq] at h; obtain ⟨rfl, rfl⟩ := h; exact hi
  | cons e es ih =>
    simp only [runL] at h
    split at h
    · rename_i s1 l1 ha hl; exact ih (linv_step hi ha hl) h
    · contradiction

theorem linv_fails_le {s : PS} {l : LS} (hi : LInv s l) (t : Tid) : l.fails t ≤ s.rc := by
  cases hq : l.needSnap t
  · exact Nat.le_trans ((hi t).ff hq) (hi t).le
  · exact (hi t).nf hq

theorem cur_step {s s' : PS} {l l' : LS} {e : Ev} (hc : ∀ t, (s.th t).snapRc = s.rc) (hb : bumpOf e = 0)
    (ha : accept s e = some s') (hl : stepL s l e = some l') :
    (∀ t, (s'.th t).snapRc = s'.rc) ∧ ∀ t, l'.fails t = l.fails t := by
  have hrc : s'.rc = s.rc := by rw [accept_rc ha, hb]; rfl
  by_cases hne : isRcLoad e = false
  · have := stepL_not_rcLoad hne hl; subst this
    exact ⟨fun t => by rw [(accept_frame hne ha t).1, hrc]; exact hc t, fun _ => rfl⟩
  · cases e with
    | rcLoad t =>
      simp only [accept] at ha; simp only [stepL] at hl
      constructor
      · intro u
        have := hc u
        (repeat' split at ha) <;>
          (simp only [Option.some.injEq] at ha; subst ha; simp only [upd_apply]; split <;> simp_all)
      · intro u
        have := hc t
        (repeat' split at hl) <;> first
          | contradiction
          | (simp only [Option.some.injEq] at hl; subst hl; rfl)
    | _ => simp [isRcLoad] at hne

theorem cur_run {evs : List Ev} {s s' : PS} {l l' : LS} (hc : ∀ t, (s.th t).snapRc = s.rc) (hb : bumps evs = 0)
    (h : runL s l evs = some (s', l')) (t : Tid) : l'.fails t = l.fails t := by
  induction evs generalizing s l with
  | nil => simp only [runL, Option.some.injEq, Prod.mk.injEq] at h; obtain ⟨rfl, rfl⟩ := h; rfl
  | cons e es ih =>
    rw [bumps_cons] at hb
    simp only [runL] at h
    split at h
    · rename_i s1 l1 ha hl
      obtain ⟨h1, h2⟩ := cur_step hc (by omega) ha hl
      rw [ih h1 (by omega) h, h2]
    · contradiction

theorem runL_rc {evs : List Ev} {s s' : PS} {l l' : LS} (h : runL s l evs = some (s', l')) :
    s'.rc = s.rc + bumps evs := by
  induction evs generalizing s l with
  | nil => simp only [runL, Option.some.injEq, Prod.mk.injEq] at h; obtain ⟨rfl, rfl⟩ := h; simp [bumps]
  | cons e es ih =>
    simp only [runL] at h
    split at h
    · rename_i s1 l1 ha hl
      rw [ih h, accept_rc ha, bumps_cons]; omega
    · contradiction

theorem runL_proj {evs : List Ev} {s s' : PS} {l l' : LS} (h : runL s l evs = some (s', l')) : run s evs = some s' := by
  induction evs generalizing s l with
  | nil => simp only [runL, Option.some.injEq, Prod.mk.injEq] at h; obtain ⟨rfl, rfl⟩ := h; rfl
  | cons e es ih =>
    simp only [runL] at h
    split at h
    · rename_i s1 l1 ha hl
      simp only [run, ha]; exact ih h
    · contradiction

end Cuckoo.Proto
