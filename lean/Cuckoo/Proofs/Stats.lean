import Cuckoo.Proofs.Resize
import Cuckoo.Proofs.SpecMap
/-!
Helper lemmas for the property files C05 / C17 (never property statements): abstract-map facts about keys whose
value does not change, and a small pigeonhole principle for `Nodup` lists of bounded naturals.
-/

namespace Cuckoo.Model
open Cuckoo Cuckoo.Spec
variable {κ ν : Type}

/-- rewriting a key with the value it already has does not change what the table represents -/
theorem Rel_set_same [DecidableEq κ] {c : Cfg κ} {t : Table κ ν} {m : AMap κ ν} {k : κ} {v : ν}
    (hn : (m.map Prod.fst).Nodup) (hk : m.lookup k = some v) (hr : Rel c t (m.set k v)) : Rel c t m := by
  have hmem : (k, v) ∈ m := (AMap.lookup_eq_some_iff m hn k v).mp hk
  refine ⟨?_, hn, ?_⟩
  · intro k' v'
    rw [← hr.pairs k' v', AMap.mem_set m hn k k' v v' ⟨v, hmem⟩]
    constructor
    · intro h
      by_cases e : k' = k
      · subst e
        have := (AMap.lookup_eq_some_iff m hn k' v').mpr h
        rw [hk] at this
        cases this
        exact Or.inr ⟨rfl, rfl⟩
      · exact Or.inl ⟨h, e⟩
    · rintro (⟨h, _⟩ | ⟨rfl, rfl⟩)
      · exact h
      · exact hmem
  · have := hr.count
    rwa [AMap.length_set] at this

/-- with everything migrated, the pairs of the represented map inject (by key) into the occupied cells of the
current array, so there are at most as many pairs as cells -/
theorem card_le_cells {c : Cfg κ} {t : Table κ ν} {m : AMap κ ν} (h : Inv c t) (hr : Rel c t m) (hl : AllMig t) :
    m.length ≤ t.cur.cells.size := by
  have hsub : m.map Prod.fst ⊆ t.cur.elems.map (·.key) := by
    intro k hk
    rw [List.mem_map] at hk
    obtain ⟨⟨k', v⟩, hmem, rfl⟩ := hk
    obtain ⟨tag, hlive⟩ := (hr.pairs k' v).mp hmem
    rw [Rz.live_iff_cur (fun b => hl.unmigB b)] at hlive
    rw [List.mem_map]
    exact ⟨⟨tag, k', v⟩, (Rz.mem_elems h.S_pos t.cur _).mpr hlive, rfl⟩
  have h1 := hr.nodup.length_le_of_subset hsub
  rw [List.length_map, List.length_map] at h1
  have h2 : t.cur.elems.length ≤ t.cur.cells.size := by
    unfold Store.elems
    have := List.length_filterMap_le id t.cur.cells.toList
    rwa [Array.length_toList] at this
  omega

end Cuckoo.Model
