import Cuckoo.Proofs.FrameAux3
import Cuckoo.Proofs.C02Aux
/-!
Helper lemmas for `Props/C03Frame`: composition of footprints of consecutive lock-holds, and the one whole-table
section whose effect is expressible as a stripe footprint (`clear`, which keeps hashpower, resize counter and lock
array).
-/
namespace Cuckoo.Model
open Cuckoo Cuckoo.Model.Conc Cuckoo.Model.C02A
variable {κ ν : Type}

/-- two consecutive holds write within the union of their stripes -/
theorem WritesWithin.append {c : Cfg κ} {L1 L2 : List Nat} {t t1 t2 : Table κ ν}
    (h1 : WritesWithin c L1 t t1) (h2 : WritesWithin c L2 t1 t2) : WritesWithin c (L1 ++ L2) t t2 :=
  (h1.mono (fun _ hl => List.mem_append.mpr (Or.inl hl))).trans
    (h2.mono (fun _ hl => List.mem_append.mpr (Or.inr hl)))

/-- `clear()` (under all locks) rewrites every stripe of the lock array and nothing else -/
theorem ww_clear (c : Cfg κ) (t : Table κ ν) (h : Inv c t) :
    WritesWithin c (List.range t.locks.size) t (t.clear c) := by
  rw [clear_eq]
  refine ⟨?_, ?_, ?_, rfl, ?_, rfl, rfl, ⟨rfl, rfl, rfl⟩, Or.inr ⟨rfl, rfl⟩, Nat.zero_le _⟩
  · intro b s hb
    show (Store.mk' c.S t.hp : Store κ ν).get c.S b s = _
    rw [Store.mk'_get]
    cases hg : t.cur.get c.S b s with
    | none => rfl
    | some sl =>
      exfalso
      apply hb
      rw [List.mem_range]
      exact lockInd_lt_size h (Store.get_some_bucket_lt h.cur_wf.size hg)
  · intro l hl
    have hge : t.locks.size ≤ l := by
      rw [List.mem_range] at hl; omega
    show (t.locks.map _)[l]? = _
    rw [Array.getElem?_map, Array.getElem?_eq_none hge]
    rfl
  · show (t.locks.map _).size = _
    rw [Array.size_map]
  · show (Store.mk' c.S t.hp : Store κ ν).cells.size = _
    rw [Store.mk'_size, h.cur_wf.size]
    rfl

end Cuckoo.Model
