import Cuckoo.Proofs.Defs
/-!
Chunk B — the primitive mutations of the current bucket array (`add_to_bucket`,
`del_from_bucket`, value update, one displacement hop) and completeness of the two-bucket
lookup.  Helper lemmas only.
-/
namespace Cuckoo.Model
open Cuckoo
variable {κ ν : Type}

theorem addTo_spec (c : Cfg κ) (t : Table κ ν) (b s : Nat) (k : κ) (v : ν) (h : Inv c t)
    (hb : b = c.i1 t.hp k ∨ b = c.i2 t.hp k) (hs : s < c.S)
    (hempty : t.cur.get c.S b s = none) (hmig : t.unmigB c b = false)
    (hfresh : ∀ tag v', ¬ t.Live c ⟨tag, k, v'⟩) :
    Inv c (t.addTo c b s ⟨c.tag k, k, v⟩) ∧
    (∀ sl, (t.addTo c b s ⟨c.tag k, k, v⟩).Live c sl ↔ (t.Live c sl ∨ sl = ⟨c.tag k, k, v⟩)) ∧
    (t.addTo c b s ⟨c.tag k, k, v⟩).sumCnt = t.sumCnt + 1 ∧
    Keeps c t (t.addTo c b s ⟨c.tag k, k, v⟩) ∧
    (t.addTo c b s ⟨c.tag k, k, v⟩).mlf = t.mlf ∧ (t.addTo c b s ⟨c.tag k, k, v⟩).mhp = t.mhp ∧
    (t.addTo c b s ⟨c.tag k, k, v⟩).workers = t.workers := by
  sorry

theorem delFrom_spec (c : Cfg κ) (t : Table κ ν) (b s : Nat) (sl : Slot κ ν) (h : Inv c t)
    (hget : t.cur.get c.S b s = some sl) :
    Inv c (t.delFrom c b s) ∧
    (∀ x, (t.delFrom c b s).Live c x ↔ (t.Live c x ∧ x.key ≠ sl.key)) ∧
    (t.delFrom c b s).sumCnt = t.sumCnt - 1 ∧
    Keeps c t (t.delFrom c b s) ∧
    (t.delFrom c b s).mlf = t.mlf ∧ (t.delFrom c b s).mhp = t.mhp ∧ (t.delFrom c b s).workers = t.workers := by
  sorry

theorem setVal_spec (c : Cfg κ) (t : Table κ ν) (b s : Nat) (sl : Slot κ ν) (v : ν) (h : Inv c t)
    (hget : t.cur.get c.S b s = some sl) :
    Inv c (t.setVal c b s v) ∧
    (∀ x, (t.setVal c b s v).Live c x ↔ ((t.Live c x ∧ x.key ≠ sl.key) ∨ x = { sl with val := v })) ∧
    (t.setVal c b s v).sumCnt = t.sumCnt ∧
    (t.setVal c b s v).cur.get c.S b s = some { sl with val := v } ∧
    Keeps c t (t.setVal c b s v) ∧
    (t.setVal c b s v).mlf = t.mlf ∧ (t.setVal c b s v).mhp = t.mhp ∧ (t.setVal c b s v).workers = t.workers := by
  sorry

/-- a validated hop moves one element to its alternate bucket: nothing observable changes -/
theorem hop_spec (c : Cfg κ) (t t' : Table κ ν) (fr to : PathRec) (h : Inv c t)
    (hhop : hop c t fr to = some t')
    (halt : to.bucket = Spec.altIndex t.hp (Spec.partialKey fr.hash) fr.bucket)
    (hslot : to.slot < c.S) (hmig : t.unmigB c to.bucket = false) :
    Inv c t' ∧ Same c t t' ∧ Keeps c t t' ∧ t'.cur.get c.S fr.bucket fr.slot = none ∧
    t'.locks = t.locks ∧ t'.old = t.old := by
  sorry

/-- a failed validation changes nothing (trivially: `hop` returns `none`) -/
theorem hop_none_or_some (c : Cfg κ) (t : Table κ ν) (fr to : PathRec) :
    hop c t fr to = none ∨ ∃ t', hop c t fr to = some t' := by
  cases h : hop c t fr to <;> simp

/-- completeness and soundness of the two-bucket lookup once both stripes are migrated -/
theorem cuckooFind_spec [DecidableEq κ] (c : Cfg κ) (t : Table κ ν) (k : κ) (h : Inv c t)
    (h1 : t.unmigB c (c.i1 t.hp k) = false) (h2 : t.unmigB c (c.i2 t.hp k) = false) :
    match cuckooFind c t.cur (c.i1 t.hp k) (c.i2 t.hp k) k with
    | some (b, s) => ∃ sl, t.cur.get c.S b s = some sl ∧ sl.key = k ∧ (b = c.i1 t.hp k ∨ b = c.i2 t.hp k)
    | none => ∀ tag v, ¬ t.Live c ⟨tag, k, v⟩ := by
  sorry

/-- the two scans of `cuckoo_insert` -/
theorem tryInsert_spec [DecidableEq κ] (c : Cfg κ) (t : Table κ ν) (k : κ) (h : Inv c t)
    (h1 : t.unmigB c (c.i1 t.hp k) = false) (h2 : t.unmigB c (c.i2 t.hp k) = false) :
    match tryInsert c t.cur (c.i1 t.hp k) (c.i2 t.hp k) k with
    | .pos p => InsOK c t k p
    | .needCuckoo => ∀ tag v, ¬ t.Live c ⟨tag, k, v⟩ := by
  sorry

end Cuckoo.Model
