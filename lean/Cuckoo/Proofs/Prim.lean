import Cuckoo.Proofs.PrimAux
/-!
Chunk B — the primitive mutations of the current bucket array (`add_to_bucket`,
`del_from_bucket`, value update, one displacement hop) and completeness of the two-bucket
lookup.  Helper lemmas only.  (Auxiliary lemmas live in `Cuckoo/Proofs/PrimAux.lean`.)
-/
namespace Cuckoo.Model
open Cuckoo
variable {κ ν : Type}

theorem addTo_spec (c : Cfg κ) (t : Table κ ν) (b s : Nat) (k : κ) (v : ν) (h : Inv c t)
    (hb : b = c.i1 t.hp k ∨ b = c.i2 t.hp k) (hs : s < c.S)
    (hempty : t.cur.get c.S b s = none) (hmig : t.unmigB c b = false)
    (hfresh : ∀ tag v', ¬ t.Live c ⟨tag, k, v'⟩) :
    Inv c (t.addTo c b s ⟨c.tag k, k, v⟩) ∧
    (∀ sl, (t.addTo c b s ⟨c.tag k, k, v⟩).Live c sl ↔ (t.Live c sl ∨ sl = ⟨c.tag k, k, v⟩)) ∧
    (t.addTo c b s ⟨c.tag k, k, v⟩).sumCnt = t.sumCnt + 1 ∧
    Keeps c t (t.addTo c b s ⟨c.tag k, k, v⟩) ∧
    (t.addTo c b s ⟨c.tag k, k, v⟩).mlf = t.mlf ∧ (t.addTo c b s ⟨c.tag k, k, v⟩).mhp = t.mhp ∧
    (t.addTo c b s ⟨c.tag k, k, v⟩).workers = t.workers := by
  have hblt : b < 2 ^ t.hp := by
    rcases hb with rfl | rfl
    · exact Spec.indexHash_lt _ _
    · exact Spec.altIndex_lt _ _ _
  have hlt := cell_lt h hblt hs
  show Inv c (t.upd c b s (some ⟨c.tag k, k, v⟩) 1) ∧
    (∀ sl, (t.upd c b s (some ⟨c.tag k, k, v⟩) 1).Live c sl ↔ (t.Live c sl ∨ sl = ⟨c.tag k, k, v⟩)) ∧
    (t.upd c b s (some ⟨c.tag k, k, v⟩) 1).sumCnt = t.sumCnt + 1 ∧
    Keeps c t (t.upd c b s (some ⟨c.tag k, k, v⟩) 1) ∧ _
  have fr := upd_frame c t b s (some ⟨c.tag k, k, v⟩) 1
  have hg := upd_get (t := t) (some ⟨c.tag k, k, v⟩) 1 hs hlt
  have hat := upd_at (t := t) (some ⟨c.tag k, k, v⟩) 1 hs hlt
  refine ⟨?_, ?_, upd_sumCnt h s _ 1 hblt, fr.keeps c, rfl, rfl, rfl⟩
  · refine fr.inv h ?_ ?_ ?_
    · intro b' s' sl hsl
      rw [hg] at hsl
      split at hsl
      · rename_i e
        cases hsl
        exact ⟨rfl, by rw [e.1]; exact hb⟩
      · exact h.cur_wf.place b' s' sl hsl
    · intro b' s' hu
      rw [hg]
      split
      · rename_i e
        rw [e.1, hmig] at hu
        cases hu
      · exact h.unmig_empty b' s' hu
    · apply uniq_of_at h hat
      intro x hx p sl _ hp hk
      cases hx
      exact hfresh sl.tag sl.val ⟨p, by rw [hp]; cases sl; simp at hk; simp [hk]⟩
  · intro sl
    rw [live_of_at hat, others_of_none (show t.at c (.cur b s) = none from hempty)]
    constructor
    · rintro (h1 | h1)
      · exact .inl h1
      · cases h1; exact .inr rfl
    · rintro (h1 | h1)
      · exact .inl h1
      · exact .inr (by rw [h1])

theorem delFrom_spec (c : Cfg κ) (t : Table κ ν) (b s : Nat) (sl : Slot κ ν) (h : Inv c t)
    (hget : t.cur.get c.S b s = some sl) :
    Inv c (t.delFrom c b s) ∧
    (∀ x, (t.delFrom c b s).Live c x ↔ (t.Live c x ∧ x.key ≠ sl.key)) ∧
    (t.delFrom c b s).sumCnt = t.sumCnt - 1 ∧
    Keeps c t (t.delFrom c b s) ∧
    (t.delFrom c b s).mlf = t.mlf ∧ (t.delFrom c b s).mhp = t.mhp ∧ (t.delFrom c b s).workers = t.workers := by
  have hblt : b < 2 ^ t.hp := Store.get_some_bucket_lt h.cur_wf.size hget
  obtain ⟨hs, hlt⟩ := Store.get_some_lt hget
  show Inv c (t.upd c b s none (-1)) ∧
    (∀ x, (t.upd c b s none (-1)).Live c x ↔ (t.Live c x ∧ x.key ≠ sl.key)) ∧
    (t.upd c b s none (-1)).sumCnt = t.sumCnt - 1 ∧
    Keeps c t (t.upd c b s none (-1)) ∧ _
  have fr := upd_frame c t b s none (-1)
  have hg := upd_get (t := t) none (-1) hs hlt
  have hat := upd_at (t := t) none (-1) hs hlt
  refine ⟨?_, ?_, upd_sumCnt h s _ (-1) hblt, fr.keeps c, rfl, rfl, rfl⟩
  · refine fr.inv h ?_ ?_ ?_
    · intro b' s' sl hsl
      rw [hg] at hsl
      split at hsl
      · cases hsl
      · exact h.cur_wf.place b' s' sl hsl
    · intro b' s' hu
      rw [hg]
      split
      · rfl
      · exact h.unmig_empty b' s' hu
    · apply uniq_of_at h hat
      intro x hx
      cases hx
  · intro x
    rw [live_of_at hat, others_of_some h (show t.at c (.cur b s) = some sl from hget)]
    simp

theorem setVal_spec (c : Cfg κ) (t : Table κ ν) (b s : Nat) (sl : Slot κ ν) (v : ν) (h : Inv c t)
    (hget : t.cur.get c.S b s = some sl) :
    Inv c (t.setVal c b s v) ∧
    (∀ x, (t.setVal c b s v).Live c x ↔ ((t.Live c x ∧ x.key ≠ sl.key) ∨ x = { sl with val := v })) ∧
    (t.setVal c b s v).sumCnt = t.sumCnt ∧
    (t.setVal c b s v).cur.get c.S b s = some { sl with val := v } ∧
    Keeps c t (t.setVal c b s v) ∧
    (t.setVal c b s v).mlf = t.mlf ∧ (t.setVal c b s v).mhp = t.mhp ∧ (t.setVal c b s v).workers = t.workers := by
  have hblt : b < 2 ^ t.hp := Store.get_some_bucket_lt h.cur_wf.size hget
  obtain ⟨hs, hlt⟩ := Store.get_some_lt hget
  have e : t.setVal c b s v = { t with cur := t.cur.set c.S b s (some { sl with val := v }) } := by
    unfold Table.setVal; rw [hget]
  rw [e]
  have fr : Frame t { t with cur := t.cur.set c.S b s (some { sl with val := v }) } :=
    ⟨rfl, by simp, rfl, rfl, fun _ => rfl, rfl, rfl, rfl⟩
  have hg : ∀ b' s', ({ t with cur := t.cur.set c.S b s (some { sl with val := v }) } : Table κ ν).cur.get c.S b' s' =
      if b' = b ∧ s' = s then some { sl with val := v } else t.cur.get c.S b' s' :=
    fun b' s' => Store.get_set c.S t.cur b s b' s' _ hs hlt
  have hat := at_of_get fr hg
  have hq : t.at c (.cur b s) = some sl := hget
  refine ⟨?_, ?_, rfl, ?_, fr.keeps c, rfl, rfl, rfl⟩
  · refine fr.inv h ?_ ?_ ?_
    · intro b' s' x hx
      rw [hg] at hx
      split at hx
      · rename_i e
        cases hx
        rw [e.1]
        exact h.cur_wf.place b s sl hget
      · exact h.cur_wf.place b' s' x hx
    · intro b' s' hu
      rw [hg]
      split
      · rename_i e
        rw [e.1] at hu
        have := h.unmig_empty b s hu
        rw [hget] at this; cases this
      · exact h.unmig_empty b' s' hu
    · apply uniq_of_at h hat
      intro x hx p y hne hp hk
      cases hx
      exact hne (h.uniq p _ y sl hp hq hk)
  · intro x
    rw [live_of_at hat, others_of_some h hq]
    constructor
    · rintro (h1 | h1)
      · exact .inl h1
      · cases h1; exact .inr rfl
    · rintro (h1 | h1)
      · exact .inl h1
      · exact .inr (by rw [h1])
  · rw [hg, if_pos ⟨rfl, rfl⟩]

/-- a validated hop moves one element to its alternate bucket: nothing observable changes -/
theorem hop_spec (c : Cfg κ) (t t' : Table κ ν) (fr to : PathRec) (h : Inv c t)
    (hhop : hop c t fr to = some t')
    (halt : to.bucket = Spec.altIndex t.hp (Spec.partialKey fr.hash) fr.bucket)
    (hslot : to.slot < c.S) (hmig : t.unmigB c to.bucket = false) :
    Inv c t' ∧ Same c t t' ∧ Keeps c t t' ∧ t'.cur.get c.S fr.bucket fr.slot = none ∧
    t'.locks = t.locks ∧ t'.old = t.old := by
  unfold hop at hhop
  split at hhop
  · rename_i sl hto hfr
    split at hhop
    · rename_i hh
      cases hhop
      -- facts about the moved element
      obtain ⟨hfs, hflt⟩ := Store.get_some_lt hfr
      obtain ⟨htag, hplace⟩ := h.cur_wf.place _ _ _ hfr
      have htb : to.bucket < 2 ^ t.hp := by rw [halt]; exact Spec.altIndex_lt _ _ _
      have htlt := cell_lt h htb hslot
      have hpk : Spec.partialKey fr.hash = c.tag sl.key := by rw [← hh]; rfl
      have hto_place : to.bucket = c.i1 t.hp sl.key ∨ to.bucket = c.i2 t.hp sl.key := by
        rw [halt, hpk]
        rcases hplace with e | e
        · right; rw [e]; rfl
        · left; rw [e]
          show Spec.altIndex t.hp (c.tag sl.key) (Spec.altIndex t.hp (c.tag sl.key) (c.i1 t.hp sl.key)) = _
          exact Spec.altIndex_invol _ _ _ (Spec.indexHash_lt _ _)
      have hne : ¬ (fr.bucket = to.bucket ∧ fr.slot = to.slot) := by
        intro e
        rw [e.1, e.2, hto] at hfr
        cases hfr
      -- the cells of the result
      have hg : ∀ b' s', ((t.cur.set c.S to.bucket to.slot (some sl)).set c.S fr.bucket fr.slot none).get c.S b' s' =
          if b' = fr.bucket ∧ s' = fr.slot then none
          else if b' = to.bucket ∧ s' = to.slot then some sl else t.cur.get c.S b' s' := by
        intro b' s'
        rw [Store.get_set _ _ _ _ _ _ _ hfs (by simpa using hflt), Store.get_set _ _ _ _ _ _ _ hslot htlt]
      have F : Frame t { t with cur := (t.cur.set c.S to.bucket to.slot (some sl)).set c.S fr.bucket fr.slot none } :=
        ⟨rfl, by simp, rfl, rfl, fun _ => rfl, rfl, rfl, rfl⟩
      generalize hT : ({ t with cur := (t.cur.set c.S to.bucket to.slot (some sl)).set c.S fr.bucket fr.slot none } : Table κ ν) = T at F
      have hg' : ∀ b' s', T.cur.get c.S b' s' =
          if b' = fr.bucket ∧ s' = fr.slot then none
          else if b' = to.bucket ∧ s' = to.slot then some sl else t.cur.get c.S b' s' := by
        rw [← hT]; exact hg
      have hat : ∀ p, T.at c p = if p = .cur fr.bucket fr.slot then none
          else if p = .cur to.bucket to.slot then some sl else t.at c p := by
        intro p
        cases p with
        | cur b' s' =>
          show T.cur.get c.S b' s' = _
          rw [hg']
          simp only [Loc.cur.injEq]
          rfl
        | old b' s' =>
          rw [F.at_old]
          simp
      have hqf : t.at c (.cur fr.bucket fr.slot) = some sl := hfr
      have hqt : t.at c (.cur to.bucket to.slot) = none := hto
      have hnel : Loc.cur to.bucket to.slot ≠ Loc.cur fr.bucket fr.slot := by
        intro e
        rw [e, hqf] at hqt
        cases hqt
      refine ⟨?_, ⟨?_, ?_, ?_, ?_, ?_⟩, F.keeps c, ?_, ?_, ?_⟩
      · refine F.inv h ?_ ?_ ?_
        · intro b' s' x hx
          rw [hg'] at hx
          split at hx
          · cases hx
          · split at hx
            · rename_i e
              cases hx
              rw [e.1]
              exact ⟨htag, hto_place⟩
            · exact h.cur_wf.place b' s' x hx
        · intro b' s' hu
          rw [hg']
          split
          · rfl
          · split
            · rename_i e
              rw [e.1, hmig] at hu
              cases hu
            · exact h.unmig_empty b' s' hu
        · intro p p' x x' hp hp' hk
          rw [hat] at hp hp'
          split at hp
          · cases hp
          split at hp'
          · cases hp'
          rename_i n1 n2
          by_cases e : p = .cur to.bucket to.slot <;> by_cases e' : p' = .cur to.bucket to.slot
          · rw [e, e']
          · rw [if_pos e] at hp; rw [if_neg e'] at hp'
            cases hp
            exact absurd (h.uniq _ _ _ _ hp' hqf hk.symm) n2
          · rw [if_neg e] at hp; rw [if_pos e'] at hp'
            cases hp'
            exact absurd (h.uniq _ _ _ _ hp hqf hk) n1
          · rw [if_neg e] at hp; rw [if_neg e'] at hp'
            exact h.uniq _ _ _ _ hp hp' hk
      · intro x
        constructor
        · rintro ⟨p, hp⟩
          rw [hat] at hp
          split at hp
          · cases hp
          · split at hp
            · cases hp; exact ⟨_, hqf⟩
            · exact ⟨p, hp⟩
        · rintro ⟨p, hp⟩
          by_cases e : p = .cur fr.bucket fr.slot
          · refine ⟨.cur to.bucket to.slot, ?_⟩
            rw [hat, if_neg hnel, if_pos rfl, ← hqf, ← e, hp]
          · refine ⟨p, ?_⟩
            rw [hat, if_neg e, if_neg]
            · exact hp
            · intro e'
              rw [e', hqt] at hp
              cases hp
      · rw [← hT]; rfl
      · rw [← hT]
      · rw [← hT]
      · rw [← hT]
      · rw [hg', if_pos ⟨rfl, rfl⟩]
      · rw [← hT]
      · rw [← hT]
    · cases hhop
  · cases hhop

/-- a failed validation changes nothing (trivially: `hop` returns `none`) -/
theorem hop_none_or_some (c : Cfg κ) (t : Table κ ν) (fr to : PathRec) :
    hop c t fr to = none ∨ ∃ t', hop c t fr to = some t' := by
  cases h : hop c t fr to <;> simp

/-- completeness and soundness of the two-bucket lookup once both stripes are migrated -/
theorem cuckooFind_spec [DecidableEq κ] (c : Cfg κ) (t : Table κ ν) (k : κ) (h : Inv c t)
    (h1 : t.unmigB c (c.i1 t.hp k) = false) (h2 : t.unmigB c (c.i2 t.hp k) = false) :
    match cuckooFind c t.cur (c.i1 t.hp k) (c.i2 t.hp k) k with
    | some (b, s) => ∃ sl, t.cur.get c.S b s = some sl ∧ sl.key = k ∧ (b = c.i1 t.hp k ∨ b = c.i2 t.hp k)
    | none => ∀ tag v, ¬ t.Live c ⟨tag, k, v⟩ := by
  unfold cuckooFind
  cases e1 : findInBucket c t.cur (c.i1 t.hp k) k with
  | some s =>
    obtain ⟨sl, hg, hk⟩ := findInBucket_some e1
    exact ⟨sl, hg, hk, .inl rfl⟩
  | none =>
    cases e2 : findInBucket c t.cur (c.i2 t.hp k) k with
    | some s =>
      obtain ⟨sl, hg, hk⟩ := findInBucket_some e2
      exact ⟨sl, hg, hk, .inr rfl⟩
    | none =>
      exact not_live_of_noKey h h1 h2 (findInBucket_none e1) (findInBucket_none e2)

/-- the two scans of `cuckoo_insert` -/
theorem tryInsert_spec [DecidableEq κ] (c : Cfg κ) (t : Table κ ν) (k : κ) (h : Inv c t)
    (h1 : t.unmigB c (c.i1 t.hp k) = false) (h2 : t.unmigB c (c.i2 t.hp k) = false) :
    match tryInsert c t.cur (c.i1 t.hp k) (c.i2 t.hp k) k with
    | .pos p => InsOK c t k p
    | .needCuckoo => ∀ tag v, ¬ t.Live c ⟨tag, k, v⟩ := by
  unfold tryInsert
  cases e1 : scanForInsert c t.cur (c.i1 t.hp k) k with
  | dup s => exact scan_dup e1
  | free r1 =>
    cases e2 : scanForInsert c t.cur (c.i2 t.hp k) k with
    | dup s => exact scan_dup e2
    | free r2 =>
      obtain ⟨n1, f1⟩ := scan_free e1
      obtain ⟨n2, f2⟩ := scan_free e2
      have nl := not_live_of_noKey h h1 h2 n1 n2
      cases r1 with
      | some s =>
        obtain ⟨a, a'⟩ := f1 s rfl
        exact ⟨.inl rfl, a, a', h1, nl⟩
      | none =>
        cases r2 with
        | some s =>
          obtain ⟨a, a'⟩ := f2 s rfl
          exact ⟨.inr rfl, a, a', h2, nl⟩
        | none => exact nl

end Cuckoo.Model
